#!/bin/bash
# regenerate coq/_CoqProject from the files present (Base first); regenerate the Makefile when it changed
cd "$(dirname "$0")/../coq"
{ echo "-Q . PPV"; ls Base/*.v; ls C[0-9]*/*.v 2>/dev/null | sort; ls Properties/*.v 2>/dev/null | sort; } > _CoqProject.new
if ! cmp -s _CoqProject.new _CoqProject || [ ! -f Makefile ]; then
  mv _CoqProject.new _CoqProject
  coq_makefile -f _CoqProject -o Makefile >/dev/null
else
  rm -f _CoqProject.new
fi
