#!/venv/bin/python
"""Regenerates /verif/MANIFEST.json from tools/claims.json (one entry per claimed property)."""
import json, os
V = "/verif"
claims = json.load(open(os.path.join(V, "tools", "claims.json")))
import glob
for f in sorted(glob.glob(os.path.join(V, "tools", "claims.d", "*.json"))):
    claims.update(json.load(open(f)))
no_thorough = set(open(os.path.join(V, "tools", "no_thorough.txt")).read().split()) if os.path.exists(os.path.join(V, "tools", "no_thorough.txt")) else set()
approved = set(open(os.path.join(V, "tools", "claimed.txt")).read().split())
props = [json.loads(l) for l in open(os.path.join(V, "properties.jsonl"))]
baseline = json.load(open("/root/.vp/BASELINE.json"))["cmd"]
hooks_commits = claims.get("_fix_commits", [])
checks, na = [], []
for p in props:
    pid = p["id"]
    c = claims.get(pid)
    if c is None or c.get("not_applicable") or pid not in approved:
        na.append({"property_id": pid, "reason": (c or {}).get("not_applicable", "no Coq model of this property's kernel has been built yet in this revision (design in DESIGN.md section 6); nothing is claimed for it")})
        continue
    checks.append({k: v for k, v in {
        "property_id": pid,
        "quick_cmd": "./check %s --tier quick" % pid,
        "thorough_cmd": "./check %s --tier thorough" % pid,
        "evidence_file": "/verif/evidence/%s.json" % pid,
        "replay_cmd_template": "./check %s --replay {path}" % pid,
        "engine": "coq-model+correspondence",
        "level_claimed": {"category": "proof", "text": c["text"], "design_ref": "DESIGN.md section 6, %s" % pid},
        "level_note": c["note"],
        "technique": c.get("technique", "Coq theorems on a Gallina model + differential correspondence (vm_compute) + spec oracle on the impl"),
    }.items() if not (k == "thorough_cmd" and pid in no_thorough)})
m = {
    "version": 1,
    "setup_cmd": "/verif/tools/setup.sh",
    "hooks": {"guard": "E2NIEE_PANDAPOWER_VERIF",
              "enable": "export E2NIEE_PANDAPOWER_VERIF=1 (exported by ./check; no source hook is present, fault injection is external via monkeypatch/sys.settrace)",
              "baseline_off_cmd": baseline.replace("--junitxml=<file>", "--junitxml=/tmp/verif_baseline.junit.xml"),
              "source_commits": hooks_commits, "add_only": True},
    "engines": [{"name": "coq-model+correspondence", "path": "/verif/check",
                 "serves_properties": [c["property_id"] for c in checks],
                 "kind_free_text": "Coq 8.16 theorems over hand-written Gallina models (coq/), tied to /repo by a differential correspondence run (harness/) that evaluates the model with vm_compute and the implementation on the same generated inputs, plus the property's spec evaluated on the implementation's end-to-end results as failing-input search"}],
    "checks": checks,
    "not_applicable": na,
    "notes": "See DESIGN.md. known_findings.json lists recorded defects (known) and repaired ones (fixed, suppress nothing).",
}
json.dump(m, open(os.path.join(V, "MANIFEST.json"), "w"), indent=1)
print("claimed", len(checks), "not_applicable", len(na))
