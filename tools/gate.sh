#!/bin/bash
# fails if the Coq development declares axioms, leaves admits or switches off kernel checks
cd /verif/coq
if grep -rnE '\b(Admitted|admit|Axiom|Axioms|Parameter|Parameters|Conjecture|Abort All)\b|Unset Guard|bypass_check|type-in-type|impredicative-set|Admit Obligations' --include='*.v' . ; then
  echo "GATE: forbidden declaration found" >&2; exit 1
fi
# Variable/Hypothesis outside a Section
/venv/bin/python - <<'PY'
import re,sys,glob
bad=[]
for f in glob.glob('/verif/coq/**/*.v',recursive=True):
    depth=0
    for n,l in enumerate(open(f),1):
        if re.match(r'\s*Section\s',l): depth+=1
        elif re.match(r'\s*End\s',l) and depth>0: depth-=1
        elif re.match(r'\s*(Variables?|Hypothes[ie]s|Context)\b',l) and depth==0: bad.append((f,n,l.strip()))
if bad:
    print("GATE: Variable/Hypothesis outside Section:",bad,file=sys.stderr); sys.exit(1)
PY
