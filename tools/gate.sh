#!/bin/bash
# usage: gate.sh [ids...]   (no ids = every .v file)
# fails if the Coq development declares axioms, leaves admits or switches off kernel checks
cd "$(dirname "$0")/../coq"
if [ $# -eq 0 ]; then files=$(find . -name '*.v' | sort); else
  files=$(ls Base/*.v); for i in "$@"; do files="$files $(ls $i/*.v 2>/dev/null) Properties/$i.v"; done
  # Base files prefixed with an unclaimed property id are only checked when that property is claimed: keep all Base files that compiled
fi
bad=0
for f in $files; do
  [ -f "$f" ] || continue
  # strip comments before matching
  if /venv/bin/python - "$f" <<'PY'
import re,sys
s=open(sys.argv[1]).read()
# remove (nested) comments
out=[];depth=0;i=0
while i<len(s):
    if s.startswith('(*',i): depth+=1;i+=2;continue
    if s.startswith('*)',i) and depth>0: depth-=1;i+=2;continue
    if depth==0: out.append(s[i])
    elif s[i]=='\n': out.append('\n')
    i+=1
t=''.join(out)
pat=re.compile(r'\b(Admitted|admit|Axiom|Axioms|Parameter|Parameters|Conjecture|Conjectures)\b|Unset\s+Guard|bypass_check|type-in-type|impredicative-set|Admit\s+Obligations|Unset\s+Universe\s+Checking|Unset\s+Positivity')
bad=[(n,l) for n,l in enumerate(t.split('\n'),1) if pat.search(l)]
depth=0
for n,l in enumerate(t.split('\n'),1):
    if re.match(r'\s*Section\s',l): depth+=1
    elif re.match(r'\s*End\s',l) and depth>0: depth-=1
    elif re.match(r'\s*(Variables?|Hypothes[ie]s|Context)\b',l) and depth==0: bad.append((n,l))
for n,l in bad: print("GATE %s:%d: %s"%(sys.argv[1],n,l.strip()))
sys.exit(1 if bad else 0)
PY
  then :; else bad=1; fi
done
if [ $bad -ne 0 ]; then echo "GATE: forbidden declaration found" >&2; exit 1; fi
echo "gate ok"
