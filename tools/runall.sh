#!/bin/bash
# usage: tools/runall.sh [-j N] [--tier quick] ids...   -> one summary line per id, logs in .cache/runall/
cd /verif; J=4; TIER=quick
while [[ "$1" == -* ]]; do case "$1" in -j) J=$2; shift 2;; --tier) TIER=$2; shift 2;; esac; done
mkdir -p .cache/runall
printf "%s\n" "$@" | xargs -P $J -I{} bash -c './check {} --tier '$TIER' > .cache/runall/{}.log 2>&1; echo "{} exit=$? $(grep -c "^VIOLATION" .cache/runall/{}.log) violations, $(grep -c "^KNOWN-FINDING" .cache/runall/{}.log) known | $(tail -1 .cache/runall/{}.log | cut -c1-230)"'
