#!/venv/bin/python
import sys, json
pid, wt, out, n = sys.argv[1], sys.argv[2], sys.argv[3], sys.argv[4]
p = [json.loads(l) for l in open('/verif/properties.jsonl') if json.loads(l)['id'] == pid][0]
t = open('/verif/.cache/mutant_prompt.txt').read()
t = t.replace('__WT__', wt).replace('__OUT__', out).replace('__N__', n).replace('__ID__', pid).replace('__TITLE__', p['title'])
t = t.replace('__STATEMENT__', p['statement']).replace('__QUANT__', p['quantifier']['text'])
print(t)
