#!/bin/bash
# setup_cmd: build (full .vo, no -vos) the Coq development of every claimed property and run the gate on it
set -e
V="$(cd "$(dirname "$0")/.." && pwd)"
cd "$V"
ids=$(/venv/bin/python -c "import json; print(' '.join(c['property_id'] for c in json.load(open('MANIFEST.json'))['checks']))")
tools/mkcoqproject.sh
cd coq
targets=""
for i in $ids; do targets="$targets Properties/$i.vo"; done
timeout 3000 make -j16 $targets
cd "$V"
tools/gate.sh $ids
mkdir -p .cache/numba evidence replays
echo "setup ok: $ids"
