#!/venv/bin/python
"""compare a junit xml of the baseline command with /root/.vp/BASELINE.json stable_pass"""
import sys, json, xml.etree.ElementTree as ET
base = json.load(open("/root/.vp/BASELINE.json"))
stable = set(base["stable_pass"])
root = ET.parse(sys.argv[1]).getroot()
passed, failed = set(), set()
for tc in root.iter("testcase"):
    tid = "%s::%s" % (tc.get("classname"), tc.get("name"))
    bad = any(ch.tag in ("failure", "error") for ch in tc)
    skipped = any(ch.tag == "skipped" for ch in tc)
    if bad:
        failed.add(tid)
    elif not skipped:
        passed.add(tid)
missing = sorted(stable - passed)
print("stable_pass %d, passed now %d, stable tests not passing now: %d" % (len(stable), len(passed), len(missing)))
for m in missing[:40]:
    print("  NOT PASSING:", m, "(failed)" if m in failed else "(absent/skipped)")
print("newly passing (not in stable):", len(passed - stable))
sys.exit(1 if missing else 0)
