#!/venv/bin/python
"""Rebuilds known_findings.json: `fixed` entries from the fix: commits of /repo (subject -> property via the
.msg files of .cache/fixes and the table below), `known` entries = the ones already in known_findings.json
plus (with --merge) the entries of known_findings.d/*.json, which are then removed."""
import json, glob, os, subprocess, sys
V = "/verif"
subjects = subprocess.run(["git", "-C", "/repo", "log", "--format=%s", "23357857b..HEAD"], capture_output=True, text=True).stdout.strip().split("\n")
by_subject = {}
for f in glob.glob(f"{V}/.cache/fixes/*.msg") + glob.glob(f"{V}/fixes/*.msg"):
    name = os.path.basename(f)[:-4]
    by_subject[open(f).readline().strip()] = (name.split("-")[0], name)
manual = json.load(open(f"{V}/tools/fix_subjects.json"))
d = json.load(open(f"{V}/known_findings.json"))
known = [f for f in d["findings"] if f.get("status", "known") == "known"]
if "--merge" in sys.argv:
    for f in sorted(glob.glob(f"{V}/known_findings.d/*.json")):
        for k in json.load(open(f))["findings"]:
            if k.get("status", "known") == "known" and k["id"] not in [x["id"] for x in known]:
                known.append(k)
        os.remove(f)
fixed, missing = [], []
for s in reversed(subjects):
    if not s.startswith("fix:"):
        continue
    m = manual.get(s) or by_subject.get(s)
    if not m:
        missing.append(s)
        continue
    fixed.append({"property": m[0], "id": m[1], "status": "fixed", "commit": s,
                  "what": "fixed: property=%s %s" % (m[0], s)})
d["findings"] = known + fixed
json.dump(d, open(f"{V}/known_findings.json", "w"), indent=1)
print(len(known), "known,", len(fixed), "fixed; unmatched fix commits:", missing)
