#!/venv/bin/python
"""Run the registered quick check of a seeded change's property against a scratch worktree with the
change applied (VERIF_REPO=<worktree>); records detection in seeded/<name>/result.json.
usage: tools/run_seeded.py <seeded dir name> [--tier quick] [--keep]"""
import sys, os, json, subprocess, shutil, time
name = sys.argv[1]
tier = "quick"
if "--tier" in sys.argv:
    tier = sys.argv[sys.argv.index("--tier") + 1]
d = os.path.join("/verif/seeded", name)
meta = json.load(open(os.path.join(d, "meta.json")))
pid = meta["property"]
wt = "/tmp/seedwt_%s" % name
subprocess.run(["git", "-C", "/repo", "worktree", "remove", "--force", wt], capture_output=True)
subprocess.run(["git", "-C", "/repo", "worktree", "add", "-q", wt, "HEAD"], check=True)
res = {"property": pid, "name": name, "tier": tier}
try:
    env = dict(os.environ, PYTHONDONTWRITEBYTECODE="1", PYTHONPATH=wt, PYTHONHASHSEED="0")
    demo = os.path.join(d, "demo.py")
    r0 = subprocess.run(["/venv/bin/python", "-W", "ignore", demo], cwd=wt, env=env, capture_output=True, text=True, timeout=900)
    res["demo_without_patch"] = r0.returncode
    ap = subprocess.run(["git", "-C", wt, "apply", os.path.join(d, "patch.diff")], capture_output=True, text=True)
    if ap.returncode != 0:
        ap = subprocess.run(["git", "-C", wt, "apply", "--3way", os.path.join(d, "patch.diff")], capture_output=True, text=True)
    if ap.returncode != 0:
        res["note"] = "patch no longer applies to the current HEAD (the code it changes was repaired since): " + ap.stderr[-200:]
        json.dump(res, open(os.path.join(d, "result.json"), "w"), indent=1)
        print(json.dumps(res, indent=1))
        raise SystemExit(0)
    r1 = subprocess.run(["/venv/bin/python", "-W", "ignore", demo], cwd=wt, env=env, capture_output=True, text=True, timeout=900)
    res["demo_with_patch"] = r1.returncode
    t = time.time()
    env2 = dict(os.environ, VERIF_REPO=wt)
    r = subprocess.run(["/verif/check", pid, "--tier", tier], env=env2, capture_output=True, text=True, timeout=7200)
    res["check_exit"] = r.returncode
    res["check_wall_s"] = round(time.time() - t, 1)
    lines = [l for l in r.stdout.splitlines() if l.startswith(("VIOLATION", "KNOWN-FINDING", "  ->", pid))]
    res["check_lines"] = lines[:8]
    res["detected"] = r.returncode == 1 and any(l.startswith("VIOLATION property=%s" % pid) for l in lines)
    if r.returncode not in (0, 1):
        res["stderr_tail"] = r.stderr[-1500:]
finally:
    subprocess.run(["git", "-C", "/repo", "worktree", "remove", "--force", wt], capture_output=True)
json.dump(res, open(os.path.join(d, "result.json"), "w"), indent=1)
print(json.dumps(res, indent=1))
