(* C26/Proofs.v — which elements become edges (per kind and option), pandapower's connected_components is a partition
   into connectivity classes on an undirected graph, distances are shortest walk weights. *)
From Coq Require Import String.
From Coq Require Import List Bool Arith Lia QArith Relations.
From PPV Require Import Base.QN Base.C07Graph Base.C26Dist C07.Model C26.Model.
Import ListNotations.
Local Open Scope nat_scope.

(* ------------------------------------------------------------------ edges per element kind *)
Definition counted (o : opts) (is_ : bool) : Prop := o_inc_oos o = true \/ is_ = true.
Lemma el_is_iff o b : el_is o b = true <-> counted o b.
Proof. unfold el_is, counted. destruct (o_inc_oos o); intuition congruence. Qed.

(* a line is an edge iff it counts as in service and, when switches are respected, no open switch sits at it *)
Lemma line_edges_spec o n rows e :
  In e (line_edges o n rows) <->
  exists l w, In (l, w) rows /\ counted o (r_is l) /\ (o_respect o = true -> open_sw n ETl (r_id l) = false)
              /\ e = (r_f l, r_t l, (0, r_id l), w).
Proof.
  unfold line_edges. rewrite in_flat_map. split.
  - intros [[l w] [I H]]. simpl in H.
    destruct (el_is o (r_is l) && negb (o_respect o && open_sw n ETl (r_id l))) eqn:E; [|contradiction].
    destruct H as [<-|[]]. apply andb_prop in E. destruct E as [E1 E2]. apply el_is_iff in E1.
    apply negb_true_iff in E2. exists l, w. repeat split; auto. intros R. rewrite R in E2. exact E2.
  - intros [l [w [I [C [S ->]]]]]. exists (l, w). split; auto. simpl.
    apply el_is_iff in C. rewrite C. simpl.
    destruct (o_respect o) eqn:R; simpl; [rewrite (S eq_refl); simpl; now left|now left].
Qed.
Lemma trafo_edges_spec o n rows e :
  In e (trafo_edges o n rows) <->
  exists t, In t rows /\ counted o (r_is t) /\ (o_respect o = true -> open_sw n ETt (r_id t) = false)
            /\ e = (r_f t, r_t t, (3, r_id t), qopt (o_trafo_len o)).
Proof.
  unfold trafo_edges. rewrite in_flat_map. split.
  - intros [t [I H]].
    destruct (el_is o (r_is t) && negb (o_respect o && open_sw n ETt (r_id t))) eqn:E; [|contradiction].
    destruct H as [<-|[]]. apply andb_prop in E. destruct E as [E1 E2]. apply el_is_iff in E1.
    apply negb_true_iff in E2. exists t. repeat split; auto. intros R. rewrite R in E2. exact E2.
  - intros [t [I [C [S ->]]]]. exists t. split; auto.
    apply el_is_iff in C. rewrite C. simpl.
    destruct (o_respect o) eqn:R; simpl; [rewrite (S eq_refl); simpl; now left|now left].
Qed.
(* a pair of trafo3w terminals is an edge iff the trafo3w counts as in service and, when switches are respected,
   neither of the two terminals carries an open switch of this trafo3w *)
Lemma t3_edges_spec o n rows e :
  In e (t3_edges o n rows) <->
  exists t f t', In t rows /\ In (f, t') [(0, 1); (0, 2); (1, 2)] /\ counted o (t_is t) /\
     (o_respect o = true -> open_t3 n (t_id t) (t3_bus t f) = false /\ open_t3 n (t_id t) (t3_bus t t') = false)
     /\ e = (t3_bus t f, t3_bus t t', (4, t_id t), qopt (o_trafo_len o)).
Proof.
  unfold t3_edges. rewrite in_flat_map. split.
  - intros [[f t'] [P H]]. apply in_flat_map in H. destruct H as [t [I H]].
    destruct (el_is o (t_is t) && negb (o_respect o && (open_t3 n (t_id t) (t3_bus t f) || open_t3 n (t_id t) (t3_bus t t')))) eqn:E;
      [|contradiction].
    destruct H as [<-|[]]. apply andb_prop in E. destruct E as [E1 E2]. apply el_is_iff in E1. apply negb_true_iff in E2.
    exists t, f, t'. repeat split; auto; rewrite H in E2; simpl in E2; apply orb_false_iff in E2; tauto.
  - intros [t [f [t' [I [P [C [S ->]]]]]]]. exists (f, t'). split; auto. apply in_flat_map. exists t. split; auto.
    apply el_is_iff in C. rewrite C. simpl.
    destruct (o_respect o) eqn:R; simpl; [destruct (S eq_refl) as [-> ->]; simpl; now left|now left].
Qed.
(* a bus-bus switch is an edge iff it is closed or switches are not respected *)
Lemma switch_edges_spec o n e :
  In e (switch_edges o n) <->
  o_switches o = true /\ exists p s, In (p, s) (enum (switches n)) /\ s_et s = ETb /\
     (s_closed s = true \/ o_respect o = false) /\ e = (s_bus s, s_el s, (5, p), qopt (o_switch_len o)).
Proof.
  unfold switch_edges. destruct (o_switches o); [|split; [intros []|intros [H _]; discriminate]].
  rewrite in_flat_map. split.
  - intros [[p s] [I H]]. destruct (swet_eqb (s_et s) ETb && (s_closed s || negb (o_respect o))) eqn:E; [|contradiction].
    destruct H as [<-|[]]. apply andb_prop in E. destruct E as [E1 E2]. split; auto. exists p, s. repeat split; auto.
    + destruct (s_et s); simpl in E1; auto; discriminate.
    + apply orb_prop in E2. destruct E2 as [E2|E2]; auto. right. now apply negb_true_iff in E2.
  - intros [_ [p [s [I [T [C ->]]]]]]. exists (p, s). split; auto. rewrite T. simpl.
    assert (X : s_closed s || negb (o_respect o) = true).
    { destruct C as [->| ->]; auto. apply orb_true_r. }
    rewrite X. now left.
Qed.

(* ------------------------------------------------------------------ connected_components on an undirected graph *)
Section CC.
Variable g : graph.
Hypothesis Hsym : sym_arcs g = true.

Definition uarcs : list (nat * nat) := map (fun a => (e_u a, e_v a)) (g_arcs g).
Lemma cc_arcs_nil : cc_arcs g [] = uarcs.
Proof. unfold cc_arcs, uarcs. f_equal. induction (g_arcs g) as [|a l IH]; simpl; [reflexivity|f_equal; exact IH]. Qed.

Lemma uarcs_sym u v : In (u, v) uarcs -> In (v, u) uarcs.
Proof.
  unfold sym_arcs in Hsym. apply andb_prop in Hsym. destruct Hsym as [H _]. rewrite forallb_forall in H.
  unfold uarcs. rewrite !in_map_iff. intros [a [E I]]. inversion E; subst.
  specialize (H a I). apply existsb_exists in H. destruct H as [a' [I' H]]. apply andb_prop in H. destruct H as [H1 H2].
  apply Nat.eqb_eq in H1, H2. exists a'. split; auto; congruence.
Qed.
Lemma upath_sym' u v : path uarcs u v -> path uarcs v u.
Proof.
  intros H. induction H.
  - apply rt_step. now apply uarcs_sym.
  - apply rt_refl.
  - eapply rt_trans; eauto.
Qed.
Lemma uarcs_nodes u v : In (u, v) uarcs -> In u (g_nodes g) /\ In v (g_nodes g).
Proof.
  unfold sym_arcs in Hsym. apply andb_prop in Hsym. destruct Hsym as [_ H]. rewrite forallb_forall in H.
  unfold uarcs. rewrite in_map_iff. intros [a [E I]]. inversion E; subst. specialize (H a I).
  apply andb_prop in H. destruct H as [H1 H2]. apply (mem_In nat Nat.eq_dec) in H1, H2. auto.
Qed.

Lemma cc_iff x y : In y (connected_component g [] x) <-> path uarcs x y.
Proof.
  unfold connected_component. rewrite cc_arcs_nil, reach_iff. split.
  - intros [s [[<-|[]] P]]. exact P.
  - intros P. exists x. split; simpl; auto.
Qed.

Lemma nodes_filter_nil : filter (fun x => negb (mem Nat.eq_dec x [])) (g_nodes g) = g_nodes g.
Proof. induction (g_nodes g) as [|a l IH]; simpl; [reflexivity|f_equal; exact IH]. Qed.
Lemma ccs_nil : connected_components g [] = gcomps Nat.eq_dec (connected_component g []) (g_nodes g) [].
Proof.
  unfold connected_components. rewrite nodes_filter_nil.
  assert (E : flat_map (fun a => if mem Nat.eq_dec (e_u a) [] && mem Nat.eq_dec (e_v a) [] then [[e_u a; e_v a]] else []) (g_arcs g) = []).
  { induction (g_arcs g); simpl; auto. }
  rewrite E. apply app_nil_r.
Qed.

(* every node lies in a component; every component is the connectivity class of one of the nodes and contains nodes
   only; two different components are disjoint *)
Theorem cc_partition :
  (forall x, In x (g_nodes g) -> exists c, In c (connected_components g []) /\ In x c) /\
  (forall c, In c (connected_components g []) ->
     (exists x, In x (g_nodes g) /\ forall y, In y c <-> path uarcs x y) /\ incl c (g_nodes g)) /\
  pairwise_disjoint (connected_components g []).
Proof.
  rewrite ccs_nil. split; [|split].
  - intros x X. apply (gcomps_cover nat Nat.eq_dec _ (path uarcs) cc_iff); auto. intros; apply rt_refl.
  - intros c C.
    assert (K : gclass (path uarcs) (g_nodes g) c).
    { apply (gcomps_class nat Nat.eq_dec _ (path uarcs) cc_iff (g_nodes g) (g_nodes g) []); auto.
      - apply incl_refl. - intros ? []. }
    split; auto. destruct K as [x [X Cl]]. intros y Y. apply Cl in Y.
    revert X. apply (closed_contains_reach nat uarcs (fun z => In z (g_nodes g))); auto.
    intros u v E _. apply uarcs_nodes in E. tauto.
  - apply (gcomps_disjoint nat Nat.eq_dec _ (path uarcs) cc_iff);
      first [exact upath_sym' | (intros x y z; apply rt_trans) | (intros ? []) | constructor].
Qed.
End CC.

(* with notravbuses the result is no partition: a notravbus between two parts is reported in both *)
Definition w_notrav : graph :=
  {| g_nodes := [0; 1; 2];
     g_arcs := [(0, 1, (0, 0), 1%Q); (2, 1, (0, 1), 1%Q)] |}.   (* built with notravbuses=[1]: the arcs leaving 1 are gone *)
Theorem cc_partition_notrav_refuted :
  exists g nt, ~ pairwise_disjoint (connected_components g nt).
Proof.
  exists w_notrav, [1]. intros H. vm_compute in H.
  inversion H as [|c l D P]; subst. apply (D [1; 2] (or_introl eq_refl) 1); simpl; auto.
Qed.

(* ------------------------------------------------------------------ distances *)
Theorem distances_shortest g src l : distances g src = Ok l ->
  forall x q, In (x, q) l ->
    (exists W, walk (warcs g) src x W /\ W == q) /\ (forall W, walk (warcs g) src x W -> q <= W)%Q.
Proof.
  unfold distances. destruct (mem Nat.eq_dec src (g_nodes g)); [|discriminate].
  destruct (sssp Nat.eq_dec (S (length (g_nodes g))) (warcs g) src) as [d|] eqn:E; [|discriminate].
  intros H. inversion H; subst. clear H. intros x q I.
  apply in_flat_map in I. destruct I as [y [_ I]].
  destruct (dget Nat.eq_dec d y) as [q'|] eqn:Dq; [|contradiction]. destruct I as [I|[]]. inversion I; subst.
  destruct (sssp_correct nat Nat.eq_dec _ _ _ _ E) as [A _]. apply (A _ _ Dq).
Qed.
(* and every node that has a walk from the source is listed *)
Theorem distances_complete g src l : distances g src = Ok l ->
  forall x W, walk (warcs g) src x W -> exists q, In (x, q) l.
Proof.
  unfold distances. destruct (mem Nat.eq_dec src (g_nodes g)); [|discriminate].
  destruct (sssp Nat.eq_dec (S (length (g_nodes g))) (warcs g) src) as [d|] eqn:E; [|discriminate].
  intros H. inversion H; subst. clear H. intros x W Wk.
  destruct (sssp_correct nat Nat.eq_dec _ _ _ _ E) as [_ B].
  destruct (dget Nat.eq_dec d x) as [q|] eqn:Dq; [|exfalso; eapply B; eauto].
  exists q. apply in_flat_map. exists x. split; [|rewrite Dq; now left].
  assert (HI : In x (src :: map e_v (g_arcs g))).
  { inversion Wk; subst; [now left|]. right.
    unfold warcs in H0. apply in_map_iff in H0. destruct H0 as [a [Ea Ia]]. inversion Ea; subst.
    apply in_map_iff. exists a. auto. }
  exact (proj2 (dedup_In nat Nat.eq_dec x _) HI).
Qed.

(* ------------------------------------------------------------------ notravbuses next to out-of-service buses *)
(* chain 0-1-2-3, bus 2 out of service *)
Definition w_chain : net :=
  {| buses := [{| b_id := 0; b_is := true |}; {| b_id := 1; b_is := true |}; {| b_id := 2; b_is := false |}; {| b_id := 3; b_is := true |}];
     lines := [{| r_id := 0; r_f := 0; r_t := 1; r_is := true |}; {| r_id := 1; r_f := 1; r_t := 2; r_is := true |};
               {| r_id := 2; r_f := 2; r_t := 3; r_is := true |}];
     trafos := []; trafo3ws := []; imps := []; dclines := []; xwards := []; switches := []; injs := [] |}.
Definition o_default (nt : list nat) : opts :=
  {| o_respect := true; o_lines := IAll; o_imps := IAll; o_dclines := IAll; o_trafos := IAll; o_t3 := IAll; o_nogo := None;
     o_notrav := Some nt; o_multi := true; o_inc_oos := false; o_switches := true; o_trafo_len := None; o_switch_len := None |}.
(* before the repair: KeyError with the out-of-service bus next to the notravbus, a dangling adjacency entry with an
   out-of-service notravbus; after the repair both calls return a graph whose arcs end at nodes *)
Theorem notrav_oos_old_refuted :
  create_nxgraph_old (o_default [1]) w_chain [1; 1; 1]%Q = Raise "KeyError"%string /\
  (exists g, create_nxgraph_old (o_default [2]) w_chain [1; 1; 1]%Q = Ok g /\ no_dangling g = false) /\
  (exists g, create_nxgraph (o_default [1]) w_chain [1; 1; 1]%Q = Ok g /\ no_dangling g = true) /\
  (exists g, create_nxgraph (o_default [2]) w_chain [1; 1; 1]%Q = Ok g /\ no_dangling g = true).
Proof. repeat split; try (eexists; split; vm_compute; reflexivity). Qed.
