(* C26 — faithful model of pandapower/topology/create_graph.py create_nxgraph (:41-292, without
   calc_branch_impedances / graph_tool) and of graph_searches.py connected_component (:16),
   connected_components (:47), calc_distance_to_bus (:77).  The network record is the one of C07/Model.v;
   line lengths come as a list parallel to the line table.  A networkx (Multi)Graph is modelled by its
   adjacency: a list of arcs (u, v, key, weight), an undirected edge being two arcs — create_nxgraph itself
   makes the adjacency asymmetric for notravbuses (del mg._adj[b][i], :278-284).
   Executable definitions only. *)
From Coq Require Import String QArith.
From Coq Require Import List Bool Arith Lia.
From PPV Require Import Base.Out Base.QN Base.C07Graph Base.C26Dist C07.Model.
Import ListNotations.
Local Open Scope nat_scope.

Inductive incl_opt := IAll | INone | ISome (l : list nat).       (* include_* = True | False | index list *)
Record opts := { o_respect : bool; o_lines : incl_opt; o_imps : incl_opt; o_dclines : incl_opt; o_trafos : incl_opt;
                 o_t3 : incl_opt; o_nogo : option (list nat); o_notrav : option (list nat); o_multi : bool;
                 o_inc_oos : bool; o_switches : bool; o_trafo_len : option Q; o_switch_len : option Q }.

Definition key := (nat * nat)%type.       (* (element type, index): 0 line 1 impedance 2 dcline 3 trafo 4 trafo3w 5 switch *)
Definition edge := (nat * nat * key * Q)%type.
Definition arc := edge.
Definition e_u (e : edge) := fst (fst (fst e)).
Definition e_v (e : edge) := snd (fst (fst e)).
Definition e_k (e : edge) := snd (fst e).
Definition e_w (e : edge) := snd e.
Definition key_eqb (a b : key) : bool := Nat.eqb (fst a) (fst b) && Nat.eqb (snd a) (snd b).

Inductive res (X : Type) := Ok (x : X) | Raise (s : string).
Arguments Ok {X} x. Arguments Raise {X} s.

(* get_edge_table :295: whole table, nothing, or table.loc[list] (KeyError for a missing label) *)
Fixpoint select {X} (id : X -> nat) (tab : list X) (l : list nat) : res (list X) :=
  match l with
  | [] => Ok []
  | i :: t => match filter (fun x => Nat.eqb (id x) i) tab with
              | [] => Raise "KeyError"
              | rows => match select id tab t with Ok r => Ok (rows ++ r) | Raise s => Raise s end
              end
  end.
Definition edge_table {X} (id : X -> nat) (tab : list X) (o : incl_opt) : res (list X) :=
  match o with IAll => Ok tab | INone => Ok [] | ISome l => select id tab l end.

Definition el_is (o : opts) (is_ : bool) : bool := if o_inc_oos o then true else is_.   (* init_par :346 *)
Definition qopt (x : option Q) : Q := match x with Some q => q | None => 0%Q end.

Definition line_edges (o : opts) (n : net) (rows : list (br2 * Q)) : list edge :=
  flat_map (fun lw => let l := fst lw in
     if el_is o (r_is l) && negb (o_respect o && open_sw n ETl (r_id l))
     then [(r_f l, r_t l, (0, r_id l), snd lw)] else []) rows.
Definition plain_edges (o : opts) (et : nat) (rows : list br2) : list edge :=
  flat_map (fun l => if el_is o (r_is l) then [(r_f l, r_t l, (et, r_id l), 0%Q)] else []) rows.
Definition trafo_edges (o : opts) (n : net) (rows : list br2) : list edge :=
  flat_map (fun l => if el_is o (r_is l) && negb (o_respect o && open_sw n ETt (r_id l))
                     then [(r_f l, r_t l, (3, r_id l), qopt (o_trafo_len o))] else []) rows.
(* one add_edges call per pair of sides, each over all rows (:227-244) *)
Definition t3_edges (o : opts) (n : net) (rows : list br3) : list edge :=
  flat_map (fun ft : nat * nat => let '(f, t') := ft in
     flat_map (fun t => if el_is o (t_is t)
                           && negb (o_respect o && (open_t3 n (t_id t) (t3_bus t f) || open_t3 n (t_id t) (t3_bus t t')))
                        then [(t3_bus t f, t3_bus t t', (4, t_id t), qopt (o_trafo_len o))] else []) rows)
     [(0, 1); (0, 2); (1, 2)].
Definition switch_edges (o : opts) (n : net) : list edge :=
  if o_switches o then
    flat_map (fun ps : nat * switch => let '(p, s) := ps in
       if swet_eqb (s_et s) ETb && (s_closed s || negb (o_respect o))
       then [(s_bus s, s_el s, (5, p), qopt (o_switch_len o))] else []) (enum (switches n))
  else [].

Definition raw_edges (o : opts) (n : net) (lens : list Q) : res (list edge) :=
  match edge_table (fun lw : br2 * Q => r_id (fst lw)) (combine (lines n) lens) (o_lines o),
        edge_table r_id (imps n) (o_imps o), edge_table r_id (dclines n) (o_dclines o),
        edge_table r_id (trafos n) (o_trafos o), edge_table t_id (trafo3ws n) (o_t3 o) with
  | Ok ls, Ok is_, Ok ds, Ok ts, Ok t3s =>
      Ok (line_edges o n ls ++ plain_edges o 1 is_ ++ plain_edges o 2 ds ++ trafo_edges o n ts
          ++ t3_edges o n t3s ++ switch_edges o n)
  | _, _, _, _, _ => Raise "KeyError"
  end.

(* mg.add_edge(u, v, key=k, weight=w): MultiGraph — an existing (u, v, k) is overwritten; Graph — an existing
   {u, v} is overwritten (the key becomes an attribute) *)
Definition same_pair (a : arc) (u v : nat) : bool :=
  (Nat.eqb (e_u a) u && Nat.eqb (e_v a) v) || (Nat.eqb (e_u a) v && Nat.eqb (e_v a) u).
Definition add_edge (multi : bool) (arcs : list arc) (e : edge) : list arc :=
  let u := e_u e in let v := e_v e in
  let kept := filter (fun a => negb (same_pair a u v && (negb multi || key_eqb (e_k a) (e_k e)))) arcs in
  kept ++ (if Nat.eqb u v then [e] else [e; (v, u, e_k e, e_w e)]).

Record graph := { g_nodes : list nat; g_arcs : list arc }.

Definition remove_node (g : graph) (b : nat) : graph :=
  {| g_nodes := filter (fun x => negb (Nat.eqb x b)) (g_nodes g);
     g_arcs := filter (fun a => negb (Nat.eqb (e_u a) b) && negb (Nat.eqb (e_v a) b)) (g_arcs g) |}.
(* networkx remove_node: nbrs = list(adj[b]); for u in nbrs: del adj[u][b]  (KeyError when adj[u] has no b) *)
Definition nx_remove_node (g : graph) (b : nat) : res graph :=
  let nbrs := map e_v (filter (fun a => Nat.eqb (e_u a) b) (g_arcs g)) in
  if forallb (fun u => existsb (fun a => Nat.eqb (e_u a) u && Nat.eqb (e_v a) b) (g_arcs g)) nbrs
  then Ok {| g_nodes := filter (fun x => negb (Nat.eqb x b)) (g_nodes g);
             g_arcs := filter (fun a => negb (Nat.eqb (e_u a) b)
                                        && negb (Nat.eqb (e_v a) b && mem Nat.eq_dec (e_u a) nbrs)) (g_arcs g) |}
  else Raise "KeyError".

Fixpoint fold_res {X Y} (f : X -> Y -> res X) (l : list Y) (x : X) : res X :=
  match l with [] => Ok x | y :: t => match f x y with Ok x' => fold_res f t x' | Raise s => Raise s end end.

Definition build_graph (o : opts) (n : net) (es : list edge) : graph :=
  {| g_nodes := dedup Nat.eq_dec (flat_map (fun e => [e_u e; e_v e]) es ++ map b_id (buses n));
     g_arcs := fold_left (add_edge (o_multi o)) es [] |}.
(* nogobuses :272 *)
Definition stage_nogo (o : opts) (g : graph) : res graph :=
  fold_res (fun g b => if mem Nat.eq_dec b (g_nodes g) then Ok (remove_node g b) else Raise "NetworkXError")
           (match o_nogo o with Some l => l | None => [] end) g.
(* out-of-service buses: mg.remove_node(b) for b in net.bus.index[~in_service] if b in mg *)
Definition stage_oos (o : opts) (n : net) (g : graph) : res graph :=
  if o_inc_oos o then Ok g
  else fold_res (fun g b => if mem Nat.eq_dec b (g_nodes g) then nx_remove_node g b else Ok g)
                (map b_id (filter (fun r => negb (b_is r)) (buses n))) g.
(* notravbuses: the arcs leaving b are deleted, the arcs entering b stay; `skip` = a notravbus that is not in the graph
   is skipped (after the repair) instead of raising KeyError in mg[b] (before) *)
Definition stage_notrav (skip : bool) (o : opts) (g : graph) : res graph :=
  fold_res (fun g b => if mem Nat.eq_dec b (g_nodes g)
                       then Ok {| g_nodes := g_nodes g; g_arcs := filter (fun a => negb (Nat.eqb (e_u a) b)) (g_arcs g) |}
                       else if skip then Ok g else Raise "KeyError")
           (match o_notrav o with Some l => l | None => [] end) g.
Definition bind {X Y} (r : res X) (f : X -> res Y) : res Y := match r with Ok x => f x | Raise s => Raise s end.

(* create_graph.py after "fix: create_nxgraph removes out-of-service buses before the notravbuses edges":
   nogobuses, then out-of-service buses, then the one-sided deletion for the notravbuses *)
Definition create_nxgraph (o : opts) (n : net) (lens : list Q) : res graph :=
  bind (raw_edges o n lens) (fun es =>
  bind (stage_nogo o (build_graph o n es)) (fun g1 =>
  bind (stage_oos o n g1) (fun g2 => stage_notrav true o g2))).
(* the order before the repair (notravbuses first, then remove_node on the one-sided adjacency), kept so that its return
   is recognised (C26_notrav_oos_old_refuted) *)
Definition create_nxgraph_old (o : opts) (n : net) (lens : list Q) : res graph :=
  bind (raw_edges o n lens) (fun es =>
  bind (stage_nogo o (build_graph o n es)) (fun g1 =>
  bind (stage_notrav false o g1) (fun g2 => stage_oos o n g2))).

(* ------------------------------------------------------------------ graph_searches *)
(* connected_component(mg, bus, notravbuses): nodes reached from bus without expanding notravbuses *)
Definition cc_arcs (g : graph) (notrav : list nat) : list (nat * nat) :=
  map (fun a => (e_u a, e_v a)) (filter (fun a => negb (mem Nat.eq_dec (e_u a) notrav)) (g_arcs g)).
Definition connected_component (g : graph) (notrav : list nat) (b : nat) : list nat :=
  reach Nat.eq_dec (cc_arcs g notrav) [b].
(* connected_components(mg, notravbuses): nodes = set(mg.nodes()) - notravbuses popped one by one, then one
   {f, t} per edge between two notravbuses *)
Definition connected_components (g : graph) (notrav : list nat) : list (list nat) :=
  gcomps Nat.eq_dec (connected_component g notrav) (filter (fun x => negb (mem Nat.eq_dec x notrav)) (g_nodes g)) []
  ++ flat_map (fun a => if mem Nat.eq_dec (e_u a) notrav && mem Nat.eq_dec (e_v a) notrav then [[e_u a; e_v a]] else [])
              (g_arcs g).

(* the adjacency is symmetric (an undirected graph); checked on every run for graphs built without notravbuses *)
Definition sym_arcs (g : graph) : bool :=
  forallb (fun a => existsb (fun a' => Nat.eqb (e_u a') (e_v a) && Nat.eqb (e_v a') (e_u a)) (g_arcs g)) (g_arcs g)
  && forallb (fun a => mem Nat.eq_dec (e_u a) (g_nodes g) && mem Nat.eq_dec (e_v a) (g_nodes g)) (g_arcs g).

(* calc_distance_to_bus: single_source_dijkstra_path_length over the adjacency; Raise for a source outside the graph *)
Definition warcs (g : graph) : list (nat * nat * Q) := map (fun a => (e_u a, e_v a, e_w a)) (g_arcs g).
Definition distances (g : graph) (src : nat) : res (list (nat * Q)) :=
  if mem Nat.eq_dec src (g_nodes g) then
    match sssp Nat.eq_dec (S (length (g_nodes g))) (warcs g) src with
    | Some d => Ok (flat_map (fun x => match dget Nat.eq_dec d x with Some q => [(x, q)] | None => [] end)
                             (dedup Nat.eq_dec (src :: map e_v (g_arcs g))))
    | None => Raise "not-stable"
    end
  else Raise "NodeNotFound".

(* ------------------------------------------------------------------ Run wrappers *)
Definition oarc (a : arc) : out := OL [onat (e_u a); onat (e_v a); onat (fst (e_k a)); onat (snd (e_k a)); oq (e_w a)].
Definition ores {X} (f : X -> out) (r : res X) : out := match r with Ok x => f x | Raise s => OErr s end.
Definition ograph (g : graph) : out := OL [olist onat (g_nodes g); olist oarc (g_arcs g)].
(* [graph; pandapower connected_components with notrav list cc_notrav; distances from src; every arc ends at a node; sym_arcs;
   build-stage graph] *)
Definition no_dangling (g : graph) : bool :=
  forallb (fun a => mem Nat.eq_dec (e_u a) (g_nodes g) && mem Nat.eq_dec (e_v a) (g_nodes g)) (g_arcs g).
(* the graph at the end of the build stage (before any node is removed) — observed on the real code by calling
   create_nxgraph with all buses in service and without nogobuses / notravbuses *)
Definition build_stage (o : opts) (n : net) (lens : list Q) : res graph :=
  bind (raw_edges o n lens) (fun es => Ok (build_graph o n es)).
Definition run_c26 (o : opts) (n : net) (lens : list Q) (cc_notrav : list nat) (src : nat) : out :=
  match create_nxgraph o n lens with
  | Raise s => OL [OErr s; ONone; ONone; ONone; ONone; ores ograph (build_stage o n lens)]
  | Ok g => OL [ograph g; olist (olist onat) (connected_components g cc_notrav);
                ores (olist (fun p : nat * Q => OL [onat (fst p); oq (snd p)])) (distances g src); OB (no_dangling g);
                OB (sym_arcs g); ores ograph (build_stage o n lens)]
  end.
