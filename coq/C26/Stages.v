(* C26/Stages.v — the node-removal stages of create_nxgraph for every input: the build stage yields a symmetric adjacency
   whose arcs end at nodes; on such an adjacency networkx' remove_node never raises and equals the plain removal; the
   returned graph is the build-stage graph restricted to the surviving buses minus the arcs leaving notravbuses; no arc
   dangles; no walk of the returned graph passes through a notravbus. *)
From Coq Require Import String.
From Coq Require Import List Bool Arith Lia QArith Relations.
From PPV Require Import Base.QN Base.C07Graph Base.C26Dist C07.Model C26.Model C26.Proofs.
Import ListNotations.
Local Open Scope nat_scope.

(* ------------------------------------------------------------------ vocabulary of the specification *)
Definition mirror (a : arc) : arc := (e_v a, e_u a, e_k a, e_w a).
Definition nogo_list (o : opts) : list nat := match o_nogo o with Some l => l | None => [] end.
Definition notrav_list (o : opts) : list nat := match o_notrav o with Some l => l | None => [] end.
Definition oos_bus (n : net) (b : nat) : Prop := exists r, In r (buses n) /\ b_id r = b /\ b_is r = false.
(* a bus that is taken out of the graph: a nogobus, or (unless include_out_of_service) an out-of-service bus *)
Definition gone (o : opts) (n : net) (b : nat) : Prop := In b (nogo_list o) \/ (o_inc_oos o = false /\ oos_bus n b).

Definition symA (l : list arc) : Prop := forall a, In a l -> In (mirror a) l.
Definition closedA (g : graph) : Prop := forall a, In a (g_arcs g) -> In (e_u a) (g_nodes g) /\ In (e_v a) (g_nodes g).
Definition good (g : graph) : Prop := symA (g_arcs g) /\ closedA g.

Lemma arc_eta (a : arc) : a = (e_u a, e_v a, e_k a, e_w a).
Proof. destruct a as [[[u v] k] w]. reflexivity. Qed.
Lemma mirror_mirror a : mirror (mirror a) = a.
Proof. destruct a as [[[u v] k] w]. reflexivity. Qed.
Lemma mirror_loop a : e_u a = e_v a -> mirror a = a.
Proof. destruct a as [[[u v] k] w]. unfold mirror, e_u, e_v, e_k, e_w. simpl. intros ->. reflexivity. Qed.

(* ------------------------------------------------------------------ the build stage *)
Lemma same_pair_mirror a u v : same_pair (mirror a) u v = same_pair a u v.
Proof. destruct a as [[[x y] k] w]. unfold same_pair, mirror, e_u, e_v. simpl. rewrite orb_comm. f_equal; apply andb_comm. Qed.

Lemma symA_filter p l : (forall a, p (mirror a) = p a) -> symA l -> symA (filter p l).
Proof. intros P S a I. apply filter_In in I. destruct I as [I E]. apply filter_In. split; [now apply S|now rewrite P]. Qed.

Lemma add_edge_new_spec e a :
  In a (if Nat.eqb (e_u e) (e_v e) then [e] else [e; (e_v e, e_u e, e_k e, e_w e)]) <-> a = e \/ a = mirror e.
Proof.
  fold (mirror e). destruct (Nat.eqb (e_u e) (e_v e)) eqn:Q; simpl.
  - apply Nat.eqb_eq in Q. rewrite (mirror_loop e Q). intuition.
  - intuition.
Qed.

Lemma add_edge_In m l e a :
  In a (add_edge m l e) <->
  (In a l /\ (same_pair a (e_u e) (e_v e) && (negb m || key_eqb (e_k a) (e_k e))) = false) \/ a = e \/ a = mirror e.
Proof.
  unfold add_edge. rewrite in_app_iff, add_edge_new_spec, filter_In, negb_true_iff. tauto.
Qed.

Lemma add_edge_sym m l e : symA l -> symA (add_edge m l e).
Proof.
  intros S a I. apply add_edge_In in I. apply add_edge_In. destruct I as [[I P]|[->| ->]].
  - left. split; [now apply S|]. rewrite same_pair_mirror. exact P.
  - right. now right.
  - right. left. apply mirror_mirror.
Qed.
Lemma fold_add_sym m es acc : symA acc -> symA (fold_left (add_edge m) es acc).
Proof. revert acc. induction es; simpl; intros; auto. apply IHes. now apply add_edge_sym. Qed.

(* soundness: every arc of the build stage is an edge of the edge list, in one of the two directions *)
Lemma fold_add_sound m es acc a :
  In a (fold_left (add_edge m) es acc) -> In a acc \/ exists e, In e es /\ (a = e \/ a = mirror e).
Proof.
  revert acc. induction es as [|e es IH]; simpl; intros acc I; auto.
  apply IH in I. destruct I as [I|[e' [I E]]].
  - apply add_edge_In in I. destruct I as [[I _]|I]; auto. right. exists e. auto.
  - right. exists e'. auto.
Qed.

(* completeness: every edge of the list is represented by an arc between the same ordered pair (and, in a MultiGraph,
   with the same key); a later edge between the same pair (with the same key) replaces it *)
Definition repr (m : bool) (e : edge) (a : arc) : Prop :=
  e_u a = e_u e /\ e_v a = e_v e /\ (m = true -> e_k a = e_k e).
Lemma key_eqb_eq a b : key_eqb a b = true -> a = b.
Proof.
  destruct a, b. unfold key_eqb. simpl. intros H. apply andb_prop in H. destruct H as [H1 H2].
  apply Nat.eqb_eq in H1, H2. congruence.
Qed.
Lemma add_edge_keeps_repr m l e' e :
  (exists a, In a l /\ repr m e a) -> exists a, In a (add_edge m l e') /\ repr m e a.
Proof.
  intros [a [I [Ru [Rv Rk]]]].
  destruct (same_pair a (e_u e') (e_v e') && (negb m || key_eqb (e_k a) (e_k e'))) eqn:P.
  - apply andb_prop in P. destruct P as [P K].
    assert (Kk : m = true -> e_k e' = e_k e).
    { intros ->. simpl in K. apply key_eqb_eq in K. rewrite <- K. now apply Rk. }
    unfold same_pair in P. apply orb_prop in P. destruct P as [P|P]; apply andb_prop in P; destruct P as [P1 P2];
      apply Nat.eqb_eq in P1, P2.
    + exists e'. split; [apply add_edge_In; auto|]. repeat split; auto; congruence.
    + exists (mirror e'). split; [apply add_edge_In; auto|].
      destruct e' as [[[x y] k] w]. unfold repr, mirror, e_u, e_v, e_k, e_w in *. simpl in *. repeat split; auto; congruence.
  - exists a. split; [apply add_edge_In; auto|]. repeat split; auto.
Qed.
Lemma fold_add_complete m es acc e :
  (In e es \/ exists a, In a acc /\ repr m e a) -> exists a, In a (fold_left (add_edge m) es acc) /\ repr m e a.
Proof.
  revert acc. induction es as [|e' es IH]; simpl; intros acc H.
  - destruct H as [[]|H]. exact H.
  - apply IH. destruct H as [[->|H]|H]; auto.
    + right. exists e. split; [apply add_edge_In; auto|]. repeat split; auto.
    + right. now apply add_edge_keeps_repr.
Qed.

(* exactness on the edge list: an arc of the build stage is an edge of the list (or its mirror image) that no later
   edge between the same pair of nodes (MultiGraph: with the same key) has overwritten *)
Definition clash (m : bool) (a : arc) (e : edge) : bool :=
  same_pair a (e_u e) (e_v e) && (negb m || key_eqb (e_k a) (e_k e)).
Lemma fold_add_exact m es : forall acc a,
  In a (fold_left (add_edge m) es acc) <->
  (In a acc /\ forall e', In e' es -> clash m a e' = false) \/
  (exists es1 e es2, es = es1 ++ e :: es2 /\ (a = e \/ a = mirror e) /\ forall e', In e' es2 -> clash m a e' = false).
Proof.
  induction es as [|e0 es IH]; intros acc a; simpl.
  - split; [intros I; left; split; [exact I|intros ? []]|].
    intros [[I _]|[es1 [e [es2 [E _]]]]]; auto. destruct es1; discriminate.
  - rewrite IH, add_edge_In. fold (clash m a e0). split.
    + intros [[[[I C0]|E] C]|[es1 [e [es2 [E [Ea C]]]]]].
      * left. split; auto. intros e' [<-|I']; auto.
      * right. exists [], e0, es. auto.
      * right. exists (e0 :: es1), e, es2. subst. auto.
    + intros [[I C]|[es1 [e [es2 [E [Ea C]]]]]].
      * left. split; [left; split; auto|]; intros; apply C; auto.
      * destruct es1 as [|e1 es1]; simpl in E; inversion E; subst.
        -- left. split; auto.
        -- right. exists es1, e, es2. auto.
Qed.
Theorem build_arcs_exact o n es a :
  In a (g_arcs (build_graph o n es)) <->
  exists es1 e es2, es = es1 ++ e :: es2 /\ (a = e \/ a = mirror e) /\ forall e', In e' es2 -> clash (o_multi o) a e' = false.
Proof.
  unfold build_graph. simpl. rewrite fold_add_exact. split; [intros [[[] _]|H]; exact H|intros H; now right].
Qed.

Lemma build_arcs_complete m es e : In e es ->
  exists a, In a (fold_left (add_edge m) es []) /\ e_u a = e_u e /\ e_v a = e_v e /\ (m = true -> e_k a = e_k e).
Proof. intros I. apply (fold_add_complete m es [] e). now left. Qed.

Lemma build_nodes o n es x :
  In x (g_nodes (build_graph o n es)) <->
  (exists e, In e es /\ (x = e_u e \/ x = e_v e)) \/ exists r, In r (buses n) /\ b_id r = x.
Proof.
  unfold build_graph. simpl. rewrite dedup_In, in_app_iff, in_flat_map, in_map_iff. split.
  - intros [[e [I [H|[H|[]]]]]|[r [E I]]]; [left; exists e|left; exists e|right; exists r]; auto.
  - intros [[e [I [H|H]]]|[r [I E]]]; [left; exists e|left; exists e|right; exists r]; simpl; auto.
Qed.

Lemma build_good o n es : good (build_graph o n es).
Proof.
  split.
  - unfold build_graph. simpl. apply fold_add_sym. intros a [].
  - intros a I. unfold build_graph in I. simpl in I. apply fold_add_sound in I. destruct I as [[]|[e [I E]]].
    split; apply build_nodes; left; exists e; split; auto;
      destruct E as [->| ->]; destruct e as [[[u v] k] w]; unfold mirror, e_u, e_v; simpl; auto.
Qed.

(* ------------------------------------------------------------------ removal of nodes *)
Definition rm_spec (g g1 : graph) (l : list nat) : Prop :=
  (forall x, In x (g_nodes g1) <-> In x (g_nodes g) /\ ~ In x l) /\
  (forall a, In a (g_arcs g1) <-> In a (g_arcs g) /\ ~ In (e_u a) l /\ ~ In (e_v a) l).

Lemma rm_spec_nil g : rm_spec g g [].
Proof. split; intros; simpl; tauto. Qed.
Lemma rm_spec_cons g g1 g2 b l : rm_spec g g1 [b] -> rm_spec g1 g2 l -> rm_spec g g2 (b :: l).
Proof.
  intros [N1 A1] [N2 A2]. split.
  - intros x. rewrite N2, N1. simpl. tauto.
  - intros a. rewrite A2, A1. simpl. tauto.
Qed.
Lemma neqb_iff x b : negb (Nat.eqb x b) = true <-> x <> b.
Proof. rewrite negb_true_iff. apply Nat.eqb_neq. Qed.
Lemma rm_spec_remove g b : rm_spec g (remove_node g b) [b].
Proof.
  split.
  - intros x. unfold remove_node. simpl. rewrite filter_In, neqb_iff. intuition.
  - intros a. unfold remove_node. simpl. rewrite filter_In, andb_true_iff, !neqb_iff. intuition.
Qed.
Lemma rm_spec_absent g b : closedA g -> ~ In b (g_nodes g) -> rm_spec g g [b].
Proof.
  intros C N. split.
  - intros x. simpl. intuition. subst. contradiction.
  - intros a. simpl. split; [|tauto]. intros I. destruct (C a I) as [U V].
    repeat split; auto; intros [E|[]]; subst; contradiction.
Qed.
Lemma good_remove g b : good g -> good (remove_node g b).
Proof.
  intros [S C]. split.
  - unfold remove_node. simpl. apply symA_filter; auto.
    intros a. destruct a as [[[u v] k] w]. unfold mirror, e_u, e_v. simpl. apply andb_comm.
  - intros a I. pose proof (rm_spec_remove g b) as [N A]. apply A in I. destruct I as [I [Nu Nv]].
    destruct (C a I) as [U V]. split; apply N; split; auto.
Qed.

(* on a symmetric adjacency networkx' remove_node does not raise and is the plain removal *)
Lemma nx_remove_sym g b : symA (g_arcs g) -> nx_remove_node g b = Ok (remove_node g b).
Proof.
  intros S. unfold nx_remove_node, remove_node.
  set (nbrs := map e_v (filter (fun a => Nat.eqb (e_u a) b) (g_arcs g))).
  assert (NB : forall a, In a (g_arcs g) -> e_v a = b -> In (e_u a) nbrs).
  { intros a I E. unfold nbrs. apply in_map_iff. exists (mirror a). split.
    - destruct a as [[[u v] k] w]. reflexivity.
    - apply filter_In. split; [now apply S|]. destruct a as [[[u v] k] w]. unfold mirror, e_u, e_v in *. simpl in *.
      now apply Nat.eqb_eq. }
  assert (F : forallb (fun u => existsb (fun a => Nat.eqb (e_u a) u && Nat.eqb (e_v a) b) (g_arcs g)) nbrs = true).
  { apply forallb_forall. intros u U. unfold nbrs in U. apply in_map_iff in U. destruct U as [a [E I]].
    apply filter_In in I. destruct I as [I Q]. apply Nat.eqb_eq in Q. apply existsb_exists. exists (mirror a).
    split; [now apply S|]. destruct a as [[[x y] k] w]. unfold mirror, e_u, e_v in *. simpl in *. subst.
    now rewrite !Nat.eqb_refl. }
  rewrite F. f_equal. f_equal. apply filter_ext_in. intros a I.
  destruct (Nat.eqb (e_v a) b) eqn:Q; simpl; auto.
  apply Nat.eqb_eq in Q. assert (M : mem Nat.eq_dec (e_u a) nbrs = true) by (apply (mem_In nat Nat.eq_dec); auto).
  now rewrite M.
Qed.

(* nogobuses: raises exactly when a listed bus is not (any more) in the graph *)
Definition nogo_step (g : graph) (b : nat) : res graph :=
  if mem Nat.eq_dec b (g_nodes g) then Ok (remove_node g b) else Raise "NetworkXError".
Lemma nogo_fold_ok l : forall g g', good g -> fold_res nogo_step l g = Ok g' -> good g' /\ rm_spec g g' l.
Proof.
  induction l as [|b l IH]; simpl; intros g g' G H.
  - inversion H; subst. split; auto. apply rm_spec_nil.
  - unfold nogo_step at 1 in H. destruct (mem Nat.eq_dec b (g_nodes g)); [|discriminate].
    destruct (IH _ _ (good_remove g b G) H) as [G' R]. split; auto.
    eapply rm_spec_cons; eauto. apply rm_spec_remove.
Qed.
Lemma nogo_fold_total l : forall g, NoDup l -> (forall b, In b l -> In b (g_nodes g)) -> exists g', fold_res nogo_step l g = Ok g'.
Proof.
  induction l as [|b l IH]; simpl; intros g N I; [eauto|].
  unfold nogo_step at 1. assert (M : mem Nat.eq_dec b (g_nodes g) = true) by (apply (mem_In nat Nat.eq_dec); auto).
  rewrite M. inversion N; subst. apply IH; auto.
  intros c C. apply (rm_spec_remove g b). split; auto. intros [E|[]]. subst. contradiction.
Qed.

(* out-of-service buses: never raises on a symmetric adjacency *)
Definition oos_step (g : graph) (b : nat) : res graph := if mem Nat.eq_dec b (g_nodes g) then nx_remove_node g b else Ok g.
Lemma oos_fold l : forall g, good g -> exists g', fold_res oos_step l g = Ok g' /\ good g' /\ rm_spec g g' l.
Proof.
  induction l as [|b l IH]; simpl; intros g G.
  - exists g. split; [reflexivity|split; [exact G|apply rm_spec_nil]].
  - unfold oos_step at 1. destruct (mem Nat.eq_dec b (g_nodes g)) eqn:M.
    + rewrite (nx_remove_sym g b (proj1 G)). destruct (IH _ (good_remove g b G)) as [g' [F [G' R]]].
      exists g'. split; [exact F|split; [exact G'|]]. eapply rm_spec_cons; eauto. apply rm_spec_remove.
    + destruct (IH _ G) as [g' [F [G' R]]]. exists g'. split; [exact F|split; [exact G'|]].
      eapply rm_spec_cons; eauto. apply rm_spec_absent; [exact (proj2 G)|]. now apply (mem_nIn nat Nat.eq_dec).
Qed.

(* notravbuses (with skip): never raises; the nodes stay, the arcs leaving a listed bus go *)
Definition notrav_step (g : graph) (b : nat) : res graph :=
  if mem Nat.eq_dec b (g_nodes g)
  then Ok {| g_nodes := g_nodes g; g_arcs := filter (fun a => negb (Nat.eqb (e_u a) b)) (g_arcs g) |}
  else Ok g.
Lemma notrav_fold l : forall g, closedA g -> exists g', fold_res notrav_step l g = Ok g' /\ closedA g' /\
  g_nodes g' = g_nodes g /\ forall a, In a (g_arcs g') <-> In a (g_arcs g) /\ ~ In (e_u a) l.
Proof.
  induction l as [|b l IH]; simpl; intros g C.
  - exists g. split; [reflexivity|split; [exact C|split; [reflexivity|]]]. intros a. simpl. tauto.
  - unfold notrav_step at 1. destruct (mem Nat.eq_dec b (g_nodes g)) eqn:M.
    + set (g1 := {| g_nodes := g_nodes g; g_arcs := filter (fun a => negb (Nat.eqb (e_u a) b)) (g_arcs g) |}).
      assert (C1 : closedA g1).
      { intros a I. unfold g1 in I. simpl in I. apply filter_In in I. exact (C a (proj1 I)). }
      destruct (IH g1 C1) as [g' [F [C' [N A]]]]. exists g'. split; [exact F|split; [exact C'|split; [exact N|]]].
      intros a. rewrite A. unfold g1. simpl. rewrite filter_In, neqb_iff. intuition congruence.
    + destruct (IH g C) as [g' [F [C' [N A]]]]. exists g'. split; [exact F|split; [exact C'|split; [exact N|]]].
      intros a. rewrite A. simpl. split; [|tauto]. intros [I NI]. split; auto. intros [E|E]; [|contradiction]. subst.
      apply (mem_nIn nat Nat.eq_dec) in M. apply M. exact (proj1 (C a I)).
Qed.

Lemma stage_nogo_eq o g : stage_nogo o g = fold_res nogo_step (nogo_list o) g.
Proof. reflexivity. Qed.
Lemma stage_notrav_eq o g : stage_notrav true o g = fold_res notrav_step (notrav_list o) g.
Proof. reflexivity. Qed.
Definition oos_ids (n : net) : list nat := map b_id (filter (fun r => negb (b_is r)) (buses n)).
Lemma oos_ids_In n b : In b (oos_ids n) <-> oos_bus n b.
Proof.
  unfold oos_ids, oos_bus. rewrite in_map_iff. split; intros [r H]; exists r; rewrite filter_In, negb_true_iff in *; tauto.
Qed.
Lemma stage_oos_spec o n g : good g ->
  exists g', stage_oos o n g = Ok g' /\ good g' /\ rm_spec g g' (if o_inc_oos o then [] else oos_ids n).
Proof.
  intros G. unfold stage_oos. destruct (o_inc_oos o).
  - exists g. split; [reflexivity|split; [exact G|apply rm_spec_nil]].
  - apply (oos_fold (oos_ids n) g G).
Qed.

Lemma no_dangling_iff g : no_dangling g = true <-> closedA g.
Proof.
  unfold no_dangling, closedA. rewrite forallb_forall. split; intros H a I; specialize (H a I).
  - apply andb_prop in H. destruct H as [H1 H2]. apply (mem_In nat Nat.eq_dec) in H1, H2. auto.
  - apply andb_true_iff. split; apply (mem_In nat Nat.eq_dec); tauto.
Qed.

(* ------------------------------------------------------------------ the returned graph, for every input *)
Theorem create_nxgraph_stages o n lens g : create_nxgraph o n lens = Ok g ->
  exists es, raw_edges o n lens = Ok es /\
    (forall x, In x (g_nodes g) <-> In x (g_nodes (build_graph o n es)) /\ ~ gone o n x) /\
    (forall a, In a (g_arcs g) <->
       In a (g_arcs (build_graph o n es)) /\ ~ gone o n (e_u a) /\ ~ gone o n (e_v a) /\ ~ In (e_u a) (notrav_list o)) /\
    no_dangling g = true.
Proof.
  unfold create_nxgraph. destruct (raw_edges o n lens) as [es|s] eqn:R; simpl; [|discriminate].
  destruct (stage_nogo o (build_graph o n es)) as [g1|s] eqn:S1; simpl; [|discriminate].
  rewrite stage_nogo_eq in S1. destruct (nogo_fold_ok _ _ _ (build_good o n es) S1) as [G1 [N1 A1]].
  destruct (stage_oos_spec o n g1 G1) as [g2 [S2 [G2 [N2 A2]]]]. rewrite S2. simpl.
  rewrite stage_notrav_eq. destruct (notrav_fold (notrav_list o) g2 (proj2 G2)) as [g3 [S3 [C3 [N3 A3]]]].
  rewrite S3. intros H. inversion H; subst g3. clear H. exists es. split; auto.
  assert (GN : forall x, gone o n x <-> In x (nogo_list o) \/ In x (if o_inc_oos o then [] else oos_ids n)).
  { intros x. unfold gone. destruct (o_inc_oos o); simpl.
    - intuition discriminate.
    - rewrite oos_ids_In. intuition. }
  split; [|split].
  - intros x. rewrite N3, N2, N1, GN. tauto.
  - intros a. rewrite A3, A2, A1, !GN. tauto.
  - now apply no_dangling_iff.
Qed.

(* valid options never raise: after the edge tables are found, the only error left is a nogobus that is not a node of
   the graph (or is listed twice) *)
Theorem create_nxgraph_total o n lens es : raw_edges o n lens = Ok es ->
  NoDup (nogo_list o) -> (forall b, In b (nogo_list o) -> In b (g_nodes (build_graph o n es))) ->
  exists g, create_nxgraph o n lens = Ok g.
Proof.
  intros R N I. unfold create_nxgraph. rewrite R. simpl. rewrite stage_nogo_eq.
  destruct (nogo_fold_total _ _ N I) as [g1 S1]. rewrite S1. simpl.
  destruct (nogo_fold_ok _ _ _ (build_good o n es) S1) as [G1 _].
  destruct (stage_oos_spec o n g1 G1) as [g2 [S2 [G2 _]]]. rewrite S2. simpl.
  rewrite stage_notrav_eq. destruct (notrav_fold (notrav_list o) g2 (proj2 G2)) as [g3 [S3 _]]. eauto.
Qed.

(* without notravbuses the returned adjacency is symmetric: the hypothesis of the partition theorem holds *)
Theorem create_nxgraph_sym o n lens g : create_nxgraph o n lens = Ok g -> notrav_list o = [] -> sym_arcs g = true.
Proof.
  intros H NT. destruct (create_nxgraph_stages o n lens g H) as [es [R [N [A D]]]].
  unfold sym_arcs. apply andb_true_iff. split; [|exact D].
  apply forallb_forall. intros a I. apply existsb_exists. exists (mirror a). split.
  - apply A. apply A in I. destruct I as [I [Gu [Gv _]]]. rewrite NT.
    split; [now apply (proj1 (build_good o n es))|].
    destruct a as [[[u v] k] w]. split; [exact Gv|split; [exact Gu|intros []]].
  - destruct a as [[[u v] k] w]. unfold mirror, e_u, e_v. simpl. now rewrite !Nat.eqb_refl.
Qed.

Theorem cc_partition_created o n lens g : create_nxgraph o n lens = Ok g -> notrav_list o = [] ->
  (forall x, In x (g_nodes g) -> exists c, In c (connected_components g []) /\ In x c) /\
  (forall c, In c (connected_components g []) ->
     (exists x, In x (g_nodes g) /\ forall y, In y c <-> path (uarcs g) x y) /\ incl c (g_nodes g)) /\
  pairwise_disjoint (connected_components g []).
Proof. intros H NT. apply cc_partition. exact (create_nxgraph_sym o n lens g H NT). Qed.

(* ------------------------------------------------------------------ walks: nogobuses and notravbuses *)
(* walk_to E x l y: l lists the nodes visited after x, ending in y *)
Fixpoint walk_to (E : list (nat * nat)) (x : nat) (l : list nat) (y : nat) : Prop :=
  match l with [] => x = y | z :: t => In (x, z) E /\ walk_to E z t y end.

Lemma path_walk E x y : path E x y <-> exists l, walk_to E x l y.
Proof.
  split.
  - intros P. apply clos_rt_rt1n in P. induction P as [x|x z y S P [l W]].
    + exists []. reflexivity.
    + exists (z :: l). split; auto.
  - intros [l W]. revert x W. induction l as [|z t IH]; simpl; intros x W.
    + subst. apply rt_refl.
    + destruct W as [I W]. eapply rt_trans; [apply rt_step; exact I|now apply IH].
Qed.

Lemma uarcs_In g u v : In (u, v) (uarcs g) <-> exists a, In a (g_arcs g) /\ e_u a = u /\ e_v a = v.
Proof.
  unfold uarcs. rewrite in_map_iff. split; intros [a H]; exists a.
  - destruct H as [E I]. inversion E. auto.
  - destruct H as [I [<- <-]]. auto.
Qed.

(* every node of a walk except the last is no notravbus; no node of a walk with at least one arc is gone *)
Theorem walk_avoids o n lens g : create_nxgraph o n lens = Ok g ->
  forall l x y, walk_to (uarcs g) x l y ->
    (forall b, In b (removelast (x :: l)) -> ~ In b (notrav_list o)) /\
    (l <> [] -> forall b, In b (x :: l) -> In b (g_nodes g) /\ ~ gone o n b).
Proof.
  intros H. destruct (create_nxgraph_stages o n lens g H) as [es [R [N [A D]]]].
  induction l as [|z t IH]; intros x y W.
  - split; [intros b []|congruence].
  - destruct W as [I W]. apply uarcs_In in I. destruct I as [a [I [Eu Ev]]].
    pose proof (proj1 (A a) I) as [_ [Gu [Gv NT]]]. rewrite Eu in Gu, NT. rewrite Ev in Gv.
    apply no_dangling_iff in D. destruct (D a I) as [Du Dv]. rewrite Eu in Du. rewrite Ev in Dv.
    destruct (IH z y W) as [IH1 IH2]. split.
    + intros b Hb. change (removelast (x :: z :: t)) with (x :: removelast (z :: t)) in Hb.
      destruct Hb as [<-|Hb]; auto.
    + intros _ b [<-|Hb]; auto. destruct t as [|z' t'].
      * destruct Hb as [<-|[]]. auto.
      * apply IH2; auto. discriminate.
Qed.

(* the graph built with notravbuses, compared with the graph built from the same call without them: its walks are
   exactly the walks in which no notravbus is left again *)
Definition without_notrav (o : opts) : opts :=
  {| o_respect := o_respect o; o_lines := o_lines o; o_imps := o_imps o; o_dclines := o_dclines o; o_trafos := o_trafos o;
     o_t3 := o_t3 o; o_nogo := o_nogo o; o_notrav := None; o_multi := o_multi o; o_inc_oos := o_inc_oos o;
     o_switches := o_switches o; o_trafo_len := o_trafo_len o; o_switch_len := o_switch_len o |}.
Lemma raw_edges_without o n lens : raw_edges (without_notrav o) n lens = raw_edges o n lens.
Proof. destruct o. reflexivity. Qed.
Lemma build_without o n es : build_graph (without_notrav o) n es = build_graph o n es.
Proof. destruct o. reflexivity. Qed.
Lemma gone_without o n b : gone (without_notrav o) n b <-> gone o n b.
Proof. destruct o. reflexivity. Qed.

Theorem notrav_walks o n lens g g0 :
  create_nxgraph o n lens = Ok g -> create_nxgraph (without_notrav o) n lens = Ok g0 ->
  g_nodes g = g_nodes g0 /\
  forall l x y, walk_to (uarcs g) x l y <->
                walk_to (uarcs g0) x l y /\ forall b, In b (removelast (x :: l)) -> ~ In b (notrav_list o).
Proof.
  intros H H0. pose proof (walk_avoids o n lens g H) as WA.
  destruct (create_nxgraph_stages _ _ _ _ H) as [es [R [N [A D]]]].
  destruct (create_nxgraph_stages _ _ _ _ H0) as [es0 [R0 [N0 [A0 D0]]]].
  rewrite raw_edges_without, R in R0. inversion R0; subst es0. clear R0. rewrite build_without in *.
  assert (AA : forall a, In a (g_arcs g) <-> In a (g_arcs g0) /\ ~ In (e_u a) (notrav_list o)).
  { intros a. rewrite A, A0, !gone_without. unfold notrav_list at 2. simpl. tauto. }
  assert (NN : forall x, In x (g_nodes g) <-> In x (g_nodes g0)).
  { intros x. rewrite N, N0, gone_without. tauto. }
  split.
  - (* both node lists are the same filter of the build-stage node list: equal as lists *)
    clear - H H0. unfold create_nxgraph in *. rewrite raw_edges_without in H0.
    destruct (raw_edges o n lens) as [es|]; simpl in *; [|discriminate].
    rewrite build_without in H0. change (stage_nogo (without_notrav o)) with (stage_nogo o) in H0.
    destruct (stage_nogo o (build_graph o n es)) as [g1|]; simpl in *; [|discriminate].
    assert (E : stage_oos (without_notrav o) n g1 = stage_oos o n g1) by (destruct o; reflexivity).
    rewrite E in H0. clear E. destruct (stage_oos o n g1) as [g2|]; simpl in *; [|discriminate].
    unfold stage_notrav in H0. simpl in H0. inversion H0; subst g0. clear H0.
    rewrite stage_notrav_eq in H. revert g2 H. induction (notrav_list o) as [|b l IH]; simpl; intros g2 H.
    + now inversion H.
    + unfold notrav_step at 1 in H. destruct (mem Nat.eq_dec b (g_nodes g2)); apply IH in H; exact H.
  - induction l as [|z t IH]; intros x y.
    + simpl. intuition.
    + change (removelast (x :: z :: t)) with (x :: removelast (z :: t)). simpl walk_to. rewrite IH. split.
      * intros [I [W NT]]. apply uarcs_In in I. destruct I as [a [I [Eu Ev]]]. apply AA in I. destruct I as [I Na].
        repeat split; auto.
        -- apply uarcs_In. exists a. auto.
        -- intros b [<-|Hb]; [now rewrite <- Eu|now apply NT].
      * intros [[I W] NT]. apply uarcs_In in I. destruct I as [a [I [Eu Ev]]]. repeat split; auto.
        -- apply uarcs_In. exists a. repeat split; auto. apply AA. split; auto. rewrite Eu. apply NT. now left.
        -- intros b Hb. apply NT. now right.
Qed.

(* graph_searches.connected_component with the notravbuses the graph was built with is plain reachability in it *)
Theorem cc_built_notrav o n lens g x y : create_nxgraph o n lens = Ok g ->
  In y (connected_component g (notrav_list o) x) <-> path (uarcs g) x y.
Proof.
  intros H. destruct (create_nxgraph_stages _ _ _ _ H) as [es [R [N [A D]]]].
  assert (E : cc_arcs g (notrav_list o) = uarcs g).
  { unfold cc_arcs, uarcs. f_equal. rewrite <- (filter_ext_in (fun _ => true)).
    - clear. induction (g_arcs g) as [|a l IH]; simpl; [reflexivity|now rewrite IH].
    - intros a I. apply A in I. destruct I as [_ [_ [_ NT]]]. apply (mem_nIn nat Nat.eq_dec) in NT. now rewrite NT. }
  unfold connected_component. rewrite E, reach_iff. split.
  - intros [s [[<-|[]] P]]. exact P.
  - intros P. exists x. split; simpl; auto.
Qed.

(* ------------------------------------------------------------------ non-vacuity: the chain 0-1-2-3 with bus 2 out of service *)
Example stages_nonvacuous :
  exists g, create_nxgraph (o_default [1]) w_chain [1; 1; 1]%Q = Ok g /\
    g_nodes g = [0; 1; 3] /\ g_arcs g = [(0, 1, (0, 0), 1%Q)] /\ walk_to (uarcs g) 0 [1] 1.
Proof. eexists. split; [vm_compute; reflexivity|]. simpl. repeat split; auto. Qed.
