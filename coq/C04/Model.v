(* C04 — setpoints and response laws.  Executable definitions only.
   Transcribes
     pandapower/build_gen.py   _build_pp_ext_grid (:106-140), _build_pp_gen (:205-227), _build_pp_xward VM part (:230-248),
                               _check_voltage_setpoints_at_same_bus (:291-339), _different_values_at_one_bus (:366-383)
     pandapower/build_bus.py   set_reference_buses (:560-575)
     pandapower/pf/run_newton_raphson_pf.py  _run_ac_pf_with_qlims_enforced (:182-250)
   and re-uses the result-extraction model of C01 (res_load_p, res_sh_p, res_pq_p, pg_after).
   The Newton solver (with pfsoln) is an oracle: [solve limited] = the QG column after ppci_to_pfsoln when the gens in
   [limited] are switched off / their buses converted to PQ. *)
From Coq Require Import String ZArith QArith Qabs List Bool.
From PPV Require Import Base.QN Base.QC Base.Out C01.Model.
Import ListNotations.
Open Scope Q_scope.

(* ---------- voltage sources written into the ppc (in-service rows only, in the order ext_grid, gen, xward) *)
Inductive skind := KEg | KGen | KSlackGen | KXward.
Record vsrc := mkV { v_kind : skind; v_bus : nat; v_vm : Q; v_va : Q }.   (* v_va: ext_grid.va_degree (0 otherwise) *)

Definition is_eg (s : vsrc) : bool := match v_kind s with KEg => true | _ => false end.
Definition is_ref_kind (s : vsrc) : bool := match v_kind s with KEg | KSlackGen => true | _ => false end.
Definition at_bus (k : nat) (l : list vsrc) : list vsrc := filter (fun s => Nat.eqb (v_bus s) k) l.

(* ppc["bus"][buses, VM] = vm  : fancy assignment in table order, element kinds in the order of gen_order; last write wins *)
Definition last_opt {A} (l : list A) : option A := match rev l with x :: _ => Some x | [] => None end.
Definition bus_vm (srcs : list vsrc) (k : nat) : option Q := option_map v_vm (last_opt (at_bus k srcs)).
(* VA only from ext_grids, only if calculate_voltage_angles (build_gen.py:119-120) *)
Definition bus_va (cva : bool) (srcs : list vsrc) (k : nat) : option Q :=
  if cva then option_map v_va (last_opt (filter is_eg (at_bus k srcs))) else None.
(* BUS_TYPE: REF = 3 (ext_grid or slack gen), PV = 2 (gen / xward aux bus), PQ = 1 *)
Definition bus_type (srcs : list vsrc) (k : nat) : nat :=
  let l := at_bus k srcs in
  if existsb is_ref_kind l then 3%nat else if negb (Nat.eqb (length l) 0) then 2%nat else 1%nat.

(* np.allclose(a, b): |a - b| <= atol + rtol*|b|, atol = 1e-8, rtol = 1e-5 *)
Definition ATOL : Q := 1 # 100000000.
Definition RTOL : Q := 1 # 100000.
Definition allclose1 (a b : Q) : bool := qleb (Qabs (qsub a b)) (qadd ATOL (qmul RTOL (Qabs b))).
(* _different_values_at_one_bus: every value against the first value of its bus *)
Definition first_vm (srcs : list vsrc) (k : nat) : option Q :=
  match at_bus k srcs with s :: _ => Some (v_vm s) | [] => None end.
Definition setpoints_consistent (srcs : list vsrc) : bool :=
  forallb (fun s => match first_vm srcs (v_bus s) with Some f => allclose1 (v_vm s) f | None => false end) srcs.
(* result of the setpoint stage for bus k: Err = UserWarning raised by _check_voltage_setpoints_at_same_bus *)
Definition run_setpoints (cva : bool) (srcs : list vsrc) (nb : nat) : out :=
  if setpoints_consistent srcs then
    OL (map (fun k => OL [ooq (bus_vm srcs k); ooq (bus_va cva srcs k); onat (bus_type srcs k)]) (seq 0 nb))
  else OErr "UserWarning"%string.

(* exact agreement of all setpoints at a bus (the guard under which "the bus holds every setpoint" is meaningful) *)
Definition same_vm (srcs : list vsrc) (k : nat) : bool :=
  match first_vm srcs k with Some f => forallb (fun s => qeqb (v_vm s) f) (at_bus k srcs) | None => true end.

(* ---------- Q-limit loop (run_newton_raphson_pf.py:182-250) *)
(* gen rows: C01.Model.gen (g_qmin, g_qmax, g_on, g_ref = row in ref_gens, g_bus) *)
Definition idxs {A} (l : list A) : list nat := seq 0 (length l).
Definition nthg (gens : list gen) (i : nat) : option gen := nth_error gens i.
Definition nthq (l : list Q) (i : nat) : Q := nth i l 0.
(* find(gen_status & qg > qmax) \ ref_gens  — gen_status: on and not switched off by the loop *)
Definition viol_max (gens : list gen) (limited : list nat) (qg : list Q) : list nat :=
  filter (fun i => match nthg gens i with
                   | Some g => g_on g && negb (memn i limited) && negb (g_ref g) && qltb (g_qmax g) (nthq qg i)
                   | None => false end) (idxs gens).
Definition viol_min (gens : list gen) (limited : list nat) (qg : list Q) : list nat :=
  filter (fun i => match nthg gens i with
                   | Some g => g_on g && negb (memn i limited) && negb (g_ref g) && qltb (nthq qg i) (g_qmin g)
                   | None => false end) (idxs gens).
Definition qmax_of (gens : list gen) (i : nat) : Q := match nthg gens i with Some g => g_qmax g | None => 0 end.
Definition qmin_of (gens : list gen) (i : nat) : Q := match nthg gens i with Some g => g_qmin g | None => 0 end.

(* np.argmax: first index of the maximum *)
Fixpoint argmax_from (l : list Q) (i : nat) (best : nat) (bv : Q) : nat :=
  match l with [] => best | x :: t => if qltb bv x then argmax_from t (S i) i x else argmax_from t (S i) best bv end.
Definition argmax (l : list Q) : nat := match l with [] => 0%nat | x :: t => argmax_from t 1 0 x end.

Inductive sel := SelErr | SelOk (mx mn : list nat).
(* qlim == 2: fix the largest violation only: `if k >= len(mx)` selects mn[k - len(mx)], else mx[k]
   (after "fix: enforce_q_lims=2 no longer raises IndexError when a lower q limit is the largest violation") *)
Definition viols (gens : list gen) (qg : list Q) (mx mn : list nat) : list Q :=
  map (fun i => qsub (nthq qg i) (qmax_of gens i)) mx ++ map (fun i => qsub (qmin_of gens i) (nthq qg i)) mn.
Definition select (qlim2 : bool) (gens : list gen) (qg : list Q) (mx mn : list nat) : sel :=
  if qlim2 then
    let k := argmax (viols gens qg mx mn) in
    if Nat.leb (length mx) k then
      match nth_error mn (k - length mx) with Some i => SelOk [] [i] | None => SelErr end
    else match nth_error mx k with Some i => SelOk [i] [] | None => SelErr end
  else SelOk mx mn.
(* before the repair: `if k > len(mx)` : k = len(mx) fell into mx[k] -> IndexError *)
Definition select_old (qlim2 : bool) (gens : list gen) (qg : list Q) (mx mn : list nat) : sel :=
  if qlim2 then
    let k := argmax (viols gens qg mx mn) in
    if Nat.ltb (length mx) k then
      match nth_error mn (k - length mx) with Some i => SelOk [] [i] | None => SelErr end
    else match nth_error mx k with Some i => SelOk [i] [] | None => SelErr end
  else SelOk mx mn.

(* state: gens at their limits in the order they were limited, with the stored limit value (fixedQg) *)
Record qstate := mkS { limited : list nat; fixedq : list (nat * Q) }.
Definition lookup_fixed (f : list (nat * Q)) (i : nat) : option Q :=
  option_map snd (last_opt (filter (fun p => Nat.eqb (fst p) i) f)).   (* later assignment wins *)

Inductive qres :=
| QErr (e : nat)                       (* 1 = IndexError (qlim 2), 2 = oracle undefined, 3 = fuel exhausted *)
| QDone (st : qstate) (qg : list Q) (calls : nat).

Section Loop.
  Variable solve : list nat -> option (list Q).     (* limited -> QG column after ppci_to_pfsoln *)
  Variable qlim2 : bool.
  Variable gens : list gen.

  Fixpoint qloop (fuel : nat) (st : qstate) (calls : nat) : qres :=
    match fuel with
    | O => QErr 3
    | S fuel' =>
      match solve (limited st) with
      | None => QErr 2
      | Some qg =>
        let mx := viol_max gens (limited st) qg in
        let mn := viol_min gens (limited st) qg in
        match mx, mn with
        | [], [] => QDone st qg (S calls)                                    (* break *)
        | _, _ =>
          match select qlim2 gens qg mx mn with
          | SelErr => QErr 1
          | SelOk mx' mn' =>
            let fx := map (fun i => (i, qmax_of gens i)) mx' ++ map (fun i => (i, qmin_of gens i)) mn' in
            qloop fuel' (mkS (limited st ++ mx' ++ mn') (fixedq st ++ fx)) (S calls)
          end
        end
      end
    end.

  Definition qrun : qres := qloop (S (length gens)) (mkS [] []) 0.

  (* gen[limited, QG] = fixedQg[limited] after the loop; the other rows keep the last pfsoln value *)
  Definition final_qg (st : qstate) (qg : list Q) (i : nat) : Q :=
    if memn i (limited st) then match lookup_fixed (fixedq st) i with Some q => q | None => nthq qg i end
    else nthq qg i.
End Loop.

(* bus type seen by the Newton run for a given limited set: bus[setdiff1d(changed_gens, ref), BUS_TYPE] = PQ *)
Definition bus_is_pq_after (gens : list gen) (ref : list nat) (limited : list nat) (k : nat) : bool :=
  negb (memn k ref) &&
  existsb (fun i => match nthg gens i with Some g => Nat.eqb (g_bus g) k | None => false end) limited.

(* ---------- response laws (spec side, closed forms) *)
Definition load_law_p (l : load) (v : Q) : Q :=
  let cz := l_czp l / 100 in let ci := l_cip l / 100 in
  l_p l * l_sc l * (1 - ci - cz + ci * v + cz * (v * v)).
Definition load_law_q (l : load) (v : Q) : Q :=
  let cz := l_czq l / 100 in let ci := l_ciq l / 100 in
  l_q l * l_sc l * (1 - ci - cz + ci * v + cz * (v * v)).
Definition shunt_law_p (s : shel) (v : Q) : Q :=
  s_step s * s_p s * ((v * s_bkv s / s_vn s) * (v * s_bkv s / s_vn s)).
Definition shunt_law_q (s : shel) (v : Q) : Q :=
  s_step s * s_q s * ((v * s_bkv s / s_vn s) * (v * s_bkv s / s_vn s)).

(* ---------- run wrappers *)
Definition oqres (gens : list gen) (r : qres) : out :=
  match r with
  | QErr 1 => OErr "IndexError"%string | QErr 2 => OErr "oracle"%string | QErr _ => OErr "fuel"%string
  | QDone st qg calls =>
      OL [ olist onat (limited st);
           olist (fun i => oq (final_qg st qg i)) (idxs gens);
           onat calls ]
  end.
(* recorded oracle: association list (limited set at the call, QG column returned) *)
Fixpoint eq_natlist (a b : list nat) : bool :=
  match a, b with [], [] => true | x :: a', y :: b' => Nat.eqb x y && eq_natlist a' b' | _, _ => false end.
Definition table_solve (tab : list (list nat * list Q)) (lim : list nat) : option (list Q) :=
  option_map snd (find (fun p => eq_natlist (fst p) lim) tab).
Definition run_qloop (tab : list (list nat * list Q)) (qlim2 : bool) (gens : list gen) : out :=
  oqres gens (qrun (table_solve tab) qlim2 gens).

(* ---------- solver bypass (powerflow.py:150-154, _bypass_pf_and_set_results :192-201): when no in-service bus is PV or PQ
   (every bus carries an ext_grid or a slack gen) the Newton solver AND the q-limit loop are skipped; pfsoln is applied
   once to the setpoint voltages.  G04b = the loop is actually run. *)
Definition G04b (srcs : list vsrc) (nb : nat) : bool := negb (forallb (fun k => Nat.eqb (bus_type srcs k) 3) (seq 0 nb)).
Definition run_q (srcs : list vsrc) (nb : nat) (solve : list nat -> option (list Q)) (qlim2 : bool) (gens : list gen) : qres :=
  if G04b srcs nb then qrun solve qlim2 gens
  else match solve [] with Some qg => QDone (mkS [] []) qg 1 | None => QErr 2 end.

(* ---------- runpf_pypower._run_ac_pf_with_qlims_enforced (fdbx, fdxb, gs): after "fix: fdbx/fdxb/gs enforce the q limits of gens
   whose min_q_mvar or max_q_mvar is 0" the loop excludes exactly the reference gens and selects with `k >= len(mx)`, i.e. it is
   [qloop] above.  Before, reference gens were recognised by the proxy "QMAX and QMIN both non-zero": *)
Definition viol_max_old_pypower (gens : list gen) (limited : list nat) (qg : list Q) : list nat :=
  filter (fun i => match nthg gens i with
                   | Some g => g_on g && negb (memn i limited) && (negb (qeqb (g_qmax g) 0) && negb (qeqb (g_qmin g) 0))
                               && qltb (g_qmax g) (nthq qg i)
                   | None => false end) (idxs gens).

(* ---------- pfsoln._update_p: after "fix: pfsoln writes the slack power to the gen rows, not to positions in the list of
   switched-on gens" the gens of a reference bus are rows of gen (on[gbus == slack_bus]), which is what C01.Model.pg_after
   assumes.  Before, positions in gbus = gen[on, GEN_BUS] were used as row numbers: *)
Fixpoint positions_eq (k : nat) (l : list nat) (i : nat) : list nat :=
  match l with [] => [] | b :: t => if Nat.eqb b k then i :: positions_eq k t (S i) else positions_eq k t (S i) end.
Definition on_rows (gens : list gen) : list nat :=
  filter (fun i => match nthg gens i with Some g => g_on g | None => false end) (idxs gens).
Definition gbus_of (gens : list gen) : list nat :=
  map (fun i => match nthg gens i with Some g => g_bus g | None => 0%nat end) (on_rows gens).
Definition gens_at_bus_old (gens : list gen) (k : nat) : list nat := positions_eq k (gbus_of gens) 0.
Definition gens_at_bus_rows (gens : list gen) (k : nat) : list nat :=
  map (fun p => nth p (on_rows gens) 0%nat) (positions_eq k (gbus_of gens) 0).

(* ---------- bus demand columns during the q-limit loop (run_newton_raphson_pf.py:182-250): the PD/QD backup / restore history.
   bus_backup_p_q = bus[:, [PD, QD]] before the loop.  Every pass: PF on the current PD/QD, then gen PG and bus PD are restored
   from the backups, ppci_to_pfsoln writes gen PG/QG (QG = 0 for switched-off rows, pfsoln.py:118-119) and possibly bus PD
   (distributed slack); on a violation the new rows get QG = their limit, and for EVERY limited row i (old and new, in order,
   duplicates included) bus[GEN_BUS i, [PD, QD]] -= gen[i, [PG, QG]].  After the loop QD is restored from the backup when some row was
   limited; PD is what the last pfsoln left.
   pass = the observable data of one violating pass: bus PD and gen PG after ppci_to_pfsoln (oracle), the rows limited by this pass
   with the limit value written to QG. *)
Record pass := mkPass { ps_pd1 : list Q; ps_pg : list Q; ps_new : list (nat * Q) }.
Record dst := mkDst { ds_lim : list nat; ds_pd : list Q; ds_qd : list Q }.

Fixpoint sub_at (col : list Q) (k : nat) (x : Q) : list Q :=          (* col[k] -= x *)
  match col, k with
  | [], _ => []
  | c :: t, O => qsub c x :: t
  | c :: t, S k' => c :: sub_at t k' x
  end.
Definition dec_all (gbus : nat -> nat) (f : nat -> Q) (rows : list nat) (col : list Q) : list Q :=
  fold_left (fun c i => sub_at c (gbus i) (f i)) rows col.
(* gen[i, QG] when the demand is adjusted: the limit for the rows limited by this pass (fixedQg, later assignment wins), zero for the
   rows switched off by an earlier pass *)
Definition qg_now (new : list (nat * Q)) (i : nat) : Q := match lookup_fixed new i with Some q => q | None => 0 end.
Definition dstep (gbus : nat -> nat) (s : dst) (p : pass) : dst :=
  let lim' := ds_lim s ++ map fst (ps_new p) in
  mkDst lim'
        (dec_all gbus (fun i => nth i (ps_pg p) 0) lim' (ps_pd1 p))
        (dec_all gbus (qg_now (ps_new p)) lim' (ds_qd s)).
Definition drun (gbus : nat -> nat) (pd0 qd0 : list Q) (passes : list pass) : dst :=
  fold_left (dstep gbus) passes (mkDst [] pd0 qd0).
(* the demand seen by the PF call after each pass *)
Fixpoint dtrace (gbus : nat -> nat) (s : dst) (passes : list pass) : list dst :=
  match passes with [] => [] | p :: t => let s' := dstep gbus s p in s' :: dtrace gbus s' t end.
(* after the loop: (PD, QD); last_pd1 = bus PD after the pfsoln of the pass that found no violation *)
Definition dfinal (qd0 : list Q) (s : dst) (last_pd1 : list Q) : list Q * list Q :=
  (last_pd1, if Nat.eqb (length (ds_lim s)) 0 then ds_qd s else qd0).
(* a pass limits rows that are not limited yet (viol_max / viol_min filter on gen_status) *)
Fixpoint fresh_passes (lim : list nat) (passes : list pass) : bool :=
  match passes with
  | [] => true
  | p :: t => forallb (fun i => negb (memn i lim)) (map fst (ps_new p)) && fresh_passes (lim ++ map fst (ps_new p)) t
  end.
Definition gbus_of_list (gb : list nat) (i : nat) : nat := nth i gb 0%nat.
Definition run_demand (gb : list nat) (pd0 qd0 : list Q) (passes : list pass) (last_pd1 : list Q) : out :=
  let gbus := gbus_of_list gb in
  let s := drun gbus pd0 qd0 passes in
  OL [ OL (map (fun d => OL [olist oq (ds_pd d); olist oq (ds_qd d)]) (dtrace gbus (mkDst [] pd0 qd0) passes));
       OL [olist oq (fst (dfinal qd0 s last_pd1)); olist oq (snd (dfinal qd0 s last_pd1))];
       OB (fresh_passes [] passes) ].

(* ---------- q limits of a gen row: min_q_mvar / max_q_mvar of the gen table (None = NaN / column missing).
   pd2ppc._replace_nans_with_default_limits (auxiliary.py:1694-1703) replaces NaN by -/+ q_lim_default before nan_to_num; after
   "fix: a recycled power flow with recycle["gen"] keeps the default q limits of gens without limits" the recycled path
   (powerflow.py:118-124) does the same.  Before, the recycled path applied nan_to_num only: NaN -> 0. *)
Definition row_limits (qdef : Q) (qmin qmax : option Q) : Q * Q :=
  (match qmin with Some x => x | None => qopp qdef end, match qmax with Some x => x | None => qdef end).
Definition row_limits_recycled_old (qmin qmax : option Q) : Q * Q :=
  (match qmin with Some x => x | None => 0 end, match qmax with Some x => x | None => 0 end).
Definition run_row_limits (qdef : Q) (rows : list (option Q * option Q)) : out :=
  OL (map (fun r => let l := row_limits qdef (fst r) (snd r) in OL [oq (fst l); oq (snd l)]) rows).
