(* C04 — the PD/QD backup / restore history of _run_ac_pf_with_qlims_enforced, for every iteration history:
   the demand every PF call sees is the backup minus the injections of the limited rows (each limit counted once),
   and after the loop QD is the backup again (frame theorem), PD is what the last pfsoln left. *)
From Coq Require Import ZArith QArith Qabs List Bool Lia Lqa Setoid Morphisms.
From PPV Require Import Base.QN Base.QC C01.Model C01.Proofs C04.Model.
Import ListNotations.
Open Scope Q_scope.

Lemma sub_at_length col : forall k x, length (sub_at col k x) = length col.
Proof. induction col as [|c t IH]; intros [|k] x; cbn; try reflexivity. rewrite IH. reflexivity. Qed.
Lemma nth_sub_at col : forall k j x, (k < length col)%nat ->
  nth j (sub_at col k x) 0 == nth j col 0 - (if Nat.eqb k j then x else 0).
Proof.
  induction col as [|c t IH]; intros k j x Hk; [cbn in Hk; lia|].
  destruct k as [|k]; destruct j as [|j]; cbn [sub_at nth Nat.eqb].
  - rewrite qsub_correct. reflexivity.
  - ring.
  - ring.
  - apply IH. cbn in Hk. lia.
Qed.
Lemma dec_all_length gbus f rows : forall col, length (dec_all gbus f rows col) = length col.
Proof.
  unfold dec_all. induction rows as [|i rows IH]; intros col; [reflexivity|]. cbn [fold_left].
  rewrite IH, sub_at_length. reflexivity.
Qed.
(* col[gbus i] -= f i for all rows: every bus loses the sum over its rows *)
Lemma nth_dec_all gbus f rows : forall col k, (forall i, In i rows -> (gbus i < length col)%nat) ->
  nth k (dec_all gbus f rows col) 0 == nth k col 0 - sumf f (filter (fun i => Nat.eqb (gbus i) k) rows).
Proof.
  unfold dec_all. induction rows as [|i rows IH]; intros col k H.
  - cbn [fold_left filter]. rewrite sumf_nil. ring.
  - cbn [fold_left filter]. rewrite IH.
    + rewrite nth_sub_at by (apply H; left; reflexivity).
      destruct (Nat.eqb (gbus i) k); [rewrite sumf_cons|]; ring.
    + intros i' Hi'. rewrite sub_at_length. apply H. right. exact Hi'.
Qed.

Lemma lookup_fixed_notkey new i : ~ In i (map fst new) -> lookup_fixed new i = None.
Proof.
  intros H. unfold lookup_fixed.
  assert (E : filter (fun p : nat * Q => Nat.eqb (fst p) i) new = []).
  { induction new as [|p new IH]; [reflexivity|]. cbn [filter].
    destruct (Nat.eqb (fst p) i) eqn:Ei.
    - apply Nat.eqb_eq in Ei. exfalso. apply H. left. exact Ei.
    - apply IH. intros Hin. apply H. right. exact Hin. }
  rewrite E. reflexivity.
Qed.
Lemma qg_now_notkey new i : ~ In i (map fst new) -> qg_now new i = 0.
Proof. intros H. unfold qg_now. rewrite (lookup_fixed_notkey _ _ H). reflexivity. Qed.

(* total limit value the passes have put on bus k *)
Definition fixed_on (gbus : nat -> nat) (k : nat) (p : pass) : Q :=
  sumf (qg_now (ps_new p)) (filter (fun i => Nat.eqb (gbus i) k) (map fst (ps_new p))).
Definition fixed_total (gbus : nat -> nat) (k : nat) (passes : list pass) : Q := sumf (fixed_on gbus k) passes.

Definition rows_ok (gbus : nat -> nat) (nb : nat) (passes : list pass) : Prop :=
  forall p i, In p passes -> In i (map fst (ps_new p)) -> (gbus i < nb)%nat.
Definition pd_ok (nb : nat) (passes : list pass) : Prop := forall p, In p passes -> length (ps_pd1 p) = nb.

Lemma memn_In' x l : memn x l = true <-> In x l.
Proof.
  unfold memn. rewrite existsb_exists. split.
  - intros (y & Hy & E). apply Nat.eqb_eq in E. subst. exact Hy.
  - intros H. exists x. split; [exact H | apply Nat.eqb_refl].
Qed.

(* generalised invariant of the fold *)
Lemma drun_inv gbus nb : forall passes s,
  length (ds_qd s) = nb -> (forall i, In i (ds_lim s) -> (gbus i < nb)%nat) ->
  rows_ok gbus nb passes -> fresh_passes (ds_lim s) passes = true ->
  let s' := fold_left (dstep gbus) passes s in
  length (ds_qd s') = nb /\
  (forall i, In i (ds_lim s') -> (gbus i < nb)%nat) /\
  ds_lim s' = ds_lim s ++ flat_map (fun p => map fst (ps_new p)) passes /\
  forall k, nth k (ds_qd s') 0 == nth k (ds_qd s) 0 - fixed_total gbus k passes.
Proof.
  induction passes as [|p passes IH]; intros s Hl Hb Hr Hf.
  - cbn [fold_left flat_map]. rewrite app_nil_r. repeat split; auto. intros k. unfold fixed_total. rewrite sumf_nil. ring.
  - cbn [fold_left]. cbn [fresh_passes] in Hf. apply andb_true_iff in Hf. destruct Hf as [Hnew Hf].
    set (s1 := dstep gbus s p).
    assert (Hlim1 : ds_lim s1 = ds_lim s ++ map fst (ps_new p)) by reflexivity.
    assert (Hb1 : forall i, In i (ds_lim s1) -> (gbus i < nb)%nat).
    { intros i Hi. rewrite Hlim1 in Hi. apply in_app_or in Hi. destruct Hi as [Hi|Hi]; [apply Hb; exact Hi|].
      apply (Hr p i); [left; reflexivity | exact Hi]. }
    assert (Hl1 : length (ds_qd s1) = nb) by (unfold s1, dstep; cbn [ds_qd]; rewrite dec_all_length; exact Hl).
    destruct (IH s1 Hl1 Hb1) as (L & B & E & Q).
    + intros p' i Hp' Hi. apply (Hr p' i); [right; exact Hp' | exact Hi].
    + rewrite Hlim1. exact Hf.
    + split; [exact L|]. split; [exact B|]. split.
      * rewrite E, Hlim1. cbn [flat_map]. rewrite app_assoc. reflexivity.
      * intros k. rewrite Q. unfold fixed_total. rewrite sumf_cons.
        assert (S1 : nth k (ds_qd s1) 0 == nth k (ds_qd s) 0 - fixed_on gbus k p).
        { unfold s1, dstep. cbn [ds_qd]. rewrite nth_dec_all.
          - rewrite filter_app, sumf_app.
            rewrite (sumf_ext (qg_now (ps_new p)) (fun _ => 0) (filter _ (ds_lim s))).
            + rewrite sumf_const. unfold fixed_on. ring.
            + intros i Hi. apply filter_In in Hi. destruct Hi as [Hi _].
              rewrite qg_now_notkey; [reflexivity|]. intros Hin.
              rewrite forallb_forall in Hnew. specialize (Hnew i Hin). apply negb_true_iff in Hnew.
              apply memn_In' in Hi. congruence.
          - intros i Hi. rewrite Hl. apply Hb1. rewrite Hlim1. exact Hi. }
        rewrite S1. ring.
Qed.

(* (1) what the solver sees after any history: QD = backup - limits of the limited rows of the bus (each limit once) *)
Lemma demand_qd gbus pd0 qd0 passes k :
  rows_ok gbus (length qd0) passes -> fresh_passes [] passes = true ->
  nth k (ds_qd (drun gbus pd0 qd0 passes)) 0 == nth k qd0 0 - fixed_total gbus k passes.
Proof.
  intros Hr Hf. unfold drun.
  destruct (drun_inv gbus (length qd0) passes (mkDst [] pd0 qd0)) as (_ & _ & _ & Q); auto.
  intros i [].
Qed.
Lemma fold_lim gbus : forall passes s,
  ds_lim (fold_left (dstep gbus) passes s) = ds_lim s ++ flat_map (fun p => map fst (ps_new p)) passes.
Proof.
  induction passes as [|p ps IH]; intros s; cbn [fold_left flat_map]; [rewrite app_nil_r; reflexivity|].
  rewrite IH. cbn [dstep ds_lim]. rewrite app_assoc. reflexivity.
Qed.
(* (2) PD after a pass: what pfsoln left minus the PG of every limited row of the bus *)
Lemma demand_pd gbus pd0 qd0 passes p k :
  (forall i, In i (ds_lim (drun gbus pd0 qd0 (passes ++ [p]))) -> (gbus i < length (ps_pd1 p))%nat) ->
  nth k (ds_pd (drun gbus pd0 qd0 (passes ++ [p]))) 0 ==
  nth k (ps_pd1 p) 0 - sumf (fun i => nth i (ps_pg p) 0)
                            (filter (fun i => Nat.eqb (gbus i) k) (ds_lim (drun gbus pd0 qd0 (passes ++ [p])))).
Proof.
  unfold drun. rewrite fold_left_app. cbn [fold_left]. intros H. cbn [dstep ds_pd ds_lim] in *. apply nth_dec_all. exact H.
Qed.

(* (3) frame: after the loop QD is the backup, whatever the history *)
Lemma fixed_total_no_rows gbus k passes :
  flat_map (fun p => map fst (ps_new p)) passes = [] -> fixed_total gbus k passes == 0.
Proof.
  induction passes as [|p ps IH]; intros H; unfold fixed_total in *; [reflexivity|].
  cbn [flat_map] in H. apply app_eq_nil in H. destruct H as [H1 H2].
  rewrite sumf_cons, (IH H2). unfold fixed_on. rewrite H1. cbn [filter]. rewrite sumf_nil. ring.
Qed.
Lemma qd_frame gbus pd0 qd0 passes last_pd1 k :
  rows_ok gbus (length qd0) passes -> fresh_passes [] passes = true ->
  nth k (snd (dfinal qd0 (drun gbus pd0 qd0 passes) last_pd1)) 0 == nth k qd0 0.
Proof.
  intros Hr Hf. unfold dfinal. cbn [snd].
  destruct (Nat.eqb (length (ds_lim (drun gbus pd0 qd0 passes))) 0) eqn:E; [|reflexivity].
  apply Nat.eqb_eq, length_zero_iff_nil in E.
  rewrite (demand_qd gbus pd0 qd0 passes k Hr Hf).
  unfold drun in E. rewrite fold_lim in E. cbn [ds_lim app] in E.
  rewrite (fixed_total_no_rows gbus k passes E). ring.
Qed.
(* PD after the loop is the column the last pfsoln wrote; when pfsoln does not write PD (no distributed slack) that is the backup *)
Lemma pd_frame qd0 s last_pd1 pd0 : last_pd1 = pd0 -> fst (dfinal qd0 s last_pd1) = pd0.
Proof. intros ->. reflexivity. Qed.

Lemma demand_frame gbus pd0 qd0 passes last_pd1 k :
  rows_ok gbus (length qd0) passes -> fresh_passes [] passes = true ->
  nth k (snd (dfinal qd0 (drun gbus pd0 qd0 passes) last_pd1)) 0 == nth k qd0 0 /\
  (last_pd1 = pd0 -> fst (dfinal qd0 (drun gbus pd0 qd0 passes) last_pd1) = pd0).
Proof. intros. split; [apply qd_frame; assumption | apply pd_frame]. Qed.

(* witness: two gens on bus 1, limited in two successive passes (enforce_q_lims = 2) *)
Definition wit_gbus (i : nat) : nat := match i with 1%nat => 1%nat | 2%nat => 1%nat | _ => 0%nat end.
Definition wit_passes : list pass :=
  [mkPass [0; 5; 6] [0; 2; 3] [(1%nat, 1)]; mkPass [0; 5; 6] [0; 2; 3] [(2%nat, 1 # 2)]].
Lemma demand_witness :
  fresh_passes [] wit_passes = true /\
  ds_qd (drun wit_gbus [0; 5; 6] [0; 4; 6] wit_passes) = [0; 5 # 2; 6] /\
  ds_pd (drun wit_gbus [0; 5; 6] [0; 4; 6] wit_passes) = [0; 0; 6] /\
  dfinal [0; 4; 6] (drun wit_gbus [0; 5; 6] [0; 4; 6] wit_passes) [0; 5; 6] = ([0; 5; 6], [0; 4; 6]).
Proof. vm_compute. repeat split. Qed.

(* ---------- default q limits (repaired recycled path): a gen row without limits is never selected by the loop as long as the
   power flow keeps |QG| within the default; under the rule before the repair (NaN -> 0) it was limited to 0 by any non-zero QG *)
Lemma nth_error_idxs {A} (l : list A) i : In i (idxs l) -> exists a, nth_error l i = Some a.
Proof.
  unfold idxs. rewrite in_seq. intros [_ H]. destruct (nth_error l i) eqn:E; [eexists; reflexivity|].
  apply nth_error_None in E. cbn in H. lia.
Qed.
Lemma unlimited_row_never_limited gens limited qg qdef i g :
  nth_error gens i = Some g ->
  (g_qmin g, g_qmax g) = row_limits qdef None None ->
  Qabs (nthq qg i) <= qdef ->
  ~ In i (viol_max gens limited qg) /\ ~ In i (viol_min gens limited qg).
Proof.
  intros Hg Hl Hq. unfold row_limits in Hl. injection Hl as Hmin Hmax.
  assert (B : - qdef <= nthq qg i /\ nthq qg i <= qdef) by (apply Qabs_Qle_condition; exact Hq).
  split; intros Hin; unfold viol_max, viol_min in Hin; apply filter_In in Hin; destruct Hin as [_ H];
    unfold nthg in H; rewrite Hg in H; repeat (apply andb_true_iff in H; destruct H as [H ?]).
  - apply qltb_lt in H0. rewrite Hmax in H0. lra.
  - apply qltb_lt in H0. rewrite Hmin, qopp_correct in H0. lra.
Qed.
Definition wit_nolim_gen : gen :=
  let l := row_limits_recycled_old None None in mkGen 1 1 1 (fst l) (snd l) 0 true false.
Lemma recycled_old_limits_refuted :
  row_limits_recycled_old None None = (0, 0) /\
  viol_max [wit_nolim_gen] [] [1 # 2] = [0%nat] /\            (* the gen without limits was limited (to q = 0) *)
  (let l := row_limits 1000000000 None None in viol_max [mkGen 1 1 1 (fst l) (snd l) 0 true false] [] [1 # 2] = []).
Proof. vm_compute. repeat split. Qed.
