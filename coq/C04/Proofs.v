(* C04 — lemmas: setpoint writing, q-limit loop invariants (for every PF oracle), response laws. *)
From Coq Require Import ZArith QArith Qabs List Bool Lia Lqa Setoid Morphisms.
From PPV Require Import Base.QN Base.QC C01.Model C01.Proofs C01.Balance C04.Model.
Import ListNotations.
Open Scope Q_scope.

(* ------------------------------------------------------------------ setpoints *)
Lemma last_opt_In {A} (l : list A) x : last_opt l = Some x -> In x l.
Proof.
  unfold last_opt. destruct (rev l) as [|y t] eqn:E; [discriminate|]. intros H. injection H as ->.
  apply in_rev. rewrite E. left. reflexivity.
Qed.
Lemma last_opt_nonempty {A} (l : list A) : l <> [] -> exists x, last_opt l = Some x.
Proof.
  intros H. unfold last_opt. destruct (rev l) as [|y t] eqn:E; [|exists y; reflexivity].
  exfalso. apply H. rewrite <- (rev_involutive l), E. reflexivity.
Qed.
Lemma at_bus_In k l s : In s (at_bus k l) <-> In s l /\ v_bus s = k.
Proof. unfold at_bus. rewrite filter_In, Nat.eqb_eq. reflexivity. Qed.

(* the magnitude written to a bus is the setpoint of an in-service source at that bus *)
Lemma bus_vm_is_source srcs k v : bus_vm srcs k = Some v -> exists s, In s srcs /\ v_bus s = k /\ v_vm s = v.
Proof.
  unfold bus_vm. destruct (last_opt (at_bus k srcs)) as [s|] eqn:E; [|discriminate].
  intros H. injection H as <-. apply last_opt_In, at_bus_In in E. exists s. tauto.
Qed.
(* every bus with a source gets a magnitude *)
Lemma bus_vm_defined srcs k s : In s srcs -> v_bus s = k -> exists v, bus_vm srcs k = Some v.
Proof.
  intros Hs Hk. unfold bus_vm.
  destruct (last_opt_nonempty (at_bus k srcs)) as [x Hx].
  - intros E. assert (In s (at_bus k srcs)) by (apply at_bus_In; tauto). rewrite E in H. exact H.
  - rewrite Hx. eexists. reflexivity.
Qed.
Lemma first_vm_In srcs k f : first_vm srcs k = Some f -> exists s, In s (at_bus k srcs) /\ v_vm s = f.
Proof.
  unfold first_vm. destruct (at_bus k srcs) as [|s t]; [discriminate|]. intros H. injection H as <-.
  exists s. split; [left|]; reflexivity.
Qed.
(* if all setpoints of a bus agree, the bus carries the setpoint of each of its sources *)
Lemma same_vm_holds srcs k s v : same_vm srcs k = true -> In s srcs -> v_bus s = k -> bus_vm srcs k = Some v -> v_vm s == v.
Proof.
  unfold same_vm. intros H Hs Hk Hv.
  assert (Hin : In s (at_bus k srcs)) by (apply at_bus_In; tauto).
  destruct (first_vm srcs k) as [f|] eqn:F.
  - rewrite forallb_forall in H.
    destruct (bus_vm_is_source _ _ _ Hv) as (s' & Hs' & Hk' & Hv').
    assert (Hin' : In s' (at_bus k srcs)) by (apply at_bus_In; tauto).
    pose proof (H _ Hin) as E1. pose proof (H _ Hin') as E2. apply qeqb_eq in E1, E2.
    rewrite E1, <- Hv', E2. reflexivity.
  - unfold first_vm in F. destruct (at_bus k srcs); [destruct Hin | discriminate].
Qed.
(* accepted (np.allclose-consistent) setpoints: every source is within twice the allclose tolerance of the bus value *)
Lemma allclose1_bound a f : allclose1 a f = true -> Qabs (a - f) <= ATOL + RTOL * Qabs f.
Proof. unfold allclose1. intros H. apply qleb_le in H. qnorm. exact H. Qed.
Lemma consistent_close srcs k s v f :
  setpoints_consistent srcs = true -> In s srcs -> v_bus s = k -> bus_vm srcs k = Some v -> first_vm srcs k = Some f ->
  Qabs (v_vm s - v) <= 2 * (ATOL + RTOL * Qabs f).
Proof.
  unfold setpoints_consistent. intros H Hs Hk Hv Hf. rewrite forallb_forall in H.
  destruct (bus_vm_is_source _ _ _ Hv) as (s' & Hs' & Hk' & Hv').
  pose proof (H _ Hs) as E1. pose proof (H _ Hs') as E2. rewrite Hk, Hf in E1. rewrite Hk', Hf in E2.
  apply allclose1_bound in E1, E2. rewrite Hv' in E2.
  set (T := ATOL + RTOL * Qabs f) in *.
  apply Qabs_Qle_condition in E1, E2. apply Qabs_Qle_condition. destruct E1, E2. split; lra.
Qed.
(* reference type iff an ext_grid or a slack gen is connected *)
Lemma bus_type_ref srcs k : bus_type srcs k = 3%nat <-> exists s, In s srcs /\ v_bus s = k /\ is_ref_kind s = true.
Proof.
  unfold bus_type. destruct (existsb is_ref_kind (at_bus k srcs)) eqn:E.
  - split; [intros _|reflexivity]. apply existsb_exists in E. destruct E as (s & Hs & Hr). apply at_bus_In in Hs. exists s. tauto.
  - split.
    + destruct (negb (length (at_bus k srcs) =? 0)%nat); discriminate.
    + intros (s & Hs & Hk & Hr). assert (existsb is_ref_kind (at_bus k srcs) = true).
      { apply existsb_exists. exists s. split; [apply at_bus_In; tauto | exact Hr]. }
      congruence.
Qed.

(* ------------------------------------------------------------------ q-limit loop *)
Section LoopProofs.
  Variable solve : list nat -> option (list Q).
  Variable qlim2 : bool.
  Variable gens : list gen.

  Definition eligible (lim : list nat) (i : nat) : bool :=
    match nthg gens i with Some g => g_on g && negb (g_ref g) | None => false end && negb (memn i lim).
  Definition free (lim : list nat) : list nat := filter (eligible lim) (idxs gens).

  Lemma memn_In x l : memn x l = true <-> In x l.
  Proof.
    unfold memn. rewrite existsb_exists. split.
    - intros (y & Hy & E). apply Nat.eqb_eq in E. subst. exact Hy.
    - intros H. exists x. split; [exact H | apply Nat.eqb_refl].
  Qed.
  Lemma memn_app x a b : memn x (a ++ b) = memn x a || memn x b.
  Proof. unfold memn. apply existsb_app. Qed.

  Lemma viol_max_spec lim qg i : In i (viol_max gens lim qg) ->
    In i (idxs gens) /\ eligible lim i = true /\ exists g, nthg gens i = Some g /\ g_qmax g < nthq qg i.
  Proof.
    unfold viol_max, eligible. rewrite filter_In. intros [Hi H]. split; [exact Hi|].
    destruct (nthg gens i) as [g|]; [|discriminate].
    apply andb_true_iff in H. destruct H as [H Hq]. apply andb_true_iff in H. destruct H as [H Hr].
    apply andb_true_iff in H. destruct H as [Ho Hl].
    split; [rewrite Ho, Hr, Hl; reflexivity|]. exists g. split; [reflexivity | apply qltb_lt; exact Hq].
  Qed.
  Lemma viol_min_spec lim qg i : In i (viol_min gens lim qg) ->
    In i (idxs gens) /\ eligible lim i = true /\ exists g, nthg gens i = Some g /\ nthq qg i < g_qmin g.
  Proof.
    unfold viol_min, eligible. rewrite filter_In. intros [Hi H]. split; [exact Hi|].
    destruct (nthg gens i) as [g|]; [|discriminate].
    apply andb_true_iff in H. destruct H as [H Hq]. apply andb_true_iff in H. destruct H as [H Hr].
    apply andb_true_iff in H. destruct H as [Ho Hl].
    split; [rewrite Ho, Hr, Hl; reflexivity|]. exists g. split; [reflexivity | apply qltb_lt; exact Hq].
  Qed.

  Lemma select_sub qg mx mn mx' mn' : select qlim2 gens qg mx mn = SelOk mx' mn' ->
    incl mx' mx /\ incl mn' mn /\ ((mx <> [] \/ mn <> []) -> mx' ++ mn' <> []).
  Proof.
    unfold select. destruct qlim2.
    - destruct (Nat.leb (length mx) _).
      + destruct (nth_error mn _) as [i|] eqn:E; [|discriminate]. intros H. injection H as <- <-.
        apply nth_error_In in E. repeat split; [intros x [] | intros x [<-|[]]; exact E | intros _; discriminate].
      + destruct (nth_error mx _) as [i|] eqn:E; [|discriminate]. intros H. injection H as <- <-.
        apply nth_error_In in E. repeat split; [intros x [<-|[]]; exact E | intros x [] | intros _; discriminate].
    - intros H. injection H as <- <-. repeat split; try apply incl_refl.
      intros [H|H] E; apply app_eq_nil in E; destruct E; contradiction.
  Qed.

  Lemma filter_strict {A} (p q : A -> bool) l x :
    (forall y, q y = true -> p y = true) -> In x l -> p x = true -> q x = false ->
    (length (filter q l) < length (filter p l))%nat.
  Proof.
    intros Hpq. induction l as [|a l IH]; intros Hin Hp Hq; [destruct Hin|].
    cbn [filter]. destruct Hin as [->|Hin].
    - rewrite Hp, Hq. cbn [length]. pose proof (filter_length_le q p l Hpq). lia.
    - specialize (IH Hin Hp Hq). destruct (q a) eqn:Q; [rewrite (Hpq a Q); cbn [length]; lia|].
      destruct (p a); cbn [length]; lia.
  Qed.

  (* each non-terminating pass strictly shrinks the set of rows that can still be limited *)
  Lemma free_shrinks lim new i : In i new -> In i (idxs gens) -> eligible lim i = true ->
    (length (free (lim ++ new)) < length (free lim))%nat.
  Proof.
    intros Hn Hi He. unfold free. apply (filter_strict _ _ _ i); [|exact Hi|exact He|].
    - intros y. unfold eligible. rewrite memn_app, negb_orb. intros H.
      apply andb_true_iff in H. destruct H as [H1 H2]. apply andb_true_iff in H2. destruct H2 as [H2 _].
      rewrite H1, H2. reflexivity.
    - unfold eligible. rewrite memn_app. assert (memn i new = true) by (apply memn_In; exact Hn).
      rewrite H, orb_true_r. cbn [negb]. apply andb_false_r.
  Qed.

  (* termination: the loop never runs out of the fuel  ngen + 1 *)
  Lemma qloop_fuel fuel st calls : (length (free (limited st)) < fuel)%nat -> qloop solve qlim2 gens fuel st calls <> QErr 3.
  Proof.
    revert st calls. induction fuel as [|fuel IH]; intros st calls Hf; [lia|].
    cbn [qloop]. destruct (solve (limited st)) as [qg|]; [|discriminate].
    destruct (viol_max gens (limited st) qg) as [|a mx] eqn:Emx.
    - destruct (viol_min gens (limited st) qg) as [|b mn] eqn:Emn; [discriminate|].
      destruct (select qlim2 gens qg [] (b :: mn)) as [|mx' mn'] eqn:Es; [discriminate|].
      destruct (select_sub _ _ _ _ _ Es) as (I1 & I2 & Hne).
      apply IH. cbn [limited].
      destruct (mx' ++ mn') as [|i t] eqn:En; [exfalso; apply Hne; [right; discriminate | reflexivity]|].
      assert (Hi : In i (mx' ++ mn')) by (rewrite En; left; reflexivity).
      apply in_app_or in Hi. destruct Hi as [Hi|Hi]; [destruct (I1 i Hi)|].
      pose proof (I2 i Hi) as Hv. rewrite <- Emn in Hv. apply viol_min_spec in Hv. destruct Hv as (H1 & H2 & _).
      assert (length (free (limited st ++ i :: t)) < length (free (limited st)))%nat
        by (apply (free_shrinks _ _ i); [left; reflexivity | exact H1 | exact H2]).
      lia.
    - destruct (select qlim2 gens qg (a :: mx) (viol_min gens (limited st) qg)) as [|mx' mn'] eqn:Es; [discriminate|].
      destruct (select_sub _ _ _ _ _ Es) as (I1 & I2 & Hne).
      apply IH. cbn [limited].
      destruct (mx' ++ mn') as [|i t] eqn:En; [exfalso; apply Hne; [left; discriminate | reflexivity]|].
      assert (Hi : In i (mx' ++ mn')) by (rewrite En; left; reflexivity).
      assert (Hel : In i (idxs gens) /\ eligible (limited st) i = true).
      { apply in_app_or in Hi. destruct Hi as [Hi|Hi].
        - pose proof (I1 i Hi) as Hv. rewrite <- Emx in Hv. apply viol_max_spec in Hv. tauto.
        - pose proof (I2 i Hi) as Hv. apply viol_min_spec in Hv. tauto. }
      destruct Hel as [H1 H2].
      assert (length (free (limited st ++ i :: t)) < length (free (limited st)))%nat
        by (apply (free_shrinks _ _ i); [left; reflexivity | exact H1 | exact H2]).
      lia.
  Qed.
  Lemma filter_len {A} (p : A -> bool) l : (length (filter p l) <= length l)%nat.
  Proof. induction l as [|a l IH]; [apply Nat.le_refl|]. cbn [filter]. destruct (p a); cbn [length]; lia. Qed.
  Lemma free_le lim : (length (free lim) <= length gens)%nat.
  Proof. unfold free. etransitivity; [apply filter_len|]. unfold idxs. rewrite seq_length. apply Nat.le_refl. Qed.
  Lemma qrun_terminates : qrun solve qlim2 gens <> QErr 3.
  Proof. unfold qrun. apply qloop_fuel. cbn [limited]. pose proof (free_le []). lia. Qed.

  (* invariant of the state: limited rows are in-service non-reference rows and carry one of their own limits *)
  Definition Inv (st : qstate) : Prop :=
    (forall i, In i (limited st) -> exists q, In (i, q) (fixedq st)) /\
    (forall i q, In (i, q) (fixedq st) -> q = qmax_of gens i \/ q = qmin_of gens i) /\
    (forall i, In i (limited st) -> exists g, nthg gens i = Some g /\ g_on g = true /\ g_ref g = false).

  Lemma eligible_row lim i : eligible lim i = true -> exists g, nthg gens i = Some g /\ g_on g = true /\ g_ref g = false.
  Proof.
    unfold eligible. destruct (nthg gens i) as [g|]; [|discriminate]. intros H.
    apply andb_true_iff in H. destruct H as [H _]. apply andb_true_iff in H. destruct H as [H1 H2].
    apply negb_true_iff in H2. exists g. tauto.
  Qed.

  Lemma inv_step st qg mx' mn' :
    Inv st -> incl mx' (viol_max gens (limited st) qg) -> incl mn' (viol_min gens (limited st) qg) ->
    Inv (mkS (limited st ++ mx' ++ mn')
             (fixedq st ++ map (fun i => (i, qmax_of gens i)) mx' ++ map (fun i => (i, qmin_of gens i)) mn')).
  Proof.
    intros (I1 & I2 & I3) Hx Hn. unfold Inv. cbn [limited fixedq]. repeat split.
    - intros i Hi. apply in_app_or in Hi. destruct Hi as [Hi|Hi].
      + destruct (I1 i Hi) as [q Hq]. exists q. apply in_or_app. left. exact Hq.
      + apply in_app_or in Hi. destruct Hi as [Hi|Hi].
        * exists (qmax_of gens i). apply in_or_app. right. apply in_or_app. left. apply in_map_iff. exists i. tauto.
        * exists (qmin_of gens i). apply in_or_app. right. apply in_or_app. right. apply in_map_iff. exists i. tauto.
    - intros i q Hi. apply in_app_or in Hi. destruct Hi as [Hi|Hi]; [apply I2; exact Hi|].
      apply in_app_or in Hi. destruct Hi as [Hi|Hi]; apply in_map_iff in Hi; destruct Hi as (j & E & _); injection E as <- <-; tauto.
    - intros i Hi. apply in_app_or in Hi. destruct Hi as [Hi|Hi]; [apply I3; exact Hi|].
      apply in_app_or in Hi. destruct Hi as [Hi|Hi].
      + apply Hx, viol_max_spec in Hi. destruct Hi as (_ & He & _). eapply eligible_row. exact He.
      + apply Hn, viol_min_spec in Hi. destruct Hi as (_ & He & _). eapply eligible_row. exact He.
  Qed.

  (* exit: on `break` no in-service non-reference unlimited row violates a limit, and the state invariant holds *)
  Lemma qloop_exit fuel st calls st' qg c : Inv st -> qloop solve qlim2 gens fuel st calls = QDone st' qg c ->
    Inv st' /\ solve (limited st') = Some qg /\
    viol_max gens (limited st') qg = [] /\ viol_min gens (limited st') qg = [].
  Proof.
    revert st calls. induction fuel as [|fuel IH]; intros st calls HI; cbn [qloop]; [discriminate|].
    destruct (solve (limited st)) as [qg0|] eqn:Es; [|discriminate].
    destruct (viol_max gens (limited st) qg0) as [|a mx] eqn:Emx.
    - destruct (viol_min gens (limited st) qg0) as [|b mn] eqn:Emn.
      + intros H. injection H as <- <- <-. repeat split; try assumption; apply HI.
      + destruct (select qlim2 gens qg0 [] (b :: mn)) as [|mx' mn'] eqn:Esel; [discriminate|].
        destruct (select_sub _ _ _ _ _ Esel) as (J1 & J2 & _).
        apply IH. apply (inv_step st qg0); [exact HI | rewrite Emx; exact J1 | rewrite Emn; exact J2].
    - destruct (select qlim2 gens qg0 (a :: mx) (viol_min gens (limited st) qg0)) as [|mx' mn'] eqn:Esel; [discriminate|].
      destruct (select_sub _ _ _ _ _ Esel) as (J1 & J2 & _).
      apply IH. apply (inv_step st qg0); [exact HI | rewrite Emx; exact J1 | exact J2].
  Qed.
  Lemma inv0 : Inv (mkS [] []).
  Proof. unfold Inv. cbn. repeat split; intros; contradiction. Qed.

  Lemma filter_nil_forall {A} (p : A -> bool) l x : filter p l = [] -> In x l -> p x = false.
  Proof.
    induction l as [|a l IH]; intros H Hin; [destruct Hin|]. cbn [filter] in H.
    destruct (p a) eqn:P; [discriminate|]. destruct Hin as [<-|Hin]; [exact P | apply IH; assumption].
  Qed.

  Lemma qrun_within_limits st qg c i g : qrun solve qlim2 gens = QDone st qg c ->
    nthg gens i = Some g -> g_on g = true -> g_ref g = false -> memn i (limited st) = false ->
    g_qmin g <= final_qg st qg i <= g_qmax g.
  Proof.
    unfold qrun. intros H Hg Ho Hr Hl. destruct (qloop_exit _ _ _ _ _ _ inv0 H) as (_ & _ & Hx & Hn).
    assert (Hi : In i (idxs gens)).
    { unfold idxs. apply in_seq. split; [lia|]. cbn. apply nth_error_Some. unfold nthg in Hg. congruence. }
    unfold final_qg. rewrite Hl.
    pose proof (filter_nil_forall _ _ _ Hx Hi) as Px. pose proof (filter_nil_forall _ _ _ Hn Hi) as Pn.
    cbv beta in Px, Pn. rewrite Hg, Ho, Hr, Hl in Px, Pn. cbn [negb andb] in Px, Pn.
    apply qltb_ge in Px, Pn. split; assumption.
  Qed.

  Lemma lookup_fixed_In f i q : lookup_fixed f i = Some q -> In (i, q) f.
  Proof.
    unfold lookup_fixed. destruct (last_opt _) as [[j q']|] eqn:E; [|discriminate]. intros H. injection H as <-.
    apply last_opt_In, filter_In in E. destruct E as [E1 E2]. apply Nat.eqb_eq in E2. cbn in E2. subst. exact E1.
  Qed.
  Lemma qrun_limited_at_limit st qg c i : qrun solve qlim2 gens = QDone st qg c -> In i (limited st) ->
    (exists g, nthg gens i = Some g /\ g_on g = true /\ g_ref g = false) /\
    (final_qg st qg i = qmax_of gens i \/ final_qg st qg i = qmin_of gens i).
  Proof.
    unfold qrun. intros H Hi. destruct (qloop_exit _ _ _ _ _ _ inv0 H) as ((I1 & I2 & I3) & _).
    split; [apply I3; exact Hi|].
    unfold final_qg. rewrite (proj2 (memn_In i (limited st)) Hi).
    destruct (I1 i Hi) as [q Hq].
    destruct (lookup_fixed (fixedq st) i) as [q'|] eqn:E.
    - apply I2. apply lookup_fixed_In. exact E.
    - exfalso. unfold lookup_fixed in E.
      destruct (last_opt_nonempty (filter (fun p => Nat.eqb (fst p) i) (fixedq st))) as [x Hx].
      + intros En. assert (In (i, q) (filter (fun p => Nat.eqb (fst p) i) (fixedq st))).
        { apply filter_In. split; [exact Hq | cbn; apply Nat.eqb_refl]. }
        rewrite En in H0. exact H0.
      + rewrite Hx in E. discriminate.
  Qed.
End LoopProofs.

(* the selection of enforce_q_lims = 2 is total: no IndexError *)
Lemma argmax_from_lt l : forall i best bv, (best < i)%nat -> (argmax_from l i best bv < i + length l)%nat.
Proof.
  induction l as [|x t IH]; intros i best bv H; cbn [argmax_from length]; [lia|].
  destruct (qltb bv x).
  - specialize (IH (S i) i x). lia.
  - specialize (IH (S i) best bv). lia.
Qed.
Lemma argmax_lt l : l <> [] -> (argmax l < length l)%nat.
Proof. destruct l as [|x t]; [congruence|]. intros _. unfold argmax. pose proof (argmax_from_lt t 1 0 x). cbn [length]. lia. Qed.
Lemma select_total qlim2 gens qg mx mn : (mx <> [] \/ mn <> []) -> select qlim2 gens qg mx mn <> SelErr.
Proof.
  intros H. unfold select. destruct qlim2; [|discriminate].
  assert (Hl : length (viols gens qg mx mn) = (length mx + length mn)%nat) by (unfold viols; rewrite app_length, !map_length; reflexivity).
  assert (Hne : viols gens qg mx mn <> []).
  { intros E. rewrite E in Hl. cbn in Hl. destruct H as [H|H]; [destruct mx | destruct mn]; cbn in Hl; try lia; congruence. }
  pose proof (argmax_lt _ Hne) as Hk. rewrite Hl in Hk.
  destruct (Nat.leb (length mx) (argmax (viols gens qg mx mn))) eqn:E.
  - apply Nat.leb_le in E. destruct (nth_error mn _) eqn:N; [discriminate|]. apply nth_error_None in N. lia.
  - apply Nat.leb_gt in E. destruct (nth_error mx _) eqn:N; [discriminate|]. apply nth_error_None in N. lia.
Qed.
Lemma qloop_no_index_error solve qlim2 gens fuel st calls : qloop solve qlim2 gens fuel st calls <> QErr 1.
Proof.
  revert st calls. induction fuel as [|fuel IH]; intros st calls; cbn [qloop]; [discriminate|].
  destruct (solve (limited st)) as [qg|]; [|discriminate].
  destruct (viol_max gens (limited st) qg) as [|a mx] eqn:Emx.
  - destruct (viol_min gens (limited st) qg) as [|b mn] eqn:Emn; [discriminate|].
    destruct (select qlim2 gens qg [] (b :: mn)) eqn:Es; [|apply IH].
    exfalso. revert Es. apply select_total. right. discriminate.
  - destruct (select qlim2 gens qg (a :: mx) (viol_min gens (limited st) qg)) eqn:Es; [|apply IH].
    exfalso. revert Es. apply select_total. left. discriminate.
Qed.
(* the rule before the repair: a single lower-limit violation made the selection fail *)
Definition g2 : list gen := [mkGen 0 0 0 0 0 1 true true; mkGen 1 1 1 (-1) 1 0 true false].
Lemma select_old_index_error : select_old true g2 [0; -2] [] [1%nat] = SelErr /\ select true g2 [0; -2] [] [1%nat] = SelOk [] [1%nat].
Proof. vm_compute. split; reflexivity. Qed.
Lemma qlim2_same_input_ok : exists st qg c, qrun (fun l => match l with [] => Some [0; -2] | _ => Some [-1; 0] end) true g2 = QDone st qg c
                                       /\ limited st = [1%nat] /\ final_qg st qg 1 = -1.
Proof. eexists _, _, _. vm_compute. repeat split. Qed.

(* ------------------------------------------------------------------ response laws *)
Lemma load_law_p_holds n l v : vdl n = true -> l_on l = true -> res_load_p n l v == load_law_p l v.
Proof. intros V O. unfold res_load_p, load_law_p, pct. rewrite V, O. cbn [b2q]. qnorm. field. Qed.
Lemma load_law_q_holds n l v : vdl n = true -> l_on l = true -> res_load_q n l v == load_law_q l v.
Proof. intros V O. unfold res_load_q, load_law_q, pct. rewrite V, O. cbn [b2q]. qnorm. field. Qed.
Lemma load_const_when_vdl_off n l v : vdl n = false -> l_on l = true ->
  res_load_p n l v == l_p l * l_sc l /\ res_load_q n l v == l_q l * l_sc l.
Proof. intros V O. unfold res_load_p, res_load_q. rewrite V, O. cbn [b2q]. qnorm. split; ring. Qed.
Lemma load_off_zero n l v : l_on l = false -> res_load_p n l v == 0 /\ res_load_q n l v == 0.
Proof. intros O. unfold res_load_p, res_load_q. rewrite O. cbn [b2q]. destruct (vdl n); qnorm; split; ring. Qed.
Lemma shunt_law_holds s v : s_on s = true -> ~ s_vn s == 0 ->
  res_sh_p s v == shunt_law_p s v /\ res_sh_q s v == shunt_law_q s v.
Proof.
  intros O Hv. unfold res_sh_p, res_sh_q, shunt_law_p, shunt_law_q, sh_ratio. rewrite O. cbn [b2q]. qnorm.
  split; field; exact Hv.
Qed.
Lemma pq_setpoint e : e_on e = true -> res_pq_p e == e_p e * e_sc e /\ res_pq_q e == e_q e * e_sc e.
Proof. intros O. unfold res_pq_p, res_pq_q. rewrite O. cbn [b2q]. qnorm. split; ring. Qed.

(* ------------------------------------------------------------------ solver bypass *)
Lemma run_q_within_limits srcs nb solve qlim2 gens st qg c i g :
  G04b srcs nb = true -> run_q srcs nb solve qlim2 gens = QDone st qg c ->
  nthg gens i = Some g -> g_on g = true -> g_ref g = false -> memn i (limited st) = false ->
  g_qmin g <= final_qg st qg i <= g_qmax g.
Proof. unfold run_q. intros G. rewrite G. apply qrun_within_limits. Qed.
(* two reference buses (ext_grid, slack gen) and a plain gen next to the slack gen: its Q is not limited *)
Definition byp_srcs : list vsrc := [mkV KEg 0 1 0; mkV KSlackGen 1 1 0; mkV KGen 1 1 0].
Definition byp_gens : list gen := [mkGen 0 0 0 0 0 0 true true; mkGen 1 1 0 (-1) 1 0 true true; mkGen 1 1 1 (-1) 1 0 true false].
Lemma run_q_bypass_refuted :
  G04b byp_srcs 2 = false /\
  exists st qg c, run_q byp_srcs 2 (fun _ => Some [0; 3; 3]) false byp_gens = QDone st qg c /\
                  limited st = [] /\ ~ final_qg st qg 2 <= g_qmax (mkGen 1 1 1 (-1) 1 0 true false).
Proof.
  split; [reflexivity|]. eexists _, _, _. split; [vm_compute; reflexivity|]. split; [reflexivity|].
  vm_compute. intros H. apply H. reflexivity.
Qed.

(* the old PYPOWER proxy: a gen with max_q_mvar = 0 was exempt although it violates its limit *)
Definition gz : list gen := [mkGen 0 0 0 0 0 1 true true; mkGen 1 1 (1#2) (-13#8) 0 0 true false].
Lemma pypower_old_zero_limit_refuted :
  viol_max_old_pypower gz [] [0; 7#4] = [] /\ viol_max gz [] [0; 7#4] = [1%nat].
Proof. vm_compute. split; reflexivity. Qed.

(* old rule: with a limited (switched-off) gen in row 1 the slack gen of bus 2 (row 2) was addressed as row 1 *)
Definition grow : list gen := [mkGen 0 0 0 0 0 0 true true; mkGen 1 1 (3#16) (-1) 1 0 false false; mkGen 2 2 1 (-1) 1 0 true true].
Lemma pfsoln_old_row_index_refuted : gens_at_bus_old grow 2 = [1%nat] /\ gens_at_bus_rows grow 2 = [2%nat].
Proof. vm_compute. split; reflexivity. Qed.
(* when every row is on (the Newton-Raphson path) positions and rows coincide *)
Lemma positions_are_rows_when_all_on : gens_at_bus_old (map (fun g => mkGen (g_pbus g) (g_bus g) (g_pg g) (g_qmin g) (g_qmax g) (g_w g) true (g_ref g)) grow) 2
                                      = gens_at_bus_rows (map (fun g => mkGen (g_pbus g) (g_bus g) (g_pg g) (g_qmin g) (g_qmax g) (g_w g) true (g_ref g)) grow) 2.
Proof. vm_compute. reflexivity. Qed.
