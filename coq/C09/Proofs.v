(* C09 — frame argument for calculations (write-before-read) and the start vector for init="results" *)
From Coq Require Import ZArith QArith List Bool Lia.
From PPV Require Import Base.QN Base.Out C09.Model.
Import ListNotations.

Lemma memn_In x l : memn x l = true <-> In x l.
Proof.
  induction l as [|y l IH]; cbn; [split; [discriminate|tauto]|].
  rewrite orb_true_iff, IH, Nat.eqb_eq. split; intros [H|H]; auto.
Qed.

(* ------------------------------------------------------------------ Part 1 *)
Section Frame.
Variable sem : nat -> list val -> val.
Variable T : env.

Lemma reads_agree (W : list nat) (a : action) (C1 C2 : env) :
  (forall c, memn c W = true -> C1 c = C2 c) ->
  (forall c, In c (filter (fun c => negb (memn c W)) (cache_reads a)) -> C1 c = C2 c) ->
  map (read T C1) (a_reads a) = map (read T C2) (a_reads a).
Proof.
  intros HW HR. unfold cache_reads in HR. induction (a_reads a) as [|l ls IH]; cbn; [reflexivity|].
  f_equal.
  - destruct l as [t|c]; cbn; [reflexivity|].
    destruct (memn c W) eqn:E; [now apply HW|].
    apply HR. cbn. rewrite E. cbn. now left.
  - apply IH. intros c Hc. apply HR. cbn. rewrite filter_app. apply in_or_app. now right.
Qed.

Lemma exec_agree_gen p : forall W C1 C2,
  (forall c, memn c W = true -> C1 c = C2 c) ->
  (forall c, In c (rbw_from W p) -> C1 c = C2 c) ->
  forall c, memn c W = true \/ In c (writes p) -> exec sem T p C1 c = exec sem T p C2 c.
Proof.
  induction p as [|a r IH]; intros W C1 C2 HW HR c Hc; cbn [exec].
  - destruct Hc as [Hc|[]]. now apply HW.
  - cbn [rbw_from] in HR.
    assert (E : map (read T C1) (a_reads a) = map (read T C2) (a_reads a)).
    { apply (reads_agree W); auto. intros x Hx. apply HR. apply in_or_app. now left. }
    rewrite E. set (v := sem (a_fun a) (map (read T C2) (a_reads a))).
    apply (IH (a_target a :: W)).
    + intros x Hx. unfold setc. destruct (Nat.eqb x (a_target a)) eqn:Q; [reflexivity|].
      cbn in Hx. rewrite Q in Hx. cbn in Hx. now apply HW.
    + intros x Hx. unfold setc. destruct (Nat.eqb x (a_target a)) eqn:Q; [reflexivity|].
      apply HR. apply in_or_app. now right.
    + destruct Hc as [Hc|Hc].
      * left. cbn. rewrite Hc. apply orb_true_r.
      * cbn in Hc. destruct Hc as [<-|Hc]; [left; cbn; now rewrite Nat.eqb_refl | now right].
Qed.

(* two cache states that agree on the fields the program reads before writing them give the same value to every
   field the program writes *)
Theorem exec_agree p C1 C2 :
  (forall c, In c (rbw p) -> C1 c = C2 c) ->
  forall c, In c (writes p) -> exec sem T p C1 c = exec sem T p C2 c.
Proof.
  intros H c Hc. apply (exec_agree_gen p [] C1 C2); auto. intros x Hx. discriminate.
Qed.
End Frame.

(* ---- histories *)
Definition ends_clean (p : program) : bool :=
  match rev p with
  | a :: _ => Nat.eqb (a_target a) F_AUX && Nat.eqb (a_fun a) FN_CLEAN && match a_reads a with [] => true | _ => false end
  | [] => false
  end.
Definition hop_ok (o : hop) : Prop := match o with Edit _ => True | Calc p => leaves_clean p = true end.

Lemma exec_app sem T p1 p2 C : exec sem T (p1 ++ p2) C = exec sem T p2 (exec sem T p1 C).
Proof. revert C. induction p1 as [|a r IH]; intros C; cbn; [reflexivity|apply IH]. Qed.

Lemma ends_clean_aux sem T p C : ends_clean p = true -> exec sem T p C F_AUX = sem FN_CLEAN [].
Proof.
  unfold ends_clean. intros H. destruct (rev p) as [|a l] eqn:E; [discriminate|].
  assert (P : p = rev l ++ [a]) by (rewrite <- (rev_involutive p), E; reflexivity).
  apply andb_true_iff in H. destruct H as [H H3]. apply andb_true_iff in H. destruct H as [H1 H2].
  apply Nat.eqb_eq in H1. apply Nat.eqb_eq in H2. destruct (a_reads a) eqn:R; [|discriminate].
  rewrite P, exec_app. cbn [exec]. unfold setc. rewrite H1, Nat.eqb_refl, H2, R. reflexivity.
Qed.

Lemma frame_ok_ends p : frame_ok p = true -> ends_clean p = true.
Proof. unfold frame_ok, ends_clean. intros H. apply andb_true_iff in H. tauto. Qed.
Lemma frame_ok_rbw p c : frame_ok p = true -> In c (rbw p) -> c = F_AUX.
Proof.
  unfold frame_ok. intros H Hc. apply andb_true_iff in H. destruct H as [H _].
  rewrite forallb_forall in H. apply Nat.eqb_eq. now apply H.
Qed.

Lemma lc_from_aux sem T p : forall b C, (b = true -> C F_AUX = sem FN_CLEAN []) -> lc_from b p = true ->
  exec sem T p C F_AUX = sem FN_CLEAN [].
Proof.
  induction p as [|a r IH]; intros b C Hb H; cbn [exec lc_from] in *; [now apply Hb|].
  refine (IH _ _ _ H). clear IH H. unfold setc.
  destruct (Nat.eqb (a_target a) F_AUX) eqn:E.
  - apply Nat.eqb_eq in E. rewrite E, Nat.eqb_refl. intros H. apply andb_true_iff in H. destruct H as [H1 H2].
    apply Nat.eqb_eq in H1. destruct (a_reads a); [|discriminate]. now rewrite H1.
  - intros H. rewrite Nat.eqb_sym in E. rewrite E. now apply Hb.
Qed.
Lemma leaves_clean_aux sem T p C : leaves_clean p = true -> C F_AUX = sem FN_CLEAN [] -> exec sem T p C F_AUX = sem FN_CLEAN [].
Proof. intros L H. apply (lc_from_aux sem T p true C); auto. Qed.

Lemma hrun_aux sem ops : forall T C, Forall hop_ok ops -> C F_AUX = sem FN_CLEAN [] ->
  snd (hrun sem ops T C) F_AUX = sem FN_CLEAN [].
Proof.
  induction ops as [|o r IH]; intros T C F H; [exact H|].
  inversion F as [|? ? Ho Fr]; subst. destruct o as [f|p]; cbn [hrun].
  - now apply IH.
  - apply IH; [exact Fr|]. now apply leaves_clean_aux.
Qed.

(* after ANY history (edits, calculations of any kind that leave the tracking state empty) a calculation whose only
   read-before-write is that tracking state gives, on every field it writes, what it gives from any other cache
   state with an empty tracking state - in particular from a fresh copy of the tables *)
Theorem history_independent sem ops p T C C0 :
  frame_ok p = true -> Forall hop_ok ops ->
  C F_AUX = sem FN_CLEAN [] -> C0 F_AUX = sem FN_CLEAN [] ->
  forall c, In c (writes p) ->
  exec sem (fst (hrun sem ops T C)) p (snd (hrun sem ops T C)) c = exec sem (fst (hrun sem ops T C)) p C0 c.
Proof.
  intros Fp Fo HC HC0 c Hc. apply exec_agree; [|exact Hc].
  intros x Hx. rewrite (frame_ok_rbw p x Fp Hx). rewrite HC0. now apply hrun_aux.
Qed.

(* calculations never write the user-visible state *)
Theorem tables_only_edited sem ops : forall T C,
  (forall o, In o ops -> exists p, o = Calc p) -> fst (hrun sem ops T C) = T.
Proof.
  induction ops as [|o r IH]; intros T C H; [reflexivity|].
  destruct (H o (or_introl eq_refl)) as [p ->]. cbn [hrun]. apply IH. intros o' Ho. apply H. now right.
Qed.

Lemma frame_ok_pf : frame_ok prog_pf = true. Proof. vm_compute. reflexivity. Qed.
Lemma frame_ok_opf : frame_ok prog_opf = true. Proof. vm_compute. reflexivity. Qed.
Lemma ends_clean_all : ends_clean prog_pf = true /\ ends_clean prog_pf_results = true /\ ends_clean prog_opf = true /\ ends_clean prog_opf_old = true.
Proof. vm_compute. auto. Qed.
Lemma rbw_sets :
  rbw prog_pf = [F_AUX] /\ rbw prog_pf_results = [F_RES_BUS; F_AUX; F_RES_BUS; F_RES_OTHER] /\ rbw prog_opf = [F_AUX] /\
  rbw prog_opf_old = [F_AUX; F_LOOKUPS].
Proof. vm_compute. auto. Qed.

(* the power flow from previous results is NOT frame-independent: it reads res_bus first (that is its purpose) *)
Lemma results_reads_previous : frame_ok prog_pf_results = false /\ In F_RES_BUS (rbw prog_pf_results).
Proof. split; vm_compute; auto. Qed.
(* before its repair the OPF read the lookups of the previous calculation first, and the dependence was real *)
Lemma opf_old_reads_lookups : frame_ok prog_opf_old = false /\ In F_LOOKUPS (rbw prog_opf_old).
Proof. split; vm_compute; auto. Qed.
Lemma opf_old_depends_on_history :
  exists sem T C1 C2, C1 F_AUX = C2 F_AUX /\ exec sem T prog_opf_old C1 F_RES_BUS <> exec sem T prog_opf_old C2 F_RES_BUS.
Proof.
  exists (fun f args => fold_left Z.add args (Z.of_nat f)), (fun _ => 0%Z), (fun _ => 0%Z),
         (fun c => if Nat.eqb c F_LOOKUPS then 1%Z else 0%Z).
  split; [reflexivity|]. vm_compute. discriminate.
Qed.

(* a witness that the dependence is real for a program that reads before it writes: two cache states, different results *)
Lemma results_depend_on_history :
  exists sem T C1 C2, C1 F_AUX = C2 F_AUX /\ exec sem T prog_pf_results C1 F_RES_BUS <> exec sem T prog_pf_results C2 F_RES_BUS.
Proof.
  exists (fun f args => fold_left Z.add args (Z.of_nat f)), (fun _ => 0%Z), (fun _ => 0%Z),
         (fun c => if Nat.eqb c F_RES_BUS then 1%Z else 0%Z).
  split; [reflexivity|]. vm_compute. discriminate.
Qed.

(* ---- short circuit, three-phase power flow, state estimation *)
Lemma exec_not_written sem T p : forall C c, ~ In c (writes p) -> exec sem T p C c = C c.
Proof.
  induction p as [|a r IH]; intros C c H; cbn [exec]; [reflexivity|].
  rewrite IH; [|intros Hin; apply H; now right]. unfold setc.
  destruct (Nat.eqb c (a_target a)) eqn:E; [|reflexivity]. apply Nat.eqb_eq in E. exfalso. apply H. left. now symmetry.
Qed.

(* a calculation = front ++ tail: every field the front computes and the tail does not touch is independent of the
   history as soon as the front reads nothing but the tracking state before writing it *)
Theorem history_independent_front sem ops p1 p2 T C C0 :
  forallb (fun c => Nat.eqb c F_AUX) (rbw p1) = true -> Forall hop_ok ops ->
  C F_AUX = sem FN_CLEAN [] -> C0 F_AUX = sem FN_CLEAN [] ->
  forall c, In c (writes p1) -> ~ In c (writes p2) ->
  exec sem (fst (hrun sem ops T C)) (p1 ++ p2) (snd (hrun sem ops T C)) c = exec sem (fst (hrun sem ops T C)) (p1 ++ p2) C0 c.
Proof.
  intros Fp Fo HC HC0 c Hc Hn. rewrite !exec_app, !(exec_not_written _ _ p2 _ c Hn).
  apply exec_agree; [|exact Hc].
  intros x Hx. rewrite forallb_forall in Fp. apply Fp in Hx. apply Nat.eqb_eq in Hx. subst x.
  rewrite HC0. now apply hrun_aux.
Qed.

Definition sc_fields : list nat := [F_OPTIONS; F_RES_SC; F_IS_ELEMENTS; F_SWITCH_INFO; F_LOOKUPS; F_LK_GEN; F_ISOLATED; F_PPC].
Definition est_fields : list nat := [F_OPTIONS; F_IS_ELEMENTS; F_SWITCH_INFO; F_LOOKUPS; F_LK_GEN; F_ISOLATED; F_PPC; F_RES_EST].

Theorem sc_history_independent sem ops T C C0 :
  Forall hop_ok ops -> C F_AUX = sem FN_CLEAN [] -> C0 F_AUX = sem FN_CLEAN [] ->
  forall c, In c sc_fields ->
  exec sem (fst (hrun sem ops T C)) (prog_sc true false) (snd (hrun sem ops T C)) c =
  exec sem (fst (hrun sem ops T C)) (prog_sc true false) C0 c.
Proof.
  intros Fo HC HC0 c Hc. unfold prog_sc. apply history_independent_front; auto.
  - unfold sc_fields in Hc. cbn in Hc. vm_compute. intuition (subst; auto 20).
  - unfold sc_fields in Hc. cbn in Hc. vm_compute. intuition (subst; discriminate).
Qed.

Lemma frame_ok_pf3ph : frame_ok (prog_pf3ph true) = true. Proof. vm_compute. reflexivity. Qed.

Theorem est_history_independent sem ops T C C0 :
  Forall hop_ok ops -> C F_AUX = sem FN_CLEAN [] -> C0 F_AUX = sem FN_CLEAN [] ->
  forall c, In c est_fields ->
  exec sem (fst (hrun sem ops T C)) (prog_est true false) (snd (hrun sem ops T C)) c =
  exec sem (fst (hrun sem ops T C)) (prog_est true false) C0 c.
Proof.
  intros Fo HC HC0 c Hc. rewrite <- (app_nil_r (prog_est true false)). apply history_independent_front; auto.
  unfold est_fields in Hc. cbn in Hc. vm_compute. intuition (subst; auto 20).
Qed.

(* estimate with the bus-bus switch substitution starts with complete power flows: everything it writes is independent *)
Theorem est_bb_history_independent sem ops T C C0 :
  Forall hop_ok ops -> C F_AUX = sem FN_CLEAN [] -> C0 F_AUX = sem FN_CLEAN [] ->
  forall c, In c (writes (prog_est_bb true)) ->
  exec sem (fst (hrun sem ops T C)) (prog_est_bb true) (snd (hrun sem ops T C)) c =
  exec sem (fst (hrun sem ops T C)) (prog_est_bb true) C0 c.
Proof.
  intros Fo HC HC0 c Hc. rewrite <- (app_nil_r (prog_est_bb true)). apply history_independent_front; auto.
Qed.

(* every modelled calculation leaves the tracking state empty, so all of them may occur in the histories *)
Lemma leaves_clean_all :
  forallb leaves_clean [prog_pf; prog_pf_results; prog_opf; prog_opf_old; prog_sc true false; prog_sc false false;
                        prog_sc true true; prog_sc false true; prog_pf3ph true; prog_pf3ph false; prog_est true false;
                        prog_est false false; prog_est true true; prog_est false true; prog_est_bb true; prog_est_bb false] = true.
Proof. vm_compute. reflexivity. Qed.

Lemma rbw_sets_x :
  rbw (prog_sc true false) = [F_AUX; F_RES_OTHER] /\ rbw (prog_sc false false) = [F_AUX; F_LK_GEN; F_RES_OTHER] /\
  rbw (sc_front true false) = [F_AUX] /\
  rbw (prog_sc true true) = [F_OPTIONS; F_AUX; F_RES_BUS; F_RES_OTHER; F_RES_OTHER] /\
  rbw (prog_pf3ph true) = [F_AUX] /\ rbw (prog_pf3ph false) = [F_LK_GEN; F_AUX] /\
  rbw (prog_est true false) = [] /\ rbw (prog_est false false) = [F_LK_GEN] /\
  rbw (prog_est true true) = [F_RES_BUS; F_RES_BUS; F_RES_OTHER] /\
  rbw (prog_est_bb true) = [F_AUX] /\ rbw (prog_est_bb false) = [F_AUX; F_LK_GEN].
Proof. vm_compute. auto 20. Qed.

(* when a kind of generating element has no in-service element its lookup of the previous calculation is read:
   the dependence is real in the model (for the three calculations that do not clear the lookups) *)
Lemma stale_gen_lookup_depends :
  exists sem T C1 C2, C1 F_AUX = C2 F_AUX /\
    exec sem T (prog_sc false false) C1 F_RES_SC <> exec sem T (prog_sc false false) C2 F_RES_SC /\
    exec sem T (prog_pf3ph false) C1 F_RES_3PH <> exec sem T (prog_pf3ph false) C2 F_RES_3PH /\
    exec sem T (prog_est false false) C1 F_RES_EST <> exec sem T (prog_est false false) C2 F_RES_EST.
Proof.
  exists (fun f args => fold_left Z.add args (Z.of_nat f)), (fun _ => 0%Z), (fun _ => 0%Z),
         (fun c => if Nat.eqb c F_LK_GEN then 1%Z else 0%Z).
  split; [reflexivity|]. vm_compute. repeat split; discriminate.
Qed.
(* ... while the entries _pd2ppc always rewrites (bus, branch, aux) never carry history, whatever the kinds *)
Lemma always_rewritten_lookups_irrelevant sem T C1 C2 (g : bool) :
  (forall c, c <> F_LOOKUPS -> C1 c = C2 c) ->
  forall c, In c (writes (prog_pf3ph g)) -> exec sem T (prog_pf3ph g) C1 c = exec sem T (prog_pf3ph g) C2 c.
Proof.
  intros H c Hc. apply exec_agree; [|exact Hc]. intros x Hx. apply H. intros ->.
  destruct g; vm_compute in Hx; intuition discriminate.
Qed.

(* ------------------------------------------------------------------ Part 2 *)
Open Scope Q_scope.

(* after the repair every entry handed to the solver is a number, whatever the previous results contain *)
Theorem start_vector_defined bs : defined (start_vector bs) = true.
Proof.
  unfold defined, start_vector. induction bs as [|b r IH]; cbn; [reflexivity|].
  destruct (b_kept b); cbn; [|exact IH]. rewrite IH.
  unfold start_vm, start_va, flat. destruct (b_set_vm b), (b_set_va b), (b_prev_vm b), (b_prev_va b); reflexivity.
Qed.

(* where the previous result has numbers the start vector is that result (the repair only changes NaN entries) *)
Theorem start_vector_keeps_numbers bs : G09 bs = true -> start_vector bs = start_vector_old bs.
Proof.
  unfold G09, start_vector, start_vector_old. induction bs as [|b r IH]; cbn; [reflexivity|].
  destruct (b_kept b) eqn:K; cbn; [|exact IH].
  intros H. apply andb_true_iff in H. destruct H as [H1 H2]. rewrite (IH H2). f_equal.
  unfold start_vm, start_va, start_vm_old, start_va_old, flat.
  destruct (b_set_vm b), (b_set_va b), (b_prev_vm b), (b_prev_va b); cbn in H1; try discriminate; reflexivity.
Qed.

(* the code before the repair *)
Lemma defined_old_iff_G09 bs : defined (start_vector_old bs) = G09 bs.
Proof.
  unfold defined, start_vector_old, G09. induction bs as [|b r IH]; cbn; [reflexivity|].
  destruct (b_kept b) eqn:K; cbn.
  - rewrite IH. f_equal. unfold start_vm_old, start_va_old.
    destruct (b_set_vm b), (b_set_va b), (b_prev_vm b), (b_prev_va b); reflexivity.
  - exact IH.
Qed.

(* bus 2 was unsupplied in the previous calculation (NaN) and is supplied now *)
Definition feeder : list busrow :=
  [ {| b_prev_vm := Some 1; b_prev_va := Some 0; b_set_vm := Some 1; b_set_va := Some 0; b_kept := true |};
    {| b_prev_vm := Some (100000328 # 100000000); b_prev_va := Some 0; b_set_vm := None; b_set_va := None; b_kept := true |};
    {| b_prev_vm := None; b_prev_va := None; b_set_vm := None; b_set_va := None; b_kept := true |} ].
Theorem old_start_vector_defined_refuted : exists bs, defined (start_vector_old bs) = false.
Proof. exists feeder. reflexivity. Qed.

Theorem old_nan_propagates bs b :
  In b bs -> b_kept b = true -> b_set_vm b = None -> b_prev_vm b = None ->
  exists va, In (None, va) (start_vector_old bs).
Proof.
  intros Hin K S P. exists (start_va_old b). unfold start_vector_old. apply in_map_iff. exists b. split.
  - unfold start_vm_old. now rewrite S, P.
  - apply filter_In. auto.
Qed.

(* auxiliary buses: with the element buses in range every entry is a number, whatever the result tables contain *)
Theorem start_vector_aux_defined bs axs : aux_wf bs axs = true -> defined (start_vector_aux bs axs) = true.
Proof.
  intros W. unfold start_vector_aux, defined. rewrite forallb_app. apply andb_true_iff. split.
  - apply start_vector_defined.
  - unfold aux_wf in W. induction axs as [|a r IH]; cbn in *; [reflexivity|].
    apply andb_true_iff in W. destruct W as [W1 W2]. destruct (a_kept a); cbn; [|now apply IH].
    rewrite (IH W2), andb_true_r. apply Nat.ltb_lt in W1. apply nth_error_Some in W1.
    unfold aux_vm, aux_va. destruct (nth_error bs (a_bus a)) as [b|]; [|contradiction].
    unfold init_vm, init_va, flat.
    destruct (a_set_vm a), (a_prev_vm a), (a_prev_va a), (b_prev_vm b), (b_prev_va b); reflexivity.
Qed.
(* an auxiliary bus with a previous internal voltage starts there; one without starts where its element bus starts *)
Theorem aux_start_spec bs a b : nth_error bs (a_bus a) = Some b -> a_set_vm a = None ->
  (forall v, a_prev_vm a = Some v -> aux_vm bs a = Some v) /\
  (a_prev_vm a = None -> aux_vm bs a = init_vm b) /\
  (forall v, a_prev_va a = Some v -> aux_va bs a = Some v) /\
  (a_prev_va a = None -> aux_va bs a = init_va b).
Proof.
  intros N S. unfold aux_vm, aux_va. rewrite N, S. repeat split; intros; try rewrite H; reflexivity.
Qed.
Example nonvacuous_aux :
  start_vector_aux feeder
    [ {| a_prev_vm := None; a_prev_va := None; a_bus := 2%nat; a_set_vm := None; a_kept := true |};
      {| a_prev_vm := Some (101 # 100); a_prev_va := Some (-3 # 2); a_bus := 1%nat; a_set_vm := Some (51 # 50); a_kept := true |};
      {| a_prev_vm := None; a_prev_va := None; a_bus := 0%nat; a_set_vm := None; a_kept := false |} ]
  = [(Some 1, Some 0); (Some (100000328 # 100000000), Some 0); (Some 1, Some 0); (Some 1, Some 0); (Some (51 # 50), Some (-3 # 2))].
Proof. vm_compute. reflexivity. Qed.

(* buses that are not part of the solution do not matter *)
Theorem dropped_buses_irrelevant bs : start_vector bs = start_vector (filter b_kept bs).
Proof.
  unfold start_vector. f_equal. induction bs as [|b r IH]; cbn; [reflexivity|].
  destruct (b_kept b) eqn:K; cbn; [rewrite K; f_equal; exact IH | exact IH].
Qed.

Example nonvacuous :
  start_vector feeder = [(Some 1, Some 0); (Some (100000328 # 100000000), Some 0); (Some 1, Some 0)] /\
  G09 [ {| b_prev_vm := Some 1; b_prev_va := Some 0; b_set_vm := Some (51 # 50); b_set_va := Some 0; b_kept := true |};
        {| b_prev_vm := None; b_prev_va := None; b_set_vm := None; b_set_va := None; b_kept := false |};
        {| b_prev_vm := Some (99 # 100); b_prev_va := Some (-1 # 2); b_set_vm := None; b_set_va := None; b_kept := true |} ] = true
  /\ frame_ok prog_pf = true /\ In F_RES_BUS (writes prog_pf).
Proof. vm_compute. auto 10. Qed.
