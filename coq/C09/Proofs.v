(* C09 — frame argument for calculations (write-before-read) and the start vector for init="results" *)
From Coq Require Import ZArith QArith List Bool Lia.
From PPV Require Import Base.QN Base.Out C09.Model.
Import ListNotations.

Lemma memn_In x l : memn x l = true <-> In x l.
Proof.
  induction l as [|y l IH]; cbn; [split; [discriminate|tauto]|].
  rewrite orb_true_iff, IH, Nat.eqb_eq. split; intros [H|H]; auto.
Qed.

(* ------------------------------------------------------------------ Part 1 *)
Section Frame.
Variable sem : nat -> list val -> val.
Variable T : env.

Lemma reads_agree (W : list nat) (a : action) (C1 C2 : env) :
  (forall c, memn c W = true -> C1 c = C2 c) ->
  (forall c, In c (filter (fun c => negb (memn c W)) (cache_reads a)) -> C1 c = C2 c) ->
  map (read T C1) (a_reads a) = map (read T C2) (a_reads a).
Proof.
  intros HW HR. unfold cache_reads in HR. induction (a_reads a) as [|l ls IH]; cbn; [reflexivity|].
  f_equal.
  - destruct l as [t|c]; cbn; [reflexivity|].
    destruct (memn c W) eqn:E; [now apply HW|].
    apply HR. cbn. rewrite E. cbn. now left.
  - apply IH. intros c Hc. apply HR. cbn. rewrite filter_app. apply in_or_app. now right.
Qed.

Lemma exec_agree_gen p : forall W C1 C2,
  (forall c, memn c W = true -> C1 c = C2 c) ->
  (forall c, In c (rbw_from W p) -> C1 c = C2 c) ->
  forall c, memn c W = true \/ In c (writes p) -> exec sem T p C1 c = exec sem T p C2 c.
Proof.
  induction p as [|a r IH]; intros W C1 C2 HW HR c Hc; cbn [exec].
  - destruct Hc as [Hc|[]]. now apply HW.
  - cbn [rbw_from] in HR.
    assert (E : map (read T C1) (a_reads a) = map (read T C2) (a_reads a)).
    { apply (reads_agree W); auto. intros x Hx. apply HR. apply in_or_app. now left. }
    rewrite E. set (v := sem (a_fun a) (map (read T C2) (a_reads a))).
    apply (IH (a_target a :: W)).
    + intros x Hx. unfold setc. destruct (Nat.eqb x (a_target a)) eqn:Q; [reflexivity|].
      cbn in Hx. rewrite Q in Hx. cbn in Hx. now apply HW.
    + intros x Hx. unfold setc. destruct (Nat.eqb x (a_target a)) eqn:Q; [reflexivity|].
      apply HR. apply in_or_app. now right.
    + destruct Hc as [Hc|Hc].
      * left. cbn. rewrite Hc. apply orb_true_r.
      * cbn in Hc. destruct Hc as [<-|Hc]; [left; cbn; now rewrite Nat.eqb_refl | now right].
Qed.

(* two cache states that agree on the fields the program reads before writing them give the same value to every
   field the program writes *)
Theorem exec_agree p C1 C2 :
  (forall c, In c (rbw p) -> C1 c = C2 c) ->
  forall c, In c (writes p) -> exec sem T p C1 c = exec sem T p C2 c.
Proof.
  intros H c Hc. apply (exec_agree_gen p [] C1 C2); auto. intros x Hx. discriminate.
Qed.
End Frame.

(* ---- histories *)
Definition ends_clean (p : program) : bool :=
  match rev p with
  | a :: _ => Nat.eqb (a_target a) F_AUX && Nat.eqb (a_fun a) FN_CLEAN && match a_reads a with [] => true | _ => false end
  | [] => false
  end.
Definition hop_ok (o : hop) : Prop := match o with Edit _ => True | Calc p => ends_clean p = true end.

Lemma exec_app sem T p1 p2 C : exec sem T (p1 ++ p2) C = exec sem T p2 (exec sem T p1 C).
Proof. revert C. induction p1 as [|a r IH]; intros C; cbn; [reflexivity|apply IH]. Qed.

Lemma ends_clean_aux sem T p C : ends_clean p = true -> exec sem T p C F_AUX = sem FN_CLEAN [].
Proof.
  unfold ends_clean. intros H. destruct (rev p) as [|a l] eqn:E; [discriminate|].
  assert (P : p = rev l ++ [a]) by (rewrite <- (rev_involutive p), E; reflexivity).
  apply andb_true_iff in H. destruct H as [H H3]. apply andb_true_iff in H. destruct H as [H1 H2].
  apply Nat.eqb_eq in H1. apply Nat.eqb_eq in H2. destruct (a_reads a) eqn:R; [|discriminate].
  rewrite P, exec_app. cbn [exec]. unfold setc. rewrite H1, Nat.eqb_refl, H2, R. reflexivity.
Qed.

Lemma frame_ok_ends p : frame_ok p = true -> ends_clean p = true.
Proof. unfold frame_ok, ends_clean. intros H. apply andb_true_iff in H. tauto. Qed.
Lemma frame_ok_rbw p c : frame_ok p = true -> In c (rbw p) -> c = F_AUX.
Proof.
  unfold frame_ok. intros H Hc. apply andb_true_iff in H. destruct H as [H _].
  rewrite forallb_forall in H. apply Nat.eqb_eq. now apply H.
Qed.

Lemma hrun_aux sem ops : forall T C, Forall hop_ok ops -> C F_AUX = sem FN_CLEAN [] ->
  snd (hrun sem ops T C) F_AUX = sem FN_CLEAN [].
Proof.
  induction ops as [|o r IH]; intros T C F H; [exact H|].
  inversion F as [|? ? Ho Fr]; subst. destruct o as [f|p]; cbn [hrun].
  - now apply IH.
  - apply IH; [exact Fr|]. now apply ends_clean_aux.
Qed.

(* after ANY history (edits, calculations of any kind that leave the tracking state empty) a calculation whose only
   read-before-write is that tracking state gives, on every field it writes, what it gives from any other cache
   state with an empty tracking state - in particular from a fresh copy of the tables *)
Theorem history_independent sem ops p T C C0 :
  frame_ok p = true -> Forall hop_ok ops ->
  C F_AUX = sem FN_CLEAN [] -> C0 F_AUX = sem FN_CLEAN [] ->
  forall c, In c (writes p) ->
  exec sem (fst (hrun sem ops T C)) p (snd (hrun sem ops T C)) c = exec sem (fst (hrun sem ops T C)) p C0 c.
Proof.
  intros Fp Fo HC HC0 c Hc. apply exec_agree; [|exact Hc].
  intros x Hx. rewrite (frame_ok_rbw p x Fp Hx). rewrite HC0. now apply hrun_aux.
Qed.

(* calculations never write the user-visible state *)
Theorem tables_only_edited sem ops : forall T C,
  (forall o, In o ops -> exists p, o = Calc p) -> fst (hrun sem ops T C) = T.
Proof.
  induction ops as [|o r IH]; intros T C H; [reflexivity|].
  destruct (H o (or_introl eq_refl)) as [p ->]. cbn [hrun]. apply IH. intros o' Ho. apply H. now right.
Qed.

Lemma frame_ok_pf : frame_ok prog_pf = true. Proof. vm_compute. reflexivity. Qed.
Lemma frame_ok_opf : frame_ok prog_opf = true. Proof. vm_compute. reflexivity. Qed.
Lemma ends_clean_all : ends_clean prog_pf = true /\ ends_clean prog_pf_results = true /\ ends_clean prog_opf = true /\ ends_clean prog_opf_old = true.
Proof. vm_compute. auto. Qed.
Lemma rbw_sets :
  rbw prog_pf = [F_AUX] /\ rbw prog_pf_results = [F_RES_BUS; F_AUX; F_RES_BUS; F_RES_OTHER] /\ rbw prog_opf = [F_AUX] /\
  rbw prog_opf_old = [F_AUX; F_LOOKUPS].
Proof. vm_compute. auto. Qed.

(* the power flow from previous results is NOT frame-independent: it reads res_bus first (that is its purpose) *)
Lemma results_reads_previous : frame_ok prog_pf_results = false /\ In F_RES_BUS (rbw prog_pf_results).
Proof. split; vm_compute; auto. Qed.
(* before its repair the OPF read the lookups of the previous calculation first, and the dependence was real *)
Lemma opf_old_reads_lookups : frame_ok prog_opf_old = false /\ In F_LOOKUPS (rbw prog_opf_old).
Proof. split; vm_compute; auto. Qed.
Lemma opf_old_depends_on_history :
  exists sem T C1 C2, C1 F_AUX = C2 F_AUX /\ exec sem T prog_opf_old C1 F_RES_BUS <> exec sem T prog_opf_old C2 F_RES_BUS.
Proof.
  exists (fun f args => fold_left Z.add args (Z.of_nat f)), (fun _ => 0%Z), (fun _ => 0%Z),
         (fun c => if Nat.eqb c F_LOOKUPS then 1%Z else 0%Z).
  split; [reflexivity|]. vm_compute. discriminate.
Qed.

(* a witness that the dependence is real for a program that reads before it writes: two cache states, different results *)
Lemma results_depend_on_history :
  exists sem T C1 C2, C1 F_AUX = C2 F_AUX /\ exec sem T prog_pf_results C1 F_RES_BUS <> exec sem T prog_pf_results C2 F_RES_BUS.
Proof.
  exists (fun f args => fold_left Z.add args (Z.of_nat f)), (fun _ => 0%Z), (fun _ => 0%Z),
         (fun c => if Nat.eqb c F_RES_BUS then 1%Z else 0%Z).
  split; [reflexivity|]. vm_compute. discriminate.
Qed.

(* ------------------------------------------------------------------ Part 2 *)
Open Scope Q_scope.

(* after the repair every entry handed to the solver is a number, whatever the previous results contain *)
Theorem start_vector_defined bs : defined (start_vector bs) = true.
Proof.
  unfold defined, start_vector. induction bs as [|b r IH]; cbn; [reflexivity|].
  destruct (b_kept b); cbn; [|exact IH]. rewrite IH.
  unfold start_vm, start_va, flat. destruct (b_set_vm b), (b_set_va b), (b_prev_vm b), (b_prev_va b); reflexivity.
Qed.

(* where the previous result has numbers the start vector is that result (the repair only changes NaN entries) *)
Theorem start_vector_keeps_numbers bs : G09 bs = true -> start_vector bs = start_vector_old bs.
Proof.
  unfold G09, start_vector, start_vector_old. induction bs as [|b r IH]; cbn; [reflexivity|].
  destruct (b_kept b) eqn:K; cbn; [|exact IH].
  intros H. apply andb_true_iff in H. destruct H as [H1 H2]. rewrite (IH H2). f_equal.
  unfold start_vm, start_va, start_vm_old, start_va_old, flat.
  destruct (b_set_vm b), (b_set_va b), (b_prev_vm b), (b_prev_va b); cbn in H1; try discriminate; reflexivity.
Qed.

(* the code before the repair *)
Lemma defined_old_iff_G09 bs : defined (start_vector_old bs) = G09 bs.
Proof.
  unfold defined, start_vector_old, G09. induction bs as [|b r IH]; cbn; [reflexivity|].
  destruct (b_kept b) eqn:K; cbn.
  - rewrite IH. f_equal. unfold start_vm_old, start_va_old.
    destruct (b_set_vm b), (b_set_va b), (b_prev_vm b), (b_prev_va b); reflexivity.
  - exact IH.
Qed.

(* bus 2 was unsupplied in the previous calculation (NaN) and is supplied now *)
Definition feeder : list busrow :=
  [ {| b_prev_vm := Some 1; b_prev_va := Some 0; b_set_vm := Some 1; b_set_va := Some 0; b_kept := true |};
    {| b_prev_vm := Some (100000328 # 100000000); b_prev_va := Some 0; b_set_vm := None; b_set_va := None; b_kept := true |};
    {| b_prev_vm := None; b_prev_va := None; b_set_vm := None; b_set_va := None; b_kept := true |} ].
Theorem old_start_vector_defined_refuted : exists bs, defined (start_vector_old bs) = false.
Proof. exists feeder. reflexivity. Qed.

Theorem old_nan_propagates bs b :
  In b bs -> b_kept b = true -> b_set_vm b = None -> b_prev_vm b = None ->
  exists va, In (None, va) (start_vector_old bs).
Proof.
  intros Hin K S P. exists (start_va_old b). unfold start_vector_old. apply in_map_iff. exists b. split.
  - unfold start_vm_old. now rewrite S, P.
  - apply filter_In. auto.
Qed.

(* buses that are not part of the solution do not matter *)
Theorem dropped_buses_irrelevant bs : start_vector bs = start_vector (filter b_kept bs).
Proof.
  unfold start_vector. f_equal. induction bs as [|b r IH]; cbn; [reflexivity|].
  destruct (b_kept b) eqn:K; cbn; [rewrite K; f_equal; exact IH | exact IH].
Qed.

Example nonvacuous :
  start_vector feeder = [(Some 1, Some 0); (Some (100000328 # 100000000), Some 0); (Some 1, Some 0)] /\
  G09 [ {| b_prev_vm := Some 1; b_prev_va := Some 0; b_set_vm := Some (51 # 50); b_set_va := Some 0; b_kept := true |};
        {| b_prev_vm := None; b_prev_va := None; b_set_vm := None; b_set_va := None; b_kept := false |};
        {| b_prev_vm := Some (99 # 100); b_prev_va := Some (-1 # 2); b_set_vm := None; b_set_va := None; b_kept := true |} ] = true
  /\ frame_ok prog_pf = true /\ In F_RES_BUS (writes prog_pf).
Proof. vm_compute. auto 10. Qed.
