(* C09 — history independence of calculation results.
   Part 1: a calculation as a sequence of field assignments with explicit read sets (the read/write structure of
     run.py runpp (:227-240) -> auxiliary.py _init_runpp_options (:1674-1822, net._options = {} then filled),
     powerflow.py _powerflow (:29-79: converged flags, auxiliary elements, init_results | verify_results, lookups
     cleared (:62-64), _pd2ppc, _ppc stored, solver, _ppci_to_net -> _extract_results, _clean_up),
     optimal_powerflow.py _optimal_powerflow (no clearing of the lookups), results.py init_results/verify_results
     (:130-205)), over a state = (user-visible tables, private caches).  What a field is computed from is an
     arbitrary function (`sem`): solvers and all numerics are covered by quantifying over it.
   Part 2: the start vector for init="results": build_bus.py get_voltage_init_vector (values copied from res_bus; after
     the repair "buses without a previous result start flat" NaN entries become 1.0 / 0.0; the behaviour before the
     repair - NaN copied - is kept as the `_old` variant), written into ppc["bus"][:, VM/VA], overwritten at voltage controlled buses
     by the set points (build_gen.py:120-121, :222), reduced to the buses that take part in the solution
     (_ppc2ppci).  NaN = None.
   Executable definitions only. *)
From Coq Require Import ZArith QArith List Bool String.
From PPV Require Import Base.QN Base.Out.
Import ListNotations.

(* ================================================================== Part 1 *)
Inductive loc :=
| LTab (t : nat)       (* user-visible state: element tables, user_pf_options, the _empty_res_* templates, call arguments *)
| LCache (c : nat).    (* private fields and result tables *)

Record action := { a_target : nat; a_reads : list loc; a_fun : nat }.
Definition program := list action.

Definition val := Z.
Definition env := nat -> val.

Definition read (T C : env) (l : loc) : val := match l with LTab t => T t | LCache c => C c end.
Definition setc (C : env) (c : nat) (v : val) : env := fun x => if Nat.eqb x c then v else C x.

(* one calculation: tables are only read *)
Fixpoint exec (sem : nat -> list val -> val) (T : env) (p : program) (C : env) : env :=
  match p with
  | [] => C
  | a :: r => exec sem T r (setc C (a_target a) (sem (a_fun a) (map (read T C) (a_reads a))))
  end.

Fixpoint memn (x : nat) (l : list nat) : bool := match l with [] => false | y :: r => Nat.eqb x y || memn x r end.
Definition cache_reads (a : action) : list nat :=
  flat_map (fun l => match l with LCache c => [c] | LTab _ => [] end) (a_reads a).
(* cache fields that are read before the program itself has written them *)
Fixpoint rbw_from (written : list nat) (p : program) : list nat :=
  match p with
  | [] => []
  | a :: r => filter (fun c => negb (memn c written)) (cache_reads a) ++ rbw_from (a_target a :: written) r
  end.
Definition rbw (p : program) : list nat := rbw_from [] p.
Definition writes (p : program) : list nat := map a_target p.

(* ---- the cache fields *)
Definition F_OPTIONS := 0%nat.      Definition F_CONVERGED := 1%nat.   Definition F_OPF_CONVERGED := 2%nat.
Definition F_LOOKUPS := 3%nat.      Definition F_IS_ELEMENTS := 4%nat. Definition F_PPC := 5%nat.
Definition F_RES_BUS := 6%nat.      Definition F_RES_OTHER := 7%nat.   Definition F_ISOLATED := 8%nat.
Definition F_AUX := 9%nat.          Definition F_PPC_OPF := 10%nat.    Definition F_RES_COST := 11%nat.
Definition F_SWITCH_INFO := 12%nat. (* _fused_bb_switches, _impedance_bb_switches, _gen_order, _is_elements_final *)
(* ---- the user-visible inputs *)
Definition T_TABLES := 0%nat.  Definition T_USER_OPTIONS := 1%nat.  Definition T_EMPTY_RES := 2%nat.  Definition T_ARGS := 3%nat.
(* function identifiers (what is computed is irrelevant for the frame argument; F_CLEAN is the empty tracking state) *)
Definition FN_CLEAN := 0%nat.

Definition act (t : nat) (rs : list loc) (f : nat) : action := {| a_target := t; a_reads := rs; a_fun := f |}.

(* runpp / rundcpp with init in {auto, flat, dc}, no recycle *)
Definition prog_pf : program :=
  [ act F_OPTIONS [LTab T_ARGS; LTab T_USER_OPTIONS; LTab T_TABLES] 1;             (* _init_runpp_options *)
    act F_CONVERGED [] 2; act F_OPF_CONVERGED [] 2;                                 (* powerflow.py:37-38 *)
    act F_AUX [LCache F_AUX; LTab T_TABLES] 3;                                      (* _add_auxiliary_elements *)
    act F_RES_BUS [LTab T_TABLES; LTab T_EMPTY_RES] 4;                              (* init_results *)
    act F_RES_OTHER [LTab T_TABLES; LTab T_EMPTY_RES] 4;
    act F_LOOKUPS [] 5;                                                             (* :62-64 lookups cleared *)
    act F_IS_ELEMENTS [LTab T_TABLES; LCache F_OPTIONS] 6;                          (* _pd2ppc ... *)
    act F_SWITCH_INFO [LTab T_TABLES; LCache F_OPTIONS] 6;
    act F_LOOKUPS [LTab T_TABLES; LCache F_OPTIONS; LCache F_IS_ELEMENTS; LCache F_LOOKUPS] 7;
    act F_ISOLATED [LTab T_TABLES; LCache F_OPTIONS; LCache F_IS_ELEMENTS; LCache F_LOOKUPS] 8;
    act F_PPC [LTab T_TABLES; LCache F_OPTIONS; LCache F_IS_ELEMENTS; LCache F_LOOKUPS; LCache F_ISOLATED] 9;
    act F_PPC [LCache F_PPC; LCache F_OPTIONS] 10;                                  (* the solver *)
    act F_CONVERGED [LCache F_PPC] 11;
    act F_RES_BUS [LCache F_PPC; LTab T_TABLES; LCache F_LOOKUPS; LCache F_IS_ELEMENTS; LCache F_OPTIONS; LCache F_RES_BUS] 12;
    act F_RES_OTHER [LCache F_PPC; LTab T_TABLES; LCache F_LOOKUPS; LCache F_IS_ELEMENTS; LCache F_OPTIONS; LCache F_RES_OTHER] 12;
    act F_AUX [] FN_CLEAN ].                                                        (* _clean_up *)

(* the same with init="results" (verify_results; before the repair also every rundcpp): the result tables of the previous calculation are
   read before anything is written to them *)
Definition prog_pf_results : program :=
  [ act F_OPTIONS [LTab T_ARGS; LTab T_USER_OPTIONS; LTab T_TABLES; LCache F_RES_BUS] 1;   (* len(net.res_bus) == 0 ? *)
    act F_CONVERGED [] 2; act F_OPF_CONVERGED [] 2;
    act F_AUX [LCache F_AUX; LTab T_TABLES] 3;
    act F_RES_BUS [LCache F_RES_BUS; LTab T_TABLES; LTab T_EMPTY_RES] 13;           (* verify_results *)
    act F_RES_OTHER [LCache F_RES_OTHER; LTab T_TABLES; LTab T_EMPTY_RES] 13;
    act F_LOOKUPS [] 5;
    act F_IS_ELEMENTS [LTab T_TABLES; LCache F_OPTIONS] 6;
    act F_SWITCH_INFO [LTab T_TABLES; LCache F_OPTIONS] 6;
    act F_LOOKUPS [LTab T_TABLES; LCache F_OPTIONS; LCache F_IS_ELEMENTS; LCache F_LOOKUPS] 7;
    act F_ISOLATED [LTab T_TABLES; LCache F_OPTIONS; LCache F_IS_ELEMENTS; LCache F_LOOKUPS] 8;
    (* get_voltage_init_vector: the start vector comes from res_bus (and res_line/res_trafo for auxiliary buses) *)
    act F_PPC [LTab T_TABLES; LCache F_OPTIONS; LCache F_IS_ELEMENTS; LCache F_LOOKUPS; LCache F_ISOLATED;
               LCache F_RES_BUS; LCache F_RES_OTHER] 14;
    act F_PPC [LCache F_PPC; LCache F_OPTIONS] 10;
    act F_CONVERGED [LCache F_PPC] 11;
    act F_RES_BUS [LCache F_PPC; LTab T_TABLES; LCache F_LOOKUPS; LCache F_IS_ELEMENTS; LCache F_OPTIONS; LCache F_RES_BUS] 12;
    act F_RES_OTHER [LCache F_PPC; LTab T_TABLES; LCache F_LOOKUPS; LCache F_IS_ELEMENTS; LCache F_OPTIONS; LCache F_RES_OTHER] 12;
    act F_AUX [] FN_CLEAN ].

(* runopp / rundcopp (after the repair "the optimal power flow clears the pd2ppc lookups of the previous calculation") *)
Definition prog_opf : program :=
  [ act F_OPTIONS [LTab T_ARGS; LTab T_TABLES] 1;
    act F_OPF_CONVERGED [] 2; act F_CONVERGED [] 2;
    act F_AUX [LCache F_AUX; LTab T_TABLES] 3;
    act F_RES_BUS [LTab T_TABLES; LTab T_EMPTY_RES] 4;
    act F_RES_OTHER [LTab T_TABLES; LTab T_EMPTY_RES] 4;
    act F_LOOKUPS [] 5;                                                             (* lookups cleared *)
    act F_IS_ELEMENTS [LTab T_TABLES; LCache F_OPTIONS] 6;
    act F_SWITCH_INFO [LTab T_TABLES; LCache F_OPTIONS] 6;
    act F_LOOKUPS [LTab T_TABLES; LCache F_OPTIONS; LCache F_IS_ELEMENTS; LCache F_LOOKUPS] 7;
    act F_ISOLATED [LTab T_TABLES; LCache F_OPTIONS; LCache F_IS_ELEMENTS; LCache F_LOOKUPS] 8;
    act F_PPC [LTab T_TABLES; LCache F_OPTIONS; LCache F_IS_ELEMENTS; LCache F_LOOKUPS; LCache F_ISOLATED] 9;
    act F_PPC_OPF [LCache F_PPC] 15;
    act F_PPC [LCache F_PPC; LCache F_OPTIONS] 16;
    act F_OPF_CONVERGED [LCache F_PPC] 11;
    act F_RES_BUS [LCache F_PPC; LTab T_TABLES; LCache F_LOOKUPS; LCache F_IS_ELEMENTS; LCache F_OPTIONS; LCache F_RES_BUS] 12;
    act F_RES_OTHER [LCache F_PPC; LTab T_TABLES; LCache F_LOOKUPS; LCache F_IS_ELEMENTS; LCache F_OPTIONS; LCache F_RES_OTHER] 12;
    act F_RES_COST [LCache F_PPC] 17;
    act F_AUX [] FN_CLEAN ].
(* before that repair: the lookups of the previous calculation are not cleared before _pd2ppc *)
Definition prog_opf_old : program :=
  filter (fun a => negb (Nat.eqb (a_target a) F_LOOKUPS && Nat.eqb (a_fun a) 5)) prog_opf.
(* before the repair "a DC power flow re-initialises the result tables unless it starts from previous results" rundcpp
   ran prog_pf_results (verify_results); now it runs prog_pf *)

(* ---- short circuit, three-phase power flow, state estimation.
   None of them clears net._pd2ppc_lookups (powerflow.py:62-64 / optimal_powerflow.py:61-63 do).  The lookups split into
   F_LOOKUPS = the entries _pd2ppc always rewrites ("bus", "aux", "merged_bus", "bus_dc", "aux_dc", "branch", "branch_dc":
   build_bus.py:442-445/:523-524, build_branch.py:128-140) and F_LK_GEN = the entries per kind of generating element
   ("gen", "ext_grid", "<kind>_controllable", ...), which pd2ppc.py:467-475 _build_gen_lookups writes only for a kind that has
   an in-service element - otherwise the entry of the previous calculation stays and is what pd2ppc.py:448 (ref_gens),
   runpp_3ph.py:620 and results_gen.py read.  allkinds = every kind whose lookup is read has an in-service element (the
   entry is rewritten before it is read). *)
Definition F_LK_GEN := 13%nat.
Definition F_RES_SC := 14%nat.       (* res_*_sc *)
Definition F_RES_3PH := 15%nat.      (* res_*_3ph *)
Definition F_RES_EST := 16%nat.      (* res_*_est *)
Definition F_PPC_SEQ := 17%nat.      (* _ppc0, _ppc1, _ppc2 *)
Definition lk_gen_reads (allkinds : bool) : list loc :=
  [LTab T_TABLES; LCache F_IS_ELEMENTS] ++ (if allkinds then [] else [LCache F_LK_GEN]).
Definition pd2ppc_acts (allkinds : bool) (extra : list loc) (fn : nat) : program :=
  [ act F_IS_ELEMENTS [LTab T_TABLES; LCache F_OPTIONS] 6;
    act F_SWITCH_INFO [LTab T_TABLES; LCache F_OPTIONS] 6;
    act F_LOOKUPS [LTab T_TABLES; LCache F_OPTIONS; LCache F_IS_ELEMENTS] 7;
    act F_LK_GEN (lk_gen_reads allkinds) 18;
    act F_ISOLATED [LTab T_TABLES; LCache F_OPTIONS; LCache F_IS_ELEMENTS; LCache F_LOOKUPS] 8;
    act F_PPC ([LTab T_TABLES; LCache F_OPTIONS; LCache F_IS_ELEMENTS; LCache F_LOOKUPS; LCache F_LK_GEN; LCache F_ISOLATED] ++ extra) fn ].
(* calc_sc (shortcircuit/calc_sc.py:143-165, :207-268): options, init_results(net, "sc"), auxiliary elements, _pd2ppc,
   currents, _extract_results (res_*_sc), _clean_up (reads res_gen to drop the rows of auxiliary gens).
   prefault = use_pre_fault_voltage: reads net._options["trafo_model"] of the previous power flow (:130) and starts from
   res_bus (init "results") - a dependence on the previous calculation by design *)
Definition sc_front (allkinds prefault : bool) : program :=
  [ act F_OPTIONS ([LTab T_ARGS; LTab T_TABLES] ++ (if prefault then [LCache F_OPTIONS] else [])) 1;
    act F_RES_SC [LTab T_TABLES; LTab T_EMPTY_RES] 4;
    act F_AUX [LCache F_AUX; LTab T_TABLES] 3 ] ++
  pd2ppc_acts allkinds (if prefault then [LCache F_RES_BUS; LCache F_RES_OTHER] else []) 19 ++
  [ act F_PPC [LCache F_PPC; LCache F_OPTIONS; LCache F_LOOKUPS; LCache F_IS_ELEMENTS; LCache F_SWITCH_INFO; LTab T_TABLES] 20;
    act F_RES_SC [LCache F_PPC; LTab T_TABLES; LCache F_LOOKUPS; LCache F_IS_ELEMENTS; LCache F_OPTIONS; LCache F_RES_SC] 21 ].
(* _clean_up: res_gen keeps its content except the rows of the auxiliary gens (the power flow results are not the
   short circuit's to compute: they pass through) *)
Definition sc_tail : program :=
  [ act F_RES_OTHER [LCache F_RES_OTHER; LCache F_AUX] 22;
    act F_AUX [] FN_CLEAN ].
Definition prog_sc (allkinds prefault : bool) : program := sc_front allkinds prefault ++ sc_tail.
(* runpp_3ph (pf/runpp_3ph.py:138-653): options, init_results(net, "pf_3ph"), three _pd2ppc_recycle, the solver, results
   (reads the ext_grid lookup :620), converged, _clean_up; no auxiliary elements are added *)
Definition prog_pf3ph (allkinds : bool) : program :=
  [ act F_OPTIONS [LTab T_ARGS; LTab T_USER_OPTIONS; LTab T_TABLES] 1;
    act F_RES_3PH [LTab T_TABLES; LTab T_EMPTY_RES] 4 ] ++
  pd2ppc_acts allkinds [] 23 ++
  [ act F_PPC_SEQ [LCache F_PPC; LCache F_OPTIONS; LCache F_LOOKUPS; LCache F_LK_GEN; LCache F_IS_ELEMENTS; LTab T_TABLES] 24;
    act F_RES_3PH [LCache F_PPC_SEQ; LTab T_TABLES; LCache F_LOOKUPS; LCache F_LK_GEN; LCache F_IS_ELEMENTS; LCache F_OPTIONS; LCache F_RES_3PH] 25;
    act F_CONVERGED [LCache F_PPC_SEQ] 11;
    act F_AUX [LCache F_AUX] 29;                                                    (* _clean_up looks at the tracking state *)
    act F_AUX [] FN_CLEAN ].
(* estimate with all buses fused (estimation/state_estimation.py:245-257, ppc_conversion.py:70-85 _init_ppc): options,
   _pd2ppc, measurements, solver, eppci2pp (res_*_est); results = init="results": the start vector is read from res_bus
   (and res_xward / res_trafo3w for auxiliary buses) *)
Definition prog_est (allkinds results : bool) : program :=
  [ act F_OPTIONS ([LTab T_ARGS; LTab T_TABLES] ++ (if results then [LCache F_RES_BUS] else [])) 1 ] ++
  pd2ppc_acts allkinds (if results then [LCache F_RES_BUS; LCache F_RES_OTHER] else []) 26 ++
  [ act F_PPC [LCache F_PPC; LCache F_OPTIONS; LCache F_LOOKUPS; LTab T_TABLES] 27;
    act F_RES_EST [LCache F_PPC; LTab T_TABLES; LCache F_LOOKUPS; LCache F_IS_ELEMENTS; LTab T_EMPTY_RES] 28 ].
(* estimate with fuse_buses_with_bb_switch != 'all': set_bb_switch_impedance runs complete power flows first (util.py:66) *)
Definition prog_est_bb (allkinds : bool) : program := prog_pf ++ prog_est allkinds false.

(* a history: edits of the user-visible state and calculations *)
Inductive hop :=
| Edit (f : env -> env)          (* any change of tables / stored user options / arguments *)
| Calc (p : program).
Fixpoint hrun (sem : nat -> list val -> val) (ops : list hop) (T C : env) : env * env :=
  match ops with
  | [] => (T, C)
  | Edit f :: r => hrun sem r (f T) C
  | Calc p :: r => hrun sem r T (exec sem T p C)
  end.

(* the programs whose only read-before-write is the (empty) auxiliary tracking state and which leave it empty *)
Definition frame_ok (p : program) : bool :=
  forallb (fun c => Nat.eqb c F_AUX) (rbw p) &&
  match rev p with a :: _ => Nat.eqb (a_target a) F_AUX && Nat.eqb (a_fun a) FN_CLEAN && match a_reads a with [] => true | _ => false end
                 | [] => false end.

(* the last write to the tracking state, if any, empties it *)
Fixpoint lc_from (b : bool) (p : program) : bool :=
  match p with
  | [] => b
  | a :: r => lc_from (if Nat.eqb (a_target a) F_AUX
                       then Nat.eqb (a_fun a) FN_CLEAN && match a_reads a with [] => true | _ => false end
                       else b) r
  end.
Definition leaves_clean (p : program) : bool := lc_from true p.
(* generalisation: the only fields read before written lie in R *)
Definition frame_on (R : list nat) (p : program) : bool := forallb (fun c => memn c R) (rbw p).

(* ================================================================== Part 2 *)
Open Scope Q_scope.
Record busrow := {
  b_prev_vm : option Q;      (* res_bus.vm_pu of the previous calculation, None = NaN *)
  b_prev_va : option Q;
  b_set_vm : option Q;       (* vm set point of an in-service ext_grid / gen at the bus *)
  b_set_va : option Q;       (* va_degree of an in-service ext_grid at the bus *)
  b_kept : bool              (* the bus takes part in the solution (in service, connected to a reference) *)
}.
(* ppc["bus"][:, VM], [:, VA] for init="results", then the rows of the ppci *)
(* vm[np.isnan(vm)] = 1. ; va[np.isnan(va)] = 0. *)
Definition flat (dflt : Q) (o : option Q) : option Q := match o with Some v => Some v | None => Some dflt end.
Definition start_vm (b : busrow) : option Q := match b_set_vm b with Some v => Some v | None => flat 1 (b_prev_vm b) end.
Definition start_va (b : busrow) : option Q := match b_set_va b with Some v => Some v | None => flat 0 (b_prev_va b) end.
Definition start_vector (bs : list busrow) : list (option Q * option Q) :=
  map (fun b => (start_vm b, start_va b)) (filter b_kept bs).
(* before the repair: the NaN is copied *)
Definition start_vm_old (b : busrow) : option Q := match b_set_vm b with Some v => Some v | None => b_prev_vm b end.
Definition start_va_old (b : busrow) : option Q := match b_set_va b with Some v => Some v | None => b_prev_va b end.
Definition start_vector_old (bs : list busrow) : list (option Q * option Q) :=
  map (fun b => (start_vm_old b, start_va_old b)) (filter b_kept bs).
Definition is_num (o : option Q) : bool := match o with Some _ => true | None => false end.
Definition defined (v : list (option Q * option Q)) : bool := forallb (fun p => is_num (fst p) && is_num (snd p)) v.
(* guard of the old code: the previous result has a number at every bus that takes part in the solution now and is not set-point
   controlled *)
Definition G09 (bs : list busrow) : bool :=
  forallb (fun b => negb (b_kept b) || ((is_num (b_set_vm b) || is_num (b_prev_vm b)) && (is_num (b_set_va b) || is_num (b_prev_va b)))) bs.

(* ---- auxiliary buses (xward, trafo3w star point): build_bus.py:557-568 _fill_auxiliary_buses.  Their start value is the
   internal voltage of the element in its own result table; without one (NaN) it is the value just written for the bus of
   the element (the previous result or flat - the set points of generators are written later, build_gen.py); the auxiliary
   bus of an xward is voltage controlled (set point vm_pu of the xward, build_gen.py:239-258). *)
Record auxrow := {
  a_prev_vm : option Q;       (* res_<element>.vm_internal_pu *)
  a_prev_va : option Q;       (* res_<element>.va_internal_degree *)
  a_bus : nat;                (* position of the element's bus in the bus table *)
  a_set_vm : option Q;        (* xward.vm_pu for an in-service xward *)
  a_kept : bool
}.
Definition init_vm (b : busrow) : option Q := flat 1 (b_prev_vm b).
Definition init_va (b : busrow) : option Q := flat 0 (b_prev_va b).
Definition aux_vm (bs : list busrow) (a : auxrow) : option Q :=
  match a_set_vm a with
  | Some v => Some v
  | None => match a_prev_vm a with
            | Some v => Some v
            | None => match nth_error bs (a_bus a) with Some b => init_vm b | None => None end
            end
  end.
Definition aux_va (bs : list busrow) (a : auxrow) : option Q :=
  match a_prev_va a with
  | Some v => Some v
  | None => match nth_error bs (a_bus a) with Some b => init_va b | None => None end
  end.
Definition start_vector_aux (bs : list busrow) (axs : list auxrow) : list (option Q * option Q) :=
  start_vector bs ++ map (fun a => (aux_vm bs a, aux_va bs a)) (filter a_kept axs).
Definition aux_wf (bs : list busrow) (axs : list auxrow) : bool :=
  forallb (fun a => Nat.ltb (a_bus a) (List.length bs)) axs.

(* ---- output *)
Definition prog_of_nat (k : nat) : program :=
  match k with
  | O => prog_pf | 1%nat => prog_pf_results | 2%nat => prog_opf | 3%nat => prog_opf_old
  | 4%nat => prog_sc true false | 5%nat => prog_sc false false | 6%nat => prog_sc true true | 7%nat => prog_sc false true
  | 8%nat => prog_pf3ph true | 9%nat => prog_pf3ph false
  | 10%nat => prog_est true false | 11%nat => prog_est false false | 12%nat => prog_est true true | 13%nat => prog_est false true
  | 14%nat => prog_est_bb true | _ => prog_est_bb false
  end.
Definition run_rbw (k : nat) : out := olist onat (rbw (prog_of_nat k)).
Definition run_writes (k : nat) : out := olist onat (writes (prog_of_nat k)).
Definition run_frame_ok (k : nat) : out :=
  OB (frame_ok (match k with O => prog_pf | 1%nat => prog_pf_results | _ => prog_opf end)).
Definition run_start (bs : list busrow) : out :=
  OL [ olist (fun p => OL [ooq (fst p); ooq (snd p)]) (start_vector bs); OB (defined (start_vector bs)); OB (G09 bs) ].
Definition run_start_old (bs : list busrow) : out :=
  OL [ olist (fun p => OL [ooq (fst p); ooq (snd p)]) (start_vector_old bs); OB (defined (start_vector_old bs)); OB (G09 bs) ].
Definition run_start_aux (bs : list busrow) (axs : list auxrow) : out :=
  OL [ olist (fun p => OL [ooq (fst p); ooq (snd p)]) (start_vector_aux bs axs); OB (defined (start_vector_aux bs axs)); OB (aux_wf bs axs) ].
