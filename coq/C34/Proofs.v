(* C34 — lemmas about the finite-map model of _passed_runpp_parameters / _init_runpp_options *)
From Coq Require Import ZArith QArith List Bool String Lia.
From PPV Require Import Base.QN Base.Out C34.Model.
Import ListNotations.
Open Scope string_scope.

(* ------------------------------------------------------------------ strings / membership *)
Lemma seqb_refl k : String.eqb k k = true. Proof. apply String.eqb_refl. Qed.
Lemma seqb_sym a b : String.eqb a b = String.eqb b a.
Proof. apply String.eqb_sym. Qed.

Lemma mem_In k l : mem k l = true <-> In k l.
Proof.
  induction l as [|a l IH]; cbn; [split; [discriminate | tauto]|].
  rewrite orb_true_iff, IH, String.eqb_eq. split; intros [H|H]; auto.
Qed.
Lemma mem_false_In k l : mem k l = false <-> ~ In k l.
Proof. rewrite <- mem_In. destruct (mem k l); split; congruence. Qed.

(* ------------------------------------------------------------------ dict laws *)
Lemma lookup_none_keys k d : lookup k d = None <-> mem k (keys d) = false.
Proof.
  induction d as [|[k' v] d IH]; cbn; [tauto|].
  destruct (String.eqb k k'); cbn; [split; discriminate | exact IH].
Qed.
Lemma lookup_some_keys k d v : lookup k d = Some v -> mem k (keys d) = true.
Proof.
  intros H. destruct (mem k (keys d)) eqn:E; [reflexivity|].
  apply lookup_none_keys in E. congruence.
Qed.
Lemma mem_keys_lookup k d : mem k (keys d) = true -> exists v, lookup k d = Some v.
Proof.
  intros H. destruct (lookup k d) eqn:E; [eauto|]. apply lookup_none_keys in E. congruence.
Qed.

Lemma lookup_set_same k v d : lookup k (set k v d) = Some v.
Proof.
  induction d as [|[k' v'] d IH]; cbn; [now rewrite seqb_refl|].
  destruct (String.eqb k k') eqn:E; cbn; rewrite E; auto.
Qed.
Lemma lookup_set_other k k' v d : String.eqb k k' = false -> lookup k (set k' v d) = lookup k d.
Proof.
  intros N. induction d as [|[k2 v2] d IH]; cbn; [now rewrite N|].
  destruct (String.eqb k' k2) eqn:E; cbn.
  - apply String.eqb_eq in E. subst k2. now rewrite N.
  - destruct (String.eqb k k2); auto.
Qed.
Lemma mem_keys_set k k' v d : mem k (keys (set k' v d)) = String.eqb k k' || mem k (keys d).
Proof.
  unfold keys. induction d as [|[k2 v2] d IH]; cbn; [now rewrite orb_false_r|].
  destruct (String.eqb k' k2) eqn:E; cbn.
  - apply String.eqb_eq in E. subst k2. destruct (String.eqb k k'); reflexivity.
  - rewrite IH. destruct (String.eqb k k2), (String.eqb k k'); reflexivity.
Qed.

Lemma lookup_update_notin k e : forall d, mem k (keys e) = false -> lookup k (update d e) = lookup k d.
Proof.
  induction e as [|[k' v] e IH]; intros d H; cbn in *; [reflexivity|].
  apply orb_false_iff in H. destruct H as [H1 H2].
  rewrite IH by exact H2. now apply lookup_set_other.
Qed.
Lemma lookup_update_in k v e : forall d,
  NoDup (keys e) -> lookup k e = Some v -> lookup k (update d e) = Some v.
Proof.
  induction e as [|[k' v'] e IH]; intros d ND H; cbn in *; [discriminate|].
  inversion ND as [|? ? Hn ND']; subst.
  destruct (String.eqb k k') eqn:E.
  - apply String.eqb_eq in E. subst k'. inversion H; subst.
    rewrite lookup_update_notin by (now apply mem_false_In). apply lookup_set_same.
  - now apply IH.
Qed.
Lemma mem_keys_update k e : forall d, mem k (keys (update d e)) = mem k (keys d) || mem k (keys e).
Proof.
  induction e as [|[k' v] e IH]; intros d; cbn; [now rewrite orb_false_r|].
  rewrite IH, mem_keys_set. clear IH. unfold keys. cbn.
  destruct (String.eqb k k'), (mem k (map fst d)), (mem k (map fst e)); reflexivity.
Qed.

(* filters whose predicate looks at the key only *)
Lemma lookup_filter_key (q : key -> bool) k d :
  lookup k (filter (fun kv => q (fst kv)) d) = if q k then lookup k d else None.
Proof.
  induction d as [|[k' v] d IH]; cbn; [now destruct (q k)|].
  destruct (q k') eqn:Q; cbn.
  - destruct (String.eqb k k') eqn:E; [apply String.eqb_eq in E; subst; now rewrite Q | exact IH].
  - destruct (String.eqb k k') eqn:E; [apply String.eqb_eq in E; subst; rewrite IH; now rewrite Q | exact IH].
Qed.
Lemma mem_keys_filter_key (q : key -> bool) k d :
  mem k (keys (filter (fun kv => q (fst kv)) d)) = q k && mem k (keys d).
Proof.
  unfold keys. induction d as [|[k' v] d IH]; cbn; [now rewrite andb_false_r|].
  destruct (q k') eqn:Q; cbn; rewrite IH.
  - destruct (String.eqb k k') eqn:E; [apply String.eqb_eq in E; subst; now rewrite Q | reflexivity].
  - destruct (String.eqb k k') eqn:E; [apply String.eqb_eq in E; subst; now rewrite Q | reflexivity].
Qed.
Lemma NoDup_keys_filter (p : key * val -> bool) d : NoDup (keys d) -> NoDup (keys (filter p d)).
Proof.
  induction d as [|[k v] d IH]; cbn; intros ND; [constructor|].
  inversion ND as [|? ? Hn ND']; subst. destruct (p (k, v)); cbn; auto.
  constructor; auto. intros Hin. apply Hn.
  unfold keys in *. apply in_map_iff in Hin. destruct Hin as [[k2 v2] [E Hin]].
  apply filter_In in Hin. apply in_map_iff. exists (k2, v2). tauto.
Qed.
Lemma filter_filter_same {A} (p : A -> bool) l : filter p (filter p l) = filter p l.
Proof.
  induction l as [|a l IH]; cbn; [reflexivity|]. destruct (p a) eqn:E; cbn; [rewrite E, IH|]; auto.
Qed.
Lemma lookup_In_NoDup k v d : NoDup (keys d) -> In (k, v) d -> lookup k d = Some v.
Proof.
  induction d as [|[k' v'] d IH]; cbn; intros ND H; [tauto|].
  inversion ND as [|? ? Hn ND']; subst. destruct H as [H|H].
  - inversion H; subst. now rewrite seqb_refl.
  - destruct (String.eqb k k') eqn:E; [|auto].
    apply String.eqb_eq in E. subst k'. exfalso. apply Hn. unfold keys. apply in_map_iff. now exists (k, v).
Qed.

(* ------------------------------------------------------------------ python == *)
Lemma val_eqb_refl v : is_scalar v = true -> val_eqb v v = true.
Proof.
  destruct v as [b|z|q|s| | | | | |]; cbn; intros H; try discriminate H; try reflexivity;
    try (apply Qeq_bool_iff; reflexivity).
  apply String.eqb_refl.
Qed.
(* for scalars  bool(v != d)  is the negated ==, and never raises *)
Lemma ne_truth_scalar v d : is_scalar v = true -> ne_truth v d = Some (negb (val_eqb v d)).
Proof. destruct v; cbn; intros H; try discriminate H; reflexivity. Qed.
Lemma ne_true_raises_excl v d : ne_true v d = true -> ne_raises v d = false.
Proof. unfold ne_true, ne_raises. destruct (ne_truth v d); [reflexivity | discriminate]. Qed.

Lemma existsb_map_c34 {A B} (g : A -> B) (p : B -> bool) l : existsb p (map g l) = existsb (fun a => p (g a)) l.
Proof. induction l as [|a l IH]; cbn; [reflexivity | now rewrite IH]. Qed.
Lemma existsb_ext_in_c34 {A} (p q : A -> bool) l : (forall a, In a l -> p a = q a) -> existsb p l = existsb q l.
Proof.
  induction l as [|a l IH]; cbn; intros H; [reflexivity|].
  rewrite (H a) by now left. rewrite IH; [reflexivity|]. intros b Hb. apply H. now right.
Qed.

(* ------------------------------------------------------------------ which keys count as passed *)
Fixpoint nodupb (l : list key) : bool :=
  match l with [] => true | a :: l' => negb (mem a l') && nodupb l' end.
Lemma nodupb_NoDup l : nodupb l = true -> NoDup l.
Proof.
  induction l as [|a l IH]; cbn; intros H; [constructor|].
  apply andb_true_iff in H. destruct H as [H1 H2]. constructor; auto.
  apply mem_false_In. now destruct (mem a l).
Qed.
Lemma named_defaults_nodup : NoDup (keys named_defaults).
Proof. apply nodupb_NoDup. vm_compute. reflexivity. Qed.

(* generic form over a sub-list nd of the signature *)
Lemma passed_named_char_gen ex k : forall nd,
  NoDup (keys nd) -> (forall k0 d0, In (k0, d0) nd -> lookup k0 named_defaults = Some d0) ->
  mem k (keys (filter (fun kv => negb (mem (fst kv) (keys named_defaults))
                                 || ne_true (snd kv) (getd (fst kv) named_defaults VNone))
                      (map (fun kd => (fst kd, getd (fst kd) ex (snd kd))) nd)))
  = match lookup k nd with Some d => ne_true (getd k ex d) d | None => false end.
Proof.
  induction nd as [|[k1 d1] nd IH]; intros ND C; [reflexivity|].
  cbn [map filter fst snd lookup].
  inversion ND as [|? ? Hn ND']; subst.
  assert (L1 : lookup k1 named_defaults = Some d1) by (apply C; now left).
  assert (M1 : mem k1 (keys named_defaults) = true) by (eapply lookup_some_keys; eauto).
  unfold getd at 2. rewrite L1, M1. cbn [negb orb].
  specialize (IH ND' (fun k0 d0 H => C k0 d0 (or_intror H))).
  destruct (String.eqb k k1) eqn:E.
  - apply String.eqb_eq in E. subst k1.
    destruct (ne_true (getd k ex d1) d1) eqn:V.
    + unfold keys. cbn [map fst mem]. now rewrite seqb_refl.
    + rewrite IH. apply mem_false_In in Hn. apply lookup_none_keys in Hn. now rewrite Hn.
  - destruct (ne_true (getd k1 ex d1) d1); [| exact IH].
    unfold keys in *. cbn [map fst mem]. rewrite E. exact IH.
Qed.

Lemma passed_named_char ex k :
  mem k (keys (passed_named (call_named ex)))
  = match lookup k named_defaults with Some d => ne_true (getd k ex d) d | None => false end.
Proof.
  unfold passed_named, call_named. apply passed_named_char_gen.
  - apply named_defaults_nodup.
  - intros k0 d0 H. apply lookup_In_NoDup; [apply named_defaults_nodup | exact H].
Qed.

Lemma mem_keys_call_kwargs ex k :
  mem k (keys (call_kwargs ex)) = negb (mem k (keys named_defaults)) && mem k (keys ex).
Proof. unfold call_kwargs. apply (mem_keys_filter_key (fun k => negb (mem k (keys named_defaults)))). Qed.

Definition passed_set (ex : dict) : dict := update (passed_named (call_named ex)) (call_kwargs ex).

(* "passed" <=> a named argument whose value differs from the default, or any **kwargs key *)
Lemma passed_set_char ex k :
  mem k (keys (passed_set ex))
  = match lookup k named_defaults with
    | Some d => ne_true (getd k ex d) d
    | None => mem k (keys ex)
    end.
Proof.
  unfold passed_set. rewrite mem_keys_update, passed_named_char, mem_keys_call_kwargs.
  destruct (lookup k named_defaults) eqn:L.
  - rewrite (lookup_some_keys _ _ _ L). cbn. now rewrite orb_false_r.
  - apply lookup_none_keys in L. rewrite L. reflexivity.
Qed.

Lemma G34_spec ex : G34 ex = true ->
  forall k d v, lookup k named_defaults = Some d -> lookup k ex = Some v -> ne_true v d = true.
Proof.
  unfold G34. rewrite forallb_forall. intros H k d v L E.
  assert (In (k, d) named_defaults) as Hin.
  { clear -L. induction named_defaults as [|[k' d'] l IH]; cbn in *; [discriminate|].
    destruct (String.eqb k k') eqn:Q; [apply String.eqb_eq in Q; inversion L; subst; now left | right; auto]. }
  specialize (H _ Hin). cbn in H. rewrite E in H. exact H.
Qed.

(* every default of the runpp signature is a scalar: `val != default` never compares two composite values *)
Lemma named_defaults_scalar k d : lookup k named_defaults = Some d -> is_scalar d = true.
Proof.
  intros L.
  assert (A : forallb (fun kd => is_scalar (snd kd)) named_defaults = true) by (vm_compute; reflexivity).
  rewrite forallb_forall in A.
  assert (In (k, d) named_defaults) as Hin.
  { clear -L. induction named_defaults as [|[k' d'] l IH]; cbn in *; [discriminate|].
    destruct (String.eqb k k') eqn:Q; [apply String.eqb_eq in Q; inversion L; subst; now left | right; auto]. }
  exact (A _ Hin).
Qed.
Lemma ne_true_default d : is_scalar d = true -> ne_true d d = false.
Proof. intros S. unfold ne_true. rewrite (ne_truth_scalar _ _ S), (val_eqb_refl _ S). reflexivity. Qed.
Lemma ne_raises_default d : is_scalar d = true -> ne_raises d d = false.
Proof. intros S. unfold ne_raises. now rewrite (ne_truth_scalar _ _ S). Qed.

(* under the guard the passed keys are exactly the explicit keys *)
Lemma passed_set_guard ex k : G34 ex = true -> mem k (keys (passed_set ex)) = mem k (keys ex).
Proof.
  intros G. rewrite passed_set_char. destruct (lookup k named_defaults) as [d|] eqn:L; [|reflexivity].
  unfold getd. destruct (lookup k ex) as [v|] eqn:E.
  - rewrite (G34_spec _ G _ _ _ L E). symmetry. eapply lookup_some_keys; eauto.
  - rewrite (ne_true_default _ (named_defaults_scalar _ _ L)). symmetry. now apply lookup_none_keys.
Qed.

(* under the guard no comparison raises *)
Lemma passed_raises_char ex :
  passed_raises (call_named ex)
  = existsb (fun kd => ne_raises (getd (fst kd) ex (snd kd)) (snd kd)) named_defaults.
Proof.
  unfold passed_raises, call_named. rewrite existsb_map_c34. apply existsb_ext_in_c34.
  intros [k d] Hin. cbn [fst snd].
  assert (L : lookup k named_defaults = Some d) by (apply lookup_In_NoDup; [apply named_defaults_nodup | exact Hin]).
  rewrite (lookup_some_keys _ _ _ L). unfold getd at 2. now rewrite L.
Qed.
Lemma passed_raises_guard ex : G34 ex = true -> passed_raises (call_named ex) = false.
Proof.
  intros G. rewrite passed_raises_char.
  apply not_true_is_false. intros H. apply existsb_exists in H. destruct H as [[k d] [Hin H]]. cbn [fst snd] in H.
  assert (L : lookup k named_defaults = Some d) by (apply lookup_In_NoDup; [apply named_defaults_nodup | exact Hin]).
  unfold getd in H. destruct (lookup k ex) as [v|] eqn:E.
  - rewrite (ne_true_raises_excl _ _ (G34_spec _ G _ _ _ L E)) in H. discriminate.
  - rewrite (ne_raises_default _ (named_defaults_scalar _ _ L)) in H. discriminate.
Qed.

(* ------------------------------------------------------------------ overrule *)
(* the whole path: ValueError when user options are stored and some comparison raises, otherwise the option code runs
   with the stored options of the keys that do not count as passed *)
Lemma runpp_options_unfold f stored ex :
  runpp_options f stored ex
  = if negb (is_empty stored) && passed_raises (call_named ex) then Err "ValueError"
    else init_core f (call_named ex) (call_kwargs ex)
           (filter (fun kv => negb (mem (fst kv) (keys (passed_set ex)))) stored).
Proof.
  unfold runpp_options, init_runpp_options, passed_parameters, passed_set.
  destruct stored as [|s0 stored]; cbn [is_empty negb andb overrule filter]; [reflexivity|].
  destruct (passed_raises (call_named ex)); reflexivity.
Qed.
Lemma runpp_options_guard f stored ex : G34 ex = true ->
  runpp_options f stored ex
  = init_core f (call_named ex) (call_kwargs ex)
      (filter (fun kv => negb (mem (fst kv) (keys (passed_set ex)))) stored).
Proof. intros G. rewrite runpp_options_unfold, (passed_raises_guard _ G), andb_false_r. reflexivity. Qed.
Lemma runpp_options_ok f stored ex o : runpp_options f stored ex = Ok o ->
  init_core f (call_named ex) (call_kwargs ex)
      (filter (fun kv => negb (mem (fst kv) (keys (passed_set ex)))) stored) = Ok o.
Proof.
  rewrite runpp_options_unfold. destruct (negb (is_empty stored) && passed_raises (call_named ex)); [discriminate | auto].
Qed.

Lemma filter_ext_key (p q : key -> bool) (d : dict) :
  (forall k, p k = q k) -> filter (fun kv => p (fst kv)) d = filter (fun kv => q (fst kv)) d.
Proof. intros H. apply filter_ext. intros [k v]. apply H. Qed.

(* ------------------------------------------------------------------ (A) explicit wins under the guard *)
Theorem explicit_wins_partial : forall f stored explicit,
  G34 explicit = true ->
  runpp_options f stored explicit = runpp_options f (remove_keys (keys explicit) stored) explicit.
Proof.
  intros f stored ex G. rewrite !(runpp_options_guard _ _ _ G). f_equal.
  unfold remove_keys.
  assert (HP : forall k, (fun k => negb (mem k (keys (passed_set ex)))) k = (fun k => negb (mem k (keys ex))) k)
    by (intros k; cbn beta; now rewrite passed_set_guard).
  rewrite !(filter_ext_key _ _ _ HP).
  now rewrite filter_filter_same.
Qed.

(* ------------------------------------------------------------------ shape of a successful result *)
Lemma init_core_ok f named kwargs ov o :
  init_core f named kwargs ov = Ok o ->
  exists cva vdl numba ls mi ivm iva, o = update (base_dict named kwargs ov cva vdl numba ls mi ivm iva) ov.
Proof.
  unfold init_core. intros H.
  repeat match type of H with
         | (let '(a, b) := ?x in _) = _ => destruct x as [? ?] eqn:?
         | (match ?x with _ => _ end) = _ => destruct x eqn:?; try discriminate
         | (if ?x then _ else _) = _ => destruct x eqn:?; try discriminate
         end.
  inversion H. repeat eexists.
Qed.

(* (D) a stored option whose key was not passed ends up in net._options *)
Theorem stored_applies_when_not_passed : forall f stored explicit k v o,
  NoDup (keys stored) ->
  lookup k stored = Some v ->
  mem k (keys (passed_set explicit)) = false ->
  runpp_options f stored explicit = Ok o ->
  lookup k o = Some v.
Proof.
  intros f stored ex k v o ND L P H. apply runpp_options_ok in H.
  apply init_core_ok in H. destruct H as (cva & vdl & numba & ls & mi & ivm & iva & ->).
  apply lookup_update_in.
  - now apply NoDup_keys_filter.
  - rewrite (lookup_filter_key (fun k => negb (mem k (keys (passed_set ex))))). now rewrite P.
Qed.

(* the exact shape of the recorded defect: a named argument passed with a value python-equal to its
   default is not counted as passed, and the stored value ends up in net._options *)
Theorem explicit_default_loses : forall f stored explicit k d v s o,
  NoDup (keys stored) ->
  lookup k named_defaults = Some d -> lookup k explicit = Some v -> ne_true v d = false ->
  lookup k stored = Some s ->
  runpp_options f stored explicit = Ok o ->
  lookup k o = Some s.
Proof.
  intros f stored ex k d v s o ND Ld Le Ev Ls H.
  eapply stored_applies_when_not_passed; eauto.
  rewrite passed_set_char, Ld. unfold getd. rewrite Le, Ev. reflexivity.
Qed.

(* ------------------------------------------------------------------ (C) the explicit value is visible *)
Lemma getd_call_named k ex d : lookup k named_defaults = Some d ->
  getd k (call_named ex) VNone = getd k ex d.
Proof.
  intros L. unfold call_named, getd at 1.
  assert (forall nd, NoDup (keys nd) -> lookup k nd = Some d ->
          lookup k (map (fun kd => (fst kd, getd (fst kd) ex (snd kd))) nd) = Some (getd k ex d)) as A.
  { induction nd as [|[k1 d1] nd IH]; cbn; intros ND H; [discriminate|].
    inversion ND; subst. destruct (String.eqb k k1) eqn:E.
    - apply String.eqb_eq in E. subst. now inversion H.
    - auto. }
  now rewrite (A _ named_defaults_nodup L).
Qed.
Lemma lookup_call_kwargs k ex : lookup k named_defaults = None -> lookup k (call_kwargs ex) = lookup k ex.
Proof.
  intros L. unfold call_kwargs.
  rewrite (lookup_filter_key (fun k => negb (mem k (keys named_defaults)))).
  apply lookup_none_keys in L. now rewrite L.
Qed.

Theorem explicit_value_visible : forall f stored explicit k v o,
  mem k plain_keys = true ->
  lookup k explicit = Some v ->
  G34_key explicit k = true ->
  runpp_options f stored explicit = Ok o ->
  lookup k o = Some v.
Proof.
  intros f stored ex k v o PK Le G H. apply runpp_options_ok in H.
  set (ov := filter (fun kv => negb (mem (fst kv) (keys (passed_set ex)))) stored) in *.
  assert (P : mem k (keys (passed_set ex)) = true).
  { rewrite passed_set_char. unfold G34_key in G. rewrite Le in G.
    destruct (lookup k named_defaults) as [d|] eqn:L.
    - unfold getd. now rewrite Le.
    - eapply lookup_some_keys; eauto. }
  assert (Nov : mem k (keys ov) = false).
  { unfold ov. rewrite (mem_keys_filter_key (fun k => negb (mem k (keys (passed_set ex))))). now rewrite P. }
  assert (Lov : lookup k ov = None) by now apply lookup_none_keys.
  apply init_core_ok in H. destruct H as (cva & vdl & numba & ls & mi & ivm & iva & ->).
  rewrite lookup_update_notin by exact Nov.
  (* the 19 plainly copied keys, one by one *)
  unfold plain_keys in PK. cbn [mem] in PK.
  repeat match type of PK with
  | (String.eqb k ?s || _) = true =>
      destruct (String.eqb_spec k s) as [->|?]; [ clear PK | cbn [orb] in PK ]
  | false = true => discriminate
  end;
  unfold base_dict; cbn [lookup String.eqb Ascii.eqb Bool.eqb fst snd];
  first
  [ erewrite getd_call_named by reflexivity; unfold getd; rewrite Le; reflexivity
  | unfold getd at 1; rewrite Lov; erewrite getd_call_named by reflexivity; unfold getd; rewrite Le; reflexivity
  | unfold getd; rewrite (lookup_update_notin _ _ _ Nov); rewrite lookup_call_kwargs by reflexivity;
    rewrite Le; reflexivity
  | unfold getd; rewrite Lov; rewrite lookup_call_kwargs by reflexivity; rewrite Le; reflexivity ].
Qed.

(* ------------------------------------------------------------------ (B) refutations, by computation *)
Definition facts0 : facts :=
  {| f_numba_installed := true; f_ls2g_available := true; f_zip_loads := false; f_hv_line := false;
     f_with_facts := false; f_res_bus_empty := true; f_init_vm_auto := VQ (51 # 50);
     f_multi_slack := false; f_ls2g_blocked := false; f_tdpf_ok := false |}.
Definition stored_w : dict := [("tolerance_mva", VQ (1 # 1000))].
Definition explicit_w : dict := [("tolerance_mva", VQ tol_default)].

Lemma res_ok_inj {A} (a b : A) : Ok a = Ok b -> a = b. Proof. now inversion 1. Qed.

Theorem explicit_wins_refuted :
  exists f stored explicit,
    runpp_options f stored explicit <> runpp_options f (remove_keys (keys explicit) stored) explicit.
Proof.
  exists facts0, stored_w, explicit_w. intros H.
  assert (forall k, (match runpp_options facts0 stored_w explicit_w with Ok o => lookup k o | Err _ => None end)
                  = (match runpp_options facts0 (remove_keys (keys explicit_w) stored_w) explicit_w with
                     Ok o => lookup k o | Err _ => None end)) as E by (intros; now rewrite H).
  specialize (E "tolerance_mva"). vm_compute in E. discriminate E.
Qed.

Theorem explicit_value_visible_refuted :
  exists f stored explicit k v o,
    mem k plain_keys = true /\ lookup k explicit = Some v /\
    runpp_options f stored explicit = Ok o /\ lookup k o <> Some v.
Proof.
  exists facts0, stored_w, explicit_w, "tolerance_mva", (VQ tol_default).
  eexists. split; [reflexivity|]. split; [reflexivity|]. split; [vm_compute; reflexivity|].
  vm_compute. discriminate.
Qed.

(* ------------------------------------------------------------------ non-vacuity *)
Definition stored_nv : dict := [("tolerance_mva", VQ (1 # 1000)); ("max_iteration", VZ 25); ("numba", VB false)].
Definition explicit_nv : dict := [("tolerance_mva", VQ (1 # 1000000)); ("algorithm", VS "bfsw"); ("numba", VB true)].
Example nonvacuous :
  G34 explicit_nv = true /\ NoDup (keys stored_nv) /\
  (exists o, runpp_options facts0 stored_nv explicit_nv = Ok o
             /\ lookup "tolerance_mva" o = Some (VQ (1 # 1000000))
             /\ lookup "max_iteration" o = Some (VZ 25)
             /\ lookup "numba" o = Some (VB true)) /\
  mem "max_iteration" (keys (passed_set explicit_nv)) = false.
Proof.
  split; [vm_compute; reflexivity|]. split; [apply nodupb_NoDup; vm_compute; reflexivity|].
  split; [|vm_compute; reflexivity].
  eexists. split; [vm_compute; reflexivity|]. repeat split.
Qed.

(* ------------------------------------------------------------------ composite values in `val != default` *)
Definition is_container (v : val) : bool := match v with VL _ | VD _ | VO _ => true | _ => false end.
(* list / tuple / dict / object: always different from the (scalar) default, never raises -> always "passed" *)
Lemma container_always_passed v d : is_container v = true -> ne_truth v d = Some true.
Proof. destruct v; cbn; intros H; try discriminate H; destruct (num_of d); reflexivity. Qed.
(* array: size 1 -> the element decides; any other size, or a Series -> ValueError *)
Lemma array_ne_truth l d :
  ne_truth (VA l) d = match l with [x] => Some (negb (val_eqb x d)) | _ => None end.
Proof. destruct l as [|x [|y l]]; reflexivity. Qed.

Lemma In_lookup_defaults k d : lookup k named_defaults = Some d -> In (k, d) named_defaults.
Proof.
  induction named_defaults as [|[k' d'] l IH]; cbn; [discriminate|].
  destruct (String.eqb k k') eqn:Q; [apply String.eqb_eq in Q; intros H; inversion H; subst; now left | right; auto].
Qed.

(* a named argument whose comparison raises makes the whole runpp call raise ValueError - but only when user options
   are stored (without stored options the comparison is never evaluated) *)
Theorem raising_value_raises : forall f stored explicit k d v,
  stored <> [] -> lookup k named_defaults = Some d -> lookup k explicit = Some v -> ne_raises v d = true ->
  runpp_options f stored explicit = Err "ValueError".
Proof.
  intros f stored ex k d v NE L E R. rewrite runpp_options_unfold.
  assert (P : passed_raises (call_named ex) = true).
  { rewrite passed_raises_char. apply existsb_exists. exists (k, d). split; [now apply In_lookup_defaults|].
    cbn [fst snd]. unfold getd. now rewrite E. }
  rewrite P. destruct stored; [congruence | reflexivity].
Qed.
Theorem no_stored_no_comparison : forall f explicit,
  runpp_options f [] explicit = init_core f (call_named explicit) (call_kwargs explicit) [].
Proof. intros. rewrite runpp_options_unfold. reflexivity. Qed.

(* explicit wins for every container-valued or differing value: the guard seen from the value side *)
Lemma G34_intro ex :
  (forall k d v, lookup k named_defaults = Some d -> lookup k ex = Some v -> ne_truth v d = Some true) -> G34 ex = true.
Proof.
  intros H. unfold G34. apply forallb_forall. intros [k d] Hin. cbn [fst snd].
  destruct (lookup k ex) as [v|] eqn:E; [|reflexivity].
  assert (L : lookup k named_defaults = Some d) by (apply lookup_In_NoDup; [apply named_defaults_nodup | exact Hin]).
  unfold ne_true. now rewrite (H _ _ _ L E).
Qed.

Definition stored_c : dict := [("tolerance_mva", VQ (1 # 1000)); ("recycle", VD [("bus_pq", VB true)])].
Example composite_nonvacuous :
  (* size-2 array for a named argument: ValueError with stored options, plain copy without *)
  runpp_options facts0 stored_c [("tolerance_mva", VA [VQ (1 # 100); VQ (1 # 10)])] = Err "ValueError" /\
  (exists o, runpp_options facts0 [] [("tolerance_mva", VA [VQ (1 # 100); VQ (1 # 10)])] = Ok o
             /\ lookup "tolerance_mva" o = Some (VA [VQ (1 # 100); VQ (1 # 10)])) /\
  (* size-1 array equal to the default: not passed, the stored value wins (the recorded defect, array form) *)
  (exists o, runpp_options facts0 stored_c [("tolerance_mva", VA [VQ tol_default])] = Ok o
             /\ lookup "tolerance_mva" o = Some (VQ (1 # 1000))) /\
  (* list value: passed; explicit dict-valued kwargs option beats the stored dict *)
  (exists o, runpp_options facts0 stored_c [("tolerance_mva", VL [VQ tol_default]); ("recycle", VD [])] = Ok o
             /\ lookup "tolerance_mva" o = Some (VL [VQ tol_default]) /\ lookup "recycle" o = Some (VD [])).
Proof.
  split; [vm_compute; reflexivity|].
  split; [eexists; split; vm_compute; reflexivity|].
  split; [eexists; split; vm_compute; reflexivity|].
  eexists; split; [vm_compute; reflexivity|]. split; vm_compute; reflexivity.
Qed.
