(* C34 — the run_control branch: every inner power flow is configured like the plain call *)
From Coq Require Import ZArith QArith List Bool String Lia.
From PPV Require Import Base.QN Base.Out C34.Model C34.Proofs C34.ModelCtl.
Import ListNotations.
Open Scope string_scope.

(* ------------------------------------------------------------------ more dict laws *)
Lemma lookup_app k (d1 d2 : dict) :
  lookup k (d1 ++ d2)%list = match lookup k d1 with Some v => Some v | None => lookup k d2 end.
Proof. induction d1 as [|[k' v] d1 IH]; cbn; [reflexivity|]. destruct (String.eqb k k'); auto. Qed.
Lemma lookup_remove_keys k ks d : lookup k (remove_keys ks d) = if mem k ks then None else lookup k d.
Proof.
  unfold remove_keys. rewrite (lookup_filter_key (fun k => negb (mem k ks))). now destruct (mem k ks).
Qed.
Lemma lookup_update_nodup k e : forall d, NoDup (keys e) ->
  lookup k (update d e) = match lookup k e with Some v => Some v | None => lookup k d end.
Proof.
  intros d ND. destruct (lookup k e) as [v|] eqn:E.
  - now apply lookup_update_in.
  - apply lookup_update_notin. now apply lookup_none_keys.
Qed.
Lemma lookup_set k k' v d : lookup k (set k' v d) = if String.eqb k k' then Some v else lookup k d.
Proof.
  destruct (String.eqb k k') eqn:E.
  - apply String.eqb_eq in E. subst. apply lookup_set_same.
  - now apply lookup_set_other.
Qed.
Lemma mem_keys_lookup_b k d : mem k (keys d) = match lookup k d with Some _ => true | None => false end.
Proof.
  destruct (lookup k d) eqn:E; [eapply lookup_some_keys; eauto | now apply lookup_none_keys].
Qed.
Lemma lookup_call_named k ex d : lookup k named_defaults = Some d ->
  lookup k (call_named ex) = Some (getd k ex d).
Proof.
  intros L. unfold call_named.
  assert (forall nd, NoDup (keys nd) -> lookup k nd = Some d ->
          lookup k (map (fun kd => (fst kd, getd (fst kd) ex (snd kd))) nd) = Some (getd k ex d)) as A.
  { induction nd as [|[k1 d1] nd IH]; cbn; intros ND H; [discriminate|].
    inversion ND; subst. destruct (String.eqb k k1) eqn:E.
    - apply String.eqb_eq in E. subst. now inversion H.
    - auto. }
  exact (A _ named_defaults_nodup L).
Qed.
Lemma lookup_call_named_none k ex : lookup k named_defaults = None -> lookup k (call_named ex) = None.
Proof.
  intros L. unfold call_named. induction named_defaults as [|[k1 d1] nd IH]; cbn in *; [reflexivity|].
  destruct (String.eqb k k1); [discriminate | auto].
Qed.
Lemma lookup_call_kwargs_named k ex d : lookup k named_defaults = Some d -> lookup k (call_kwargs ex) = None.
Proof.
  intros L. unfold call_kwargs. rewrite (lookup_filter_key (fun k => negb (mem k (keys named_defaults)))).
  now rewrite (lookup_some_keys _ _ _ L).
Qed.

(* ------------------------------------------------------------------ the keyword arguments of an inner run *)
Lemma lookup_inner k ex : NoDup (keys ex) ->
  lookup k (inner_explicit ex)
  = if String.eqb k "only_v_results" then Some (VB false)
    else if String.eqb k "recycle" then Some VNone
    else if mem k ["ctrl_variables"; "max_iter"] then None
    else if String.eqb k "run_control" then Some (VB false)
    else match lookup k (call_kwargs ex) with
         | Some v => Some v
         | None => match lookup k (call_named ex) with
                   | Some v => Some v
                   | None => if String.eqb k "kwargs" then Some (VD (call_kwargs ex)) else None
                   end
         end.
Proof.
  intros ND. unfold inner_explicit, control_parameters.
  rewrite !lookup_set, lookup_remove_keys, lookup_set.
  rewrite lookup_update_nodup by (unfold call_kwargs; now apply NoDup_keys_filter).
  rewrite lookup_app. cbn [lookup]. reflexivity.
Qed.

Lemma named_not_special k d : lookup k named_defaults = Some d ->
  String.eqb k "only_v_results" = false /\ String.eqb k "recycle" = false /\
  mem k ["ctrl_variables"; "max_iter"] = false /\ String.eqb k "kwargs" = false /\
  String.eqb k "continue_on_divergence" = false /\ String.eqb k "check_each_level" = false /\
  String.eqb k "max_iter" = false.
Proof.
  intros L. apply In_lookup_defaults in L. unfold named_defaults in L. cbn [In] in L.
  repeat (destruct L as [L|L]; [inversion L; subst; repeat split; reflexivity|]). destruct L.
Qed.

(* (A) the named arguments of an inner call are those of the plain call *)
Lemma getd_inner_named k d ex : NoDup (keys ex) -> lookup k named_defaults = Some d ->
  getd k (inner_explicit ex) d = getd k (plain_explicit ex) d.
Proof.
  intros ND L. destruct (named_not_special _ _ L) as (H1 & H2 & H3 & H4 & H5 & H6 & H7).
  unfold getd. rewrite (lookup_inner _ _ ND), H1, H2, H3.
  unfold plain_explicit. rewrite lookup_remove_keys. unfold control_args. cbn [mem]. rewrite H5, H6, H7.
  destruct (String.eqb k "run_control") eqn:R.
  - apply String.eqb_eq in R. subst k. cbn in L. inversion L. reflexivity.
  - cbn [orb]. rewrite (lookup_call_kwargs_named _ _ _ L), (lookup_call_named _ _ _ L). unfold getd.
    destruct (lookup k ex); reflexivity.
Qed.
Lemma call_named_inner ex : NoDup (keys ex) -> call_named (inner_explicit ex) = call_named (plain_explicit ex).
Proof.
  intros ND. unfold call_named. apply map_ext_in. intros [k d] Hin. cbn [fst snd]. f_equal.
  apply getd_inner_named; [exact ND|]. apply lookup_In_NoDup; [apply named_defaults_nodup | exact Hin].
Qed.

(* (B) the **kwargs of an inner call agree with those of the plain call on every key outside ctl_keys *)
Lemma not_named_not_run_control k : lookup k named_defaults = None -> String.eqb k "run_control" = false.
Proof.
  intros L. destruct (String.eqb_spec k "run_control") as [->|]; [cbn in L; discriminate | reflexivity].
Qed.
Lemma lookup_inner_other k ex : NoDup (keys ex) ->
  lookup k named_defaults = None -> mem k ctl_keys = false ->
  lookup k (inner_explicit ex) = lookup k ex /\ lookup k (plain_explicit ex) = lookup k ex.
Proof.
  intros ND L C. unfold ctl_keys in C. cbn [mem] in C.
  repeat (apply orb_false_iff in C; destruct C as [? C]).
  split.
  - rewrite (lookup_inner _ _ ND). cbn [mem].
    repeat match goal with H : String.eqb k _ = false |- _ => rewrite H; clear H end.
    rewrite (not_named_not_run_control _ L). cbn [orb].
    rewrite (lookup_call_kwargs _ _ L), (lookup_call_named_none _ _ L). now destruct (lookup k ex).
  - unfold plain_explicit, control_args. rewrite lookup_remove_keys. cbn [mem].
    repeat match goal with H : String.eqb k _ = false |- _ => rewrite H; clear H end.
    rewrite (not_named_not_run_control _ L). reflexivity.
Qed.

(* the **kwargs entries that _init_runpp_options reads, with the defaults it uses *)
Definition kw_reads : list (key * val) :=
  [ ("numba", VB true); ("init_vm_pu", VNone); ("init_va_degree", VNone); ("lightsim2grid", VS "auto");
    ("switch_rx_ratio", VZ 2); ("recycle", VNone); ("delta_q", VZ 0); ("trafo3w_losses", VS "hv");
    ("neglect_open_switch_branches", VB false); ("v_debug", VB false); ("only_v_results", VB false);
    ("use_umfpack", VB true); ("permc_spec", VNone); ("tdpf_update_r_theta", VB true) ].
Definition kw_agree (kw1 kw2 : dict) : Prop := forall k d, In (k, d) kw_reads -> getd k kw1 d = getd k kw2 d.

Lemma getd_update_agree k dflt ov : forall kw1 kw2,
  getd k kw1 dflt = getd k kw2 dflt -> getd k (update kw1 ov) dflt = getd k (update kw2 ov) dflt.
Proof.
  induction ov as [|[k' v] ov IH]; intros kw1 kw2 H; cbn [update]; [exact H|].
  apply IH. unfold getd. rewrite !lookup_set. destruct (String.eqb k k'); [reflexivity | exact H].
Qed.

(* the option code depends on **kwargs only through the entries it reads *)
Lemma init_core_kw_agree f named kw1 kw2 ov : kw_agree kw1 kw2 ->
  init_core f named kw1 ov = init_core f named kw2 ov.
Proof.
  intros A.
  assert (U : forall k d, In (k, d) kw_reads -> getd k (update kw1 ov) d = getd k (update kw2 ov) d)
    by (intros k d Hin; apply getd_update_agree, A, Hin).
  unfold kw_reads in U, A.
  assert (Hin : forall k d, In (k, d) kw_reads -> In (k, d) kw_reads) by auto.
  unfold init_core, base_dict.
  rewrite (U "numba" (VB true)) by (cbn; tauto).
  rewrite (U "init_vm_pu" VNone) by (cbn; tauto).
  rewrite (U "init_va_degree" VNone) by (cbn; tauto).
  rewrite (U "lightsim2grid" (VS "auto")) by (cbn; tauto).
  rewrite (U "switch_rx_ratio" (VZ 2)) by (cbn; tauto).
  rewrite (U "recycle" VNone) by (cbn; tauto).
  rewrite (U "delta_q" (VZ 0)) by (cbn; tauto).
  rewrite (U "trafo3w_losses" (VS "hv")) by (cbn; tauto).
  rewrite (U "neglect_open_switch_branches" (VB false)) by (cbn; tauto).
  rewrite (U "v_debug" (VB false)) by (cbn; tauto).
  rewrite (U "only_v_results" (VB false)) by (cbn; tauto).
  rewrite (U "use_umfpack" (VB true)) by (cbn; tauto).
  rewrite (U "permc_spec" VNone) by (cbn; tauto).
  rewrite (A "tdpf_update_r_theta" (VB true)) by (cbn; tauto).
  reflexivity.
Qed.

Lemma Gctl_explicit stored ex : Gctl stored ex = true ->
  lookup "recycle" ex = None /\ lookup "only_v_results" ex = None.
Proof.
  unfold Gctl. rewrite andb_true_iff. intros [_ H]. cbn [forallb] in H.
  repeat (apply andb_true_iff in H; destruct H as [? H]).
  split; apply lookup_none_keys; match goal with X : negb (mem ?k _) = true |- mem ?k _ = false => now destruct (mem k (keys ex)) end.
Qed.
Lemma Gctl_stored stored ex k : Gctl stored ex = true -> mem k (keys stored) = true -> mem k ctl_keys = false.
Proof.
  unfold Gctl. rewrite andb_true_iff. intros [H _] M. rewrite forallb_forall in H.
  destruct (mem k ctl_keys) eqn:C; [|reflexivity].
  apply mem_In in C. specialize (H _ C). rewrite M in H. discriminate.
Qed.

Lemma kw_agree_inner stored ex : NoDup (keys ex) -> Gctl stored ex = true ->
  kw_agree (call_kwargs (inner_explicit ex)) (call_kwargs (plain_explicit ex)).
Proof.
  intros ND G k d Hin. destruct (Gctl_explicit _ _ G) as [Grec Govr].
  assert (L : lookup k named_defaults = None /\
              (mem k ctl_keys = false \/ (k = "recycle" /\ d = VNone) \/ (k = "only_v_results" /\ d = VB false))).
  { unfold kw_reads in Hin. cbn [In] in Hin.
    repeat (destruct Hin as [Hin|Hin]; [inversion Hin; subst; split; [reflexivity | cbn; tauto]|]). destruct Hin. }
  destruct L as [L C]. unfold getd. rewrite !(lookup_call_kwargs _ _ L).
  destruct C as [C | [[-> ->] | [-> ->]]].
  - destruct (lookup_inner_other _ _ ND L C) as [-> ->]. reflexivity.
  - rewrite (lookup_inner _ _ ND). cbn. unfold plain_explicit. rewrite lookup_remove_keys. cbn. now rewrite Grec.
  - rewrite (lookup_inner _ _ ND). cbn. unfold plain_explicit. rewrite lookup_remove_keys. cbn. now rewrite Govr.
Qed.

(* (C) the same keys count as passed, outside ctl_keys *)
Lemma passed_inner k ex : NoDup (keys ex) -> mem k ctl_keys = false ->
  mem k (keys (passed_set (inner_explicit ex))) = mem k (keys (passed_set (plain_explicit ex))).
Proof.
  intros ND C. rewrite !passed_set_char. destruct (lookup k named_defaults) as [d|] eqn:L.
  - now rewrite (getd_inner_named _ _ _ ND L).
  - rewrite !mem_keys_lookup_b. destruct (lookup_inner_other _ _ ND L C) as [-> ->]. reflexivity.
Qed.

(* ------------------------------------------------------------------ main statement for one inner call *)
Theorem inner_call_is_plain_call : forall f stored explicit,
  NoDup (keys explicit) -> Gctl stored explicit = true ->
  runpp_options f stored (inner_explicit explicit) = runpp_options f stored (plain_explicit explicit).
Proof.
  intros f stored ex ND G. rewrite !runpp_options_unfold, (call_named_inner _ ND).
  destruct (negb (is_empty stored) && passed_raises (call_named (plain_explicit ex))); [reflexivity|].
  rewrite (init_core_kw_agree _ _ _ _ _ (kw_agree_inner _ _ ND G)). f_equal.
  apply filter_ext_in. intros [k v] Hin. cbn [fst]. f_equal. apply (passed_inner _ _ ND).
  apply (Gctl_stored _ _ _ G). apply mem_In. unfold keys. apply in_map_iff. now exists (k, v).
Qed.

(* the inner call never re-enters the run_control branch nor the recycle shortcut *)
Theorem inner_call_takes_plain_branch : forall internal_stored ctrl_in_service explicit,
  NoDup (keys explicit) ->
  runpp_branch internal_stored ctrl_in_service (inner_explicit explicit) = BPlain.
Proof.
  intros is cs ex ND. unfold runpp_branch.
  assert (R : getd "recycle" (call_kwargs (inner_explicit ex)) VNone = VNone).
  { unfold getd. rewrite lookup_call_kwargs by reflexivity. now rewrite (lookup_inner _ _ ND). }
  assert (C : getd "run_control" (call_named (inner_explicit ex)) VNone = VB false).
  { unfold getd. rewrite (lookup_call_named _ _ (VB false)) by reflexivity.
    unfold getd. now rewrite (lookup_inner _ _ ND). }
  rewrite R, C. reflexivity.
Qed.

(* ------------------------------------------------------------------ the whole trace *)
Section Trace.
  Variable fs : nat -> facts.
  Variable pf : nat -> bool.
  Variable steps : list nat.
  Variable stored inner : dict.
  Variable cod check_each : bool.
  Variable max_iter : nat.

  Definition Inv (s : st) : Prop :=
    List.length (s_trace s) = s_n s /\
    forall i o, nth_error (s_trace s) i = Some o -> o = runpp_options (fs i) stored inner.

  Lemma do_run_inv s : Inv s -> Inv (fst (do_run fs pf stored inner s)).
  Proof.
    intros [HL HT]. unfold do_run.
    assert (I' : forall c o', o' = runpp_options (fs (s_n s)) stored inner ->
                 Inv {| s_n := S (s_n s); s_trace := (s_trace s ++ [o'])%list; s_conv := c |}).
    { intros c o' Eo. split; cbn [s_n s_trace].
      - rewrite app_length. cbn. lia.
      - intros i o H. destruct (Nat.lt_ge_cases i (List.length (s_trace s))) as [Lt|Ge].
        + rewrite nth_error_app1 in H by exact Lt. now apply HT.
        + rewrite nth_error_app2 in H by exact Ge.
          destruct (i - List.length (s_trace s))%nat as [|m] eqn:E; cbn in H.
          * assert (Ei : i = s_n s) by lia. subst i. inversion H. congruence.
          * destruct m; discriminate. }
    cbv zeta. destruct (runpp_options (fs (s_n s)) stored inner) eqn:E; cbn [fst]; apply I'; reflexivity.
  Qed.
  Lemma evaluate_inv s : Inv s -> Inv (fst (evaluate fs pf stored inner cod s)).
  Proof.
    intros I. unfold evaluate.
    pose proof (do_run_inv _ I) as I1. destruct (do_run fs pf stored inner s) as [s1 e1]. cbn [fst] in I1.
    destruct e1 as [e|]; [|exact I1].
    destruct (is_errors e); [|exact I1]. destruct cod; [|exact I1].
    pose proof (do_run_inv _ I1) as I2. destruct (do_run fs pf stored inner s1) as [s2 e2]. cbn [fst] in I2.
    destruct e2 as [e'|]; [destruct (is_errors e')|]; exact I2.
  Qed.
  Lemma level_loop_inv fuel : forall lvl rc s, Inv s ->
    Inv (fst (fst (level_loop fs pf steps stored inner cod max_iter fuel lvl rc s))).
  Proof.
    induction fuel as [|fuel IH]; intros lvl rc s I; cbn [level_loop]; [exact I|].
    destruct (Nat.leb rc max_iter); [|exact I].
    destruct (cc steps lvl rc); [exact I|].
    pose proof (evaluate_inv _ I) as I1. destruct (evaluate fs pf stored inner cod s) as [s' e]. cbn [fst] in I1.
    destruct e; [exact I1 | now apply IH].
  Qed.
  Lemma levels_loop_inv lvls : forall rc s, Inv s ->
    Inv (fst (fst (levels_loop fs pf steps stored inner cod check_each max_iter lvls rc s))).
  Proof.
    induction lvls as [|lvl rest IH]; intros rc s I; cbn [levels_loop]; [exact I|].
    destruct (s_conv s).
    - pose proof (level_loop_inv (S (S max_iter)) lvl 0 s I) as I1.
      destruct (level_loop fs pf steps stored inner cod max_iter (S (S max_iter)) lvl 0 s) as [[s' rc'] e].
      cbn [fst] in I1. destruct e; [exact I1|].
      destruct (if check_each then check_final max_iter rc' (s_conv s') else None); [exact I1 | now apply IH].
    - destruct (if check_each then check_final max_iter 0 (s_conv s) else None); [exact I | now apply IH].
  Qed.
  Lemma control_trace_inv ir i o :
    nth_error (fst (control_trace fs pf steps stored inner cod check_each max_iter ir)) i = Some o ->
    o = runpp_options (fs i) stored inner.
  Proof.
    unfold control_trace.
    set (s0 := {| s_n := 0; s_trace := []; s_conv := true |}).
    assert (I0 : Inv s0) by (split; [reflexivity | intros [|j] o' H; discriminate H]).
    assert (I1 : Inv (fst (if ir then do_run fs pf stored inner s0 else (s0, None)))).
    { destruct ir; [now apply do_run_inv | exact I0]. }
    destruct (if ir then do_run fs pf stored inner s0 else (s0, None)) as [s1 e1]. cbn [fst] in I1.
    destruct e1; [cbn [fst]; apply I1|].
    pose proof (levels_loop_inv (seq 0 (List.length steps)) 0 s1 I1) as I2.
    destruct (levels_loop fs pf steps stored inner cod check_each max_iter (seq 0 (List.length steps)) 0 s1)
      as [[s2 rc] e2]. cbn [fst] in I2.
    destruct e2; [cbn [fst]; apply I2|].
    destruct (check_final max_iter rc (s_conv s2)); cbn [fst]; apply I2.
  Qed.
End Trace.

(* every power flow run inside runpp(run_control=True, ...) - initial run, control iterations, retry after
   repair_control - sees exactly the options of the plain call with the same power flow arguments *)
Theorem control_every_inner_run_is_plain : forall fs pf steps initial_run stored explicit i o,
  NoDup (keys explicit) -> Gctl stored explicit = true ->
  nth_error (fst (runpp_control fs pf steps initial_run stored explicit)) i = Some o ->
  o = runpp_options (fs i) stored (plain_explicit explicit).
Proof.
  intros fs pf steps ir stored ex i o ND G H. unfold runpp_control in H.
  apply control_trace_inv in H. now rewrite (inner_call_is_plain_call _ _ _ ND G) in H.
Qed.

(* explicit wins carries over: under G34 no stored option under an explicitly passed key influences any inner run *)
Theorem control_explicit_wins_partial : forall fs pf steps initial_run stored explicit i o,
  NoDup (keys explicit) -> Gctl stored explicit = true -> G34 (plain_explicit explicit) = true ->
  nth_error (fst (runpp_control fs pf steps initial_run stored explicit)) i = Some o ->
  o = runpp_options (fs i) (remove_keys (keys (plain_explicit explicit)) stored) (plain_explicit explicit).
Proof.
  intros fs pf steps ir stored ex i o ND G G' H.
  rewrite (control_every_inner_run_is_plain _ _ _ _ _ _ _ _ ND G H). now apply explicit_wins_partial.
Qed.

(* ------------------------------------------------------------------ the guard is needed: run_control overwrites
   recycle / only_v_results of the caller (run_control.py:277) *)
Definition explicit_ovr : dict := [("run_control", VB true); ("only_v_results", VB true)].
Theorem control_only_v_results_overwritten :
  exists o p, runpp_options facts0 [] (inner_explicit explicit_ovr) = Ok o /\
              runpp_options facts0 [] (plain_explicit explicit_ovr) = Ok p /\
              lookup "only_v_results" o = Some (VB false) /\ lookup "only_v_results" p = Some (VB true).
Proof. eexists. eexists. split; [vm_compute; reflexivity|]. split; [vm_compute; reflexivity|]. split; reflexivity. Qed.
(* ... and a stored option under one of run_control's keys is overruled in the inner runs only *)
Definition stored_ovr : dict := [("only_v_results", VB true)].
Theorem control_stored_only_v_results_overruled :
  exists o p, runpp_options facts0 stored_ovr (inner_explicit [("run_control", VB true)]) = Ok o /\
              runpp_options facts0 stored_ovr (plain_explicit [("run_control", VB true)]) = Ok p /\
              lookup "only_v_results" o = Some (VB false) /\ lookup "only_v_results" p = Some (VB true).
Proof. eexists. eexists. split; [vm_compute; reflexivity|]. split; [vm_compute; reflexivity|]. split; reflexivity. Qed.

(* ------------------------------------------------------------------ non-vacuity: a run with initial run, two control
   iterations, a diverging second power flow that is retried after repair_control *)
Definition explicit_cnv : dict :=
  [("run_control", VB true); ("continue_on_divergence", VB true); ("tolerance_mva", VQ (1 # 1000000)); ("numba", VB false)].
Definition stored_cnv : dict := [("tolerance_mva", VQ (1 # 1000)); ("max_iteration", VZ 25)].
Example control_nonvacuous :
  NoDup (keys explicit_cnv) /\ Gctl stored_cnv explicit_cnv = true /\ G34 (plain_explicit explicit_cnv) = true /\
  let '(tr, out) := runpp_control (fun _ => facts0) (fun i => negb (Nat.eqb i 1)) [2%nat] true stored_cnv explicit_cnv in
  List.length tr = 4%nat /\ out = "ok" /\
  (exists o, nth_error tr 2 = Some (Ok o) /\ lookup "tolerance_mva" o = Some (VQ (1 # 1000000))
             /\ lookup "max_iteration" o = Some (VZ 25) /\ lookup "numba" o = Some (VB false)).
Proof.
  split; [apply nodupb_NoDup; vm_compute; reflexivity|].
  split; [vm_compute; reflexivity|]. split; [vm_compute; reflexivity|].
  vm_compute. split; [reflexivity|]. split; [reflexivity|]. eexists. split; [reflexivity|]. repeat split.
Qed.
