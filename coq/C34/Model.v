(* C34 — faithful model of
     pandapower/run.py  _passed_runpp_parameters (:524-549), set_user_pf_options (:30-65), runpp (:227-240)
     pandapower/auxiliary.py  _init_runpp_options (:1674-1822), _check_lightsim2grid_compatibility (:1298-1372),
                              _add_ppc_options (:1083-1121), _add_pf_options (:1142-1158).
   Python dicts = association lists with unique keys; python values = [val].
   Executable definitions only. *)
From Coq Require Import ZArith QArith List Bool String.
From PPV Require Import Base.QN Base.Out.
Import ListNotations.
Open Scope string_scope.

Definition key := string.
(* scalars as before; composite python values: VA = numpy array (its elements, flattened), VSer = pandas Series,
   VL = list / tuple, VD = dict, VO = any other object (function, ...) identified by a number.
   Composite values are carried through the option code unchanged; the only operation the code applies to them is
   `val != default` in _passed_runpp_parameters (see [ne_truth]). *)
Inductive val := VB (b : bool) | VZ (z : Z) | VQ (q : Q) | VS (s : string) | VNone
               | VA (l : list val) | VSer (l : list val) | VL (l : list val) | VD (d : list (key * val)) | VO (n : Z).
Definition dict := list (key * val).

(* ---- python value semantics *)
(* numeric tower of ==: True == 1 == 1.0 *)
Definition num_of (v : val) : option Q :=
  match v with
  | VB b => Some (if b then 1%Q else 0%Q)
  | VZ z => Some (inject_Z z)
  | VQ q => Some q
  | _ => None
  end.
(* python  a == b  on {bool,int,float,str,None} *)
Definition val_eqb (a b : val) : bool :=
  match num_of a, num_of b with
  | Some x, Some y => Qeq_bool x y
  | None, None =>
      match a, b with
      | VS s, VS t => String.eqb s t
      | VNone, VNone => true
      | _, _ => false
      end
  | _, _ => false
  end.
(* note on val_eqb: python  a == b  yields False for list/dict/object against a scalar; composite against composite is never evaluated
   by the modelled code (every default of the signature is a scalar, see Proofs.named_defaults_scalar) *)
(* python truthiness; a size-1 array has the truth value of its element.  (bool() of an array of another size or of a
   Series raises: composite values in the boolean contexts of _init_runpp_options are outside the model, the
   correspondence run uses them only for options that the code copies.) *)
Fixpoint truthy (v : val) : bool :=
  match v with
  | VB b => b
  | VZ z => negb (Z.eqb z 0)
  | VQ q => negb (Qeq_bool q 0)
  | VS s => negb (String.eqb s "")
  | VNone => false
  | VA [x] => truthy x
  | VA _ => false | VSer _ => false
  | VL l => match l with [] => false | _ => true end
  | VD d => match d with [] => false | _ => true end
  | VO _ => true
  end.
Definition is_scalar (v : val) : bool :=
  match v with VB _ | VZ _ | VQ _ | VS _ | VNone => true | _ => false end.
(* run.py:543  `val != default` inside the `if` of the dict comprehension, i.e. bool(val != default), for a scalar
   default:  list/tuple/dict/object != scalar is True;  array != scalar is the elementwise array, whose bool() is the
   element's for size 1 and raises ValueError for every other size (numpy >= 2.2 also for size 0);  Series != scalar is
   a Series, whose bool() always raises ValueError.  None = ValueError. *)
Definition ne_truth (v d : val) : option bool :=
  match v with
  | VA [x] => Some (negb (val_eqb x d))
  | VA _ => None
  | VSer _ => None
  | _ => Some (negb (val_eqb v d))
  end.
Definition ne_true (v d : val) : bool := match ne_truth v d with Some b => b | None => false end.
Definition ne_raises (v d : val) : bool := match ne_truth v d with Some _ => false | None => true end.
Definition is_none (v : val) : bool := match v with VNone => true | _ => false end.
Definition eqs (v : val) (s : string) : bool := val_eqb v (VS s).

(* ---- python dict operations *)
Fixpoint lookup (k : key) (d : dict) : option val :=
  match d with
  | [] => None
  | (k', v) :: d' => if String.eqb k k' then Some v else lookup k d'
  end.
Definition keys (d : dict) : list key := map fst d.
Fixpoint mem (k : key) (l : list key) : bool :=
  match l with [] => false | k' :: l' => String.eqb k k' || mem k l' end.
(* d[k] = v : replace in place or append *)
Fixpoint set (k : key) (v : val) (d : dict) : dict :=
  match d with
  | [] => [(k, v)]
  | (k', v') :: d' => if String.eqb k k' then (k', v) :: d' else (k', v') :: set k v d'
  end.
(* d.update(e) *)
Fixpoint update (d e : dict) : dict :=
  match e with
  | [] => d
  | (k, v) :: e' => update (set k v d) e'
  end.
Definition getd (k : key) (d : dict) (dflt : val) : val :=
  match lookup k d with Some v => v | None => dflt end.
Definition is_empty (d : dict) : bool := match d with [] => true | _ => false end.

(* the IEEE double written 1e-8 in the signature, as the exact rational it denotes *)
Definition tol_default : Q := 3022314549036573 # 302231454903657293676544.
(* ---- runpp signature (run.py:68-72): inspect.getfullargspec(runpp) args[1:] zipped with defaults *)
Definition named_defaults : dict :=
  [ ("algorithm", VS "nr"); ("calculate_voltage_angles", VB true); ("init", VS "auto");
    ("max_iteration", VS "auto"); ("tolerance_mva", VQ tol_default); ("trafo_model", VS "t");
    ("trafo_loading", VS "current"); ("enforce_q_lims", VB false); ("check_connectivity", VB true);
    ("voltage_depend_loads", VB true); ("consider_line_temperature", VB false);
    ("run_control", VB false); ("distributed_slack", VB false); ("tdpf", VB false);
    ("tdpf_delay_s", VNone) ].

(* the call  runpp(net, **explicit) : named arguments take the explicit value or the signature default,
   everything else lands in **kwargs *)
Definition call_named (explicit : dict) : dict :=
  map (fun kd => (fst kd, getd (fst kd) explicit (snd kd))) named_defaults.
Definition call_kwargs (explicit : dict) : dict :=
  filter (fun kv => negb (mem (fst kv) (keys named_defaults))) explicit.

(* run.py:524-549.  [named] = locals() without net and kwargs.
   "passed" <=> key has no default or value != default; kwargs always count as passed. *)
Definition passed_named (named : dict) : dict :=
  filter (fun kv => negb (mem (fst kv) (keys named_defaults))
                    || ne_true (snd kv) (getd (fst kv) named_defaults VNone)) named.
(* the comparison raises for some named argument (array of size <> 1, Series) *)
Definition passed_raises (named : dict) : bool :=
  existsb (fun kv => mem (fst kv) (keys named_defaults)
                     && ne_raises (snd kv) (getd (fst kv) named_defaults VNone)) named.
Inductive res (A : Type) := Ok (a : A) | Err (e : string).
Arguments Ok {A} a.
Arguments Err {A} e.
Definition passed_parameters (stored named kwargs : dict) : res (option dict) :=
  if is_empty stored then Ok None                              (* :532-533 *)
  else if passed_raises named then Err "ValueError"            (* :541-544, bool() of an array / Series *)
  else Ok (Some (update (passed_named named) kwargs)).         (* :541-547 *)

(* auxiliary.py:1684-1687 *)
Definition overrule (stored : dict) (passed : option dict) : dict :=
  match passed with
  | None => []
  | Some p => filter (fun kv => negb (mem (fst kv) (keys p))) stored
  end.

(* ---- facts about the net / the installation read by _init_runpp_options *)
Record facts := {
  f_numba_installed : bool;      (* NUMBA_INSTALLED *)
  f_ls2g_available : bool;       (* lightsim2grid_available *)
  f_zip_loads : bool;            (* any const_z/const_i percent in net.load, :1729-1733 *)
  f_hv_line : bool;              (* the "auto" rule for calculate_voltage_angles, :1740-1747 *)
  f_with_facts : bool;           (* :1751-1753 *)
  f_res_bus_empty : bool;        (* len(net.res_bus) == 0, :1771 *)
  f_init_vm_auto : val;          (* mean vm_pu of in-service ext_grid/gen/slack-vsc, :1781-1786 *)
  f_multi_slack : bool;          (* more than one in-service ext_grid / slack gen, :1322 *)
  f_ls2g_blocked : bool;         (* controllable shunt / tcsc / svc / ssc / vsc / bus_dc / line_dc present, :1335-1370 *)
  f_tdpf_ok : bool               (* _check_tdpf_parameters does not raise *)
}.

(* auxiliary.py:1298-1372 *)
Definition ls2g_check (f : facts) (ls vdl alg ds tdpf : val) : res val :=
  if negb (truthy ls) then Ok (VB false)
  else if negb (f_ls2g_available f) then Ok (VB false)
  else
    let refuse := if eqs ls "auto" then Ok (VB false) else Err "NotImplementedError" in
    if negb (eqs alg "nr") then refuse
    else if truthy vdl then refuse
    else if f_multi_slack f && negb (truthy ds) then refuse
    else if truthy tdpf then refuse
    else if f_ls2g_blocked f then refuse
    else Ok (VB true).

(* :1749-1750, KeyError for an algorithm without entry *)
Definition default_max_iteration (alg : val) : res val :=
  if eqs alg "nr" then Ok (VZ 10) else if eqs alg "iwamoto_nr" then Ok (VZ 10)
  else if eqs alg "bfsw" then Ok (VZ 100) else if eqs alg "gs" then Ok (VZ 10000)
  else if eqs alg "fdxb" then Ok (VZ 30) else if eqs alg "fdbx" then Ok (VZ 30)
  else Err "KeyError".

(* the dict assembled by _add_ppc_options (:1098-1120) and _add_pf_options (:1148-1157) from the derived
   values [cva vdl numba lightsim2grid max_iteration init_vm_pu init_va_degree] and the plainly copied ones *)
Definition base_dict (named kwargs ov : dict)
           (cva vdl numba lightsim2grid max_iteration init_vm_pu init_va_degree : val) : dict :=
  let kw := update kwargs ov in
  let nm k := getd k named VNone in
  let init_results := eqs init_vm_pu "results" || eqs init_va_degree "results" in   (* :1095-1096 *)
  [ ("calculate_voltage_angles", cva); ("trafo_model", nm "trafo_model");
    ("check_connectivity", nm "check_connectivity"); ("mode", VS "pf");
    ("switch_rx_ratio", getd "switch_rx_ratio" kw (VZ 2)); ("enforce_q_lims", nm "enforce_q_lims");
    ("recycle", getd "recycle" kw VNone); ("voltage_depend_loads", vdl);
    ("consider_line_temperature", nm "consider_line_temperature");
    ("tdpf", getd "tdpf" ov (nm "tdpf"));
    ("tdpf_update_r_theta", getd "tdpf_update_r_theta" ov (getd "tdpf_update_r_theta" kwargs (VB true)));
    ("tdpf_delay_s", getd "tdpf_delay_s" ov (nm "tdpf_delay_s"));
    ("distributed_slack", getd "distributed_slack" ov (nm "distributed_slack"));
    ("delta", getd "delta_q" kw (VZ 0));
    ("trafo3w_losses", getd "trafo3w_losses" kw (VS "hv")); ("init_vm_pu", init_vm_pu);
    ("init_va_degree", init_va_degree); ("init_results", VB init_results);
    ("p_lim_default", VQ (1000000000 # 1)); ("q_lim_default", VQ (1000000000 # 1));
    ("neglect_open_switch_branches", getd "neglect_open_switch_branches" kw (VB false));
    ("tolerance_mva", nm "tolerance_mva"); ("trafo_loading", nm "trafo_loading");
    ("numba", numba); ("ac", VB true); ("algorithm", getd "algorithm" ov (nm "algorithm"));
    ("max_iteration", max_iteration);
    ("v_debug", getd "v_debug" kw (VB false)); ("only_v_results", getd "only_v_results" kw (VB false));
    ("use_umfpack", getd "use_umfpack" kw (VB true));
    ("permc_spec", getd "permc_spec" kw VNone); ("lightsim2grid", lightsim2grid) ].

(* auxiliary.py:1674-1822; [named] are the keyword arguments runpp forwards (run.py:228-238),
   [kwargs] its **kwargs, [ov] = overrule_options *)
Definition init_core (f : facts) (named kwargs ov : dict) : res dict :=
  let kw := update kwargs ov in                                              (* :1689 *)
  let numba := getd "numba" kw (VB true) in
  let init_vm_pu := getd "init_vm_pu" kw VNone in
  let init_va_degree := getd "init_va_degree" kw VNone in
  let lightsim2grid := getd "lightsim2grid" kw (VS "auto") in
  let nm k := getd k named VNone in
  (* :1709-1717 *)
  let algorithm := getd "algorithm" ov (nm "algorithm") in
  let cva := getd "calculate_voltage_angles" ov (nm "calculate_voltage_angles") in
  let init := getd "init" ov (nm "init") in
  let max_iteration := getd "max_iteration" ov (nm "max_iteration") in
  let vdl := getd "voltage_depend_loads" ov (nm "voltage_depend_loads") in
  let distributed_slack := getd "distributed_slack" ov (nm "distributed_slack") in
  let tdpf := getd "tdpf" ov (nm "tdpf") in
  (* the plainly copied options (:1691-1706, :1716-1717) are read in [base_dict]; tdpf_update_r_theta is a
     keyword of _init_runpp_options that runpp only forwards through **kwargs *)
  (* :1722-1724 *)
  let numba := if truthy numba then VB (f_numba_installed f) else numba in
  (* :1726-1731 *)
  let vdl := if truthy vdl then (if f_zip_loads f then vdl else VB false) else vdl in
  match ls2g_check f lightsim2grid vdl algorithm distributed_slack tdpf with
  | Err e => Err e
  | Ok lightsim2grid =>
  let cva := if eqs cva "auto" then VB (f_hv_line f) else cva in             (* :1738-1747 *)
  if f_with_facts f && negb (eqs algorithm "nr") then Err "NotImplementedError" else   (* :1755-1757 *)
  match (if eqs max_iteration "auto"
         then (if truthy tdpf || f_with_facts f then Ok (VZ 30) else default_max_iteration algorithm)
         else Ok max_iteration) with                                          (* :1759-1761 *)
  | Err e => Err e
  | Ok max_iteration =>
  if negb (eqs init "auto") && (negb (is_none init_va_degree) || negb (is_none init_vm_pu))
  then Err "ValueError" else                                                  (* :1763-1765 *)
  let from_results := eqs init "results" || eqs init_vm_pu "results" || eqs init_va_degree "results" in
  let reset := from_results && f_res_bus_empty f in                           (* :1767-1773 *)
  let init := if reset then VS "auto" else init in
  let init_vm_pu := if reset then VNone else init_vm_pu in
  let init_va_degree := if reset then VNone else init_va_degree in
  let '(init_vm_pu, init_va_degree) :=
    if eqs init "auto" then                                                   (* :1776-1786 *)
      ( (if is_none init_vm_pu || eqs init_vm_pu "auto" then f_init_vm_auto f else init_vm_pu),
        (if is_none init_va_degree || eqs init_va_degree "auto"
         then VS (if truthy cva && negb (f_with_facts f) then "dc" else "flat") else init_va_degree) )
    else if eqs init "dc" then (VS "flat", VS "dc")                           (* :1787-1789 *)
    else (init, init) in                                                      (* :1790-1792 *)
  if truthy distributed_slack && negb (eqs algorithm "nr") then Err "NotImplementedError" else  (* :1802-1804 *)
  if truthy tdpf && negb (eqs algorithm "nr") then Err "NotImplementedError" else               (* :1807-1808 *)
  if truthy tdpf && negb (f_tdpf_ok f) then Err "UserWarning" else                              (* :1809 *)
  Ok (update (base_dict named kwargs ov cva vdl numba lightsim2grid max_iteration init_vm_pu init_va_degree) ov)
  end end.

Definition init_runpp_options (f : facts) (named kwargs : dict) (passed : option dict) (stored : dict) : res dict :=
  init_core f named kwargs (overrule stored passed).

(* the whole path  runpp(net, **explicit)  with net.user_pf_options = stored, up to net._options *)
Definition runpp_options (f : facts) (stored explicit : dict) : res dict :=
  let named := call_named explicit in
  let kwargs := call_kwargs explicit in
  match passed_parameters stored named kwargs with
  | Err e => Err e
  | Ok passed => init_runpp_options f named kwargs passed stored
  end.

(* ---- the guard of the partial theorem: every explicitly passed named argument differs from its default *)
Definition G34 (explicit : dict) : bool :=
  forallb (fun kd => match lookup (fst kd) explicit with
                     | Some v => ne_true v (snd kd)
                     | None => true end) named_defaults.
(* guard for one key: explicit value of k is not (python-)equal to the default of k *)
Definition G34_key (explicit : dict) (k : key) : bool :=
  match lookup k explicit, lookup k named_defaults with
  | Some v, Some d => ne_true v d
  | _, _ => true
  end.

(* stored options with the explicitly passed keys removed: "stored options apply only to arguments that were
   not passed" *)
Definition remove_keys (ks : list key) (d : dict) : dict :=
  filter (fun kv => negb (mem (fst kv) ks)) d.

(* keys whose value is copied into net._options without further processing *)
Definition plain_keys : list key :=
  [ "tolerance_mva"; "trafo_model"; "trafo_loading"; "enforce_q_lims"; "check_connectivity";
    "consider_line_temperature"; "algorithm"; "distributed_slack"; "tdpf"; "tdpf_delay_s";
    "switch_rx_ratio"; "trafo3w_losses"; "v_debug"; "neglect_open_switch_branches"; "recycle";
    "only_v_results"; "use_umfpack"; "permc_spec"; "tdpf_update_r_theta" ].

(* ---- output *)
Fixpoint oval (v : val) : out :=
  match v with
  | VB b => OB b | VZ z => OZ z | VQ q => oq q | VS s => OS s | VNone => ONone
  | VA l => OL [OS "array"; OL (map oval l)]
  | VSer l => OL [OS "series"; OL (map oval l)]
  | VL l => OL [OS "list"; OL (map oval l)]
  | VD d => OL [OS "dict"; OL (map (fun kv => OL [OS (fst kv); oval (snd kv)]) d)]
  | VO n => OL [OS "object"; OZ n]
  end.
Definition odict (d : dict) : out := olist (fun kv => OL [OS (fst kv); oval (snd kv)]) d.
Definition ores (r : res dict) : out := match r with Ok d => odict d | Err e => OErr e end.
(* output compression for the correspondence run: strings found in the table are printed as their index
   (printing and parsing string literals dominates the evaluation time otherwise) *)
Fixpoint index_of (s : string) (tbl : list string) (i : Z) : option Z :=
  match tbl with
  | [] => None
  | t :: tbl' => if String.eqb s t then Some i else index_of s tbl' (i + 1)%Z
  end.
Fixpoint intern (tbl : list string) (o : out) : out :=
  match o with
  | OS s => match index_of s tbl 0%Z with Some i => OL [ONone; OZ i] | None => OS s end
  | OL l => OL (map (intern tbl) l)
  | x => x
  end.
Definition run_options (f : facts) (stored explicit : dict) : out :=
  OL [ ores (runpp_options f stored explicit);
       match passed_parameters stored (call_named explicit) (call_kwargs explicit) with
       | Ok p => oopt odict p | Err e => OErr e end;
       OB (G34 explicit) ].
