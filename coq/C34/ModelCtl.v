(* C34 — the run_control branch of runpp, faithful model of the option flow
     pandapower/run.py  runpp (:219-231): recycle shortcut, `parameters = {**locals(), **kwargs}`,
                        parameters["run_control"] = False, run_control( **parameters)
     pandapower/control/run_control.py  run_control (:258-300), prepare_run_ctrl / ctrl_variables_default (:85-122),
                        get_recycle (:137-144), net_initialization (:147-156), _evaluate_net (:166-188),
                        control_implementation (:191-215), check_final_convergence (:126-134).
   Which keyword arguments does every inner power flow receive, and how many inner power flows are run in which order
   (initial run, one per control iteration, the retry after repair_control with continue_on_divergence).
   The numerical pipeline and the controllers are inputs: [pf i] = does inner power flow #i converge,
   [steps] = per level, the number of control steps after which all controllers of the level report convergence.
   Executable definitions only. *)
From Coq Require Import ZArith QArith List Bool String.
From PPV Require Import Base.QN Base.Out C34.Model.
Import ListNotations.
Open Scope string_scope.

Definition is_dict (v : val) : bool := match v with VD _ => true | _ => false end.

(* ---- which branch of runpp is taken (run.py:219-231) *)
Inductive branch := BRecycled | BControl | BPlain.
Definition runpp_branch (internal_stored ctrl_in_service : bool) (explicit : dict) : branch :=
  if is_dict (getd "recycle" (call_kwargs explicit) VNone) && internal_stored then BRecycled       (* :219-221 *)
  else if truthy (getd "run_control" (call_named explicit) VNone) && ctrl_in_service then BControl (* :223 *)
  else BPlain.

(* run.py:225-227  parameters = {**locals(), **kwargs}; parameters["run_control"] = False   (without net) *)
Definition control_parameters (explicit : dict) : dict :=
  set "run_control" (VB false)
      (update (call_named explicit ++ [("kwargs", VD (call_kwargs explicit))])%list (call_kwargs explicit)).

(* run_control(net, ctrl_variables=None, max_iter=30, **kwargs): the signature takes two keys out of the parameters;
   :277  kwargs["recycle"], kwargs["only_v_results"] = get_recycle(ctrl_variables)  = (None, False) for the default
   ctrl_variables (ctrl_variables_default has no "recycle_options" entry).
   These are the keyword arguments of EVERY inner call  run_funct(net, ** kwargs)  (:152, :170, :181): the dict is never
   modified afterwards (prepare_run_ctrl and ctrl_variables_default pop from their own copies). *)
Definition inner_explicit (explicit : dict) : dict :=
  set "only_v_results" (VB false)
      (set "recycle" VNone (remove_keys ["ctrl_variables"; "max_iter"] (control_parameters explicit))).

(* the explicit arguments of the plain call to compare with: the power flow arguments, i.e. the explicit arguments
   without run_control and without the arguments addressed to run_control itself *)
Definition control_args : list key := ["run_control"; "continue_on_divergence"; "check_each_level"; "max_iter"].
Definition plain_explicit (explicit : dict) : dict := remove_keys control_args explicit.

(* keys that the run_control branch adds to / takes from the keyword arguments *)
Definition ctl_keys : list key :=
  ["kwargs"; "continue_on_divergence"; "check_each_level"; "max_iter"; "ctrl_variables"; "run"; "recycle"; "only_v_results"].
(* guard of the branch theorem: no stored option under one of these keys, and the caller does not pass
   recycle / only_v_results / ctrl_variables / run / kwargs (run_control overwrites or consumes them) *)
Definition Gctl (stored explicit : dict) : bool :=
  forallb (fun k => negb (mem k (keys stored))) ctl_keys
  && forallb (fun k => negb (mem k (keys explicit))) ["kwargs"; "ctrl_variables"; "run"; "recycle"; "only_v_results"].

(* ---- run_control's own arguments, read from the keyword arguments (prepare_run_ctrl :112-118, signature :258) *)
Definition ctl_cod (explicit : dict) : bool := truthy (getd "continue_on_divergence" explicit (VB false)).
Definition ctl_check_each (explicit : dict) : bool := truthy (getd "check_each_level" explicit (VB true)).
Definition ctl_max_iter (explicit : dict) : nat :=
  match getd "max_iter" explicit (VZ 30) with VZ z => Z.to_nat z | _ => 30%nat end.

(* ---- the control loop as a trace of inner power flows *)
Record st := { s_n : nat;                    (* inner power flows so far *)
               s_trace : list (res dict);    (* net._options (or the error of the option code) of each of them *)
               s_conv : bool }.              (* net["converged"] *)

Section Loop.
  Variable fs : nat -> facts.                (* the facts seen by inner power flow #i *)
  Variable pf : nat -> bool.                 (* inner power flow #i converges *)
  Variable steps : list nat.                 (* one entry per controller level *)
  Variable stored inner : dict.
  Variable cod check_each : bool.
  Variable max_iter : nat.

  (* run_funct(net, ** kwargs) = runpp(net, ** inner): option code, then _powerflow (powerflow.py:38 sets
     net["converged"] = False first, :193 True at the end; a diverging calculation raises LoadflowNotConverged) *)
  Definition do_run (s : st) : st * option string :=
    let o := runpp_options (fs (s_n s)) stored inner in
    match o with
    | Err e => ({| s_n := S (s_n s); s_trace := (s_trace s ++ [o])%list; s_conv := s_conv s |}, Some e)
    | Ok _ => let c := pf (s_n s) in
              ({| s_n := S (s_n s); s_trace := (s_trace s ++ [o])%list; s_conv := c |},
               if c then None else Some "LoadflowNotConverged")
    end.

  Definition is_errors (e : string) : bool :=                                  (* ctrl_variables["errors"], :98 *)
    String.eqb e "LoadflowNotConverged" || String.eqb e "OPFNotConverged" || String.eqb e "NetCalculationNotConverged".

  (* _evaluate_net :166-188 *)
  Definition evaluate (s : st) : st * option string :=
    let '(s1, e1) := do_run s in
    match e1 with
    | None => (s1, None)
    | Some e =>
        if is_errors e then
          if cod then                                  (* _control_repair, then ONE retry whose `errors` are swallowed *)
            let '(s2, e2) := do_run s1 in
            match e2 with
            | None => (s2, None)
            | Some e' => if is_errors e' then (s2, None) else (s2, Some e')
            end
          else (s1, Some e)
        else (s1, Some e)
    end.

  (* all controllers of level [lvl] converged at the [i]-th call of _control_step (:218-229) *)
  Definition cc (lvl i : nat) : bool := Nat.leb (nth lvl steps 0%nat) i.

  (* the while loop of control_implementation :203-209; returns the state, run_count and a raised error *)
  Fixpoint level_loop (fuel lvl rc : nat) (s : st) : st * nat * option string :=
    match fuel with
    | O => (s, rc, None)
    | S fuel' =>
        if Nat.leb rc max_iter then
          if cc lvl rc then (s, rc, None)
          else let '(s', e) := evaluate s in
               match e with
               | Some x => (s', S rc, Some x)
               | None => level_loop fuel' lvl (S rc) s'
               end
        else (s, rc, None)
    end.

  Definition check_final (rc : nat) (conv : bool) : option string :=            (* :126-134 *)
    if Nat.ltb max_iter rc then Some "ControllerNotConverged"
    else if negb conv then Some "NetCalculationNotConverged" else None.

  (* the for loop over levels :196-213; [rc] = run_count of the previous level (0 initially) *)
  Fixpoint levels_loop (lvls : list nat) (rc : nat) (s : st) : st * nat * option string :=
    match lvls with
    | [] => (s, rc, None)
    | lvl :: rest =>
        (* `converged = ctrl_variables['converged']` is read once, before the while loop *)
        let '(s', rc', e) := if s_conv s then level_loop (S (S max_iter)) lvl 0 s else (s, 0%nat, None) in
        match e with
        | Some x => (s', rc', Some x)
        | None =>
            match (if check_each then check_final rc' (s_conv s') else None) with
            | Some x => (s', rc', Some x)
            | None => levels_loop rest rc' s'
            end
        end
    end.

  (* run_control :275-300 (controller initialisation / finalisation do not run power flows) *)
  Definition control_trace (initial_run : bool) : list (res dict) * string :=
    let s0 := {| s_n := 0; s_trace := []; s_conv := true |} in
    let '(s1, e1) := if initial_run then do_run s0 else (s0, None) in        (* net_initialization :147-156 *)
    match e1 with
    | Some x => (s_trace s1, x)
    | None =>
        let '(s2, rc, e2) := levels_loop (seq 0 (List.length steps)) 0 s1 in
        match e2 with
        | Some x => (s_trace s2, x)
        | None => match check_final rc (s_conv s2) with                        (* :215 *)
                  | Some x => (s_trace s2, x)
                  | None => (s_trace s2, "ok")
                  end
        end
    end.
End Loop.

(* runpp(net, ** explicit) on the run_control branch: the options of every inner power flow, in order, and the outcome *)
Definition runpp_control (fs : nat -> facts) (pf : nat -> bool) (steps : list nat) (initial_run : bool)
           (stored explicit : dict) : list (res dict) * string :=
  control_trace fs pf steps stored (inner_explicit explicit)
                (ctl_cod explicit) (ctl_check_each explicit) (ctl_max_iter explicit) initial_run.

(* ---- output for the correspondence run: facts are the same for every inner run of one case there *)
Definition run_control_case (f : facts) (failing : list nat) (steps : list nat) (initial_run : bool)
           (stored explicit : dict) : out :=
  let pf i := negb (existsb (Nat.eqb i) failing) in
  let '(tr, outcome) := runpp_control (fun _ => f) pf steps initial_run stored explicit in
  OL [ olist ores tr; OS outcome; odict (inner_explicit explicit);
       ores (runpp_options f stored (plain_explicit explicit)); OB (Gctl stored explicit) ].
