(* C02 — run wrappers for the correspondence run (no proofs).  Every wrapper returns the model's prediction of the
   observation points plus the residuals of the defining equations of the oracle inputs. *)
From Coq Require Import ZArith QArith List Bool String.
From PPV Require Import Base.QN Base.QC Base.Out C31.Model C02.Model.
Import ListNotations.
Open Scope Q_scope.

Definition bind {A B} (r : res A) (k : A -> res B) : res B := match r with Ok a => k a | Raise e => Raise e end.
(* tap result -> continuation; a NaN shift makes the whole row NaN *)
Definition with_tap (r : res (Q * Q * option Q)) (k : Q -> Q -> Q -> res brow) : res brow :=
  bind r (fun v => let '(vnh, vnl, sh) := v in match sh with Some s => k vnh vnl s | None => Raise "NaN" end).
(* loop pass t = "2" of _calc_tap_from_dataframe: the ordinary tap computation of the second tap changer (tap2_* columns)
   on the vectors left by the first pass *)
Definition tap_second (r : res (Q * Q * option Q)) (tc2 : tapc) (o2 : tap_orc) : res (Q * Q * option Q) :=
  bind r (fun v => let '(vnh, vnl, sh) := v in
                   match sh with Some s => tap_notable tc2 o2 vnh vnl s | None => Ok (vnh, vnl, None) end).
Definition tab_tap (t : trow) : res (Q * Q * option Q) := Ok (t_vnh t, t_vnl t, Some (t_shift t)).

(* residuals of the tap oracles: c^2+s^2-1,  vn^2 - ((u1+du c)^2 + (du s)^2)  (only meaningful for Ratio/Symmetrical) *)
Definition tap_resid (tc : tapc) (o : tap_orc) (vnh vnl : Q) : list Q :=
  let '(u1, du) := tap_du tc vnh vnl in
  [qsub (qadd (qsq (o_c o)) (qsq (o_s o))) 1;
   match tc_side tc, tc_type tc with
   | NoSide, _ | _, Ideal | _, OtherT => 0
   | _, _ => qsub (qsq (o_vn o)) (qadd (qsq (qadd u1 (qmul du (o_c o)))) (qsq (qmul du (o_s o))))
   end].
Definition trafo_resid (sn : Q) (t : trafo) (o : trafo_orc) (vnl vnlbus : Q) : list Q :=
  let '(z, r) := trafo_zr sn t vnl vnlbus in
  [qsub (qsq (o_x o)) (qsub (qsq z) (qsq r));
   qsub (qsq (o_bm o)) (qmax (trafo_ym2 t) 0)].

(* 2W transformer: tap (non-tabular, or the C31 tabular step given as r) -> branch row *)
Definition trafo_row (sn : Q) (tmodel_t : bool) (t : trafo) (o : trafo_orc) (tp : res (Q * Q * option Q))
                     (basehv baselv : Q) : res brow :=
  with_tap tp (fun vnh vnl sh => trafo_branch sn tmodel_t t o vnh vnl sh basehv baselv).
Definition trafo_resids (sn : Q) (t : trafo) (o : trafo_orc) (tc : tapc) (tpo : tap_orc) (tp : res (Q * Q * option Q))
                        (baselv : Q) : list Q :=
  match tp with                       (* tp = the complete tap computation (first and, if present, second tap changer) *)
  | Ok (vnh, vnl, _) => tap_resid tc tpo (t_vnh0 t) (t_vnl0 t) ++ trafo_resid sn t o vnl baselv
  | Raise _ => []
  end.

(* 3W transformer, block blk (0 hv, 1 mv, 2 lv) *)
Definition t3_row (sn : Q) (tmodel_t cva : bool) (w : trafo3w) (x : tap3) (o3 : t3_orc) (blk : nat)
                  (tpo : tap_orc) (o : trafo_orc) (basehv baselv : Q) : res brow :=
  bind (t3_vk w o3) (fun v =>
    let t := t3_trafo w (fst v) (snd v) blk in
    with_tap (tap_notable (tap3_block x blk) tpo (t_vnh0 t) (t_vnl0 t) (t3_shift cva w blk))
             (fun vnh vnl sh => trafo_branch sn tmodel_t t o vnh vnl sh basehv baselv)).
Definition t3_resids (w : trafo3w) (o3 : t3_orc) : list Q :=
  let '(vk_d, vkr_d) := t3_vk_delta w in
  let '(a, b, c) := vk_d in let '(ar, br, cr) := vkr_d in let '(i0, i1, i2) := o_vki_d o3 in
  let vkr2 := wye_delta_vec vkr_d (w_sn w) in let vki2 := wye_delta_vec (o_vki_d o3) (w_sn w) in
  let '(r0, r1, r2) := vkr2 in let '(j0, j1, j2) := vki2 in let '(k0, k1, k2) := o_vk2 o3 in
  [qsub (qsq i0) (qsub (qsq a) (qsq ar)); qsub (qsq i1) (qsub (qsq b) (qsq br)); qsub (qsq i2) (qsub (qsq c) (qsq cr));
   qsub (qsq k0) (qadd (qsq j0) (qsq r0)); qsub (qsq k1) (qadd (qsq j1) (qsq r1)); qsub (qsq k2) (qadd (qsq j2) (qsq r2))].

(* everything downstream of a branch row: stamps, flows, currents.
   e = (cos, sin)(SHIFT), vf/vt complex p.u. voltages, vmf/vmt = |V| (ppc VM), sf/st = |S| oracles *)
Definition run_results (row : brow) (e vf vt : C) (sn vmf vmt basef baset sf st sqrt3 : Q) : out :=
  match stamps row e with
  | Raise er => OErr er
  | Ok y =>
      let s := flows y vf vt sn in
      OL [ostamps y; oflows s;
          OL [oq (i_ka sf vmf basef sqrt3); oq (i_ka st vmt baset sqrt3)];
          OL [oq (qsub (qsq sf) (cnorm2 (fst s))); oq (qsub (qsq st) (cnorm2 (snd s)));
              oq (qsub (qsq vmf) (cnorm2 vf)); oq (qsub (qsq vmt) (cnorm2 vt));
              oq (qsub (cnorm2 e) 1)]]
  end.
Definition run_elem (r : res brow) (resid : list Q) (e vf vt : C) (sn vmf vmt basef baset sf st sqrt3 : Q) : out :=
  match r with
  | Raise er => OErr er
  | Ok row => OL [obrow row; olist oq resid;
                  if b_stat row then run_results row e vf vt sn vmf vmt basef baset sf st sqrt3 else ONone]
  end.

(* spec circuits evaluated in Coq (cross-check of the harness' python reference implementation) *)
Definition run_line_phys (fhz pi : Q) (l : line) (uf ut : C) : out := oflows (line_flows_phys fhz pi l uf ut).

Definition run_line_loading (ifrom ito : Q) (l : line) : out :=
  let r := line_loading ifrom ito l in OL [ooq (fst r); oq (snd r)].
Definition run_trafo_loading (current : bool) (ihv ilv shv slv sqrt3 : Q) (t : trafo) : out :=
  oq (trafo_loading current ihv ilv shv slv sqrt3 t).
Definition run_trafo3w_loading (current : bool) (i s : Q * Q * Q) (sqrt3 : Q) (w : trafo3w) : out :=
  oq (trafo3w_loading current i s sqrt3 w).
Definition run_dc (row : brow) (pi vaf vat sn : Q) : out :=
  match dc_b row with
  | Raise er => OErr er
  | Ok b => let r := dc_flow b (b_shift row) pi vaf vat sn in OL [oq (fst r); oq (snd r)]
  end.
