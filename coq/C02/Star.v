(* C02 — the three-winding transformer as three two-winding transformers (build_branch.py
   _calculate_sc_voltages_of_equivalent_transformers :1435-1474, _trafo_df_from_trafo3w :1379-1432,
   results_branch.py _get_trafo3w_results :457-520):
     * the three star impedances computed from the pairwise short-circuit data reproduce the documented pairwise
       short-circuit impedances (real and imaginary part separately; all square roots are oracle inputs constrained by
       their defining equations),
     * iron losses / no-load current sit on exactly one equivalent transformer (the loss side),
     * the reported terminal powers of the 3W transformer are those of the star circuit, and the reported losses are the
       sum of the losses of the three star branches when Kirchhoff's current law holds at the star point. *)
From Coq Require Import ZArith QArith List Bool Lia Lqa Setoid Morphisms.
From PPV Require Import Base.QN Base.QC C31.Model C02.Model C02.Run C02.CPlain C02.CField C02.Proofs C02.Model3w.
Open Scope Q_scope.

(* ---------------------------------------------------------------- signs and square roots *)
Lemma qsign_pos x : 0 < x -> qsign x = 1.
Proof. intros H. unfold qsign. apply qltb_lt in H. rewrite H. reflexivity. Qed.
Lemma qsign_neg x : x < 0 -> qsign x = (-1 # 1).
Proof.
  intros H. unfold qsign. destruct (qltb 0 x) eqn:E.
  - apply qltb_lt in E. exfalso. apply (Qlt_irrefl x). apply (Qlt_trans _ 0); assumption.
  - apply qltb_lt in H. rewrite H. reflexivity.
Qed.
Lemma qsign_zero x : x == 0 -> qsign x = 0.
Proof.
  intros H. unfold qsign.
  destruct (qltb 0 x) eqn:E; [apply qltb_lt in E; rewrite H in E; exfalso; apply (Qlt_irrefl 0 E)|].
  destruct (qltb x 0) eqn:E2; [apply qltb_lt in E2; rewrite H in E2; exfalso; apply (Qlt_irrefl 0 E2)|reflexivity].
Qed.
Global Instance qsign_proper : Proper (Qeq ==> eq) qsign.
Proof.
  intros a b H. destruct (Q_dec a 0) as [[L|G]|E].
  - rewrite (qsign_neg a L). rewrite H in L. rewrite (qsign_neg b L). reflexivity.
  - rewrite (qsign_pos a G). rewrite H in G. rewrite (qsign_pos b G). reflexivity.
  - rewrite (qsign_zero a E). rewrite H in E. rewrite (qsign_zero b E). reflexivity.
Qed.
Lemma sqrt_unique a b : 0 <= a -> 0 <= b -> a * a == b * b -> a == b.
Proof.
  intros Ha Hb H. assert (F : (a - b) * (a + b) == 0) by (transitivity (a * a - b * b); [ring | rewrite H; ring]).
  apply Qmult_integral in F. destruct F as [F|F]; [lra|].
  assert (a == 0) by lra. assert (b == 0) by lra. lra.
Qed.
Lemma qeqb_neq x y : qeqb x y = false -> ~ x == y.
Proof. intros H K. apply qeqb_eq in K. rewrite K in H. discriminate. Qed.
Lemma pos_nz x : 0 < x -> ~ x == 0.
Proof. intros H K. rewrite K in H. apply (Qlt_irrefl 0 H). Qed.
Lemma qmin2_pos a b : 0 < a -> 0 < b -> 0 < qmin2 a b.
Proof. intros Ha Hb. unfold qmin2. destruct (qltb b a); assumption. Qed.

(* ---------------------------------------------------------------- one equivalent transformer with a signed vk
   vk = sign(vki) * K, K = sqrt(vki^2 + vkr^2): the series impedance of _calc_r_x_from_dataframe is
   (vkr + j vki)/100 * k,  k = (vn_lv/V_N)^2 * S_N / sn_trafo / parallel — the sign of vki survives *)
Lemma trafo_rx_signed : forall sn t o vnl vnlbus vki K,
  t_vk t == qsign vki * K -> 0 <= K -> K * K == vki * vki + t_vkr t * t_vkr t -> ~ t_vk t == 0 ->
  o_x o * o_x o == fst (trafo_zr sn t vnl vnlbus) * fst (trafo_zr sn t vnl vnlbus)
                   - snd (trafo_zr sn t vnl vnlbus) * snd (trafo_zr sn t vnl vnlbus) ->
  0 <= o_x o -> 0 < sn -> 0 < t_sn t -> 0 < t_par t -> ~ vnl == 0 -> ~ vnlbus == 0 ->
  let k := (vnl / vnlbus) * (vnl / vnlbus) * sn / t_sn t / t_par t in
  fst (trafo_rx sn t o vnl vnlbus) == t_vkr t / 100 * k /\ snd (trafo_rx sn t o vnl vnlbus) == vki / 100 * k.
Proof.
  intros sn t o vnl vnlbus vki K Hvk HK HKK Hnz. unfold trafo_rx, trafo_zr, qsq. cbn [fst snd].
  set (z := qmul (qdiv (qdiv (t_vk t) 100) (t_sn t)) (qmul (qmul (qdiv vnl vnlbus) (qdiv vnl vnlbus)) sn)).
  set (r := qmul (qdiv (qdiv (t_vkr t) 100) (t_sn t)) (qmul (qmul (qdiv vnl vnlbus) (qdiv vnl vnlbus)) sn)).
  intros Hx Hx0 Hsn Hts Hp Hv Hvb.
  pose proof (pos_nz _ Hsn) as Hsn'. pose proof (pos_nz _ Hts) as Hts'. pose proof (pos_nz _ Hp) as Hp'.
  set (c := (vnl / vnlbus) * (vnl / vnlbus) * sn / t_sn t / 100).
  assert (Hc : 0 < c).
  { unfold c. assert (Hq : ~ vnl / vnlbus == 0) by (apply div_nz; assumption).
    assert (0 < (vnl / vnlbus) * (vnl / vnlbus)) by nra.
    apply Qlt_shift_div_l; [reflexivity|]. rewrite Qmult_0_l.
    apply Qlt_shift_div_l; [exact Hts|]. rewrite Qmult_0_l. apply Qmult_lt_0_compat; assumption. }
  assert (Ez : z == t_vk t * c) by (unfold z, c; qstrip; field; split; assumption).
  assert (Er : r == t_vkr t * c) by (unfold r, c; qstrip; field; split; assumption).
  cbn zeta.
  assert (Hvki : ~ vki == 0).
  { intro E. apply Hnz. rewrite Hvk, (qsign_zero _ E). ring. }
  split.
  - qstrip. rewrite Er. unfold c. field. repeat split; assumption.
  - assert (Hox2 : o_x o * o_x o == (vki * c) * (vki * c)).
    { rewrite Hx, Ez, Er.
      assert (S2 : qsign vki * qsign vki == 1).
      { destruct (Q_dec vki 0) as [[L|G]|E]; [rewrite (qsign_neg _ L) | rewrite (qsign_pos _ G) | contradiction]; reflexivity. }
      transitivity ((t_vk t * t_vk t - t_vkr t * t_vkr t) * (c * c)); [ring|].
      rewrite Hvk. transitivity (((qsign vki * qsign vki) * (K * K) - t_vkr t * t_vkr t) * (c * c)); [ring|].
      rewrite S2, HKK. ring. }
    assert (HKpos : 0 < K).
    { destruct (Qlt_le_dec 0 K) as [L|G]; [exact L|]. exfalso. apply Hnz. rewrite Hvk.
      assert (K == 0) by lra. rewrite H. ring. }
    destruct (Q_dec vki 0) as [[L|G]|E]; [| |contradiction].
    + assert (Hz : z < 0).
      { rewrite Ez, Hvk, (qsign_neg _ L). nra. }
      rewrite (qsign_neg _ Hz).
      assert (Eo : o_x o == - vki * c).
      { apply sqrt_unique; [exact Hx0 | nra | rewrite Hox2; ring]. }
      qstrip. rewrite Eo. unfold c. field. repeat split; assumption.
    + assert (Hz : 0 < z).
      { rewrite Ez, Hvk, (qsign_pos _ G). nra. }
      rewrite (qsign_pos _ Hz).
      assert (Eo : o_x o == vki * c).
      { apply sqrt_unique; [exact Hx0 | nra | rewrite Hox2; ring]. }
      qstrip. rewrite Eo. unfold c. field. repeat split; assumption.
Qed.

(* ---------------------------------------------------------------- delta -> star of the three pairwise values
   (wye_delta_vector :1514): on the common rating s0 the star values add up pairwise to the delta values *)
Lemma wye_delta_vec_sums : forall z0 z1 z2 s0 s1 s2, ~ s0 == 0 -> ~ s1 == 0 -> ~ s2 == 0 ->
  let '(a, b, c) := wye_delta_vec (z0, z1, z2) (s0, s1, s2) in
  a * (s0 / s0) + b * (s0 / s1) == z0 /\ b * (s0 / s1) + c * (s0 / s2) == z1 /\ a * (s0 / s0) + c * (s0 / s2) == z2.
Proof.
  intros z0 z1 z2 s0 s1 s2 H0 H1 H2. unfold wye_delta_vec.
  repeat split; qstrip; field; repeat split; assumption.
Qed.

(* ---------------------------------------------------------------- SPEC (doc/elements/trafo3w.rst):
   vk_hv_percent / vkr_hv_percent: short-circuit voltage hv-mv relative to min(sn_hv, sn_mv); vk_mv: mv-lv relative to
   min(sn_mv, sn_lv); vk_lv: hv-lv relative to min(sn_hv, sn_lv).  On the system base S_N = sn the pairwise
   short-circuit impedance (modulus) / resistance of a pair is  v/100 * sn / min(ratings). *)
Definition sc_pair (v smin sn : Q) : Q := v / 100 * sn / smin.

(* hypotheses on the square-root oracles of the conversion (validated on every case by Run.t3_resids) *)
Definition t3_orc_ok (w : trafo3w) (o : t3_orc) : Prop :=
  let '(vk_d, vkr_d) := t3_vk_delta w in
  let '(a, b, c) := vk_d in let '(ar, br, cr) := vkr_d in let '(i0, i1, i2) := o_vki_d o in
  let '(r0, r1, r2) := wye_delta_vec vkr_d (w_sn w) in
  let '(j0, j1, j2) := wye_delta_vec (o_vki_d o) (w_sn w) in
  let '(k0, k1, k2) := o_vk2 o in
  (0 <= i0 /\ i0 * i0 == a * a - ar * ar) /\ (0 <= i1 /\ i1 * i1 == b * b - br * br) /\ (0 <= i2 /\ i2 * i2 == c * c - cr * cr) /\
  (0 <= k0 /\ k0 * k0 == j0 * j0 + r0 * r0) /\ (0 <= k1 /\ k1 * k1 == j1 * j1 + r1 * r1) /\ (0 <= k2 /\ k2 * k2 == j2 * j2 + r2 * r2).
(* the sqrt oracle of _calc_r_x_from_dataframe for one equivalent transformer *)
Definition x_orc_ok (sn : Q) (t : trafo) (o : trafo_orc) (vnl vnlbus : Q) : Prop :=
  0 <= o_x o /\
  o_x o * o_x o == fst (trafo_zr sn t vnl vnlbus) * fst (trafo_zr sn t vnl vnlbus)
                   - snd (trafo_zr sn t vnl vnlbus) * snd (trafo_zr sn t vnl vnlbus).

(* per-unit series impedance of the equivalent transformer of block blk, divided by the off-nominal factor
   (vn_lv / V_N,lv-bus)^2 of that block (i.e. at nominal ratio), as computed by the unchanged 2W pipeline *)
Definition star_r (sn : Q) (w : trafo3w) (vk2 vkr2 : Q * Q * Q) (blk : nat) (o : trafo_orc) (vnl vnlbus : Q) : Q :=
  fst (trafo_rx sn (t3_trafo w vk2 vkr2 blk) o vnl vnlbus) / ((vnl / vnlbus) * (vnl / vnlbus)).
Definition star_x (sn : Q) (w : trafo3w) (vk2 vkr2 : Q * Q * Q) (blk : nat) (o : trafo_orc) (vnl vnlbus : Q) : Q :=
  snd (trafo_rx sn (t3_trafo w vk2 vkr2 blk) o vnl vnlbus) / ((vnl / vnlbus) * (vnl / vnlbus)).

Lemma qmul_sign_nz s k : qeqb (qmul s k) 0 = false -> ~ qmul s k == 0.
Proof. apply qeqb_neq. Qed.

(* one block: r and (signed) x of the equivalent transformer *)
Lemma star_block : forall sn w o3 vk2 vkr2 blk o vnl vnlbus,
  (blk < 3)%nat -> t3_vk w o3 = Ok (vk2, vkr2) -> t3_orc_ok w o3 ->
  x_orc_ok sn (t3_trafo w vk2 vkr2 blk) o vnl vnlbus ->
  0 < sn -> 0 < pick blk (w_sn w) -> ~ vnl == 0 -> ~ vnlbus == 0 ->
  star_r sn w vk2 vkr2 blk o vnl vnlbus == pick blk (wye_delta_vec (z_br_to_bus (w_vkr w) (w_sn w)) (w_sn w)) / 100 * sn / pick blk (w_sn w) /\
  star_x sn w vk2 vkr2 blk o vnl vnlbus == pick blk (wye_delta_vec (o_vki_d o3) (w_sn w)) / 100 * sn / pick blk (w_sn w).
Proof.
  intros sn w o3 vk2 vkr2 blk o vnl vnlbus Hblk Hvk Horc [Hx0 Hx] Hsn Hs Hv Hvb.
  unfold t3_vk in Hvk. unfold t3_orc_ok, t3_vk_delta in Horc.
  destruct (z_br_to_bus (w_vk w) (w_sn w)) as [[a b] c].
  destruct (z_br_to_bus (w_vkr w) (w_sn w)) as [[ar br] cr].
  destruct (o_vki_d o3) as [[i0 i1] i2].
  destruct (wye_delta_vec (ar, br, cr) (w_sn w)) as [[r0 r1] r2].
  destruct (wye_delta_vec (i0, i1, i2) (w_sn w)) as [[j0 j1] j2].
  destruct (o_vk2 o3) as [[k0 k1] k2].
  destruct Horc as (_ & _ & _ & [Hk0 Hk0s] & [Hk1 Hk1s] & [Hk2 Hk2s]).
  destruct (qeqb (qmul (qsign j0) k0) 0) eqn:E0; [discriminate|].
  destruct (qeqb (qmul (qsign j1) k1) 0) eqn:E1; [discriminate|].
  destruct (qeqb (qmul (qsign j2) k2) 0) eqn:E2; [discriminate|].
  cbn [orb] in Hvk. injection Hvk as <- <-.
  apply qeqb_neq in E0. apply qeqb_neq in E1. apply qeqb_neq in E2.
  assert (Hq : ~ vnl / vnlbus == 0) by (apply div_nz; assumption).
  assert (Hqq : ~ (vnl / vnlbus) * (vnl / vnlbus) == 0) by (apply mul_nz; assumption).
  pose proof (pos_nz _ Hsn) as Hsn'. pose proof (pos_nz _ Hs) as Hs'.
  unfold star_r, star_x.
  destruct blk as [|[|[|blk]]]; [| | | lia]; cbn [pick] in *.
  - destruct (trafo_rx_signed sn (t3_trafo w (qmul (qsign j0) k0, qmul (qsign j1) k1, qmul (qsign j2) k2) (r0, r1, r2) 0) o vnl vnlbus j0 k0)
      as [R X]; cbn [t3_trafo t_vk t_vkr t_sn t_par pick]; try assumption; try reflexivity.
    { qstrip. reflexivity. }
    cbn [t3_trafo t_vk t_vkr t_sn t_par pick] in R, X. rewrite R, X. split; field; repeat split; assumption.
  - destruct (trafo_rx_signed sn (t3_trafo w (qmul (qsign j0) k0, qmul (qsign j1) k1, qmul (qsign j2) k2) (r0, r1, r2) 1) o vnl vnlbus j1 k1)
      as [R X]; cbn [t3_trafo t_vk t_vkr t_sn t_par pick]; try assumption; try reflexivity.
    { qstrip. reflexivity. }
    cbn [t3_trafo t_vk t_vkr t_sn t_par pick] in R, X. rewrite R, X. split; field; repeat split; assumption.
  - destruct (trafo_rx_signed sn (t3_trafo w (qmul (qsign j0) k0, qmul (qsign j1) k1, qmul (qsign j2) k2) (r0, r1, r2) 2) o vnl vnlbus j2 k2)
      as [R X]; cbn [t3_trafo t_vk t_vkr t_sn t_par pick]; try assumption; try reflexivity.
    { qstrip. reflexivity. }
    cbn [t3_trafo t_vk t_vkr t_sn t_par pick] in R, X. rewrite R, X. split; field; repeat split; assumption.
Qed.

(* ---------------------------------------------------------------- T: the star reproduces the pairwise short-circuit data
   R_hv + R_mv = R_hm, ... (from vkr) and X_hv + X_mv = X_hm, ... with X_pair >= 0 and R_pair^2 + X_pair^2 = Z_pair^2
   (Z_pair from vk): real and imaginary part separately, for the rows of the unchanged 2W pipeline *)
Lemma t3_star_pairwise : forall sn w o3 vk2 vkr2 oh om ol vh bh vm bm vl bl,
  t3_vk w o3 = Ok (vk2, vkr2) -> t3_orc_ok w o3 ->
  x_orc_ok sn (t3_trafo w vk2 vkr2 0) oh vh bh -> x_orc_ok sn (t3_trafo w vk2 vkr2 1) om vm bm ->
  x_orc_ok sn (t3_trafo w vk2 vkr2 2) ol vl bl ->
  0 < sn -> 0 < pick 0 (w_sn w) -> 0 < pick 1 (w_sn w) -> 0 < pick 2 (w_sn w) ->
  ~ vh == 0 -> ~ bh == 0 -> ~ vm == 0 -> ~ bm == 0 -> ~ vl == 0 -> ~ bl == 0 ->
  let '(s0, s1, s2) := w_sn w in
  let '(vk_hm, vk_ml, vk_hl) := w_vk w in let '(vkr_hm, vkr_ml, vkr_hl) := w_vkr w in
  let rh := star_r sn w vk2 vkr2 0 oh vh bh in let xh := star_x sn w vk2 vkr2 0 oh vh bh in
  let rm := star_r sn w vk2 vkr2 1 om vm bm in let xm := star_x sn w vk2 vkr2 1 om vm bm in
  let rl := star_r sn w vk2 vkr2 2 ol vl bl in let xl := star_x sn w vk2 vkr2 2 ol vl bl in
  (rh + rm == sc_pair vkr_hm (qmin2 s0 s1) sn /\ rm + rl == sc_pair vkr_ml (qmin2 s1 s2) sn /\ rh + rl == sc_pair vkr_hl (qmin2 s0 s2) sn) /\
  (0 <= xh + xm /\ (rh + rm) * (rh + rm) + (xh + xm) * (xh + xm) == sc_pair vk_hm (qmin2 s0 s1) sn * sc_pair vk_hm (qmin2 s0 s1) sn) /\
  (0 <= xm + xl /\ (rm + rl) * (rm + rl) + (xm + xl) * (xm + xl) == sc_pair vk_ml (qmin2 s1 s2) sn * sc_pair vk_ml (qmin2 s1 s2) sn) /\
  (0 <= xh + xl /\ (rh + rl) * (rh + rl) + (xh + xl) * (xh + xl) == sc_pair vk_hl (qmin2 s0 s2) sn * sc_pair vk_hl (qmin2 s0 s2) sn).
Proof.
  intros sn w o3 vk2 vkr2 oh om ol vh bh vm bm vl bl Hvk Horc Hoh Hom Hol Hsn H0 H1 H2 Hvh Hbh Hvm Hbm Hvl Hbl.
  destruct (star_block sn w o3 vk2 vkr2 0 oh vh bh) as [Rh Xh]; try assumption; [lia|].
  destruct (star_block sn w o3 vk2 vkr2 1 om vm bm) as [Rm Xm]; try assumption; [lia|].
  destruct (star_block sn w o3 vk2 vkr2 2 ol vl bl) as [Rl Xl]; try assumption; [lia|].
  unfold t3_orc_ok, t3_vk_delta in Horc.
  destruct (w_sn w) as [[s0 s1] s2] eqn:Es. destruct (w_vk w) as [[k0 k1] k2] eqn:Ek. destruct (w_vkr w) as [[q0 q1] q2] eqn:Eq.
  cbn [pick] in *. cbn zeta.
  rewrite Rh, Rm, Rl, Xh, Xm, Xl. clear Rh Rm Rl Xh Xm Xl Hoh Hom Hol Hvk.
  destruct (o_vki_d o3) as [[i0 i1] i2].
  pose proof (pos_nz _ Hsn) as Hsn'. pose proof (pos_nz _ H0) as H0'. pose proof (pos_nz _ H1) as H1'. pose proof (pos_nz _ H2) as H2'.
  pose proof (qmin2_pos _ _ H0 H1) as M01. pose proof (qmin2_pos _ _ H1 H2) as M12. pose proof (qmin2_pos _ _ H0 H2) as M02.
  pose proof (pos_nz _ M01) as M01'. pose proof (pos_nz _ M12) as M12'. pose proof (pos_nz _ M02) as M02'.
  unfold z_br_to_bus in *.
  set (a := qmul s0 (qdiv k0 (qmin2 s0 s1))) in *. set (b := qmul s0 (qdiv k1 (qmin2 s1 s2))) in *. set (c := qmul s0 (qdiv k2 (qmin2 s0 s2))) in *.
  set (ar := qmul s0 (qdiv q0 (qmin2 s0 s1))) in *. set (br := qmul s0 (qdiv q1 (qmin2 s1 s2))) in *. set (cr := qmul s0 (qdiv q2 (qmin2 s0 s2))) in *.
  assert (Ea : a == s0 * (k0 / qmin2 s0 s1)) by (unfold a; qstrip; reflexivity).
  assert (Eb : b == s0 * (k1 / qmin2 s1 s2)) by (unfold b; qstrip; reflexivity).
  assert (Ec : c == s0 * (k2 / qmin2 s0 s2)) by (unfold c; qstrip; reflexivity).
  assert (Ear : ar == s0 * (q0 / qmin2 s0 s1)) by (unfold ar; qstrip; reflexivity).
  assert (Ebr : br == s0 * (q1 / qmin2 s1 s2)) by (unfold br; qstrip; reflexivity).
  assert (Ecr : cr == s0 * (q2 / qmin2 s0 s2)) by (unfold cr; qstrip; reflexivity).
  clearbody a b c ar br cr.
  pose proof (wye_delta_vec_sums ar br cr s0 s1 s2 H0' H1' H2') as WR.
  pose proof (wye_delta_vec_sums i0 i1 i2 s0 s1 s2 H0' H1' H2') as WI.
  destruct (wye_delta_vec (ar, br, cr) (s0, s1, s2)) as [[r0 r1] r2].
  destruct (wye_delta_vec (i0, i1, i2) (s0, s1, s2)) as [[j0 j1] j2].
  destruct (o_vk2 o3) as [[kk0 kk1] kk2].
  destruct Horc as ([Hi0 Hi0s] & [Hi1 Hi1s] & [Hi2 Hi2s] & _).
  destruct WR as (WR0 & WR1 & WR2). destruct WI as (WI0 & WI1 & WI2).
  cbn [pick].
  (* the six sums in terms of the delta values *)
  assert (S01r : r0 / 100 * sn / s0 + r1 / 100 * sn / s1 == ar / 100 * sn / s0).
  { rewrite <- WR0. field. split; assumption. }
  assert (S12r : r1 / 100 * sn / s1 + r2 / 100 * sn / s2 == br / 100 * sn / s0).
  { rewrite <- WR1. field. repeat split; assumption. }
  assert (S02r : r0 / 100 * sn / s0 + r2 / 100 * sn / s2 == cr / 100 * sn / s0).
  { rewrite <- WR2. field. split; assumption. }
  assert (S01x : j0 / 100 * sn / s0 + j1 / 100 * sn / s1 == i0 / 100 * sn / s0).
  { rewrite <- WI0. field. split; assumption. }
  assert (S12x : j1 / 100 * sn / s1 + j2 / 100 * sn / s2 == i1 / 100 * sn / s0).
  { rewrite <- WI1. field. repeat split; assumption. }
  assert (S02x : j0 / 100 * sn / s0 + j2 / 100 * sn / s2 == i2 / 100 * sn / s0).
  { rewrite <- WI2. field. split; assumption. }
  rewrite S01r, S12r, S02r, S01x, S12x, S02x.
  assert (P : forall i, 0 <= i -> 0 <= i / 100 * sn / s0).
  { intros i Hi. apply Qle_shift_div_l; [exact H0|]. rewrite Qmult_0_l.
    apply Qmult_le_0_compat; [|lra]. apply Qle_shift_div_l; [reflexivity|]. rewrite Qmult_0_l. exact Hi. }
  unfold sc_pair.
  split; [|split; [|split]].
  - repeat split; [rewrite Ear | rewrite Ebr | rewrite Ecr]; field; split; assumption.
  - split; [apply P; exact Hi0|].
    transitivity ((ar * ar + i0 * i0) * ((sn / 100 / s0) * (sn / 100 / s0))); [field; exact H0'|].
    rewrite Hi0s. transitivity ((a * a) * ((sn / 100 / s0) * (sn / 100 / s0))); [ring|]. rewrite Ea. field. split; assumption.
  - split; [apply P; exact Hi1|].
    transitivity ((br * br + i1 * i1) * ((sn / 100 / s0) * (sn / 100 / s0))); [field; exact H0'|].
    rewrite Hi1s. transitivity ((b * b) * ((sn / 100 / s0) * (sn / 100 / s0))); [ring|]. rewrite Eb. field. split; assumption.
  - split; [apply P; exact Hi2|].
    transitivity ((cr * cr + i2 * i2) * ((sn / 100 / s0) * (sn / 100 / s0))); [field; exact H0'|].
    rewrite Hi2s. transitivity ((c * c) * ((sn / 100 / s0) * (sn / 100 / s0))); [ring|]. rewrite Ec. field. split; assumption.
Qed.

(* ---------------------------------------------------------------- T: loss side (_trafo_df_from_trafo3w :1413-1414)
   pfe_kw / i0_percent are carried by the equivalent transformer of the loss side only; with loss side "star"
   (w_loss = 3: the iron losses are a bus shunt at the star point, C03) by none of them *)
Lemma t3_loss_side : forall w vk2 vkr2 blk,
  (t_pfe (t3_trafo w vk2 vkr2 blk), t_i0 (t3_trafo w vk2 vkr2 blk)) =
  if Nat.eqb (w_loss w) blk then (w_pfe w, w_i0 w) else (0, 0).
Proof. intros. unfold t3_trafo. cbn [t_pfe t_i0]. destruct (Nat.eqb (w_loss w) blk); reflexivity. Qed.
(* hence the magnetising admittance of every other block is zero: its branch row is a pure series impedance *)
Lemma t3_other_blocks_no_shunt : forall sn w vk2 vkr2 blk o vnl vnlbus,
  w_loss w <> blk -> o_bm o == 0 ->
  fst (trafo_gb sn (t3_trafo w vk2 vkr2 blk) o vnl vnlbus) == 0 /\ snd (trafo_gb sn (t3_trafo w vk2 vkr2 blk) o vnl vnlbus) == 0.
Proof.
  intros sn w vk2 vkr2 blk o vnl vnlbus Hl Ho. unfold trafo_gb, t3_trafo. cbn [t_pfe t_i0 t_vnl0 t_par fst snd].
  apply Nat.eqb_neq in Hl. rewrite Hl. split; qstrip; [|rewrite Ho]; unfold Qdiv; ring.
Qed.
(* and the clipped sqrt oracle of such a block is forced to 0 by its defining equation *)
Lemma t3_other_blocks_bm_zero : forall w vk2 vkr2 blk o,
  w_loss w <> blk -> o_bm o * o_bm o == qmax (trafo_ym2 (t3_trafo w vk2 vkr2 blk)) 0 -> o_bm o == 0.
Proof.
  intros w vk2 vkr2 blk o Hl H. unfold trafo_ym2, t3_trafo in H. cbn [t_pfe t_i0 t_sn] in H.
  apply Nat.eqb_neq in Hl. rewrite Hl in H.
  assert (E : qmax (qsub (qsq (qmul (qdiv 0 100) (pick blk (w_sn w)))) (qsq (qmul 0 (1 # 1000)))) 0 == 0).
  { unfold qmax. destruct (qltb _ 0); [reflexivity|]. unfold qsq. qstrip. unfold Qdiv. ring. }
  rewrite E in H. nra.
Qed.

(* ---------------------------------------------------------------- T: the reported powers are the star circuit's
   SPEC star circuit in per unit: block h between the hv terminal (behind the ideal transformer n_h at the terminal) and
   the star point a; blocks m, l between the star point (behind the ideal transformers n_m, n_l at the star side) and
   the mv / lv terminals; every block a pi two-port (series impedance z_k, shunts yf_k/2, yt_k/2 at its two ends; both zero
   except on the loss side; yf = yt for trafo_model "pi", the pi equivalent of the T circuit for trafo_model "t", see
   C02_wye_delta_two_port).  Currents flowing INTO the block at its two ends: *)
Definition blk_I (z yf yt n vf vt : C) : C * C :=
  let vf' := Cdiv vf n in
  (Cadd (Cmul (Cscale (1 # 2) yf) vf') (Cmul (Cinv z) (Csub vf' vt)),
   Cadd (Cmul (Cscale (1 # 2) yt) vt) (Cmul (Cinv z) (Csub vt vf'))).
(* the block of a branch row *)
Definition row_I (br : brow) (e vf vt : C) : C * C :=
  blk_I (mkC (b_r br) (b_x br)) (mkC (b_g br) (b_b br)) (mkC (b_g br + b_ga br) (b_b br + b_ba br)) (Cscale (b_tap br) e) vf vt.
(* terminal powers of the star circuit [MVA]: S_hv at the hv terminal, S_mv, S_lv at the mv / lv terminals *)
Definition star_S (sn : Q) (rh rm rl : brow) (eh em el vh va vm vl : C) : C * C * C :=
  (Cscale sn (Cmul (Cdiv vh (Cscale (b_tap rh) eh)) (Cconj (fst (row_I rh eh vh va)))),
   Cscale sn (Cmul vm (Cconj (snd (row_I rm em va vm)))),
   Cscale sn (Cmul vl (Cconj (snd (row_I rl el va vl))))).

(* rows of the transformer pipeline: in service, symmetric series impedance (pi and T model), valid tap, |e| = 1 *)
Definition row_sym_ok (br : brow) (e : C) : Prop :=
  b_stat br = true /\ b_ra br == 0 /\ b_xa br == 0 /\ ~ (b_r br) * (b_r br) + (b_x br) * (b_x br) == 0 /\ ~ b_tap br == 0 /\ re e * re e + im e * im e == 1.

Lemma blk_flows : forall br e vf vt sn, row_sym_ok br e ->
  let i := row_I br e vf vt in
  Ceq2 (flows (stamps_core br e) vf vt sn)
       (Cscale sn (Cmul (Cdiv vf (Cscale (b_tap br) e)) (Cconj (fst i))), Cscale sn (Cmul vt (Cconj (snd i)))).
Proof.
  intros br e vf vt sn (Hs & Hra & Hxa & Hz & Ht & He).
  exact (flows_pi_circuit br e vf vt sn Hs Hra Hxa Hz Ht He).
Qed.

(* the result columns p/q_hv, p/q_mv, p/q_lv of res_trafo3w computed by stamps + pfsoln + _get_trafo3w_results from
   the three rows are the terminal powers of the star circuit, for all voltages *)
Lemma t3_results_star : forall rh rm rl eh em el vh va vm vl sn,
  row_sym_ok rh eh -> row_sym_ok rm em -> row_sym_ok rl el ->
  let res := t3_results (flows (stamps_core rh eh) vh va sn) (flows (stamps_core rm em) va vm sn)
                        (flows (stamps_core rl el) va vl sn) in
  let '(Sh, Sm, Sl) := star_S sn rh rm rl eh em el vh va vm vl in
  r3_hv res ==c Sh /\ r3_mv res ==c Sm /\ r3_lv res ==c Sl /\ r3_loss res ==c Cadd (Cadd Sh Sm) Sl.
Proof.
  intros rh rm rl eh em el vh va vm vl sn Hh Hm Hl.
  destruct (blk_flows rh eh vh va sn Hh) as [A _]. destruct (blk_flows rm em va vm sn Hm) as [_ B].
  destruct (blk_flows rl el va vl sn Hl) as [_ D]. cbn [fst snd] in A, B, D. cbn zeta in *.
  unfold t3_results, star_S. cbn [r3_hv r3_mv r3_lv r3_loss].
  repeat split; try (apply A); try (apply B); try (apply D); cbn [re im Cadd]; qnorm.
  - destruct A as [A1 _], B as [B1 _], D as [D1 _]. rewrite A1, B1, D1. reflexivity.
  - destruct A as [_ A1], B as [_ B1], D as [_ D1]. rewrite A1, B1, D1. reflexivity.
Qed.
(* T-model block: when the row carries the pi parameters _wye_delta computed from (r, x, g, b, rr, xr), the block currents
   are those of the T circuit (leakage za, zb; magnetising branch yc at the inner node) *)
Lemma row_I_t_model : forall br e vf vt r x g b rr xr,
  (b_r br, b_x br, b_g br, b_b br, b_ga br, b_ba br) = wye_delta_core r x g b rr xr ->
  let za := wd_za r x rr xr in let zb := wd_zb r x rr xr in let yc := mkC g b in
  ~ za ==c C0 -> ~ zb ==c C0 -> ~ yc ==c C0 -> ~ Cadd (Cadd za zb) (Cmul (Cmul za zb) yc) ==c C0 ->
  Ceq2 (row_I br e vf vt) (t_circuit_I za zb yc (Cdiv vf (Cscale (b_tap br) e)) vt).
Proof.
  intros br e vf vt r x g b rr xr Hrow za zb yc Ha Hb Hc Hd.
  pose proof (wye_delta_two_port r x g b rr xr (Cdiv vf (Cscale (b_tap br) e)) vt Ha Hb Hc Hd) as W.
  rewrite <- Hrow in W. exact W.
Qed.

(* the reported losses pl_mw + j ql_mvar: with Kirchhoff's current law at the star point (zero injection at the auxiliary
   bus: the three flows at the star side add up to zero — that is the power-flow solution, an oracle input) they are the
   sum of the losses S_from + S_to of the three star branches *)
Lemma t3_losses_star : forall fh fm fl : C * C,
  Cadd (Cadd (snd fh) (fst fm)) (fst fl) ==c C0 ->
  r3_loss (t3_results fh fm fl) ==c Cadd (Cadd (pl (fst fh) (snd fh)) (pl (fst fm) (snd fm))) (pl (fst fl) (snd fl)).
Proof.
  intros [[ar ai] [br bi]] [[cr ci] [dr di]] [[er ei] [fr fi]]. cbn [fst snd]. intros [K1 K2].
  unfold t3_results, pl. cbn [r3_loss]. revert K1 K2. cunfold. intros K1 K2.
  assert (K : br + cr + er == 0) by (rewrite <- K1; qstrip; reflexivity).
  assert (K' : bi + ci + ei == 0) by (rewrite <- K2; qstrip; reflexivity).
  split; qstrip; lra.
Qed.
(* each branch loss of a series-only block (no magnetising branch: every block except the loss side) is sn |i|^2 z *)
Lemma blk_series_loss : forall z n vf vt sn, ~ z ==c C0 ->
  let i := blk_I z C0 C0 n vf vt in
  Cadd (Cscale sn (Cmul (Cdiv vf n) (Cconj (fst i)))) (Cscale sn (Cmul vt (Cconj (snd i))))
  ==c Cscale (sn * cnorm2 (fst i)) z.
Proof.
  intros [zr zi] n vf vt sn Hz. apply Cnz_norm in Hz. cbn [re im] in Hz. cbn zeta. unfold blk_I. cbn [fst snd].
  set (u := Cdiv vf n). destruct u as [ur ui]. destruct vt as [tr ti].
  cstrip; field; exact Hz.
Qed.

(* every row produced by the transformer pipeline (2W transformers and the three 3W blocks, pi and T model) has a
   symmetric series impedance, the status of the transformer, TAP = nominal ratio and SHIFT = the tap-adjusted shift:
   the structural hypotheses of row_sym_ok are met by construction *)
Lemma trafo_branch_shape : forall sn tm t o vnh vnl shift bh bl row,
  trafo_branch sn tm t o vnh vnl shift bh bl = Ok row ->
  b_ra row = 0 /\ b_xa row = 0 /\ b_stat row = t_in t /\ b_tap row = nominal_ratio vnh vnl bh bl /\ b_shift row = shift.
Proof.
  intros sn tm t o vnh vnl shift bh bl row. unfold trafo_branch.
  destruct (qleb (t_df t) 0); [discriminate|].
  destruct (trafo_rx sn t o vnl bl) as [r x]. destruct (trafo_gb sn t o vnl bl) as [g b].
  destruct tm.
  - destruct (wye_delta r x g b (t_rr t) (t_xr t)) as [[[[[[r' x'] g'] b'] ga] ba]|e]; [|discriminate].
    intros H. injection H as <-. repeat split.
  - intros H. injection H as <-. repeat split.
Qed.

(* the same for the three blocks of a 3W transformer as built by t3_row (vk conversion -> equivalent transformer ->
   tap changer of the block -> 2W pipeline): in service iff the 3W transformer is *)
Lemma t3_row_shape : forall sn tm cva w x o3 blk tpo o bh bl row,
  t3_row sn tm cva w x o3 blk tpo o bh bl = Ok row ->
  b_ra row = 0 /\ b_xa row = 0 /\ b_stat row = w_in w.
Proof.
  intros sn tm cva w x o3 blk tpo o bh bl row. unfold t3_row, bind, with_tap.
  destruct (t3_vk w o3) as [[vk2 vkr2]|e]; [|discriminate]. cbn [fst snd bind].
  destruct (tap_notable _ _ _ _ _) as [[[vnh vnl] [sh|]]|e]; try discriminate.
  intros H. apply trafo_branch_shape in H. destruct H as (A & B & D & _). repeat split; assumption.
Qed.
