(* C02 — the complex numbers of Base/QC.v as a field for the [ring]/[field] tactics (setoid equality ==c).
   Side conditions of [field] are then of the readable form  ~ z ==c C0  for complex denominators. *)
From Coq Require Import ZArith QArith Lqa Setoid Morphisms Ring Field.
From PPV Require Import Base.QN Base.QC C02.CPlain.
Open Scope Q_scope.

Lemma Cnz_norm z : ~ z ==c C0 <-> ~ re z * re z + im z * im z == 0.
Proof.
  split; intros H K; apply H.
  - destruct z as [a b]. unfold Ceq, C0. cbn [re im] in *. split; nra.
  - destruct K as [K1 K2]. cbn [re im C0] in K1, K2. rewrite K1, K2. ring.
Qed.

Lemma C_ring_theory : ring_theory C0 C1 Cadd Cmul Csub Copp Ceq.
Proof.
  constructor; intros; try (cstrip; ring).
Qed.

Lemma C_field_theory : field_theory C0 C1 Cadd Cmul Csub Copp Cdiv Cinv Ceq.
Proof.
  constructor.
  - exact C_ring_theory.
  - intros [H _]. cbn in H. discriminate.
  - intros p q. reflexivity.
  - intros [a b] H. apply Cnz_norm in H. cbn [re im] in H. cstrip; field; exact H.
Qed.

Add Field Cfield : C_field_theory.

Lemma Cscale_mul k a : Cscale k a ==c Cmul (CofQ k) a.
Proof. cstrip; ring. Qed.
Lemma C_eta z : mkC (re z) (im z) ==c z.
Proof. split; reflexivity. Qed.
