(* C02 — one composed statement for the two-winding transformer, trafo_model "pi":
   element parameters -> _calc_branch_values_from_trafo_df row -> makeYbus stamps -> pfsoln flows
   = the documented equivalent circuit in physical units (doc/elements/trafo.rst): ideal transformer with the
   (tap-adjusted) rated voltages vn_hv / vn_lv and the phase shift at the hv side, then on the lv side the series impedance
   Z_k with  Re Z_k = vkr/100 * vn_lv^2/(sn_trafo parallel),  |Z_k| = vk/100 * vn_lv^2/(sn_trafo parallel),  Im Z_k >= 0,
   and the magnetising admittance Y_m with  Re Y_m = pfe_kw/1000 * parallel / vn_lv^2,
   |Y_m| = i0/100 * sn_trafo * parallel / vn_lv^2,  Im Y_m <= 0, half at each end.  Voltages in kV, powers in MVA. *)
From Coq Require Import ZArith QArith List Bool Lia Lqa Setoid Morphisms.
From PPV Require Import Base.QN Base.QC C31.Model C02.Model C02.CPlain C02.CField C02.Proofs.
Open Scope Q_scope.

Lemma trafo_pi_chain : forall sn t o vnh vnl shift bh bl row e vf vt,
  trafo_branch sn false t o vnh vnl shift bh bl = Ok row -> t_in t = true ->
  (* sqrt oracles *)
  0 <= o_x o ->
  o_x o * o_x o == fst (trafo_zr sn t vnl bl) * fst (trafo_zr sn t vnl bl) - snd (trafo_zr sn t vnl bl) * snd (trafo_zr sn t vnl bl) ->
  0 <= o_bm o -> o_bm o * o_bm o == trafo_ym2 t ->
  (* positive ratings and voltages, |e| = 1, non-zero series impedance *)
  0 < t_vk t -> 0 < t_sn t -> 0 < t_par t -> 0 < sn -> 0 < vnl -> 0 < vnh -> 0 < bl -> 0 < bh -> ~ t_vnl0 t == 0 ->
  re e * re e + im e * im e == 1 ->
  exists Zk Ym : C,
    (re Zk == t_vkr t / 100 * (vnl * vnl) / (t_sn t * t_par t) /\ 0 <= im Zk /\
     re Zk * re Zk + im Zk * im Zk == (t_vk t / 100 * (vnl * vnl) / (t_sn t * t_par t)) * (t_vk t / 100 * (vnl * vnl) / (t_sn t * t_par t))) /\
    (re Ym == t_pfe t / 1000 * t_par t / (vnl * vnl) /\ im Ym <= 0 /\
     re Ym * re Ym + im Ym * im Ym == (t_i0 t / 100 * t_sn t * t_par t / (vnl * vnl)) * (t_i0 t / 100 * t_sn t * t_par t / (vnl * vnl))) /\
    Ceq2 (flows (stamps_core row e) vf vt sn)
         (pi_flows_phys2 Zk Zk (Cscale (1 # 2) Ym) (Cscale (1 # 2) Ym)
                         (Cdiv (Cscale (bh * (vnl / vnh)) vf) e) (Cscale bl vt)).
Proof.
  intros sn t o vnh vnl shift bh bl row e vf vt Hrow Hin Hx0 Hx Hb0 Hb Hvk Hts Hp Hsn Hvnl Hvnh Hbl Hbh Hv0 He.
  assert (Hts' : ~ t_sn t == 0) by (intro K; rewrite K in Hts; apply (Qlt_irrefl 0 Hts)).
  assert (Hp' : ~ t_par t == 0) by (intro K; rewrite K in Hp; apply (Qlt_irrefl 0 Hp)).
  assert (Hsn' : ~ sn == 0) by (intro K; rewrite K in Hsn; apply (Qlt_irrefl 0 Hsn)).
  assert (Hvnl' : ~ vnl == 0) by (intro K; rewrite K in Hvnl; apply (Qlt_irrefl 0 Hvnl)).
  assert (Hvnh' : ~ vnh == 0) by (intro K; rewrite K in Hvnh; apply (Qlt_irrefl 0 Hvnh)).
  assert (Hbl' : ~ bl == 0) by (intro K; rewrite K in Hbl; apply (Qlt_irrefl 0 Hbl)).
  assert (Hbh' : ~ bh == 0) by (intro K; rewrite K in Hbh; apply (Qlt_irrefl 0 Hbh)).
  (* z_sc > 0 *)
  assert (Hz : 0 < fst (trafo_zr sn t vnl bl)).
  { unfold trafo_zr, qsq. cbn [fst]. qstrip.
    assert (Hq : 0 < vnl / bl) by (apply Qlt_shift_div_l; [exact Hbl | lra]).
    assert (0 < t_vk t / 100 / t_sn t).
    { apply Qlt_shift_div_l; [exact Hts|]. rewrite Qmult_0_l. apply Qlt_shift_div_l; [reflexivity | lra]. }
    apply Qmult_lt_0_compat; [assumption|]. apply Qmult_lt_0_compat; [|exact Hsn]. apply Qmult_lt_0_compat; assumption. }
  pose proof (trafo_rx_documented sn t o vnl bl Hx Hx0 Hz Hp Hts' Hbl') as RX.
  pose proof (trafo_gb_documented sn t o vnl bl Hb Hb0 Hsn' Hvnl' Hv0) as GB.
  unfold trafo_branch in Hrow. destruct (qleb (t_df t) 0); [discriminate|].
  destruct (trafo_rx sn t o vnl bl) as [r x]. destruct (trafo_gb sn t o vnl bl) as [g b].
  cbn zeta in RX, GB. destruct RX as (Er & Hx1 & Ez). destruct GB as (Eg & Ey & Hbneg).
  injection Hrow as <-. rewrite Hin.
  set (baseZ := bl * bl / sn).
  assert (HbZ : 0 < baseZ) by (unfold baseZ; apply Qlt_shift_div_l; [exact Hsn | nra]).
  assert (HbZ' : ~ baseZ == 0) by (intro K; rewrite K in HbZ; apply (Qlt_irrefl 0 HbZ)).
  exists (Cscale baseZ (mkC r x)), (Cscale (1 / baseZ) (mkC g b)).
  split; [|split].
  - cbn [re im Cscale]. repeat split.
    + qstrip. rewrite Er. unfold baseZ. field. repeat split; assumption.
    + qstrip. nra.
    + transitivity ((r * r + x * x) * (baseZ * baseZ)); [qstrip; ring|]. rewrite Ez. unfold baseZ. field. repeat split; assumption.
  - cbn [re im Cscale]. repeat split.
    + qstrip. rewrite Eg. unfold baseZ. field. repeat split; assumption.
    + qstrip. assert (Hb' : b <= 0) by (apply Hbneg; lra).
      assert (0 < 1 / baseZ) by (apply Qlt_shift_div_l; [exact HbZ | lra]). nra.
    + transitivity ((g * g + b * b) * ((1 / baseZ) * (1 / baseZ))); [qstrip; ring|]. rewrite Ey. unfold baseZ. field. repeat split; assumption.
  - (* the per-unit flows are the physical ones (C02_pu_eq_physical), then the arguments are brought into the documented form *)
    assert (Hnz : ~ r * r + x * x == 0).
    { rewrite Ez. intro K. apply Qmult_integral in K.
      assert (Hk : 0 < t_vk t / 100 * (vnl / bl * (vnl / bl) * sn / t_sn t / t_par t)).
      { assert (Hq : 0 < vnl / bl) by (apply Qlt_shift_div_l; [exact Hbl | lra]).
        apply Qmult_lt_0_compat; [apply Qlt_shift_div_l; [reflexivity | lra]|].
        apply Qlt_shift_div_l; [exact Hp|]. rewrite Qmult_0_l. apply Qlt_shift_div_l; [exact Hts|]. rewrite Qmult_0_l.
        apply Qmult_lt_0_compat; [|exact Hsn]. apply Qmult_lt_0_compat; assumption. }
      destruct K as [K|K]; rewrite K in Hk; apply (Qlt_irrefl 0 Hk). }
    assert (Hratio : ~ nominal_ratio vnh vnl bh bl == 0).
    { unfold nominal_ratio. intro K. assert (K' : vnh / vnl / (bh / bl) == 0) by (rewrite <- K; qstrip; reflexivity).
      apply (div_nz (vnh / vnl) (bh / bl)); [apply div_nz; assumption | apply div_nz; assumption | exact K']. }
    pose proof (pu_eq_phys (mkB r x g b 0 0 0 0 (nominal_ratio vnh vnl bh bl) shift true
                                (match t_maxload t with Some ml => qmul (qmul (qmul (qdiv ml 100) (t_sn t)) (t_df t)) (t_par t) | None => 100 end))
                           e vf vt sn bl) as P.
    cbn [b_r b_x b_g b_b b_ra b_xa b_ga b_ba b_tap b_shift b_stat b_rate] in P.
    assert (Hnz2 : ~ (r + 0) * (r + 0) + (x + 0) * (x + 0) == 0) by (intro K; apply Hnz; rewrite <- K; ring).
    specialize (P eq_refl Hnz Hnz2 Hratio He Hsn' Hbl').
    etransitivity; [exact P|]. fold baseZ.
    apply pi_flows_phys2_proper.
    + reflexivity.
    + cstrip; ring.
    + cstrip; field; exact HbZ'.
    + cstrip; field; exact HbZ'.
    + destruct e as [er ei]. destruct vf as [vfr vfi]. cbn [re im] in He.
      assert (Hn : ~ er * er + ei * ei == 0) by (rewrite He; discriminate).
      unfold nominal_ratio. cstrip; field; repeat split; try assumption;
        try (intro K; apply Hn; rewrite <- K; ring);
        try (apply norm_scale_nz; [apply mul_nz; assumption | exact Hn]).
    + reflexivity.
Qed.

(* ---------------------------------------------------------------- trafo_model "t": the composed statement from the producer
   element parameters -> (r, x) and (g, b) (documented by C02_trafo_rx_documented / C02_trafo_gb_documented) -> _wye_delta
   -> row -> stamps -> flows = S_N v conj(i) of the documented T circuit (hv leakage za = r rr + j x xr, lv leakage
   zb = r (1-rr) + j x (1-xr), magnetising branch g + jb at the inner node) behind the ideal transformer TAP e^{j SHIFT}.
   Whenever _wye_delta returns (does not raise FloatingPointError) all side conditions hold. *)
Lemma czero_eq0 z : z ==c C0 -> czero z = true.
Proof.
  intros [H1 H2]. cbn [re im C0] in *. unfold czero.
  apply qeqb_eq in H1. apply qeqb_eq in H2. rewrite H1, H2. reflexivity.
Qed.
Lemma czero_neq z : czero z = false -> ~ z ==c C0.
Proof. intros H K. rewrite (czero_eq0 z K) in H. discriminate. Qed.
Lemma Cinv_nz y : ~ y ==c C0 -> ~ Cinv y ==c C0.
Proof.
  intros Hy K. assert (E : Cmul y (Cinv y) ==c C1) by (field; exact Hy).
  rewrite K in E. assert (F : Cmul y C0 ==c C0) by ring. rewrite F in E. destruct E as [E _]. cbn in E. discriminate E.
Qed.

Lemma wye_core_rx r x g b rr xr :
  fst (fst (fst (fst (fst (wye_delta_core r x g b rr xr))))) = re (Cdiv (wd_zs r x g b rr xr) (Cinv (mkC g b))) /\
  snd (fst (fst (fst (fst (wye_delta_core r x g b rr xr))))) = im (Cdiv (wd_zs r x g b rr xr) (Cinv (mkC g b))).
Proof. cbv beta zeta delta [wye_delta_core wd_zs fst snd]. split; reflexivity. Qed.

Lemma trafo_t_chain : forall sn t o vnh vnl shift bh bl row e vf vt,
  trafo_branch sn true t o vnh vnl shift bh bl = Ok row -> t_in t = true ->
  ~ (fst (trafo_gb sn t o vnl bl) == 0 /\ snd (trafo_gb sn t o vnl bl) == 0) ->
  ~ nominal_ratio vnh vnl bh bl == 0 -> re e * re e + im e * im e == 1 ->
  let r := fst (trafo_rx sn t o vnl bl) in let x := snd (trafo_rx sn t o vnl bl) in
  let za := wd_za r x (t_rr t) (t_xr t) in let zb := wd_zb r x (t_rr t) (t_xr t) in
  let yc := mkC (fst (trafo_gb sn t o vnl bl)) (snd (trafo_gb sn t o vnl bl)) in
  let vf' := Cdiv vf (Cscale (nominal_ratio vnh vnl bh bl) e) in
  let i := t_circuit_I za zb yc vf' vt in
  b_tap row = nominal_ratio vnh vnl bh bl /\ b_shift row = shift /\
  Ceq2 (flows (stamps_core row e) vf vt sn)
       (Cscale sn (Cmul vf' (Cconj (fst i))), Cscale sn (Cmul vt (Cconj (snd i)))).
Proof.
  intros sn t o vnh vnl shift bh bl row e vf vt Hrow Hin Hgb Hratio He.
  unfold trafo_branch in Hrow. destruct (qleb (t_df t) 0); [discriminate|].
  destruct (trafo_rx sn t o vnl bl) as [r x]. destruct (trafo_gb sn t o vnl bl) as [g b]. cbn [fst snd] in *.
  unfold wye_delta in Hrow.
  assert (Hg : qeqb g 0 && qeqb b 0 = false).
  { destruct (qeqb g 0) eqn:E1; [|reflexivity]. destruct (qeqb b 0) eqn:E2; [|reflexivity].
    exfalso. apply Hgb. split; apply qeqb_eq; assumption. }
  rewrite Hg in Hrow.
  destruct (czero (wd_za r x (t_rr t) (t_xr t))) eqn:Ea; [discriminate|].
  destruct (czero (wd_zb r x (t_rr t) (t_xr t))) eqn:Eb; [discriminate|].
  destruct (czero (wd_zs r x g b (t_rr t) (t_xr t))) eqn:Es; [discriminate|]. cbn [orb] in Hrow.
  destruct (wye_delta_core r x g b (t_rr t) (t_xr t)) as [[[[[r' x'] g'] b'] ga] ba] eqn:Ec.
  injection Hrow as <-. cbn zeta. cbn [b_tap b_shift]. split; [reflexivity|]. split; [reflexivity|].
  apply czero_neq in Ea. apply czero_neq in Eb. apply czero_neq in Es.
  set (za := wd_za r x (t_rr t) (t_xr t)) in *. set (zb := wd_zb r x (t_rr t) (t_xr t)) in *.
  assert (Hyc : ~ mkC g b ==c C0).
  { intros [K1 K2]. cbn [re im C0] in K1, K2. apply Hgb. split; assumption. }
  pose proof (Cinv_nz _ Hyc) as Hzc.
  assert (Ezs : wd_zs r x g b (t_rr t) (t_xr t) ==c Cmul (Cadd (Cadd za zb) (Cmul (Cmul za zb) (mkC g b))) (Cinv (mkC g b))).
  { unfold wd_zs. fold za zb. field. exact Hyc. }
  assert (Hd : ~ Cadd (Cadd za zb) (Cmul (Cmul za zb) (mkC g b)) ==c C0).
  { intro K. apply Es. rewrite Ezs, K. ring. }
  (* the series impedance of the row, zab = zs / zc, is not zero *)
  assert (Hzab : ~ r' * r' + x' * x' == 0).
  { assert (Er : r' = re (Cdiv (wd_zs r x g b (t_rr t) (t_xr t)) (Cinv (mkC g b))) /\
                 x' = im (Cdiv (wd_zs r x g b (t_rr t) (t_xr t)) (Cinv (mkC g b)))).
    { pose proof (wye_core_rx r x g b (t_rr t) (t_xr t)) as W. rewrite Ec in W. cbn [fst snd] in W. exact W. }
    destruct Er as [-> ->]. clear Ec Ezs.
    generalize dependent (wd_zs r x g b (t_rr t) (t_xr t)). intros zs Es.
    generalize dependent (Cinv (mkC g b)). intros zc Hzc.
    apply (proj1 (Cnz_norm (Cdiv zs zc))). intro K. apply Es.
    assert (E : zs ==c Cmul (Cdiv zs zc) zc) by (field; exact Hzc). rewrite E, K. ring. }
  apply (t_model_row_flows (mkB r' x' g' b' 0 0 ga ba (nominal_ratio vnh vnl bh bl) shift (t_in t) _) e vf vt sn r x g b (t_rr t) (t_xr t));
    cbn [b_r b_x b_g b_b b_ra b_xa b_ga b_ba b_tap b_shift b_stat b_rate]; try assumption; try reflexivity.
  symmetry. exact Ec.
Qed.
