(* C02 — run wrapper for the result columns of a three-winding transformer (no proofs): the three equivalent
   branch rows (t3_row of C02/Run.v) -> makeYbus stamps -> pfsoln flows -> _get_trafo3w_results.
   e* = (cos, sin)(SHIFT) of the three rows, vh / vm / vl terminal voltages, va voltage of the auxiliary star bus *)
From Coq Require Import ZArith QArith List Bool String.
From PPV Require Import Base.QN Base.QC Base.Out C31.Model C02.Model C02.Run C02.Model3w.
Import ListNotations.
Open Scope Q_scope.

Definition run_t3_res (rh rm rl : res brow) (eh em el vh va vm vl : C) (sn : Q) : out :=
  match rh, rm, rl with
  | Ok a, Ok b, Ok c =>
      match stamps a eh, stamps b em, stamps c el with
      | Ok ya, Ok yb, Ok yc => ores3w (t3_results (flows ya vh va sn) (flows yb va vm sn) (flows yc va vl sn))
      | _, _, _ => OErr "FloatingPointError"
      end
  | _, _, _ => OErr "row"
  end.

(* residuals of the sqrt oracle o_x of the equivalent transformer of block blk (hypothesis x_orc_ok of
   C02_t3_star_pairwise), with the tap-adjusted vn_lv of that block *)
Definition t3_block_resid (sn : Q) (w : trafo3w) (x : tap3) (o3 : t3_orc) (blk : nat) (tpo : tap_orc) (o : trafo_orc)
                          (baselv : Q) : list Q :=
  match t3_vk w o3 with
  | Ok v =>
      let t := t3_trafo w (fst v) (snd v) blk in
      match tap_notable (tap3_block x blk) tpo (t_vnh0 t) (t_vnl0 t) 0 with
      | Ok (_, vnl, _) => trafo_resid sn t o vnl baselv
      | Raise _ => []
      end
  | Raise _ => []
  end.
