(* C02 — executable definitions added by the deepening round (kept apart from C02/Model.v, which C03 and C31 share):
     results_branch.py _get_trafo3w_results (:457-520): result columns of one three-winding transformer from the
     flows of its three equivalent two-winding branches (block hv: hv bus -> auxiliary star bus; blocks mv / lv:
     auxiliary star bus -> mv / lv bus).  No proofs here. *)
From Coq Require Import ZArith QArith List Bool String.
From PPV Require Import Base.QN Base.QC Base.Out C31.Model C02.Model.
Import ListNotations.
Open Scope Q_scope.

Record res3w := mkR3 {
  r3_hv : C;        (* p_hv_mw + j q_hv_mvar = PF + j QF of block hv            (:466, :475) *)
  r3_mv : C;        (* p_mv_mw + j q_mv_mvar = PT + j QT of block mv            (:467, :476) *)
  r3_lv : C;        (* p_lv_mw + j q_lv_mvar = PT + j QT of block lv            (:468, :477) *)
  r3_loss : C }.    (* pl_mw + j ql_mvar = sum of the three                      (:478-479) *)
(* fh, fm, fl = (S_from, S_to) of the three blocks *)
Definition t3_results (fh fm fl : C * C) : res3w :=
  mkR3 (fst fh) (snd fm) (snd fl)
       (mkC (qadd (qadd (re (fst fh)) (re (snd fm))) (re (snd fl))) (qadd (qadd (im (fst fh)) (im (snd fm))) (im (snd fl)))).
Definition ores3w (r : res3w) : out := OL [oc (r3_hv r); oc (r3_mv r); oc (r3_lv r); oc (r3_loss r)].
