(* C02 — faithful model of the branch side of the power-flow core (shared by C02, C03, C31):
     pandapower/build_branch.py   _calc_line_parameter (:176), _calc_branch_values_from_trafo_df (:406),
        _calc_tap_from_dataframe (:571, non-tabular part :673-699; tabular part = C31/Model.v),
        _calc_nominal_ratio_from_dataframe (:919), _calc_r_x_from_dataframe (:871), _calc_y_from_dataframe (:534),
        _wye_delta (:505), _calc_impedance_parameters_from_dataframe (:994), _calc_xward_parameter (:1034),
        _calc_switch_parameter (:1239), trafo3w star equivalent (:1372-1543)
     pandapower/pypower/makeYbus.py  branch_vectors (:82-113)          pandapower/pypower/makeBdc.py calc_b_from_branch
     pandapower/pypower/pfsoln.py :61-64 (branch flows)                pandapower/results_branch.py (:71-575)
   mode = "pf" (balanced power flow), tdpf off.  Numbers are exact rationals; sqrt / sin / cos / arctan / arcsin
   results are ORACLE INPUTS (records *_orc) passed by the harness; each run wrapper also returns the residuals of
   the defining equations of the oracle values so that the harness validates them.  Executable definitions only. *)
From Coq Require Import ZArith QArith List Bool String.
From PPV Require Import Base.QN Base.QC Base.Out C31.Model.
Import ListNotations.
Open Scope Q_scope.

Definition qsq (x : Q) : Q := qmul x x.
Definition rn (x : option Q) : Q := match x with Some v => v | None => 0 end.     (* _replace_nan(x, 0) *)
Definition qsign (x : Q) : Q := if qltb 0 x then 1 else if qltb x 0 then (-1 # 1) else 0.   (* np.sign *)

(* ---------------------------------------------------------------- ppc branch row (idx_brch) *)
Record brow := mkB {
  b_r : Q; b_x : Q; b_g : Q; b_b : Q;                 (* BR_R BR_X BR_G BR_B *)
  b_ra : Q; b_xa : Q; b_ga : Q; b_ba : Q;             (* BR_R_ASYM BR_X_ASYM BR_G_ASYM BR_B_ASYM *)
  b_tap : Q; b_shift : Q;                             (* TAP, SHIFT (degree) *)
  b_stat : bool; b_rate : Q }.                        (* BR_STATUS, RATE_A *)
Inductive res (A : Type) := Ok (a : A) | Raise (e : string).
Arguments Ok {A}. Arguments Raise {A}.

(* ---------------------------------------------------------------- line (:176-258) *)
Record line := {
  l_r : Q; l_x : Q; l_c : Q; l_g : Q;                 (* r_ohm_per_km x_ohm_per_km c_nf_per_km g_us_per_km *)
  l_len : Q; l_par : Q; l_in : bool;
  l_maxload : option Q;                               (* max_loading_percent; None = column absent *)
  l_maxi : Q; l_df : Q;
  l_temp : option (Q * Q) }.                          (* consider_line_temperature: Some (alpha, temperature_degree_celsius) *)

(* sn = net.sn_mva, fhz = net.f_hz, pi = math.pi, sqrt3 = np.sqrt(3.), basekv = ppc bus BASE_KV of the from bus,
   vnfrom = net.bus.vn_kv of the from bus *)
Definition line_branch (sn fhz pi sqrt3 basekv vnfrom : Q) (l : line) : brow :=
  let baseR := qdiv (qsq basekv) sn in                                                   (* :205 *)
  let r0 := qdiv (qdiv (qmul (l_r l) (l_len l)) baseR) (l_par l) in                       (* :210 *)
  let r := match l_temp l with
           | Some (alpha, T) => qmul r0 (qadd 1 (qmul alpha (qsub T 20)))                (* :237, :1328 *)
           | None => r0 end in
  let x := qdiv (qdiv (qmul (l_x l) (l_len l)) baseR) (l_par l) in                        (* :211 *)
  let b := qmul (qmul (qmul (qmul (qmul (qmul 2 fhz) pi) (l_c l)) (1 # 1000000000)) baseR)
                (qmul (l_len l) (l_par l)) in                                             (* :240 *)
  let g := qmul (qmul (qmul (l_g l) (1 # 1000000)) baseR) (qmul (l_len l) (l_par l)) in   (* :241 *)
  let rate := match l_maxload l with
              | Some ml => qmul (qmul (qmul (qmul (qdiv ml 100) (l_maxi l)) (l_df l)) (l_par l)) (qmul vnfrom sqrt3)   (* :254 *)
              | None => 100 end in
  mkB r x g b 0 0 0 0 1 0 (l_in l) rate.

(* ---------------------------------------------------------------- tap changer, non-tabular (:673-699) *)
Inductive tct := Ratio | Symmetrical | Ideal | OtherT.   (* tap_changer_type; OtherT = None / "Tabular" / anything else *)
Record tapc := {
  tc_side : side;                                     (* tap_side (C31.Model.side) *)
  tc_type : tct;
  tc_diff : option Q;                                 (* tap_pos - tap_neutral, None = NaN *)
  tc_pct : option Q; tc_deg : option Q }.             (* tap_step_percent, tap_step_degree *)
(* oracle values of one transformer's tap computation *)
Record tap_orc := {
  o_c : Q; o_s : Q;                                   (* cos, sin of tap_step_degree (degrees) *)
  o_vn : Q;                                           (* sqrt((u1+du*c)^2 + (du*s)^2) *)
  o_atan : Q;                                         (* rad2deg(arctan(direction*du*s / (u1+du*c))) *)
  o_asin : Q }.                                       (* 2*rad2deg(arcsin(diff*pct/100/2)) *)

(* result: (vnh, vnl, shift); shift None = NaN *)
Definition tap_notable (tc : tapc) (o : tap_orc) (vnh vnl shift : Q) : res (Q * Q * option Q) :=
  match tc_side tc with
  | NoSide => Ok (vnh, vnl, Some shift)
  | sd =>
    let dir := match sd with LV => (-1 # 1) | _ => 1 end in
    match tc_type tc with
    | OtherT => Ok (vnh, vnl, Some shift)
    | Ideal =>
        let degree_is_set := negb (qeqb (rn (tc_deg tc)) 0) in                          (* :678 *)
        let percent_is_set := negb (qeqb (rn (tc_pct tc)) 0) in
        if degree_is_set && percent_is_set then Raise "UserWarning"                     (* :680 *)
        else
          let add := if degree_is_set
                     then match tc_diff tc, tc_deg tc with
                          | Some d, Some g => Some (qmul (qmul dir d) g)                  (* :685 *)
                          | _, _ => None end
                     else match tc_diff tc, tc_pct tc with
                          | Some _, Some _ => Some (qmul dir (o_asin o))                  (* :686 *)
                          | _, _ => None end in
          Ok (vnh, vnl, match add with Some a => Some (qadd shift a) | None => None end)
    | _ (* Ratio, Symmetrical *) =>
        let steps := match tc_pct tc, tc_diff tc with
                     | Some p, Some d => qdiv (qmul p d) 100 | _, _ => 0 end in           (* :690, :693 _replace_nan *)
        let u1 := match sd with HV => vnh | _ => vnl end in
        let du := qmul u1 steps in
        let vn := o_vn o in                                                              (* :694 *)
        Ok (match sd with HV => vn | _ => vnh end, match sd with HV => vnl | _ => vn end,
            Some (qadd shift (o_atan o)))                                                (* :695 *)
    end
  end.
(* the arguments whose sqrt / arctan the oracle stands for (used for the residuals and by the theorems) *)
Definition tap_du (tc : tapc) (vnh vnl : Q) : Q * Q :=     (* (u1, du) *)
  let steps := match tc_pct tc, tc_diff tc with Some p, Some d => qdiv (qmul p d) 100 | _, _ => 0 end in
  let u1 := match tc_side tc with HV => vnh | _ => vnl end in (u1, qmul u1 steps).

(* ---------------------------------------------------------------- 2W transformer data *)
Record trafo := {
  t_vnh0 : Q; t_vnl0 : Q;                             (* vn_hv_kv, vn_lv_kv of the table *)
  t_sn : Q; t_vk : Q; t_vkr : Q; t_pfe : Q; t_i0 : Q; (* sn_mva vk_percent vkr_percent pfe_kw i0_percent (vk/vkr after the table lookup) *)
  t_par : Q; t_df : Q; t_in : bool;
  t_maxload : option Q;
  t_rr : Q; t_xr : Q }.                               (* leakage_resistance_ratio_hv, leakage_reactance_ratio_hv (0.5 if absent) *)
Record trafo_orc := {
  o_x : Q;                                            (* sqrt(z_sc^2 - r_sc^2) *)
  o_bm : Q }.                                         (* sqrt(max(ym^2 - pfe^2, 0)) *)

(* _calc_nominal_ratio_from_dataframe (:919-940) *)
Definition nominal_ratio (vnh vnl basehv baselv : Q) : Q := qdiv (qdiv vnh vnl) (qdiv basehv baselv).

(* _calc_r_x_from_dataframe (:871-916), sequence 1, mode pf.  vnl = tap-adjusted vn_lv, vnlbus = BASE_KV of the lv bus *)
Definition trafo_zr (sn : Q) (t : trafo) (vnl vnlbus : Q) : Q * Q :=       (* (z_sc, r_sc) *)
  let tap_lv := qmul (qsq (qdiv vnl vnlbus)) sn in                                        (* :910 *)
  (qmul (qdiv (qdiv (t_vk t) 100) (t_sn t)) tap_lv, qmul (qdiv (qdiv (t_vkr t) 100) (t_sn t)) tap_lv).
Definition trafo_rx (sn : Q) (t : trafo) (o : trafo_orc) (vnl vnlbus : Q) : Q * Q :=
  let '(z, r) := trafo_zr sn t vnl vnlbus in
  (qdiv r (t_par t), qdiv (qmul (qsign z) (o_x o)) (t_par t)).                           (* :915-916 *)

(* _calc_y_from_dataframe (:534-568), mode pf *)
Definition trafo_ym2 (t : trafo) : Q :=                                   (* b_mva_squared before clipping *)
  qsub (qsq (qmul (qdiv (t_i0 t) 100) (t_sn t))) (qsq (qmul (t_pfe t) (1 # 1000))).
Definition trafo_gb (sn : Q) (t : trafo) (o : trafo_orc) (vnl vnlbus : Q) : Q * Q :=
  let baseZ := qdiv (qsq vnlbus) sn in
  let vnl_sq := qsq (t_vnl0 t) in
  let pfe := qmul (t_pfe t) (1 # 1000) in
  let bm := qopp (o_bm o) in                                                             (* :564 *)
  let k := qsq (qdiv vnl (t_vnl0 t)) in
  (qdiv (qmul (qmul (qdiv pfe vnl_sq) baseZ) (t_par t)) k,                               (* :566 *)
   qdiv (qmul (qmul (qdiv bm vnl_sq) baseZ) (t_par t)) k).                               (* :567 *)

(* _wye_delta (:505-531) on one transformer; complex arithmetic is exact *)
Definition czero (z : C) : bool := qeqb (re z) 0 && qeqb (im z) 0.
Definition wd_za (r x rr xr : Q) : C := mkC (qmul r rr) (qmul x xr).                   (* :513 *)
Definition wd_zb (r x rr xr : Q) : C := mkC (qmul r (qsub 1 rr)) (qmul x (qsub 1 xr)). (* :514 *)
Definition wye_delta_core (r x g b rr xr : Q) : Q * Q * Q * Q * Q * Q :=
  let za := wd_za r x rr xr in
  let zb := wd_zb r x rr xr in
  let zc := Cinv (mkC g b) in                                                            (* :515 *)
  let zs := Cadd (Cadd (Cmul za zb) (Cmul za zc)) (Cmul zb zc) in                        (* :516 *)
  let zab := Cdiv zs zc in
  let zac := Cdiv zs zb in
  let zbc := Cdiv zs za in
  let yf := Cinv zac in
  let yt := Cinv zbc in
  let g2 := qmul (re yf) 2 in
  let b2 := qmul (im yf) 2 in
  (re zab, im zab, g2, b2, qsub (qmul 2 (re yt)) g2, qsub (qmul 2 (im yt)) b2).           (* :520-530 *)
Definition wd_zs (r x g b rr xr : Q) : C :=
  let za := wd_za r x rr xr in let zb := wd_zb r x rr xr in let zc := Cinv (mkC g b) in
  Cadd (Cadd (Cmul za zb) (Cmul za zc)) (Cmul zb zc).
Definition wye_delta (r x g b rr xr : Q) : res (Q * Q * Q * Q * Q * Q) :=   (* r x g b g_asym b_asym *)
  if qeqb g 0 && qeqb b 0 then Ok (r, x, g, b, 0, 0)                                     (* tidx false *)
  else if czero (wd_za r x rr xr) || czero (wd_zb r x rr xr) || czero (wd_zs r x g b rr xr)
  then Raise "FloatingPointError"                                                        (* np.errstate(all="raise") *)
  else Ok (wye_delta_core r x g b rr xr).

(* _calc_branch_values_from_trafo_df + _calc_trafo_parameter for one transformer, given the tap-adjusted
   (vnh, vnl, shift) of _calc_tap_from_dataframe.  tmodel_t = (trafo_model == "t") *)
Definition trafo_branch (sn : Q) (tmodel_t : bool) (t : trafo) (o : trafo_orc)
                        (vnh vnl shift basehv baselv : Q) : res brow :=
  if qleb (t_df t) 0 then Raise "UserWarning"                                            (* :383 *)
  else
    let ratio := nominal_ratio vnh vnl basehv baselv in
    let '(r, x) := trafo_rx sn t o vnl baselv in
    let '(g, b) := trafo_gb sn t o vnl baselv in
    let rate := match t_maxload t with
                | Some ml => qmul (qmul (qmul (qdiv ml 100) (t_sn t)) (t_df t)) (t_par t)   (* :392 *)
                | None => 100 end in
    if tmodel_t then
      match wye_delta r x g b (t_rr t) (t_xr t) with
      | Ok (r', x', g', b', ga, ba) => Ok (mkB r' x' g' b' 0 0 ga ba ratio shift (t_in t) rate)
      | Raise e => Raise e
      end
    else Ok (mkB r x g b 0 0 0 0 ratio shift (t_in t) rate).

(* ---------------------------------------------------------------- impedance (:994-1031, :943-959) *)
Record imped := { i_rft : Q; i_xft : Q; i_rtf : Q; i_xtf : Q; i_gf : Q; i_bf : Q; i_gt : Q; i_bt : Q;
                  i_sn : Q; i_in : bool }.
Definition impedance_branch (sn : Q) (i : imped) : brow :=
  let f := fun v => qmul (qdiv v (i_sn i)) sn in                                         (* :1017 *)
  let h := fun v => qdiv (qmul (qmul 2 v) (i_sn i)) sn in                                (* :1023 *)
  let rf := f (i_rft i) in let xf := f (i_xft i) in
  let gf := h (i_gf i) in let bf := h (i_bf i) in
  mkB rf xf gf bf (qsub (f (i_rtf i)) rf) (qsub (f (i_xtf i)) xf) (qsub (h (i_gt i)) gf) (qsub (h (i_bt i)) bf)
      1 0 (i_in i) (i_sn i).

(* ---------------------------------------------------------------- xward internal branch (:1034-1045) *)
Definition xward_branch (sn basekv r_ohm x_ohm : Q) (is : bool) : brow :=
  let baseR := qdiv (qsq basekv) sn in
  mkB (qdiv r_ohm baseR) (qdiv x_ohm baseR) 0 0 0 0 0 0 1 0 is 0.

(* ---------------------------------------------------------------- impedance bus-bus switch (:1239-1268) *)
(* o_q = np.sqrt(1 + rx_ratio**2) *)
Definition switch_branch (sn basekv z_ohm rx o_q : Q) : brow :=
  let baseR := qdiv (qsq basekv) sn in
  mkB (qmul (qdiv z_ohm baseR) (qdiv rx o_q)) (qmul (qdiv z_ohm baseR) (qdiv 1 o_q)) 0 0 0 0 0 0 1 0 true 0.

(* ---------------------------------------------------------------- trafo3w star equivalent (:1372-1543) *)
Record trafo3w := {
  w_vn : Q * Q * Q;                                   (* vn_hv_kv, vn_mv_kv, vn_lv_kv *)
  w_sn : Q * Q * Q;                                   (* sn_hv_mva, sn_mv_mva, sn_lv_mva *)
  w_vk : Q * Q * Q; w_vkr : Q * Q * Q;                (* vk_hv/mv/lv_percent, vkr_hv/mv/lv_percent (after the table lookup) *)
  w_pfe : Q; w_i0 : Q;
  w_shift : Q * Q;                                    (* shift_mv_degree, shift_lv_degree *)
  w_in : bool; w_maxload : option Q;
  w_loss : nat }.                                     (* loss side: 0 hv, 1 mv, 2 lv, 3 star (none of the three branches) *)
Record t3_orc := {
  o_vki_d : Q * Q * Q;                                (* sqrt(vk_2w_delta^2 - vkr_2w_delta^2), three values *)
  o_vk2 : Q * Q * Q }.                                (* sqrt(vki_2w^2 + vkr_2w^2), three values *)
Definition qmin2 (a b : Q) : Q := if qltb b a then b else a.
Definition t3map (f : Q -> Q) (v : Q * Q * Q) : Q * Q * Q := let '(a, b, c) := v in (f a, f b, f c).
(* z_br_to_bus_vector (:1496) *)
Definition z_br_to_bus (z s : Q * Q * Q) : Q * Q * Q :=
  let '(z0, z1, z2) := z in let '(s0, s1, s2) := s in
  (qmul s0 (qdiv z0 (qmin2 s0 s1)), qmul s0 (qdiv z1 (qmin2 s1 s2)), qmul s0 (qdiv z2 (qmin2 s0 s2))).
(* wye_delta_vector (:1507) *)
Definition wye_delta_vec (z s : Q * Q * Q) : Q * Q * Q :=
  let '(z0, z1, z2) := z in let '(s0, s1, s2) := s in
  let h := fun sk v => qmul (qdiv (qmul (1 # 2) sk) s0) v in
  (h s0 (qsub (qadd z0 z2) z1), h s1 (qsub (qadd z1 z0) z2), h s2 (qsub (qadd z2 z1) z0)).
(* _calculate_sc_voltages_of_equivalent_transformers (:1428-1467), mode pf: (vk_2w, vkr_2w) per branch *)
Definition t3_vk (w : trafo3w) (o : t3_orc) : res ((Q * Q * Q) * (Q * Q * Q)) :=
  let vkr_d := z_br_to_bus (w_vkr w) (w_sn w) in
  let vkr2 := wye_delta_vec vkr_d (w_sn w) in
  let vki2 := wye_delta_vec (o_vki_d o) (w_sn w) in
  let '(i0, i1, i2) := vki2 in let '(k0, k1, k2) := o_vk2 o in
  let vk2 := (qmul (qsign i0) k0, qmul (qsign i1) k1, qmul (qsign i2) k2) in             (* :1462 *)
  let '(a, b, c) := vk2 in
  if qeqb a 0 || qeqb b 0 || qeqb c 0 then Raise "UserWarning" else Ok (vk2, vkr2).      (* :1463 *)
Definition t3_vk_delta (w : trafo3w) : (Q * Q * Q) * (Q * Q * Q) :=      (* (vk_2w_delta, vkr_2w_delta) *)
  (z_br_to_bus (w_vk w) (w_sn w), z_br_to_bus (w_vkr w) (w_sn w)).

(* _calculate_3w_tap_changers (:1513-1543): the tap changer of the 3W transformer as seen by the equivalent
   2W transformer of block blk (0 hv, 1 mv, 2 lv).  wside = tap_side (0/1/2, other = none) *)
Record tap3 := { x_side : nat; x_star : bool; x_type : tct; x_pos : option Q; x_neutral : option Q;
                 x_pct : option Q; x_deg : option Q }.
Definition qabs' (x : Q) : Q := if qltb x 0 then qopp x else x.
(* star_deg: how a NaN tap_step_degree enters t = pct * exp(j deg) at the star point.
   After the repair "trafo3w tap changer at the star point works when tap_step_degree is not set" it counts as 0
   (np.nan_to_num, :1542); before it made t, hence the corrected tap_step_percent, NaN ([tap3_block_old]). *)
Definition tap3_block_gen (nan_deg_is_zero : bool) (x : tap3) (blk : nat) : tapc :=
  if Nat.eqb (x_side x) blk then
    let diff := match x_pos x, x_neutral x with Some p, Some n => Some (qsub p n) | _, _ => None end in
    if x_star x then
      (* t = pct * exp(j deg); t_corrected = 100 t / (100 + t diff); |.| and angle-180  (:1540-1549).
         modelled for tap_step_degree = 0 / NaN (t real); other angles -> the harness does not generate them *)
      match (if nan_deg_is_zero then Some (rn (x_deg x)) else x_deg x), x_pct x, diff with
      | Some _, Some p, Some d =>
          let tcor := qdiv (qmul 100 p) (qadd 100 (qmul p d)) in
          {| tc_side := match blk with O => LV | _ => HV end; tc_type := x_type x; tc_diff := diff;
             tc_pct := Some (qabs' tcor);
             tc_deg := Some (qsub (if qltb tcor 0 then 180 else 0) 180) |}
      | _, _, _ =>
          {| tc_side := match blk with O => LV | _ => HV end; tc_type := x_type x; tc_diff := diff;
             tc_pct := None; tc_deg := None |}
      end
    else
      {| tc_side := match blk with O => HV | _ => LV end; tc_type := x_type x; tc_diff := diff;
         tc_pct := x_pct x; tc_deg := x_deg x |}
  else {| tc_side := NoSide; tc_type := x_type x; tc_diff := None; tc_pct := None; tc_deg := None |}.
Definition tap3_block := tap3_block_gen true.
Definition tap3_block_old := tap3_block_gen false.

(* the equivalent 2W transformer of block blk (_trafo_df_from_trafo3w :1372-1425) *)
Definition pick (blk : nat) (v : Q * Q * Q) : Q := let '(a, b, c) := v in match blk with O => a | S O => b | _ => c end.
Definition t3_trafo (w : trafo3w) (vk2 vkr2 : Q * Q * Q) (blk : nat) : trafo :=
  {| t_vnh0 := pick 0 (w_vn w); t_vnl0 := pick blk (w_vn w);
     t_sn := pick blk (w_sn w); t_vk := pick blk vk2; t_vkr := pick blk vkr2;
     t_pfe := if Nat.eqb (w_loss w) blk then w_pfe w else 0;
     t_i0 := if Nat.eqb (w_loss w) blk then w_i0 w else 0;
     t_par := 1; t_df := 1; t_in := w_in w; t_maxload := w_maxload w; t_rr := 1 # 2; t_xr := 1 # 2 |}.
Definition t3_shift (cva : bool) (w : trafo3w) (blk : nat) : Q :=
  if cva then match blk with O => 0 | S O => fst (w_shift w) | _ => snd (w_shift w) end else 0.

(* ---------------------------------------------------------------- makeYbus branch_vectors (:82-113) *)
(* e = (cos, sin) of SHIFT*pi/180 (oracle).  Returns (Yff, Yft, Ytf, Ytt); Raise when a series impedance is 0 *)
Definition stamps_core (br : brow) (e : C) : C * C * C * C :=
  let stat := if b_stat br then 1 else 0 in
  let zs := mkC (b_r br) (b_x br) in
  let zt := mkC (qadd (b_r br) (b_ra br)) (qadd (b_x br) (b_xa br)) in
  let ysf := Cscale stat (Cinv zs) in                                                    (* :84 *)
  let yst := Cscale stat (Cinv zt) in                                                    (* :86 (== Ysf when asym = 0) *)
  let bcf := Cscale stat (mkC (b_g br) (b_b br)) in                                      (* :91 *)
  let bct := Cscale stat (mkC (qadd (b_g br) (b_ga br)) (qadd (b_b br) (b_ba br))) in    (* :93 *)
  let tapm := if qeqb (b_tap br) 0 then 1 else b_tap br in                               (* :98-100 *)
  let tap := Cscale tapm e in                                                            (* :101 *)
  let ytt := Cadd yst (Cscale (1 # 2) bct) in                                            (* :103 *)
  let yff := Cdiv (Cadd ysf (Cscale (1 # 2) bcf)) (Cmul tap (Cconj tap)) in              (* :104 *)
  let yft := Copp (Cdiv ysf (Cconj tap)) in                                              (* :105 *)
  let ytf := Copp (Cdiv yst tap) in                                                      (* :106 *)
  (yff, yft, ytf, ytt).
Definition stamps (br : brow) (e : C) : res (C * C * C * C) :=
  if czero (mkC (b_r br) (b_x br)) || czero (mkC (qadd (b_r br) (b_ra br)) (qadd (b_x br) (b_xa br)))
  then Raise "FloatingPointError"                                                        (* errstate(all="raise"): stat / 0 *)
  else Ok (stamps_core br e).

(* pfsoln :61-64  Sf = Vf conj(Yff Vf + Yft Vt) baseMVA, St = Vt conj(Ytf Vf + Ytt Vt) baseMVA *)
Definition flows (y : C * C * C * C) (vf vt : C) (sn : Q) : C * C :=
  let '(yff, yft, ytf, ytt) := y in
  (Cscale sn (Cmul vf (Cconj (Cadd (Cmul yff vf) (Cmul yft vt)))),
   Cscale sn (Cmul vt (Cconj (Cadd (Cmul ytf vf) (Cmul ytt vt))))).

(* ---------------------------------------------------------------- results_branch.py *)
(* _get_branch_flows (:71-77): s = sqrt(p^2+q^2) (oracle), i = s / (vm * base_kv) / sqrt(3) *)
Definition i_ka (s vm basekv sqrt3 : Q) : Q := qdiv (qdiv s (qmul vm basekv)) sqrt3.
Definition pl (sf st : C) : C := Cadd sf st.                                             (* :115-116, :316-317, :550-551 *)
(* line loading (:122-148): i_ka = max(i_from, i_to); i_max = max_i_ka*df*parallel; loading = i_ka / i_max * 100 (inf if i_max = 0) *)
Definition line_loading (ifrom ito : Q) (l : line) : option Q * Q :=
  let ik := qmax ifrom ito in
  let imax := qmul (qmul (l_maxi l) (l_df l)) (l_par l) in
  (if qeqb imax 0 then None else Some (qmul (qdiv ik imax) 100), ik).
(* trafo loading (:326-343) *)
Definition trafo_loading (current : bool) (ihv ilv shv slv sqrt3 : Q) (t : trafo) : Q :=
  let ld := if current
            then qmax (qmul (qdiv (qmul (qmul ihv (t_vnh0 t)) sqrt3) (t_sn t)) 100)
                      (qmul (qdiv (qmul (qmul ilv (t_vnl0 t)) sqrt3) (t_sn t)) 100)        (* :330-332 *)
            else qmax (qmul (qdiv shv (t_sn t)) 100) (qmul (qdiv slv (t_sn t)) 100) in     (* :335 *)
  qdiv (qdiv ld (t_par t)) (t_df t).                                                     (* :343 *)
(* trafo3w loading (:490-504) *)
Definition trafo3w_loading (current : bool) (i s : Q * Q * Q) (sqrt3 : Q) (w : trafo3w) : Q :=
  let '(i0, i1, i2) := i in let '(s0, s1, s2) := s in
  let '(v0, v1, v2) := w_vn w in let '(n0, n1, n2) := w_sn w in
  if current
  then qmax (qmax (qmul (qdiv (qmul (qmul i0 v0) sqrt3) n0) 100) (qmul (qdiv (qmul (qmul i1 v1) sqrt3) n1) 100))
            (qmul (qdiv (qmul (qmul i2 v2) sqrt3) n2) 100)
  else qmax (qmax (qmul (qdiv s0 n0) 100) (qmul (qdiv s1 n1) 100)) (qmul (qdiv s2 n2) 100).

(* ---------------------------------------------------------------- DC model: makeBdc / _run_dc_pf *)
(* calc_b_from_branch: b = stat / x / tap;  Pfinj = b * (-shift*pi/180);  PF = (b*(va_f - va_t) + Pfinj) * baseMVA; PT = -PF
   va in radians (= bus VA * pi/180) *)
Definition dc_b (br : brow) : res Q :=
  if qeqb (b_x br) 0 then Raise "FloatingPointError"
  else Ok (qdiv (qdiv (if b_stat br then 1 else 0) (b_x br)) (if qeqb (b_tap br) 0 then 1 else b_tap br)).
Definition dc_flow (b shift pi vaf vat sn : Q) : Q * Q :=
  let pfinj := qmul b (qdiv (qmul (qopp shift) pi) 180) in
  let pf := qmul (qadd (qmul b (qsub vaf vat)) pfinj) sn in
  (pf, qopp pf).

(* ================================================================ SPEC: documented element models, physical units
   (doc/elements/line.rst, trafo.rst, impedance.rst).  kV, kA, Ohm, Siemens, MVA; voltages are line-to-line phasors. *)
(* pi section with series impedance z [Ohm], shunt admittances yf, yt [S] at the two ends; three-phase powers
   S = U conj(I) sqrt3 with I = (U/sqrt3) Y  =>  S = U conj(Y U)  [kV^2 S = MVA] *)
Definition pi_flows_phys (z yf yt uf ut : C) : C * C :=
  let ys := Cinv z in
  (Cmul uf (Cconj (Cadd (Cmul (Cadd ys yf) uf) (Copp (Cmul ys ut)))),
   Cmul ut (Cconj (Cadd (Cmul (Cadd ys yt) ut) (Copp (Cmul ys uf))))).
(* line: Z = (r' + j x') l / parallel;  Y = (g' 1e-6 + j 2 pi f c' 1e-9) l parallel, half at each end *)
Definition line_z_phys (l : line) : C :=
  let rt := match l_temp l with Some (alpha, T) => qmul (l_r l) (qadd 1 (qmul alpha (qsub T 20))) | None => l_r l end in
  mkC (qdiv (qmul rt (l_len l)) (l_par l)) (qdiv (qmul (l_x l) (l_len l)) (l_par l)).
Definition line_y_phys (fhz pi : Q) (l : line) : C :=
  mkC (qmul (qmul (qmul (l_g l) (1 # 1000000)) (l_len l)) (l_par l))
      (qmul (qmul (qmul (qmul (qmul (qmul 2 pi) fhz) (l_c l)) (1 # 1000000000)) (l_len l)) (l_par l)).
Definition line_flows_phys (fhz pi : Q) (l : line) (uf ut : C) : C * C :=
  let yh := Cscale (1 # 2) (line_y_phys fhz pi l) in
  pi_flows_phys (line_z_phys l) yh yh uf ut.

(* ---------------------------------------------------------------- output helpers *)
Definition obrow (b : brow) : out :=
  OL [oq (b_r b); oq (b_x b); oq (b_g b); oq (b_b b); oq (b_ra b); oq (b_xa b); oq (b_ga b); oq (b_ba b);
      oq (b_tap b); oq (b_shift b); OB (b_stat b); oq (b_rate b)].
Definition ores {A} (f : A -> out) (r : res A) : out := match r with Ok a => f a | Raise e => OErr e end.
Definition ostamps (y : C * C * C * C) : out := let '(a, b, c, d) := y in OL [oc a; oc b; oc c; oc d].
Definition oflows (s : C * C) : out := OL [oc (fst s); oc (snd s)].
