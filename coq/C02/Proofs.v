(* C02 — proofs about the branch model (C02/Model.v): the per-unit pipeline of build_branch.py + makeYbus + pfsoln
   equals the documented equivalent circuits in physical units. *)
From Coq Require Import ZArith QArith List Bool Lia Lqa Setoid Morphisms.
From PPV Require Import Base.QN Base.QC C31.Model C02.Model C02.CPlain C02.CField.
Open Scope Q_scope.

(* ---------------------------------------------------------------- small helpers *)
Lemma mul_nz a b : ~ a == 0 -> ~ b == 0 -> ~ a * b == 0.
Proof. intros Ha Hb K. apply Qmult_integral in K. tauto. Qed.
Lemma div_nz a b : ~ a == 0 -> ~ b == 0 -> ~ a / b == 0.
Proof. intros Ha Hb. unfold Qdiv. apply mul_nz; [exact Ha|]. intro K. apply Hb.
  rewrite <- (Qinv_involutive b), K. reflexivity. Qed.
Lemma norm_scale_nz k r x : ~ k == 0 -> ~ r * r + x * x == 0 -> ~ (k * r) * (k * r) + (k * x) * (k * x) == 0.
Proof.
  intros Hk Hz K. apply Hz. apply (Qmult_integral_l (k * k)); [apply mul_nz; assumption|].
  rewrite <- K. ring.
Qed.
Lemma norm_sq_nz a b : ~ a * a + b * b == 0 ->
  ~ (a * a - b * - b) * (a * a - b * - b) + (a * - b + b * a) * (a * - b + b * a) == 0.
Proof. intros H K. apply H. nra. Qed.
Lemma norm_conj_nz a b : ~ a * a + b * b == 0 -> ~ a * a + - b * - b == 0.
Proof. intros H K. apply H. rewrite <- K. ring. Qed.
Lemma qeqb_false x y : ~ x == y -> qeqb x y = false.
Proof. intros H. destruct (qeqb x y) eqn:E; [apply qeqb_eq in E; contradiction | reflexivity]. Qed.
Lemma czero_false z : ~ re z * re z + im z * im z == 0 -> czero z = false.
Proof.
  intros H. unfold czero. destruct (qeqb (re z) 0) eqn:E1; [|reflexivity].
  destruct (qeqb (im z) 0) eqn:E2; [|reflexivity].
  apply qeqb_eq in E1. apply qeqb_eq in E2. exfalso. apply H. rewrite E1, E2. ring.
Qed.

Definition Ceq2 (a b : C * C) : Prop := fst a ==c fst b /\ snd a ==c snd b.
Global Instance Ceq2_equiv : Equivalence Ceq2.
Proof.
  split.
  - intros a; split; reflexivity.
  - intros a b [H1 H2]; split; symmetry; assumption.
  - intros a b c [H1 H2] [H3 H4]; split; etransitivity; eassumption.
Qed.

Ltac brow_intro :=
  intros [r x g b ra xa ga ba tap shift stat rate];
  cbn [b_r b_x b_g b_b b_ra b_xa b_ga b_ba b_tap b_shift b_stat b_rate].
Ltac brow_cbn := cbn [b_r b_x b_g b_b b_ra b_xa b_ga b_ba b_tap b_shift b_stat b_rate fst snd].

(* ---------------------------------------------------------------- T: tap_stamps
   the four stamps of makeYbus are an ideal transformer with complex ratio n = TAP * e^{j SHIFT} at the from
   side in series with a pi two-port (series admittances ysf / yst seen from the two ends, shunts at both ends) *)
Definition twoport_I (ysf yst yshf ysht n vf vt : C) : C * C :=
  let vf' := Cdiv vf n in                              (* voltage behind the ideal transformer *)
  (Cdiv (Csub (Cmul (Cadd ysf yshf) vf') (Cmul ysf vt)) (Cconj n),      (* I_f = I_f' / conj(n) *)
   Csub (Cmul (Cadd yst ysht) vt) (Cmul yst vf')).

Lemma tap_unit_nz tap er ei : ~ tap == 0 -> er * er + ei * ei == 1 ->
  ~ tap * er * (tap * er) + tap * ei * (tap * ei) == 0.
Proof.
  intros Ht He K. apply Ht. assert (K2 : tap * tap * (er * er + ei * ei) == 0) by (rewrite <- K; ring).
  rewrite He in K2. nra.
Qed.

Lemma stamps_twoport : forall br e vf vt,
  b_stat br = true ->
  ~ (b_r br) * (b_r br) + (b_x br) * (b_x br) == 0 ->
  ~ (b_r br + b_ra br) * (b_r br + b_ra br) + (b_x br + b_xa br) * (b_x br + b_xa br) == 0 ->
  ~ b_tap br == 0 ->
  re e * re e + im e * im e == 1 ->
  let y := stamps_core br e in
  let '(yff, yft, ytf, ytt) := y in
  Ceq2 (Cadd (Cmul yff vf) (Cmul yft vt), Cadd (Cmul ytf vf) (Cmul ytt vt))
       (twoport_I (Cinv (mkC (b_r br) (b_x br)))
                  (Cinv (mkC (b_r br + b_ra br) (b_x br + b_xa br)))
                  (Cscale (1#2) (mkC (b_g br) (b_b br)))
                  (Cscale (1#2) (mkC (b_g br + b_ga br) (b_b br + b_ba br)))
                  (Cscale (b_tap br) e) vf vt).
Proof.
  brow_intro. intros [er ei] [vfr vfi] [vtr vti]. cbn [re im].
  intros Hs Hz Hzt Ht He. subst stat.
  unfold stamps_core, Ceq2, twoport_I. brow_cbn. rewrite (qeqb_false _ _ Ht).
  pose proof (tap_unit_nz tap er ei Ht He) as Hn.
  split; cstrip; field; repeat split; try assumption; try (apply norm_sq_nz; assumption); try (apply norm_conj_nz; assumption).
Qed.

(* ---------------------------------------------------------------- generic per-unit = physical units *)
(* pi two-port in physical units (kV, Ohm, S, MVA): series impedances zf / zt seen from the two ends, shunt
   admittances yf / yt at the ends; three-phase complex powers flowing into the two-port *)
Definition pi_flows_phys2 (zf zt yf yt uf ut : C) : C * C :=
  (Cmul uf (Cconj (Csub (Cmul (Cadd (Cinv zf) yf) uf) (Cmul (Cinv zf) ut))),
   Cmul ut (Cconj (Csub (Cmul (Cadd (Cinv zt) yt) ut) (Cmul (Cinv zt) uf)))).

Global Instance pi_flows_phys2_proper :
  Proper (Ceq ==> Ceq ==> Ceq ==> Ceq ==> Ceq ==> Ceq ==> Ceq2) pi_flows_phys2.
Proof.
  intros a a' Ha b b' Hb c c' Hc d d' Hd e e' He f f' Hf. unfold pi_flows_phys2, Ceq2. cbn [fst snd].
  rewrite Ha, Hb, Hc, Hd, He, Hf. split; reflexivity.
Qed.

(* the flows computed by makeYbus + pfsoln from a ppc branch row are those of: an ideal transformer TAP*e at the
   from side, then the pi circuit with  Z = z_pu * baseR,  Y = y_pu / baseR,  baseR = base^2 / sn,
   base = BASE_KV of the to side, voltages in kV *)
Lemma pu_eq_phys : forall br e vf vt sn base,
  b_stat br = true ->
  ~ (b_r br) * (b_r br) + (b_x br) * (b_x br) == 0 ->
  ~ (b_r br + b_ra br) * (b_r br + b_ra br) + (b_x br + b_xa br) * (b_x br + b_xa br) == 0 ->
  ~ b_tap br == 0 -> re e * re e + im e * im e == 1 -> ~ sn == 0 -> ~ base == 0 ->
  Ceq2 (flows (stamps_core br e) vf vt sn)
       (pi_flows_phys2 (Cscale (base * base / sn) (mkC (b_r br) (b_x br)))
                       (Cscale (base * base / sn) (mkC (b_r br + b_ra br) (b_x br + b_xa br)))
                       (Cscale (1 / (2 * (base * base / sn))) (mkC (b_g br) (b_b br)))
                       (Cscale (1 / (2 * (base * base / sn))) (mkC (b_g br + b_ga br) (b_b br + b_ba br)))
                       (Cscale base (Cdiv vf (Cscale (b_tap br) e))) (Cscale base vt)).
Proof.
  brow_intro. intros [er ei] [vfr vfi] [vtr vti] sn base. cbn [re im].
  intros Hs Hz Hzt Ht He Hsn Hb. subst stat.
  unfold Ceq2, flows, stamps_core, pi_flows_phys2. brow_cbn. rewrite (qeqb_false _ _ Ht).
  pose proof (tap_unit_nz tap er ei Ht He) as Hn.
  assert (Hbb : ~ base * base == 0) by (apply mul_nz; assumption).
  split; cstrip; field; repeat split; try assumption; try (apply norm_sq_nz; assumption);
    try (apply norm_scale_nz; assumption); try (apply norm_conj_nz; assumption).
Qed.

(* with stamps: the impl does not raise under the same side conditions *)
Lemma stamps_ok : forall br e,
  ~ (b_r br) * (b_r br) + (b_x br) * (b_x br) == 0 ->
  ~ (b_r br + b_ra br) * (b_r br + b_ra br) + (b_x br + b_xa br) * (b_x br + b_xa br) == 0 ->
  stamps br e = Ok (stamps_core br e).
Proof.
  intros br e H1 H2. unfold stamps.
  rewrite (czero_false (mkC (b_r br) (b_x br)) H1).
  rewrite czero_false; [reflexivity|]. cbn [re im]. unfold qadd. rewrite !Qred_correct. exact H2.
Qed.

(* ---------------------------------------------------------------- T: line_pu_eq_physical *)
Ltac nz_scaled H k :=
  let K := fresh "K" in (intro K; apply H; apply (Qmult_integral_l k); try (rewrite <- K; ring)).
Ltac line_cbn := cbn [l_r l_x l_c l_g l_len l_par l_in l_maxload l_maxi l_df l_temp re im].

Lemma cnorm2_div_nz R X p : ~ p == 0 -> ~ cnorm2 (mkC (qdiv R p) (qdiv X p)) == 0 -> ~ R * R + X * X == 0.
Proof.
  intros Hp H K. apply H. cunfold. qstrip.
  transitivity ((R * R + X * X) / (p * p)); [field; exact Hp | rewrite K; field; exact Hp].
Qed.

(* terminal powers [MW, Mvar] computed through line_branch -> makeYbus stamps -> pfsoln flows from the per-unit
   voltages equal those of the documented pi circuit  Z = (r'+jx') l / parallel [Ohm],
   Y = (g' 1e-6 + j 2 pi f c' 1e-9) l parallel [S]  on the voltages in kV (U = v * BASE_KV); sn_mva cancels *)
Lemma line_pu_eq_physical : forall sn fhz pi sqrt3 base vnfrom l vf vt,
  l_in l = true -> ~ sn == 0 -> ~ base == 0 -> ~ l_par l == 0 ->
  ~ cnorm2 (line_z_phys l) == 0 ->
  Ceq2 (flows (stamps_core (line_branch sn fhz pi sqrt3 base vnfrom l) C1) vf vt sn)
       (line_flows_phys fhz pi l (Cscale base vf) (Cscale base vt)).
Proof.
  intros sn fhz pi sqrt3 base vnfrom [r x c g len par ins ml mi df [[al T]|]] [vfr vfi] [vtr vti];
  unfold line_z_phys; line_cbn; intros Hin Hsn Hb Hp Hz; subst ins;
  apply (cnorm2_div_nz _ _ _ Hp) in Hz;
  unfold Ceq2, flows, stamps_core, line_branch, line_flows_phys, pi_flows_phys, line_z_phys, line_y_phys, qsq;
  line_cbn; brow_cbn; replace (qeqb 1 0) with false by reflexivity.
  - assert (Hz' : ~ r * (1 + al * (T - 20)) * len * (r * (1 + al * (T - 20)) * len) + x * len * (x * len) == 0).
    { intro K. apply Hz. unfold qmul, qadd, qsub. rewrite !Qred_correct. exact K. }
    split; cstrip; field; repeat split; try assumption; nz_scaled Hz' (sn * sn); apply mul_nz; assumption.
  - assert (Hz' : ~ r * len * (r * len) + x * len * (x * len) == 0).
    { intro K. apply Hz. unfold qmul. rewrite !Qred_correct. exact K. }
    split; cstrip; field; repeat split; try assumption; nz_scaled Hz' (sn * sn); apply mul_nz; assumption.
Qed.

Lemma line_stamps_ok : forall sn fhz pi sqrt3 base vnfrom l e,
  ~ b_r (line_branch sn fhz pi sqrt3 base vnfrom l) * b_r (line_branch sn fhz pi sqrt3 base vnfrom l) +
    b_x (line_branch sn fhz pi sqrt3 base vnfrom l) * b_x (line_branch sn fhz pi sqrt3 base vnfrom l) == 0 ->
  stamps (line_branch sn fhz pi sqrt3 base vnfrom l) e = Ok (stamps_core (line_branch sn fhz pi sqrt3 base vnfrom l) e).
Proof.
  intros. apply stamps_ok; [assumption|]. unfold line_branch in *. brow_cbn. cbn [b_r b_x b_ra b_xa] in H.
  intro K. apply H. rewrite <- K. ring.
Qed.

(* ---------------------------------------------------------------- T: impedance_pu_eq_documented
   doc/elements/impedance.rst:  z_ft = (rft_pu + j xft_pu) S_N / sn_mva,  z_tf likewise,  y_f = (gf + j bf) sn_mva / S_N;
   powers S = S_N v conj(i) *)
Definition imp_doc_flows (sn : Q) (i : imped) (vf vt : C) : C * C :=
  let k := sn / i_sn i in
  let s := pi_flows_phys2 (Cscale k (mkC (i_rft i) (i_xft i))) (Cscale k (mkC (i_rtf i) (i_xtf i)))
                          (Cscale (1 / k) (mkC (i_gf i) (i_bf i))) (Cscale (1 / k) (mkC (i_gt i) (i_bt i))) vf vt in
  (Cscale sn (fst s), Cscale sn (snd s)).
Lemma impedance_pu_eq_documented : forall sn i vf vt,
  i_in i = true -> ~ sn == 0 -> ~ i_sn i == 0 ->
  ~ i_rft i * i_rft i + i_xft i * i_xft i == 0 -> ~ i_rtf i * i_rtf i + i_xtf i * i_xtf i == 0 ->
  Ceq2 (flows (stamps_core (impedance_branch sn i) C1) vf vt sn) (imp_doc_flows sn i vf vt).
Proof.
  intros sn [rft xft rtf xtf gf bf gt bt isn ins] [vfr vfi] [vtr vti].
  cbn [i_rft i_xft i_rtf i_xtf i_gf i_bf i_gt i_bt i_sn i_in]. intros Hin Hsn Hi Hf Ht. subst ins.
  unfold Ceq2, flows, stamps_core, impedance_branch, imp_doc_flows, pi_flows_phys2.
  cbn [i_rft i_xft i_rtf i_xtf i_gf i_bf i_gt i_bt i_sn i_in]. brow_cbn.
  replace (qeqb 1 0) with false by reflexivity.
  split; cstrip; field; repeat split; try assumption;
    first [ nz_scaled Hf (sn * sn); apply mul_nz; assumption | nz_scaled Ht (sn * sn); apply mul_nz; assumption ].
Qed.

(* ---------------------------------------------------------------- T: transformer parameters as documented
   doc/elements/trafo.rst: z_k = vk/100 * S_N/sn, r_k = vkr/100 * S_N/sn, x_k = sqrt(z_k^2 - r_k^2), scaled by
   (vn_lv_trafo / V_N,lv-bus)^2, divided by the number of parallel transformers *)
Lemma trafo_rx_documented : forall sn t o vnl vnlbus,
  o_x o * o_x o == fst (trafo_zr sn t vnl vnlbus) * fst (trafo_zr sn t vnl vnlbus)
                   - snd (trafo_zr sn t vnl vnlbus) * snd (trafo_zr sn t vnl vnlbus) ->
  0 <= o_x o -> 0 < fst (trafo_zr sn t vnl vnlbus) -> 0 < t_par t -> ~ t_sn t == 0 -> ~ vnlbus == 0 ->
  let k := (vnl / vnlbus) * (vnl / vnlbus) * sn / t_sn t / t_par t in
  let '(r, x) := trafo_rx sn t o vnl vnlbus in
  r == t_vkr t / 100 * k /\ 0 <= x /\ r * r + x * x == (t_vk t / 100 * k) * (t_vk t / 100 * k).
Proof.
  intros sn t o vnl vnlbus. unfold trafo_rx, trafo_zr, qsq. cbn [fst snd].
  set (z := qmul (qdiv (qdiv (t_vk t) 100) (t_sn t)) (qmul (qmul (qdiv vnl vnlbus) (qdiv vnl vnlbus)) sn)).
  set (r := qmul (qdiv (qdiv (t_vkr t) 100) (t_sn t)) (qmul (qmul (qdiv vnl vnlbus) (qdiv vnl vnlbus)) sn)).
  intros Hx Hx0 Hz Hp Hsn Hv.
  assert (Hs : qsign z = 1) by (unfold qsign; destruct (qltb 0 z) eqn:E; [reflexivity | apply qltb_ge in E; exfalso; apply (Qlt_not_le _ _ Hz E)]).
  rewrite Hs.
  assert (Hp' : ~ t_par t == 0) by (intro K; rewrite K in Hp; apply (Qlt_irrefl 0 Hp)).
  assert (Ez : z == t_vk t / 100 / t_sn t * (vnl / vnlbus * (vnl / vnlbus) * sn)) by (unfold z; qstrip; reflexivity).
  assert (Er : r == t_vkr t / 100 / t_sn t * (vnl / vnlbus * (vnl / vnlbus) * sn)) by (unfold r; qstrip; reflexivity).
  repeat split.
  - qstrip. rewrite Er. field. repeat split; assumption.
  - qstrip. rewrite Qmult_1_l. apply Qle_shift_div_l; [exact Hp | rewrite Qmult_0_l; exact Hx0].
  - qstrip. rewrite Qmult_1_l.
    transitivity ((r * r + o_x o * o_x o) / (t_par t * t_par t)); [field; exact Hp'|].
    rewrite Hx. transitivity (z * z / (t_par t * t_par t)); [field; exact Hp'|].
    rewrite Ez. field. repeat split; assumption.
Qed.

(* magnetising branch: y_m = i0/100, g_m = pfe_kw/(sn_mva 1000), b_m = -sqrt(y_m^2 - g_m^2), relative to the
   transformer rating; in physical units referred to the (tap-adjusted) LV rated voltage vnl:
   G = pfe_mw * parallel / vnl^2 [S],  |Y| = i0/100 * sn_trafo * parallel / vnl^2;  per unit on baseZ = V_N^2/S_N *)
Lemma trafo_gb_documented : forall sn t o vnl vnlbus,
  o_bm o * o_bm o == trafo_ym2 t -> 0 <= o_bm o ->
  ~ sn == 0 -> ~ vnl == 0 -> ~ t_vnl0 t == 0 ->
  let baseZ := vnlbus * vnlbus / sn in
  let '(g, b) := trafo_gb sn t o vnl vnlbus in
  g == t_pfe t / 1000 * t_par t / (vnl * vnl) * baseZ /\
  g * g + b * b == (t_i0 t / 100 * t_sn t * t_par t / (vnl * vnl) * baseZ) * (t_i0 t / 100 * t_sn t * t_par t / (vnl * vnl) * baseZ) /\
  (0 <= t_par t -> 0 < sn -> b <= 0).
Proof.
  intros sn t o vnl vnlbus Hb Hb0 Hsn Hv Hv0 baseZ. unfold trafo_gb, qsq.
  unfold trafo_ym2, qsq in Hb.
  assert (Hb' : o_bm o * o_bm o == (t_i0 t / 100 * t_sn t) * (t_i0 t / 100 * t_sn t) - (t_pfe t * (1 # 1000)) * (t_pfe t * (1 # 1000))).
  { rewrite Hb. qstrip. reflexivity. }
  repeat split.
  - qstrip. unfold baseZ. field. repeat split; assumption.
  - qstrip.
    transitivity (((t_pfe t * (1 # 1000)) * (t_pfe t * (1 # 1000)) + o_bm o * o_bm o) *
                  ((t_par t / (vnl * vnl) * baseZ) * (t_par t / (vnl * vnl) * baseZ))).
    { unfold baseZ. field. repeat split; assumption. }
    rewrite Hb'. unfold baseZ. field. repeat split; assumption.
  - intros Hp Hs. qstrip.
    assert (Hd : 0 < sn * (vnl * vnl)) by (apply Qmult_lt_0_compat; [exact Hs | nra]).
    assert (E : - o_bm o / (t_vnl0 t * t_vnl0 t) * (vnlbus * vnlbus / sn) * t_par t / (vnl / t_vnl0 t * (vnl / t_vnl0 t))
                == - (o_bm o * t_par t * (vnlbus * vnlbus) / (sn * (vnl * vnl)))) by (field; repeat split; assumption).
    rewrite E. apply (Qopp_le_compat 0). apply Qle_shift_div_l; [exact Hd|]. rewrite Qmult_0_l.
    apply Qmult_le_0_compat; [apply Qmult_le_0_compat; assumption | nra].
Qed.

(* ---------------------------------------------------------------- T: wye_delta_two_port
   the pi parameters returned by _wye_delta carry the same two-port currents as the T circuit
   (za from the from terminal to the star point, zb from the to terminal to the star point, yc = g + jb at the star point) *)
Definition t_circuit_I (za zb yc vf vt : C) : C * C :=
  let vm := Cdiv (Cadd (Cdiv vf za) (Cdiv vt zb)) (Cadd (Cadd (Cinv za) (Cinv zb)) yc) in   (* star point voltage *)
  (Cdiv (Csub vf vm) za, Cdiv (Csub vt vm) zb).
Definition pi_circuit_I (r x g b ga ba : Q) (vf vt : C) : C * C :=
  let ys := Cinv (mkC r x) in
  (Cadd (Cmul (Cscale (1 # 2) (mkC g b)) vf) (Cmul ys (Csub vf vt)),
   Cadd (Cmul (Cscale (1 # 2) (mkC (g + ga) (b + ba))) vt) (Cmul ys (Csub vt vf))).

Lemma half_twice z : Cscale (1 # 2) (mkC (qmul (re z) 2) (qmul (im z) 2)) ==c z.
Proof. destruct z. cstrip; ring. Qed.
Lemma half_asym yf yt :
  Cscale (1 # 2) (mkC (qmul (re yf) 2 + qsub (qmul 2 (re yt)) (qmul (re yf) 2))
                      (qmul (im yf) 2 + qsub (qmul 2 (im yt)) (qmul (im yf) 2))) ==c yt.
Proof. destruct yf, yt. cstrip; ring. Qed.

Lemma wye_delta_two_port : forall r x g b rr xr vf vt,
  let za := wd_za r x rr xr in let zb := wd_zb r x rr xr in let yc := mkC g b in
  ~ za ==c C0 -> ~ zb ==c C0 -> ~ yc ==c C0 ->
  ~ Cadd (Cadd za zb) (Cmul (Cmul za zb) yc) ==c C0 ->
  let '(r', x', g', b', ga, ba) := wye_delta_core r x g b rr xr in
  Ceq2 (pi_circuit_I r' x' g' b' ga ba vf vt) (t_circuit_I za zb yc vf vt).
Proof.
  intros r x g b rr xr vf vt za zb yc Ha Hb Hc Hd.
  unfold wye_delta_core. fold za zb yc.
  set (zc := Cinv yc).
  set (zs := Cadd (Cadd (Cmul za zb) (Cmul za zc)) (Cmul zb zc)).
  unfold pi_circuit_I, t_circuit_I, Ceq2. cbn [fst snd].
  rewrite (C_eta (Cdiv zs zc)), half_twice, half_asym.
  unfold zs, zc. clearbody za zb yc. clear zs zc.
  assert (H1 : ~ mkC 1 0 ==c C0) by (intros [K _]; cbn in K; discriminate).
  assert (Hd' : ~ Cadd (Cadd zb za) (Cmul yc (Cmul za zb)) ==c C0) by (intro K; apply Hd; rewrite <- K; ring).
  split; field; repeat split; assumption.
Qed.

(* _wye_delta does not raise under the same side conditions *)
Lemma czero_false' z : ~ z ==c C0 -> czero z = false.
Proof. intros H. apply czero_false. apply Cnz_norm. exact H. Qed.

(* ---------------------------------------------------------------- T: tap changer as documented
   doc/elements/trafo.rst: n_tap = 1 + (tap_pos - tap_neutral) * tap_step_percent/100 * e^{j phi}, the rated voltage of
   the tap side is multiplied by |n_tap| and the phase shift grows by arg(n_tap) (sign by side).
   X = u1 + du cos(phi), Y = direction * du sin(phi); vn = oracle sqrt, (ca, sa) = cos/sin of the oracle arctan *)
Lemma tap_polar_documented : forall X Y vn ca sa,
  vn * vn == X * X + Y * Y -> ca * ca + sa * sa == 1 -> sa * X == ca * Y ->
  0 < X -> 0 < vn -> 0 < ca ->
  vn * ca == X /\ vn * sa == Y.
Proof.
  intros X Y vn ca sa Hv Hu Ht HX Hvn Hca.
  assert (E1 : (vn * ca) * (vn * ca) == X * X).
  { transitivity ((vn * vn) * (ca * ca)); [ring|]. rewrite Hv.
    transitivity (X * X * (ca * ca) + (ca * Y) * (ca * Y)); [ring|]. rewrite <- Ht.
    transitivity (X * X * (ca * ca + sa * sa)); [ring|]. rewrite Hu. ring. }
  assert (E2 : vn * ca == X).
  { assert (P : 0 < vn * ca) by (apply Qmult_lt_0_compat; assumption).
    assert (F : (vn * ca - X) * (vn * ca + X) == 0) by (transitivity ((vn * ca) * (vn * ca) - X * X); [ring | rewrite E1; ring]).
    apply Qmult_integral in F. destruct F as [F|F]; [lra | lra]. }
  split; [exact E2|].
  assert (E3 : X * (vn * sa) == X * Y).
  { transitivity (vn * (sa * X)); [ring|]. rewrite Ht. transitivity ((vn * ca) * Y); [ring|]. rewrite E2. ring. }
  apply (Qmult_inj_l _ _ X); [intro K; rewrite K in HX; apply (Qlt_irrefl 0 HX) | exact E3].
Qed.

Lemma tap_ratio_hv : forall tc o vnh vnl shift,
  tc_side tc = HV -> (tc_type tc = Ratio \/ tc_type tc = Symmetrical) ->
  tap_notable tc o vnh vnl shift = Ok (o_vn o, vnl, Some (qadd shift (o_atan o))).
Proof. intros tc o vnh vnl shift Hs [Ht|Ht]; unfold tap_notable; rewrite Hs, Ht; reflexivity. Qed.
Lemma tap_ratio_lv : forall tc o vnh vnl shift,
  tc_side tc = LV -> (tc_type tc = Ratio \/ tc_type tc = Symmetrical) ->
  tap_notable tc o vnh vnl shift = Ok (vnh, o_vn o, Some (qadd shift (o_atan o))).
Proof. intros tc o vnh vnl shift Hs [Ht|Ht]; unfold tap_notable; rewrite Hs, Ht; reflexivity. Qed.
Lemma tap_ideal_degree : forall tc o vnh vnl shift d g,
  tc_side tc = HV -> tc_type tc = Ideal -> tc_diff tc = Some d -> tc_deg tc = Some g -> ~ g == 0 ->
  rn (tc_pct tc) == 0 ->
  tap_notable tc o vnh vnl shift = Ok (vnh, vnl, Some (qadd shift (qmul (qmul 1 d) g))).
Proof.
  intros tc o vnh vnl shift d g Hs Ht Hd Hg Hg0 Hp. unfold tap_notable. rewrite Hs, Ht, Hd, Hg. cbn [rn].
  rewrite (qeqb_false _ _ Hg0). apply qeqb_eq in Hp. rewrite Hp. reflexivity.
Qed.

(* ---------------------------------------------------------------- T: current and loading
   i_ka * sqrt3 * |U| = |S|  (|U| = vm * BASE_KV in kV, |S| in MVA) *)
Lemma i_ka_relation : forall s vm basekv sqrt3,
  ~ sqrt3 == 0 -> ~ vm * basekv == 0 -> i_ka s vm basekv sqrt3 * sqrt3 * (vm * basekv) == s.
Proof.
  intros s vm basekv sqrt3 H3 Hv. unfold i_ka. qstrip. field.
  repeat split; try assumption; intro K; apply Hv; rewrite K; ring.
Qed.
Lemma i_ka_sq : forall s p q vm basekv sqrt3,
  sqrt3 * sqrt3 == 3 -> s * s == p * p + q * q -> ~ vm * basekv == 0 ->
  3 * (i_ka s vm basekv sqrt3 * i_ka s vm basekv sqrt3) * ((vm * basekv) * (vm * basekv)) == p * p + q * q.
Proof.
  intros s p q vm basekv sqrt3 H3 Hs Hv.
  assert (Hn : ~ sqrt3 == 0) by (intro K; rewrite K in H3; discriminate H3 || nra).
  pose proof (i_ka_relation s vm basekv sqrt3 Hn Hv) as E. rewrite <- Hs, <- H3.
  transitivity ((i_ka s vm basekv sqrt3 * sqrt3 * (vm * basekv)) * (i_ka s vm basekv sqrt3 * sqrt3 * (vm * basekv))); [ring|].
  rewrite E. reflexivity.
Qed.
Lemma line_loading_def : forall ifrom ito l v,
  fst (line_loading ifrom ito l) = Some v ->
  v * (l_maxi l * l_df l * l_par l) == 100 * qmax ifrom ito /\ snd (line_loading ifrom ito l) = qmax ifrom ito.
Proof.
  intros ifrom ito l v. unfold line_loading. cbn [fst snd].
  destruct (qeqb (qmul (qmul (l_maxi l) (l_df l)) (l_par l)) 0) eqn:E; [discriminate|].
  intros H. injection H as <-. split; [|reflexivity].
  assert (Hn : ~ l_maxi l * l_df l * l_par l == 0).
  { intro K. assert (K' : qeqb (qmul (qmul (l_maxi l) (l_df l)) (l_par l)) 0 = true).
    { apply qeqb_eq. qstrip. exact K. } rewrite K' in E. discriminate. }
  qstrip. field. repeat split; intro K; apply Hn; rewrite K; ring.
Qed.

(* ---------------------------------------------------------------- T: dc_model (makeBdc, _run_dc_pf)
   p_from = -p_to = S_N (theta_f - theta_t - shift pi/180) / (x tap) *)
Lemma dc_lossless : forall b shift pi vaf vat sn, fst (dc_flow b shift pi vaf vat sn) + snd (dc_flow b shift pi vaf vat sn) == 0.
Proof. intros. unfold dc_flow. cbn [fst snd]. qstrip. ring. Qed.
Lemma dc_flow_documented : forall br shift pi vaf vat sn b,
  b_stat br = true -> ~ b_x br == 0 -> ~ b_tap br == 0 -> dc_b br = Ok b ->
  fst (dc_flow b shift pi vaf vat sn) == sn * ((vaf - vat) - shift * pi / 180) / (b_x br * b_tap br).
Proof.
  intros br shift pi vaf vat sn b Hs Hx Ht. unfold dc_b. rewrite (qeqb_false _ _ Hx), (qeqb_false _ _ Ht), Hs.
  intros H. injection H as <-. unfold dc_flow. cbn [fst]. qstrip. field. split; assumption.
Qed.

(* ---------------------------------------------------------------- trafo3w tap changer at the star point *)
(* repaired rule: a NaN tap_step_degree is the same as 0 degree, as it is for a tap changer at the terminals *)
Lemma star_tap_nan_degree_is_zero : forall x blk, x_deg x = None ->
  tap3_block x blk =
  tap3_block {| x_side := x_side x; x_star := x_star x; x_type := x_type x; x_pos := x_pos x; x_neutral := x_neutral x;
                x_pct := x_pct x; x_deg := if x_star x then Some 0 else None |} blk.
Proof.
  intros x blk H. unfold tap3_block, tap3_block_gen. cbn [x_side x_star x_type x_pos x_neutral x_pct x_deg].
  rewrite H. destruct (x_star x); reflexivity.
Qed.
(* with the step applied: documented n_tap = 1 + diff*pct/100 appears as the corrected step 100 p/(100 + p diff) on the other side *)
Lemma star_tap_applied : forall x blk p d,
  x_side x = blk -> x_star x = true -> x_pct x = Some p -> x_pos x = Some (d + rn (x_neutral x)) -> x_neutral x <> None ->
  exists q, tc_pct (tap3_block x blk) = Some q.
Proof.
  intros x blk p d Hs Hst Hp Hpos Hn. unfold tap3_block, tap3_block_gen. rewrite Hs, Nat.eqb_refl, Hst, Hp, Hpos.
  destruct (x_neutral x) as [n|]; [|contradiction]. eexists. reflexivity.
Qed.
(* regression witness: the rule before the repair dropped the tap changer *)
Lemma old_star_tap_refuted :
  exists x blk p, x_side x = blk /\ x_star x = true /\ x_pct x = Some p /\ ~ p == 0 /\ x_pos x = Some 2 /\ x_neutral x = Some 0 /\
                  tc_pct (tap3_block_old x blk) = None /\ tc_pct (tap3_block x blk) <> None.
Proof.
  exists {| x_side := 0; x_star := true; x_type := Ratio; x_pos := Some 2; x_neutral := Some 0; x_pct := Some (3 # 2); x_deg := None |}, 0%nat, (3 # 2).
  repeat split; try reflexivity; try discriminate.
Qed.

(* ---------------------------------------------------------------- T: T-model row -> stamps -> flows (end to end)
   step 1: for a row with symmetric series impedance the flows are those of the pi circuit (currents pi_circuit_I)
   behind the ideal transformer n = TAP e^{j SHIFT}: S_f = S_N v_f' conj(I_f'), S_t = S_N v_t conj(I_t), v_f' = v_f/n *)
Lemma flows_pi_circuit : forall br e vf vt sn,
  b_stat br = true -> b_ra br == 0 -> b_xa br == 0 ->
  ~ (b_r br) * (b_r br) + (b_x br) * (b_x br) == 0 -> ~ b_tap br == 0 -> re e * re e + im e * im e == 1 ->
  let vf' := Cdiv vf (Cscale (b_tap br) e) in
  let i := pi_circuit_I (b_r br) (b_x br) (b_g br) (b_b br) (b_ga br) (b_ba br) vf' vt in
  Ceq2 (flows (stamps_core br e) vf vt sn)
       (Cscale sn (Cmul vf' (Cconj (fst i))), Cscale sn (Cmul vt (Cconj (snd i)))).
Proof.
  brow_intro. intros [er ei] [vfr vfi] [vtr vti] sn. cbn [re im].
  intros Hs Hra Hxa Hz Ht He. subst stat.
  unfold Ceq2, flows, stamps_core, pi_circuit_I. brow_cbn. rewrite (qeqb_false _ _ Ht).
  pose proof (tap_unit_nz tap er ei Ht He) as Hn.
  split; cstrip; rewrite ?Hra, ?Hxa; field; repeat split; try assumption;
    try (apply norm_sq_nz; assumption); try (apply norm_conj_nz; assumption);
    intro K; apply Hz; rewrite <- K; ring.
Qed.

(* step 2: when the row carries the pi parameters _wye_delta computed from (r, x, g, b, rr, xr), these currents are the
   currents of the documented T circuit (za hv-side leakage, zb lv-side leakage, magnetising branch at the star point) *)
Lemma t_model_row_flows : forall br e vf vt sn r x g b rr xr,
  b_stat br = true -> b_ra br == 0 -> b_xa br == 0 ->
  ~ (b_r br) * (b_r br) + (b_x br) * (b_x br) == 0 -> ~ b_tap br == 0 -> re e * re e + im e * im e == 1 ->
  (b_r br, b_x br, b_g br, b_b br, b_ga br, b_ba br) = wye_delta_core r x g b rr xr ->
  let za := wd_za r x rr xr in let zb := wd_zb r x rr xr in let yc := mkC g b in
  ~ za ==c C0 -> ~ zb ==c C0 -> ~ yc ==c C0 -> ~ Cadd (Cadd za zb) (Cmul (Cmul za zb) yc) ==c C0 ->
  let vf' := Cdiv vf (Cscale (b_tap br) e) in
  let i := t_circuit_I za zb yc vf' vt in
  Ceq2 (flows (stamps_core br e) vf vt sn)
       (Cscale sn (Cmul vf' (Cconj (fst i))), Cscale sn (Cmul vt (Cconj (snd i)))).
Proof.
  intros br e vf vt sn r x g b rr xr Hs Hra Hxa Hz Ht He Hrow za zb yc Ha Hb Hc Hd vf' i.
  pose proof (flows_pi_circuit br e vf vt sn Hs Hra Hxa Hz Ht He) as F. cbn zeta in F. fold vf' in F.
  pose proof (wye_delta_two_port r x g b rr xr vf' vt Ha Hb Hc Hd) as W.
  rewrite <- Hrow in W. fold za zb yc in W. fold i in W.
  destruct F as [F1 F2]. destruct W as [W1 W2]. cbn [fst snd] in *.
  split; cbn [fst snd].
  - rewrite F1, W1. reflexivity.
  - rewrite F2, W2. reflexivity.
Qed.
