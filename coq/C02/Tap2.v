(* C02 — the second tap changer (tap2_* columns; loop "for t in ('', '2')" of _calc_tap_from_dataframe,
   build_branch.py:604-704): the second pass runs the ordinary tap computation on the vectors left by the first one.
   Proved: the composition equals the documented rule (doc/elements/trafo.rst:166-230) applied twice — the rated-voltage
   phasor of the tap side is multiplied by n_tap = 1 + (tap_pos - tap_neutral) * tap_step_percent/100 * e^{j phi} in each
   step (modulus -> rated voltage, argument -> phase shift), an ideal phase shifter adds its angle — and, for two
   changers on the same side, by the product n_tap1 * n_tap2. *)
From Coq Require Import ZArith QArith List Bool Lia Lqa Setoid Morphisms String.
From PPV Require Import Base.QN Base.QC C31.Model C02.Model C02.Run C02.CPlain C02.CField C02.Proofs.
Open Scope Q_scope.

(* ---------------------------------------------------------------- SPEC *)
Definition tap_steps (tc : tapc) : Q :=                   (* (tap_pos - tap_neutral) * tap_step_percent / 100, NaN -> 0 *)
  match tc_pct tc, tc_diff tc with Some p, Some d => p * d / 100 | _, _ => 0 end.
Definition tap_dir (tc : tapc) : Q := match tc_side tc with LV => -1 | _ => 1 end.
(* n_tap = 1 + steps * e^{j dir phi},  (c, s) = (cos phi, sin phi) *)
Definition tap_n (tc : tapc) (c s : Q) : C := mkC (1 + tap_steps tc * c) (tap_dir tc * (tap_steps tc * s)).
(* angle added by an ideal phase shifter (trafo.rst:216-230): diff * tap_step_degree, or 2 asin(diff * pct/100/2) (oracle) *)
Definition ideal_add (tc : tapc) (o : tap_orc) (d : Q) : Q :=
  match tc_deg tc with
  | Some g => if qeqb g 0 then tap_dir tc * o_asin o else tap_dir tc * d * g
  | None => tap_dir tc * o_asin o
  end.
(* one documented tap step from the state a = (vn_hv, vn_lv, shift) to b.  (ca, sa) = cos / sin of the added angle
   o_atan of a Ratio / Symmetrical changer: u' (ca + j sa) = u n_tap  says  u' = u |n_tap| and angle = arg n_tap *)
Definition step_doc (tc : tapc) (o : tap_orc) (ca sa : Q) (a b : Q * Q * Q) : Prop :=
  let '(vnh, vnl, sh) := a in let '(vnh', vnl', sh') := b in
  match tc_side tc, tc_type tc with
  | NoSide, _ | _, OtherT => vnh' = vnh /\ vnl' = vnl /\ sh' = sh
  | HV, Ideal | LV, Ideal => vnh' = vnh /\ vnl' = vnl /\ exists d, tc_diff tc = Some d /\ sh' == sh + ideal_add tc o d
  | HV, _ => Cscale vnh' (mkC ca sa) ==c Cscale vnh (tap_n tc (o_c o) (o_s o)) /\ vnl' = vnl /\ sh' == sh + o_atan o
  | LV, _ => Cscale vnl' (mkC ca sa) ==c Cscale vnl (tap_n tc (o_c o) (o_s o)) /\ vnh' = vnh /\ sh' == sh + o_atan o
  end.
(* hypotheses on the oracle values of one Ratio / Symmetrical step applied to rated voltages (vnh, vnl):
   o_vn = sqrt(X^2 + Y^2), (ca, sa) the unit vector along (X, Y) (= cos / sin of arctan(Y / X), X > 0),
   X + jY = u1 * n_tap *)
Definition orc_ok (tc : tapc) (o : tap_orc) (ca sa : Q) (vnh vnl : Q) : Prop :=
  let u1 := match tc_side tc with HV => vnh | _ => vnl end in
  let X := u1 * re (tap_n tc (o_c o) (o_s o)) in let Y := u1 * im (tap_n tc (o_c o) (o_s o)) in
  o_vn o * o_vn o == X * X + Y * Y /\ ca * ca + sa * sa == 1 /\ sa * X == ca * Y /\ 0 < X /\ 0 < o_vn o /\ 0 < ca.
(* well-formed tap changer: no NaN that the impl would turn into a NaN shift, no ideal shifter with both step values *)
Definition tap_wf (tc : tapc) : Prop :=
  match tc_side tc, tc_type tc with
  | NoSide, _ | _, OtherT | _, Ratio | _, Symmetrical => True
  | _, Ideal => exists d, tc_diff tc = Some d /\
                ((exists g, tc_deg tc = Some g /\ ~ g == 0 /\ rn (tc_pct tc) == 0) \/
                 (rn (tc_deg tc) == 0 /\ exists p, tc_pct tc = Some p))
  end.

(* ---------------------------------------------------------------- one step of the model = one documented step *)
Lemma qeqb_true x y : x == y -> qeqb x y = true. Proof. apply qeqb_eq. Qed.

Lemma step_sound : forall tc o ca sa vnh vnl sh, tap_wf tc ->
  exists vnh' vnl' sh', tap_notable tc o vnh vnl sh = Ok (vnh', vnl', Some sh') /\
    (orc_ok tc o ca sa vnh vnl -> step_doc tc o ca sa (vnh, vnl, sh) (vnh', vnl', sh')).
Proof.
  intros tc o ca sa vnh vnl sh Hwf. unfold tap_notable, step_doc, orc_ok, tap_wf in *.
  destruct (tc_side tc) eqn:Es; destruct (tc_type tc) eqn:Et;
    try (do 3 eexists; split; [reflexivity | intros _; repeat split; reflexivity]).
  (* HV / LV x Ratio / Symmetrical: polar form *)
  1,2,4,5: (do 3 eexists; split; [reflexivity|];
            intros (Hv & Hu & Ht & HX & Hvn & Hca);
            destruct (tap_polar_documented _ _ _ _ _ Hv Hu Ht HX Hvn Hca) as [E1 E2];
            split; [|split; [reflexivity | qstrip; reflexivity]];
            cstrip; [rewrite E1 | rewrite E2]; reflexivity).
  (* HV / LV x Ideal *)
  all: destruct Hwf as (d & Hd & [(g & Hg & Hg0 & Hp) | (Hg0 & p & Hp)]).
  - rewrite Hg, Hd. cbn [rn]. rewrite (qeqb_false _ _ Hg0). apply qeqb_true in Hp. rewrite Hp. cbn [negb andb].
    do 3 eexists. split; [reflexivity|]. intros _. repeat split. exists d. split; [reflexivity|].
    unfold ideal_add, tap_dir. rewrite Hg, Es, (qeqb_false _ _ Hg0). qstrip. ring.
  - apply qeqb_true in Hg0. rewrite Hg0, Hd, Hp. cbn [negb andb].
    do 3 eexists. split; [reflexivity|]. intros _. repeat split. exists d. split; [reflexivity|].
    unfold ideal_add, tap_dir. rewrite Es. destruct (tc_deg tc) as [g|]; cbn [rn] in Hg0; [rewrite Hg0|]; qstrip; ring.
  - rewrite Hg, Hd. cbn [rn]. rewrite (qeqb_false _ _ Hg0). apply qeqb_true in Hp. rewrite Hp. cbn [negb andb].
    do 3 eexists. split; [reflexivity|]. intros _. repeat split. exists d. split; [reflexivity|].
    unfold ideal_add, tap_dir. rewrite Hg, Es, (qeqb_false _ _ Hg0). qstrip. ring.
  - apply qeqb_true in Hg0. rewrite Hg0, Hd, Hp. cbn [negb andb].
    do 3 eexists. split; [reflexivity|]. intros _. repeat split. exists d. split; [reflexivity|].
    unfold ideal_add, tap_dir. rewrite Es. destruct (tc_deg tc) as [g|]; cbn [rn] in Hg0; [rewrite Hg0|]; qstrip; ring.
Qed.

(* ---------------------------------------------------------------- T: two tap changers = the documented rule twice *)
Lemma tap2_composition : forall tc1 o1 ca1 sa1 tc2 o2 ca2 sa2 vnh vnl sh,
  tap_wf tc1 -> tap_wf tc2 ->
  exists vnh1 vnl1 sh1 vnh2 vnl2 sh2,
    tap_notable tc1 o1 vnh vnl sh = Ok (vnh1, vnl1, Some sh1) /\
    tap_second (tap_notable tc1 o1 vnh vnl sh) tc2 o2 = Ok (vnh2, vnl2, Some sh2) /\
    (orc_ok tc1 o1 ca1 sa1 vnh vnl -> step_doc tc1 o1 ca1 sa1 (vnh, vnl, sh) (vnh1, vnl1, sh1)) /\
    (orc_ok tc2 o2 ca2 sa2 vnh1 vnl1 -> step_doc tc2 o2 ca2 sa2 (vnh1, vnl1, sh1) (vnh2, vnl2, sh2)).
Proof.
  intros tc1 o1 ca1 sa1 tc2 o2 ca2 sa2 vnh vnl sh W1 W2.
  destruct (step_sound tc1 o1 ca1 sa1 vnh vnl sh W1) as (vnh1 & vnl1 & sh1 & E1 & D1).
  destruct (step_sound tc2 o2 ca2 sa2 vnh1 vnl1 sh1 W2) as (vnh2 & vnl2 & sh2 & E2 & D2).
  exists vnh1, vnl1, sh1, vnh2, vnl2, sh2. rewrite E1. unfold tap_second, bind. rewrite E2. repeat split; assumption.
Qed.

(* errors and NaN of the first pass are passed on unchanged *)
Lemma tap2_first_raises : forall e tc2 o2, tap_second (Raise e) tc2 o2 = Raise e.
Proof. reflexivity. Qed.
Lemma tap2_first_nan : forall vnh vnl tc2 o2, tap_second (Ok (vnh, vnl, None)) tc2 o2 = Ok (vnh, vnl, None).
Proof. reflexivity. Qed.

(* T: both changers Ratio / Symmetrical on the hv side: the rated hv voltage phasor is multiplied by n_tap1 * n_tap2
   (the angle-sum unit vector (ca1 + j sa1)(ca2 + j sa2) = e^{j(a1 + a2)}), the lv voltage is untouched and the shift
   grows by the two angles *)
Lemma tap2_same_side_product : forall tc1 o1 ca1 sa1 tc2 o2 ca2 sa2 vnh vnl sh,
  tc_side tc1 = HV -> tc_side tc2 = HV ->
  (tc_type tc1 = Ratio \/ tc_type tc1 = Symmetrical) -> (tc_type tc2 = Ratio \/ tc_type tc2 = Symmetrical) ->
  orc_ok tc1 o1 ca1 sa1 vnh vnl -> orc_ok tc2 o2 ca2 sa2 (o_vn o1) vnl ->
  tap_second (tap_notable tc1 o1 vnh vnl sh) tc2 o2 = Ok (o_vn o2, vnl, Some (qadd (qadd sh (o_atan o1)) (o_atan o2))) /\
  Cscale (o_vn o2) (Cmul (mkC ca1 sa1) (mkC ca2 sa2))
    ==c Cscale vnh (Cmul (tap_n tc1 (o_c o1) (o_s o1)) (tap_n tc2 (o_c o2) (o_s o2))).
Proof.
  intros tc1 o1 ca1 sa1 tc2 o2 ca2 sa2 vnh vnl sh S1 S2 T1 T2 O1 O2.
  rewrite (tap_ratio_hv tc1 o1 vnh vnl sh S1 T1). unfold tap_second, bind.
  rewrite (tap_ratio_hv tc2 o2 (o_vn o1) vnl _ S2 T2). split; [reflexivity|].
  unfold orc_ok in O1, O2. rewrite S1 in O1. rewrite S2 in O2.
  destruct O1 as (Hv & Hu & Ht & HX & Hvn & Hca).
  destruct (tap_polar_documented _ _ _ _ _ Hv Hu Ht HX Hvn Hca) as [E1 E2].
  destruct O2 as (Hv2 & Hu2 & Ht2 & HX2 & Hvn2 & Hca2).
  destruct (tap_polar_documented _ _ _ _ _ Hv2 Hu2 Ht2 HX2 Hvn2 Hca2) as [F1 F2].
  set (n1 := tap_n tc1 (o_c o1) (o_s o1)) in *. set (n2 := tap_n tc2 (o_c o2) (o_s o2)) in *.
  destruct n1 as [n1r n1i]. destruct n2 as [n2r n2i]. cbn [re im] in *.
  cstrip.
  - transitivity ((o_vn o2 * ca2) * ca1 - (o_vn o2 * sa2) * sa1); [ring|]. rewrite F1, F2.
    transitivity ((o_vn o1 * ca1) * n2r - (o_vn o1 * sa1) * n2i); [ring|]. rewrite E1, E2. ring.
  - transitivity ((o_vn o2 * sa2) * ca1 + (o_vn o2 * ca2) * sa1); [ring|]. rewrite F1, F2.
    transitivity ((o_vn o1 * ca1) * n2i + (o_vn o1 * sa1) * n2r); [ring|]. rewrite E1, E2. ring.
Qed.
(* the order of two changers on the same side does not matter for the documented result: n_tap1 n_tap2 = n_tap2 n_tap1 *)
Lemma tap_n_commute : forall a b : C, Cmul a b ==c Cmul b a.
Proof. exact Cmul_comm. Qed.

(* ---------------------------------------------------------------- T: 3W tap changer at the star point
   (_calculate_3w_tap_changers :1540-1549, tap_step_degree 0 / NaN): the corrected step 100 t/(100 + t diff) applied to the
   OTHER side of the block (angle - 180 degree resp. 0) is exactly the reciprocal of the documented
   n_tap = 1 + (tap_pos - tap_neutral) tap_step_percent/100:  the rated voltage of the star side is divided by n_tap.
   (c', s') = cos / sin of the step angle the block's tap changer carries (0 or -180 degree). *)
Lemma star_tap_reciprocal : forall x blk p d c' s' g,
  x_side x = blk -> x_star x = true -> x_pct x = Some p ->
  (exists a n, x_pos x = Some a /\ x_neutral x = Some n /\ d == a - n) -> ~ 100 + p * d == 0 ->
  tc_deg (tap3_block x blk) = Some g ->
  (g == 0 -> c' == 1 /\ s' == 0) -> (g == -180 -> c' == -1 /\ s' == 0) ->
  tc_side (tap3_block x blk) = match blk with O => LV | _ => HV end /\
  tap_n (tap3_block x blk) c' s' ==c mkC (1 / (1 + p * d / 100)) 0.
Proof.
  intros x blk p d c' s' g Hs Hst Hp (a & n & Ha & Hn & Hd) Hnz.
  unfold tap3_block, tap3_block_gen. rewrite Hs, Nat.eqb_refl, Hst, Hp, Ha, Hn.
  destruct (x_deg x) as [dg|]; cbn [rn].
  all: set (tcor := qdiv (qmul 100 p) (qadd 100 (qmul p (qsub a n)))).
  all: assert (Et : tcor == 100 * p / (100 + p * d)) by (unfold tcor; qstrip; rewrite Hd; reflexivity).
  all: cbn [tc_deg tc_side]; intros Hg H0 H180; split; [reflexivity|].
  all: injection Hg as <-.
  all: unfold tap_n, tap_steps, tap_dir; cbn [tc_pct tc_diff tc_side]; unfold qabs'.
  all: destruct (qltb tcor 0) eqn:E.
  all: try (destruct H0 as [Hc Hs']; [qstrip; reflexivity|]).
  all: try (destruct H180 as [Hc Hs']; [qstrip; reflexivity|]).
  all: destruct blk as [|blk]; split; cbn [re im]; rewrite ?Hc, ?Hs'.
  all: try ring.
  all: assert (Ed : qsub a n == d) by (rewrite Hd; qstrip; reflexivity); rewrite Ed.
  all: try (assert (Eo : qopp tcor == - tcor) by (qstrip; reflexivity); rewrite Eo).
  all: rewrite Et; field; repeat split; try assumption; try discriminate; intro K; apply Hnz; first [lra | nra].
Qed.
