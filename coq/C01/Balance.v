(* C01 — generator split sums, the imbalance formulas, guards, refutation witnesses, res_bus. *)
From Coq Require Import ZArith QArith Qabs List Bool Lia Lqa Setoid Morphisms.
From PPV Require Import Base.QN Base.QC C01.Model C01.Proofs.
Import ListNotations.
Open Scope Q_scope.

(* ------------------------------------------------------------------ gens at a bus *)
Lemma gens_on_at_In n k g : In g (gens_on_at n k) -> g_bus g = k /\ g_on g = true.
Proof.
  unfold gens_on_at. rewrite filter_In. intros [_ H]. apply andb_true_iff in H. destruct H as [H1 H2].
  apply Nat.eqb_eq in H1. split; assumption.
Qed.
Lemma has_gen_false n k : has_gen n k = false -> gens_on_at n k = [].
Proof.
  unfold has_gen. intros H. apply negb_false_iff, Nat.eqb_eq in H. apply length_zero_iff_nil. exact H.
Qed.
Lemma has_gen_true n k : has_gen n k = true -> (0 < length (gens_on_at n k))%nat.
Proof. unfold has_gen. intros H. apply negb_true_iff, Nat.eqb_neq in H. lia. Qed.
Lemma filter_length_le {A} (p q : A -> bool) l :
  (forall x, p x = true -> q x = true) -> (length (filter p l) <= length (filter q l))%nat.
Proof.
  intros H. induction l as [|a l IH]; [apply Nat.le_refl|]. cbn [filter].
  destruct (p a) eqn:P; [rewrite (H a P); cbn [length]; lia|]. destruct (q a); cbn [length]; lia.
Qed.
Lemma gens_on_at_le_n_on n k : (length (gens_on_at n k) <= n_on n)%nat.
Proof. unfold gens_on_at, n_on. apply filter_length_le. intros x H. apply andb_true_iff in H. apply H. Qed.
Lemma length_one {A} (l : list A) : length l = 1%nat -> exists a, l = [a].
Proof. destruct l as [|a [|b l]]; cbn; intros H; try discriminate. exists a. reflexivity. Qed.

Lemma sumf_affine {A} (a b : A -> Q) d L : sumf (fun g => qadd (a g) (qmul d (b g))) L == sumf a L + d * sumf b L.
Proof. induction L as [|x L IH]; [rewrite !sumf_nil; ring|]. rewrite !sumf_cons, IH. qnorm. ring. Qed.

(* ------------------------------------------------------------------ _update_p / _split_p_for_gens_at_same_bus *)
Lemma gen_p_noslack n ref k v sinj : (memn k ref && has_gen n k) = false ->
  gen_p n ref k v sinj == sumf g_pg (gens_on_at n k).
Proof.
  intros H. apply andb_false_iff in H. destruct H as [H|H].
  - unfold gen_p. apply sumf_ext. intros g Hg. apply gens_on_at_In in Hg. destruct Hg as [Hb Ho].
    unfold pg_after. rewrite Hb, Ho, H. reflexivity.
  - unfold gen_p. rewrite (has_gen_false _ _ H). reflexivity.
Qed.

Lemma existsb_filter_nonempty {A} (p : A -> bool) l : existsb p l = true -> (0 < length (filter p l))%nat.
Proof.
  induction l as [|a l IH]; cbn [existsb filter]; [discriminate|].
  destruct (p a); cbn [orb length]; [lia | exact IH].
Qed.

(* the generator rows at a reference bus sum to  inj P + local Pd *)
Lemma gen_p_sum n ref k v sinj : memn k ref = true -> split_ok n k = true ->
  gen_p n ref k v sinj == p_bus n k v sinj.
Proof.
  intros Hr Hs. unfold gen_p, split_ok in *.
  set (G := gens_on_at n k) in *.
  assert (HG : forall g, In g G -> g_bus g = k /\ g_on g = true) by (intros g; apply gens_on_at_In).
  apply orb_true_iff in Hs. destruct Hs as [H1|H2].
  - apply Nat.eqb_eq in H1. destruct (length_one _ H1) as [g0 E].
    assert (Hg0 : In g0 G) by (rewrite E; left; reflexivity).
    destruct (HG g0 Hg0) as [Hb Ho].
    rewrite E, sumf_cons, sumf_nil. unfold pg_after. rewrite Hb, Ho, Hr. fold G. rewrite E. cbn. ring.
  - apply andb_true_iff in H2. destruct H2 as [Hlen Hex].
    rewrite (sumf_partition g_ref _ G).
    set (ext := filter g_ref G). set (pv := filter (fun x => negb (g_ref x)) G).
    assert (Hext : (0 < length ext)%nat) by (apply existsb_filter_nonempty; exact Hex).
    (* pv part keeps its setpoints *)
    assert (Epv : sumf (fun g => pg_after n ref g v sinj) pv == sumf g_pg pv).
    { apply sumf_ext. intros g Hg. apply filter_In in Hg. destruct Hg as [Hg Hn].
      destruct (HG g Hg) as [Hb Ho]. apply negb_true_iff in Hn.
      unfold pg_after. rewrite Hb, Ho, Hr. fold G. rewrite Hlen, Hn. reflexivity. }
    rewrite Epv.
    set (p_ext := qsub (p_bus n k v sinj) (sumf g_pg pv)).
    destruct (qltb 0 (sumf g_w ext)) eqn:W.
    + assert (Eext : sumf (fun g => pg_after n ref g v sinj) ext ==
                     sumf (fun g => qadd (g_pg g) (qmul (qdiv (qsub p_ext (sumf g_pg ext)) (sumf g_w ext)) (g_w g))) ext).
      { apply sumf_ext. intros g Hg. apply filter_In in Hg. destruct Hg as [Hg Hn].
        destruct (HG g Hg) as [Hb Ho].
        unfold pg_after. rewrite Hb, Ho, Hr. fold G. rewrite Hlen, Hn. fold ext pv p_ext. rewrite W. cbn [andb].
        apply qltb_lt in W. qnorm. field. intros E0. rewrite E0 in W. apply (Qlt_irrefl 0 W). }
      rewrite Eext, sumf_affine. apply qltb_lt in W. unfold p_ext. qnorm. field.
      intros E0. rewrite E0 in W. apply (Qlt_irrefl 0 W).
    + assert (Eext : sumf (fun g => pg_after n ref g v sinj) ext == sumf (fun _ => qdiv p_ext (nq (length ext))) ext).
      { apply sumf_ext. intros g Hg. apply filter_In in Hg. destruct Hg as [Hg Hn].
        destruct (HG g Hg) as [Hb Ho].
        unfold pg_after. rewrite Hb, Ho, Hr. fold G. rewrite Hlen, Hn. fold ext pv p_ext. rewrite W. cbn [andb]. reflexivity. }
      rewrite Eext, sumf_const. unfold p_ext. qnorm. field. apply nq_nonzero. exact Hext.
Qed.

(* non-reference buses and non-reference gens keep their active power setpoint *)
Lemma pg_after_keeps n ref g v sinj :
  memn (g_bus g) ref = false \/ (g_ref g = false /\ (1 < length (gens_on_at n (g_bus g)))%nat) ->
  pg_after n ref g v sinj = g_pg g.
Proof.
  intros [H|[H1 H2]]; unfold pg_after.
  - rewrite H, andb_false_r. reflexivity.
  - apply Nat.ltb_lt in H2. rewrite H2, H1. destruct (g_on g && memn (g_bus g) ref); reflexivity.
Qed.

(* ------------------------------------------------------------------ _update_q *)
Definition qg_expr (n : net) (k : nat) (g : gen) (v : Q) (sinj : C) : Q :=
  let q0 := q_tot0 n k v sinj in
  if Nat.ltb 1 (n_on n) then
    let G := gens_on_at n k in
    let q1 := qdiv q0 (nq (length G)) in
    let qtot := sumf (fun _ => q1) G in
    let qmin := sumf g_qmin G in
    let qmax := sumf g_qmax G in
    if qeqb qmin qmax then q1
    else qadd (g_qmin g) (qmul (qdiv (qsub qtot qmin) (qadd (qsub qmax qmin) EPS)) (qsub (g_qmax g) (g_qmin g)))
  else q0.
Lemma qg_after_val_at n k g v sinj : In g (gens_on_at n k) -> qg_after_val n g v sinj = qg_expr n k g v sinj.
Proof. intros H. apply gens_on_at_In in H. destruct H as [Hb Ho]. unfold qg_after_val, qg_expr. rewrite Ho, Hb. reflexivity. Qed.

Lemma gen_q_sum n k v sinj : has_gen n k = true -> ~ qg_den n k == 0 ->
  gen_q n k v sinj == q_tot0 n k v sinj - qsplit_loss n k v sinj.
Proof.
  intros Hg Hden. unfold gen_q.
  rewrite (sumf_ext _ (fun g => qg_expr n k g v sinj)); [|intros g Hin; rewrite (qg_after_val_at n k g v sinj Hin); reflexivity].
  pose proof (has_gen_true _ _ Hg) as Hlen. pose proof (gens_on_at_le_n_on n k) as Hle.
  unfold qg_expr, qsplit_loss, qg_den in *.
  set (G := gens_on_at n k) in *. set (q0 := q_tot0 n k v sinj).
  destruct (Nat.ltb 1 (n_on n)) eqn:N; cbn [andb].
  - destruct (qeqb (sumf g_qmin G) (sumf g_qmax G)) eqn:E; cbn [negb].
    + rewrite sumf_const. qnorm. field. apply nq_nonzero. exact Hlen.
    + rewrite sumf_affine, sumf_const.
      rewrite (sumf_ext (fun b => qsub (g_qmax b) (g_qmin b)) (fun b => g_qmax b + (-1) * g_qmin b));
        [|intros x _; qnorm; ring].
      rewrite sumf_add, sumf_scale. qnorm. field. split; [exact Hden | apply nq_nonzero; exact Hlen].
  - apply Nat.ltb_ge in N. assert (H1 : length G = 1%nat) by lia.
    destruct (length_one _ H1) as [g0 E0]. rewrite E0, sumf_cons, sumf_nil. ring.
Qed.

(* the EPS in the denominator loses at most |Qtot - Qmin| * EPS / range *)
Lemma qsplit_loss_bound n k v sinj :
  0 < sumf g_qmax (gens_on_at n k) - sumf g_qmin (gens_on_at n k) ->
  Qabs (qsplit_loss n k v sinj) <=
  Qabs (q_tot0 n k v sinj - sumf g_qmin (gens_on_at n k)) * EPS / (sumf g_qmax (gens_on_at n k) - sumf g_qmin (gens_on_at n k)).
Proof.
  intros HR. unfold qsplit_loss.
  set (G := gens_on_at n k) in *. set (R := sumf g_qmax G - sumf g_qmin G) in *.
  set (d := q_tot0 n k v sinj - sumf g_qmin G).
  assert (HE : 0 < EPS) by reflexivity.
  assert (Hpos : 0 <= Qabs d * EPS / R).
  { apply Qle_shift_div_l; [exact HR|]. rewrite Qmult_0_l. apply Qmult_le_0_compat; [apply Qabs_nonneg | apply Qlt_le_weak; exact HE]. }
  destruct (Nat.ltb 1 (n_on n) && negb (qeqb (sumf g_qmin G) (sumf g_qmax G))); [|exact Hpos].
  qnorm. fold R d.
  assert (HRE : 0 < R + EPS) by lra.
  setoid_replace (d * EPS / (R + EPS)) with (d * (EPS / (R + EPS))) by (field; lra).
  rewrite Qabs_Qmult.
  assert (Hq : 0 <= EPS / (R + EPS)) by (apply Qle_shift_div_l; [exact HRE | lra]).
  rewrite (Qabs_pos _ Hq).
  setoid_replace (Qabs d * EPS / R) with (Qabs d * (EPS / R)) by (field; lra).
  rewrite (Qmult_comm (Qabs d) (EPS / (R + EPS))), (Qmult_comm (Qabs d) (EPS / R)).
  apply Qmult_le_compat_r; [|apply Qabs_nonneg].
  apply Qle_shift_div_l; [exact HR|].
  setoid_replace (EPS / (R + EPS) * R) with (EPS * R / (R + EPS)) by (field; lra).
  apply Qle_shift_div_r; [exact HRE|]. nra.
Qed.

(* ------------------------------------------------------------------ the imbalance formulas *)
(* small unfolding lemmas (keep the autorewrite goals small) *)
Lemma resid_p_eq n ref k v s f : resid_p n ref k v s f == cons_p n k v - gen_p n ref k v s + re f.
Proof. unfold resid_p. rewrite qadd_correct, qsub_correct. reflexivity. Qed.
Lemma resid_q_eq n k v s f : resid_q n k v s f == cons_q n k v - gen_q n k v s + im f.
Proof. unfold resid_q. rewrite qadd_correct, qsub_correct. reflexivity. Qed.
Lemma flows_re n k v s : re (flows n k v s) == re s * base n - v * v * GS n k.
Proof. unfold flows. cbn [re]. rewrite qsub_correct, !qmul_correct. reflexivity. Qed.
Lemma flows_im n k v s : im (flows n k v s) == im s * base n + v * v * BS n k.
Proof. unfold flows. cbn [im]. rewrite qadd_correct, !qmul_correct. reflexivity. Qed.
Lemma mism_p_eq n k v s : mism_p n k v s == re s * base n - (sumf g_pg (gens_on_at n k) - re (Sload n k v)).
Proof. unfold mism_p. rewrite !qsub_correct, qmul_correct. reflexivity. Qed.
Lemma mism_q_eq n k v s : mism_q n k v s == im s * base n + im (Sload n k v).
Proof. unfold mism_q. rewrite qadd_correct, qmul_correct. reflexivity. Qed.
Lemma zipdef_p_eq n k v :
  zipdef_p n k v == if vdl n then (v - 1) * (PD n k * z_cip (zip_row n k) - sum_pci n k)
                                  + (v * v - 1) * (PD n k * z_czp (zip_row n k) - sum_pcz n k) else 0.
Proof.
  unfold zipdef_p. destruct (vdl n); cbn [negb]; [|reflexivity].
  rewrite qadd_correct, !qmul_correct, !qsub_correct, ?qmul_correct. reflexivity.
Qed.
Lemma zipdef_q_eq n k v :
  zipdef_q n k v == if vdl n then (v - 1) * (QD n k * z_ciq (zip_row n k) - sum_qci n k)
                                  + (v * v - 1) * (QD n k * z_czq (zip_row n k) - sum_qcz n k) else 0.
Proof.
  unfold zipdef_q. destruct (vdl n); cbn [negb]; [|reflexivity].
  rewrite qadd_correct, !qmul_correct, !qsub_correct, ?qmul_correct. reflexivity.
Qed.
Lemma gendef_p_eq n k v :
  gendef_p n k v == if vdl n then (v - 1) * sum_pci n k + (v * v - 1) * sum_pcz n k else 0.
Proof.
  unfold gendef_p. destruct (vdl n); cbn [negb]; [|reflexivity].
  rewrite qadd_correct, !qmul_correct, !qsub_correct, ?qmul_correct. reflexivity.
Qed.
Lemma gendef_q_eq n k v :
  gendef_q n k v == if vdl n then (v - 1) * sum_qci n k + (v * v - 1) * sum_qcz n k else 0.
Proof.
  unfold gendef_q. destruct (vdl n); cbn [negb]; [|reflexivity].
  rewrite qadd_correct, !qmul_correct, !qsub_correct, ?qmul_correct. reflexivity.
Qed.
Lemma p_bus_eq n k v s : p_bus n k v s == re s * base n + re (Sload n k v).
Proof. unfold p_bus. rewrite qadd_correct, qmul_correct. reflexivity. Qed.
Lemma q_tot0_eq n k v s : q_tot0 n k v s == im s * base n + im (Sload n k v).
Proof. unfold q_tot0. rewrite qadd_correct, qmul_correct. reflexivity. Qed.

(* P at a bus whose generators are not assigned the slack power (PQ and PV buses) *)
Lemma imbalance_p n ref k v sinj : (memn k ref && has_gen n k) = false ->
  resid_p n ref k v sinj (flows n k v sinj) == mism_p n k v sinj - zipdef_p n k v.
Proof.
  intros H. rewrite resid_p_eq, flows_re, mism_p_eq, zipdef_p_eq.
  rewrite (gen_p_noslack _ _ _ _ _ H), cons_p_closed, Sload_re.
  destruct (vdl n); ring.
Qed.
(* Q at a bus without a generator in service (PQ bus) *)
Lemma imbalance_q n k v sinj : has_gen n k = false ->
  resid_q n k v sinj (flows n k v sinj) == mism_q n k v sinj - zipdef_q n k v.
Proof.
  intros H. rewrite resid_q_eq, flows_im, mism_q_eq, zipdef_q_eq.
  unfold gen_q. rewrite (has_gen_false _ _ H), sumf_nil.
  rewrite cons_q_closed, Sload_im.
  destruct (vdl n); ring.
Qed.
(* P at a reference bus: the generators get  inj P + the demand the solver used *)
Lemma imbalance_ref_p n ref k v sinj : memn k ref = true -> split_ok n k = true ->
  resid_p n ref k v sinj (flows n k v sinj) == - zipdef_p n k v.
Proof.
  intros Hr Hs. rewrite resid_p_eq, flows_re, zipdef_p_eq.
  rewrite (gen_p_sum _ _ _ _ _ Hr Hs), cons_p_closed, p_bus_eq, Sload_re.
  destruct (vdl n); ring.
Qed.
(* the rule before the repair (static PD): imbalance (v-1) sum p_i ci_i + (v^2-1) sum p_i cz_i *)
Lemma old_ref_p n k v sinj : resid_p_ref_old n k v sinj == gendef_p n k v.
Proof.
  unfold resid_p_ref_old, p_bus_old. rewrite qadd_correct, qsub_correct, qadd_correct, qmul_correct, flows_re, gendef_p_eq, cons_p_closed.
  destruct (vdl n); ring.
Qed.
Lemma old_gen_q n k v sinj : resid_q_gen_old n k v sinj == gendef_q n k v.
Proof.
  unfold resid_q_gen_old, q_tot0_old. rewrite qadd_correct, qsub_correct, qadd_correct, qmul_correct, flows_im, gendef_q_eq, cons_q_closed.
  destruct (vdl n); ring.
Qed.
(* Q at a generator bus: the generators get  inj Q + the demand the solver used, minus the EPS loss of the split *)
Lemma imbalance_gen_q n k v sinj : has_gen n k = true -> ~ qg_den n k == 0 ->
  resid_q n k v sinj (flows n k v sinj) == - zipdef_q n k v + qsplit_loss n k v sinj.
Proof.
  intros Hg Hd. rewrite resid_q_eq, flows_im, zipdef_q_eq.
  rewrite (gen_q_sum _ _ _ _ Hg Hd), cons_q_closed, q_tot0_eq, Sload_im.
  destruct (vdl n); ring.
Qed.

(* ------------------------------------------------------------------ guards *)
Lemma G01p_zipdef n k v : G01p n k = true -> zipdef_p n k v == 0.
Proof.
  unfold G01p, zipdef_p. destruct (vdl n); cbn [negb orb]; [|reflexivity].
  intros H. apply andb_true_iff in H. destruct H as [H1 H2]. apply qeqb_eq in H1, H2. qnorm.
  rewrite H1, H2. ring.
Qed.
Lemma G01q_zipdef n k v : G01q n k = true -> zipdef_q n k v == 0.
Proof.
  unfold G01q, zipdef_q. destruct (vdl n); cbn [negb orb]; [|reflexivity].
  intros H. apply andb_true_iff in H. destruct H as [H1 H2]. apply qeqb_eq in H1, H2. qnorm.
  rewrite H1, H2. ring.
Qed.
Lemma G01gp_gendef n k v : G01gp n k = true -> gendef_p n k v == 0.
Proof.
  unfold G01gp, gendef_p. destruct (vdl n); cbn [negb orb]; [|reflexivity].
  intros H. apply andb_true_iff in H. destruct H as [H1 H2]. apply qeqb_eq in H1, H2. qnorm.
  rewrite H1, H2. ring.
Qed.
Lemma G01gq_gendef n k v : G01gq n k = true -> gendef_q n k v == 0.
Proof.
  unfold G01gq, gendef_q. destruct (vdl n); cbn [negb orb]; [|reflexivity].
  intros H. apply andb_true_iff in H. destruct H as [H1 H2]. apply qeqb_eq in H1, H2. qnorm.
  rewrite H1, H2. ring.
Qed.

(* the guards are exact: outside them the defect is non-zero for some positive voltage *)
Lemma two_point a b : (2 - 1) * a + (2 * 2 - 1) * b == 0 -> (3 - 1) * a + (3 * 3 - 1) * b == 0 -> a == 0 /\ b == 0.
Proof. intros H1 H2. split; lra. Qed.
Lemma qeqb_false x y : qeqb x y = false -> ~ x == y.
Proof. intros H E. apply qeqb_eq in E. congruence. Qed.

Lemma G01p_exact n k : G01p n k = false -> exists v, 0 < v /\ ~ zipdef_p n k v == 0.
Proof.
  unfold G01p, zipdef_p. destruct (vdl n); cbn [negb orb]; [|discriminate].
  set (a := qsub (qmul (PD n k) (z_cip (zip_row n k))) (sum_pci n k)).
  set (b := qsub (qmul (PD n k) (z_czp (zip_row n k))) (sum_pcz n k)).
  intros H.
  destruct (Qeq_dec ((2 - 1) * a + (2 * 2 - 1) * b) 0) as [E2|N2].
  - destruct (Qeq_dec ((3 - 1) * a + (3 * 3 - 1) * b) 0) as [E3|N3].
    + exfalso. destruct (two_point a b E2 E3) as [Ha Hb]. unfold a, b in Ha, Hb. qnorm.
      apply andb_false_iff in H. destruct H as [H|H]; apply qeqb_false in H; apply H; qnorm; lra.
    + exists 3. split; [reflexivity|]. intros E. apply N3. rewrite <- E. qnorm. ring.
  - exists 2. split; [reflexivity|]. intros E. apply N2. rewrite <- E. qnorm. ring.
Qed.
Lemma G01q_exact n k : G01q n k = false -> exists v, 0 < v /\ ~ zipdef_q n k v == 0.
Proof.
  unfold G01q, zipdef_q. destruct (vdl n); cbn [negb orb]; [|discriminate].
  set (a := qsub (qmul (QD n k) (z_ciq (zip_row n k))) (sum_qci n k)).
  set (b := qsub (qmul (QD n k) (z_czq (zip_row n k))) (sum_qcz n k)).
  intros H.
  destruct (Qeq_dec ((2 - 1) * a + (2 * 2 - 1) * b) 0) as [E2|N2].
  - destruct (Qeq_dec ((3 - 1) * a + (3 * 3 - 1) * b) 0) as [E3|N3].
    + exfalso. destruct (two_point a b E2 E3) as [Ha Hb]. unfold a, b in Ha, Hb. qnorm.
      apply andb_false_iff in H. destruct H as [H|H]; apply qeqb_false in H; apply H; qnorm; lra.
    + exists 3. split; [reflexivity|]. intros E. apply N3. rewrite <- E. qnorm. ring.
  - exists 2. split; [reflexivity|]. intros E. apply N2. rewrite <- E. qnorm. ring.
Qed.
Lemma G01gp_exact n k : G01gp n k = false -> exists v, 0 < v /\ ~ gendef_p n k v == 0.
Proof.
  unfold G01gp, gendef_p. destruct (vdl n); cbn [negb orb]; [|discriminate].
  set (a := sum_pci n k). set (b := sum_pcz n k).
  intros H.
  destruct (Qeq_dec ((2 - 1) * a + (2 * 2 - 1) * b) 0) as [E2|N2].
  - destruct (Qeq_dec ((3 - 1) * a + (3 * 3 - 1) * b) 0) as [E3|N3].
    + exfalso. destruct (two_point a b E2 E3) as [Ha Hb].
      apply andb_false_iff in H. destruct H as [H|H]; apply qeqb_false in H; apply H; assumption.
    + exists 3. split; [reflexivity|]. intros E. apply N3. rewrite <- E. qnorm. ring.
  - exists 2. split; [reflexivity|]. intros E. apply N2. rewrite <- E. qnorm. ring.
Qed.
Lemma G01gq_exact n k : G01gq n k = false -> exists v, 0 < v /\ ~ gendef_q n k v == 0.
Proof.
  unfold G01gq, gendef_q. destruct (vdl n); cbn [negb orb]; [|discriminate].
  set (a := sum_qci n k). set (b := sum_qcz n k).
  intros H.
  destruct (Qeq_dec ((2 - 1) * a + (2 * 2 - 1) * b) 0) as [E2|N2].
  - destruct (Qeq_dec ((3 - 1) * a + (3 * 3 - 1) * b) 0) as [E3|N3].
    + exfalso. destruct (two_point a b E2 E3) as [Ha Hb].
      apply andb_false_iff in H. destruct H as [H|H]; apply qeqb_false in H; apply H; assumption.
    + exists 3. split; [reflexivity|]. intros E. apply N3. rewrite <- E. qnorm. ring.
  - exists 2. split; [reflexivity|]. intros E. apply N2. rewrite <- E. qnorm. ring.
Qed.

(* ------------------------------------------------------------------ partial theorems *)
Lemma balance_partial_pq n ref k v sinj :
  has_gen n k = false -> G01p n k = true -> G01q n k = true ->
  mism_p n k v sinj == 0 -> mism_q n k v sinj == 0 ->
  resid_p n ref k v sinj (flows n k v sinj) == 0 /\ resid_q n k v sinj (flows n k v sinj) == 0.
Proof.
  intros Hg G1 G2 M1 M2. split.
  - rewrite imbalance_p by (rewrite Hg; apply andb_false_r). rewrite M1, (G01p_zipdef _ _ _ G1). ring.
  - rewrite (imbalance_q _ _ _ _ Hg), M2, (G01q_zipdef _ _ _ G2). ring.
Qed.
Lemma balance_partial_pv n ref k v sinj :
  memn k ref = false -> has_gen n k = true -> ~ qg_den n k == 0 -> G01p n k = true -> G01q n k = true ->
  mism_p n k v sinj == 0 ->
  resid_p n ref k v sinj (flows n k v sinj) == 0 /\
  resid_q n k v sinj (flows n k v sinj) == qsplit_loss n k v sinj.
Proof.
  intros Hr Hg Hd G1 G2 M1. split.
  - rewrite imbalance_p by (rewrite Hr; reflexivity). rewrite M1, (G01p_zipdef _ _ _ G1). ring.
  - rewrite (imbalance_gen_q _ _ _ _ Hg Hd), (G01q_zipdef _ _ _ G2). ring.
Qed.
Lemma balance_partial_ref n ref k v sinj :
  memn k ref = true -> split_ok n k = true -> has_gen n k = true -> ~ qg_den n k == 0 ->
  G01p n k = true -> G01q n k = true ->
  resid_p n ref k v sinj (flows n k v sinj) == 0 /\
  resid_q n k v sinj (flows n k v sinj) == qsplit_loss n k v sinj.
Proof.
  intros Hr Hs Hg Hd G1 G2. split.
  - rewrite (imbalance_ref_p _ _ _ _ _ Hr Hs), (G01p_zipdef _ _ _ G1). ring.
  - rewrite (imbalance_gen_q _ _ _ _ Hg Hd), (G01q_zipdef _ _ _ G2). ring.
Qed.

(* ------------------------------------------------------------------ refutation witnesses *)
(* one constant-impedance and one constant-power load on a PQ bus, |V| = 11/10, zero Newton mismatch *)
Definition wit_net : net :=
  mkNet [mkLoad 1 1 2 1 1 true 100 0 100 0; mkLoad 1 1 1 (1#2) 1 true 0 0 0 0] [] [] [] true 1 [(1%nat, 1%nat)].
Definition wit_v : Q := 11 # 10.
Definition wit_sinj : C := Copp (Sload wit_net 1 wit_v).
Lemma wit_facts :
  has_gen wit_net 1 = false /\ mism_p wit_net 1 wit_v wit_sinj == 0 /\ mism_q wit_net 1 wit_v wit_sinj == 0 /\
  G01p wit_net 1 = false /\
  resid_p wit_net [] 1 wit_v wit_sinj (flows wit_net 1 wit_v wit_sinj) == 21 # 200.
Proof. vm_compute. repeat split; reflexivity. Qed.
Lemma balance_refuted :
  exists n ref k v sinj, has_gen n k = false /\ mism_p n k v sinj == 0 /\ mism_q n k v sinj == 0 /\
    ~ resid_p n ref k v sinj (flows n k v sinj) == 0.
Proof.
  exists wit_net, [], 1%nat, wit_v, wit_sinj. destruct wit_facts as (H1 & H2 & H3 & _ & H5).
  repeat split; try assumption. rewrite H5. intros E. discriminate E.
Qed.
(* the OLD rule: a constant-impedance load at the bus of the ext_grid (reference bus), |V| = 21/20; with the repaired
   rule the same bus balances (its single load makes G01p true) *)
Definition witg_net : net :=
  mkNet [mkLoad 0 0 2 1 1 true 100 0 100 0] [] [] [mkGen 0 0 0 0 0 1 true true] true 1 [(0%nat, 0%nat)].
Definition witg_v : Q := 21 # 20.
Lemma old_rule_refuted_gen_bus :
  G01p witg_net 0 = true /\ G01gp witg_net 0 = false /\
  (forall sinj, ~ resid_p_ref_old witg_net 0 witg_v sinj == 0) /\
  (forall sinj, resid_p witg_net [0%nat] 0 witg_v sinj (flows witg_net 0 witg_v sinj) == 0).
Proof.
  split; [reflexivity|]. split; [reflexivity|]. split.
  - intros sinj E. rewrite old_ref_p in E. vm_compute in E. discriminate E.
  - intros sinj. rewrite imbalance_ref_p by reflexivity. rewrite (G01p_zipdef witg_net 0%nat witg_v) by reflexivity. ring.
Qed.

(* non-vacuity of the partial theorems: a bus with two ZIP loads of equal fractions, an sgen-free mix *)
Definition ok_net : net :=
  mkNet [mkLoad 1 1 2 1 1 true 50 50 50 50; mkLoad 1 1 1 (1#2) (1#2) true 50 50 50 50]
        [] [mkSh 1 1 (1#4) (1#2) 2 10 20 true] [] true 1 [(1%nat, 1%nat)].
Lemma ok_net_guard :
  has_gen ok_net 1 = false /\ G01p ok_net 1 = true /\ G01q ok_net 1 = true /\
  mism_p ok_net 1 wit_v (Copp (Sload ok_net 1 wit_v)) == 0 /\ mism_q ok_net 1 wit_v (Copp (Sload ok_net 1 wit_v)) == 0.
Proof. vm_compute. repeat split; reflexivity. Qed.

(* ------------------------------------------------------------------ res_bus = net consumption of the pandapower bus *)
Lemma sum_group_app pb l1 l2 : sum_group pb (l1 ++ l2) == sum_group pb l1 + sum_group pb l2.
Proof. unfold sum_group. rewrite filter_app. apply sumf_app. Qed.
Lemma sum_group_map {A} (key : A -> nat) (f : A -> Q) pb (L : list A) :
  sum_group pb (map (fun x => (key x, f x)) L) == sumf f (filter (fun x => Nat.eqb (key x) pb) L).
Proof.
  unfold sum_group. induction L as [|a L IH]; [reflexivity|].
  cbn [map filter fst]. destruct (Nat.eqb (key a) pb); [|exact IH].
  rewrite !sumf_cons, IH. reflexivity.
Qed.

Lemma res_bus_p_spec n ref vs ss pb : res_bus_p n ref vs ss pb == net_cons_p n ref vs ss pb.
Proof.
  unfold res_bus_p, net_cons_p, stack_p. qnorm.
  rewrite !sum_group_app, !sum_group_map.
  assert (Epq : forall L, sumf (fun e => if e_gen e then qopp (res_pq_p e) else res_pq_p e) L ==
                          sumf (fun e => qmul (pq_sign e) (res_pq_p e)) L).
  { intros L. apply sumf_ext. intros e _. unfold pq_sign. destruct (e_gen e); qnorm; ring. }
  rewrite Epq.
  destruct (vdl n) eqn:V.
  - rewrite sum_group_app, !sum_group_map.
    assert (El : forall L, sumf (fun l => res_load_p n l (vof vs (l_bus l))) L ==
                           sumf load_const_p L + sumf (fun l => load_vdep_p l (vof vs (l_bus l))) L).
    { intros L. rewrite <- sumf_add. apply sumf_ext. intros l _.
      unfold res_load_p, load_const_p, load_vdep_p. rewrite V. qnorm. ring. }
    rewrite El. ring.
  - rewrite sum_group_map.
    assert (El : forall L, sumf (fun l => res_load_p n l (vof vs (l_bus l))) L ==
                           sumf (fun l => qmul (qmul (l_p l) (l_sc l)) (b2q (l_on l))) L).
    { intros L. apply sumf_ext. intros l _. unfold res_load_p. rewrite V. reflexivity. }
    rewrite El. ring.
Qed.
Lemma res_bus_q_spec n vs ss pb : res_bus_q n vs ss pb == net_cons_q n vs ss pb.
Proof.
  unfold res_bus_q, net_cons_q, stack_q. qnorm.
  rewrite !sum_group_app, !sum_group_map.
  assert (Epq : forall L, sumf (fun e => if e_gen e then qopp (res_pq_q e) else res_pq_q e) L ==
                          sumf (fun e => qmul (pq_sign e) (res_pq_q e)) L).
  { intros L. apply sumf_ext. intros e _. unfold pq_sign. destruct (e_gen e); qnorm; ring. }
  rewrite Epq.
  destruct (vdl n) eqn:V.
  - rewrite sum_group_app, !sum_group_map.
    assert (El : forall L, sumf (fun l => res_load_q n l (vof vs (l_bus l))) L ==
                           sumf load_const_q L + sumf (fun l => load_vdep_q l (vof vs (l_bus l))) L).
    { intros L. rewrite <- sumf_add. apply sumf_ext. intros l _.
      unfold res_load_q, load_const_q, load_vdep_q. rewrite V. qnorm. ring. }
    rewrite El. ring.
  - rewrite sum_group_map.
    assert (El : forall L, sumf (fun l => res_load_q n l (vof vs (l_bus l))) L ==
                           sumf (fun l => qmul (qmul (l_q l) (l_sc l)) (b2q (l_on l))) L).
    { intros L. apply sumf_ext. intros l _. unfold res_load_q. rewrite V. reflexivity. }
    rewrite El. ring.
Qed.

(* ------------------------------------------------------------------ DC power flow *)
Lemma dc_imbalance_old n k v pinj gsum :
  dc_resid_p_old n k v pinj gsum == dc_mism n k pinj gsum + dcdef_p n k v.
Proof.
  unfold dc_resid_p_old, dc_mism, dcdef_p, dc_flows, dc_cons_p_old, PD, GS. qnorm.
  rewrite sum_pq_res_p, sum_sh_res_p, sum_load_p0. ring.
Qed.
(* repaired: the reported DC consumption balances the DC bus equation exactly *)
Lemma dc_balance n k pinj gsum : dc_resid_p n k pinj gsum == dc_mism n k pinj gsum.
Proof.
  unfold dc_resid_p, dc_cons_p. fold (dc_resid_p_old n k 1 pinj gsum). rewrite dc_imbalance_old.
  unfold dcdef_p. qnorm. ring.
Qed.
Lemma G01dc_dcdef n k v : G01dc n k v = true -> dcdef_p n k v == 0.
Proof.
  unfold G01dc, dcdef_p. intros H. apply orb_true_iff in H.
  rewrite qmul_correct, qsub_correct, qmul_correct.
  destruct H as [H|H]; apply qeqb_eq in H.
  - rewrite H. ring.
  - rewrite qmul_correct in H. rewrite H. ring.
Qed.
Lemma G01dc_exact n k v : G01dc n k v = false -> ~ dcdef_p n k v == 0.
Proof.
  unfold G01dc, dcdef_p. intros H E. apply orb_false_iff in H. destruct H as [H1 H2].
  apply qeqb_false in H1, H2. qnorm.
  assert (Hz : v * v - 1 == 0 \/ GS n k == 0) by (apply Qmult_integral; exact E).
  destruct Hz as [Hz|Hz]; [apply H2; lra | apply H1; exact Hz].
Qed.
Definition witdc_net : net := mkNet [] [] [mkSh 0 0 (7#8) 0 1 20 20 true] [] false 1 [].
Lemma dc_old_refuted : exists n k v pinj gsum, dc_mism n k pinj gsum == 0 /\ ~ dc_resid_p_old n k v pinj gsum == 0.
Proof.
  exists witdc_net, 0%nat, (99#100), (-7#8), 0. split; [vm_compute; reflexivity|].
  rewrite dc_imbalance_old. vm_compute. intros E. discriminate E.
Qed.

(* ------------------------------------------------------------------ dcline terminals cancel out of res_bus *)
Lemma res_bus_dcl_p n ref vs ss dcl pb :
  res_bus_p_dcl n ref vs ss dcl pb == net_cons_p n ref vs ss pb - sum_group pb dcl.
Proof. unfold res_bus_p_dcl. rewrite qsub_correct, res_bus_p_spec. reflexivity. Qed.
Lemma res_bus_dcl_q n vs ss dcl pb :
  res_bus_q_dcl n vs ss dcl pb == net_cons_q n vs ss pb - sum_group pb dcl.
Proof. unfold res_bus_q_dcl. rewrite qsub_correct, res_bus_q_spec. reflexivity. Qed.
Lemma res_bus_dcl_partial n ref vs ss dcl pb : G01dcl dcl pb = true ->
  res_bus_p_dcl n ref vs ss dcl pb == net_cons_p n ref vs ss pb.
Proof. intros G. apply qeqb_eq in G. rewrite res_bus_dcl_p, G. ring. Qed.
Lemma res_bus_dcl_refuted : exists n ref vs ss dcl pb, ~ res_bus_p_dcl n ref vs ss dcl pb == net_cons_p n ref vs ss pb.
Proof.
  exists (mkNet [] [] [] [mkGen 1 1 (-3#10) 0 0 0 true false] false 1 []), [], [1;1], [C0;C0], [(1%nat, 3#10)], 1%nat.
  vm_compute. intros E. discriminate E.
Qed.

(* ------------------------------------------------------------------ limited gens folded into a ZIP bus demand *)
Lemma Sload_fold_re n k v pl ql :
  re (Sload_fold n k v pl ql) == re (Sload n k v) - pl - (if vdl n then pl * (z_cip (zip_row n k) * (v - 1) + z_czp (zip_row n k) * (v * v - 1)) else 0).
Proof. unfold Sload_fold, Sload, vdep. destruct (vdl n); cbn [re]; qnorm; ring. Qed.
Lemma Sload_fold_im n k v pl ql :
  im (Sload_fold n k v pl ql) == im (Sload n k v) - ql - (if vdl n then ql * (z_ciq (zip_row n k) * (v - 1) + z_czq (zip_row n k) * (v * v - 1)) else 0).
Proof. unfold Sload_fold, Sload, vdep. destruct (vdl n); cbn [im]; qnorm; ring. Qed.
Lemma qlimdef_p_eq n k v pl :
  qlimdef_p n k v pl == if vdl n then pl * (z_cip (zip_row n k) * (v - 1) + z_czp (zip_row n k) * (v * v - 1)) else 0.
Proof. unfold qlimdef_p. destruct (vdl n); cbn [negb]; [|reflexivity]. qnorm. reflexivity. Qed.
Lemma qlimdef_q_eq n k v ql :
  qlimdef_q n k v ql == if vdl n then ql * (z_ciq (zip_row n k) * (v - 1) + z_czq (zip_row n k) * (v * v - 1)) else 0.
Proof. unfold qlimdef_q. destruct (vdl n); cbn [negb]; [|reflexivity]. qnorm. reflexivity. Qed.
Lemma imbalance_fold_p n ref k v sinj pl ql : (memn k ref && has_gen n k) = false ->
  resid_fold_p n ref k v sinj pl == mism_fold_p n k v sinj pl ql - zipdef_p n k v + qlimdef_p n k v pl.
Proof.
  intros H. unfold resid_fold_p, mism_fold_p. rewrite !qsub_correct, qmul_correct, (imbalance_p _ _ _ _ _ H), mism_p_eq,
    Sload_fold_re, qlimdef_p_eq. destruct (vdl n); ring.
Qed.
Lemma imbalance_fold_q n k v sinj pl ql : has_gen n k = false ->
  resid_fold_q n k v sinj ql == mism_fold_q n k v sinj pl ql - zipdef_q n k v + qlimdef_q n k v ql.
Proof.
  intros H. unfold resid_fold_q, mism_fold_q. rewrite qsub_correct, qadd_correct, qmul_correct, (imbalance_q _ _ _ _ H), mism_q_eq,
    Sload_fold_im, qlimdef_q_eq. destruct (vdl n); ring.
Qed.
Lemma G01ql_def n k v pl ql : G01ql n k pl ql = true -> qlimdef_p n k v pl == 0 /\ qlimdef_q n k v ql == 0.
Proof.
  unfold G01ql. rewrite qlimdef_p_eq, qlimdef_q_eq. destruct (vdl n); cbn [negb orb]; [|split; reflexivity].
  intros H. apply andb_true_iff in H. destruct H as [H H4]. apply andb_true_iff in H. destruct H as [H H3].
  apply andb_true_iff in H. destruct H as [H1 H2]. apply qeqb_eq in H1, H2, H3, H4.
  rewrite qmul_correct in H1, H2, H3, H4. set (z := zip_row n k) in *. split.
  - setoid_replace (pl * (z_cip z * (v - 1) + z_czp z * (v * v - 1))) with ((pl * z_cip z) * (v - 1) + (pl * z_czp z) * (v * v - 1)) by ring.
    rewrite H1, H2. ring.
  - setoid_replace (ql * (z_ciq z * (v - 1) + z_czq z * (v * v - 1))) with ((ql * z_ciq z) * (v - 1) + (ql * z_czq z) * (v * v - 1)) by ring.
    rewrite H3, H4. ring.
Qed.
(* witness: a gen with PG = 20 at its limit on a bus with one constant-impedance load, |V| = 99/100, zero folded mismatch *)
Definition witq_net : net :=
  mkNet [mkLoad 1 1 10 4 1 true 100 0 100 0] [] [] [mkGen 1 1 20 (-5) 5 0 false false] true 1 [(1%nat, 1%nat)].
Lemma qlim_fold_refuted :
  G01p witq_net 1 = true /\ G01ql witq_net 1 20 5 = false /\
  exists sinj, mism_fold_p witq_net 1 (99#100) sinj 20 5 == 0 /\ ~ resid_fold_p witq_net [] 1 (99#100) sinj 20 == 0.
Proof.
  split; [reflexivity|]. split; [reflexivity|].
  exists (mkC (- re (Sload_fold witq_net 1 (99#100) 20 5)) 0). split; [vm_compute; reflexivity|].
  vm_compute. intros E. discriminate E.
Qed.
