(* C01 — flow-sum identity: with Ybus = Cf' Yf + Ct' Yt + diag(ysh) (pypower/makeYbus.py:76-88) the bus injection
   V_k conj((Ybus V)_k) is the sum of the terminal flows of the branches at k plus the bus-shunt term.
   Branch = two-port rows (Yff, Yft, Ytf, Ytt) between ppc buses f and t; what the rows are made of (line, trafo,
   tap, shift) is the branch side and irrelevant here.  Definitions: C01/YbusModel.v. *)
From Coq Require Import ZArith QArith List Bool Lia Lqa Setoid Morphisms.
From PPV Require Import Base.QN Base.QC C01.Model C01.Proofs C01.YbusModel.
Import ListNotations.
Open Scope Q_scope.

Lemma Cmul_0_r a : Cmul a C0 ==c C0. Proof. csimp. split; ring. Qed.
Lemma Cconj_0 : Cconj C0 ==c C0. Proof. csimp. split; ring. Qed.

Lemma flow_row brs V k : Cmul (vat V k) (Cconj (ybus_row brs V k)) ==c flow_sum brs V k.
Proof.
  induction brs as [|b r IH]; cbn [ybus_row flow_sum].
  - rewrite Cconj_0. apply Cmul_0_r.
  - rewrite !Cconj_add, !Cmul_add_distr, IH.
    assert (E1 : Cmul (vat V k) (Cconj (if Nat.eqb (b_f b) k then i_from V b else C0)) ==c
                 (if Nat.eqb (b_f b) k then s_from V b else C0)).
    { destruct (Nat.eqb (b_f b) k) eqn:E; [apply Nat.eqb_eq in E; unfold s_from; rewrite E; reflexivity|].
      rewrite Cconj_0. apply Cmul_0_r. }
    assert (E2 : Cmul (vat V k) (Cconj (if Nat.eqb (b_t b) k then i_to V b else C0)) ==c
                 (if Nat.eqb (b_t b) k then s_to V b else C0)).
    { destruct (Nat.eqb (b_t b) k) eqn:E; [apply Nat.eqb_eq in E; unfold s_to; rewrite E; reflexivity|].
      rewrite Cconj_0. apply Cmul_0_r. }
    rewrite E1, E2. reflexivity.
Qed.

(* flow-sum identity: injection = sum of the branch terminal flows + |V_k|^2 conj(ysh_k) *)
Lemma flow_sum_identity brs ysh V k :
  s_inj brs ysh V k ==c Cadd (flow_sum brs V k) (Cscale (cnorm2 (vat V k)) (Cconj ysh)).
Proof.
  unfold s_inj, ybusV. rewrite Cconj_add, Cmul_add_distr, flow_row.
  assert (E : Cmul (vat V k) (Cconj (Cmul ysh (vat V k))) ==c Cscale (cnorm2 (vat V k)) (Cconj ysh)).
  { csimp. split; ring. }
  rewrite E. reflexivity.
Qed.

(* consequence for the model's [flows]: with the bus shunt of the ppc row, ysh = (GS + j BS)/baseMVA, and v^2 = |V_k|^2,
   the flows derived from the injection are the sum of the branch terminal flows in MVA *)
Lemma flows_is_flow_sum n brs V k v :
  ~ base n == 0 -> v * v == cnorm2 (vat V k) ->
  flows n k v (s_inj brs (mkC (qdiv (GS n k) (base n)) (qdiv (BS n k) (base n))) V k)
  ==c Cscale (base n) (flow_sum brs V k).
Proof.
  intros Hb Hv.
  pose proof (flow_sum_identity brs (mkC (qdiv (GS n k) (base n)) (qdiv (BS n k) (base n))) V k) as [E1 E2].
  set (S := s_inj brs _ V k) in *. set (F := flow_sum brs V k) in *.
  unfold flows. split; cbn [re im]; qnorm.
  - rewrite E1. unfold Cadd, Cscale, Cconj. cbn [re im]. qnorm. rewrite <- Hv. field. exact Hb.
  - rewrite E2. unfold Cadd, Cscale, Cconj. cbn [re im]. qnorm. rewrite <- Hv. field. exact Hb.
Qed.
