(* C01 / PF core, bus + generator + result-extraction side.  Executable definitions only.

   Faithful transcription (defects included) of
     pandapower/build_bus.py      _calc_pq_elements_and_add_on_ppc (:596-658), _calc_shunts_and_add_on_ppc (:712-800)
     pandapower/pypower/makeSbus.py  _get_Sload (:23-38), _get_Sbus (:16-20)
     pandapower/pypower/pfsoln.py    pfsoln (:25-70), _update_q, _update_p, _split_p_for_gens_at_same_bus
       (after "fix: slack P and generator Q results use the voltage dependent bus demand of the power flow":
        the local demand added to the injection is _get_Sload(bus, |V|); the static rule is kept as *_old)
     pandapower/results_bus.py    write_voltage_dependend_load_results (:142-187), write_pq_results_to_element (:190-248),
                                  _get_p_q_results (:409-443), _get_shunt_results (:521-588)
     pandapower/results_gen.py    _get_gen_results (:25-52)

   Buses: every element row carries its pandapower bus id (pbus) and the ppc bus index the lookup
   net._pd2ppc_lookups["bus"] maps it to (bus); several pandapower buses fused by closed bus-bus
   switches share one ppc index.  The branch side is NOT modelled here: the bus injection
   Sinj_k = V_k * conj((Ybus V)_k) (p.u.) and the bus voltage magnitude v_k are inputs.
   Numbers: Q through Base.QN; complex: Base.QC. *)
From Coq Require Import ZArith QArith List Bool.
From PPV Require Import Base.QN Base.QC Base.Out.
Import ListNotations.
Open Scope Q_scope.

(* ---------- sums *)
Definition sumf {A} (f : A -> Q) (l : list A) : Q := fold_right (fun x acc => qadd (f x) acc) 0 l.
Definition b2q (b : bool) : Q := if b then 1 else 0.            (* active.astype(np.float64) *)
Definition nq (n : nat) : Q := inject_Z (Z.of_nat n).
Definition memn (x : nat) (l : list nat) : bool := existsb (Nat.eqb x) l.
Definition pct (x : Q) : Q := qdiv x 100.

(* ---------- element tables *)
Record load := mkLoad {
  l_pbus : nat; l_bus : nat; l_p : Q; l_q : Q; l_sc : Q; l_on : bool;   (* l_on = _is_elements["load"] *)
  l_czp : Q; l_cip : Q; l_czq : Q; l_ciq : Q }.                          (* const_*_percent *)
(* sgen / storage / ward.ps,qs / xward.ps,qs / motor / asymmetric_*: p * active * scaling * sign.
   motor and asymmetric rows enter with the values of _get_motor_pq / _get_symmetric_pq_of_unsymetric_element
   (sqrt is an oracle), scaling 1. *)
Record pqel := mkPq {
  e_pbus : nat; e_bus : nat; e_p : Q; e_q : Q; e_sc : Q; e_on : bool;
  e_gen : bool }.                                                         (* sign = -1 (sgen, asymmetric_sgen) *)
(* shunt rows and the pz/qz parts of ward / xward (step 1, vn = bus base kV) *)
Record shel := mkSh {
  s_pbus : nat; s_bus : nat; s_p : Q; s_q : Q; s_step : Q; s_vn : Q; s_bkv : Q; s_on : bool }.
(* ppci gen rows (ext_grid, gen, xward aux gens) *)
Record gen := mkGen {
  g_pbus : nat; g_bus : nat; g_pg : Q; g_qmin : Q; g_qmax : Q; g_w : Q;   (* PG setpoint, QMIN, QMAX, SL_FAC *)
  g_on : bool;                                                            (* GEN_STATUS > 0 *)
  g_ref : bool }.                                                         (* index in ref_gens *)

Record net := mkNet {
  loads : list load; pqs : list pqel; shunts : list shel; gens : list gen;
  vdl : bool;                        (* net._options["voltage_depend_loads"] *)
  base : Q;                          (* baseMVA *)
  bus_order : list (nat * nat) }.    (* list(set(net.load.bus)) in Python set iteration order, with its ppc index *)

(* ---------- build_bus.py:596-658 *)
Definition load_p0 (l : load) : Q := qmul (qmul (l_p l) (b2q (l_on l))) (l_sc l).   (* p_mw * active * scaling *)
Definition load_q0 (l : load) : Q := qmul (qmul (l_q l) (b2q (l_on l))) (l_sc l).
Definition pq_sign (e : pqel) : Q := if e_gen e then (-1 # 1) else 1.
Definition pq_p0 (e : pqel) : Q := qmul (qmul (qmul (e_p e) (b2q (e_on e))) (e_sc e)) (pq_sign e).
Definition pq_q0 (e : pqel) : Q := qmul (qmul (qmul (e_q e) (b2q (e_on e))) (e_sc e)) (pq_sign e).

Definition loads_at (n : net) (k : nat) : list load := filter (fun l => Nat.eqb (l_bus l) k) (loads n).
Definition pqs_at (n : net) (k : nat) : list pqel := filter (fun e => Nat.eqb (e_bus e) k) (pqs n).
Definition shunts_at (n : net) (k : nat) : list shel := filter (fun s => Nat.eqb (s_bus s) k) (shunts n).

(* _sum_by_group(b, p, q) -> ppc["bus"][b, PD/QD] *)
Definition PD (n : net) (k : nat) : Q := qadd (sumf load_p0 (loads_at n k)) (sumf pq_p0 (pqs_at n k)).
Definition QD (n : net) (k : nat) : Q := qadd (sumf load_q0 (loads_at n k)) (sumf pq_q0 (pqs_at n k)).

(* :616-629  for bus in set(tab["bus"]): mask = (tab.bus == bus) & active; ... ci_sum / no_loads
   (a pandapower bus; the row written is bus_lookup[bus], so the last fused bus with an active load wins) *)
Definition active_at_pbus (n : net) (pb : nat) : list load :=
  filter (fun l => Nat.eqb (l_pbus l) pb && l_on l) (loads n).
Record zipc := mkZip { z_cip : Q; z_czp : Q; z_ciq : Q; z_czq : Q }.
Definition zip0 : zipc := mkZip 0 0 0 0.
Definition mean_pct (f : load -> Q) (la : list load) : Q :=
  qdiv (sumf (fun l => qdiv (f l) 100) la) (nq (length la)).
Definition zip_of_pbus (n : net) (pb : nat) : zipc :=
  let la := active_at_pbus n pb in
  mkZip (mean_pct l_cip la) (mean_pct l_czp la) (mean_pct l_ciq la) (mean_pct l_czq la).
Definition zip_row (n : net) (k : nat) : zipc :=
  if vdl n then
    fold_left (fun acc pk => if Nat.eqb (snd pk) k && negb (Nat.eqb (length (active_at_pbus n (fst pk))) 0)
                             then zip_of_pbus n (fst pk) else acc) (bus_order n) zip0
  else zip0.

(* :712-800 shunt / ward / xward constant-impedance parts:  p * step * (base_kv/vn)^2 * in_service *)
Definition sh_ratio (s : shel) : Q := let r := qdiv (s_bkv s) (s_vn s) in qmul r r.
Definition sh_p0 (s : shel) : Q := qmul (qmul (qmul (s_p s) (s_step s)) (sh_ratio s)) (b2q (s_on s)).
Definition sh_q0 (s : shel) : Q := qmul (qmul (qmul (s_q s) (s_step s)) (sh_ratio s)) (b2q (s_on s)).
Definition GS (n : net) (k : nat) : Q := sumf sh_p0 (shunts_at n k).
Definition BS (n : net) (k : nat) : Q := qopp (sumf sh_q0 (shunts_at n k)).

(* ---------- makeSbus.py:23-38 *)
Definition vdep (ci cz v : Q) : Q := qadd (qadd (qsub (qsub 1 ci) cz) (qmul ci v)) (qmul cz (qmul v v)).
(* vm is passed (newtonpf) iff voltage_depend_loads *)
Definition Sload (n : net) (k : nat) (v : Q) : C :=
  if vdl n then
    let z := zip_row n k in
    mkC (qmul (PD n k) (vdep (z_cip z) (z_czp z) v)) (qmul (QD n k) (vdep (z_ciq z) (z_czq z) v))
  else mkC (PD n k) (QD n k).

Definition gens_on_at (n : net) (k : nat) : list gen := filter (fun g => Nat.eqb (g_bus g) k && g_on g) (gens n).
(* Newton mismatch of bus k scaled to MVA:  baseMVA * (V conj(Ybus V) - Sbus)_k  with
   Sbus = (Cg*(PG + jQG) - S_load(|V|))/baseMVA  (makeSbus.py:16-20, newtonpf.py _evaluate_Fx).
   The P part is an NR equation at PV and PQ buses, the Q part at PQ buses (no generator in service). *)
Definition mism_p (n : net) (k : nat) (v : Q) (sinj : C) : Q :=
  qsub (qmul (re sinj) (base n)) (qsub (sumf g_pg (gens_on_at n k)) (re (Sload n k v))).
Definition mism_q (n : net) (k : nat) (v : Q) (sinj : C) : Q :=
  qadd (qmul (im sinj) (base n)) (im (Sload n k v)).

(* ---------- pfsoln.py *)
Definition EPS : Q := 1 # 4503599627370496.       (* finfo(float).eps = 2^-52 *)
Definition n_on (n : net) : nat := length (filter g_on (gens n)).

(* _update_q :108-141, pointwise for the gen row g; Sinj = V conj(Ybus V) at g's bus (p.u.) *)
(* inj Q + local Qd, Qd = Sload.imag of pfsoln (:45-47) *)
Definition q_tot0 (n : net) (k : nat) (v : Q) (sinj : C) : Q := qadd (qmul (im sinj) (base n)) (im (Sload n k v)).
(* before the repair: + bus[gbus, QD] *)
Definition q_tot0_old (n : net) (k : nat) (sinj : C) : Q := qadd (qmul (im sinj) (base n)) (QD n k).
Definition qg_den (n : net) (k : nat) : Q :=
  qadd (qsub (sumf g_qmax (gens_on_at n k)) (sumf g_qmin (gens_on_at n k))) EPS.
Definition qg_after_val (n : net) (g : gen) (v : Q) (sinj : C) : Q :=
  if g_on g then
    let k := g_bus g in
    let q0 := q_tot0 n k v sinj in
    if Nat.ltb 1 (n_on n) then
      let G := gens_on_at n k in
      let q1 := qdiv q0 (nq (length G)) in                       (* / ngg *)
      let qtot := sumf (fun _ => q1) G in                        (* Cg.T * gen[on,QG] *)
      let qmin := sumf g_qmin G in
      let qmax := sumf g_qmax G in
      if qeqb qmin qmax then q1                                  (* ig: Qg_save *)
      else qadd (g_qmin g) (qmul (qdiv (qsub qtot qmin) (qadd (qsub qmax qmin) EPS)) (qsub (g_qmax g) (g_qmin g)))
    else q0
  else 0.
(* None = the float expression divides by zero (inf/nan written to the gen row) *)
Definition qg_after (n : net) (g : gen) (v : Q) (sinj : C) : option Q :=
  if g_on g && Nat.ltb 1 (n_on n) && negb (qeqb (sumf g_qmin (gens_on_at n (g_bus g))) (sumf g_qmax (gens_on_at n (g_bus g))))
     && qeqb (qg_den n (g_bus g)) 0
  then None else Some (qg_after_val n g v sinj).

(* _update_p :94-105 and _split_p_for_gens_at_same_bus :76-92, pointwise for the gen row g.
   [ref] = the ref bus list handed to pfsoln (widened by the buses with slack weights under distributed
   slack, run_newton_raphson_pf.py:77-90).  When _update_p runs all ppci gens are on (pfsoln.py:47-49 re-includes
   the limited ones), so positions in gbus are gen row numbers. *)
(* inj P + local Pd, Pd = Sload.real of pfsoln *)
Definition p_bus (n : net) (k : nat) (v : Q) (sinj : C) : Q := qadd (qmul (re sinj) (base n)) (re (Sload n k v)).
(* before the repair: + bus[slack_bus, PD] *)
Definition p_bus_old (n : net) (k : nat) (sinj : C) : Q := qadd (qmul (re sinj) (base n)) (PD n k).
Definition pg_after (n : net) (ref : list nat) (g : gen) (v : Q) (sinj : C) : Q :=
  let k := g_bus g in
  if g_on g && memn k ref then
    let G := gens_on_at n k in
    if Nat.ltb 1 (length G) then
      if g_ref g then
        let ext := filter g_ref G in                                  (* intersect1d(gens_at_bus, ref_gens) *)
        let pv := filter (fun x => negb (g_ref x)) G in               (* setdiff1d *)
        let p_ext := qsub (p_bus n k v sinj) (sumf g_pg pv) in
        let sw := sumf g_w ext in
        if qltb 0 sw then
          qadd (g_pg g) (qdiv (qmul (qsub p_ext (sumf g_pg ext)) (g_w g)) sw)
        else qdiv p_ext (nq (length ext))
      else g_pg g
    else p_bus n k v sinj
  else g_pg g.
(* ref bus without a gen: bus[slack_bus, PD] = -Sbus.real*baseMVA  (pfsoln.py:100-102) *)
Definition PD_after (n : net) (ref : list nat) (k : nat) (sinj : C) : Q :=
  if memn k ref && Nat.eqb (length (gens_on_at n k)) 0 then qopp (qmul (re sinj) (base n)) else PD n k.

(* ---------- results_bus.py *)
(* :142-187 *)
Definition res_load_p (n : net) (l : load) (v : Q) : Q :=
  let cz := pct (l_czp l) in let ci := pct (l_cip l) in
  let cp := qsub 1 (qadd cz ci) in
  let base_p := qmul (qmul (qmul (l_p l) (l_sc l)) (b2q (l_on l))) cp in
  if vdl n then
    qadd base_p (qmul (qmul (qmul (l_p l) (l_sc l)) (b2q (l_on l))) (qadd (qmul ci v) (qmul cz (qmul v v))))
  else qmul (qmul (l_p l) (l_sc l)) (b2q (l_on l)).           (* write_pq_results_to_element :236 *)
Definition res_load_q (n : net) (l : load) (v : Q) : Q :=
  let cz := pct (l_czq l) in let ci := pct (l_ciq l) in
  let cq := qsub 1 (qadd cz ci) in
  let base_q := qmul (qmul (qmul (l_q l) (l_sc l)) (b2q (l_on l))) cq in
  if vdl n then
    qadd base_q (qmul (qmul (qmul (l_q l) (l_sc l)) (b2q (l_on l))) (qadd (qmul ci v) (qmul cz (qmul v v))))
  else qmul (qmul (l_q l) (l_sc l)) (b2q (l_on l)).
(* :236-246 (unsigned element result) *)
Definition res_pq_p (e : pqel) : Q := qmul (qmul (e_p e) (e_sc e)) (b2q (e_on e)).
Definition res_pq_q (e : pqel) : Q := qmul (qmul (e_q e) (e_sc e)) (b2q (e_on e)).
(* :521-588  u^2 * p * in_service * v_ratio * step *)
Definition res_sh_p (s : shel) (v : Q) : Q :=
  qmul (qmul (qmul (qmul (qmul v v) (s_p s)) (b2q (s_on s))) (sh_ratio s)) (s_step s).
Definition res_sh_q (s : shel) (v : Q) : Q :=
  qmul (qmul (qmul (qmul (qmul v v) (s_q s)) (b2q (s_on s))) (sh_ratio s)) (s_step s).

(* bus voltages and injections are indexed by the ppc bus index *)
Definition vof (vs : list Q) (k : nat) : Q := nth k vs 1.
Definition sof (ss : list C) (k : nat) : C := nth k ss C0.

(* _get_p_q_results (:409-443) + _get_shunt_results (:521-588) + _get_gen_results (results_gen.py:25-52)
   -> res_bus.p_mw/q_mvar of pandapower bus pb.  The impl stacks (bus, value) arrays table by table -- for
   voltage dependent loads the constant-power part of all loads first, then the voltage dependent part of all
   loads (results_bus.py:160-186) -- and sums them by pandapower bus (_sum_by_group). *)
Definition load_const_p (l : load) : Q :=
  qmul (qmul (qmul (l_p l) (l_sc l)) (b2q (l_on l))) (qsub 1 (qadd (pct (l_czp l)) (pct (l_cip l)))).
Definition load_vdep_p (l : load) (v : Q) : Q :=
  qmul (qmul (qmul (l_p l) (l_sc l)) (b2q (l_on l))) (qadd (qmul (pct (l_cip l)) v) (qmul (pct (l_czp l)) (qmul v v))).
Definition load_const_q (l : load) : Q :=
  qmul (qmul (qmul (l_q l) (l_sc l)) (b2q (l_on l))) (qsub 1 (qadd (pct (l_czq l)) (pct (l_ciq l)))).
Definition load_vdep_q (l : load) (v : Q) : Q :=
  qmul (qmul (qmul (l_q l) (l_sc l)) (b2q (l_on l))) (qadd (qmul (pct (l_ciq l)) v) (qmul (pct (l_czq l)) (qmul v v))).
Definition stack_p (n : net) (vs : list Q) : list (nat * Q) :=
  (if vdl n then map (fun l => (l_pbus l, load_const_p l)) (loads n) ++
                 map (fun l => (l_pbus l, load_vdep_p l (vof vs (l_bus l)))) (loads n)
   else map (fun l => (l_pbus l, qmul (qmul (l_p l) (l_sc l)) (b2q (l_on l)))) (loads n)) ++
  map (fun e => (e_pbus e, if e_gen e then qopp (res_pq_p e) else res_pq_p e)) (pqs n) ++
  map (fun s => (s_pbus s, res_sh_p s (vof vs (s_bus s)))) (shunts n).
Definition stack_q (n : net) (vs : list Q) : list (nat * Q) :=
  (if vdl n then map (fun l => (l_pbus l, load_const_q l)) (loads n) ++
                 map (fun l => (l_pbus l, load_vdep_q l (vof vs (l_bus l)))) (loads n)
   else map (fun l => (l_pbus l, qmul (qmul (l_q l) (l_sc l)) (b2q (l_on l)))) (loads n)) ++
  map (fun e => (e_pbus e, if e_gen e then qopp (res_pq_q e) else res_pq_q e)) (pqs n) ++
  map (fun s => (s_pbus s, res_sh_q s (vof vs (s_bus s)))) (shunts n).
Definition sum_group (pb : nat) (l : list (nat * Q)) : Q := sumf snd (filter (fun x => Nat.eqb (fst x) pb) l).
Definition res_bus_p (n : net) (ref : list nat) (vs : list Q) (ss : list C) (pb : nat) : Q :=
  qsub (sum_group pb (stack_p n vs))
       (sum_group pb (map (fun g => (g_pbus g, pg_after n ref g (vof vs (g_bus g)) (sof ss (g_bus g)))) (gens n))).
Definition res_bus_q (n : net) (vs : list Q) (ss : list C) (pb : nat) : Q :=
  qsub (sum_group pb (stack_q n vs))
       (sum_group pb (map (fun g => (g_pbus g, qg_after_val n g (vof vs (g_bus g)) (sof ss (g_bus g)))) (gens n))).
(* with dclines (results_gen.py:41-45): the two auxiliary gens of every dcline are rows of net.gen while the results are
   extracted (so they are in [gens n], PG = -p_from / -p_to), and res_dcline.p_from_mw/p_to_mw (= -PG of those rows) are
   stacked into the *generation* sum as well: the dcline cancels out of res_bus.  [dcl] = (terminal bus, terminal power). *)
Definition res_bus_p_dcl (n : net) (ref : list nat) (vs : list Q) (ss : list C) (dcl : list (nat * Q)) (pb : nat) : Q :=
  qsub (res_bus_p n ref vs ss pb) (sum_group pb dcl).
Definition res_bus_q_dcl (n : net) (vs : list Q) (ss : list C) (dcl : list (nat * Q)) (pb : nat) : Q :=
  qsub (res_bus_q n vs ss pb) (sum_group pb dcl).
Definition G01dcl (dcl : list (nat * Q)) (pb : nat) : bool := qeqb (sum_group pb dcl) 0.

(* spec: net consumption reported by the element result tables at pandapower bus pb *)
Definition net_cons_p (n : net) (ref : list nat) (vs : list Q) (ss : list C) (pb : nat) : Q :=
  qsub (qadd (qadd (sumf (fun l => res_load_p n l (vof vs (l_bus l))) (filter (fun l => Nat.eqb (l_pbus l) pb) (loads n)))
                   (sumf (fun e => qmul (pq_sign e) (res_pq_p e)) (filter (fun e => Nat.eqb (e_pbus e) pb) (pqs n))))
             (sumf (fun s => res_sh_p s (vof vs (s_bus s))) (filter (fun s => Nat.eqb (s_pbus s) pb) (shunts n))))
       (sumf (fun g => pg_after n ref g (vof vs (g_bus g)) (sof ss (g_bus g))) (filter (fun g => Nat.eqb (g_pbus g) pb) (gens n))).
Definition net_cons_q (n : net) (vs : list Q) (ss : list C) (pb : nat) : Q :=
  qsub (qadd (qadd (sumf (fun l => res_load_q n l (vof vs (l_bus l))) (filter (fun l => Nat.eqb (l_pbus l) pb) (loads n)))
                   (sumf (fun e => qmul (pq_sign e) (res_pq_q e)) (filter (fun e => Nat.eqb (e_pbus e) pb) (pqs n))))
             (sumf (fun s => res_sh_q s (vof vs (s_bus s))) (filter (fun s => Nat.eqb (s_pbus s) pb) (shunts n))))
       (sumf (fun g => qg_after_val n g (vof vs (g_bus g)) (sof ss (g_bus g))) (filter (fun g => Nat.eqb (g_pbus g) pb) (gens n))).

(* ---------- spec side: what the result tables report at ppc bus k *)
(* consumption reported by the bus elements (loads, pq elements with sign, shunt-like) *)
Definition cons_p (n : net) (k : nat) (v : Q) : Q :=
  qadd (qadd (sumf (fun l => res_load_p n l v) (loads_at n k)) (sumf (fun e => qmul (pq_sign e) (res_pq_p e)) (pqs_at n k)))
       (sumf (fun s => res_sh_p s v) (shunts_at n k)).
Definition cons_q (n : net) (k : nat) (v : Q) : Q :=
  qadd (qadd (sumf (fun l => res_load_q n l v) (loads_at n k)) (sumf (fun e => qmul (pq_sign e) (res_pq_q e)) (pqs_at n k)))
       (sumf (fun s => res_sh_q s v) (shunts_at n k)).
(* generation reported for the gen rows at k *)
Definition gen_p (n : net) (ref : list nat) (k : nat) (v : Q) (sinj : C) : Q :=
  sumf (fun g => pg_after n ref g v sinj) (gens_on_at n k).
Definition gen_q (n : net) (k : nat) (v : Q) (sinj : C) : Q :=
  sumf (fun g => qg_after_val n g v sinj) (gens_on_at n k).
(* sum of the branch terminal flows at k (MVA) implied by the injection and the bus shunt:
   (Ybus V)_k = sum of branch terminal currents + ysh_k V_k,  ysh = (GS + j BS)/baseMVA  (makeYbus) *)
Definition flows (n : net) (k : nat) (v : Q) (sinj : C) : C :=
  mkC (qsub (qmul (re sinj) (base n)) (qmul (qmul v v) (GS n k)))
      (qadd (qmul (im sinj) (base n)) (qmul (qmul v v) (BS n k))).
(* nodal balance residual: reported consumption - reported generation + branch flows leaving the bus *)
Definition resid_p (n : net) (ref : list nat) (k : nat) (v : Q) (sinj : C) (f : C) : Q :=
  qadd (qsub (cons_p n k v) (gen_p n ref k v sinj)) (re f).
Definition resid_q (n : net) (k : nat) (v : Q) (sinj : C) (f : C) : Q :=
  qadd (qsub (cons_q n k v) (gen_q n k v sinj)) (im f).

(* demand-weighted fractions actually present at k *)
Definition act_p (l : load) : Q := qmul (qmul (l_p l) (l_sc l)) (b2q (l_on l)).
Definition act_q (l : load) : Q := qmul (qmul (l_q l) (l_sc l)) (b2q (l_on l)).
Definition sum_pci (n : net) (k : nat) : Q := sumf (fun l => qmul (act_p l) (pct (l_cip l))) (loads_at n k).
Definition sum_pcz (n : net) (k : nat) : Q := sumf (fun l => qmul (act_p l) (pct (l_czp l))) (loads_at n k).
Definition sum_qci (n : net) (k : nat) : Q := sumf (fun l => qmul (act_q l) (pct (l_ciq l))) (loads_at n k).
Definition sum_qcz (n : net) (k : nat) : Q := sumf (fun l => qmul (act_q l) (pct (l_czq l))) (loads_at n k).

(* size of the ZIP-averaging defect at k (zero when G01 holds) *)
Definition zipdef_p (n : net) (k : nat) (v : Q) : Q :=
  if negb (vdl n) then 0 else
  let z := zip_row n k in
  qadd (qmul (qsub v 1) (qsub (qmul (PD n k) (z_cip z)) (sum_pci n k)))
       (qmul (qsub (qmul v v) 1) (qsub (qmul (PD n k) (z_czp z)) (sum_pcz n k))).
Definition zipdef_q (n : net) (k : nat) (v : Q) : Q :=
  if negb (vdl n) then 0 else
  let z := zip_row n k in
  qadd (qmul (qsub v 1) (qsub (qmul (QD n k) (z_ciq z)) (sum_qci n k)))
       (qmul (qsub (qmul v v) 1) (qsub (qmul (QD n k) (z_czq z)) (sum_qcz n k))).
(* size of the defect of the OLD rule at generator buses: _update_p/_update_q added the *static* PD/QD *)
Definition gendef_p (n : net) (k : nat) (v : Q) : Q :=
  if negb (vdl n) then 0 else
  qadd (qmul (qsub v 1) (sum_pci n k)) (qmul (qsub (qmul v v) 1) (sum_pcz n k)).
Definition gendef_q (n : net) (k : nat) (v : Q) : Q :=
  if negb (vdl n) then 0 else
  qadd (qmul (qsub v 1) (sum_qci n k)) (qmul (qsub (qmul v v) 1) (sum_qcz n k)).
(* what the proportional Q split loses through the EPS in its denominator *)
Definition qsplit_loss (n : net) (k : nat) (v : Q) (sinj : C) : Q :=
  let G := gens_on_at n k in
  let qmin := sumf g_qmin G in let qmax := sumf g_qmax G in
  if Nat.ltb 1 (n_on n) && negb (qeqb qmin qmax)
  then qdiv (qmul (qsub (q_tot0 n k v sinj) qmin) EPS) (qadd (qsub qmax qmin) EPS) else 0.

(* ---------- guards (boolean, on the input only) *)
(* G01: the bus-row fractions represent the demand-weighted ZIP mix of the bus *)
Definition G01p (n : net) (k : nat) : bool :=
  negb (vdl n) ||
  (let z := zip_row n k in
   qeqb (qmul (PD n k) (z_cip z)) (sum_pci n k) && qeqb (qmul (PD n k) (z_czp z)) (sum_pcz n k)).
Definition G01q (n : net) (k : nat) : bool :=
  negb (vdl n) ||
  (let z := zip_row n k in
   qeqb (qmul (QD n k) (z_ciq z)) (sum_qci n k) && qeqb (qmul (QD n k) (z_czq z)) (sum_qcz n k)).
(* G01g (guard of the OLD rule only): no voltage-dependent demand at a bus whose generator result was computed from the
   static PD/QD *)
Definition G01gp (n : net) (k : nat) : bool := negb (vdl n) || (qeqb (sum_pci n k) 0 && qeqb (sum_pcz n k) 0).
Definition G01gq (n : net) (k : nat) : bool := negb (vdl n) || (qeqb (sum_qci n k) 0 && qeqb (sum_qcz n k) 0).

(* bus classes used by the theorems *)
Definition has_gen (n : net) (k : nat) : bool := negb (Nat.eqb (length (gens_on_at n k)) 0).
(* the P split at a ref bus is total: one gen, or at least one reference gen among several *)
Definition split_ok (n : net) (k : nat) : bool :=
  let G := gens_on_at n k in Nat.eqb (length G) 1 || (Nat.ltb 1 (length G) && existsb g_ref G).

(* ---------- DC power flow (pf/run_dc_pf.py:75-105, results as above with ac = False) *)
(* Pbus = real(makeSbus) - Pbusinj - GS/baseMVA: the bus shunt conductance enters at unit voltage, and after
   "fix: DC power flow reports shunt, ward and xward impedance powers at unit voltage" _get_shunt_results reports them
   at unit voltage too (_get_shunt_vm).  Before it scaled them with VM^2, VM = the value left in ppc["bus"][:, VM]
   (1.0, or the vm_pu setpoint at ext_grid / gen buses): kept as dc_cons_p_old.
   [gsum] = generation reported at the bus, [pinj] = (Bbus*Va)_k. *)
Definition dc_cons_p_old (n : net) (k : nat) (v : Q) : Q :=
  qadd (qadd (sumf act_p (loads_at n k)) (sumf (fun e => qmul (pq_sign e) (res_pq_p e)) (pqs_at n k)))
       (sumf (fun s => res_sh_p s v) (shunts_at n k)).
Definition dc_cons_p (n : net) (k : nat) : Q := dc_cons_p_old n k 1.
(* (Bbus*Va)_k is the sum of the DC branch flows leaving k; the bus shunt is not part of Bbus *)
Definition dc_flows (n : net) (k : nat) (pinj : Q) : Q := qmul pinj (base n).
Definition dc_mism (n : net) (k : nat) (pinj gsum : Q) : Q :=
  qsub (qmul pinj (base n)) (qsub (qsub gsum (PD n k)) (GS n k)).
Definition dc_resid_p (n : net) (k : nat) (pinj gsum : Q) : Q :=
  qadd (qsub (dc_cons_p n k) gsum) (dc_flows n k pinj).
Definition dc_resid_p_old (n : net) (k : nat) (v pinj gsum : Q) : Q :=
  qadd (qsub (dc_cons_p_old n k v) gsum) (dc_flows n k pinj).
Definition dcdef_p (n : net) (k : nat) (v : Q) : Q := qmul (qsub (qmul v v) 1) (GS n k).
Definition G01dc (n : net) (k : nat) (v : Q) : bool := qeqb (GS n k) 0 || qeqb (qmul v v) 1.
Definition run_dc (n : net) (vs : list Q) (nb : nat) : out :=
  OL (map (fun k => OL [oq (PD n k); oq (GS n k); oq (dc_cons_p n k);
                        OL (map (fun s => oq (res_sh_p s 1)) (shunts_at n k))]) (seq 0 nb)).

(* ---------- run wrappers (correspondence) *)
Definition run_busrow (n : net) (k : nat) : out :=
  let z := zip_row n k in
  OL [oq (PD n k); oq (QD n k); oq (z_cip z); oq (z_czp z); oq (z_ciq z); oq (z_czq z); oq (GS n k); oq (BS n k)].
Definition run_busrows (n : net) (nb : nat) : out := OL (map (run_busrow n) (seq 0 nb)).
Definition run_res (n : net) (vs : list Q) : out :=
  OL [ OL (map (fun l => OL [oq (res_load_p n l (vof vs (l_bus l))); oq (res_load_q n l (vof vs (l_bus l)))]) (loads n));
       OL (map (fun e => OL [oq (res_pq_p e); oq (res_pq_q e)]) (pqs n));
       OL (map (fun s => OL [oq (res_sh_p s (vof vs (s_bus s))); oq (res_sh_q s (vof vs (s_bus s)))]) (shunts n)) ].
Definition run_gens (n : net) (ref : list nat) (vs : list Q) (ss : list C) : out :=
  OL (map (fun g => OL [oq (pg_after n ref g (vof vs (g_bus g)) (sof ss (g_bus g)));
                        ooq (qg_after n g (vof vs (g_bus g)) (sof ss (g_bus g)))]) (gens n)).
Definition run_resbus (n : net) (ref : list nat) (vs : list Q) (ss : list C) (dclp dclq : list (nat * Q)) (pbs : list nat) : out :=
  OL (map (fun pb => OL [oq (res_bus_p_dcl n ref vs ss dclp pb); oq (res_bus_q_dcl n vs ss dclq pb)]) pbs).
(* predicted nodal residual per ppc bus from the injections (flows derived from Sinj and the bus shunt) *)
Definition run_resid (n : net) (ref : list nat) (vs : list Q) (ss : list C) (nb : nat) : out :=
  OL (map (fun k => let v := vof vs k in let s := sof ss k in let f := flows n k v s in
                    OL [oq (resid_p n ref k v s f); oq (resid_q n k v s f); oc f;
                        OB (G01p n k); OB (G01q n k)]) (seq 0 nb)).
Definition run_all (n : net) (ref : list nat) (vs : list Q) (ss : list C) (nb : nat) (dclp dclq : list (nat * Q)) (pbs : list nat) : out :=
  OL [run_busrows n nb; run_res n vs; run_gens n ref vs ss; run_resbus n ref vs ss dclp dclq pbs; run_resid n ref vs ss nb].

(* ---------- the rule before "fix: slack P and generator Q results use the voltage dependent bus demand ..." at a bus
   with a single generator row: the row got  inj + static PD / QD *)
Definition resid_p_ref_old (n : net) (k : nat) (v : Q) (sinj : C) : Q :=
  qadd (qsub (cons_p n k v) (p_bus_old n k sinj)) (re (flows n k v sinj)).
Definition resid_q_gen_old (n : net) (k : nat) (v : Q) (sinj : C) : Q :=
  qadd (qsub (cons_q n k v) (q_tot0_old n k sinj)) (im (flows n k v sinj)).

(* ---------- generators at a q limit (run_newton_raphson_pf.py:236-239): the q-limit loop switches a limited gen off and
   folds its PG/QG into the bus demand, bus[bi, [PD, QD]] -= gen[i, [PG, QG]], so _get_Sload scales the gen's power with
   the ZIP voltage factor of the bus.  [n] = the net as the last Newton run sees it (limited gens have g_on = false);
   pl, ql = total PG / fixed QG of the limited gens at bus k, which the result tables report unscaled. *)
Definition Sload_fold (n : net) (k : nat) (v pl ql : Q) : C :=
  if vdl n then
    let z := zip_row n k in
    mkC (qmul (qsub (PD n k) pl) (vdep (z_cip z) (z_czp z) v)) (qmul (qsub (QD n k) ql) (vdep (z_ciq z) (z_czq z) v))
  else mkC (qsub (PD n k) pl) (qsub (QD n k) ql).
Definition mism_fold_p (n : net) (k : nat) (v : Q) (sinj : C) (pl ql : Q) : Q :=
  qsub (qmul (re sinj) (base n)) (qsub (sumf g_pg (gens_on_at n k)) (re (Sload_fold n k v pl ql))).
Definition mism_fold_q (n : net) (k : nat) (v : Q) (sinj : C) (pl ql : Q) : Q :=
  qadd (qmul (im sinj) (base n)) (im (Sload_fold n k v pl ql)).
Definition resid_fold_p (n : net) (ref : list nat) (k : nat) (v : Q) (sinj : C) (pl : Q) : Q :=
  qsub (resid_p n ref k v sinj (flows n k v sinj)) pl.
Definition resid_fold_q (n : net) (k : nat) (v : Q) (sinj : C) (ql : Q) : Q :=
  qsub (resid_q n k v sinj (flows n k v sinj)) ql.
Definition qlimdef_p (n : net) (k : nat) (v pl : Q) : Q :=
  if negb (vdl n) then 0 else
  let z := zip_row n k in qmul pl (qadd (qmul (z_cip z) (qsub v 1)) (qmul (z_czp z) (qsub (qmul v v) 1))).
Definition qlimdef_q (n : net) (k : nat) (v ql : Q) : Q :=
  if negb (vdl n) then 0 else
  let z := zip_row n k in qmul ql (qadd (qmul (z_ciq z) (qsub v 1)) (qmul (z_czq z) (qsub (qmul v v) 1))).
(* guard: no limited generation folded into a voltage dependent bus demand *)
Definition G01ql (n : net) (k : nat) (pl ql : Q) : bool :=
  negb (vdl n) ||
  (let z := zip_row n k in
   qeqb (qmul pl (z_cip z)) 0 && qeqb (qmul pl (z_czp z)) 0 && qeqb (qmul ql (z_ciq z)) 0 && qeqb (qmul ql (z_czq z)) 0).
