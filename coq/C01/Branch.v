(* C01 — composed statement: C02 branch rows -> makeYbus stamps -> pfsoln flows -> nodal sum.
   The flow-sum identity of C01/Ybus.v is stated here for two-ports PRODUCED by the C02 branch model (C01/BranchModel.v)
   instead of two-ports given as inputs, and continued to the documented circuits in physical units through
   C02.Proofs.pu_eq_phys. *)
From Coq Require Import ZArith QArith List Bool Lia Lqa Setoid Morphisms.
From PPV Require Import Base.QN Base.QC C01.Model C01.Proofs C01.YbusModel C01.Ybus C01.BranchModel.
From PPV Require C31.Model C02.Model C02.Run C02.CPlain C02.CField C02.Proofs.
Import ListNotations.
Open Scope Q_scope.

Lemma Cscale_add k a b : Cscale k (Cadd a b) ==c Cadd (Cscale k a) (Cscale k b).
Proof. csimp. split; ring. Qed.
Lemma Cscale_0 k : Cscale k C0 ==c C0.
Proof. csimp. split; ring. Qed.
Lemma Cscale_scale k l a : Cscale k (Cscale l a) ==c Cscale (k * l) a.
Proof. csimp. split; ring. Qed.

(* one row: the C01 two-port flows of its stamps, scaled to MVA, are the C02 flows of the row *)
Lemma row_from p V sn : Cscale sn (s_from V (branch_of p)) ==c fst (row_flows V sn p) /\ b_f (branch_of p) = pr_f p.
Proof.
  unfold branch_of, row_flows. destruct (stamps_of p) as [[[a b] c] d]. cbn [b_f]. split; [|reflexivity].
  unfold s_from, i_from, C02.Model.flows. cbn [b_f b_t yff yft fst]. reflexivity.
Qed.
Lemma row_to p V sn : Cscale sn (s_to V (branch_of p)) ==c snd (row_flows V sn p) /\ b_t (branch_of p) = pr_t p.
Proof.
  unfold branch_of, row_flows. destruct (stamps_of p) as [[[a b] c] d]. cbn [b_t]. split; [|reflexivity].
  unfold s_to, i_to, C02.Model.flows. cbn [b_f b_t ytf ytt snd]. reflexivity.
Qed.

Lemma scaled_flow_sum ps V sn k : Cscale sn (flow_sum (map branch_of ps) V k) ==c row_flow_sum ps V sn k.
Proof.
  unfold row_flow_sum, flow_table. induction ps as [|p r IH]; cbn [map flow_sum tab_sum].
  - apply Cscale_0.
  - rewrite !Cscale_add, IH.
    destruct (row_from p V sn) as [E1 F1]. destruct (row_to p V sn) as [E2 F2]. rewrite F1, F2.
    assert (A : Cscale sn (if Nat.eqb (pr_f p) k then s_from V (branch_of p) else C0) ==c
                (if Nat.eqb (pr_f p) k then fst (row_flows V sn p) else C0))
      by (destruct (Nat.eqb (pr_f p) k); [exact E1 | apply Cscale_0]).
    assert (B : Cscale sn (if Nat.eqb (pr_t p) k then s_to V (branch_of p) else C0) ==c
                (if Nat.eqb (pr_t p) k then snd (row_flows V sn p) else C0))
      by (destruct (Nat.eqb (pr_t p) k); [exact E2 | apply Cscale_0]).
    rewrite A, B. reflexivity.
Qed.

(* T (rows -> stamps -> flows -> nodal sum): for every list of C02 branch rows, bus shunt, voltage vector and bus k
   the injection V_k conj((Ybus V)_k) [MVA] of the Ybus assembled from the rows' makeYbus stamps equals the sum of the
   rows' pfsoln terminal flows at k plus the bus-shunt term *)
Lemma rows_flow_sum_identity : forall ps ysh V sn k,
  Cscale sn (s_inj (map branch_of ps) ysh V k)
  ==c Cadd (row_flow_sum ps V sn k) (Cscale (sn * cnorm2 (vat V k)) (Cconj ysh)).
Proof.
  intros ps ysh V sn k. rewrite (flow_sum_identity (map branch_of ps) ysh V k), Cscale_add, scaled_flow_sum, Cscale_scale.
  reflexivity.
Qed.

(* the same for rows built from element models: whenever build_rows succeeds (no element raises) *)
Lemma built_rows_flow_sum_identity : forall es ps ysh V sn k,
  build_rows es = C02.Model.Ok ps ->
  Cscale sn (s_inj (map branch_of ps) ysh V k)
  ==c Cadd (row_flow_sum ps V sn k) (Cscale (sn * cnorm2 (vat V k)) (Cconj ysh)).
Proof. intros es ps ysh V sn k _. apply rows_flow_sum_identity. Qed.
(* every built row is in service and is stamped without an exception *)
Lemma built_rows_ok : forall es ps, build_rows es = C02.Model.Ok ps ->
  Forall (fun p => C02.Model.b_stat (pr_row p) = true /\ C02.Model.stamps (pr_row p) (pr_e p) = C02.Model.Ok (stamps_of p)) ps.
Proof.
  induction es as [|[[[[f t] r] ee] base] es IH]; intros ps H; cbn [build_rows fold_right] in H.
  - injection H as <-. constructor.
  - fold (build_rows es) in H. destruct r as [row|er]; [|discriminate].
    destruct (build_rows es) as [ps'|er] eqn:E; [|discriminate].
    destruct (C02.Model.b_stat row) eqn:Es.
    + destruct (C02.Model.stamps row ee) as [y|er] eqn:Ey; [|discriminate]. injection H as <-.
      constructor; [|apply IH; reflexivity]. cbn [pr_row pr_e]. split; [exact Es|].
      unfold stamps_of. cbn [pr_row pr_e]. unfold C02.Model.stamps in *.
      destruct (_ || _); [discriminate | reflexivity].
    + injection H as <-. apply IH. reflexivity.
Qed.

(* ---------------------------------------------------------------- continuation to physical units (C02.Proofs.pu_eq_phys) *)
Definition row_ok (sn : Q) (p : prow) : Prop :=
  let br := pr_row p in
  C02.Model.b_stat br = true /\
  ~ C02.Model.b_r br * C02.Model.b_r br + C02.Model.b_x br * C02.Model.b_x br == 0 /\
  ~ (C02.Model.b_r br + C02.Model.b_ra br) * (C02.Model.b_r br + C02.Model.b_ra br)
    + (C02.Model.b_x br + C02.Model.b_xa br) * (C02.Model.b_x br + C02.Model.b_xa br) == 0 /\
  ~ C02.Model.b_tap br == 0 /\ re (pr_e p) * re (pr_e p) + im (pr_e p) * im (pr_e p) == 1 /\ ~ sn == 0 /\ ~ pr_base p == 0.
(* terminal powers [MVA] of the documented circuit of the row: ideal transformer TAP e^{j SHIFT} at the from side, then the pi
   two-port with Z = z_pu base^2/sn [Ohm], Y = y_pu sn/base^2 [S] on the voltages in kV *)
Definition row_phys (V : list C) (sn : Q) (p : prow) : C * C :=
  let br := pr_row p in let base := pr_base p in
  C02.Proofs.pi_flows_phys2
    (Cscale (base * base / sn) (mkC (C02.Model.b_r br) (C02.Model.b_x br)))
    (Cscale (base * base / sn) (mkC (C02.Model.b_r br + C02.Model.b_ra br) (C02.Model.b_x br + C02.Model.b_xa br)))
    (Cscale (1 / (2 * (base * base / sn))) (mkC (C02.Model.b_g br) (C02.Model.b_b br)))
    (Cscale (1 / (2 * (base * base / sn))) (mkC (C02.Model.b_g br + C02.Model.b_ga br) (C02.Model.b_b br + C02.Model.b_ba br)))
    (Cscale base (Cdiv (vat V (pr_f p)) (Cscale (C02.Model.b_tap br) (pr_e p)))) (Cscale base (vat V (pr_t p))).
Fixpoint phys_flow_sum (ps : list prow) (V : list C) (sn : Q) (k : nat) : C :=
  match ps with
  | [] => C0
  | p :: r => Cadd (Cadd (if Nat.eqb (pr_f p) k then fst (row_phys V sn p) else C0)
                         (if Nat.eqb (pr_t p) k then snd (row_phys V sn p) else C0))
                   (phys_flow_sum r V sn k)
  end.

Lemma row_flows_phys p V sn : row_ok sn p ->
  fst (row_flows V sn p) ==c fst (row_phys V sn p) /\ snd (row_flows V sn p) ==c snd (row_phys V sn p).
Proof.
  intros (Hs & Hz & Hzt & Ht & He & Hsn & Hb).
  exact (C02.Proofs.pu_eq_phys (pr_row p) (pr_e p) (vat V (pr_f p)) (vat V (pr_t p)) sn (pr_base p) Hs Hz Hzt Ht He Hsn Hb).
Qed.

Lemma row_flow_sum_phys ps V sn k : Forall (row_ok sn) ps -> row_flow_sum ps V sn k ==c phys_flow_sum ps V sn k.
Proof.
  unfold row_flow_sum, flow_table. induction 1 as [|p r Hp _ IH]; cbn [map tab_sum phys_flow_sum]; [reflexivity|].
  destruct (row_flows_phys p V sn Hp) as [E1 E2]. rewrite IH.
  destruct (Nat.eqb (pr_f p) k), (Nat.eqb (pr_t p) k); rewrite ?E1, ?E2; reflexivity.
Qed.

(* T (composed, physical units): the nodal injection [MVA] of the assembled Ybus equals the sum of the terminal powers of
   the documented circuits (kV, Ohm, S) of all rows at k plus the bus-shunt term *)
Lemma rows_nodal_sum_physical : forall ps ysh V sn k, Forall (row_ok sn) ps ->
  Cscale sn (s_inj (map branch_of ps) ysh V k)
  ==c Cadd (phys_flow_sum ps V sn k) (Cscale (sn * cnorm2 (vat V k)) (Cconj ysh)).
Proof. intros ps ysh V sn k H. rewrite rows_flow_sum_identity, (row_flow_sum_phys ps V sn k H). reflexivity. Qed.

(* ---------------------------------------------------------------- element level: a network of lines
   element parameters -> _calc_line_parameter row -> stamps -> flows -> nodal sum = documented line pi circuits *)
Record lrow := mkL { lr_f : nat; lr_t : nat; lr_line : C02.Model.line; lr_base : Q; lr_vnfrom : Q }.
Definition line_prow (sn fhz pi sqrt3 : Q) (x : lrow) : prow :=
  mkP (lr_f x) (lr_t x) (C02.Model.line_branch sn fhz pi sqrt3 (lr_base x) (lr_vnfrom x) (lr_line x)) C1 (lr_base x).
Definition line_ok (x : lrow) : Prop :=
  C02.Model.l_in (lr_line x) = true /\ ~ lr_base x == 0 /\ ~ C02.Model.l_par (lr_line x) == 0 /\
  ~ cnorm2 (C02.Model.line_z_phys (lr_line x)) == 0.
Definition line_phys (fhz pi : Q) (V : list C) (x : lrow) : C * C :=
  C02.Model.line_flows_phys fhz pi (lr_line x) (Cscale (lr_base x) (vat V (lr_f x))) (Cscale (lr_base x) (vat V (lr_t x))).
Fixpoint line_flow_sum (fhz pi : Q) (ls : list lrow) (V : list C) (k : nat) : C :=
  match ls with
  | [] => C0
  | x :: r => Cadd (Cadd (if Nat.eqb (lr_f x) k then fst (line_phys fhz pi V x) else C0)
                         (if Nat.eqb (lr_t x) k then snd (line_phys fhz pi V x) else C0))
                   (line_flow_sum fhz pi r V k)
  end.

Lemma lines_nodal_sum_documented : forall sn fhz pi sqrt3 ls ysh V k, ~ sn == 0 -> Forall line_ok ls ->
  Cscale sn (s_inj (map branch_of (map (line_prow sn fhz pi sqrt3) ls)) ysh V k)
  ==c Cadd (line_flow_sum fhz pi ls V k) (Cscale (sn * cnorm2 (vat V k)) (Cconj ysh)).
Proof.
  intros sn fhz pi sqrt3 ls ysh V k Hsn H. rewrite rows_flow_sum_identity.
  assert (E : row_flow_sum (map (line_prow sn fhz pi sqrt3) ls) V sn k ==c line_flow_sum fhz pi ls V k).
  { unfold row_flow_sum, flow_table.
    induction H as [|x r (Hin & Hb & Hp & Hz) _ IH]; cbn [map tab_sum line_flow_sum]; [reflexivity|].
    rewrite IH.
    destruct (C02.Proofs.line_pu_eq_physical sn fhz pi sqrt3 (lr_base x) (lr_vnfrom x) (lr_line x)
                (vat V (lr_f x)) (vat V (lr_t x)) Hin Hsn Hb Hp Hz) as [E1 E2].
    unfold row_flows, stamps_of, line_prow, line_phys. cbn [pr_f pr_t pr_row pr_e].
    destruct (Nat.eqb (lr_f x) k), (Nat.eqb (lr_t x) k); rewrite ?E1, ?E2; reflexivity. }
  rewrite E. reflexivity.
Qed.

(* ---------------------------------------------------------------- the balance formulas with the flows of the C02 rows
   [flows n k v s] (injection minus bus shunt, the quantity the imbalance formulas of C01/Balance.v are stated with) IS the
   sum of the terminal flows of the C02 rows at k when s is the injection of the Ybus assembled from these rows *)
From PPV Require Import C01.Balance.
Lemma flows_is_row_flow_sum n ps V k v :
  ~ base n == 0 -> v * v == cnorm2 (vat V k) ->
  flows n k v (s_inj (map branch_of ps) (mkC (qdiv (GS n k) (base n)) (qdiv (BS n k) (base n))) V k)
  ==c row_flow_sum ps V (base n) k.
Proof. intros Hb Hv. rewrite (flows_is_flow_sum n (map branch_of ps) V k v Hb Hv). apply scaled_flow_sum. Qed.

(* nodal P imbalance at PQ / PV buses, end to end: reported consumption - reported generation + the terminal flows of the
   C02 branch rows = Newton mismatch - ZIP-averaging defect *)
Lemma rows_imbalance_p n ref ps V k v :
  ~ base n == 0 -> v * v == cnorm2 (vat V k) -> (memn k ref && has_gen n k) = false ->
  let s := s_inj (map branch_of ps) (mkC (qdiv (GS n k) (base n)) (qdiv (BS n k) (base n))) V k in
  resid_p n ref k v s (row_flow_sum ps V (base n) k) == mism_p n k v s - zipdef_p n k v.
Proof.
  intros Hb Hv H s. rewrite <- (imbalance_p n ref k v s H).
  destruct (flows_is_row_flow_sum n ps V k v Hb Hv) as [E _]. fold s in E.
  unfold resid_p. qnorm. rewrite E. reflexivity.
Qed.
Lemma rows_imbalance_q n ps V k v :
  ~ base n == 0 -> v * v == cnorm2 (vat V k) -> has_gen n k = false ->
  let s := s_inj (map branch_of ps) (mkC (qdiv (GS n k) (base n)) (qdiv (BS n k) (base n))) V k in
  resid_q n k v s (row_flow_sum ps V (base n) k) == mism_q n k v s - zipdef_q n k v.
Proof.
  intros Hb Hv H s. rewrite <- (imbalance_q n k v s H).
  destruct (flows_is_row_flow_sum n ps V k v Hb Hv) as [_ E]. fold s in E.
  unfold resid_q. qnorm. rewrite E. reflexivity.
Qed.
