(* C01 — lemmas about the bus / generator / result side of the PF core (all inputs, unbounded lists). *)
From Coq Require Import ZArith QArith Qabs List Bool Lia Lqa Setoid Morphisms.
From PPV Require Import Base.QN Base.QC C01.Model.
Import ListNotations.
Open Scope Q_scope.

(* ------------------------------------------------------------------ sums *)
Section Sums.
  Context {A : Type}.
  Implicit Types (f g h : A -> Q) (l : list A).

  Lemma sumf_nil f : sumf f [] == 0.
  Proof. reflexivity. Qed.
  Lemma sumf_cons f x l : sumf f (x :: l) == f x + sumf f l.
  Proof. unfold sumf. cbn [fold_right]. apply qadd_correct. Qed.
  Lemma sumf_ext f g l : (forall x, In x l -> f x == g x) -> sumf f l == sumf g l.
  Proof.
    induction l as [|a l IH]; intros H; [reflexivity|].
    rewrite !sumf_cons, IH, (H a); [reflexivity | left; reflexivity | intros x Hx; apply H; right; exact Hx].
  Qed.
  Lemma sumf_app f l1 l2 : sumf f (l1 ++ l2) == sumf f l1 + sumf f l2.
  Proof.
    induction l1 as [|a l1 IH]; cbn [app]; [rewrite sumf_nil; ring|].
    rewrite !sumf_cons, IH. ring.
  Qed.
  Lemma sumf_add f g l : sumf (fun x => f x + g x) l == sumf f l + sumf g l.
  Proof. induction l as [|a l IH]; [rewrite !sumf_nil; ring|]. rewrite !sumf_cons, IH. ring. Qed.
  Lemma sumf_scale c f l : sumf (fun x => c * f x) l == c * sumf f l.
  Proof. induction l as [|a l IH]; [rewrite !sumf_nil; ring|]. rewrite !sumf_cons, IH. ring. Qed.
  Lemma sumf_const c l : sumf (fun _ => c) l == nq (length l) * c.
  Proof.
    induction l as [|a l IH]; [rewrite sumf_nil; unfold nq; cbn; ring|].
    rewrite sumf_cons, IH. unfold nq. cbn [length]. rewrite Nat2Z.inj_succ, <- Z.add_1_r, inject_Z_plus. ring.
  Qed.
  Lemma sumf_partition (p : A -> bool) f l :
    sumf f l == sumf f (filter p l) + sumf f (filter (fun x => negb (p x)) l).
  Proof.
    induction l as [|a l IH]; [cbn [filter]; rewrite !sumf_nil; ring|].
    cbn [filter]. destruct (p a); cbn [negb]; rewrite !sumf_cons, IH; ring.
  Qed.
  Lemma sumf_filter_zero (p : A -> bool) f l :
    sumf f (filter p l) == sumf (fun x => if p x then f x else 0) l.
  Proof.
    induction l as [|a l IH]; [reflexivity|]. cbn [filter].
    destruct (p a) eqn:E; rewrite ?sumf_cons, IH, ?E; ring.
  Qed.
End Sums.

Lemma sumf_map {A B} (m : B -> A) (f : A -> Q) (l : list B) : sumf f (map m l) == sumf (fun x => f (m x)) l.
Proof. induction l as [|a l IH]; [reflexivity|]. cbn [map]. rewrite !sumf_cons, IH. reflexivity. Qed.

Lemma nq_pos n : (0 < n)%nat -> 0 < nq n.
Proof. intros H. unfold nq. change 0 with (inject_Z 0). rewrite <- Zlt_Qlt. lia. Qed.
Lemma nq_nonzero n : (0 < n)%nat -> ~ nq n == 0.
Proof. intros H E. pose proof (nq_pos n H) as P. rewrite E in P. apply (Qlt_irrefl 0 P). Qed.

(* ------------------------------------------------------------------ per-table identities *)
Lemma b2q_sq b : b2q b * b2q b == b2q b.
Proof. destruct b; cbn; ring. Qed.

Lemma load_p0_act l : load_p0 l == act_p l.
Proof. unfold load_p0, act_p. qnorm. ring. Qed.
Lemma load_q0_act l : load_q0 l == act_q l.
Proof. unfold load_q0, act_q. qnorm. ring. Qed.

Lemma res_load_p_vdl n l v : vdl n = true ->
  res_load_p n l v == act_p l + (v - 1) * (act_p l * pct (l_cip l)) + (v * v - 1) * (act_p l * pct (l_czp l)).
Proof. intros H. unfold res_load_p, act_p. rewrite H. qnorm. ring. Qed.
Lemma res_load_q_vdl n l v : vdl n = true ->
  res_load_q n l v == act_q l + (v - 1) * (act_q l * pct (l_ciq l)) + (v * v - 1) * (act_q l * pct (l_czq l)).
Proof. intros H. unfold res_load_q, act_q. rewrite H. qnorm. ring. Qed.
Lemma res_load_p_novdl n l v : vdl n = false -> res_load_p n l v == act_p l.
Proof. intros H. unfold res_load_p, act_p. rewrite H. qnorm. ring. Qed.
Lemma res_load_q_novdl n l v : vdl n = false -> res_load_q n l v == act_q l.
Proof. intros H. unfold res_load_q, act_q. rewrite H. qnorm. ring. Qed.

Lemma pq_res_p e : qmul (pq_sign e) (res_pq_p e) == pq_p0 e.
Proof. unfold pq_p0, res_pq_p. qnorm. ring. Qed.
Lemma pq_res_q e : qmul (pq_sign e) (res_pq_q e) == pq_q0 e.
Proof. unfold pq_q0, res_pq_q. qnorm. ring. Qed.
Lemma sh_res_p s v : res_sh_p s v == v * v * sh_p0 s.
Proof. unfold res_sh_p, sh_p0. qnorm. ring. Qed.
Lemma sh_res_q s v : res_sh_q s v == v * v * sh_q0 s.
Proof. unfold res_sh_q, sh_q0. qnorm. ring. Qed.

(* sums of the reported load results over any list of loads *)
Lemma sum_res_load_p_vdl n v L : vdl n = true ->
  sumf (fun l => res_load_p n l v) L ==
  sumf act_p L + (v - 1) * sumf (fun l => qmul (act_p l) (pct (l_cip l))) L
               + (v * v - 1) * sumf (fun l => qmul (act_p l) (pct (l_czp l))) L.
Proof.
  intros H. induction L as [|a L IH]; [rewrite !sumf_nil; ring|].
  rewrite !sumf_cons, IH, (res_load_p_vdl n a v H). qnorm. ring.
Qed.
Lemma sum_res_load_q_vdl n v L : vdl n = true ->
  sumf (fun l => res_load_q n l v) L ==
  sumf act_q L + (v - 1) * sumf (fun l => qmul (act_q l) (pct (l_ciq l))) L
               + (v * v - 1) * sumf (fun l => qmul (act_q l) (pct (l_czq l))) L.
Proof.
  intros H. induction L as [|a L IH]; [rewrite !sumf_nil; ring|].
  rewrite !sumf_cons, IH, (res_load_q_vdl n a v H). qnorm. ring.
Qed.
Lemma sum_res_load_p_novdl n v L : vdl n = false -> sumf (fun l => res_load_p n l v) L == sumf act_p L.
Proof. intros H. apply sumf_ext. intros x _. apply res_load_p_novdl. exact H. Qed.
Lemma sum_res_load_q_novdl n v L : vdl n = false -> sumf (fun l => res_load_q n l v) L == sumf act_q L.
Proof. intros H. apply sumf_ext. intros x _. apply res_load_q_novdl. exact H. Qed.
Lemma sum_load_p0 L : sumf load_p0 L == sumf act_p L.
Proof. apply sumf_ext. intros x _. apply load_p0_act. Qed.
Lemma sum_load_q0 L : sumf load_q0 L == sumf act_q L.
Proof. apply sumf_ext. intros x _. apply load_q0_act. Qed.
Lemma sum_pq_res_p L : sumf (fun e => qmul (pq_sign e) (res_pq_p e)) L == sumf pq_p0 L.
Proof. apply sumf_ext. intros x _. apply pq_res_p. Qed.
Lemma sum_pq_res_q L : sumf (fun e => qmul (pq_sign e) (res_pq_q e)) L == sumf pq_q0 L.
Proof. apply sumf_ext. intros x _. apply pq_res_q. Qed.
Lemma sum_sh_res_p v L : sumf (fun s => res_sh_p s v) L == v * v * sumf sh_p0 L.
Proof. rewrite <- sumf_scale. apply sumf_ext. intros x _. apply sh_res_p. Qed.
Lemma sum_sh_res_q v L : sumf (fun s => res_sh_q s v) L == v * v * sumf sh_q0 L.
Proof. rewrite <- sumf_scale. apply sumf_ext. intros x _. apply sh_res_q. Qed.

(* reported consumption at a ppc bus in closed form *)
Lemma cons_p_closed n k v :
  cons_p n k v == PD n k + v * v * GS n k
    + (if vdl n then (v - 1) * sum_pci n k + (v * v - 1) * sum_pcz n k else 0).
Proof.
  unfold cons_p, PD, GS, sum_pci, sum_pcz. qnorm.
  rewrite sum_pq_res_p, sum_sh_res_p, sum_load_p0.
  destruct (vdl n) eqn:V.
  - rewrite (sum_res_load_p_vdl n v _ V). ring.
  - rewrite (sum_res_load_p_novdl n v _ V). ring.
Qed.
Lemma cons_q_closed n k v :
  cons_q n k v == QD n k - v * v * BS n k
    + (if vdl n then (v - 1) * sum_qci n k + (v * v - 1) * sum_qcz n k else 0).
Proof.
  unfold cons_q, QD, BS, sum_qci, sum_qcz. qnorm.
  rewrite sum_pq_res_q, sum_sh_res_q, sum_load_q0.
  destruct (vdl n) eqn:V.
  - rewrite (sum_res_load_q_vdl n v _ V). ring.
  - rewrite (sum_res_load_q_novdl n v _ V). ring.
Qed.

(* the voltage dependent bus load of makeSbus in closed form *)
Lemma Sload_re n k v :
  re (Sload n k v) == PD n k + (if vdl n then (v - 1) * (PD n k * z_cip (zip_row n k)) + (v * v - 1) * (PD n k * z_czp (zip_row n k)) else 0).
Proof. unfold Sload, vdep. destruct (vdl n); cbn [re]; qnorm; ring. Qed.
Lemma Sload_im n k v :
  im (Sload n k v) == QD n k + (if vdl n then (v - 1) * (QD n k * z_ciq (zip_row n k)) + (v * v - 1) * (QD n k * z_czq (zip_row n k)) else 0).
Proof. unfold Sload, vdep. destruct (vdl n); cbn [im]; qnorm; ring. Qed.
