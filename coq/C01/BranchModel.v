(* C01 — the branches of the nodal balance as ROWS OF THE C02 BRANCH MODEL (executable definitions, no proofs).
   C01/YbusModel.v takes the four two-port entries (Yff, Yft, Ytf, Ytt) of a branch as inputs.  Here they are produced:
   a ppc branch row of C02/Model.v (line_branch, trafo_branch / Run.trafo_row, Run.t3_row, impedance_branch, xward_branch,
   switch_branch: build_branch.py) is stamped by C02.Model.stamps (makeYbus.branch_vectors) into that two-port, and the
   terminal flows are those of C02.Model.flows (pfsoln :61-64, MVA).  C02 is required without Import: its names are
   written qualified (C01.Model has its own [flows]). *)
From Coq Require Import ZArith QArith List Bool String.
From PPV Require Import Base.QN Base.QC Base.Out C01.Model C01.YbusModel.
From PPV Require C31.Model C02.Model C02.Run.
Import ListNotations.
Open Scope Q_scope.

(* one in-service ppc branch: from / to bus (ppci numbering), its branch row, e = (cos, sin) of SHIFT (oracle),
   pr_base = BASE_KV of the to bus (used by the physical-units statement only) *)
Record prow := mkP { pr_f : nat; pr_t : nat; pr_row : C02.Model.brow; pr_e : C; pr_base : Q }.

Definition stamps_of (p : prow) : C * C * C * C := C02.Model.stamps_core (pr_row p) (pr_e p).
(* the two-port of C01/YbusModel.v made of the row's stamps *)
Definition branch_of (p : prow) : branch :=
  let '(a, b, c, d) := stamps_of p in mkBr (pr_f p) (pr_t p) a b c d.
(* terminal flows (S_from, S_to) [MVA] of the row as computed by the C02 model of pfsoln *)
Definition row_flows (V : list C) (sn : Q) (p : prow) : C * C :=
  C02.Model.flows (stamps_of p) (vat V (pr_f p)) (vat V (pr_t p)) sn.
(* sum of the terminal flows [MVA] of the rows at bus k; the flows are tabulated once (f, t, (S_from, S_to)) *)
Definition flow_table (ps : list prow) (V : list C) (sn : Q) : list (nat * nat * (C * C)) :=
  map (fun p => (pr_f p, pr_t p, row_flows V sn p)) ps.
Fixpoint tab_sum (tab : list (nat * nat * (C * C))) (k : nat) : C :=
  match tab with
  | [] => C0
  | (f, t, s) :: r => Cadd (Cadd (if Nat.eqb f k then fst s else C0) (if Nat.eqb t k then snd s else C0)) (tab_sum r k)
  end.
Definition row_flow_sum (ps : list prow) (V : list C) (sn : Q) (k : nat) : C := tab_sum (flow_table ps V sn) k.

(* building the rows: the element models may raise (df <= 0, ideal phase shifter with both steps, zero impedance, NaN);
   rows with BR_STATUS = 0 are dropped (ppc -> ppci keeps in-service branches only) *)
Definition build_rows (es : list (nat * nat * C02.Model.res C02.Model.brow * C * Q)) : C02.Model.res (list prow) :=
  fold_right (fun e acc =>
    let '(f, t, r, ee, base) := e in
    match r, acc with
    | C02.Model.Raise er, _ => C02.Model.Raise er
    | _, C02.Model.Raise er => C02.Model.Raise er
    | C02.Model.Ok row, C02.Model.Ok ps =>
        if C02.Model.b_stat row then
          match C02.Model.stamps row ee with
          | C02.Model.Ok _ => C02.Model.Ok (mkP f t row ee base :: ps)
          | C02.Model.Raise er => C02.Model.Raise er
          end
        else C02.Model.Ok ps
    end) (C02.Model.Ok []) es.

(* correspondence wrapper: per bus the injection V_k conj((Ybus V)_k) * sn from the Ybus assembled of the rows' stamps,
   and the sum of the rows' terminal flows [MVA] *)
Definition run_rows (es : list (nat * nat * C02.Model.res C02.Model.brow * C * Q)) (ysh V : list C) (sn : Q) (nb : nat) : out :=
  match build_rows es with
  | C02.Model.Raise er => OErr er
  | C02.Model.Ok ps =>
      let brs := map branch_of ps in let tab := flow_table ps V sn in
      OL (map (fun k => OL [oc (Cscale sn (s_inj brs (nth k ysh C0) V k)); oc (tab_sum tab k)]) (seq 0 nb))
  end.
