(* C01 — executable definitions of the Ybus assembly / branch terminal flows (pypower/makeYbus.py:76-88,
   pypower/pfsoln.py:60-64).  Proofs are in C01/Ybus.v. *)
From Coq Require Import ZArith QArith List Bool.
From PPV Require Import Base.QN Base.QC Base.Out C01.Model.
Import ListNotations.
Open Scope Q_scope.

Record branch := mkBr { b_f : nat; b_t : nat; yff : C; yft : C; ytf : C; ytt : C }.
Definition vat (V : list C) (k : nat) : C := nth k V C0.
(* Yf*V and Yt*V rows: currents injected into the branch at its two terminals *)
Definition i_from (V : list C) (b : branch) : C := Cadd (Cmul (yff b) (vat V (b_f b))) (Cmul (yft b) (vat V (b_t b))).
Definition i_to (V : list C) (b : branch) : C := Cadd (Cmul (ytf b) (vat V (b_f b))) (Cmul (ytt b) (vat V (b_t b))).
(* pfsoln: Sf = V[f] conj(Yf V), St = V[t] conj(Yt V)  (p.u.) *)
Definition s_from (V : list C) (b : branch) : C := Cmul (vat V (b_f b)) (Cconj (i_from V b)).
Definition s_to (V : list C) (b : branch) : C := Cmul (vat V (b_t b)) (Cconj (i_to V b)).
(* (Ybus V)_k with Ybus = Cf' Yf + Ct' Yt + diag(ysh) *)
Fixpoint ybus_row (brs : list branch) (V : list C) (k : nat) : C :=
  match brs with
  | [] => C0
  | b :: r => Cadd (Cadd (if Nat.eqb (b_f b) k then i_from V b else C0) (if Nat.eqb (b_t b) k then i_to V b else C0))
                   (ybus_row r V k)
  end.
Definition ybusV (brs : list branch) (ysh : C) (V : list C) (k : nat) : C := Cadd (ybus_row brs V k) (Cmul ysh (vat V k)).
Definition s_inj (brs : list branch) (ysh : C) (V : list C) (k : nat) : C := Cmul (vat V k) (Cconj (ybusV brs ysh V k)).
(* sum of the terminal flows of the branches at k *)
Fixpoint flow_sum (brs : list branch) (V : list C) (k : nat) : C :=
  match brs with
  | [] => C0
  | b :: r => Cadd (Cadd (if Nat.eqb (b_f b) k then s_from V b else C0) (if Nat.eqb (b_t b) k then s_to V b else C0))
                   (flow_sum r V k)
  end.


(* correspondence wrapper: per bus the injection from the assembled rows and the branch flow sum (p.u.) *)
Definition run_ybus (brs : list branch) (ysh : list C) (V : list C) (nb : nat) : out :=
  OL (map (fun k => OL [oc (s_inj brs (nth k ysh C0) V k); oc (flow_sum brs V k)]) (seq 0 nb)).
