(* C08 — stage machines of the calculation pipelines with a crash point, and the auxiliary-element bookkeeping.
   Anchors (working tree after the repairs "fix: tap dependency table no longer overwrites vk_percent ...",
   "fix: auxiliary dcline generators are tracked and always removed ..." and "fix: auxiliary gens are tracked before
   they are created; auxiliary b2b vsc's are tracked by index, not by name"):
     auxiliary.py   _add_dcline_gens (:1582-1619), _add_b2b_vsc (:1622-1669), _add_auxiliary_elements (:1672-1686),
                    _clean_up (:1218-1255)
     powerflow.py   _powerflow (:29-47), _powerflow_with_auxiliary_elements (:50-79), _ppci_to_net (:169-189)
     optimal_powerflow.py  _optimal_powerflow (:29-50), _optimal_powerflow_with_auxiliary_elements (:53-93)
     shortcircuit/calc_sc.py  calc_sc (:155-165), _calc_sc (:207-221), _calc_sc_1ph (:224-268),
     shortcircuit/ppc_conversion.py _init_ppc (:30-49),  shortcircuit/impedance.py _calc_zbus (:51-64)
     pf/runpp_3ph.py  (:640-650, no auxiliary elements are added, _clean_up is called)
     build_branch.py _get_vk_values_from_table (the repaired version works on a copy)
   The behaviour before the repairs is kept as `_old` operations / pipelines: `Old` = the original code (no tracking,
   trailing-rows cleanup, no try statement, tap table written into net.trafo), `Mid` = after the first tracking repair
   (index tracked only after create_gen returned, b2b vsc's cleaned up by name).
   Tables = lists of rows with explicit ids; cell contents are an opaque payload (rows are only added or dropped).
   Executable definitions only. *)
From Coq Require Import ZArith List Bool String.
From PPV Require Import Base.Out.
Import ListNotations.
Open Scope Z_scope.

Record grow := { g_id : Z; g_data : Z }.                       (* a row of net.gen *)
Inductive vname := NB2B (i : Z) (plus : bool)                  (* "b2b_<i>+" / "b2b_<i>-"  (get_b2b_vsc_names) *)
                 | NOther (n : Z).                             (* any other name *)
Record vrow := { v_id : Z; v_name : vname; v_data : Z }.       (* a row of net.vsc *)
Record trow := { t_id : Z; t_vk : Z; t_tab : option Z }.       (* net.trafo: vk_percent cell; value the tap table yields
                                                                  for the current tap_pos if tap_dependency_table *)
Record net := {
  gen : list grow;
  res_gen : list Z;                 (* index of net.res_gen *)
  vsc : list vrow;
  trafo : list trow;
  dcline : list Z;                  (* payloads of the dcline rows, one entry per dcline *)
  b2b : list Z;                     (* index of net.b2b_vsc *)
  tracked : option (list Z);        (* net._aux_elements["gen"]; None = key absent *)
  tracked_v : option (list Z)       (* net._aux_elements["vsc"] *)
}.

Definition ids (l : list grow) : list Z := map g_id l.
(* create_gen(index=None): get_free_id = max(index) + 1, 0 for an empty table *)
Definition next_id (l : list Z) : Z := fold_left (fun m i => Z.max m (i + 1)) l 0.
Fixpoint memz (x : Z) (l : list Z) : bool := match l with [] => false | y :: r => Z.eqb x y || memz x r end.
Definition is_b2b_name (bs : list Z) (nm : vname) : bool :=
  match nm with NB2B i _ => memz i bs | NOther _ => false end.

(* record update helpers *)
Definition upd (n : net) (g : list grow) (rg : list Z) (v : list vrow) (t : option (list Z)) (tv : option (list Z)) : net :=
  {| gen := g; res_gen := rg; vsc := v; trafo := trafo n; dcline := dcline n; b2b := b2b n; tracked := t; tracked_v := tv |}.
Definition olist_ (t : option (list Z)) : list Z := match t with Some l => l | None => [] end.

Definition drop_ids (t : list Z) (l : list grow) : list grow := filter (fun g => negb (memz (g_id g) t)) l.
Definition drop_vids (t : list Z) (l : list vrow) : list vrow := filter (fun v => negb (memz (v_id v) t)) l.
Definition drop_z (t : list Z) (l : list Z) : list Z := filter (fun i => negb (memz i t)) l.
Definition last_z (l : list Z) : option Z := match rev l with [] => None | x :: _ => Some x end.

(* ---- atomic table operations *)
Inductive aop :=
(* the repaired code *)
| APrepareGen                      (* _add_dcline_gens :1585-1592: tracking list exists; still-tracked leftovers dropped *)
| ATrackNextGen                    (* :1609/:1615  aux_gens.append(get_free_id(net.gen)) *)
| ACreateGenAt (payload : Z)       (* :1610/:1616  create_gen(..., index=aux_gens[-1]) writes the row *)
| APrepareVsc                      (* _add_b2b_vsc :1625-1631 *)
| ATrackNextVsc                    (* :1654/:1666 *)
| ACreateVscAt (i : Z) (plus : bool)   (* :1655/:1667 create_vsc(name="b2b_<i>+"/"-", index=aux_vsc[-1]) *)
| AInitRes                         (* init_results / verify_results: res_gen gets the index of gen *)
| ABuild                           (* _pd2ppc incl. _get_vk_values_from_table: reads only *)
| ASolve                           (* the numerical kernel: no table access *)
| AExtract                         (* _extract_results: res_gen rows for every gen row *)
| ACleanup (res : bool)            (* _clean_up: exactly the tracked gen and vsc indices *)
(* before the repairs *)
| ACreateGenFree (payload : Z)     (* create_gen(index=None) *)
| ATrackLast                       (* Mid: the returned index is appended only after create_gen returned *)
| ACreateVscFree (i : Z) (plus : bool)
| ACleanupMid (res : bool)         (* Mid: tracked gens, vsc's by NAME *)
| ABuildOld                        (* Old: tap-table values written through .values into net.trafo.vk_percent *)
| ACleanupOld (res : bool).        (* Old: drops the trailing 2*len(dcline) gens, vsc's by name *)

Definition cleanup_vsc_by_name (n : net) : list vrow :=
  match b2b n with
  | [] => vsc n
  | _ => filter (fun v => negb (is_b2b_name (b2b n) (v_name v))) (vsc n)
  end.

Definition apply (a : aop) (n : net) : net :=
  match a with
  | APrepareGen =>
      match tracked n with
      | None | Some [] => upd n (gen n) (res_gen n) (vsc n) (Some []) (tracked_v n)
      | Some t => upd n (drop_ids t (gen n)) (res_gen n) (vsc n) (Some []) (tracked_v n)
      end
  | ATrackNextGen =>
      upd n (gen n) (res_gen n) (vsc n) (Some (olist_ (tracked n) ++ [next_id (ids (gen n))])) (tracked_v n)
  | ACreateGenAt p =>
      match last_z (olist_ (tracked n)) with
      | None => n                                         (* aux_gens[-1] on an empty list: not reachable in a pipeline *)
      | Some i => upd n (gen n ++ [{| g_id := i; g_data := p |}]) (res_gen n) (vsc n) (tracked n) (tracked_v n)
      end
  | APrepareVsc =>
      match tracked_v n with
      | None | Some [] => upd n (gen n) (res_gen n) (vsc n) (tracked n) (Some [])
      | Some t => upd n (gen n) (res_gen n) (drop_vids t (vsc n)) (tracked n) (Some [])
      end
  | ATrackNextVsc =>
      upd n (gen n) (res_gen n) (vsc n) (tracked n) (Some (olist_ (tracked_v n) ++ [next_id (map v_id (vsc n))]))
  | ACreateVscAt i plus =>
      match last_z (olist_ (tracked_v n)) with
      | None => n
      | Some j => upd n (gen n) (res_gen n) (vsc n ++ [{| v_id := j; v_name := NB2B i plus; v_data := 0 |}])
                      (tracked n) (tracked_v n)
      end
  | AInitRes | AExtract => upd n (gen n) (ids (gen n)) (vsc n) (tracked n) (tracked_v n)
  | ABuild | ASolve => n
  | ACleanup res =>
      (* :1243-1250 / :1252-1255; the res_gen rows are dropped if res or whenever present: the same rows *)
      let n1 := match tracked n with
                | None | Some [] => n
                | Some t => upd n (drop_ids t (gen n)) (drop_z t (res_gen n)) (vsc n) (Some []) (tracked_v n)
                end in
      match tracked_v n1 with
      | None | Some [] => n1
      | Some t => upd n1 (gen n1) (res_gen n1) (drop_vids t (vsc n1)) (tracked n1) (Some [])
      end
  | ACreateGenFree p =>
      upd n (gen n ++ [{| g_id := next_id (ids (gen n)); g_data := p |}]) (res_gen n) (vsc n) (tracked n) (tracked_v n)
  | ATrackLast =>
      match rev (gen n) with
      | [] => n
      | g :: _ => upd n (gen n) (res_gen n) (vsc n) (Some (olist_ (tracked n) ++ [g_id g])) (tracked_v n)
      end
  | ACreateVscFree i plus =>
      upd n (gen n) (res_gen n)
          (vsc n ++ [{| v_id := next_id (map v_id (vsc n)); v_name := NB2B i plus; v_data := 0 |}]) (tracked n) (tracked_v n)
  | ACleanupMid res =>
      let n1 := match tracked n with
                | None | Some [] => n
                | Some t => upd n (drop_ids t (gen n)) (drop_z t (res_gen n)) (vsc n) (Some []) (tracked_v n)
                end in
      upd n1 (gen n1) (res_gen n1) (cleanup_vsc_by_name n1) (tracked n1) (tracked_v n1)
  | ABuildOld =>
      {| gen := gen n; res_gen := res_gen n; vsc := vsc n;
         trafo := map (fun t => match t_tab t with
                                | Some v => {| t_id := t_id t; t_vk := v; t_tab := t_tab t |}
                                | None => t end) (trafo n);
         dcline := dcline n; b2b := b2b n; tracked := tracked n; tracked_v := tracked_v n |}
  | ACleanupOld res =>
      let n1 :=
        match dcline n with
        | [] => n
        | _ =>
            let keep := (List.length (gen n) - 2 * List.length (dcline n))%nat in
            let dropped := ids (skipn keep (gen n)) in
            upd n (firstn keep (gen n)) (if res then drop_z dropped (res_gen n) else res_gen n) (vsc n) (tracked n) (tracked_v n)
        end in
      upd n1 (gen n1) (res_gen n1) (cleanup_vsc_by_name n1) (tracked n1) (tracked_v n1)
  end.

(* ---- programs *)
Inductive instr :=
| Do (a : aop)                               (* crash points lie before each Do *)
| FailIfNotConv (cleanup : list aop).        (* not converged: run the given cleanup calls, then raise *)

Inductive outcome := Done | Raised.

(* k = Some j: the j-th executed atomic operation (counting from 0) raises instead of running; None: no injected fault.
   Returns the state, the outcome, the remaining budget and the trace of states after each executed operation. *)
Fixpoint run (is : list instr) (k : option nat) (conv : bool) (n : net) : net * outcome * option nat * list net :=
  match is with
  | [] => (n, Done, k, [])
  | Do a :: r =>
      match k with
      | Some O => (n, Raised, None, [])
      | _ =>
          let n' := apply a n in
          let '(nf, o, kf, tr) := run r (match k with Some (S j) => Some j | _ => None end) conv n' in
          (nf, o, kf, n' :: tr)
      end
  | FailIfNotConv l :: r =>
      if conv then run r k conv n
      else let n' := fold_left (fun m a => apply a m) l n in (n', Raised, k, [n'])
  end.

Record pipeline := {
  p_pre : list instr;           (* before the try statement *)
  p_body : list instr;          (* try: *)
  p_handler : list aop          (* except BaseException: <handler>; raise     (empty = no try statement) *)
}.

Definition exec (p : pipeline) (k : option nat) (conv : bool) (n : net) : net * outcome * list net :=
  let '(n1, o1, k1, tr1) := run (p_pre p) k conv n in
  match o1 with
  | Raised => (n1, Raised, tr1)
  | Done =>
      let '(n2, o2, _, tr2) := run (p_body p) k1 conv n1 in
      match o2 with
      | Done => (n2, Done, tr1 ++ tr2)
      | Raised => let n3 := fold_left (fun m a => apply a m) (p_handler p) n2 in (n3, Raised, tr1 ++ tr2 ++ [n3])
      end
  end.

(* ---- the pipelines, built from the tables of the net they run on *)
Definition add_gens (n : net) : list instr :=
  match dcline n with
  | [] => []                                                              (* :1682 if len(net.dcline) > 0 *)
  | ds => Do APrepareGen ::
          flat_map (fun d => [Do ATrackNextGen; Do (ACreateGenAt d); Do ATrackNextGen; Do (ACreateGenAt (d + 1))]) ds
  end.
Definition add_vscs (n : net) : list instr :=
  match b2b n with
  | [] => []
  | bs => Do APrepareVsc ::
          flat_map (fun i => [Do ATrackNextVsc; Do (ACreateVscAt i true); Do ATrackNextVsc; Do (ACreateVscAt i false)]) bs
  end.
Definition add_aux (n : net) : list instr := add_gens n ++ add_vscs n.

(* runpp / rundcpp *)
Definition pl_powerflow (n : net) : pipeline :=
  {| p_pre := [];
     p_body := add_aux n ++
               [Do AInitRes; Do ABuild; Do ASolve; FailIfNotConv [ACleanup false]; Do AExtract; Do (ACleanup true)];
     p_handler := [ACleanup false] |}.
(* runopp / rundcopp: OPFNotConverged is raised without a cleanup of its own *)
Definition pl_opf (n : net) : pipeline :=
  {| p_pre := [];
     p_body := add_aux n ++
               [Do AInitRes; Do ABuild; Do ASolve; FailIfNotConv []; Do AExtract; Do (ACleanup true)];
     p_handler := [ACleanup false] |}.
(* calc_sc 2ph/3ph; _calc_zbus cleans up itself when the inversion fails *)
Definition pl_sc (n : net) : pipeline :=
  {| p_pre := [];
     p_body := add_aux n ++ [Do ABuild; Do ASolve; FailIfNotConv [ACleanup false]; Do (ACleanup true)];
     p_handler := [ACleanup false] |}.
(* calc_sc 1ph: _add_auxiliary_elements at :227 and again inside _init_ppc *)
Definition pl_sc_1ph (n : net) : pipeline :=
  {| p_pre := [];
     p_body := add_aux n ++ add_aux n ++ [Do ABuild; Do ASolve; FailIfNotConv [ACleanup false]; Do (ACleanup true)];
     p_handler := [ACleanup false] |}.
(* runpp_3ph: adds nothing, no try statement, calls _clean_up on both exits *)
Definition pl_pf3ph (n : net) : pipeline :=
  {| p_pre := [Do ABuild; Do ASolve; FailIfNotConv [ACleanup false]; Do (ACleanup true)];
     p_body := []; p_handler := [] |}.

(* Mid: try statement and tracking exist, but the index is tracked after create_gen returned and vsc's go by name *)
Definition add_aux_mid (n : net) : list instr :=
  match dcline n with
  | [] => []
  | ds => Do APrepareGen ::
          flat_map (fun d => [Do (ACreateGenFree d); Do ATrackLast; Do (ACreateGenFree (d + 1)); Do ATrackLast]) ds
  end ++ flat_map (fun i => [Do (ACreateVscFree i true); Do (ACreateVscFree i false)]) (b2b n).
Definition pl_powerflow_mid (n : net) : pipeline :=
  {| p_pre := [];
     p_body := add_aux_mid n ++
               [Do AInitRes; Do ABuild; Do ASolve; FailIfNotConv [ACleanupMid false]; Do AExtract; Do (ACleanupMid true)];
     p_handler := [ACleanupMid false] |}.
(* Old: no tracking, no try statement, trailing-rows cleanup, tap table written into net.trafo *)
Definition add_aux_old (n : net) : list instr :=
  flat_map (fun d => [Do (ACreateGenFree d); Do (ACreateGenFree (d + 1))]) (dcline n)
  ++ flat_map (fun i => [Do (ACreateVscFree i true); Do (ACreateVscFree i false)]) (b2b n).
Definition pl_powerflow_old (n : net) : pipeline :=
  {| p_pre := add_aux_old n ++
              [Do AInitRes; Do ABuildOld; Do ASolve; FailIfNotConv [ACleanupOld false]; Do AExtract; Do (ACleanupOld true)];
     p_body := []; p_handler := [] |}.
Definition pl_opf_old (n : net) : pipeline :=
  {| p_pre := add_aux_old n ++
              [Do AInitRes; Do ABuildOld; Do ASolve; FailIfNotConv []; Do AExtract; Do (ACleanupOld true)];
     p_body := []; p_handler := [] |}.

(* ---- what the property talks about: the user-visible element tables *)
Definition user_tables (n : net) := (gen n, vsc n, trafo n, dcline n, b2b n).
(* nothing is tracked: the state between two calculations *)
Definition clean1 (t : option (list Z)) : bool := match t with None | Some [] => true | _ => false end.
Definition clean (n : net) : bool := clean1 (tracked n) && clean1 (tracked_v n).

(* a whole session: several calculations in a row, each with its own crash point and solver verdict *)
Inductive calc := CPf | COpf | CSc | CSc1ph | CPf3ph.
Definition pl_of (c : calc) (n : net) : pipeline :=
  match c with
  | CPf => pl_powerflow n | COpf => pl_opf n | CSc => pl_sc n | CSc1ph => pl_sc_1ph n | CPf3ph => pl_pf3ph n
  end.
Fixpoint session (cs : list (calc * option nat * bool)) (n : net) : net :=
  match cs with
  | [] => n
  | (c, k, conv) :: r => session r (fst (fst (exec (pl_of c n) k conv n)))
  end.

(* ================================================================== state estimation and contingency analysis
   Anchors: estimation/state_estimation.py StateEstimation.estimate (:225-263: try (:237) / finally (:259-263) around
   set_bb_switch_impedance, pp2eppci, the solver, eppci2pp), estimation/util.py set_bb_switch_impedance (:103-127, every
   _get_bus_ppc_mapping (:58-79) runs a complete power flow runpp(net) on the user's net), reset_bb_switch_impedance
   (:136-138); contingency/contingency.py run_contingency (:99-117: the outage assignment :103 stands in FRONT of the
   try statement :104, `except Exception` (:108-111) swallows unless raise_errors, `finally` (:112-113) restores; since the repair the assignment stands inside the try statement, :103-107).
   The state extends the element tables of the pipelines above by the switch impedance column(s) and the in_service cells. *)
Record xnet := {
  x_net : net;
  sw_z : option (list Z);         (* net.switch.z_ohm (scaled cell contents), None = no such column *)
  sw_ori : option (list Z);       (* net.switch.z_ohm_ori, None = no such column (the normal state) *)
  serv : nat -> Z -> bool;        (* net[<table t>].in_service at index i *)
  has : nat -> Z -> bool          (* index i exists in table t *)
}.
Definition with_net (s : xnet) (n : net) : xnet :=
  {| x_net := n; sw_z := sw_z s; sw_ori := sw_ori s; serv := serv s; has := has s |}.
Definition with_sw (s : xnet) (z o : option (list Z)) : xnet :=
  {| x_net := x_net s; sw_z := z; sw_ori := o; serv := serv s; has := has s |}.
Definition z_nan : Z := -1.
Definition Z_IMP : Z := 410.      (* z_ohm = 0.1 in the cell scaling of the harness (x 4096, rounded) *)
Fixpoint set_sel (sel : list bool) (v : Z) (z : list Z) : list Z :=
  match sel, z with
  | b :: sr, x :: zr => (if b then v else x) :: set_sel sr v zr
  | _, _ => z
  end.

Inductive xop :=
| XSaveZ                                 (* util.py:103-104  if 'z_ohm' in net.switch: net.switch['z_ohm_ori'] = net.switch['z_ohm'] *)
| XSetZ (sel : list bool) (v : Z)        (* :113 / :124      net.switch.loc[sel, 'z_ohm'] = v *)
| XResetZ                                (* :136-138         z_ohm := z_ohm_ori; drop z_ohm_ori *)
| XSetServ (t : nat) (i : Z) (v : bool)  (* contingency.py:103 / :113 *)
| XCalc (c : calc) (conv : bool)         (* a complete calculation on the element tables (with its own try statement) *)
| XStage                                 (* a stage that touches no element table (pp2eppci, solver, eppci2pp, result
                                            bookkeeping; also the position of the `try:` line) *)
| XRaiseIf (b : bool).                   (* a raise statement under a condition *)

Definition xapply1 (a : xop) (s : xnet) : xnet :=
  match a with
  | XSaveZ => match sw_z s with Some z => with_sw s (sw_z s) (Some z) | None => s end
  | XSetZ sel v => with_sw s (Some (match sw_z s with
                                    | Some z => set_sel sel v z
                                    | None => map (fun b : bool => if b then v else z_nan) sel end)) (sw_ori s)
  | XResetZ => match sw_ori s with Some o => with_sw s (Some o) None | None => s end
  | XSetServ t i v =>
      {| x_net := x_net s; sw_z := sw_z s; sw_ori := sw_ori s;
         serv := fun t' i' => if Nat.eqb t' t && Z.eqb i' i then v else serv s t' i'; has := has s |}
  | _ => s
  end.

(* the pipelines above with the remaining fault budget handed back (None after an injected fault) *)
Definition exec_k (p : pipeline) (k : option nat) (conv : bool) (n : net) : net * outcome * option nat :=
  let '(n1, o1, k1, _) := run (p_pre p) k conv n in
  match o1 with
  | Raised => (n1, Raised, k1)
  | Done =>
      let '(n2, o2, k2, _) := run (p_body p) k1 conv n1 in
      match o2 with
      | Done => (n2, Done, k2)
      | Raised => (fold_left (fun m a => apply a m) (p_handler p) n2, Raised, k2)
      end
  end.

(* XRaised e: e = the exception is an instance of Exception (false: BaseException only, e.g. KeyboardInterrupt) *)
Inductive xout := XDone | XRaised (e : bool).
Definition deck (k : option nat) : option nat := match k with Some (S j) => Some j | _ => None end.

(* one operation; exn = kind of the injected fault.  A natural failure inside a nested calculation is an Exception and
   leaves the fault budget untouched (the fault may still hit a later outage case). *)
Definition xstep (exn : bool) (a : xop) (k : option nat) (s : xnet) : xnet * xout * option nat :=
  match a with
  | XCalc c conv =>
      let '(n', o, k') := exec_k (pl_of c (x_net s)) k conv (x_net s) in
      match o with
      | Done => (with_net s n', XDone, k')
      | Raised => (with_net s n', XRaised (match k, k' with Some _, None => exn | _, _ => true end), k')
      end
  | _ =>
      match k with
      | Some O => (s, XRaised exn, None)
      | _ => match a with
             | XRaiseIf true => (s, XRaised true, deck k)
             | _ => (xapply1 a s, XDone, deck k)
             end
      end
  end.

Fixpoint xrun_ops (exn : bool) (ops : list xop) (k : option nat) (s : xnet) : xnet * xout * option nat :=
  match ops with
  | [] => (s, XDone, k)
  | a :: r => let '(s1, o, k1) := xstep exn a k s in
              match o with XDone => xrun_ops exn r k1 s1 | _ => (s1, o, k1) end
  end.
(* finally blocks run without a fault of their own (no double faults) *)
Definition xfin (fin : list xop) (s : xnet) : xnet := fold_left (fun m a => xapply1 a m) fin s.
(* try: body  [except Exception: swallow ? log : raise]  finally: fin *)
Definition xrun_try (exn : bool) (body : list xop) (swallow : bool) (fin : list xop) (k : option nat) (s : xnet)
  : xnet * xout * option nat :=
  let '(s1, o, k1) := xrun_ops exn body k s in
  let s2 := xfin fin s1 in
  match o with
  | XDone => (s2, XDone, k1)
  | XRaised e => if e && swallow then (s2, XDone, k1) else (s2, XRaised e, k1)
  end.

(* ---- StateEstimation.estimate.  bb = (fuse_buses_with_bb_switch != 'all' and not net.switch.empty); badarg = the
   argument is a string other than 'all'; rounds = per loop pass of set_bb_switch_impedance the selected switches and,
   if buses got detached, the switches fused again (values computed from the lookups: inputs); the nested power flows
   fail (KeyError) when the switch table has no z_ohm column; success = the solver verdict *)
Definition est_body (bb badarg noz : bool) (rounds : list (list bool * option (list bool))) (conv_pf success : bool)
  : list xop :=
  (if bb then
     XRaiseIf badarg :: XSaveZ :: XRaiseIf noz :: XCalc CPf conv_pf ::
     flat_map (fun r => XSetZ (fst r) Z_IMP :: XCalc CPf conv_pf ::
                        match snd r with Some u => [XSetZ u 0; XCalc CPf conv_pf] | None => [] end) rounds
   else []) ++ XStage :: XStage :: (if success then [XStage] else []).
Definition no_z (s : xnet) : bool := match sw_z s with None => true | Some _ => false end.
Definition run_estimate (exn bb badarg : bool) (rounds : list (list bool * option (list bool))) (conv_pf success : bool)
  (k : option nat) (s : xnet) : xnet * xout * option nat :=
  xrun_try exn (est_body bb badarg (no_z s) rounds conv_pf success) false (if bb then [XResetZ] else []) k s.

(* ---- run_contingency.  One outage case (table t, index i, verdict of its power flow); c = the evaluation function.
   inside = the outage assignment stands inside the try statement (true = the code as it is after the repair, contingency.py:103-107;
   false = before it: assignment in front of the try statement); window = there is a fault point between the assignment and the try statement (an asynchronous exception, e.g.
   KeyboardInterrupt, delivered on the `try:` line - observable with a line-level fault on the real code) *)
Definition xrun_case (exn window inside swallow : bool) (c : calc) (cs : nat * Z * bool) (k : option nat) (s : xnet)
  : xnet * xout * option nat :=
  let '(t, i, conv) := cs in
  if negb (has s t i) then (s, XRaised true, k)                 (* KeyError from .at *)
  else if negb (serv s t i) then (s, XDone, k)                  (* :101-102 continue *)
  else if inside then
    xrun_try exn [XSetServ t i false; XCalc c conv; XStage] swallow [XSetServ t i true] k s
  else
    let '(s1, o, k1) := xrun_ops exn (XSetServ t i false :: if window then [XStage] else []) k s in
    match o with
    | XDone => xrun_try exn [XCalc c conv; XStage] swallow [XSetServ t i true] k1 s1
    | _ => (s1, o, k1)
    end.
Fixpoint xrun_cases (exn window inside swallow : bool) (c : calc) (cs : list (nat * Z * bool)) (k : option nat) (s : xnet)
  : xnet * xout * option nat :=
  match cs with
  | [] => (s, XDone, k)
  | x :: r => let '(s1, o, k1) := xrun_case exn window inside swallow c x k s in
              match o with XDone => xrun_cases exn window inside swallow c r k1 s1 | _ => (s1, o, k1) end
  end.
(* :99-113 the N-1 loop, :116-117 the N-0 case, :119-125 results written to res_* tables only *)
Definition run_contingency (exn window inside raise_errors : bool) (c : calc) (cs : list (nat * Z * bool)) (conv0 : bool)
  (k : option nat) (s : xnet) : xnet * xout * option nat :=
  let '(s1, o, k1) := xrun_cases exn window inside (negb raise_errors) c cs k s in
  match o with
  | XDone => xrun_ops exn [XCalc c conv0; XStage; XStage] k1 s1
  | _ => (s1, o, k1)
  end.
(* the code as it is in /repo after the repair "run_contingency sets the outage inside the try statement that restores it";
   inside = false is the layout before that repair (run_contingency_old) *)
Definition CONTINGENCY_OUTAGE_INSIDE_TRY : bool := true.
Definition run_contingency_old (exn window raise_errors : bool) := run_contingency exn window false raise_errors.

(* ---- output for the correspondence run *)
Definition ovname (v : vname) : out :=
  match v with NB2B i p => OL [OZ i; OB p] | NOther m => OZ m end.
Definition onet (n : net) : out :=
  OL [ olist OZ (ids (gen n)); oopt (olist OZ) (tracked n); olist (fun v => OL [OZ (v_id v); ovname (v_name v)]) (vsc n);
       oopt (olist OZ) (tracked_v n); olist OZ (res_gen n); olist (fun t => OZ (t_vk t)) (trafo n) ].
Definition ooutcome (o : outcome) : out := match o with Done => OB true | Raised => OB false end.
Definition run_exec (p : pipeline) (k : option nat) (conv : bool) (n : net) : out :=
  let '(nf, o, tr) := exec p k conv n in OL [onet nf; ooutcome o; olist onet (n :: tr)].
Definition calc_of_nat (c : nat) : calc :=
  match c with O => CPf | 1%nat => COpf | 2%nat => CSc | 3%nat => CSc1ph | _ => CPf3ph end.
Definition run_calc (c : nat) (k : option nat) (conv : bool) (n : net) : out :=
  run_exec (pl_of (calc_of_nat c) n) k conv n.
Definition run_calc_old (c : nat) (k : option nat) (conv : bool) (n : net) : out :=
  run_exec (match c with O => pl_powerflow_old n | 1%nat => pl_opf_old n | _ => pl_powerflow_mid n end) k conv n.

(* estimate / run_contingency: final state (tables digest, switch columns, in_service cells at the given keys), outcome *)
Definition oxout (o : xout) : out := match o with XDone => OS "done" | XRaised true => OS "exception" | XRaised false => OS "base" end.
Definition oxnet (keys : list (nat * Z)) (s : xnet) : out :=
  OL [ onet (x_net s); oopt (olist OZ) (sw_z s); oopt (olist OZ) (sw_ori s); olist (fun q => OB (serv s (fst q) (snd q))) keys ].
Definition mk_xnet (n : net) (z o : option (list Z)) (inserv : list (list Z)) (rows : list (list Z)) : xnet :=
  {| x_net := n; sw_z := z; sw_ori := o;
     serv := fun t i => memz i (nth t inserv []); has := fun t i => memz i (nth t rows []) |}.
Definition run_est (exn bb badarg : bool) (rounds : list (list bool * option (list bool))) (conv_pf success : bool)
  (k : option nat) (s : xnet) : out :=
  let '(s', o, _) := run_estimate exn bb badarg rounds conv_pf success k s in OL [oxnet [] s'; oxout o].
Definition run_cont (exn window raise_errors : bool) (c : nat) (cs : list (nat * Z * bool)) (conv0 : bool) (keys : list (nat * Z))
  (k : option nat) (s : xnet) : out :=
  let '(s', o, _) := run_contingency exn window CONTINGENCY_OUTAGE_INSIDE_TRY raise_errors (calc_of_nat c) cs conv0 k s in
  OL [oxnet keys s'; oxout o].
(* the state at the moment the fault leaves the try body (in front of the finally block) *)
Definition run_est_at (exn bb badarg : bool) (rounds : list (list bool * option (list bool))) (conv_pf success : bool)
  (k : option nat) (s : xnet) : out :=
  let '(s', o, _) := xrun_ops exn (est_body bb badarg (no_z s) rounds conv_pf success) k s in OL [oxnet [] s'; oxout o].
