(* C08 — stage machines of the calculation pipelines with a crash point, and the auxiliary-element bookkeeping.
   Anchors (working tree after the repairs "fix: tap dependency table no longer overwrites vk_percent ...",
   "fix: auxiliary dcline generators are tracked and always removed ..." and "fix: auxiliary gens are tracked before
   they are created; auxiliary b2b vsc's are tracked by index, not by name"):
     auxiliary.py   _add_dcline_gens (:1582-1619), _add_b2b_vsc (:1622-1669), _add_auxiliary_elements (:1672-1686),
                    _clean_up (:1218-1255)
     powerflow.py   _powerflow (:29-47), _powerflow_with_auxiliary_elements (:50-79), _ppci_to_net (:169-189)
     optimal_powerflow.py  _optimal_powerflow (:29-50), _optimal_powerflow_with_auxiliary_elements (:53-93)
     shortcircuit/calc_sc.py  calc_sc (:155-165), _calc_sc (:207-221), _calc_sc_1ph (:224-268),
     shortcircuit/ppc_conversion.py _init_ppc (:30-49),  shortcircuit/impedance.py _calc_zbus (:51-64)
     pf/runpp_3ph.py  (:640-650, no auxiliary elements are added, _clean_up is called)
     build_branch.py _get_vk_values_from_table (the repaired version works on a copy)
   The behaviour before the repairs is kept as `_old` operations / pipelines: `Old` = the original code (no tracking,
   trailing-rows cleanup, no try statement, tap table written into net.trafo), `Mid` = after the first tracking repair
   (index tracked only after create_gen returned, b2b vsc's cleaned up by name).
   Tables = lists of rows with explicit ids; cell contents are an opaque payload (rows are only added or dropped).
   Executable definitions only. *)
From Coq Require Import ZArith List Bool String.
From PPV Require Import Base.Out.
Import ListNotations.
Open Scope Z_scope.

Record grow := { g_id : Z; g_data : Z }.                       (* a row of net.gen *)
Inductive vname := NB2B (i : Z) (plus : bool)                  (* "b2b_<i>+" / "b2b_<i>-"  (get_b2b_vsc_names) *)
                 | NOther (n : Z).                             (* any other name *)
Record vrow := { v_id : Z; v_name : vname; v_data : Z }.       (* a row of net.vsc *)
Record trow := { t_id : Z; t_vk : Z; t_tab : option Z }.       (* net.trafo: vk_percent cell; value the tap table yields
                                                                  for the current tap_pos if tap_dependency_table *)
Record net := {
  gen : list grow;
  res_gen : list Z;                 (* index of net.res_gen *)
  vsc : list vrow;
  trafo : list trow;
  dcline : list Z;                  (* payloads of the dcline rows, one entry per dcline *)
  b2b : list Z;                     (* index of net.b2b_vsc *)
  tracked : option (list Z);        (* net._aux_elements["gen"]; None = key absent *)
  tracked_v : option (list Z)       (* net._aux_elements["vsc"] *)
}.

Definition ids (l : list grow) : list Z := map g_id l.
(* create_gen(index=None): get_free_id = max(index) + 1, 0 for an empty table *)
Definition next_id (l : list Z) : Z := fold_left (fun m i => Z.max m (i + 1)) l 0.
Fixpoint memz (x : Z) (l : list Z) : bool := match l with [] => false | y :: r => Z.eqb x y || memz x r end.
Definition is_b2b_name (bs : list Z) (nm : vname) : bool :=
  match nm with NB2B i _ => memz i bs | NOther _ => false end.

(* record update helpers *)
Definition upd (n : net) (g : list grow) (rg : list Z) (v : list vrow) (t : option (list Z)) (tv : option (list Z)) : net :=
  {| gen := g; res_gen := rg; vsc := v; trafo := trafo n; dcline := dcline n; b2b := b2b n; tracked := t; tracked_v := tv |}.
Definition olist_ (t : option (list Z)) : list Z := match t with Some l => l | None => [] end.

Definition drop_ids (t : list Z) (l : list grow) : list grow := filter (fun g => negb (memz (g_id g) t)) l.
Definition drop_vids (t : list Z) (l : list vrow) : list vrow := filter (fun v => negb (memz (v_id v) t)) l.
Definition drop_z (t : list Z) (l : list Z) : list Z := filter (fun i => negb (memz i t)) l.
Definition last_z (l : list Z) : option Z := match rev l with [] => None | x :: _ => Some x end.

(* ---- atomic table operations *)
Inductive aop :=
(* the repaired code *)
| APrepareGen                      (* _add_dcline_gens :1585-1592: tracking list exists; still-tracked leftovers dropped *)
| ATrackNextGen                    (* :1609/:1615  aux_gens.append(get_free_id(net.gen)) *)
| ACreateGenAt (payload : Z)       (* :1610/:1616  create_gen(..., index=aux_gens[-1]) writes the row *)
| APrepareVsc                      (* _add_b2b_vsc :1625-1631 *)
| ATrackNextVsc                    (* :1654/:1666 *)
| ACreateVscAt (i : Z) (plus : bool)   (* :1655/:1667 create_vsc(name="b2b_<i>+"/"-", index=aux_vsc[-1]) *)
| AInitRes                         (* init_results / verify_results: res_gen gets the index of gen *)
| ABuild                           (* _pd2ppc incl. _get_vk_values_from_table: reads only *)
| ASolve                           (* the numerical kernel: no table access *)
| AExtract                         (* _extract_results: res_gen rows for every gen row *)
| ACleanup (res : bool)            (* _clean_up: exactly the tracked gen and vsc indices *)
(* before the repairs *)
| ACreateGenFree (payload : Z)     (* create_gen(index=None) *)
| ATrackLast                       (* Mid: the returned index is appended only after create_gen returned *)
| ACreateVscFree (i : Z) (plus : bool)
| ACleanupMid (res : bool)         (* Mid: tracked gens, vsc's by NAME *)
| ABuildOld                        (* Old: tap-table values written through .values into net.trafo.vk_percent *)
| ACleanupOld (res : bool).        (* Old: drops the trailing 2*len(dcline) gens, vsc's by name *)

Definition cleanup_vsc_by_name (n : net) : list vrow :=
  match b2b n with
  | [] => vsc n
  | _ => filter (fun v => negb (is_b2b_name (b2b n) (v_name v))) (vsc n)
  end.

Definition apply (a : aop) (n : net) : net :=
  match a with
  | APrepareGen =>
      match tracked n with
      | None | Some [] => upd n (gen n) (res_gen n) (vsc n) (Some []) (tracked_v n)
      | Some t => upd n (drop_ids t (gen n)) (res_gen n) (vsc n) (Some []) (tracked_v n)
      end
  | ATrackNextGen =>
      upd n (gen n) (res_gen n) (vsc n) (Some (olist_ (tracked n) ++ [next_id (ids (gen n))])) (tracked_v n)
  | ACreateGenAt p =>
      match last_z (olist_ (tracked n)) with
      | None => n                                         (* aux_gens[-1] on an empty list: not reachable in a pipeline *)
      | Some i => upd n (gen n ++ [{| g_id := i; g_data := p |}]) (res_gen n) (vsc n) (tracked n) (tracked_v n)
      end
  | APrepareVsc =>
      match tracked_v n with
      | None | Some [] => upd n (gen n) (res_gen n) (vsc n) (tracked n) (Some [])
      | Some t => upd n (gen n) (res_gen n) (drop_vids t (vsc n)) (tracked n) (Some [])
      end
  | ATrackNextVsc =>
      upd n (gen n) (res_gen n) (vsc n) (tracked n) (Some (olist_ (tracked_v n) ++ [next_id (map v_id (vsc n))]))
  | ACreateVscAt i plus =>
      match last_z (olist_ (tracked_v n)) with
      | None => n
      | Some j => upd n (gen n) (res_gen n) (vsc n ++ [{| v_id := j; v_name := NB2B i plus; v_data := 0 |}])
                      (tracked n) (tracked_v n)
      end
  | AInitRes | AExtract => upd n (gen n) (ids (gen n)) (vsc n) (tracked n) (tracked_v n)
  | ABuild | ASolve => n
  | ACleanup res =>
      (* :1243-1250 / :1252-1255; the res_gen rows are dropped if res or whenever present: the same rows *)
      let n1 := match tracked n with
                | None | Some [] => n
                | Some t => upd n (drop_ids t (gen n)) (drop_z t (res_gen n)) (vsc n) (Some []) (tracked_v n)
                end in
      match tracked_v n1 with
      | None | Some [] => n1
      | Some t => upd n1 (gen n1) (res_gen n1) (drop_vids t (vsc n1)) (tracked n1) (Some [])
      end
  | ACreateGenFree p =>
      upd n (gen n ++ [{| g_id := next_id (ids (gen n)); g_data := p |}]) (res_gen n) (vsc n) (tracked n) (tracked_v n)
  | ATrackLast =>
      match rev (gen n) with
      | [] => n
      | g :: _ => upd n (gen n) (res_gen n) (vsc n) (Some (olist_ (tracked n) ++ [g_id g])) (tracked_v n)
      end
  | ACreateVscFree i plus =>
      upd n (gen n) (res_gen n)
          (vsc n ++ [{| v_id := next_id (map v_id (vsc n)); v_name := NB2B i plus; v_data := 0 |}]) (tracked n) (tracked_v n)
  | ACleanupMid res =>
      let n1 := match tracked n with
                | None | Some [] => n
                | Some t => upd n (drop_ids t (gen n)) (drop_z t (res_gen n)) (vsc n) (Some []) (tracked_v n)
                end in
      upd n1 (gen n1) (res_gen n1) (cleanup_vsc_by_name n1) (tracked n1) (tracked_v n1)
  | ABuildOld =>
      {| gen := gen n; res_gen := res_gen n; vsc := vsc n;
         trafo := map (fun t => match t_tab t with
                                | Some v => {| t_id := t_id t; t_vk := v; t_tab := t_tab t |}
                                | None => t end) (trafo n);
         dcline := dcline n; b2b := b2b n; tracked := tracked n; tracked_v := tracked_v n |}
  | ACleanupOld res =>
      let n1 :=
        match dcline n with
        | [] => n
        | _ =>
            let keep := (List.length (gen n) - 2 * List.length (dcline n))%nat in
            let dropped := ids (skipn keep (gen n)) in
            upd n (firstn keep (gen n)) (if res then drop_z dropped (res_gen n) else res_gen n) (vsc n) (tracked n) (tracked_v n)
        end in
      upd n1 (gen n1) (res_gen n1) (cleanup_vsc_by_name n1) (tracked n1) (tracked_v n1)
  end.

(* ---- programs *)
Inductive instr :=
| Do (a : aop)                               (* crash points lie before each Do *)
| FailIfNotConv (cleanup : list aop).        (* not converged: run the given cleanup calls, then raise *)

Inductive outcome := Done | Raised.

(* k = Some j: the j-th executed atomic operation (counting from 0) raises instead of running; None: no injected fault.
   Returns the state, the outcome, the remaining budget and the trace of states after each executed operation. *)
Fixpoint run (is : list instr) (k : option nat) (conv : bool) (n : net) : net * outcome * option nat * list net :=
  match is with
  | [] => (n, Done, k, [])
  | Do a :: r =>
      match k with
      | Some O => (n, Raised, None, [])
      | _ =>
          let n' := apply a n in
          let '(nf, o, kf, tr) := run r (match k with Some (S j) => Some j | _ => None end) conv n' in
          (nf, o, kf, n' :: tr)
      end
  | FailIfNotConv l :: r =>
      if conv then run r k conv n
      else let n' := fold_left (fun m a => apply a m) l n in (n', Raised, k, [n'])
  end.

Record pipeline := {
  p_pre : list instr;           (* before the try statement *)
  p_body : list instr;          (* try: *)
  p_handler : list aop          (* except BaseException: <handler>; raise     (empty = no try statement) *)
}.

Definition exec (p : pipeline) (k : option nat) (conv : bool) (n : net) : net * outcome * list net :=
  let '(n1, o1, k1, tr1) := run (p_pre p) k conv n in
  match o1 with
  | Raised => (n1, Raised, tr1)
  | Done =>
      let '(n2, o2, _, tr2) := run (p_body p) k1 conv n1 in
      match o2 with
      | Done => (n2, Done, tr1 ++ tr2)
      | Raised => let n3 := fold_left (fun m a => apply a m) (p_handler p) n2 in (n3, Raised, tr1 ++ tr2 ++ [n3])
      end
  end.

(* ---- the pipelines, built from the tables of the net they run on *)
Definition add_gens (n : net) : list instr :=
  match dcline n with
  | [] => []                                                              (* :1682 if len(net.dcline) > 0 *)
  | ds => Do APrepareGen ::
          flat_map (fun d => [Do ATrackNextGen; Do (ACreateGenAt d); Do ATrackNextGen; Do (ACreateGenAt (d + 1))]) ds
  end.
Definition add_vscs (n : net) : list instr :=
  match b2b n with
  | [] => []
  | bs => Do APrepareVsc ::
          flat_map (fun i => [Do ATrackNextVsc; Do (ACreateVscAt i true); Do ATrackNextVsc; Do (ACreateVscAt i false)]) bs
  end.
Definition add_aux (n : net) : list instr := add_gens n ++ add_vscs n.

(* runpp / rundcpp *)
Definition pl_powerflow (n : net) : pipeline :=
  {| p_pre := [];
     p_body := add_aux n ++
               [Do AInitRes; Do ABuild; Do ASolve; FailIfNotConv [ACleanup false]; Do AExtract; Do (ACleanup true)];
     p_handler := [ACleanup false] |}.
(* runopp / rundcopp: OPFNotConverged is raised without a cleanup of its own *)
Definition pl_opf (n : net) : pipeline :=
  {| p_pre := [];
     p_body := add_aux n ++
               [Do AInitRes; Do ABuild; Do ASolve; FailIfNotConv []; Do AExtract; Do (ACleanup true)];
     p_handler := [ACleanup false] |}.
(* calc_sc 2ph/3ph; _calc_zbus cleans up itself when the inversion fails *)
Definition pl_sc (n : net) : pipeline :=
  {| p_pre := [];
     p_body := add_aux n ++ [Do ABuild; Do ASolve; FailIfNotConv [ACleanup false]; Do (ACleanup true)];
     p_handler := [ACleanup false] |}.
(* calc_sc 1ph: _add_auxiliary_elements at :227 and again inside _init_ppc *)
Definition pl_sc_1ph (n : net) : pipeline :=
  {| p_pre := [];
     p_body := add_aux n ++ add_aux n ++ [Do ABuild; Do ASolve; FailIfNotConv [ACleanup false]; Do (ACleanup true)];
     p_handler := [ACleanup false] |}.
(* runpp_3ph: adds nothing, no try statement, calls _clean_up on both exits *)
Definition pl_pf3ph (n : net) : pipeline :=
  {| p_pre := [Do ABuild; Do ASolve; FailIfNotConv [ACleanup false]; Do (ACleanup true)];
     p_body := []; p_handler := [] |}.

(* Mid: try statement and tracking exist, but the index is tracked after create_gen returned and vsc's go by name *)
Definition add_aux_mid (n : net) : list instr :=
  match dcline n with
  | [] => []
  | ds => Do APrepareGen ::
          flat_map (fun d => [Do (ACreateGenFree d); Do ATrackLast; Do (ACreateGenFree (d + 1)); Do ATrackLast]) ds
  end ++ flat_map (fun i => [Do (ACreateVscFree i true); Do (ACreateVscFree i false)]) (b2b n).
Definition pl_powerflow_mid (n : net) : pipeline :=
  {| p_pre := [];
     p_body := add_aux_mid n ++
               [Do AInitRes; Do ABuild; Do ASolve; FailIfNotConv [ACleanupMid false]; Do AExtract; Do (ACleanupMid true)];
     p_handler := [ACleanupMid false] |}.
(* Old: no tracking, no try statement, trailing-rows cleanup, tap table written into net.trafo *)
Definition add_aux_old (n : net) : list instr :=
  flat_map (fun d => [Do (ACreateGenFree d); Do (ACreateGenFree (d + 1))]) (dcline n)
  ++ flat_map (fun i => [Do (ACreateVscFree i true); Do (ACreateVscFree i false)]) (b2b n).
Definition pl_powerflow_old (n : net) : pipeline :=
  {| p_pre := add_aux_old n ++
              [Do AInitRes; Do ABuildOld; Do ASolve; FailIfNotConv [ACleanupOld false]; Do AExtract; Do (ACleanupOld true)];
     p_body := []; p_handler := [] |}.
Definition pl_opf_old (n : net) : pipeline :=
  {| p_pre := add_aux_old n ++
              [Do AInitRes; Do ABuildOld; Do ASolve; FailIfNotConv []; Do AExtract; Do (ACleanupOld true)];
     p_body := []; p_handler := [] |}.

(* ---- what the property talks about: the user-visible element tables *)
Definition user_tables (n : net) := (gen n, vsc n, trafo n, dcline n, b2b n).
(* nothing is tracked: the state between two calculations *)
Definition clean1 (t : option (list Z)) : bool := match t with None | Some [] => true | _ => false end.
Definition clean (n : net) : bool := clean1 (tracked n) && clean1 (tracked_v n).

(* a whole session: several calculations in a row, each with its own crash point and solver verdict *)
Inductive calc := CPf | COpf | CSc | CSc1ph | CPf3ph.
Definition pl_of (c : calc) (n : net) : pipeline :=
  match c with
  | CPf => pl_powerflow n | COpf => pl_opf n | CSc => pl_sc n | CSc1ph => pl_sc_1ph n | CPf3ph => pl_pf3ph n
  end.
Fixpoint session (cs : list (calc * option nat * bool)) (n : net) : net :=
  match cs with
  | [] => n
  | (c, k, conv) :: r => session r (fst (fst (exec (pl_of c n) k conv n)))
  end.

(* ---- output for the correspondence run *)
Definition ovname (v : vname) : out :=
  match v with NB2B i p => OL [OZ i; OB p] | NOther m => OZ m end.
Definition onet (n : net) : out :=
  OL [ olist OZ (ids (gen n)); oopt (olist OZ) (tracked n); olist (fun v => OL [OZ (v_id v); ovname (v_name v)]) (vsc n);
       oopt (olist OZ) (tracked_v n); olist OZ (res_gen n); olist (fun t => OZ (t_vk t)) (trafo n) ].
Definition ooutcome (o : outcome) : out := match o with Done => OB true | Raised => OB false end.
Definition run_exec (p : pipeline) (k : option nat) (conv : bool) (n : net) : out :=
  let '(nf, o, tr) := exec p k conv n in OL [onet nf; ooutcome o; olist onet (n :: tr)].
Definition calc_of_nat (c : nat) : calc :=
  match c with O => CPf | 1%nat => COpf | 2%nat => CSc | 3%nat => CSc1ph | _ => CPf3ph end.
Definition run_calc (c : nat) (k : option nat) (conv : bool) (n : net) : out :=
  run_exec (pl_of (calc_of_nat c) n) k conv n.
Definition run_calc_old (c : nat) (k : option nat) (conv : bool) (n : net) : out :=
  run_exec (match c with O => pl_powerflow_old n | 1%nat => pl_opf_old n | _ => pl_powerflow_mid n end) k conv n.
