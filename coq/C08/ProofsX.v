(* C08 — state estimation (bus-bus switch impedance substitution) and contingency analysis (in_service restore loop):
   the element tables survive, for every crash point, every kind of fault and every verdict of the nested power flows *)
From Coq Require Import ZArith List Bool Lia.
From PPV Require Import Base.Out C08.Model C08.Proofs.
Import ListNotations.
Open Scope Z_scope.

(* ------------------------------------------------------------------ exec_k is exec with the budget handed back *)
Lemma exec_k_state p k conv n : fst (fst (exec_k p k conv n)) = fst (fst (exec p k conv n)).
Proof.
  unfold exec_k, exec. destruct (run (p_pre p) k conv n) as [[[n1 o1] k1] tr1]. destruct o1; [|reflexivity].
  destruct (run (p_body p) k1 conv n1) as [[[n2 o2] k2] tr2]. destruct o2; reflexivity.
Qed.
Lemma exec_k_outcome p k conv n : snd (fst (exec_k p k conv n)) = snd (fst (exec p k conv n)).
Proof.
  unfold exec_k, exec. destruct (run (p_pre p) k conv n) as [[[n1 o1] k1] tr1]. destruct o1; [|reflexivity].
  destruct (run (p_body p) k1 conv n1) as [[[n2 o2] k2] tr2]. destruct o2; reflexivity.
Qed.

(* ------------------------------------------------------------------ what the property talks about *)
Definition xtables_eq (s0 s : xnet) : Prop :=
  user_tables (x_net s) = user_tables (x_net s0) /\ clean (x_net s) = true /\
  sw_z s = sw_z s0 /\ sw_ori s = sw_ori s0 /\ (forall t i, serv s t i = serv s0 t i) /\ (forall t i, has s t i = has s0 t i).

Lemma xtables_refl s : clean (x_net s) = true -> xtables_eq s s.
Proof. intros C. repeat split; auto. Qed.
Lemma xtables_trans s0 s1 s2 : xtables_eq s0 s1 -> xtables_eq s1 s2 -> xtables_eq s0 s2.
Proof.
  intros (U1 & C1 & Z1 & O1 & S1 & H1) (U2 & C2 & Z2 & O2 & S2 & H2).
  unfold xtables_eq. split; [congruence|]. split; [exact C2|]. split; [congruence|]. split; [congruence|].
  split; intros t i; [rewrite S2; apply S1 | rewrite H2; apply H1].
Qed.

Definition st3 (r : xnet * xout * option nat) : xnet := fst (fst r).
Definition oc3 (r : xnet * xout * option nat) : xout := snd (fst r).

(* a nested calculation, whatever happens inside, gives the element tables back and touches nothing else *)
Lemma xcalc_net s c conv k exn :
  clean (x_net s) = true ->
  user_tables (x_net (st3 (xstep exn (XCalc c conv) k s))) = user_tables (x_net s) /\
  clean (x_net (st3 (xstep exn (XCalc c conv) k s))) = true /\
  sw_z (st3 (xstep exn (XCalc c conv) k s)) = sw_z s /\ sw_ori (st3 (xstep exn (XCalc c conv) k s)) = sw_ori s /\
  serv (st3 (xstep exn (XCalc c conv) k s)) = serv s /\ has (st3 (xstep exn (XCalc c conv) k s)) = has s.
Proof.
  intros C. cbn [xstep].
  pose proof (calc_restores (x_net s) c k conv C) as [U C'].
  unfold ex_st in *. rewrite <- exec_k_state in U, C'.
  destruct (exec_k (pl_of c (x_net s)) k conv (x_net s)) as [[n' o] k']. cbn [fst] in U, C'.
  destruct o; unfold st3; cbn; auto 10.
Qed.

(* generic: an invariant kept by every operation of a list is kept by the run *)
Lemma xrun_ops_inv (P : xnet -> Prop) exn ops :
  (forall a, In a ops -> forall k s, P s -> P (st3 (xstep exn a k s))) ->
  forall k s, P s -> P (st3 (xrun_ops exn ops k s)).
Proof.
  induction ops as [|a r IH]; intros H k s Ps; [exact Ps|].
  cbn [xrun_ops]. pose proof (H a (or_introl eq_refl) k s Ps) as P1.
  destruct (xstep exn a k s) as [[s1 o] k1]. unfold st3 in P1. cbn [fst] in P1.
  destruct o; [|exact P1]. apply IH; [|exact P1]. intros b Hb. apply H. now right.
Qed.

Lemma xrun_ops_app exn l1 l2 k s :
  xrun_ops exn (l1 ++ l2) k s =
  match oc3 (xrun_ops exn l1 k s) with
  | XDone => xrun_ops exn l2 (snd (xrun_ops exn l1 k s)) (st3 (xrun_ops exn l1 k s))
  | _ => xrun_ops exn l1 k s
  end.
Proof.
  revert k s. induction l1 as [|a r IH]; intros k s; [reflexivity|].
  cbn [app xrun_ops]. destruct (xstep exn a k s) as [[s1 o] k1]. destruct o; [apply IH|reflexivity].
Qed.

Lemma xrun_try_state exn body sw fin k s :
  st3 (xrun_try exn body sw fin k s) = xfin fin (st3 (xrun_ops exn body k s)).
Proof.
  unfold xrun_try. destruct (xrun_ops exn body k s) as [[s1 o] k1]. unfold st3. cbn [fst].
  destruct o as [|e]; [reflexivity|]. destruct (e && sw); reflexivity.
Qed.

(* operations that touch no table *)
Lemma xstep_stage exn k s : st3 (xstep exn XStage k s) = s.
Proof. cbn. destruct k as [[|j]|]; reflexivity. Qed.
Lemma xstep_raiseif exn b k s : st3 (xstep exn (XRaiseIf b) k s) = s.
Proof. cbn. destruct k as [[|j]|]; destruct b; reflexivity. Qed.

(* ------------------------------------------------------------------ estimate *)
(* behind the save: the user's impedance column sits in z_ohm_ori, z_ohm exists, everything else is the user's *)
Definition KE (s0 : xnet) (z0 : list Z) (s : xnet) : Prop :=
  user_tables (x_net s) = user_tables (x_net s0) /\ clean (x_net s) = true /\
  (forall t i, serv s t i = serv s0 t i) /\ (forall t i, has s t i = has s0 t i) /\
  sw_ori s = Some z0 /\ exists z, sw_z s = Some z.

Definition restop (a : xop) : Prop := match a with XCalc _ _ | XSetZ _ _ | XStage => True | _ => False end.

Lemma KE_step s0 z0 exn a k s : restop a -> KE s0 z0 s -> KE s0 z0 (st3 (xstep exn a k s)).
Proof.
  intros OK (U & C & SV & H & O & (z & Z)). destruct a; cbn in OK; try contradiction.
  - (* XSetZ *)
    cbn [xstep]. destruct k as [[|j]|]; unfold st3; cbn; unfold KE; cbn; rewrite ?Z; eauto 10.
  - (* XCalc *)
    destruct (xcalc_net s c conv k exn C) as (U' & C' & Z' & O' & S' & H').
    unfold KE. rewrite U', Z', O', S', H'. eauto 10.
  - rewrite xstep_stage. unfold KE; eauto 10.
Qed.

Lemma restop_est_tail (rounds : list (list bool * option (list bool))) (conv_pf success : bool) (a : xop) :
  In a ((XCalc CPf conv_pf ::
         flat_map (fun r : list bool * option (list bool) => XSetZ (fst r) Z_IMP :: XCalc CPf conv_pf ::
                        match snd r with Some u => [XSetZ u 0; XCalc CPf conv_pf] | None => [] end) rounds)
        ++ XStage :: XStage :: (if success then [XStage] else [])) -> restop a.
Proof.
  intros Hin. apply in_app_or in Hin. destruct Hin as [[<-|Hin]|Hin]; [exact I| |].
  - apply in_flat_map in Hin. destruct Hin as (r & _ & [<-|[<-|Hin]]); try exact I.
    destruct (snd r); [destruct Hin as [<-|[<-|[]]]; exact I | destruct Hin].
  - destruct Hin as [<-|[<-|Hin]]; try exact I. destruct success; [destruct Hin as [<-|[]]; exact I | destruct Hin].
Qed.

Definition saved (s : xnet) : xnet := xapply1 XSaveZ s.

(* the three operations in front of the first nested power flow *)
Lemma est_head exn badarg k s0 :
  let r := xrun_ops exn [XRaiseIf badarg; XSaveZ; XRaiseIf (no_z s0)] k s0 in
  (oc3 r <> XDone /\ (st3 r = s0 \/ st3 r = saved s0)) \/
  (oc3 r = XDone /\ exists z0, sw_z s0 = Some z0 /\ st3 r = with_sw s0 (Some z0) (Some z0)).
Proof.
  unfold no_z, saved. cbn [xapply1].
  destruct badarg; destruct k as [[|[|[|j]]]|]; destruct (sw_z s0) as [z0|] eqn:E; cbn; rewrite ?E; cbn;
    try (left; split; [discriminate | auto]; fail); right; split; eauto.
Qed.

Lemma reset_of_untouched s0 s :
  sw_ori s0 = None -> clean (x_net s0) = true -> (s = s0 \/ s = saved s0) -> xtables_eq s0 (xfin [XResetZ] s).
Proof.
  intros O C [->| ->]; unfold xfin, saved; cbn [fold_left xapply1].
  - rewrite O. now apply xtables_refl.
  - destruct (sw_z s0) as [z|] eqn:E; cbn; [|rewrite O; now apply xtables_refl].
    unfold xtables_eq; cbn. rewrite E, O. auto 10.
Qed.

Theorem estimate_restores exn bb badarg rounds conv_pf success k s0 :
  clean (x_net s0) = true -> sw_ori s0 = None ->
  xtables_eq s0 (st3 (run_estimate exn bb badarg rounds conv_pf success k s0)).
Proof.
  intros C O. unfold run_estimate. rewrite xrun_try_state. destruct bb.
  - (* the substitution is active *)
    unfold est_body.
    change ((XRaiseIf badarg :: XSaveZ :: XRaiseIf (no_z s0) :: XCalc CPf conv_pf :: ?L) ++ ?M)
      with ([XRaiseIf badarg; XSaveZ; XRaiseIf (no_z s0)] ++ ((XCalc CPf conv_pf :: L) ++ M)).
    rewrite xrun_ops_app.
    destruct (est_head exn badarg k s0) as [[ND Hs]|[D (z0 & E & Hs)]].
    + destruct (oc3 _) eqn:EO; [contradiction|]. now apply reset_of_untouched.
    + rewrite D. set (k1 := snd _). rewrite Hs.
      assert (K0 : KE s0 z0 (with_sw s0 (Some z0) (Some z0))) by (unfold KE; cbn; eauto 10).
      pose proof (xrun_ops_inv (KE s0 z0) exn _ (fun a Ha k s => KE_step s0 z0 exn a k s (restop_est_tail rounds conv_pf success a Ha)) k1 _ K0)
        as (U & C' & SV & H & Oo & (z & Z)).
      unfold xfin. cbn [fold_left xapply1]. rewrite Oo. unfold xtables_eq. cbn. rewrite E, O. auto 10.
  - (* all buses fused: only stages without table access *)
    cbn [xfin fold_left]. unfold est_body. cbn [app].
    apply (xrun_ops_inv (xtables_eq s0)); [|now apply xtables_refl].
    intros a Ha k' s Hs. assert (a = XStage) as ->.
    { destruct Ha as [<-|[<-|Ha]]; auto. destruct success; [destruct Ha as [<-|[]]; auto | destruct Ha]. }
    now rewrite xstep_stage.
Qed.

(* a user column that happens to be called z_ohm_ori is overwritten and dropped: the guard sw_ori = None is needed *)
Definition net0 : net :=
  {| gen := []; res_gen := []; vsc := []; trafo := []; dcline := []; b2b := []; tracked := None; tracked_v := None |}.
Theorem estimate_user_ori_column_refuted :
  exists s, clean (x_net s) = true /\
    sw_ori (st3 (run_estimate true true false [] true true None s)) <> sw_ori s.
Proof.
  exists {| x_net := net0; sw_z := Some [0]; sw_ori := Some [7]; serv := fun _ _ => true; has := fun _ _ => true |}.
  split; [reflexivity|]. vm_compute. discriminate.
Qed.

(* the code before the repair "state estimation restores the bus-bus switch impedances also when it raises": no finally *)
Definition run_estimate_old (exn bb badarg : bool) rounds (conv_pf success : bool) (k : option nat) (s : xnet) :=
  xrun_ops exn (est_body bb badarg (no_z s) rounds conv_pf success ++ (if bb then [XResetZ] else [])) k s.
Theorem estimate_old_refuted :
  exists s k, clean (x_net s) = true /\ sw_ori s = None /\
    sw_z (st3 (run_estimate_old true true false [([true], None)] true true k s)) <> sw_z s.
Proof.
  exists {| x_net := net0; sw_z := Some [0]; sw_ori := None; serv := fun _ _ => true; has := fun _ _ => true |}, (Some 10%nat).
  repeat split. vm_compute. discriminate.
Qed.

(* ------------------------------------------------------------------ contingency analysis *)
(* inside one outage case: everything is the user's except possibly the in_service cell of the outage *)
Definition KC (s0 : xnet) (t : nat) (i : Z) (s : xnet) : Prop :=
  user_tables (x_net s) = user_tables (x_net s0) /\ clean (x_net s) = true /\
  sw_z s = sw_z s0 /\ sw_ori s = sw_ori s0 /\ (forall t' i', has s t' i' = has s0 t' i') /\
  (forall t' i', (Nat.eqb t' t && Z.eqb i' i) = false -> serv s t' i' = serv s0 t' i').

Definition caseop (t : nat) (i : Z) (a : xop) : Prop :=
  match a with XCalc _ _ | XStage => True | XSetServ t' i' _ => t' = t /\ i' = i | _ => False end.

Lemma KC_step s0 t i exn a k s : caseop t i a -> KC s0 t i s -> KC s0 t i (st3 (xstep exn a k s)).
Proof.
  intros OK (U & C & Z & O & H & SV). destruct a; cbn in OK; try contradiction.
  - destruct OK as [-> ->]. cbn [xstep]. destruct k as [[|j]|]; unfold st3; cbn; unfold KC; cbn; repeat split; auto;
      intros t' i' E; rewrite E; now apply SV.
  - destruct (xcalc_net s c conv k exn C) as (U' & C' & Z' & O' & S' & H').
    unfold KC. rewrite U', Z', O', S', H'. auto 10.
  - rewrite xstep_stage. unfold KC; auto 10.
Qed.

Lemma KC_of_eq s0 s t i : xtables_eq s0 s -> KC s0 t i s.
Proof. intros (U & C & Z & O & S & H). unfold KC. auto 10. Qed.

Lemma KC_restore s0 t i s : serv s0 t i = true -> KC s0 t i s -> xtables_eq s0 (xfin [XSetServ t i true] s).
Proof.
  intros T (U & C & Z & O & H & SV). unfold xfin, xtables_eq. cbn. repeat split; auto.
  intros t' i'. destruct (Nat.eqb t' t && Z.eqb i' i) eqn:E; [|now apply SV].
  apply andb_true_iff in E. destruct E as [E1 E2]. apply Nat.eqb_eq in E1. apply Z.eqb_eq in E2. now subst.
Qed.

Definition sync_layout (window inside : bool) : bool := inside || negb window.

(* one outage case gives the tables back: for the layout with the assignment inside the try statement at every crash
   point, for the layout of the code as it is at every crash point except the one between assignment and try *)
Lemma case_restores exn window inside swallow c cs k s0 s :
  sync_layout window inside = true -> xtables_eq s0 s ->
  xtables_eq s0 (st3 (xrun_case exn window inside swallow c cs k s)).
Proof.
  intros L E. destruct cs as [[t i] conv]. unfold xrun_case.
  destruct (has s t i); cbn [negb]; [|exact E].
  destruct (serv s t i) eqn:T; cbn [negb]; [|exact E].
  assert (T0 : serv s0 t i = true) by (destruct E as (_ & _ & _ & _ & S & _); now rewrite <- S).
  destruct inside.
  - rewrite xrun_try_state. apply KC_restore; [exact T0|].
    apply (xrun_ops_inv (KC s0 t i)); [|now apply KC_of_eq].
    intros a [<-|[<-|[<-|[]]]] k' s'; apply KC_step; cbn; auto.
  - destruct window; [discriminate|]. cbn [xrun_ops].
    destruct k as [[|j]|].
    + (* the assignment itself raises: nothing written *) exact E.
    + cbn [xstep]. cbn iota. rewrite xrun_try_state. apply KC_restore; [exact T0|].
      apply (xrun_ops_inv (KC s0 t i)).
      * intros a [<-|[<-|[]]] k' s'; apply KC_step; cbn; auto.
      * apply (KC_step s0 t i exn (XSetServ t i false) None s); [cbn; auto | now apply KC_of_eq].
    + cbn [xstep]. cbn iota. rewrite xrun_try_state. apply KC_restore; [exact T0|].
      apply (xrun_ops_inv (KC s0 t i)).
      * intros a [<-|[<-|[]]] k' s'; apply KC_step; cbn; auto.
      * apply (KC_step s0 t i exn (XSetServ t i false) None s); [cbn; auto | now apply KC_of_eq].
Qed.

Lemma cases_restore exn window inside swallow c cs : sync_layout window inside = true ->
  forall k s0 s, xtables_eq s0 s -> xtables_eq s0 (st3 (xrun_cases exn window inside swallow c cs k s)).
Proof.
  intros L. induction cs as [|x r IH]; intros k s0 s E; [exact E|].
  cbn [xrun_cases]. pose proof (case_restores exn window inside swallow c x k s0 s L E) as E1.
  destruct (xrun_case exn window inside swallow c x k s) as [[s1 o] k1]. unfold st3 in E1. cbn [fst] in E1.
  destruct o; [now apply IH | exact E1].
Qed.

Theorem contingency_restores exn window inside raise_errors c cs conv0 k s0 :
  sync_layout window inside = true -> clean (x_net s0) = true ->
  xtables_eq s0 (st3 (run_contingency exn window inside raise_errors c cs conv0 k s0)).
Proof.
  intros L C. unfold run_contingency.
  pose proof (cases_restore exn window inside (negb raise_errors) c cs L k s0 s0 (xtables_refl s0 C)) as E1.
  destruct (xrun_cases exn window inside (negb raise_errors) c cs k s0) as [[s1 o] k1]. unfold st3 in E1. cbn [fst] in E1.
  destruct o; [|exact E1].
  apply (xrun_ops_inv (xtables_eq s0)); [|exact E1].
  intros a [<-|[<-|[<-|[]]]] k' s Hs; [|now rewrite xstep_stage|now rewrite xstep_stage].
  destruct Hs as (U & C' & Z & O & S & H).
  destruct (xcalc_net s c conv0 k' exn C') as (U' & C'' & Z' & O' & S' & H').
  unfold xtables_eq. rewrite U', Z', O', S', H'. auto 10.
Qed.

(* FULL for the code as it is (assignment inside the try statement): every crash point, with or without the extra
   fault point behind the assignment *)
Theorem contingency_restores_full exn window raise_errors c cs conv0 k s0 :
  clean (x_net s0) = true ->
  xtables_eq s0 (st3 (run_contingency exn window CONTINGENCY_OUTAGE_INSIDE_TRY raise_errors c cs conv0 k s0)).
Proof. intros C. apply contingency_restores; [reflexivity | exact C]. Qed.

(* the layout before the repair: a fault between the outage assignment and the try statement leaves the element out of service *)
Definition s_line : xnet :=
  {| x_net := net0; sw_z := Some [0]; sw_ori := None; serv := fun _ _ => true; has := fun _ i => Z.ltb i 3 |}.
Theorem contingency_window_refuted :
  exists s cs k, clean (x_net s) = true /\
    serv (st3 (run_contingency false true false false CPf cs true k s)) 0%nat 1 <> serv s 0%nat 1.
Proof. exists s_line, [(0%nat, 0, true); (0%nat, 1, true)], (Some 9%nat). split; [reflexivity|]. vm_compute. discriminate. Qed.

(* swallowed failures: with raise_errors = False a failing outage case does not end the analysis *)
Example nonvacuous_x :
  (* estimate: fault inside the second nested power flow (behind the first impedance write), BaseException *)
  (let r := run_estimate false true false [([true; false], Some [true; false]); ([false; true], None)] true true (Some 30%nat)
              {| x_net := net_nv; sw_z := Some [0; 0]; sw_ori := None; serv := fun _ _ => true; has := fun _ _ => true |} in
   oc3 r = XRaised false /\ sw_z (st3 r) = Some [0; 0] /\ sw_ori (st3 r) = None /\ user_tables (x_net (st3 r)) = user_tables net_nv) /\
  (* the same run without fault passes through the impedance states *)
  sw_z (st3 (xrun_ops true (est_body true false false [([true; false], None)] true true) None
              {| x_net := net0; sw_z := Some [0; 0]; sw_ori := None; serv := fun _ _ => true; has := fun _ _ => true |}))
    = Some [Z_IMP; 0] /\
  (* contingency: second outage does not converge and is swallowed, a KeyboardInterrupt hits the third outage's power flow *)
  (let r := run_contingency false false false false CPf [(0%nat, 0, true); (0%nat, 1, false); (0%nat, 2, true)] true (Some 12%nat) s_line in
   oc3 r = XRaised false /\ forall i, In i [0; 1; 2] -> serv (st3 r) 0%nat i = true) /\
  (* ... an injected Exception at the same place is swallowed like a natural one (raise_errors = False) *)
  oc3 (run_contingency true false false false CPf [(0%nat, 0, true); (0%nat, 1, false); (0%nat, 2, true)] true (Some 12%nat) s_line) = XDone.
Proof. vm_compute. repeat split; auto; intros i [<-|[<-|[<-|[]]]]; reflexivity. Qed.
