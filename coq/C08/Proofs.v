(* C08 — the element tables survive every calculation pipeline, for every crash point *)
From Coq Require Import ZArith List Bool Lia.
From PPV Require Import Base.Out C08.Model.
Import ListNotations.
Open Scope Z_scope.

(* ------------------------------------------------------------------ small facts *)
Lemma memz_In x l : memz x l = true <-> In x l.
Proof.
  induction l as [|y l IH]; cbn; [split; [discriminate|tauto]|].
  rewrite orb_true_iff, IH, Z.eqb_eq. split; intros [H|H]; auto.
Qed.
Lemma memz_false x l : memz x l = false <-> ~ In x l.
Proof. rewrite <- memz_In. destruct (memz x l); split; congruence. Qed.

Lemma fold_max_ge l : forall m, m <= fold_left (fun m i => Z.max m (i + 1)) l m.
Proof. induction l as [|a l IH]; intros m; cbn; [lia|]. specialize (IH (Z.max m (a + 1))). lia. Qed.
Lemma fold_max_mono l : forall m m', m <= m' ->
  fold_left (fun m i => Z.max m (i + 1)) l m <= fold_left (fun m i => Z.max m (i + 1)) l m'.
Proof. induction l as [|a l IH]; intros m m' H; cbn; [exact H|]. apply IH. lia. Qed.
Lemma next_id_gt l : forall x, In x l -> x < next_id l.
Proof.
  unfold next_id. generalize 0. induction l as [|a l IH]; intros m x H; cbn in *; [tauto|].
  destruct H as [->|H]; [|now apply IH].
  pose proof (fold_max_ge l (Z.max m (x + 1))). lia.
Qed.
Lemma next_id_app l l' : next_id l <= next_id (l ++ l').
Proof. unfold next_id. rewrite fold_left_app. apply fold_max_ge. Qed.

Lemma filter_all_true {A} (p : A -> bool) l : (forall x, In x l -> p x = true) -> filter p l = l.
Proof.
  induction l as [|a l IH]; cbn; intros H; [reflexivity|].
  rewrite (H a (or_introl eq_refl)). f_equal. apply IH. intros x Hx. apply H. now right.
Qed.
Lemma filter_all_false {A} (p : A -> bool) l : (forall x, In x l -> p x = false) -> filter p l = [].
Proof.
  induction l as [|a l IH]; cbn; intros H; [reflexivity|].
  rewrite (H a (or_introl eq_refl)). apply IH. intros x Hx. apply H. now right.
Qed.

(* ------------------------------------------------------------------ the invariant *)
Definition bound (n0 : net) : Z := next_id (ids (gen n0)).
Definition vbound (n0 : net) : Z := next_id (map v_id (vsc n0)).

(* generic: rows with a key; base rows have keys below the bound, tracked keys lie above it and cover the extra rows *)
Lemma drop_extra {A} (key : A -> Z) (base extra : list A) (T : list Z) :
  (forall x, In x base -> key x < next_id (map key base)) ->
  (forall x, In x extra -> In (key x) T) -> (forall t, In t T -> next_id (map key base) <= t) ->
  filter (fun x => negb (memz (key x) T)) (base ++ extra) = base.
Proof.
  intros HB HE HT. rewrite filter_app.
  rewrite (filter_all_true _ base), (filter_all_false _ extra); [apply app_nil_r| |].
  - intros x Hx. apply negb_false_iff. apply memz_In. now apply HE.
  - intros x Hx. apply negb_true_iff. apply memz_false. intros Hin. specialize (HT _ Hin). specialize (HB _ Hx). lia.
Qed.
Lemma keys_below {A} (key : A -> Z) (l : list A) x : In x l -> key x < next_id (map key l).
Proof. intros H. apply next_id_gt. now apply in_map. Qed.

Record Inv (n0 n : net) : Prop := {
  i_gen : exists aux, gen n = gen n0 ++ aux /\ (forall a, In a aux -> In (g_id a) (olist_ (tracked n))) /\
                      (forall t, In t (olist_ (tracked n)) -> bound n0 <= t);
  i_vsc : exists vaux, vsc n = vsc n0 ++ vaux /\ (forall v, In v vaux -> In (v_id v) (olist_ (tracked_v n))) /\
                       (forall t, In t (olist_ (tracked_v n)) -> vbound n0 <= t);
  i_trafo : trafo n = trafo n0;
  i_dc : dcline n = dcline n0;
  i_b2b : b2b n = b2b n0
}.

(* the state between two calculations: tables as the user left them, nothing tracked *)
Definition Restored (n0 n : net) : Prop := user_tables n = user_tables n0 /\ clean n = true.

Lemma clean1_nil t : clean1 t = true -> olist_ t = [].
Proof. destruct t as [[|]|]; cbn; intros; congruence. Qed.

Lemma restored_inv n0 n : Restored n0 n -> Inv n0 n.
Proof.
  intros [U C]. unfold user_tables in U. inversion U as [[Hg Hv Ht Hd Hb]].
  unfold clean in C. apply andb_true_iff in C. destruct C as [C1 C2].
  constructor; auto.
  - exists []. rewrite app_nil_r. split; [exact Hg|]. rewrite (clean1_nil _ C1). split; intros ? [].
  - exists []. rewrite app_nil_r. split; [exact Hv|]. rewrite (clean1_nil _ C2). split; intros ? [].
Qed.

Lemma last_z_In l i : last_z l = Some i -> In i l.
Proof.
  unfold last_z. intros H. destruct (rev l) as [|x r] eqn:E; [discriminate|]. inversion H; subst x.
  apply in_rev. rewrite E. now left.
Qed.

(* the operations of the repaired pipelines *)
Definition okop (a : aop) : Prop :=
  match a with
  | APrepareGen | ATrackNextGen | ACreateGenAt _ | APrepareVsc | ATrackNextVsc | ACreateVscAt _ _
  | AInitRes | ABuild | ASolve | AExtract | ACleanup _ => True
  | _ => False
  end.

Ltac keep_gen aux Hg Hb Ht := exists aux; repeat split; auto.

Lemma drop_gen n0 aux T :
  (forall a, In a aux -> In (g_id a) T) -> (forall t, In t T -> bound n0 <= t) -> drop_ids T (gen n0 ++ aux) = gen n0.
Proof. intros. apply (drop_extra g_id); auto. intros x Hx. now apply keys_below. Qed.
Lemma drop_vsc n0 vaux T :
  (forall v, In v vaux -> In (v_id v) T) -> (forall t, In t T -> vbound n0 <= t) -> drop_vids T (vsc n0 ++ vaux) = vsc n0.
Proof. intros. apply (drop_extra v_id); auto. intros x Hx. now apply keys_below. Qed.

Lemma inv_apply n0 n a : okop a -> Inv n0 n -> Inv n0 (apply a n).
Proof.
  intros OK I. destruct I as [(aux & Hg & Hb & Ht) (vaux & Hv & Hvb & Hvt) Htr Hdc Hbb].
  destruct a; cbn [okop] in OK; try contradiction; cbn [apply].
  - (* APrepareGen *)
    destruct (tracked n) as [[|t0 t]|] eqn:ET; cbn [olist_] in *.
    + constructor; cbn; auto; [exists aux; auto | exists vaux; auto].
    + constructor; cbn; auto; [|exists vaux; auto].
      exists []. rewrite app_nil_r. split; [rewrite Hg; now apply drop_gen|]. split; intros ? [].
    + constructor; cbn; auto; [exists aux; auto | exists vaux; auto].
  - (* ATrackNextGen *)
    constructor; cbn; auto; [|exists vaux; auto].
    exists aux. split; [exact Hg|]. split.
    + intros a Ha. apply in_or_app. left. now apply Hb.
    + intros t Hin. apply in_app_or in Hin. destruct Hin as [Hin|[<-|[]]]; [now apply Ht|].
      rewrite Hg. unfold ids. rewrite map_app. apply next_id_app.
  - (* ACreateGenAt *)
    destruct (last_z (olist_ (tracked n))) as [i|] eqn:EL.
    + constructor; cbn; auto; [|exists vaux; auto].
      exists (aux ++ [{| g_id := i; g_data := payload |}]). split; [now rewrite Hg, app_assoc|]. split; [|exact Ht].
      intros a Ha. apply in_app_or in Ha. destruct Ha as [Ha|[<-|[]]]; [now apply Hb|]. cbn. now apply last_z_In.
    + constructor; auto; [exists aux; auto | exists vaux; auto].
  - (* APrepareVsc *)
    destruct (tracked_v n) as [[|t0 t]|] eqn:ET; cbn [olist_] in *.
    + constructor; cbn; auto; [exists aux; auto | exists vaux; auto].
    + constructor; cbn; auto; [exists aux; auto|].
      exists []. rewrite app_nil_r. split; [rewrite Hv; now apply drop_vsc|]. split; intros ? [].
    + constructor; cbn; auto; [exists aux; auto | exists vaux; auto].
  - (* ATrackNextVsc *)
    constructor; cbn; auto; [exists aux; auto|].
    exists vaux. split; [exact Hv|]. split.
    + intros v Hin. apply in_or_app. left. now apply Hvb.
    + intros t Hin. apply in_app_or in Hin. destruct Hin as [Hin|[<-|[]]]; [now apply Hvt|].
      rewrite Hv. rewrite map_app. apply next_id_app.
  - (* ACreateVscAt *)
    destruct (last_z (olist_ (tracked_v n))) as [j|] eqn:EL.
    + constructor; cbn; auto; [exists aux; auto|].
      exists (vaux ++ [{| v_id := j; v_name := NB2B i plus; v_data := 0 |}]). split; [now rewrite Hv, app_assoc|].
      split; [|exact Hvt].
      intros v Hin. apply in_app_or in Hin. destruct Hin as [Hin|[<-|[]]]; [now apply Hvb|]. cbn. now apply last_z_In.
    + constructor; auto; [exists aux; auto | exists vaux; auto].
  - constructor; cbn; auto; [exists aux; auto | exists vaux; auto].
  - constructor; auto; [exists aux; auto | exists vaux; auto].
  - constructor; auto; [exists aux; auto | exists vaux; auto].
  - constructor; cbn; auto; [exists aux; auto | exists vaux; auto].
  - (* ACleanup: see cleanup_restores; here only Inv *)
    set (n1 := match tracked n with
               | None | Some [] => n
               | Some t => upd n (drop_ids t (gen n)) (drop_z t (res_gen n)) (vsc n) (Some []) (tracked_v n) end).
    assert (I1 : Inv n0 n1).
    { subst n1. destruct (tracked n) as [[|t0 t]|] eqn:ET; cbn [olist_] in *.
      - constructor; auto; [exists aux; rewrite ET; auto | exists vaux; auto].
      - constructor; cbn; auto; [|exists vaux; auto].
        exists []. rewrite app_nil_r. split; [rewrite Hg; now apply drop_gen|]. split; intros ? [].
      - constructor; auto; [exists aux; rewrite ET; auto | exists vaux; auto]. }
    clearbody n1. clear - I1.
    destruct I1 as [(aux & Hg & Hb & Ht) (vaux & Hv & Hvb & Hvt) Htr Hdc Hbb].
    destruct (tracked_v n1) as [[|t0 t]|] eqn:ET; cbn [olist_] in *.
    + constructor; auto; [exists aux; auto | exists vaux; rewrite ET; auto].
    + constructor; cbn; auto; [exists aux; auto|].
      exists []. rewrite app_nil_r. split; [rewrite Hv; now apply drop_vsc|]. split; intros ? [].
    + constructor; auto; [exists aux; auto | exists vaux; rewrite ET; auto].
Qed.

Lemma extra_nil {A} (key : A -> Z) (extra : list A) : (forall x, In x extra -> In (key x) []) -> extra = [].
Proof. destruct extra as [|x r]; [reflexivity|]. intros H. destruct (H x (or_introl eq_refl)). Qed.

(* cleanup gives the user's tables back, whatever state of the pipeline it is called in *)
Lemma cleanup_restores n0 n r : Inv n0 n -> Restored n0 (apply (ACleanup r) n).
Proof.
  intros I. destruct I as [(aux & Hg & Hb & Ht) (vaux & Hv & Hvb & Hvt) Htr Hdc Hbb].
  cbn [apply].
  (* after the gen part *)
  assert (exists n1, n1 = match tracked n with
               | None | Some [] => n
               | Some t => upd n (drop_ids t (gen n)) (drop_z t (res_gen n)) (vsc n) (Some []) (tracked_v n) end
          /\ gen n1 = gen n0 /\ clean1 (tracked n1) = true /\ vsc n1 = vsc n /\ tracked_v n1 = tracked_v n
          /\ trafo n1 = trafo n0 /\ dcline n1 = dcline n0 /\ b2b n1 = b2b n0) as (n1 & E1 & G1 & C1 & V1 & TV1 & T1 & D1 & B1).
  { eexists. split; [reflexivity|].
    destruct (tracked n) as [[|t0 t]|] eqn:ET; cbn [olist_] in *.
    - rewrite (extra_nil g_id aux Hb) in Hg. rewrite app_nil_r in Hg. rewrite ET. repeat split; auto.
    - cbn. repeat split; auto. rewrite Hg. now apply drop_gen.
    - rewrite (extra_nil g_id aux Hb) in Hg. rewrite app_nil_r in Hg. rewrite ET. repeat split; auto. }
  rewrite <- E1. clear E1.
  rewrite TV1.
  destruct (tracked_v n) as [[|t0 t]|] eqn:ET; cbn [olist_] in *.
  - rewrite (extra_nil v_id vaux Hvb) in Hv. rewrite app_nil_r in Hv.
    split; [unfold user_tables; now rewrite G1, V1, Hv, T1, D1, B1 | unfold clean; now rewrite C1, TV1].
  - split; [unfold user_tables; cbn; rewrite G1, V1, Hv, T1, D1, B1; now rewrite drop_vsc | unfold clean; cbn; now rewrite C1].
  - rewrite (extra_nil v_id vaux Hvb) in Hv. rewrite app_nil_r in Hv.
    split; [unfold user_tables; now rewrite G1, V1, Hv, T1, D1, B1 | unfold clean; now rewrite C1, TV1].
Qed.

(* ------------------------------------------------------------------ runs *)
Definition okinstr (i : instr) : Prop :=
  match i with Do a => okop a | FailIfNotConv l => Forall okop l end.

Lemma inv_fold n0 l : Forall okop l -> forall n, Inv n0 n -> Inv n0 (fold_left (fun m a => apply a m) l n).
Proof. intros F. induction F as [|a l Ha F IH]; intros n I; cbn; [exact I|]. apply IH. now apply inv_apply. Qed.

Definition st4 (r : net * outcome * option nat * list net) : net := fst (fst (fst r)).
Definition oc4 (r : net * outcome * option nat * list net) : outcome := snd (fst (fst r)).
Definition k4 (r : net * outcome * option nat * list net) : option nat := snd (fst r).

Lemma run_inv n0 is : Forall okinstr is -> forall k conv n, Inv n0 n -> Inv n0 (st4 (run is k conv n)).
Proof.
  intros F. induction F as [|i is Hi F IH]; intros k conv n I; [exact I|].
  destruct i as [a|l]; cbn [run].
  - destruct k as [[|j]|]; [exact I| |].
    + specialize (IH (Some j) conv (apply a n) (inv_apply n0 n a Hi I)).
      destruct (run is (Some j) conv (apply a n)) as [[[nf o] kf] tr]. exact IH.
    + specialize (IH None conv (apply a n) (inv_apply n0 n a Hi I)).
      destruct (run is None conv (apply a n)) as [[[nf o] kf] tr]. exact IH.
  - destruct conv; [apply IH; exact I|]. cbn. apply inv_fold; auto.
Qed.

Lemma run_app is1 is2 k conv n :
  run (is1 ++ is2) k conv n =
  let r1 := run is1 k conv n in
  match oc4 r1 with
  | Raised => r1
  | Done => let r2 := run is2 (k4 r1) conv (st4 r1) in
            (st4 r2, oc4 r2, k4 r2, snd r1 ++ snd r2)
  end.
Proof.
  revert k n. induction is1 as [|i is1 IH]; intros k n; cbn [app run].
  - unfold st4, oc4, k4. cbn. destruct (run is2 k conv n) as [[[a b] c] d]. reflexivity.
  - destruct i as [a|l].
    + destruct k as [[|j]|]; [reflexivity| |].
      * rewrite IH. destruct (run is1 (Some j) conv (apply a n)) as [[[nf o] kf] tr]. unfold st4, oc4, k4. cbn.
        destruct o; [|reflexivity]. destruct (run is2 kf conv nf) as [[[a2 b2] c2] d2]. reflexivity.
      * rewrite IH. destruct (run is1 None conv (apply a n)) as [[[nf o] kf] tr]. unfold st4, oc4, k4. cbn.
        destruct o; [|reflexivity]. destruct (run is2 kf conv nf) as [[[a2 b2] c2] d2]. reflexivity.
    + destruct conv; [apply IH|reflexivity].
Qed.

(* a body that ends with a cleanup call: normal completion means the cleanup ran on a state satisfying Inv *)
Lemma run_done_restored n0 front r : Forall okinstr front ->
  forall k conv n, Inv n0 n ->
  oc4 (run (front ++ [Do (ACleanup r)]) k conv n) = Done ->
  Restored n0 (st4 (run (front ++ [Do (ACleanup r)]) k conv n)).
Proof.
  intros F k conv n I. rewrite run_app. cbn zeta.
  pose proof (run_inv n0 front F k conv n I) as I1.
  destruct (run front k conv n) as [[[n1 o1] k1] tr1]. unfold st4, oc4, k4 in *. cbn [fst snd] in *.
  destruct o1; [|cbn; discriminate].
  cbn [run]. destruct k1 as [[|j]|]; cbn [fst snd]; try discriminate; intros _; now apply cleanup_restores.
Qed.

(* a pipeline of the repaired shape: try: front; cleanup  except: cleanup; raise *)
Definition ex_st (r : net * outcome * list net) : net := fst (fst r).

Theorem try_pipeline_restores n0 front r r' : clean n0 = true -> Forall okinstr front ->
  forall k conv,
  Restored n0 (ex_st (exec {| p_pre := []; p_body := front ++ [Do (ACleanup r)]; p_handler := [ACleanup r'] |} k conv n0)).
Proof.
  intros C F k conv. unfold exec. cbn [p_pre p_body p_handler run].
  assert (I0 : Inv n0 n0) by (apply restored_inv; split; auto).
  pose proof (run_done_restored n0 front r F k conv n0 I0) as HD.
  assert (F' : Forall okinstr (front ++ [Do (ACleanup r)])).
  { apply Forall_app. split; [exact F|]. constructor; [exact I|constructor]. }
  pose proof (run_inv n0 _ F' k conv n0 I0) as HI.
  destruct (run (front ++ [Do (ACleanup r)]) k conv n0) as [[[n2 o2] k2] tr2].
  unfold st4, oc4 in *. cbn [fst snd] in *.
  destruct o2; unfold ex_st; cbn [fst].
  - now apply HD.
  - cbn [fold_left]. now apply cleanup_restores.
Qed.

(* ------------------------------------------------------------------ the concrete pipelines *)
Lemma ok_add_gens n0 : Forall okinstr (add_gens n0).
Proof.
  unfold add_gens. destruct (dcline n0) as [|d ds]; [constructor|].
  constructor; [exact I|]. apply Forall_forall. intros i Hi. apply in_flat_map in Hi.
  destruct Hi as (x & _ & [<-|[<-|[<-|[<-|[]]]]]); exact I.
Qed.
Lemma ok_add_vscs n0 : Forall okinstr (add_vscs n0).
Proof.
  unfold add_vscs. destruct (b2b n0) as [|d ds]; [constructor|].
  constructor; [exact I|]. apply Forall_forall. intros i Hi. apply in_flat_map in Hi.
  destruct Hi as (x & _ & [<-|[<-|[<-|[<-|[]]]]]); exact I.
Qed.
Lemma ok_add_aux n0 : Forall okinstr (add_aux n0).
Proof. unfold add_aux. apply Forall_app. split; [apply ok_add_gens | apply ok_add_vscs]. Qed.

Ltac ok_tail := repeat (constructor; try exact I); try (constructor; [exact I|constructor]).

Theorem powerflow_restores n0 k conv : clean n0 = true ->
  Restored n0 (ex_st (exec (pl_powerflow n0) k conv n0)).
Proof.
  intros C. unfold pl_powerflow.
  change (add_aux n0 ++ [Do AInitRes; Do ABuild; Do ASolve; FailIfNotConv [ACleanup false]; Do AExtract; Do (ACleanup true)])
    with (add_aux n0 ++ ([Do AInitRes; Do ABuild; Do ASolve; FailIfNotConv [ACleanup false]; Do AExtract] ++ [Do (ACleanup true)])).
  rewrite app_assoc. apply try_pipeline_restores; auto.
  apply Forall_app. split; [apply ok_add_aux|]. ok_tail.
Qed.

Theorem opf_restores n0 k conv : clean n0 = true ->
  Restored n0 (ex_st (exec (pl_opf n0) k conv n0)).
Proof.
  intros C. unfold pl_opf.
  change (add_aux n0 ++ [Do AInitRes; Do ABuild; Do ASolve; FailIfNotConv []; Do AExtract; Do (ACleanup true)])
    with (add_aux n0 ++ ([Do AInitRes; Do ABuild; Do ASolve; FailIfNotConv []; Do AExtract] ++ [Do (ACleanup true)])).
  rewrite app_assoc. apply try_pipeline_restores; auto.
  apply Forall_app. split; [apply ok_add_aux|]. ok_tail.
Qed.

Theorem sc_restores n0 k conv : clean n0 = true ->
  Restored n0 (ex_st (exec (pl_sc n0) k conv n0)).
Proof.
  intros C. unfold pl_sc.
  change (add_aux n0 ++ [Do ABuild; Do ASolve; FailIfNotConv [ACleanup false]; Do (ACleanup true)])
    with (add_aux n0 ++ ([Do ABuild; Do ASolve; FailIfNotConv [ACleanup false]] ++ [Do (ACleanup true)])).
  rewrite app_assoc. apply try_pipeline_restores; auto.
  apply Forall_app. split; [apply ok_add_aux|]. ok_tail.
Qed.

Theorem sc_1ph_restores n0 k conv : clean n0 = true ->
  Restored n0 (ex_st (exec (pl_sc_1ph n0) k conv n0)).
Proof.
  intros C. unfold pl_sc_1ph.
  change (add_aux n0 ++ add_aux n0 ++ [Do ABuild; Do ASolve; FailIfNotConv [ACleanup false]; Do (ACleanup true)])
    with (add_aux n0 ++ add_aux n0 ++ ([Do ABuild; Do ASolve; FailIfNotConv [ACleanup false]] ++ [Do (ACleanup true)])).
  rewrite !app_assoc. apply try_pipeline_restores; auto.
  apply Forall_app. split; [apply Forall_app; split; apply ok_add_aux|]. ok_tail.
Qed.

(* runpp_3ph has no try statement; it never leaves the restored state *)
Definition safeop (a : aop) : Prop :=
  match a with AInitRes | ABuild | ASolve | AExtract | ACleanup _ => True | _ => False end.
Lemma restored_apply n0 n a : safeop a -> Restored n0 n -> Restored n0 (apply a n).
Proof.
  intros S R. destruct a; cbn in S; try contradiction.
  - destruct R as [U C]. split; [exact U | exact C].
  - exact R.
  - exact R.
  - destruct R as [U C]. split; [exact U | exact C].
  - apply cleanup_restores. now apply restored_inv.
Qed.
Definition safeinstr (i : instr) : Prop := match i with Do a => safeop a | FailIfNotConv l => Forall safeop l end.
Lemma restored_fold n0 l : Forall safeop l ->
  forall n, Restored n0 n -> Restored n0 (fold_left (fun m a => apply a m) l n).
Proof. intros F. induction F; intros n R; cbn; [exact R|]. apply IHF. now apply restored_apply. Qed.
Lemma run_restored n0 is : Forall safeinstr is ->
  forall k conv n, Restored n0 n -> Restored n0 (st4 (run is k conv n)).
Proof.
  intros F. induction F as [|i is Hi F IH]; intros k conv n R; [exact R|].
  destruct i as [a|l]; cbn [run].
  - destruct k as [[|j]|]; [exact R| |].
    + specialize (IH (Some j) conv (apply a n) (restored_apply n0 n a Hi R)).
      destruct (run is (Some j) conv (apply a n)) as [[[nf o] kf] tr]. exact IH.
    + specialize (IH None conv (apply a n) (restored_apply n0 n a Hi R)).
      destruct (run is None conv (apply a n)) as [[[nf o] kf] tr]. exact IH.
  - destruct conv; [apply IH; exact R|]. cbn. apply restored_fold; auto.
Qed.

Theorem pf3ph_restores n0 k conv : clean n0 = true ->
  Restored n0 (ex_st (exec (pl_pf3ph n0) k conv n0)).
Proof.
  intros C. unfold exec, pl_pf3ph. cbn [p_pre p_body p_handler].
  assert (F : Forall safeinstr [Do ABuild; Do ASolve; FailIfNotConv [ACleanup false]; Do (ACleanup true)]).
  { repeat (constructor; try exact I). }
  assert (R0 : Restored n0 n0) by (split; auto).
  pose proof (run_restored n0 _ F k conv n0 R0) as H.
  destruct (run [Do ABuild; Do ASolve; FailIfNotConv [ACleanup false]; Do (ACleanup true)] k conv n0) as [[[n1 o1] k1] tr1].
  unfold st4 in H. cbn [fst] in H. destruct o1; unfold ex_st; cbn; exact H.
Qed.

Theorem calc_restores n0 c k conv : clean n0 = true ->
  Restored n0 (ex_st (exec (pl_of c n0) k conv n0)).
Proof.
  intros C. destruct c; cbn [pl_of];
    [apply powerflow_restores | apply opf_restores | apply sc_restores | apply sc_1ph_restores | apply pf3ph_restores]; auto.
Qed.

(* ---- any number of calculations in a row, each with its own crash point and solver verdict *)
Theorem session_restores cs : forall n0, clean n0 = true -> Restored n0 (session cs n0).
Proof.
  induction cs as [|[[c k] conv] cs IH]; intros n0 C; cbn [session]; [split; auto|].
  pose proof (calc_restores n0 c k conv C) as [U1 C1]. unfold ex_st in *.
  set (n1 := fst (fst (exec (pl_of c n0) k conv n0))) in *.
  destruct (IH n1 C1) as [U2 C2]. split; [congruence | exact C2].
Qed.

(* ---- _clean_up is idempotent *)
Lemma filter_idem {A} (p : A -> bool) l : filter p (filter p l) = filter p l.
Proof. induction l as [|a l IH]; cbn; [reflexivity|]. destruct (p a) eqn:E; cbn; [rewrite E, IH|]; auto. Qed.

Theorem cleanup_idempotent n r r' : apply (ACleanup r') (apply (ACleanup r) n) = apply (ACleanup r) n.
Proof.
  cbn [apply].
  destruct (tracked n) as [[|t0 t]|] eqn:ET; destruct (tracked_v n) as [[|v0 vt]|] eqn:EV;
    cbn [tracked tracked_v upd gen res_gen vsc]; rewrite ?ET, ?EV; cbn [tracked tracked_v upd gen res_gen vsc];
    rewrite ?ET, ?EV; reflexivity.
Qed.

(* ------------------------------------------------------------------ refutations of the code before the repairs *)
Definition g (i d : Z) : grow := {| g_id := i; g_data := d |}.
Definition net_w : net :=
  {| gen := [g 0 7]; res_gen := [0]; vsc := []; trafo := [{| t_id := 0; t_vk := 12; t_tab := Some 13 |}];
     dcline := [50]; b2b := []; tracked := None; tracked_v := None |}.

(* Mid: a fault between the row write of create_gen and the tracking of its index leaves the row behind *)
Theorem mid_window_refuted :
  exists n k conv, clean n = true /\
    user_tables (ex_st (exec (pl_powerflow_mid n) k conv n)) <> user_tables n.
Proof. exists net_w, (Some 2%nat), true. split; [reflexivity|]. vm_compute. discriminate. Qed.

(* Mid: a user vsc that carries the name of an auxiliary b2b vsc is deleted by a successful run *)
Definition net_v : net :=
  {| gen := []; res_gen := []; vsc := [{| v_id := 0; v_name := NB2B 0 true; v_data := 5 |}]; trafo := [];
     dcline := []; b2b := [0]; tracked := None; tracked_v := None |}.
Theorem mid_vsc_name_refuted :
  exists n k conv, clean n = true /\ snd (fst (exec (pl_powerflow_mid n) k conv n)) = Done /\
    user_tables (ex_st (exec (pl_powerflow_mid n) k conv n)) <> user_tables n.
Proof. exists net_v, None, true. repeat split. vm_compute. discriminate. Qed.
(* ... while the repaired pipeline keeps that row, for every crash point (instance of the main theorem) *)

Theorem old_crash_leaks_refuted :
  exists n k conv, user_tables (ex_st (exec (pl_powerflow_old n) k conv n)) <> user_tables n.
Proof. exists net_w, (Some 3%nat), true. vm_compute. discriminate. Qed.

Theorem old_opf_not_converged_leaks_refuted :
  exists n, user_tables (ex_st (exec (pl_opf_old n) None false n)) <> user_tables n.
Proof.
  exists {| gen := [g 0 7]; res_gen := [0]; vsc := []; trafo := []; dcline := [50]; b2b := []; tracked := None; tracked_v := None |}.
  vm_compute. discriminate.
Qed.

Theorem old_tap_table_overwrites_refuted :
  exists n, snd (fst (exec (pl_powerflow_old n) None true n)) = Done /\
            user_tables (ex_st (exec (pl_powerflow_old n) None true n)) <> user_tables n.
Proof.
  exists {| gen := []; res_gen := []; vsc := []; trafo := [{| t_id := 0; t_vk := 12; t_tab := Some 13 |}];
            dcline := []; b2b := []; tracked := None; tracked_v := None |}.
  split; vm_compute; [reflexivity | discriminate].
Qed.

(* the old cleanup rule deletes user generators when nothing was added (runpp_3ph, recycled power flow) *)
Theorem old_cleanup_without_add_refuted :
  exists n, user_tables (apply (ACleanupOld true) n) <> user_tables n.
Proof.
  exists {| gen := [g 0 7; g 1 8]; res_gen := [0; 1]; vsc := []; trafo := []; dcline := [50]; b2b := [];
            tracked := None; tracked_v := None |}.
  vm_compute. discriminate.
Qed.

(* non-vacuity: two dclines, a b2b_vsc, user gens with gapped ids, a user vsc named like an auxiliary one *)
Definition net_nv : net :=
  {| gen := [g 2 7; g 5 8]; res_gen := [2; 5]; vsc := [{| v_id := 4; v_name := NB2B 3 true; v_data := 5 |}];
     trafo := [{| t_id := 0; t_vk := 12; t_tab := Some 13 |}]; dcline := [50; 60]; b2b := [3];
     tracked := Some []; tracked_v := None |}.
Example nonvacuous :
  clean net_nv = true /\
  (exists tr, snd (run (add_aux net_nv) None true net_nv) = tr /\
              map (fun n => (ids (gen n), olist_ (tracked n), map v_id (vsc n))) tr =
              [ ([2;5], [], [4]); ([2;5], [6], [4]); ([2;5;6], [6], [4]); ([2;5;6], [6;7], [4]); ([2;5;6;7], [6;7], [4]);
                ([2;5;6;7], [6;7;8], [4]); ([2;5;6;7;8], [6;7;8], [4]); ([2;5;6;7;8], [6;7;8;9], [4]);
                ([2;5;6;7;8;9], [6;7;8;9], [4]); ([2;5;6;7;8;9], [6;7;8;9], [4]); ([2;5;6;7;8;9], [6;7;8;9], [4]);
                ([2;5;6;7;8;9], [6;7;8;9], [4;5]); ([2;5;6;7;8;9], [6;7;8;9], [4;5]); ([2;5;6;7;8;9], [6;7;8;9], [4;5;6]) ]) /\
  (* a fault right after the row write of the third auxiliary gen, in the 1ph short-circuit pipeline *)
  user_tables (ex_st (exec (pl_sc_1ph net_nv) (Some 7%nat) true net_nv)) = user_tables net_nv /\
  snd (fst (exec (pl_sc_1ph net_nv) (Some 7%nat) true net_nv)) = Raised.
Proof. vm_compute. repeat split. eexists. split; reflexivity. Qed.
