(* C18 — elimination on the tridiagonal admittance system of the four-bus chain (complex coefficients, nsatz). *)
From Coq Require Import ZArith QArith List Bool Lia Lqa Setoid Morphisms Nsatz.
From PPV Require Import Base.QN Base.QC Base.Out C18.Model C18.CField C18.ChainModel.
Import ListNotations.
Open Scope Q_scope.

(* ------------------------------------------------------------------ A. elimination on the tridiagonal system *)
Section Tridiagonal.
Variables ysh y1 yt y2 tt zeg z1 zt z2 : C.
Variables e00 e01 e10 e11 e12 e21 e22 e23 e32 e33 : C.
Variables v0 v1 v2 v3 : C.
Hypothesis Hsh : Cmul ysh zeg ==c C1.
Hypothesis H1 : Cmul y1 z1 ==c C1.
Hypothesis Ht : Cmul yt zt ==c C1.
Hypothesis H2 : Cmul y2 z2 ==c C1.
Hypothesis E00 : e00 ==c Cadd ysh y1.
Hypothesis E01 : e01 ==c Copp y1.
Hypothesis E10 : e10 ==c Copp y1.
Hypothesis E11 : e11 ==c Cadd y1 (Cmul yt (Cmul tt tt)).
Hypothesis E12 : e12 ==c Copp (Cmul yt tt).
Hypothesis E21 : e21 ==c Copp (Cmul yt tt).
Hypothesis E22 : e22 ==c Cadd yt y2.
Hypothesis E23 : e23 ==c Copp y2.
Hypothesis E32 : e32 ==c Copp y2.
Hypothesis E33 : e33 ==c y2.

Let Y := [ [e00; e01; C0; C0]; [e10; e11; e12; C0]; [C0; e21; e22; e23]; [C0; C0; e32; e33] ].
Let v := [v0; v1; v2; v3].

Lemma tri_k0 : Ceq_list (mat_vec Y v) (unit_vec 0 4) -> v0 ==c zeg.
Proof. cbn. intros (A & B & D & E & _). nsatz. Qed.
Lemma tri_k1 : Ceq_list (mat_vec Y v) (unit_vec 1 4) -> v1 ==c Cadd zeg z1.
Proof. cbn. intros (A & B & D & E & _). nsatz. Qed.
Lemma tri_k2 : Ceq_list (mat_vec Y v) (unit_vec 2 4) -> v2 ==c Cadd (Cmul (Cmul tt tt) (Cadd zeg z1)) zt.
Proof. cbn. intros (A & B & D & E & _). nsatz. Qed.
Lemma tri_k3 : Ceq_list (mat_vec Y v) (unit_vec 3 4) -> v3 ==c Cadd (Cadd (Cmul (Cmul tt tt) (Cadd zeg z1)) zt) z2.
Proof. cbn. intros (A & B & D & E & _). nsatz. Qed.
(* the column entry of the neighbour, needed for the branch current at the faulted bus 3 *)
Lemma tri_k3_v2 : Ceq_list (mat_vec Y v) (unit_vec 3 4) -> v2 ==c Cadd (Cmul (Cmul tt tt) (Cadd zeg z1)) zt.
Proof. cbn. intros (A & B & D & E & _). nsatz. Qed.
End Tridiagonal.

