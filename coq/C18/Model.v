(* C18 — faithful model of the IEC 60909 result arithmetic of pandapower/shortcircuit:
   impedance.py _calc_rx :23-41; currents.py _calc_ikss :25-100 (3ph / 2ph, no current sources), _calc_ip :217-219;
   kappa.py _kappa :38-39, _kappa_method_b :82-109 (clip), results scaling R_EQUIV_OHM/X_EQUIV_OHM (currents.py:32-34);
   build_bus.py _add_ext_grid_sc_impedance :949-991.
   Square roots, |z| and exp are oracle inputs (s3 = sqrt 3, s2 = sqrt 2, zabs = |r + j x|, e = exp(-3 r/x)).
   Executable definitions only. *)
From Coq Require Import ZArith QArith List Bool String.
From PPV Require Import Base.QN Base.Out.
Import ListNotations.
Open Scope Q_scope.

(* _calc_rx: z_equiv = Zbus[k,k] + (r_fault + j x_fault) / base_r ; base_r = BASE_KV^2 / baseMVA; only if r_fault > 0 or x_fault > 0 *)
Definition calc_rx (zr zx r_fault x_fault vn sn : Q) : Q * Q :=
  if qltb 0 r_fault || qltb 0 x_fault
  then let base_r := qdiv (qmul vn vn) sn in (qadd zr (qdiv r_fault base_r), qadd zx (qdiv x_fault base_r))
  else (zr, zx).

(* R_EQUIV_OHM / X_EQUIV_OHM: baseZ * R_EQUIV *)
Definition to_ohm (z vn sn : Q) : Q := qmul (qdiv (qmul vn vn) sn) z.

(* 3ph: ikss1 = V0 / z_equiv / baseI, V0 = c, baseI = BASE_KV * sqrt3 / baseMVA; IKSS1 = |ikss1| *)
Definition ikss_3ph (c zabs vn sn s3 : Q) : Q := qdiv (qdiv c zabs) (qdiv (qmul vn s3) sn).
(* 2ph: |c / z_equiv / BASE_KV / 2 * baseMVA| *)
Definition ikss_2ph (c zabs vn sn : Q) : Q := qmul (qdiv (qdiv (qdiv c zabs) vn) 2) sn.
(* SKSS: 3ph sqrt3 * ikss * BASE_KV ; 2ph ikss * BASE_KV / sqrt3   (ikss = IKSS1 + IKSS2) *)
Definition skss_3ph (ikss vn s3 : Q) : Q := qmul (qmul s3 ikss) vn.
Definition skss_2ph (ikss vn s3 : Q) : Q := qdiv (qmul ikss vn) s3.

(* _kappa(rx) = 1.02 + .98 * exp(-3 rx), e = the exp value *)
Definition kappa_of (e : Q) : Q := qadd (102 # 100) (qmul (98 # 100) e).
(* method B: clip(kappa_korr * kappa, 1, kappa_max), kappa_max = 1.8 below 1 kV else 2, kappa_korr in {1, 1.15} *)
Definition clip (x lo hi : Q) : Q := qmin (qmax x lo) hi.
Definition kappa_b (korr e vn : Q) : Q := clip (qmul korr (kappa_of e)) 1 (if qltb vn 1 then (18 # 10) else 2).
(* _calc_ip: sqrt2 * (KAPPA * IKSS1 + IKSS2) *)
Definition ip_of (s2 kappa ikss1 ikss2 : Q) : Q := qmul s2 (qadd (qmul kappa ikss1) ikss2).

(* ext_grid: z = c / (s_sc / baseMVA); x = z / sqrt(rx^2 + 1); r = rx * x; y = 1/(r + jx); GS,BS += y * baseMVA
   sq = the sqrt oracle *)
Definition ext_grid_gb (c s_sc rx sn sq : Q) : Q * Q :=
  let z := qdiv c (qdiv s_sc sn) in
  let x := qdiv z sq in
  let r := qmul rx x in
  let d := qadd (qmul r r) (qmul x x) in
  (qmul (qdiv r d) sn, qmul (qopp (qdiv x d)) sn).

(* 2W transformer correction factor build_branch.py:1358-1362 (xt relative, sqrt oracle for sqrt(zt^2 - rt^2)) *)
Definition kt_of (cmax xt_rel : Q) : Q := qdiv (qmul (95 # 100) cmax) (qadd 1 (qmul (6 # 10) xt_rel)).

Definition run_bus (c zr zx zabs vn sn s3 s2 kappa ikss2 : Q) (ph2 : bool) : out :=
  let ik := if ph2 then ikss_2ph c zabs vn sn else ikss_3ph c zabs vn sn s3 in
  let iks := qadd ik ikss2 in
  OL [ oq ik; oq (if ph2 then skss_2ph iks vn s3 else skss_3ph iks vn s3); oq (ip_of s2 kappa ik ikss2);
       oq (to_ohm zr vn sn); oq (to_ohm zx vn sn) ].
Definition run_rx (zr zx r_fault x_fault vn sn : Q) : out :=
  let p := calc_rx zr zx r_fault x_fault vn sn in OL [oq (fst p); oq (snd p)].
Definition run_kappa (e : Q) : out := oq (kappa_of e).
Definition run_kappa_b (korr e vn : Q) : out := oq (kappa_b korr e vn).
Definition run_eg (c s_sc rx sn sq : Q) : out := let p := ext_grid_gb c s_sc rx sn sq in OL [oq (fst p); oq (snd p)].
