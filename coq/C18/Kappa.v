(* C18 — kappa = 1.02 + 0.98 exp(-3 R/X) lies in [1.02, 2] for R/X >= 0 (kappa.py:38-39), over the reals. *)
From Coq Require Import Reals Lra.
Open Scope R_scope.

Definition kappa (rx : R) : R := 1.02 + 0.98 * exp (- 3 * rx).

Lemma exp_neg_le_1 t : 0 <= t -> exp (- t) <= 1.
Proof.
  intros H. destruct (Req_dec t 0) as [->|Hn].
  - rewrite Ropp_0, exp_0. lra.
  - left. rewrite <- exp_0. apply exp_increasing. lra.
Qed.

Theorem kappa_range rx : 0 <= rx -> 1.02 <= kappa rx <= 2.
Proof.
  intros H. unfold kappa.
  pose proof (exp_pos (- 3 * rx)) as Hp.
  assert (Hl : exp (- 3 * rx) <= 1).
  { replace (- 3 * rx) with (- (3 * rx)) by ring. apply exp_neg_le_1. lra. }
  split; lra.
Qed.

(* kappa is strictly above 1.02 and decreasing in R/X: a larger R/X never gives a larger peak factor *)
Theorem kappa_antitone a b : a <= b -> kappa b <= kappa a.
Proof.
  intros H. unfold kappa. destruct (Req_dec a b) as [->|Hn]; [lra|].
  assert (exp (- 3 * b) < exp (- 3 * a)) by (apply exp_increasing; lra). lra.
Qed.

(* the exponential value handed to the rational model as an oracle satisfies the hypothesis of kappa_range_q *)
Theorem exp_oracle_range rx : 0 <= rx -> 0 < exp (- 3 * rx) <= 1.
Proof.
  intros H. split; [apply exp_pos|].
  replace (- 3 * rx) with (- (3 * rx)) by ring. apply exp_neg_le_1. lra.
Qed.
