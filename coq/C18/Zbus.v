(* C18 — uniqueness of the Zbus column: for an invertible admittance matrix the column obtained from the explicit
   inverse (inverse_y=True) and the one obtained by solving Y z = e_k with a factorisation (inverse_y=False) coincide,
   and the column for bus k is a function of Y and k alone (it cannot depend on which other buses are faulted).
   Stated over an arbitrary field (the complex numbers of the implementation, Q(i), ...). *)
From mathcomp Require Import all_ssreflect all_algebra.
Set Implicit Arguments.
Unset Strict Implicit.
Import GRing.Theory.
Local Open Scope ring_scope.

Section Zbus.
Variable F : fieldType.
Variable n : nat.
Implicit Types (Y Z : 'M[F]_n) (z b : 'cV[F]_n).

(* any solution of Y z = b is Z b when Z is a left inverse of Y *)
Lemma solve_unique Y Z z b : Z *m Y = 1%:M -> Y *m z = b -> z = Z *m b.
Proof. by move=> ZY <-; rewrite mulmxA ZY mul1mx. Qed.

(* a numerically computed inverse is checked as a right inverse (Y Z = 1); for square matrices that is a left inverse *)
Lemma right_inverse_is_left Y Z : Y *m Z = 1%:M -> Z *m Y = 1%:M.
Proof. exact: mulmx1C. Qed.

(* both computation paths give the same column, hence the same diagonal entry Zkk = R_EQUIV + j X_EQUIV *)
Theorem zbus_column_unique Y Z (k : 'I_n) z :
  Y *m Z = 1%:M -> Y *m z = delta_mx k 0 -> z = col k Z.
Proof.
  move=> YZ Yz. rewrite (solve_unique (right_inverse_is_left YZ) Yz).
  by apply/colP=> i; rewrite !mxE (bigD1 k) //= !mxE !eqxx mulr1 big1 ?addr0 // => j /negbTE nj; rewrite !mxE nj mulr0.
Qed.

(* two solutions for the same bus coincide, whatever else was computed in the same call *)
Corollary zbus_solution_unique Y Z (k : 'I_n) z1 z2 :
  Y *m Z = 1%:M -> Y *m z1 = delta_mx k 0 -> Y *m z2 = delta_mx k 0 -> z1 = z2.
Proof. by move=> YZ H1 H2; rewrite (zbus_column_unique YZ H1) (zbus_column_unique YZ H2). Qed.
End Zbus.
