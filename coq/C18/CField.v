(* C18 — the complex numbers over Q (Base/QC.v) form a field for the setoid equality ==c: declared to the
   [ring]/[field] tactics so that identities between complex impedances/admittances are proved directly. *)
From Coq Require Import ZArith QArith Lqa Setoid Morphisms Ring Field Nsatz.
From PPV Require Import Base.QN Base.QC.
Open Scope Q_scope.

Global Instance Cinv_proper : Proper (Ceq ==> Ceq) Cinv.
Proof. intros a b [H1 H2]. csimp. split; rewrite H1, H2; reflexivity. Qed.
Global Instance Cdiv_proper : Proper (Ceq ==> Ceq ==> Ceq) Cdiv.
Proof. intros a b H c d H'. unfold Cdiv. rewrite H, H'. reflexivity. Qed.

Lemma Cnonzero_norm a : ~ a ==c C0 -> ~ re a * re a + im a * im a == 0.
Proof.
  intros H E. apply H. csimp. split; nra.
Qed.

Lemma C_ring_theory : ring_theory C0 C1 Cadd Cmul Csub Copp Ceq.
Proof.
  constructor; intros; csimp; split; ring.
Qed.

Lemma C_field_theory : field_theory C0 C1 Cadd Cmul Csub Copp Cdiv Cinv Ceq.
Proof.
  constructor.
  - exact C_ring_theory.
  - intros [H _]. csimp. lra.
  - intros p q. unfold Cdiv. reflexivity.
  - intros p Hp. pose proof (Cnonzero_norm p Hp) as Hn. csimp. split; field; exact Hn.
Qed.

Add Field CField : C_field_theory.

(* embedding of the rationals *)
Lemma CofQ_add x y : CofQ (x + y) ==c Cadd (CofQ x) (CofQ y). Proof. csimp. split; ring. Qed.
Lemma CofQ_mul x y : CofQ (x * y) ==c Cmul (CofQ x) (CofQ y). Proof. csimp. split; ring. Qed.
Lemma CofQ_div x y : ~ y == 0 -> CofQ (x / y) ==c Cdiv (CofQ x) (CofQ y).
Proof. intros H. csimp. split; field; nra. Qed.
Lemma CofQ_nonzero x : ~ x == 0 -> ~ CofQ x ==c C0.
Proof. intros H [E _]. csimp. exact (H E). Qed.
Global Instance CofQ_proper : Proper (Qeq ==> Ceq) CofQ.
Proof. intros x y E. csimp. split; [exact E | reflexivity]. Qed.
Lemma Cscale_CofQ k a : Cscale k a ==c Cmul (CofQ k) a. Proof. csimp. split; ring. Qed.

(* integral domain instance for [nsatz] (linear elimination with complex coefficients) *)
Global Instance C_ops : @Ring_ops C C0 C1 Cadd Cmul Csub Copp Ceq := {}.
Global Instance C_ring : Ring (Ro := C_ops).
Proof.
  constructor.
  - exact Ceq_equiv.
  - exact Cadd_proper.
  - exact Cmul_proper.
  - exact Csub_proper.
  - exact Copp_proper.
  - intros; cbv [equality addition multiplication subtraction opposite zero one C_ops eq_notation add_notation mul_notation sub_notation opp_notation zero_notation one_notation]; csimp; split; ring.
  - intros; cbv [equality addition multiplication subtraction opposite zero one C_ops eq_notation add_notation mul_notation sub_notation opp_notation zero_notation one_notation]; csimp; split; ring.
  - intros; cbv [equality addition multiplication subtraction opposite zero one C_ops eq_notation add_notation mul_notation sub_notation opp_notation zero_notation one_notation]; csimp; split; ring.
  - intros; cbv [equality addition multiplication subtraction opposite zero one C_ops eq_notation add_notation mul_notation sub_notation opp_notation zero_notation one_notation]; csimp; split; ring.
  - intros; cbv [equality addition multiplication subtraction opposite zero one C_ops eq_notation add_notation mul_notation sub_notation opp_notation zero_notation one_notation]; csimp; split; ring.
  - intros; cbv [equality addition multiplication subtraction opposite zero one C_ops eq_notation add_notation mul_notation sub_notation opp_notation zero_notation one_notation]; csimp; split; ring.
  - intros; cbv [equality addition multiplication subtraction opposite zero one C_ops eq_notation add_notation mul_notation sub_notation opp_notation zero_notation one_notation]; csimp; split; ring.
  - intros; cbv [equality addition multiplication subtraction opposite zero one C_ops eq_notation add_notation mul_notation sub_notation opp_notation zero_notation one_notation]; csimp; split; ring.
  - intros; cbv [equality addition multiplication subtraction opposite zero one C_ops eq_notation add_notation mul_notation sub_notation opp_notation zero_notation one_notation]; csimp; split; ring.
  - intros; cbv [equality addition multiplication subtraction opposite zero one C_ops eq_notation add_notation mul_notation sub_notation opp_notation zero_notation one_notation]; csimp; split; ring.
Qed.
Global Instance C_cring : Cring (Rr := C_ring).
Proof. intros x y. cbv [equality multiplication C_ops eq_notation mul_notation]. csimp. split; ring. Qed.
Global Instance C_domain : Integral_domain (Rcr := C_cring).
Proof.
  constructor.
  - intros x y H. change (Cmul x y ==c C0) in H. change (x ==c C0 \/ y ==c C0).
    destruct (Qeq_dec (re x * re x + im x * im x) 0) as [E|E].
    + left. unfold Ceq, C0. cbn [re im]. split; nra.
    + right. assert (Hx : ~ x ==c C0).
      { intros [A B]. unfold C0 in A, B. cbn [re im] in A, B. apply E. rewrite A, B. ring. }
      transitivity (Cmul (Cinv x) (Cmul x y)). { field. exact Hx. }
      rewrite H. ring.
  - change (~ C1 ==c C0). intros [H _]. unfold C1, C0 in H. cbn [re im] in H. lra.
Qed.

Example cfield_test a b : ~ a ==c C0 -> ~ b ==c C0 -> Cadd (Cinv a) (Cinv b) ==c Cdiv (Cadd a b) (Cmul a b).
Proof. intros. field. split; assumption. Qed.
