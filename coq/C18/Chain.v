(* C18 — the Thevenin impedance of the radial two-voltage-level chain computed through the per-unit pipeline
   (ChainModel.v) is, converted back to ohm, the series formula of the elements' short-circuit impedances and does not
   mention net.sn_mva; single-phase formula; Kirchhoff's current law for the branch currents of a fault. *)
From Coq Require Import ZArith QArith List Bool Lia Lqa Setoid Morphisms Nsatz.
From PPV Require Import Base.QN Base.QC Base.Out C18.Model C18.CField C18.ChainModel C18.Tridiag.
Import ListNotations.
Open Scope Q_scope.

(* ------------------------------------------------------------------ B. the rows in ohm *)
Lemma sqrt_unique a b : 0 <= a -> 0 <= b -> a * a == b * b -> a == b.
Proof.
  intros Ha Hb E. destruct (Qeq_dec (a + b) 0) as [Z|Z].
  - assert (a == 0) by lra. assert (b == 0) by lra. lra.
  - assert (F : (a - b) * (a + b) == 0) by (ring_simplify; rewrite E; ring).
    apply Qmult_integral in F. destruct F as [F|F]; [lra | contradiction].
Qed.

Lemma to_ohm_c_scale z vn sn : to_ohm_c z vn sn ==c Cscale (vn * vn / sn) z.
Proof. unfold to_ohm_c, to_ohm. csimp. split; ring. Qed.

Lemma line_row_ohm l vn sn : 0 < vn -> 0 < sn -> 0 < l_par l ->
  Cscale (vn * vn / sn) (line_row l vn sn) ==c Zline_ohm l.
Proof.
  intros Hv Hs Hp. unfold line_row, Zline_ohm, qsqr. csimp. split; field; repeat split; lra.
Qed.

Lemma line_row_nonzero l vn sn : 0 < vn -> 0 < sn -> 0 < l_par l -> 0 < l_x l -> 0 < l_len l ->
  ~ line_row l vn sn ==c C0.
Proof.
  intros Hv Hs Hp Hx Hl [_ E]. unfold line_row, qsqr in E. csimp.
  assert (P : 0 < l_x l * l_len l / (vn * vn / sn) / l_par l).
  { apply Qlt_shift_div_l; [lra|]. apply Qlt_shift_div_l.
    - apply Qlt_shift_div_l; [lra | nra].
    - nra. }
  lra.
Qed.

(* the ext_grid shunt is the inverse of its ohmic short-circuit impedance in p.u. of the bus base *)
Lemma eg_ysh_inverse e vn sn sq : 0 < eg_c e -> 0 < eg_ssc e -> 0 < vn -> 0 < sn -> 0 < sq ->
  Cmul (eg_ysh e sn sq) (Cscale (sn / (vn * vn)) (Zeg_ohm e vn sq)) ==c C1.
Proof.
  intros Hc Hs Hv Hn Hq. unfold eg_ysh, Zeg_ohm, ext_grid_gb, qsqr. cbn [fst snd]. csimp.
  assert (U : 0 < eg_c e * sn) by nra.
  assert (W : 0 < (eg_rx e * eg_rx e + 1) * ((eg_c e * sn) * (eg_c e * sn))) by nra.
  split; field; repeat split; try lra.
  all: intro E; revert W;
    setoid_replace ((eg_rx e * eg_rx e + 1) * (eg_c e * sn * (eg_c e * sn)))
      with (eg_rx e * (eg_c e * sn) * (eg_rx e * (eg_c e * sn)) + eg_c e * sn * (eg_c e * sn)) by ring;
    rewrite E; lra.
Qed.

Definition trafo_ok (t : strafo) : Prop :=
  0 < t_sn t /\ 0 < t_vnh t /\ 0 < t_vnl t /\ 0 < t_vk t /\ 0 < t_par t /\ 0 < t_cmax t.

Lemma trafo_zsc_pos t vn_lv sn : trafo_ok t -> 0 < vn_lv -> 0 < sn -> 0 < fst (trafo_zsc t vn_lv sn).
Proof.
  intros (Hs & Hh & Hl & Hk & Hp & Hc) Hv Hn. unfold trafo_zsc, qsqr. cbn [fst]. qnorm.
  assert (A : 0 < t_vk t / 100 / t_sn t) by (apply Qlt_shift_div_l; [lra|]; apply Qlt_shift_div_l; lra).
  assert (B : 0 < t_vnl t / vn_lv) by (apply Qlt_shift_div_l; lra).
  apply Qmult_lt_0_compat; [exact A|]. apply Qmult_lt_0_compat; [|exact Hn]. apply Qmult_lt_0_compat; exact B.
Qed.

Lemma trafo_row_ohm t vn_lv sn xsc xt xk : trafo_ok t -> 0 < vn_lv -> 0 < sn ->
  0 <= xk -> xk * xk == t_vk t * t_vk t - t_vkr t * t_vkr t ->
  0 <= xsc -> xsc * xsc == fst (trafo_zsc t vn_lv sn) * fst (trafo_zsc t vn_lv sn)
                           - snd (trafo_zsc t vn_lv sn) * snd (trafo_zsc t vn_lv sn) ->
  0 <= xt -> xt * xt == (t_vk t / 100 / t_sn t) * (t_vk t / 100 / t_sn t) - (t_vkr t / 100 / t_sn t) * (t_vkr t / 100 / t_sn t) ->
  Cscale (vn_lv * vn_lv / sn) (trafo_row t vn_lv sn xsc xt) ==c Ztrafo_ohm t xk.
Proof.
  intros Hok Hv Hn Hk0 Hk Hx0 Hx Ht0 Ht.
  pose proof (trafo_zsc_pos t vn_lv sn Hok Hv Hn) as Hz.
  destruct Hok as (Hs & Hh & Hl & Hvk & Hp & Hc).
  set (tl := (t_vnl t / vn_lv) * (t_vnl t / vn_lv) * sn).
  assert (Htl : 0 < tl).
  { unfold tl. assert (B : 0 < t_vnl t / vn_lv) by (apply Qlt_shift_div_l; lra).
    apply Qmult_lt_0_compat; [|exact Hn]. apply Qmult_lt_0_compat; exact B. }
  assert (Exsc : xsc == xk / 100 / t_sn t * tl).
  { apply sqrt_unique; [exact Hx0 | | ].
    - assert (0 <= xk / 100 / t_sn t) by (apply Qle_shift_div_l; [lra|]; apply Qle_shift_div_l; lra). nra.
    - rewrite Hx. unfold trafo_zsc, qsqr. cbn [fst snd]. qnorm. fold tl.
      setoid_replace (xk / 100 / t_sn t * tl * (xk / 100 / t_sn t * tl))
        with ((xk * xk) * (tl * tl) / (100 * 100 * (t_sn t * t_sn t))) by (field; lra).
      rewrite Hk. field. lra. }
  assert (Ext : xt == xk / 100 / t_sn t).
  { apply sqrt_unique; [exact Ht0 | | ].
    - apply Qle_shift_div_l; [lra|]. apply Qle_shift_div_l; lra.
    - rewrite Ht.
      setoid_replace (xk / 100 / t_sn t * (xk / 100 / t_sn t)) with ((xk * xk) / (100 * 100 * (t_sn t * t_sn t))) by (field; lra).
      rewrite Hk. field. lra. }
  unfold trafo_row. destruct (trafo_zsc t vn_lv sn) as [z_sc r_sc] eqn:Ez. cbn [fst snd] in Hz.
  assert (Esg : qsign_mul z_sc xsc = xsc).
  { unfold qsign_mul. apply qltb_lt in Hz. rewrite Hz. reflexivity. }
  rewrite Esg.
  assert (Er : r_sc == t_vkr t / 100 / t_sn t * tl).
  { unfold trafo_zsc, qsqr in Ez. inversion Ez. qnorm. unfold tl. reflexivity. }
  unfold Ztrafo_ohm, KT_spec, trafo_kt, qsqr. csimp.
  assert (D : 0 < 1 + (6 # 10) * (xk / 100)).
  { assert (0 <= xk / 100) by (apply Qle_shift_div_l; lra). lra. }
  rewrite Er, Exsc, Ext. unfold tl.
  split; field; repeat split; try lra.
  all: intro Q0; revert D; setoid_replace (1 + (6 # 10) * (xk / 100)) with ((100 + (6 # 10) * xk) / 100) by (field); intro D;
    try (rewrite Q0 in D; lra).
Qed.

Lemma trafo_row_nonzero t vn_lv sn xsc xt xk : trafo_ok t -> 0 < vn_lv -> 0 < sn ->
  0 < xk -> Cscale (vn_lv * vn_lv / sn) (trafo_row t vn_lv sn xsc xt) ==c Ztrafo_ohm t xk ->
  ~ trafo_row t vn_lv sn xsc xt ==c C0.
Proof.
  intros (Hs & Hh & Hl & Hvk & Hp & Hc) Hv Hn Hk E Z. rewrite Z in E. destruct E as [_ E].
  unfold Ztrafo_ohm, KT_spec, qsqr in E. csimp.
  assert (A : 0 < xk / 100) by (apply Qlt_shift_div_l; lra).
  assert (K : 0 < (95 # 100) * t_cmax t / (1 + (6 # 10) * (xk / 100))) by (apply Qlt_shift_div_l; lra).
  assert (B : 0 < t_vnl t * t_vnl t / t_sn t / t_par t).
  { apply Qlt_shift_div_l; [lra|]. apply Qlt_shift_div_l; [lra|]. nra. }
  assert (P : 0 < (95 # 100) * t_cmax t / (1 + (6 # 10) * (xk / 100)) * (t_vnl t * t_vnl t / t_sn t / t_par t) * (xk / 100)).
  { apply Qmult_lt_0_compat; [apply Qmult_lt_0_compat|]; assumption. }
  lra.
Qed.

(* ------------------------------------------------------------------ C. the chain *)
Definition line_ok (l : sline) : Prop := 0 < l_par l /\ 0 < l_x l /\ 0 < l_len l.
Definition chain_ok (n : chain) : Prop :=
  0 < eg_c (ch_eg n) /\ 0 < eg_ssc (ch_eg n) /\ 0 < ch_vhv n /\ 0 < ch_vlv n /\
  line_ok (ch_l1 n) /\ line_ok (ch_l2 n) /\ trafo_ok (ch_t n).
(* what the square-root oracles are: xk = sqrt(vk^2 - vkr^2) [percent], o_xsc = sqrt(z_sc^2 - r_sc^2) on the base at hand,
   o_xt = sqrt(zt^2 - rt^2), o_sq > 0 (its square is rx^2 + 1: only needed for |Z_Q| = c Un^2 / S_sc, C18_ext_grid_impedance) *)
Definition oracle_ok (n : chain) (sn : Q) (o : oracles) (xk : Q) : Prop :=
  let t := ch_t n in
  0 < o_sq o /\ 0 < xk /\ xk * xk == t_vk t * t_vk t - t_vkr t * t_vkr t /\
  0 <= o_xsc o /\ o_xsc o * o_xsc o == fst (trafo_zsc t (ch_vlv n) sn) * fst (trafo_zsc t (ch_vlv n) sn)
                                       - snd (trafo_zsc t (ch_vlv n) sn) * snd (trafo_zsc t (ch_vlv n) sn) /\
  0 <= o_xt o /\ o_xt o * o_xt o == (t_vk t / 100 / t_sn t) * (t_vk t / 100 / t_sn t) - (t_vkr t / 100 / t_sn t) * (t_vkr t / 100 / t_sn t).
Definition bus_vn (n : chain) (k : nat) : Q := match k with O | 1%nat => ch_vhv n | _ => ch_vlv n end.

Section ChainProof.
Variables (n : chain) (sn : Q) (o : oracles) (xk : Q).
Hypothesis Hn : chain_ok n.
Hypothesis Hsn : 0 < sn.
Hypothesis Ho : oracle_ok n sn o xk.

Let ysh := eg_ysh (ch_eg n) sn (o_sq o).
Let z1 := line_row (ch_l1 n) (ch_vhv n) sn.
Let zt := trafo_row (ch_t n) (ch_vlv n) sn (o_xsc o) (o_xt o).
Let z2 := line_row (ch_l2 n) (ch_vlv n) sn.
Let tap := trafo_tap (ch_t n) (ch_vhv n) (ch_vlv n).
Let zeg := Cscale (sn / (ch_vhv n * ch_vhv n)) (Zeg_ohm (ch_eg n) (ch_vhv n) (o_sq o)).
Let tt := Cinv (CofQ tap).
Let Bh := ch_vhv n * ch_vhv n / sn.
Let Bl := ch_vlv n * ch_vlv n / sn.

Lemma tap_pos : 0 < tap.
Proof.
  destruct Hn as (_ & _ & Hh & Hl & _ & _ & (Hs & Hth & Htl & _)).
  unfold tap, trafo_tap. qnorm. apply Qlt_shift_div_l; [apply Qlt_shift_div_l; lra|].
  rewrite Qmult_0_l. apply Qlt_shift_div_l; lra.
Qed.

Lemma chain_facts :
  Cmul ysh zeg ==c C1 /\ ~ z1 ==c C0 /\ ~ zt ==c C0 /\ ~ z2 ==c C0 /\ ~ CofQ tap ==c C0 /\
  Cscale Bh z1 ==c Zline_ohm (ch_l1 n) /\ Cscale Bl zt ==c Ztrafo_ohm (ch_t n) xk /\ Cscale Bl z2 ==c Zline_ohm (ch_l2 n) /\
  Cscale Bh zeg ==c Zeg_ohm (ch_eg n) (ch_vhv n) (o_sq o) /\
  Bl / (tap * tap) == turns2 (ch_t n) * Bh.
Proof.
  pose proof tap_pos as Htap.
  destruct Hn as (Hc & Hs & Hh & Hl & (L1p & L1x & L1l) & (L2p & L2x & L2l) & Ht).
  destruct Ho as (Oq & Ok0 & Ok & Ox0 & Ox & Ot0 & Ot).
  assert (ET : Cscale Bl zt ==c Ztrafo_ohm (ch_t n) xk).
  { unfold Bl, zt. apply trafo_row_ohm; try assumption. lra. }
  split; [apply eg_ysh_inverse; assumption|].
  split; [apply line_row_nonzero; assumption|].
  split; [apply (trafo_row_nonzero _ _ _ _ _ xk); assumption|].
  split; [apply line_row_nonzero; assumption|].
  split; [apply CofQ_nonzero; lra|].
  split; [apply line_row_ohm; assumption|].
  split; [exact ET|].
  split; [apply line_row_ohm; assumption|].
  split; [unfold Bh, zeg; csimp; split; field; lra|].
  destruct Ht as (Ts & Th & Tl & _). revert Htap. unfold Bl, Bh, tap, trafo_tap, turns2, qsqr. qnorm. intros Htap.
  field. repeat split; lra.
Qed.

Let Y := chain_ybus n sn o.

Lemma chain_entries :
  exists e00 e01 e10 e11 e12 e21 e22 e23 e32 e33,
    Y = [ [e00; e01; C0; C0]; [e10; e11; e12; C0]; [C0; e21; e22; e23]; [C0; C0; e32; e33] ] /\
    e00 ==c Cadd ysh (Cinv z1) /\ e01 ==c Copp (Cinv z1) /\ e10 ==c Copp (Cinv z1) /\
    e11 ==c Cadd (Cinv z1) (Cmul (Cinv zt) (Cmul tt tt)) /\ e12 ==c Copp (Cmul (Cinv zt) tt) /\
    e21 ==c Copp (Cmul (Cinv zt) tt) /\ e22 ==c Cadd (Cinv zt) (Cinv z2) /\ e23 ==c Copp (Cinv z2) /\
    e32 ==c Copp (Cinv z2) /\ e33 ==c Cinv z2.
Proof.
  destruct chain_facts as (_ & N1 & Nt & N2 & Ntap & _).
  assert (One : CofQ (qmul 1 1) ==c C1) by (csimp; split; reflexivity).
  assert (Tap2 : CofQ (qmul tap tap) ==c Cmul (CofQ tap) (CofQ tap)) by (csimp; split; ring).
  assert (N0 : ~ C1 ==c C0) by (intros [N0 _]; csimp; lra).
  do 10 eexists.
  split; [unfold Y, chain_ybus, chain_rows, branch_y; fold ysh z1 zt z2 tap; reflexivity|].
  Local Ltac ent One Tap2 :=
    change (CofQ 1) with C1; try rewrite One; try rewrite Tap2; unfold tt; field; repeat split; assumption.
  split; [ent One Tap2|]. split; [ent One Tap2|]. split; [ent One Tap2|]. split; [ent One Tap2|].
  split; [ent One Tap2|]. split; [ent One Tap2|]. split; [ent One Tap2|]. split; [ent One Tap2|].
  split; [ent One Tap2|]. ent One Tap2.
Qed.

Lemma scale_turns x : Cscale Bl (Cmul (Cmul tt tt) x) ==c Cscale (turns2 (ch_t n)) (Cscale Bh x).
Proof.
  destruct chain_facts as (_ & _ & _ & _ & Ntap & _ & _ & _ & _ & Etap).
  pose proof tap_pos as Htap.
  assert (E1 : Cmul (Cmul tt tt) x ==c Cscale (1 / (tap * tap)) x).
  { unfold tt. clearbody tap. csimp. split; field; lra. }
  rewrite E1.
  assert (E2 : Cscale Bl (Cscale (1 / (tap * tap)) x) ==c Cscale (Bl / (tap * tap)) x).
  { clearbody tap Bl. csimp. split; field; lra. }
  rewrite E2, Etap. clearbody Bh. csimp. split; ring.
Qed.

(* the Thevenin impedance read from ANY solution of Ybus z = e_k, converted to ohm with the base of bus k *)
Theorem chain_thevenin (vs : list C) (k : nat) :
  (List.length vs = 4)%nat -> (k < 4)%nat -> Ceq_list (mat_vec Y vs) (unit_vec k 4) ->
  to_ohm_c (List.nth k vs C0) (bus_vn n k) sn ==c Zthev_ohm n (o_sq o) xk k.
Proof.
  intros L K H. destruct vs as [|v0 [|v1 [|v2 [|v3 [|]]]]]; try discriminate L.
  destruct chain_facts as (Fsh & N1 & Nt & N2 & Ntap & S1 & St & S2 & Seg & Etap).
  destruct chain_entries as (e00 & e01 & e10 & e11 & e12 & e21 & e22 & e23 & e32 & e33 & EY & E00 & E01 & E10 & E11 & E12 & E21 & E22 & E23 & E32 & E33).
  rewrite EY in H.
  assert (I1 : Cmul (Cinv z1) z1 ==c C1) by (field; assumption).
  assert (It : Cmul (Cinv zt) zt ==c C1) by (field; assumption).
  assert (I2 : Cmul (Cinv z2) z2 ==c C1) by (field; assumption).
  pose proof (fun x => scale_turns x) as ST.
  destruct k as [|[|[|[|]]]]; [| | | |lia]; cbn [List.nth bus_vn Zthev_ohm]; rewrite to_ohm_c_scale.
  - pose proof (tri_k0 ysh (Cinv z1) (Cinv zt) (Cinv z2) tt zeg z1 zt z2 e00 e01 e10 e11 e12 e21 e22 e23 e32 e33 v0 v1 v2 v3
                  Fsh I1 It I2 E00 E01 E10 E11 E12 E21 E22 E23 E32 E33 H) as R.
    fold Bh. rewrite R. exact Seg.
  - pose proof (tri_k1 ysh (Cinv z1) (Cinv zt) (Cinv z2) tt zeg z1 zt z2 e00 e01 e10 e11 e12 e21 e22 e23 e32 e33 v0 v1 v2 v3
                  Fsh I1 It I2 E00 E01 E10 E11 E12 E21 E22 E23 E32 E33 H) as R.
    fold Bh. rewrite R, <- Seg, <- S1. clearbody Bh zeg z1. csimp. split; ring.
  - pose proof (tri_k2 ysh (Cinv z1) (Cinv zt) (Cinv z2) tt zeg z1 zt z2 e00 e01 e10 e11 e12 e21 e22 e23 e32 e33 v0 v1 v2 v3
                  Fsh I1 It I2 E00 E01 E10 E11 E12 E21 E22 E23 E32 E33 H) as R.
    fold Bl. rewrite R, <- Seg, <- S1, <- St.
    transitivity (Cadd (Cscale Bl (Cmul (Cmul tt tt) (Cadd zeg z1))) (Cscale Bl zt)).
    { clearbody Bl tt zeg z1 zt. csimp. split; ring. }
    rewrite ST. clearbody Bl Bh tt zeg z1 zt. csimp. split; ring.
  - pose proof (tri_k3 ysh (Cinv z1) (Cinv zt) (Cinv z2) tt zeg z1 zt z2 e00 e01 e10 e11 e12 e21 e22 e23 e32 e33 v0 v1 v2 v3
                  Fsh I1 It I2 E00 E01 E10 E11 E12 E21 E22 E23 E32 E33 H) as R.
    fold Bl. rewrite R, <- Seg, <- S1, <- St, <- S2.
    transitivity (Cadd (Cadd (Cscale Bl (Cmul (Cmul tt tt) (Cadd zeg z1))) (Cscale Bl zt)) (Cscale Bl z2)).
    { clearbody Bl tt zeg z1 zt z2. csimp. split; ring. }
    rewrite ST. clearbody Bl Bh tt zeg z1 zt z2. csimp. split; ring.
Qed.

(* Kirchhoff at the faulted end bus 3: the current of line 2 at its to end under V_ikss = c - ikss1 * Zbus[:, 3] is the
   whole fault current (entering the bus: sign -) *)
Theorem chain_line2_current (vs : list C) (c i : C) :
  (List.length vs = 4)%nat -> Ceq_list (mat_vec Y vs) (unit_vec 3 4) ->
  match v_ikss true c i vs with
  | [_; _; vf; vt] => branch_i_to z2 1 vf vt ==c Copp i
  | _ => False
  end.
Proof.
  intros L H. destruct vs as [|v0 [|v1 [|v2 [|v3 [|]]]]]; try discriminate L.
  destruct chain_facts as (Fsh & N1 & Nt & N2 & Ntap & _).
  destruct chain_entries as (e00 & e01 & e10 & e11 & e12 & e21 & e22 & e23 & e32 & e33 & EY & E00 & E01 & E10 & E11 & E12 & E21 & E22 & E23 & E32 & E33).
  rewrite EY in H.
  assert (I1 : Cmul (Cinv z1) z1 ==c C1) by (field; assumption).
  assert (It : Cmul (Cinv zt) zt ==c C1) by (field; assumption).
  assert (I2 : Cmul (Cinv z2) z2 ==c C1) by (field; assumption).
  pose proof (tri_k3 ysh (Cinv z1) (Cinv zt) (Cinv z2) tt zeg z1 zt z2 e00 e01 e10 e11 e12 e21 e22 e23 e32 e33 v0 v1 v2 v3
                Fsh I1 It I2 E00 E01 E10 E11 E12 E21 E22 E23 E32 E33 H) as R3.
  pose proof (tri_k3_v2 ysh (Cinv z1) (Cinv zt) (Cinv z2) tt zeg z1 zt z2 e00 e01 e10 e11 e12 e21 e22 e23 e32 e33 v0 v1 v2 v3
                Fsh I1 It I2 E00 E01 E10 E11 E12 E21 E22 E23 E32 E33 H) as R2.
  rewrite <- R2 in R3. cbn [v_ikss map]. unfold branch_i_to, branch_y.
  assert (One : CofQ 1 ==c C1) by reflexivity.
  assert (N0 : ~ C1 ==c C0) by (intros [N0 _]; csimp; lra).
  rewrite R3, One. clearbody z2. field. split; assumption.
Qed.
End ChainProof.

(* ------------------------------------------------------------------ D. independence of net.sn_mva *)
(* two runs with different net.sn_mva (each with its own oracle values and its own solve) report the same ohmic
   Thevenin impedance at every bus of the chain *)
Theorem chain_thevenin_sn_invariant (n : chain) (sn1 sn2 : Q) (o1 o2 : oracles) (xk : Q) (vs1 vs2 : list C) (k : nat) :
  chain_ok n -> 0 < sn1 -> 0 < sn2 -> oracle_ok n sn1 o1 xk -> oracle_ok n sn2 o2 xk -> o_sq o1 == o_sq o2 ->
  (List.length vs1 = 4)%nat -> (List.length vs2 = 4)%nat -> (k < 4)%nat ->
  Ceq_list (mat_vec (chain_ybus n sn1 o1) vs1) (unit_vec k 4) ->
  Ceq_list (mat_vec (chain_ybus n sn2 o2) vs2) (unit_vec k 4) ->
  to_ohm_c (List.nth k vs1 C0) (bus_vn n k) sn1 ==c to_ohm_c (List.nth k vs2 C0) (bus_vn n k) sn2.
Proof.
  intros Hn H1 H2 O1 O2 Esq L1 L2 K S1 S2.
  rewrite (chain_thevenin n sn1 o1 xk Hn H1 O1 vs1 k L1 K S1), (chain_thevenin n sn2 o2 xk Hn H2 O2 vs2 k L2 K S2).
  assert (Z : Zeg_ohm (ch_eg n) (ch_vhv n) (o_sq o1) ==c Zeg_ohm (ch_eg n) (ch_vhv n) (o_sq o2)).
  { unfold Zeg_ohm. csimp. rewrite Esq. split; reflexivity. }
  destruct k as [|[|[|]]]; cbn [Zthev_ohm]; rewrite Z; reflexivity.
Qed.

(* ------------------------------------------------------------------ E. Kirchhoff for the branch currents of a fault *)
Definition ones (l : list C) : list C := map (fun _ => C1) l.
Lemma cdot_v_ikss row zcol c i :
  cdot row (v_ikss true c i zcol) ==c Csub (Cmul c (cdot row (ones zcol))) (Cmul i (cdot row zcol)).
Proof.
  revert zcol. induction row as [|a row IH]; intros [|z zcol]; cbn [cdot v_ikss ones map]; try (csimp; split; ring).
  fold (v_ikss true c i zcol). fold (ones zcol). rewrite IH.
  generalize (cdot row (ones zcol)) (cdot row zcol). intros s t. csimp. split; ring.
Qed.
(* row = row k of Ybus, zcol = the Zbus column of the faulted bus k: the current leaving bus k into branches and shunts
   under the fault voltages is what the uniform voltage c drives (c * row sum = c * Ysh_k when all taps are 1) minus the
   fault current; at every other bus (row . zcol = 0) the fault changes nothing *)
Theorem kcl_fault_bus row zcol c i : cdot row zcol ==c C1 ->
  cdot row (v_ikss true c i zcol) ==c Csub (Cmul c (cdot row (ones zcol))) i.
Proof. intros H. rewrite cdot_v_ikss, H. generalize (cdot row (ones zcol)). intros s. csimp. split; ring. Qed.
Theorem kcl_other_bus row zcol c i : cdot row zcol ==c C0 ->
  cdot row (v_ikss true c i zcol) ==c Cmul c (cdot row (ones zcol)).
Proof. intros H. rewrite cdot_v_ikss, H. generalize (cdot row (ones zcol)). intros s. csimp. split; ring. Qed.

(* ------------------------------------------------------------------ F. single-phase fault *)
(* I''k1 = sqrt3 c Un / |2 Z1 + Z0| with the impedances in ohm *)
Lemma ikss_1ph_formula c zabs vn sn s3 : 0 < zabs -> 0 < vn -> 0 < sn ->
  ikss_1ph c zabs vn sn s3 * to_ohm zabs vn sn == s3 * c * vn.
Proof. intros. unfold ikss_1ph, to_ohm. qnorm. field. repeat split; lra. Qed.
Lemma z_1ph_ohm z1 z0 vn sn :
  to_ohm_c (z_1ph z1 z0) vn sn ==c Cadd (Cscale 2 (to_ohm_c z1 vn sn)) (to_ohm_c z0 vn sn).
Proof. unfold to_ohm_c, z_1ph, to_ohm. csimp. split; ring. Qed.
(* root-free: 3 c^2 Un^2 = ikss^2 |2 Z1 + Z0|^2 with Z1, Z0 in ohm as reported (rk, xk, rk0, xk0) *)
Lemma ikss_1ph_formula_sq c z1 z0 zabs vn sn s3 : 0 < zabs -> 0 < vn -> 0 < sn -> s3 * s3 == 3 ->
  zabs * zabs == cnorm2 (z_1ph z1 z0) ->
  ikss_1ph c zabs vn sn s3 * ikss_1ph c zabs vn sn s3
    * cnorm2 (Cadd (Cscale 2 (to_ohm_c z1 vn sn)) (to_ohm_c z0 vn sn)) == 3 * (c * c) * (vn * vn).
Proof.
  intros Hz Hv Hs E3 Ez.
  assert (N : cnorm2 (Cadd (Cscale 2 (to_ohm_c z1 vn sn)) (to_ohm_c z0 vn sn)) == to_ohm zabs vn sn * to_ohm zabs vn sn).
  { unfold to_ohm_c, to_ohm, z_1ph in *. csimp.
    setoid_replace (vn * vn / sn * zabs * (vn * vn / sn * zabs)) with ((vn * vn / sn) * (vn * vn / sn) * (zabs * zabs)) by ring.
    rewrite Ez. ring. }
  rewrite N. pose proof (ikss_1ph_formula c zabs vn sn s3 Hz Hv Hs) as F.
  set (i := ikss_1ph c zabs vn sn s3) in *. set (zo := to_ohm zabs vn sn) in *.
  setoid_replace (i * i * (zo * zo)) with ((i * zo) * (i * zo)) by ring. rewrite F.
  setoid_replace (s3 * c * vn * (s3 * c * vn)) with ((s3 * s3) * (c * c) * (vn * vn)) by ring. rewrite E3. reflexivity.
Qed.
Lemma ikss_1ph_sn_invariant c zohm vn sn1 sn2 s3 : 0 < zohm -> 0 < vn -> 0 < sn1 -> 0 < sn2 ->
  ikss_1ph c (zohm * sn1 / (vn * vn)) vn sn1 s3 == ikss_1ph c (zohm * sn2 / (vn * vn)) vn sn2 s3.
Proof. intros. unfold ikss_1ph. qnorm. field. repeat split; lra. Qed.

(* ------------------------------------------------------------------ G. a concrete chain (hypotheses are satisfiable) *)
Definition ex_chain : chain :=
  {| ch_eg := {| eg_c := 11 # 10; eg_ssc := 1000; eg_rx := 3 # 4 |};
     ch_l1 := {| l_r := 1 # 8; l_x := 3 # 8; l_len := 7 # 2; l_par := 1; l_ktemp := 1 |};
     ch_t := {| t_sn := 25; t_vnh := 115; t_vnl := 21; t_vk := 5; t_vkr := 3; t_par := 1; t_cmax := 11 # 10 |};
     ch_l2 := {| l_r := 1 # 4; l_x := 1 # 8; l_len := 9 # 4; l_par := 2; l_ktemp := 1 |};
     ch_vhv := 110; ch_vlv := 20 |}.
Definition ex_oracles (sn : Q) : oracles :=
  {| o_sq := 5 # 4; o_xsc := qmul (qdiv (qdiv 4 100) 25) (qmul (qsqr (qdiv 21 20)) sn); o_xt := qdiv (qdiv 4 100) 25 |}.
(* the Zbus column of bus 3 in closed form (p.u.) *)
Definition ex_col (sn : Q) : list C :=
  let '(ysh, z1, zt, z2, tap) := chain_rows ex_chain sn (ex_oracles sn) in
  let zq := Cdiv C1 ysh in let t := Cdiv C1 (CofQ tap) in
  let v0 := Cmul t zq in let v1 := Cmul t (Cadd zq z1) in let v2 := Cadd (Cmul t v1) zt in
  [v0; v1; v2; Cadd v2 z2].
Example chain_nonvacuous :
  chain_ok ex_chain /\ oracle_ok ex_chain 1 (ex_oracles 1) 4 /\ oracle_ok ex_chain 100 (ex_oracles 100) 4 /\
  Ceq_list (mat_vec (chain_ybus ex_chain 1 (ex_oracles 1)) (ex_col 1)) (unit_vec 3 4) /\
  Ceq_list (mat_vec (chain_ybus ex_chain 100 (ex_oracles 100)) (ex_col 100)) (unit_vec 3 4) /\
  ~ List.nth 3 (ex_col 1) C0 ==c List.nth 3 (ex_col 100) C0.
Proof.
  unfold chain_ok, line_ok, trafo_ok, oracle_ok, Ceq_list, Ceq.
  repeat split; try (vm_compute; reflexivity); try (vm_compute; discriminate).
  intros [H _]. vm_compute in H. discriminate.
Qed.
