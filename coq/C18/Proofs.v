(* C18 — algebraic IEC 60909 identities of the result arithmetic (over Q, square roots as oracles). *)
From Coq Require Import ZArith QArith List Bool Lia Lqa String.
From PPV Require Import Base.QN Base.Out C18.Model.
Import ListNotations.
Open Scope Q_scope.

(* ikss = c Un / (sqrt3 |Zk|), Zk in ohm as reported (rk_ohm, xk_ohm) *)
Lemma ikss_formula c zabs vn sn s3 :
  0 < zabs -> 0 < vn -> 0 < sn -> 0 < s3 ->
  ikss_3ph c zabs vn sn s3 * (s3 * to_ohm zabs vn sn) == c * vn.
Proof. intros. unfold ikss_3ph, to_ohm. qnorm. field. repeat split; lra. Qed.

Lemma ohm_abs zr zx zabs vn sn :
  zabs * zabs == zr * zr + zx * zx ->
  to_ohm zabs vn sn * to_ohm zabs vn sn == to_ohm zr vn sn * to_ohm zr vn sn + to_ohm zx vn sn * to_ohm zx vn sn.
Proof.
  intros H. unfold to_ohm. qnorm.
  setoid_replace (vn * vn / sn * zabs * (vn * vn / sn * zabs)) with ((vn * vn / sn) * (vn * vn / sn) * (zabs * zabs)) by ring.
  rewrite H. ring.
Qed.

(* the same as a statement free of square roots: 3 ikss^2 (rk^2 + xk^2) = c^2 Un^2 *)
Lemma ikss_formula_sq c zr zx zabs vn sn s3 :
  0 < zabs -> 0 < vn -> 0 < sn -> 0 < s3 -> s3 * s3 == 3 -> zabs * zabs == zr * zr + zx * zx ->
  3 * (ikss_3ph c zabs vn sn s3 * ikss_3ph c zabs vn sn s3)
    * (to_ohm zr vn sn * to_ohm zr vn sn + to_ohm zx vn sn * to_ohm zx vn sn) == c * c * (vn * vn).
Proof.
  intros Hz Hv Hs H3 E3 Ez. rewrite <- (ohm_abs zr zx zabs vn sn Ez).
  pose proof (ikss_formula c zabs vn sn s3 Hz Hv Hs H3) as H.
  set (i := ikss_3ph c zabs vn sn s3) in *. set (zo := to_ohm zabs vn sn) in *.
  setoid_replace (3 * (i * i) * (zo * zo)) with ((s3 * s3) * (i * i) * (zo * zo)) by (rewrite E3; ring).
  setoid_replace (s3 * s3 * (i * i) * (zo * zo)) with ((i * (s3 * zo)) * (i * (s3 * zo))) by ring.
  rewrite H. ring.
Qed.

(* results do not depend on net.sn_mva: the same ohmic Thevenin impedance gives the same current for any base *)
Lemma ikss_sn_invariant c zohm vn sn1 sn2 s3 :
  0 < zohm -> 0 < vn -> 0 < sn1 -> 0 < sn2 -> 0 < s3 ->
  ikss_3ph c (zohm * sn1 / (vn * vn)) vn sn1 s3 == ikss_3ph c (zohm * sn2 / (vn * vn)) vn sn2 s3.
Proof. intros. unfold ikss_3ph. qnorm. field. repeat split; lra. Qed.
Lemma ikss2_sn_invariant c zohm vn sn1 sn2 :
  0 < zohm -> 0 < vn -> 0 < sn1 -> 0 < sn2 ->
  ikss_2ph c (zohm * sn1 / (vn * vn)) vn sn1 == ikss_2ph c (zohm * sn2 / (vn * vn)) vn sn2.
Proof. intros. unfold ikss_2ph. qnorm. field. repeat split; lra. Qed.

(* skss = sqrt3 Un ikss ; squared: skss^2 = 3 Un^2 ikss^2 *)
Lemma skss_formula ikss vn s3 : skss_3ph ikss vn s3 == s3 * vn * ikss.
Proof. unfold skss_3ph. qnorm. ring. Qed.
Lemma skss_formula_sq ikss vn s3 : s3 * s3 == 3 ->
  skss_3ph ikss vn s3 * skss_3ph ikss vn s3 == 3 * (vn * vn) * (ikss * ikss).
Proof.
  intros E. rewrite skss_formula.
  setoid_replace (s3 * vn * ikss * (s3 * vn * ikss)) with ((s3 * s3) * (vn * vn) * (ikss * ikss)) by ring.
  rewrite E. reflexivity.
Qed.

(* two-phase fault: sqrt3/2 of the three-phase current *)
Lemma two_ph_ratio c zabs vn sn s3 :
  0 < zabs -> 0 < vn -> 0 < sn -> 0 < s3 -> s3 * s3 == 3 ->
  ikss_2ph c zabs vn sn == s3 / 2 * ikss_3ph c zabs vn sn s3.
Proof.
  intros Hz Hv Hs H3 E. unfold ikss_2ph, ikss_3ph. qnorm. field. repeat split; lra.
Qed.
Lemma two_ph_ratio_sq c zabs vn sn s3 :
  0 < zabs -> 0 < vn -> 0 < sn -> 0 < s3 -> s3 * s3 == 3 ->
  4 * (ikss_2ph c zabs vn sn * ikss_2ph c zabs vn sn) == 3 * (ikss_3ph c zabs vn sn s3 * ikss_3ph c zabs vn sn s3).
Proof.
  intros Hz Hv Hs H3 E. rewrite (two_ph_ratio c zabs vn sn s3 Hz Hv Hs H3 E).
  set (i := ikss_3ph c zabs vn sn s3).
  setoid_replace (4 * (s3 / 2 * i * (s3 / 2 * i))) with ((s3 * s3) * (i * i)) by field.
  rewrite E. reflexivity.
Qed.

(* ip = kappa sqrt2 ikss when no current source contributes *)
Lemma ip_formula s2 kappa ikss : ip_of s2 kappa ikss 0 == kappa * s2 * ikss.
Proof. unfold ip_of. qnorm. ring. Qed.
Lemma ip_formula_sq s2 kappa ikss : s2 * s2 == 2 ->
  ip_of s2 kappa ikss 0 * ip_of s2 kappa ikss 0 == 2 * (kappa * kappa) * (ikss * ikss).
Proof.
  intros E. rewrite ip_formula.
  setoid_replace (kappa * s2 * ikss * (kappa * s2 * ikss)) with ((s2 * s2) * (kappa * kappa) * (ikss * ikss)) by ring.
  rewrite E. reflexivity.
Qed.

(* kappa in [1.02, 2] for an exponential value in [0, 1] (the analytic fact exp(-3 r/x) in (0,1] is C18/Kappa.v) *)
Lemma kappa_range_q e : 0 <= e -> e <= 1 -> (102 # 100) <= kappa_of e /\ kappa_of e <= 2.
Proof. intros H0 H1. unfold kappa_of. qnorm. split; lra. Qed.

Lemma qmax_spec x y : qmax x y == x /\ y <= x \/ qmax x y == y /\ x <= y.
Proof.
  unfold qmax. destruct (qltb x y) eqn:E.
  - right. apply qltb_lt in E. split; [reflexivity | lra].
  - left. apply qltb_ge in E. split; [reflexivity | exact E].
Qed.
Lemma qmin_spec x y : qmin x y == x /\ x <= y \/ qmin x y == y /\ y <= x.
Proof.
  unfold qmin. destruct (qltb y x) eqn:E.
  - right. apply qltb_lt in E. split; [reflexivity | lra].
  - left. apply qltb_ge in E. split; [reflexivity | exact E].
Qed.

(* method B: the correction 1.15 and the clip keep kappa in [1.02, 2] *)
Lemma kappa_b_range korr e vn : 0 <= e -> e <= 1 -> 1 <= korr ->
  (102 # 100) <= kappa_b korr e vn /\ kappa_b korr e vn <= 2.
Proof.
  intros H0 H1 Hk. destruct (kappa_range_q e H0 H1) as [Ka Kb].
  unfold kappa_b, clip.
  set (k := kappa_of e) in *.
  pose proof (qmul_correct korr k) as Hp. set (p := qmul korr k) in *.
  assert (Hkk : (102 # 100) <= p) by (rewrite Hp; nra).
  set (hi := if qltb vn 1 then 18 # 10 else 2).
  assert (Hhi : (102 # 100) <= hi /\ hi <= 2) by (unfold hi; destruct (qltb vn 1); split; lra).
  pose proof (qmax_spec p 1) as Hmx. pose proof (qmin_spec (qmax p 1) hi) as Hmn.
  set (mx := qmax p 1) in *. set (mn := qmin mx hi) in *.
  destruct Hmx as [[E1 L1]|[E1 L1]]; destruct Hmn as [[E2 L2]|[E2 L2]]; split; lra.
Qed.

(* fault impedance: the reported Thevenin impedance in ohm is Zkk in ohm plus the fault impedance in ohm *)
Lemma fault_impedance_ohm zr zx rf xf vn sn :
  0 < vn -> 0 < sn -> (0 < rf \/ 0 < xf) ->
  to_ohm (fst (calc_rx zr zx rf xf vn sn)) vn sn == to_ohm zr vn sn + rf /\
  to_ohm (snd (calc_rx zr zx rf xf vn sn)) vn sn == to_ohm zx vn sn + xf.
Proof.
  intros Hv Hs Hf. unfold calc_rx.
  assert (E : qltb 0 rf || qltb 0 xf = true).
  { apply orb_true_iff. destruct Hf; [left|right]; now apply qltb_lt. }
  rewrite E. cbn [fst snd]. unfold to_ohm. qnorm. split; field; split; lra.
Qed.
Lemma no_fault_impedance zr zx vn sn : calc_rx zr zx 0 0 vn sn = (zr, zx).
Proof. reflexivity. Qed.

(* external grid: (GS + j BS)/baseMVA is the inverse of r + j x with |r + j x| = c / (S_sc / baseMVA) and r = rx * x *)
Lemma ext_grid_impedance c s_sc rx sn sq :
  0 < c -> 0 < s_sc -> 0 < sn -> 0 < sq -> sq * sq == rx * rx + 1 ->
  let z := c / (s_sc / sn) in let x := z / sq in let r := rx * x in
  let g := fst (ext_grid_gb c s_sc rx sn sq) / sn in let b := snd (ext_grid_gb c s_sc rx sn sq) / sn in
  r * r + x * x == z * z /\ g * r - b * x == 1 /\ g * x + b * r == 0.
Proof.
  intros Hc Hs Hn Hq E. cbn zeta. unfold ext_grid_gb. cbn [fst snd]. qnorm.
  set (z := c / (s_sc / sn)). set (x := z / sq).
  assert (Hz : 0 < z) by (unfold z; apply Qlt_shift_div_l; [apply Qlt_shift_div_l; lra | lra]).
  assert (Hx : 0 < x) by (unfold x; apply Qlt_shift_div_l; lra).
  assert (Hd : 0 < rx * x * (rx * x) + x * x).
  { assert (0 <= rx * x * (rx * x)) by (destruct (Qlt_le_dec (rx * x) 0); nra). nra. }
  split; [|split].
  - setoid_replace (rx * x * (rx * x) + x * x) with ((rx * rx + 1) * (x * x)) by ring.
    rewrite <- E. unfold x. field. lra.
  - field. split; lra.
  - field. split; lra.
Qed.
