(* C18 — the per-unit pipeline of calc_sc for a radial two-voltage-level chain
        bus0 (ext_grid) --line1-- bus1 ==trafo(K_T)== bus2 --line2-- bus3
   from the element tables to the admittance matrix the Thevenin impedance is read from:
     build_bus.py _add_ext_grid_sc_impedance :957-991 (C18.Model.ext_grid_gb)
     build_branch.py _calc_line_parameter :176-234 (mode "sc": r, x in p.u. on baseR = V^2/sn_mva, end temperature factor
        1 + 0.004 (T_end - 20) for case "min", no shunt), _calc_r_x_from_dataframe :876-921, _calc_r_x_y_from_dataframe
        :473-491 (K_T), _transformer_correction_factor :1340-1368, _calc_nominal_ratio_from_dataframe :924-945,
        _calc_tap_from_dataframe :601-602 (no tap changer in mode "sc")
     pypower/makeYbus.py branch_vectors / makeYbus (Ys = 1/(r+jx), Yff = Ys/tap^2, Yft = Ytf = -Ys/tap, Ytt = Ys,
        Ysh = (GS + j BS)/baseMVA)
     shortcircuit/currents.py _calc_ikss :31-34 (R_EQUIV_OHM = BASE_KV^2/baseMVA * R_EQUIV),
        _calc_ikss_1ph :103-127, _calc_branch_currents_complex (V_ikss = V0 - ikss1 * Zbus[:, k], I_f = Yf V, I_t = Yt V).
   Square roots are oracle inputs.  Executable definitions only; the spec (ohmic series formula) is at the end. *)
From Coq Require Import ZArith QArith List Bool String.
From PPV Require Import Base.QN Base.QC Base.Out C18.Model.
Import ListNotations.
Open Scope Q_scope.

(* ---- element data; the case (max/min) is already selected: s_sc, rx are the max or min columns, c the voltage
   factor of the bus, ktemp = 1 (case max) or 1 + 0.004 (endtemp_degree - 20) (case min) *)
Record extgrid := { eg_c : Q; eg_ssc : Q; eg_rx : Q }.
Record sline := { l_r : Q; l_x : Q; l_len : Q; l_par : Q; l_ktemp : Q }.
Record strafo := { t_sn : Q; t_vnh : Q; t_vnl : Q; t_vk : Q; t_vkr : Q; t_par : Q; t_cmax : Q }.

Definition qsqr (x : Q) : Q := qmul x x.

(* BR_R + j BR_X of a line whose from bus has BASE_KV = vn *)
Definition line_row (l : sline) (vn sn : Q) : C :=
  let baseR := qdiv (qsqr vn) sn in
  mkC (qmul (qdiv (qdiv (qmul (l_r l) (l_len l)) baseR) (l_par l)) (l_ktemp l))
      (qdiv (qdiv (qmul (l_x l) (l_len l)) baseR) (l_par l)).

(* _calc_r_x_from_dataframe: z_sc, r_sc on tap_lv = (vn_trafo_lv / vn_lv)^2 * sn_mva *)
Definition trafo_zsc (t : strafo) (vn_lv sn : Q) : Q * Q :=
  let tap_lv := qmul (qsqr (qdiv (t_vnl t) vn_lv)) sn in
  (qmul (qdiv (qdiv (t_vk t) 100) (t_sn t)) tap_lv, qmul (qdiv (qdiv (t_vkr t) 100) (t_sn t)) tap_lv).
(* x_sc = sign(z_sc) * sqrt(z_sc^2 - r_sc^2); xsc = the square-root oracle *)
Definition qsign_mul (z x : Q) : Q := if qltb 0 z then x else if qltb z 0 then qopp x else 0.
(* _transformer_correction_factor (no power station unit): zt = vk/100/sn, rt = vkr/100/sn, xt = sqrt(zt^2 - rt^2) oracle *)
Definition trafo_kt (t : strafo) (xt : Q) : Q :=
  qdiv (qmul (95 # 100) (t_cmax t)) (qadd 1 (qmul (qmul (6 # 10) xt) (t_sn t))).
(* BR_R + j BR_X of the transformer: (r_sc / parallel) * kt, (x_sc / parallel) * kt *)
Definition trafo_row (t : strafo) (vn_lv sn xsc xt : Q) : C :=
  let '(z_sc, r_sc) := trafo_zsc t vn_lv sn in
  let kt := trafo_kt t xt in
  mkC (qmul (qdiv r_sc (t_par t)) kt) (qmul (qdiv (qsign_mul z_sc xsc) (t_par t)) kt).
(* TAP = (vn_hv_kv / vn_lv_kv) / (BASE_KV hv bus / BASE_KV lv bus) *)
Definition trafo_tap (t : strafo) (vn_hv vn_lv : Q) : Q := qdiv (qdiv (t_vnh t) (t_vnl t)) (qdiv vn_hv vn_lv).

(* makeYbus, one in-service branch without charging: (Yff, Yft, Ytf, Ytt) *)
Definition branch_y (z : C) (tap : Q) : C * C * C * C :=
  let ys := Cdiv C1 z in
  (Cdiv ys (CofQ (qmul tap tap)), Copp (Cdiv ys (CofQ tap)), Copp (Cdiv ys (CofQ tap)), ys).
(* Ysh = (GS + j BS) / baseMVA of the ext_grid bus *)
Definition eg_ysh (e : extgrid) (sn sq : Q) : C :=
  let p := ext_grid_gb (eg_c e) (eg_ssc e) (eg_rx e) sn sq in mkC (qdiv (fst p) sn) (qdiv (snd p) sn).

Record chain := { ch_eg : extgrid; ch_l1 : sline; ch_t : strafo; ch_l2 : sline; ch_vhv : Q; ch_vlv : Q }.
(* the oracles: sq = sqrt(rx^2+1), xsc = sqrt(z_sc^2 - r_sc^2) (depends on sn_mva), xt = sqrt(zt^2 - rt^2) *)
Record oracles := { o_sq : Q; o_xsc : Q; o_xt : Q }.

Definition chain_rows (n : chain) (sn : Q) (o : oracles) : C * C * C * C * Q :=
  (eg_ysh (ch_eg n) sn (o_sq o), line_row (ch_l1 n) (ch_vhv n) sn,
   trafo_row (ch_t n) (ch_vlv n) sn (o_xsc o) (o_xt o), line_row (ch_l2 n) (ch_vlv n) sn,
   trafo_tap (ch_t n) (ch_vhv n) (ch_vlv n)).

(* Ybus = Cf' Yf + Ct' Yt + diag(Ysh): rows of the 4 x 4 matrix *)
Definition chain_ybus (n : chain) (sn : Q) (o : oracles) : list (list C) :=
  let '(ysh, z1, zt, z2, tap) := chain_rows n sn o in
  let '(a_ff, a_ft, a_tf, a_tt) := branch_y z1 1 in
  let '(t_ff, t_ft, t_tf, t_tt) := branch_y zt tap in
  let '(b_ff, b_ft, b_tf, b_tt) := branch_y z2 1 in
  [ [Cadd ysh a_ff; a_ft; C0; C0];
    [a_tf; Cadd a_tt t_ff; t_ft; C0];
    [C0; t_tf; Cadd t_tt b_ff; b_ft];
    [C0; C0; b_tf; b_tt] ].

Fixpoint cdot (r v : list C) : C :=
  match r, v with a :: r', b :: v' => Cadd (Cmul a b) (cdot r' v') | _, _ => C0 end.
Definition mat_vec (m : list (list C)) (v : list C) : list C := map (fun r => cdot r v) m.
Definition unit_vec (k n : nat) : list C := map (fun i => if Nat.eqb i k then C1 else C0) (seq 0 n).
Fixpoint Ceq_list (a b : list C) : Prop :=
  match a, b with
  | [], [] => True
  | x :: a', y :: b' => x ==c y /\ Ceq_list a' b'
  | _, _ => False
  end.

(* R_EQUIV_OHM + j X_EQUIV_OHM = BASE_KV^2 / baseMVA * (R_EQUIV + j X_EQUIV) *)
Definition to_ohm_c (z : C) (vn sn : Q) : C := mkC (to_ohm (re z) vn sn) (to_ohm (im z) vn sn).

(* ---- branch currents of the fault at one bus (valid_V: all TAP = 1, or not): V_ikss = V0 - ikss1 * Zbus[:, k]
   (V0 = c at every bus; without V0 when a tap differs from 1), current of a branch at its to end = Ytf V_f + Ytt V_t *)
Definition v_ikss (valid_v : bool) (v0 ikss1 : C) (zcol : list C) : list C :=
  map (fun z => if valid_v then Csub v0 (Cmul ikss1 z) else Copp (Cmul ikss1 z)) zcol.
Definition branch_i_to (z : C) (tap : Q) (vf vt : C) : C :=
  let '(_, _, y_tf, y_tt) := branch_y z tap in Cadd (Cmul y_tf vf) (Cmul y_tt vt).
Definition branch_i_from (z : C) (tap : Q) (vf vt : C) : C :=
  let '(y_ff, y_ft, _, _) := branch_y z tap in Cadd (Cmul y_ff vf) (Cmul y_ft vt).

(* ---- single-phase fault: _calc_ikss_1ph  IKSS1 = sqrt3 * c / |2 z1 + z0| / BASE_KV * baseMVA ;
   zabs = the oracle |2 (R_EQUIV + j X_EQUIV) + (R_EQUIV0 + j X_EQUIV0)| *)
Definition z_1ph (z1 z0 : C) : C := Cadd (Cscale 2 z1) z0.
Definition ikss_1ph (c zabs vn sn s3 : Q) : Q := qmul (qdiv (qdiv (qmul s3 c) zabs) vn) sn.

(* ---- spec: the short-circuit impedances of the elements in ohm (IEC 60909), none mentions sn_mva *)
Definition Zeg_ohm (e : extgrid) (vn sq : Q) : C :=          (* c Un^2 / S_sc, R = rx X *)
  let z := qdiv (qmul (eg_c e) (qsqr vn)) (eg_ssc e) in Cscale (qdiv z sq) (mkC (eg_rx e) 1).
Definition Zline_ohm (l : sline) : C :=
  mkC (qmul (qdiv (qmul (l_r l) (l_len l)) (l_par l)) (l_ktemp l)) (qdiv (qmul (l_x l) (l_len l)) (l_par l)).
(* xk = sqrt(vk^2 - vkr^2) in percent (oracle); K_T = 0.95 cmax / (1 + 0.6 xk/100); Z_T referred to the lv side *)
Definition KT_spec (t : strafo) (xk : Q) : Q := qdiv (qmul (95 # 100) (t_cmax t)) (qadd 1 (qmul (6 # 10) (qdiv xk 100))).
Definition Ztrafo_ohm (t : strafo) (xk : Q) : C :=
  Cscale (qmul (KT_spec t xk) (qdiv (qdiv (qsqr (t_vnl t)) (t_sn t)) (t_par t))) (mkC (qdiv (t_vkr t) 100) (qdiv xk 100)).
Definition turns2 (t : strafo) : Q := qsqr (qdiv (t_vnl t) (t_vnh t)).      (* (U_rT,lv / U_rT,hv)^2 *)
(* Thevenin impedance in ohm at bus 0..3 of the chain *)
Definition Zthev_ohm (n : chain) (sq xk : Q) (k : nat) : C :=
  let zq := Zeg_ohm (ch_eg n) (ch_vhv n) sq in
  let zhv := Cadd zq (Zline_ohm (ch_l1 n)) in
  let zlv := Cadd (Cscale (turns2 (ch_t n)) zhv) (Ztrafo_ohm (ch_t n) xk) in
  match k with
  | O => zq
  | 1%nat => zhv
  | 2%nat => zlv
  | _ => Cadd zlv (Zline_ohm (ch_l2 n))
  end.

(* ---- run wrappers *)
Definition ocl (l : list C) : out := OL (map oc l).
Definition run_chain_ybus (n : chain) (sn : Q) (o : oracles) : out := OL (map ocl (chain_ybus n sn o)).
Definition run_chain_spec (n : chain) (sq xk : Q) : out := ocl (map (Zthev_ohm n sq xk) [0; 1; 2; 3]%nat).
(* residual of the impl's Zbus column against the model's Ybus: Ybus * zcol - e_k (compared with 0 by the harness) *)
Definition run_chain_residual (n : chain) (sn : Q) (o : oracles) (k : nat) (zcol : list C) : out :=
  ocl (map (fun p => Csub (fst p) (snd p)) (combine (mat_vec (chain_ybus n sn o) zcol) (unit_vec k 4))).
Definition run_1ph (c : Q) (z1 z0 : C) (zabs vn sn s3 : Q) : out :=
  OL [oq (ikss_1ph c zabs vn sn s3); oc (to_ohm_c z1 vn sn); oc (to_ohm_c z0 vn sn)].
(* current of a line at both ends for a fault with bus current ikss1 (p.u.), column entries zf, zt of the faulted bus *)
Definition run_branch_i (z : C) (tap : Q) (valid_v : bool) (v0 ikss1 zf zt : C) : out :=
  match v_ikss valid_v v0 ikss1 [zf; zt] with
  | [vf; vt] => OL [oc (branch_i_from z tap vf vt); oc (branch_i_to z tap vf vt)]
  | _ => OErr "shape"
  end.
