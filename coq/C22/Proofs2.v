(* C22 — inv_step for the remaining toolbox edits: drop_elements(_simple), drop_buses, select_subnet, reindex_buses,
   create_continuous_bus_index (statements re-exported in Properties/C22.v) *)
From Coq Require Import ZArith List Bool String Lia.
From PPV Require Import C22.Model C22.Proofs.
Import ListNotations.
Open Scope Z_scope.

(* ------------------------------------------------------------------ "all foreign keys INTO the tables P resolve" *)
Definition ResolvesP (P : tname -> Prop) (n : net) : Prop :=
  types_ok n /\ forall t x, P t -> refs n t x -> In x (keys n t).
Lemma ResolvesP_all n : ResolvesP (fun _ => True) n <-> Resolves n.
Proof. unfold ResolvesP, Resolves. split; intros [T R]; (split; [exact T|]); intros; [apply R | apply R]; auto. Qed.

(* n' has fewer referencing rows than n (group members / controller targets may shrink); the bus table is not mentioned *)
Record sub (n' n : net) : Prop := {
  S_el : forall k r, In r (el n' k) -> In r (el n k);
  S_sw : forall s, In s (sw n') -> In s (sw n);
  S_meas : forall m, In m (meas n') -> In m (meas n);
  S_pc : forall c, In c (pcost n') -> In c (pcost n);
  S_wc : forall c, In c (wcost n') -> In c (wcost n);
  S_grp : forall g, In g (grp n') -> exists g0, In g0 (grp n) /\ gty g = gty g0 /\ forall x, In x (gmem g) -> In x (gmem g0);
  S_ctrl : forall c, In c (ctrl n') -> exists c0, In c0 (ctrl n) /\ ctty c = ctty c0 /\ forall x, In x (ctidx c) -> In x (ctidx c0);
  S_rbus : forall x, In x (rbus n') -> In x (rbus n);
  S_res : forall k x, In x (res n' k) -> In x (res n k) }.

Lemma sub_refl n : sub n n.
Proof. constructor; auto; intros x Hx; exists x; auto. Qed.
Lemma sub_trans a b c : sub a b -> sub b c -> sub a c.
Proof.
  intros [A1 A2 A3 A4 A5 A6 A7 A8 A9] [B1 B2 B3 B4 B5 B6 B7 B8 B9]. constructor; auto.
  - intros g Hg. destruct (A6 g Hg) as [g0 (H1 & H2 & H3)]. destruct (B6 g0 H1) as [g1 (H4 & H5 & H6)]. exists g1. repeat split; auto; congruence.
  - intros x Hx. destruct (A7 x Hx) as [g0 (H1 & H2 & H3)]. destruct (B7 g0 H1) as [g1 (H4 & H5 & H6)]. exists g1. repeat split; auto; congruence.
Qed.
Lemma sub_refs n' n t x : sub n' n -> refs n' t x -> refs n t x.
Proof.
  intros [A1 A2 A3 A4 A5 A6 A7 A8 A9] R. destruct R.
  - eapply R_el; eauto.
  - apply R_swb; auto.
  - apply R_swe; auto.
  - apply R_meas; auto.
  - eapply R_side; eauto.
  - apply R_cost. apply in_app_iff in H. apply in_app_iff. destruct H; [left|right]; auto.
  - destruct (A6 g H) as [g0 (H1 & H2 & H3)]. rewrite H2. eapply R_grp; eauto.
  - destruct (A7 c H) as [c0 (H1 & H2 & H3)]. rewrite H2. eapply R_ctrl; eauto.
  - apply R_rbus; auto.
  - apply R_res; auto.
Qed.
Lemma sub_types n' n : sub n' n -> types_ok n -> types_ok n'.
Proof.
  intros S [Tm Tg]. split.
  - intros m Hm. apply Tm, (S_meas _ _ S), Hm.
  - intros g Hg. destruct (S_grp _ _ S g Hg) as [g0 (H1 & H2 & _)]. rewrite H2. apply Tg, H1.
Qed.

(* the key lemma for every edit that only removes rows: the keys that disappear ([lost]) are not referenced any more *)
Lemma resolves_drop_keys (P : tname -> Prop) n n' (lost : tname -> Z -> Prop) :
  sub n' n -> ResolvesP P n ->
  (forall t x, P t -> In x (keys n t) -> ~ lost t x -> In x (keys n' t)) ->
  (forall t x, P t -> refs n' t x -> ~ lost t x) -> ResolvesP P n'.
Proof.
  intros S [T R] K L. split; [eapply sub_types; eauto|]. intros t x Pt Rf. apply K; [exact Pt | | apply L; assumption].
  apply R; [exact Pt | eapply sub_refs; eauto].
Qed.

(* who can reference what *)
Lemma refs_el_inv n k x : refs n (TEl k) x ->
  (exists s, In s (sw n) /\ sw_target (swt s) = TEl k /\ sel s = x) \/
  (exists m, In m (meas n) /\ mty m = TEl k /\ mel m = x) \/
  (exists c, In c (pcost n ++ wcost n) /\ cet c = k /\ cel c = x) \/
  (exists g, In g (grp n) /\ gty g = TEl k /\ In x (gmem g)) \/
  (exists c, In c (ctrl n) /\ ctty c = k /\ In x (ctidx c)) \/ In x (res n k).
Proof.
  intros R. inversion R; subst.
  - left. exists s. auto.
  - right. left. exists m. auto.
  - right. right. left. exists c. auto.
  - right. right. right. left. exists g. auto.
  - right. right. right. right. left. exists c. auto.
  - right. right. right. right. right. assumption.
Qed.
Lemma refs_bus_inv n b : refs n TBus b ->
  (exists k r, In r (el n k) /\ In b (ebus r)) \/
  (exists s, In s (sw n) /\ sbus s = b) \/
  (exists s, In s (sw n) /\ swt s = SB /\ sel s = b) \/
  (exists m, In m (meas n) /\ mty m = TBus /\ mel m = b) \/
  (exists m, In m (meas n) /\ msd m = SideBus b) \/
  (exists g, In g (grp n) /\ gty g = TBus /\ In b (gmem g)) \/ In b (rbus n).
Proof.
  intros R. inversion R; subst.
  - left. exists k, r. auto.
  - right. left. exists s. auto.
  - right. right. left. exists s. destruct (swt s); try discriminate. auto.
  - right. right. right. left. exists m. auto.
  - right. right. right. right. left. exists m. auto.
  - right. right. right. right. right. left. exists g. auto.
  - right. right. right. right. right. right. assumption.
Qed.
Lemma refs_other_inv n t x : refs n t x -> t <> TBus -> (forall k, t <> TEl k) ->
  (exists m, In m (meas n) /\ mty m = t) \/ (exists g, In g (grp n) /\ gty g = t /\ In x (gmem g)).
Proof.
  intros R Hb He. destruct R; try congruence; try (exfalso; eapply He; reflexivity).
  - destruct (swt s); simpl in *; try congruence; exfalso; eapply He; reflexivity.
  - left. exists m. auto.
  - right. exists g. auto.
Qed.

Lemma refs_kinds n t x : types_ok n -> refs n t x -> t = TBus \/ t = TSwitch \/ exists k, t = TEl k.
Proof.
  intros [Tm Tg] R. destruct R; auto; try (right; right; eexists; reflexivity).
  - destruct (swt s); simpl; auto; right; right; eexists; reflexivity.
  - specialize (Tm m H). destruct (mty m); simpl in Tm; try discriminate; auto. right; right; eexists; reflexivity.
  - specialize (Tg g H). destruct (gty g); simpl in Tg; try discriminate; auto. right; right; eexists; reflexivity.
Qed.
Lemma refs_sw_inv n x : types_ok n -> refs n TSwitch x -> exists g, In g (grp n) /\ gty g = TSwitch /\ In x (gmem g).
Proof.
  intros [Tm Tg] R. apply refs_other_inv in R; [|discriminate|discriminate]. destruct R as [[m [H1 H2]]|H]; [|exact H].
  specialize (Tm m H1). rewrite H2 in Tm. discriminate.
Qed.

Lemma resolves_drop_keys' (P : tname -> Prop) n n' (lostb losts : Z -> Prop) (loste : ekind -> Z -> Prop) :
  sub n' n -> ResolvesP P n ->
  (forall x, P TBus -> In x (bus_ids n) -> ~ lostb x -> In x (bus_ids n')) ->
  (forall x, P TSwitch -> In x (map sid (sw n)) -> ~ losts x -> In x (map sid (sw n'))) ->
  (forall k x, P (TEl k) -> In x (el_ids n k) -> ~ loste k x -> In x (el_ids n' k)) ->
  (forall b, P TBus -> refs n' TBus b -> ~ lostb b) ->
  (forall x, P TSwitch -> refs n' TSwitch x -> ~ losts x) ->
  (forall k x, P (TEl k) -> refs n' (TEl k) x -> ~ loste k x) -> ResolvesP P n'.
Proof.
  intros S [T R] Kb Ks Ke Lb Ls Le. split; [eapply sub_types; eauto|]. intros t x Pt Rf.
  pose proof (R t x Pt (sub_refs _ _ _ _ S Rf)) as Hin.
  destruct (refs_kinds n' t x (sub_types _ _ S T) Rf) as [E|[E|[k E]]]; subst t.
  - apply Kb; auto.
  - apply Ks; auto.
  - apply Ke; auto.
Qed.

(* ------------------------------------------------------------------ the primitive table edits only remove rows *)
Lemma sub_detach n t ids : sub (detach n t ids) n.
Proof.
  constructor; try (intros; assumption).
  - intros g Hg. apply in_detach in Hg. destruct Hg as (g0 & H1 & H2 & _ & H3 & _). exists g0. auto.
  - intros c Hc. exists c. auto.
Qed.
Lemma sub_set_sw n v : (forall s, In s v -> In s (sw n)) -> sub (set_sw n v) n.
Proof. intros H. constructor; simpl; auto; intros x Hx; exists x; auto. Qed.
Lemma sub_set_meas n v : (forall s, In s v -> In s (meas n)) -> sub (set_meas n v) n.
Proof. intros H. constructor; simpl; auto; intros x Hx; exists x; auto. Qed.
Lemma sub_set_bus n v : sub (set_bus n v) n.
Proof. constructor; simpl; auto; intros x Hx; exists x; auto. Qed.
Lemma sub_set_rbus n v : (forall s, In s v -> In s (rbus n)) -> sub (set_rbus n v) n.
Proof. intros H. constructor; simpl; auto; intros x Hx; exists x; auto. Qed.
Lemma sub_set_elk n k v : (forall s, In s v -> In s (el n k)) -> sub (set_elk n k v) n.
Proof.
  intros H. constructor; simpl; auto; try (intros x Hx; exists x; auto).
  intros k' r Hr. unfold upd in Hr. destruct (ekind_beq k k') eqn:E; [apply ekind_beq_eq in E; subst; auto | exact Hr].
Qed.
Lemma sub_set_resk n k v : (forall s, In s v -> In s (res n k)) -> sub (set_resk n k v) n.
Proof.
  intros H. constructor; simpl; auto; try (intros x Hx; exists x; auto).
  intros k' r Hr. unfold upd in Hr. destruct (ekind_beq k k') eqn:E; [apply ekind_beq_eq in E; subst; auto | exact Hr].
Qed.
Lemma sub_drop_meas_at n t ids : sub (drop_meas_at n t ids) n.
Proof. apply sub_set_meas. intros m H. apply filter_In in H. apply H. Qed.
Lemma sub_drop_res n k ids : sub (drop_res n k ids) n.
Proof. apply sub_set_resk. intros m H. apply filter_In in H. apply H. Qed.
Lemma sub_drop_costs_of n k ids : sub (drop_costs_of n k ids) n.
Proof.
  unfold drop_costs_of. constructor; simpl; auto; try (intros x Hx; exists x; auto); intros c H; apply filter_In in H; apply H.
Qed.
Lemma sub_set_ctrl n v :
  (forall c, In c v -> exists c0, In c0 (ctrl n) /\ ctty c = ctty c0 /\ forall x, In x (ctidx c) -> In x (ctidx c0)) -> sub (set_ctrl n v) n.
Proof. intros H. constructor; simpl; auto; intros x Hx; exists x; auto. Qed.
Lemma sub_drop_controllers_at n k ids : sub (drop_controllers_at n k ids) n.
Proof.
  unfold drop_controllers_at. destruct ids as [|i0 it]; [apply sub_refl|]. apply sub_set_ctrl. intros c Hc.
  apply in_flat_map in Hc. destruct Hc as [c0 [H0 H]]. exists c0. split; [exact H0|].
  destruct (ekind_beq (ctty c0) k); [|destruct H as [H|[]]; subst; auto].
  destruct (filter (fun i => negb (zin i (i0 :: it))) (ctidx c0)) eqn:F; [destruct H|].
  destruct (ctsingle c0); destruct H as [H|[]]; subst c; cbn [ctty ctidx]; auto. split; [reflexivity|].
  intros x Hx. rewrite <- F in Hx. apply filter_In in Hx. apply Hx.
Qed.
Ltac filt := let H := fresh in intros ? H; apply filter_In in H; exact (proj1 H).
Ltac sub_chain :=
  repeat first
    [ apply sub_refl
    | eapply sub_trans;
      [ first [ apply sub_detach | apply sub_drop_meas_at | apply sub_drop_res | apply sub_drop_costs_of
              | apply sub_drop_controllers_at | apply sub_set_bus
              | apply sub_set_sw; filt | apply sub_set_meas; filt | apply sub_set_rbus; filt | apply sub_set_elk; filt ] | ] ].

(* ------------------------------------------------------------------ dropping rows of one element table with the cascade *)
Record cascaded (n n' : net) (k : ekind) (ids sws : list Z) : Prop := {
  C_sub : sub n' n;
  C_bus : bus n' = bus n;
  C_el : forall k', el n' k' = if ekind_beq k k' then filter (fun r => negb (zin (eid r) ids)) (el n k) else el n k';
  C_sw : forall s, In s (sw n') <-> In s (sw n) /\ ~ In (sid s) sws;
  C_swk : forall s, In s (sw n) -> sw_target (swt s) = TEl k -> In (sel s) ids -> In (sid s) sws;
  C_meas : forall m, In m (meas n') -> mty m = TEl k -> ~ In (mel m) ids;
  C_grp : forall g, In g (grp n') -> gty g = TEl k -> forall x, In x (gmem g) -> ~ In x ids;
  C_grps : forall g, In g (grp n') -> gty g = TSwitch -> forall x, In x (gmem g) -> ~ In x sws;
  C_res : forall x, In x (res n' k) -> ~ In x ids }.

Lemma cascaded_resolves P n n' k ids sws :
  cascaded n n' k ids sws -> ResolvesP P n ->
  (forall c, In c (pcost n' ++ wcost n') -> cet c = k -> ~ In (cel c) ids) ->
  (forall c x, In c (ctrl n') -> ctty c = k -> In x (ctidx c) -> ~ In x ids) -> ResolvesP P n'.
Proof.
  intros [S Cb Ce Cs Csk Cm Cg Cgs Cr] R Hc Hct.
  apply (resolves_drop_keys' P n n' (fun _ => False) (fun x => In x sws) (fun k' x => k' = k /\ In x ids) S R).
  - intros x _ Hx _. unfold bus_ids. rewrite Cb. exact Hx.
  - intros x _ Hx Hn. apply in_map_iff in Hx. destruct Hx as [s [H1 H2]]. apply in_map_iff. exists s. split; [exact H1|].
    apply Cs. split; [exact H2 | rewrite H1; exact Hn].
  - intros k' x _ Hx Hn. unfold el_ids in *. rewrite Ce. destruct (ekind_beq k k') eqn:E; [|exact Hx].
    apply ekind_beq_eq in E. subst k'. apply in_map_iff in Hx. destruct Hx as [r [H1 H2]]. apply in_map_iff. exists r. split; [exact H1|].
    apply filter_In. split; [exact H2|]. apply negb_true_iff, zin_false. rewrite H1. tauto.
  - tauto.
  - intros x _ Rf. apply refs_sw_inv in Rf; [|eapply sub_types; [exact S | apply R]]. destruct Rf as [g (H1 & H2 & H3)]. eapply Cgs; eauto.
  - intros k' x _ Rf [E Hx]. subst k'. apply refs_el_inv in Rf. destruct Rf as [[s (H1 & H2 & H3)]|[[m (H1 & H2 & H3)]|[[c (H1 & H2 & H3)]|[[g (H1 & H2 & H3)]|[[c (H1 & H2 & H3)]|H]]]]].
    + apply Cs in H1. destruct H1 as [H1 H4]. apply H4. apply Csk; auto. rewrite H3. exact Hx.
    + apply (Cm m H1 H2). rewrite H3. exact Hx.
    + apply (Hc c H1 H2). rewrite H3. exact Hx.
    + apply (Cg g H1 H2 x H3 Hx).
    + apply (Hct c x H1 H2 H3 Hx).
    + apply (Cr x H Hx).
Qed.

Lemma tname_refl t : tname_eqb t t = true.
Proof. apply tname_eqb_eq. reflexivity. Qed.

(* drop_lines / drop_trafos *)
Lemma cascaded_drop_branch n k e ids n' :
  sw_target e = TEl k -> (forall e', sw_target e' = TEl k -> e' = e) -> ids <> [] ->
  drop_branch_sw n k e ids = Ok n' ->
  cascaded n n' k ids (map sid (filter (fun s => zin (sel s) ids && swet_eqb (swt s) e) (sw n))) /\
  pcost n' = pcost n /\ wcost n' = wcost n /\ ctrl n' = ctrl n /\ rbus n' = rbus n.
Proof.
  intros He Hinj Hne. unfold drop_branch_sw. destruct ids as [|i0 ids0]; [congruence|]. set (ids := i0 :: ids0) in *.
  set (sws := map sid (filter (fun s => zin (sel s) ids && swet_eqb (swt s) e) (sw n))).
  unfold drop_rows_el. cbn [bind].
  match goal with |- context [allin ids ?l] => destruct (allin ids l) eqn:A end; cbn [bind]; [|discriminate].
  intros E. inversion E; subst n'; clear E. split; [|repeat split]. constructor.
  - sub_chain.
  - reflexivity.
  - reflexivity.
  - intros s. change (In s (filter (fun s => negb (zin (sid s) sws)) (sw n)) <-> In s (sw n) /\ ~ In (sid s) sws).
    rewrite filter_In, negb_true_iff, zin_false. tauto.
  - intros s Hs Ht Hx. unfold sws. apply in_map_iff. exists s. split; [reflexivity|]. apply filter_In. split; [exact Hs|].
    apply andb_true_iff. split; [apply zin_true, Hx|]. rewrite (Hinj _ Ht). destruct e; reflexivity.
  - intros m Hm Ht. change (In m (filter (fun m => negb (tname_eqb (mty m) (TEl k) && zin (mel m) ids)) (meas n))) in Hm.
    apply filter_In in Hm. destruct Hm as [_ Hm]. rewrite Ht, tname_refl in Hm. simpl in Hm. apply zin_false, negb_true_iff, Hm.
  - intros g Hg Ht x Hx. change (In g (grp (detach (detach n TSwitch sws) (TEl k) ids))) in Hg.
    apply in_detach in Hg. destruct Hg as (g0 & _ & H2 & _ & _ & H5). apply H5; [congruence | exact Hx].
  - intros g Hg Ht x Hx. change (In g (grp (detach (detach n TSwitch sws) (TEl k) ids))) in Hg.
    apply in_detach in Hg. destruct Hg as (g1 & H1 & H2 & _ & H4 & _). apply in_detach in H1. destruct H1 as (g0 & _ & H6 & _ & _ & H9).
    apply H9; [congruence | apply H4, Hx].
  - intros x Hx. change (In x (upd (res n) k (filter (fun i => negb (zin i ids)) (res n k)) k)) in Hx. unfold upd in Hx.
    rewrite ekind_beq_refl in Hx. apply filter_In in Hx. apply zin_false, negb_true_iff, Hx.
Qed.

(* drop_elements_simple and the generic branch of drop_elements_at_buses: rows, group members, measurements, costs, results *)
Lemma cascaded_simple n k ids n' :
  (forall e, sw_target e <> TEl k) ->
  n' = drop_costs_of (drop_res (drop_meas_at (set_elk (detach n (TEl k) ids) k (filter (fun r => negb (zin (eid r) ids)) (el n k))) (TEl k) ids) k ids) k ids ->
  cascaded n n' k ids [] /\ (forall c, In c (pcost n' ++ wcost n') -> cet c = k -> ~ In (cel c) ids) /\ ctrl n' = ctrl n /\ rbus n' = rbus n.
Proof.
  intros Hs E. subst n'. split; [|split; [|split; reflexivity]]. constructor.
  - sub_chain.
  - reflexivity.
  - reflexivity.
  - intros s. simpl. tauto.
  - intros s _ Ht. exfalso. eapply Hs, Ht.
  - intros m Hm Ht. change (In m (filter (fun m => negb (tname_eqb (mty m) (TEl k) && zin (mel m) ids)) (meas n))) in Hm.
    apply filter_In in Hm. destruct Hm as [_ Hm]. rewrite Ht, tname_refl in Hm. simpl in Hm. apply zin_false, negb_true_iff, Hm.
  - intros g Hg Ht x Hx. change (In g (grp (detach n (TEl k) ids))) in Hg.
    apply in_detach in Hg. destruct Hg as (g0 & _ & H2 & _ & _ & H5). apply H5; [congruence | exact Hx].
  - intros g _ _ x _ [].
  - intros x Hx. change (In x (upd (res n) k (filter (fun i => negb (zin i ids)) (res n k)) k)) in Hx. unfold upd in Hx.
    rewrite ekind_beq_refl in Hx. apply filter_In in Hx. apply zin_false, negb_true_iff, Hx.
  - intros c Hc Ht. change (In c (filter (fun c => negb (ekind_beq (cet c) k && zin (cel c) ids)) (pcost n) ++
                                  filter (fun c => negb (ekind_beq (cet c) k && zin (cel c) ids)) (wcost n))) in Hc.
    rewrite <- filter_app in Hc. apply filter_In in Hc. destruct Hc as [_ Hc]. rewrite Ht, ekind_beq_refl in Hc. simpl in Hc.
    apply zin_false, negb_true_iff, Hc.
Qed.

Definition noctrl (n : net) (k : ekind) (ids : list Z) : Prop :=
  forall c x, In c (ctrl n) -> ctty c = k -> In x (ctidx c) -> ~ In x ids.
Definition nocost (n : net) (k : ekind) (ids : list Z) : Prop :=
  forall c, In c (pcost n ++ wcost n) -> cet c = k -> ~ In (cel c) ids.
Lemma G22_drop_props n k ids : G22_drop n k ids = true -> nocost n k ids /\ noctrl n k ids.
Proof.
  intros G. split.
  - intros c Hc Hk. eapply G22_drop_cost; eauto.
  - intros c x Hc Hk Hx. eapply G22_drop_ctrl; eauto.
Qed.

Lemma drop_branch_P P n k e ids n' :
  sw_target e = TEl k -> (forall e', sw_target e' = TEl k -> e' = e) -> nocost n k ids -> noctrl n k ids ->
  ResolvesP P n -> drop_branch_sw n k e ids = Ok n' -> ResolvesP P n' /\ sub n' n /\ bus n' = bus n /\ rbus n' = rbus n.
Proof.
  intros He Hinj Gc Gt R E. destruct ids as [|i0 it] eqn:EI.
  - inversion E; subst. repeat split; try apply R; apply sub_refl.
  - rewrite <- EI in *. assert (Hne : ids <> []) by (rewrite EI; discriminate).
    destruct (cascaded_drop_branch n k e ids n' He Hinj Hne E) as (C & Hp & Hw & Hc & Hr).
    split; [|split; [apply C | split; [apply C | exact Hr]]].
    eapply cascaded_resolves; eauto.
    + rewrite Hp, Hw. exact Gc.
    + rewrite Hc. exact Gt.
Qed.

Lemma drop_simple_el_P P n k ids n' :
  (forall e, sw_target e <> TEl k) -> noctrl n k ids ->
  ResolvesP P n -> drop_simple_el n k ids = Ok n' -> ResolvesP P n'.
Proof.
  intros Hs Gt R. unfold drop_simple_el, drop_simple_el_gen, drop_rows_el.
  match goal with |- context [allin ids ?l] => destruct (allin ids l) end; cbn [bind]; [|discriminate].
  intros E. inversion E as [E']; clear E.
  destruct (cascaded_simple n k ids n' Hs) as (C & Hc & Hct & _); [subst n'; reflexivity|].
  rewrite E'. apply (cascaded_resolves P n n' k ids [] C R Hc). intros c x Hc'. rewrite Hct in Hc'. apply Gt, Hc'.
Qed.

(* boolean guards *)
Lemma G22_noctrl_prop n k ids : G22_noctrl n k ids = true -> noctrl n k ids.
Proof.
  unfold G22_noctrl. rewrite forallb_forall. intros H c x Hc Hk Hx Hin. specialize (H c Hc).
  apply negb_true_iff, andb_false_iff in H. destruct H as [H|H].
  - subst k. rewrite ekind_beq_refl in H. discriminate.
  - assert (existsb (fun y => zin y ids) (ctidx c) = true); [|congruence].
    apply existsb_exists. exists x. split; [exact Hx | apply zin_true, Hin].
Qed.

Lemma inv_step_drop_switch_rows n ids n' :
  Resolves n -> drop_elements n TSwitch ids = Ok n' -> Resolves n'.
Proof.
  intros R. apply ResolvesP_all in R. cbn [drop_elements].
  match goal with |- context [allin ids ?l] => destruct (allin ids l) end; [|discriminate].
  intros E. inversion E; subst n'; clear E. apply ResolvesP_all.
  apply (resolves_drop_keys' _ n _ (fun _ => False) (fun x => In x ids) (fun _ _ => False)); auto.
  - sub_chain.
  - intros x _ Hx Hn. simpl. apply in_map_iff in Hx. destruct Hx as [s [H1 H2]]. apply in_map_iff. exists s. split; [exact H1|].
    apply filter_In. split; [exact H2|]. apply negb_true_iff, zin_false. rewrite H1. exact Hn.
  - intros x _ Rf. apply refs_sw_inv in Rf.
    + destruct Rf as [g (H1 & H2 & H3)]. change (In g (grp (detach n TSwitch ids))) in H1. apply in_detach in H1.
      destruct H1 as (g0 & _ & H4 & _ & _ & H5). apply H5; [congruence | exact H3].
    + eapply sub_types; [|apply R]. sub_chain.
Qed.
Lemma inv_step_drop_meas_rows n ids n' :
  Resolves n -> drop_elements n TMeas ids = Ok n' -> Resolves n'.
Proof.
  intros R. apply ResolvesP_all in R. cbn [drop_elements].
  match goal with |- context [allin ids ?l] => destruct (allin ids l) end; [|discriminate].
  intros E. inversion E; subst n'; clear E. apply ResolvesP_all.
  apply (resolves_drop_keys' _ n _ (fun _ => False) (fun _ => False) (fun _ _ => False)); auto.
  sub_chain.
Qed.

(* ------------------------------------------------------------------ drop_buses(drop_elements=True) *)
Definition NB (t : tname) : Prop := t <> TBus.
Definition free (buses : list Z) (r : erow) : Prop := forall b, In b (ebus r) -> ~ In b buses.
Record Gat (n : net) (buses : list Z) : Prop := {
  GA_ctrl : forall c x r, In c (ctrl n) -> In x (ctidx c) -> In r (el n (ctty c)) -> eid r = x -> free buses r;
  GA_cost : forall c r, In c (pcost n ++ wcost n) -> is_swk (cet c) = true -> In r (el n (cet c)) -> eid r = cel c -> free buses r }.
Lemma free_of_true buses r : free_of buses r = true <-> free buses r.
Proof.
  unfold free_of, free. rewrite forallb_forall. split; intros H b Hb.
  - apply zin_false, negb_true_iff, H, Hb.
  - apply negb_true_iff, zin_false, H, Hb.
Qed.
Lemma gat_true n buses : gat n buses = true -> Gat n buses.
Proof.
  unfold gat. rewrite andb_true_iff, !forallb_forall. intros [H1 H2]. constructor.
  - intros c x r Hc Hx Hr E. specialize (H1 c Hc). rewrite forallb_forall in H1. specialize (H1 r Hr).
    apply orb_true_iff in H1. destruct H1 as [H1|H1]; [|apply free_of_true, H1].
    apply negb_true_iff, zin_false in H1. subst x. contradiction.
  - intros c r Hc Hk Hr E. specialize (H2 c Hc). rewrite Hk in H2. simpl in H2. rewrite forallb_forall in H2. specialize (H2 r Hr).
    apply orb_true_iff in H2. destruct H2 as [H2|H2]; [|apply free_of_true, H2].
    apply negb_true_iff, Z.eqb_neq in H2. contradiction.
Qed.
Lemma Gat_sub n' n buses : sub n' n -> Gat n buses -> Gat n' buses.
Proof.
  intros S [G1 G2]. constructor.
  - intros c x r Hc Hx Hr E. destruct (S_ctrl _ _ S c Hc) as [c0 (H1 & H2 & H3)]. rewrite H2 in Hr.
    apply (G1 c0 x r H1 (H3 x Hx) (S_el _ _ S _ _ Hr) E).
  - intros c r Hc Hk Hr E. apply (G2 c r); auto; [|apply (S_el _ _ S), Hr].
    apply in_app_iff in Hc. apply in_app_iff. destruct Hc; [left; apply (S_pc _ _ S) | right; apply (S_wc _ _ S)]; assumption.
Qed.

Lemma at_buses_in k col buses r : at_buses k col buses r = true -> exists b, In b (ebus r) /\ In b buses.
Proof.
  unfold at_buses. destruct (nth_error (ebus r) col) eqn:E; [|discriminate]. intros H. exists z. split; [eapply nth_error_In; eauto | apply zin_true, H].
Qed.
Lemma ids_at n k col buses x :
  In x (map eid (filter (at_buses k col buses) (el n k))) -> exists r, In r (el n k) /\ eid r = x /\ ~ free buses r.
Proof.
  intros H. apply in_map_iff in H. destruct H as [r [H1 H2]]. apply filter_In in H2. destruct H2 as [H2 H3]. exists r. split; [exact H2|]. split; [exact H1|].
  apply at_buses_in in H3. destruct H3 as [b [H3 H4]]. intros F. apply (F b H3 H4).
Qed.
Lemma Gat_noctrl n k col buses : Gat n buses -> noctrl n k (map eid (filter (at_buses k col buses) (el n k))).
Proof.
  intros [G1 _] c x Hc Hk Hx Hin. apply ids_at in Hin. destruct Hin as [r (H1 & H2 & H3)]. subst k. apply H3. eapply G1; eauto.
Qed.
Lemma Gat_nocost n k col buses : is_swk k = true -> Gat n buses -> nocost n k (map eid (filter (at_buses k col buses) (el n k))).
Proof.
  intros Hk [_ G2] c Hc Hk' Hin. apply ids_at in Hin. destruct Hin as [r (H1 & H2 & H3)]. subst k. apply H3. eapply G2; eauto.
Qed.

Definition step_ok (n n' : net) : Prop :=
  ResolvesP NB n' /\ sub n' n /\ bus n' = bus n /\ rbus n' = rbus n.

Lemma post_filter n n' k col buses :
  (forall k', el n' k' = if ekind_beq k k' then filter (fun r => negb (zin (eid r) (map eid (filter (at_buses k col buses) (el n k))))) (el n k) else el n k') ->
  forall r, In r (el n' k) -> at_buses k col buses r = false.
Proof.
  intros He r Hr. rewrite He, ekind_beq_refl in Hr. apply filter_In in Hr. destruct Hr as [Hr Hn].
  destruct (at_buses k col buses r) eqn:A; [|reflexivity]. apply negb_true_iff, zin_false in Hn. exfalso. apply Hn.
  apply in_map. apply filter_In. tauto.
Qed.

Lemma col_step n k col buses n' :
  in_bus_tuples k = true -> Gat n buses -> ResolvesP NB n -> drop_el_at_buses_col n k col buses = Ok n' ->
  step_ok n n' /\ forall r, In r (el n' k) -> at_buses k col buses r = false.
Proof.
  intros Hk G R. unfold drop_el_at_buses_col. set (ids := map eid (filter (at_buses k col buses) (el n k))).
  destruct ids as [|i0 it] eqn:EI.
  { intros E. inversion E; subst n'. split; [exact (conj R (conj (sub_refl n) (conj eq_refl eq_refl)))|].
    intros r Hr. destruct (at_buses k col buses r) eqn:A; [|reflexivity].
    assert (In (eid r) ids) by (apply in_map, filter_In; tauto). rewrite EI in H. destruct H. }
  rewrite <- EI. assert (Hne : ids <> []) by (rewrite EI; discriminate). clear EI i0 it.
  assert (Branch : forall e, sw_target e = TEl k -> (forall e', sw_target e' = TEl k -> e' = e) -> is_swk k = true ->
            drop_branch_sw n k e ids = Ok n' -> step_ok n n' /\ forall r, In r (el n' k) -> at_buses k col buses r = false).
  { intros e He Hinj Hs E. destruct (drop_branch_P NB n k e ids n' He Hinj (Gat_nocost n k col buses Hs G) (Gat_noctrl n k col buses G) R E) as (H1 & H2 & H3 & H4).
    split; [exact (conj H1 (conj H2 (conj H3 H4)))|]. destruct (cascaded_drop_branch n k e ids n' He Hinj Hne E) as (C & _).
    apply (post_filter n n' k col buses), C. }
  assert (Simple : (forall e, sw_target e <> TEl k) ->
            Ok (drop_costs_of (drop_res (drop_meas_at (set_elk (detach n (TEl k) ids) k (filter (fun r => negb (zin (eid r) ids)) (el n k))) (TEl k) ids) k ids) k ids) = Ok n' ->
            step_ok n n' /\ forall r, In r (el n' k) -> at_buses k col buses r = false).
  { intros Hs E. inversion E as [E']; clear E. destruct (cascaded_simple n k ids n' Hs (eq_sym E')) as (C & Hc & Hct & Hr).
    split; [|rewrite E'; apply (post_filter n n' k col buses), C]. rewrite E'. split; [|split; [apply C | split; [apply C | exact Hr]]].
    apply (cascaded_resolves NB n n' k ids [] C R Hc). intros c x Hc'. rewrite Hct in Hc'. apply (Gat_noctrl n k col buses G), Hc'. }
  destruct k; try discriminate Hk;
    try (apply Simple; intros e; destruct e; discriminate).
  - apply (Branch SL); [reflexivity | intros e'; destruct e'; simpl; congruence | reflexivity].
  - apply (Branch ST); [reflexivity | intros e'; destruct e'; simpl; congruence | reflexivity].
  - apply (Branch ST3); [reflexivity | intros e'; destruct e'; simpl; congruence | reflexivity].
Qed.

Definition sw_hit (buses : list Z) (s : swrow) : bool := zin (sbus s) buses || (zin (sel s) buses && swet_eqb (swt s) SB).
Lemma switch_step n buses :
  ResolvesP NB n ->
  step_ok n (drop_switches_at_buses_gen true n buses) /\
  forall s, In s (sw (drop_switches_at_buses_gen true n buses)) -> sw_hit buses s = false.
Proof.
  intros R.
  change (drop_switches_at_buses_gen true n buses) with
    (set_sw (detach n TSwitch (map sid (filter (sw_hit buses) (sw n)))) (filter (fun s => negb (sw_hit buses s)) (sw n))).
  set (ids := map sid (filter (sw_hit buses) (sw n))).
  split; [split; [|split; [sub_chain | split; reflexivity]]|].
  - apply (resolves_drop_keys' NB n _ (fun _ => False) (fun x => In x ids) (fun _ _ => False)); auto.
    + sub_chain.
    + intros x _ Hx Hn. simpl. apply in_map_iff in Hx. destruct Hx as [s [H1 H2]]. apply in_map_iff. exists s. split; [exact H1|].
      apply filter_In. split; [exact H2|]. destruct (sw_hit buses s) eqn:A; [|reflexivity]. exfalso. apply Hn. unfold ids. rewrite <- H1.
      apply in_map, filter_In. tauto.
    + intros x _ Rf. apply refs_sw_inv in Rf.
      * destruct Rf as [g (H1 & H2 & H3)]. change (In g (grp (detach n TSwitch ids))) in H1. apply in_detach in H1.
        destruct H1 as (g0 & _ & H4 & _ & _ & H5). apply H5; [congruence | exact H3].
      * eapply sub_types; [|apply R]. sub_chain.
  - intros s Hs. simpl in Hs. apply filter_In in Hs. apply negb_true_iff, Hs.
Qed.

Lemma step_ok_trans a b c : step_ok a b -> step_ok b c -> step_ok a c.
Proof.
  intros (_ & S1 & B1 & R1) (H & S2 & B2 & R2). split; [exact H|]. split; [eapply sub_trans; eauto|]. split; congruence.
Qed.

Lemma loop_ok buses ts : forall n n',
  (forall k c, In (Some (k, c)) ts -> in_bus_tuples k = true) ->
  drop_at_buses_loop true n ts buses = Ok n' -> Gat n buses -> ResolvesP NB n ->
  step_ok n n' /\
  (forall k c, In (Some (k, c)) ts -> forall r, In r (el n' k) -> at_buses k c buses r = false) /\
  (In None ts -> forall s, In s (sw n') -> sw_hit buses s = false).
Proof.
  induction ts as [|o ts IH]; intros n n' Hts E G R.
  - simpl in E. inversion E; subst n'. split; [exact (conj R (conj (sub_refl n) (conj eq_refl eq_refl)))|]. split; [intros k c []| intros []].
  - destruct o as [[k c]|]; cbn [drop_at_buses_loop] in E.
    + destruct (drop_el_at_buses_col n k c buses) as [n1|] eqn:E1; cbn [bind] in E; [|discriminate].
      destruct (col_step n k c buses n1 (Hts k c (or_introl eq_refl)) G R E1) as [S1 P1].
      assert (S1' := S1). destruct S1' as (R1 & Sb1 & _).
      destruct (IH n1 n' (fun k c H => Hts k c (or_intror H)) E (Gat_sub _ _ _ Sb1 G) R1) as (S2 & P2 & P3).
      split; [eapply step_ok_trans; eauto|]. split.
      * intros k' c' [H|H]; [|apply P2, H]. inversion H; subst k' c'. intros r Hr. apply P1. destruct S2 as (_ & Sb2 & _). apply (S_el _ _ Sb2), Hr.
      * intros [H|H]; [discriminate | apply P3, H].
    + destruct (switch_step n buses R) as [S1 P1]. set (n1 := drop_switches_at_buses_gen true n buses) in *.
      assert (S1' := S1). destruct S1' as (R1 & Sb1 & _).
      destruct (IH n1 n' (fun k c H => Hts k c (or_intror H)) E (Gat_sub _ _ _ Sb1 G) R1) as (S2 & P2 & P3).
      split; [eapply step_ok_trans; eauto|]. split.
      * intros k' c' [H|H]; [discriminate | apply P2, H].
      * intros _ s Hs. apply P1. destruct S2 as (_ & Sb2 & _). apply (S_sw _ _ Sb2), Hs.
Qed.

(* drop_controllers_at_buses only edits net.controller *)
Lemma dca_same n k ids :
  let n' := drop_controllers_at n k ids in
  bus n' = bus n /\ el n' = el n /\ sw n' = sw n /\ meas n' = meas n /\ pcost n' = pcost n /\ wcost n' = wcost n /\ grp n' = grp n /\
  rbus n' = rbus n /\ res n' = res n.
Proof. unfold drop_controllers_at. destruct ids; repeat split. Qed.
Lemma dcab_same buses ks : forall n,
  let n' := fold_left (fun n k => drop_controllers_at n k (connected n k buses)) ks n in
  sub n' n /\ bus n' = bus n /\ el n' = el n /\ sw n' = sw n /\ meas n' = meas n /\ grp n' = grp n /\ rbus n' = rbus n.
Proof.
  induction ks as [|k ks IH]; intros n; simpl.
  - split; [apply sub_refl | repeat split].
  - destruct (IH (drop_controllers_at n k (connected n k buses))) as (H1 & H2 & H3 & H4 & H5 & H6 & H7).
    destruct (dca_same n k (connected n k buses)) as (D1 & D2 & D3 & D4 & _ & _ & D7 & D8 & _).
    split; [eapply sub_trans; [exact H1 | apply sub_drop_controllers_at]|]. repeat split; congruence.
Qed.

(* every bus column of a listed table is one of the tuples *)
Lemma tuples_complete k col : in_bus_tuples k = true -> (col < arity k)%nat -> In (Some (k, col)) tuples.
Proof.
  intros Hk Hc. destruct k; try discriminate Hk; simpl in Hc;
    (destruct col as [|[|[|col]]]; [ | | | exfalso; lia]); try (exfalso; lia); simpl; tauto.
Qed.
Lemma tuples_listed k c : In (Some (k, c)) tuples -> in_bus_tuples k = true.
Proof. simpl. intros H. repeat (destruct H as [H|H]; [inversion H; reflexivity|]). destruct H. Qed.

Lemma resolves_from_NB n : ResolvesP NB n -> (forall b, refs n TBus b -> In b (bus_ids n)) -> Resolves n.
Proof.
  intros [T R] Hb. split; [exact T|]. intros t x Rf. destruct t; try (apply R; [discriminate | exact Rf]). apply Hb, Rf.
Qed.
Lemma resolves_same_keys P n n' :
  sub n' n -> bus n' = bus n -> el n' = el n -> sw n' = sw n -> ResolvesP P n -> ResolvesP P n'.
Proof.
  intros S Hb He Hs R. apply (resolves_drop_keys' P n n' (fun _ => False) (fun _ => False) (fun _ _ => False)); auto.
  - intros x _ Hx _. unfold bus_ids. rewrite Hb. exact Hx.
  - intros x _ Hx _. rewrite Hs. exact Hx.
  - intros k x _ Hx _. unfold el_ids. rewrite He. exact Hx.
Qed.

Lemma inv_step_drop_buses n buses n' :
  G22_drop_buses n buses = true -> Resolves n -> drop_buses n buses true = Ok n' -> Resolves n'.
Proof.
  intros G R. unfold drop_buses, drop_buses_gen. destruct buses as [|b0 bt] eqn:EB; [intros E; inversion E; subst; exact R|].
  rewrite <- EB in *. clear EB b0 bt.
  unfold G22_drop_buses in G.
  set (n1 := detach n TBus buses) in *.
  set (n2 := set_bus n1 (filter (fun b => negb (zin (fst b) buses)) (bus n1))) in *.
  set (n3 := set_rbus n2 (filter (fun i => negb (zin i buses)) (rbus n2))) in *.
  set (n4 := drop_controllers_at_buses n3 buses) in *.
  apply andb_true_iff in G. destruct G as [G G4]. apply andb_true_iff in G. destruct G as [G Gside].
  apply andb_true_iff in G. destruct G as [Gar Gsvc]. apply gat_true in G4.
  destruct (allin buses (bus_ids n1)) eqn:A; cbn [negb]; [|discriminate]. unfold drop_elements_at_buses.
  destruct (drop_at_buses_loop true n4 tuples buses) as [n5|] eqn:EL; cbn [bind]; [|discriminate].
  intros E. injection E as E. subst n'.
  (* the part of the invariant that does not talk about buses survives every stage *)
  apply ResolvesP_all in R.
  assert (S3 : sub n3 n) by (unfold n3, n2, n1; sub_chain).
  assert (R3 : ResolvesP NB n3).
  { apply (resolves_drop_keys' NB n n3 (fun _ => True) (fun _ => False) (fun _ _ => False)); auto.
    all: try (intros ? HH; exfalso; apply HH; reflexivity).
    destruct R as [T R]. split; [exact T|]. intros; apply R; auto. }
  assert (D4 : sub n4 n3 /\ bus n4 = bus n3 /\ el n4 = el n3 /\ sw n4 = sw n3 /\ meas n4 = meas n3 /\ grp n4 = grp n3 /\ rbus n4 = rbus n3)
    by (apply (dcab_same buses ekinds n3)).
  destruct D4 as (S4 & B4 & E4 & W4 & M4 & Gr4 & Rb4).
  assert (R4 : ResolvesP NB n4) by (apply (resolves_same_keys NB n3 n4); auto).
  destruct (loop_ok buses tuples n4 n5 tuples_listed EL G4 R4) as ((R5 & S5 & B5 & Rb5) & Pel & Psw).
  set (n6 := drop_meas_at (drop_meas_at n5 TBus buses) TBus buses).
  assert (S6 : sub n6 n5) by (unfold n6; sub_chain).
  assert (R6 : ResolvesP NB n6) by (apply (resolves_same_keys NB n5 n6); auto).
  assert (S61 : sub n6 n1) by (eapply sub_trans; [exact S6|]; eapply sub_trans; [exact S5|]; eapply sub_trans; [exact S4|]; unfold n3, n2; sub_chain).
  assert (S60 : sub n6 n) by (eapply sub_trans; [exact S61 | unfold n1; sub_chain]).
  apply resolves_from_NB; [exact R6|]. intros b Rf.
  assert (Hin : In b (bus_ids n)) by (destruct R as [_ R]; apply (R TBus); [exact I | eapply sub_refs; eauto]).
  assert (Hfree : ~ In b buses).
  { apply refs_bus_inv in Rf.
    destruct Rf as [(k & r & H1 & H2)|[(s & H1 & H2)|[(s & H1 & H2 & H3)|[(m & H1 & H2 & H3)|[(m & H1 & H2)|[(g & H1 & H2 & H3)|H]]]]]].
    - change (In r (el n5 k)) in H1. pose proof (S_el _ _ S60 k r H1) as Hr0.
      destruct (in_bus_tuples k) eqn:Hk.
      + destruct (In_nth _ _ 0 H2) as [col [Hc Hn]]. assert (Hnth : nth_error (ebus r) col = Some b).
        { rewrite <- Hn. apply nth_error_nth'. exact Hc. }
        assert (Hcol : (col < arity k)%nat).
        { unfold arity_ok in Gar. rewrite forallb_ekinds in Gar. specialize (Gar k). rewrite Hk in Gar. simpl in Gar.
          rewrite forallb_forall in Gar. specialize (Gar r Hr0). apply Nat.leb_le in Gar. lia. }
        pose proof (Pel k col (tuples_complete k col Hk Hcol) r H1) as Hp. unfold at_buses in Hp. rewrite Hnth in Hp. apply zin_false, Hp.
      + destruct k; try discriminate Hk. unfold svc_free in Gsvc. rewrite forallb_forall in Gsvc. apply (proj1 (free_of_true buses r) (Gsvc r Hr0)), H2.
    - change (In s (sw n5)) in H1. specialize (Psw (or_intror (or_intror (or_intror (or_intror (or_intror (or_intror (or_intror (or_intror (or_intror (or_intror (or_intror (or_intror (or_introl eq_refl))))))))))))) s H1).
      unfold sw_hit in Psw. apply orb_false_iff in Psw. rewrite <- H2. apply zin_false, Psw.
    - change (In s (sw n5)) in H1. specialize (Psw (or_intror (or_intror (or_intror (or_intror (or_intror (or_intror (or_intror (or_intror (or_intror (or_intror (or_intror (or_intror (or_introl eq_refl))))))))))))) s H1).
      unfold sw_hit in Psw. apply orb_false_iff in Psw. destruct Psw as [_ Psw]. rewrite H2 in Psw. simpl in Psw. rewrite andb_true_r in Psw. rewrite <- H3. apply zin_false, Psw.
    - unfold n6, drop_meas_at in H1. simpl in H1. apply filter_In in H1. destruct H1 as [_ H1]. rewrite H2 in H1. simpl in H1. rewrite <- H3. apply zin_false, negb_true_iff, H1.
    - pose proof (S_meas _ _ S60 m H1) as Hm. unfold sides_free in Gside. rewrite forallb_forall in Gside. specialize (Gside m Hm). rewrite H2 in Gside.
      apply zin_false, negb_true_iff, Gside.
    - destruct (S_grp _ _ S61 g H1) as [g1 (H4 & H5 & H6)]. unfold n1 in H4. apply in_detach in H4. destruct H4 as (g0 & _ & H7 & _ & _ & H8).
      apply H8; [congruence | apply H6, H3].
    - change (In b (rbus n5)) in H. rewrite Rb5, Rb4 in H. unfold n3 in H. simpl in H. apply filter_In in H. apply zin_false, negb_true_iff, H. }
  change (bus_ids n6) with (map fst (bus n5)). rewrite B5, B4. unfold n3, n2. simpl. unfold bus_ids in Hin.
  apply in_map_iff in Hin. destruct Hin as [p [H1 H2]]. apply in_map_iff. exists p. split; [exact H1|]. apply filter_In. split; [exact H2|].
  apply negb_true_iff, zin_false. rewrite H1. exact Hfree.
Qed.

Lemma inv_step_drop_simple n k ids n' :
  (forall e, sw_target e <> TEl k) -> G22_noctrl n k ids = true -> Resolves n -> drop_simple_el n k ids = Ok n' -> Resolves n'.
Proof.
  intros Hs G R E. apply ResolvesP_all. apply ResolvesP_all in R. eapply drop_simple_el_P; eauto. apply G22_noctrl_prop, G.
Qed.

(* drop_elements(net, element_type, index): the dispatch *)
Lemma inv_step_drop_elements n t ids n' :
  G22 n (ODropElements t ids) = true -> Resolves n -> drop_elements n t ids = Ok n' -> Resolves n'.
Proof.
  intros G R E. destruct t as [| | | | |k].
  - cbn [G22] in G. cbn [drop_elements] in E. eapply inv_step_drop_buses; eauto.
  - eapply inv_step_drop_switch_rows; eauto.
  - eapply inv_step_drop_meas_rows; eauto.
  - discriminate E.
  - discriminate E.
  - apply Inv_Resolves. apply Inv_Resolves in R.
    destruct k; cbn [G22] in G; cbn [drop_elements] in E;
      try (apply Inv_Resolves; apply Inv_Resolves in R; eapply inv_step_drop_simple; eauto; intros e; destruct e; discriminate).
    + eapply inv_step_drop_lines; eauto.
    + eapply (inv_step_drop_trafos n false); eauto.
    + eapply (inv_step_drop_trafos n true); eauto.
Qed.
(* ------------------------------------------------------------------ select_subnet *)
Lemma in_select_bus (bs : list (Z * bool)) buses x :
  In x buses -> In x (map fst bs) -> In x (map fst (flat_map (fun i => filter (fun b => fst b =? i) bs) buses)).
Proof.
  intros Hx Hb. apply in_map_iff in Hb. destruct Hb as [p [H1 H2]]. apply in_map_iff. exists p. split; [exact H1|].
  apply in_flat_map. exists x. split; [exact Hx|]. apply filter_In. split; [exact H2 | apply Z.eqb_eq, H1].
Qed.
Lemma isnil_true {A} (l : list A) : isnil l = true -> l = [].
Proof. destruct l; [reflexivity | discriminate]. Qed.

Lemma inv_step_select_subnet n bs0 isb ires keep n' :
  G22_select n keep = true -> Inv n -> select_subnet n bs0 isb ires keep = Ok n' -> Inv n'.
Proof.
  intros G I. unfold select_subnet, select_subnet_gen.
  destruct (if isb then switch_buses n (sw n) bs0 else Ok []) as [add|]; cbn [bind]; [|discriminate].
  set (buses := zsort_uniq (bs0 ++ add)). destruct (allin buses (bus_ids n)) eqn:A; cbn [negb]; [|discriminate].
  rewrite allin_true in A. intros E. injection E as E.
  unfold G22_select in G. apply andb_true_iff in G. destruct G as [Gs Gk]. rewrite forallb_forall in Gs.
  assert (Hkeep : keep = true -> grp n = [] /\ ctrl n = [] /\ el n Svc = []).
  { intros K. rewrite K in Gk. simpl in Gk. rewrite !andb_true_iff in Gk. destruct Gk as [[G1 G2] G3].
    repeat split; apply isnil_true; assumption. }
  set (sel_el := fun k => if in_bus_tuples k then filter (fun r => allin (ebus r) buses) (el n k) else if keep then el n k else []) in *.
  assert (Hbus : forall x, In x buses -> In x (bus_ids n')).
  { intros x Hx. subst n'. apply in_select_bus; [exact Hx | apply A, Hx]. }
  assert (Hel : forall k, el n' k = sel_el k) by (intros k; subst n'; reflexivity).
  assert (Hsel : forall k r, In r (sel_el k) -> In r (el n k) /\ forall b, In b (ebus r) -> In b buses).
  { intros k r Hr. unfold sel_el in Hr. destruct (in_bus_tuples k) eqn:Hk.
    - apply filter_In in Hr. destruct Hr as [H1 H2]. rewrite allin_true in H2. auto.
    - destruct k; try discriminate Hk. destruct keep; [|destruct Hr]. destruct (Hkeep eq_refl) as (_ & _ & H3). rewrite H3 in Hr. destruct Hr. }
  destruct I as [Ie Is Im Ic Ig Ict Irb Ir]. constructor.
  - intros k r b Hr Hb. rewrite Hel in Hr. apply Hbus. apply (Hsel k r Hr), Hb.
  - intros s Hs. assert (Hs' : In s (filter (fun s => zin (sbus s) buses &&
                              match swt s with
                              | SB => zin (sel s) buses | SL => zin (sel s) (map eid (sel_el Line)) | ST => zin (sel s) (map eid (sel_el Trafo))
                              | ST3 => true && zin (sel s) (map eid (sel_el Trafo3w)) end) (sw n))) by (subst n'; exact Hs).
    apply filter_In in Hs'. destruct Hs' as [_ H]. apply andb_true_iff in H. destruct H as [H1 H2]. apply zin_true in H1.
    split; [apply Hbus, H1|]. destruct (swt s); cbn [sw_target keys]; unfold el_ids; rewrite ?Hel.
    + apply Hbus, zin_true, H2.
    + apply zin_true, H2.
    + apply zin_true, H2.
    + apply zin_true, H2.
  - intros m Hm. assert (Hm' : In m (filter (fun m => match mty m with
                             | TBus => zin (mel m) buses
                             | TEl Line => zin (mel m) (map eid (sel_el Line))
                             | TEl Trafo => zin (mel m) (map eid (sel_el Trafo))
                             | TEl Trafo3w => zin (mel m) (map eid (sel_el Trafo3w))
                             | _ => false end) (meas n))) by (subst n'; exact Hm).
    apply filter_In in Hm'. destruct Hm' as [Hm0 H].
    assert (Hside : forall k b, mty m = TEl k -> msd m = SideBus b -> In (mel m) (map eid (sel_el k)) -> In b (bus_ids n')).
    { intros k b Em Hb Hin. apply in_map_iff in Hin. destruct Hin as [r [H1 H2]]. destruct (Hsel k r H2) as [H3 H4]. apply Hbus, H4.
      specialize (Gs m Hm0). unfold side_at_element in Gs. rewrite Hb, Em in Gs. rewrite forallb_forall in Gs. specialize (Gs r H3).
      rewrite H1, Z.eqb_refl in Gs. simpl in Gs. apply zin_true, Gs. }
    destruct (mty m) as [| | | | |k] eqn:Em; try discriminate H.
    + split; [reflexivity|]. split; [apply Hbus, zin_true, H|]. intros b Hb. specialize (Gs m Hm0). unfold side_at_element in Gs.
      rewrite Hb, Em in Gs. apply Z.eqb_eq in Gs. subst b. apply Hbus, zin_true, H.
    + destruct k; try discriminate H; (split; [reflexivity|]); (split; [cbn [keys]; unfold el_ids; rewrite Hel; apply zin_true, H|]);
        intros b Hb; eapply Hside; eauto; apply zin_true, H.
  - intros c Hc. assert (Hc' : In c (filter (fun c => zin (cel c) (map eid (sel_el (cet c)))) (pcost n ++ wcost n))).
    { rewrite filter_app. subst n'. exact Hc. }
    apply filter_In in Hc'. unfold el_ids. rewrite Hel. apply zin_true, Hc'.
  - intros g Hg. assert (Hg' : In g (if keep then grp n else [])) by (subst n'; exact Hg).
    destruct keep; [|destruct Hg']. destruct (Hkeep eq_refl) as (H1 & _ & _). rewrite H1 in Hg'. destruct Hg'.
  - intros c x Hc. assert (Hc' : In c (if keep then ctrl n else [])) by (subst n'; exact Hc).
    destruct keep; [|destruct Hc']. destruct (Hkeep eq_refl) as (_ & H1 & _). rewrite H1 in Hc'. destruct Hc'.
  - intros x Hx.
    assert (Hx' : In x (if ires then match rbus n, bus n with
                                     | [], _ | _, [] => if keep then rbus n else []
                                     | _, _ => filter (fun i => zin i (rbus n)) buses end else [])) by (subst n'; exact Hx).
    destruct ires; [|destruct Hx'].
    assert (Hall : forall y, In y (if keep then rbus n else []) -> bus n = [] \/ rbus n = [] -> In y (bus_ids n')).
    { intros y Hy Hor. destruct keep; [|destruct Hy]. destruct Hor as [Hor|Hor].
      - apply Irb in Hy. unfold bus_ids in Hy. rewrite Hor in Hy. destruct Hy.
      - rewrite Hor in Hy. destruct Hy. }
    destruct (rbus n) as [|r0 rt] eqn:Er; [apply Hall; auto|]. destruct (bus n) as [|b0 bt] eqn:Eb; [apply Hall; auto|].
    apply filter_In in Hx'. apply Hbus, Hx'.
  - intros k x Hx.
    assert (Hx' : In x (if ires then match res n k, el n k with
                                     | [], _ => if keep then res n k else []
                                     | _, [] => if keep then res n k else []
                                     | _, _ => filter (fun i => zin i (res n k)) (map eid (sel_el k)) end else [])) by (subst n'; exact Hx).
    destruct ires; [|destruct Hx'].
    assert (Hall : forall y, In y (if keep then res n k else []) -> el n k = [] \/ res n k = [] -> In y (el_ids n' k)).
    { intros y Hy Hor. destruct keep; [|destruct Hy]. destruct Hor as [Hor|Hor].
      - apply Ir in Hy. unfold el_ids in Hy. rewrite Hor in Hy. destruct Hy.
      - rewrite Hor in Hy. destruct Hy. }
    destruct (res n k) as [|r0 rt] eqn:Er; [apply Hall; auto|]. destruct (el n k) as [|b0 bt] eqn:Eb; [apply Hall; auto|].
    apply filter_In in Hx'. unfold el_ids. rewrite Hel. apply Hx'.
Qed.
Lemma select_subnet_side_refuted :
  exists n bs n', inv n = true /\ select_subnet n bs false false false = Ok n' /\ inv_meas n' = false.
Proof.
  exists (set_meas (set_bus empty_net [(0, true); (1, true)]) [{| mid := 0; mmt := 0%nat; mty := TBus; mel := 0; msd := SideBus 1 |}]), [0].
  eexists. wit.
Qed.
(* ------------------------------------------------------------------ reindex_buses, create_continuous_bus_index *)
Lemma lk1_remap lk x v : lk1 lk x = Ok v -> v = remap lk x.
Proof. unfold lk1, remap. destruct (lookup lk x); intros E; inversion E; reflexivity. Qed.
Lemma get_indices_map lk : forall l r, get_indices l lk = Ok r -> r = map (remap lk) l.
Proof.
  induction l as [|x t IH]; intros r E; simpl in E; [inversion E; reflexivity|].
  destruct (lookup lk x) as [v|] eqn:L; [|discriminate]. destruct (get_indices t lk) as [r0|] eqn:G; cbn [bind] in E; [|discriminate].
  inversion E; subst. simpl. rewrite <- (IH r0 eq_refl). unfold remap. rewrite L. reflexivity.
Qed.
Lemma mapM_in {A B} (F : A -> result B) : forall l r, mapM F l = Ok r ->
  (forall b, In b r -> exists a, In a l /\ F a = Ok b) /\ (forall a, In a l -> exists b, In b r /\ F a = Ok b).
Proof.
  induction l as [|a t IH]; intros r E; simpl in E.
  - inversion E; subst. split; intros x [].
  - destruct (F a) as [b|] eqn:Fa; cbn [bind] in E; [|discriminate]. destruct (mapM F t) as [r0|] eqn:Ft; cbn [bind] in E; [|discriminate].
    inversion E; subst. destruct (IH r0 eq_refl) as [H1 H2]. split.
    + intros x [Hx|Hx]; [subst; exists a; split; [left; reflexivity | exact Fa]|]. destruct (H1 x Hx) as [a' [H3 H4]]. exists a'. split; [right|]; assumption.
    + intros x [Hx|Hx]; [subst; exists b; split; [left; reflexivity | exact Fa]|]. destruct (H2 x Hx) as [b' [H3 H4]]. exists b'. split; [right|]; assumption.
Qed.
Fixpoint pick (k : ekind) (ks : list ekind) (vs : list (list erow)) : list erow :=
  match ks, vs with
  | k' :: ks', v :: vs' => if ekind_beq k' k then v else pick k ks' vs'
  | _, _ => []
  end.
Lemma pick_spec (F : ekind -> result (list erow)) k : forall ks vs, mapM F ks = Ok vs -> In k ks -> F k = Ok (pick k ks vs).
Proof.
  induction ks as [|k' ks IH]; intros vs E Hk; [destruct Hk|]. simpl in E.
  destruct (F k') as [v|] eqn:Fk; cbn [bind] in E; [|discriminate]. destruct (mapM F ks) as [vs0|] eqn:Ft; cbn [bind] in E; [|discriminate].
  inversion E; subst. simpl. destruct (ekind_beq k' k) eqn:Ek.
  - apply ekind_beq_eq in Ek. subst. exact Fk.
  - apply IH; [reflexivity|]. destruct Hk as [Hk|Hk]; [|exact Hk]. subst. rewrite ekind_beq_refl in Ek. discriminate.
Qed.

Lemma inv_step_reindex_buses n lk0 n' :
  G22_reindex_buses n lk0 = true -> Inv n -> reindex_buses n lk0 = Ok n' -> Inv n'.
Proof.
  intros G I. unfold reindex_buses. fold (bus_lookup n lk0). cbv zeta. set (lk := bus_lookup n lk0) in *. set (f := remap lk).
  destruct (mapM _ (bus n)) as [nb|] eqn:Enb; cbn [bind]; [|discriminate].
  destruct (get_indices (rbus n) lk) as [nr|] eqn:Enr; cbn [bind]; [|discriminate].
  destruct (mapM _ ekinds) as [els|] eqn:Eels; cbn [bind]; [|discriminate].
  destruct (mapM _ (sw n)) as [sws1|] eqn:Esw1; cbn [bind]; [|discriminate].
  destruct (mapM _ (grp n)) as [gs|] eqn:Egs; cbn [bind]; [|discriminate].
  destruct (mapM _ (meas n)) as [ms|] eqn:Ems; cbn [bind]; [|discriminate].
  destruct (mapM _ sws1) as [sws2|] eqn:Esw2; cbn [bind]; [|discriminate].
  intros E. injection E as E.
  change ((fix go (ks : list ekind) (vs : list (list erow)) {struct ks} : list erow :=
             match ks with
             | [] => []
             | k' :: ks' => match vs with [] => [] | v :: vs' => if ekind_beq k' ?k then v else go ks' vs' end
             end)) with (fun k => pick k) in E || idtac.
  apply mapM_in in Enb. destruct Enb as [Nb1 Nb2]. apply get_indices_map in Enr.
  apply mapM_in in Esw1. destruct Esw1 as [S1a S1b]. apply mapM_in in Esw2. destruct Esw2 as [S2a S2b].
  apply mapM_in in Egs. destruct Egs as [Ga _]. apply mapM_in in Ems. destruct Ems as [Ma _].
  assert (Hel : forall k, (if in_bus_tuples k
                           then mapM (fun r => do bs <- get_indices (ebus r) lk; Ok {| eid := eid r; ebus := bs; eis := eis r |}) (el n k)
                           else Ok (el n k)) = Ok (el n' k)).
  { intros k. subst n'. apply (pick_spec _ k ekinds els Eels), in_ekinds. }
  assert (Hbus' : bus n' = nb) by (subst n'; reflexivity).
  assert (Hsw' : sw n' = sws2) by (subst n'; reflexivity).
  assert (Hms' : meas n' = ms) by (subst n'; reflexivity).
  assert (Hgs' : grp n' = gs) by (subst n'; reflexivity).
  assert (Hrb' : rbus n' = nr) by (subst n'; reflexivity).
  assert (Hpc' : pcost n' = pcost n) by (subst n'; reflexivity). assert (Hwc' : wcost n' = wcost n) by (subst n'; reflexivity).
  assert (Hct' : ctrl n' = ctrl n) by (subst n'; reflexivity). assert (Hres' : res n' = res n) by (subst n'; reflexivity).
  clear E Eels.
  (* keys *)
  assert (Kbus : forall x, In x (bus_ids n) -> In (f x) (bus_ids n')).
  { intros x Hx. unfold bus_ids in *. rewrite Hbus'. apply in_map_iff in Hx. destruct Hx as [p [H1 H2]]. destruct (Nb2 p H2) as [q [H3 H4]].
    destruct (lk1 lk (fst p)) eqn:L; cbn [bind] in H4; [|discriminate]. inversion H4; subst q. apply lk1_remap in L.
    apply in_map_iff. exists (a, snd p). split; [simpl; subst; reflexivity | exact H3]. }
  assert (Kel : forall k x, In x (el_ids n k) -> In x (el_ids n' k)).
  { intros k x Hx. unfold el_ids in *. specialize (Hel k). destruct (in_bus_tuples k); [|injection Hel as E'; rewrite <- E'; exact Hx].
    apply mapM_in in Hel. destruct Hel as [_ H2]. apply in_map_iff in Hx. destruct Hx as [r [H3 H4]]. destruct (H2 r H4) as [r' [H5 H6]].
    destruct (get_indices (ebus r) lk); cbn [bind] in H6; [|discriminate]. inversion H6; subst r'. apply in_map_iff. eexists. split; [|exact H5]. exact H3. }
  assert (Ksw : forall x, In x (map sid (sw n)) -> In x (map sid (sw n'))).
  { intros x Hx. rewrite Hsw'. apply in_map_iff in Hx. destruct Hx as [s [H1 H2]]. destruct (S1b s H2) as [s1 [H3 H4]].
    destruct (lk1 lk (sbus s)); cbn [bind] in H4; [|discriminate]. inversion H4; subst s1. destruct (S2b _ H3) as [s2 [H5 H6]].
    apply in_map_iff. exists s2. split; [|exact H5]. cbn [swt sel sbus sid sclosed] in H6.
    destruct (swet_eqb (swt s) SB); [destruct (lk1 lk (sel s)); cbn [bind] in H6; [|discriminate]|]; inversion H6; subst s2; exact H1. }
  destruct I as [Ie Is Im Ic Ig Ict Irb Ir]. constructor.
  - intros k r' b' Hr' Hb'. specialize (Hel k). destruct (in_bus_tuples k) eqn:Hk.
    + apply mapM_in in Hel. destruct Hel as [H1 _]. destruct (H1 r' Hr') as [r [H2 H3]].
      destruct (get_indices (ebus r) lk) as [bs|] eqn:Gi; cbn [bind] in H3; [|discriminate]. injection H3 as H3. subst r'. cbn [ebus] in Hb'.
      apply get_indices_map in Gi. subst bs. apply in_map_iff in Hb'. destruct Hb' as [b [H4 H5]]. subst b'. apply Kbus. eapply Ie; eauto.
    + injection Hel as E'. rewrite <- E' in Hr'. destruct k; try discriminate Hk. unfold G22_reindex_buses in G. rewrite forallb_forall in G.
      specialize (G r' Hr'). rewrite forallb_forall in G. specialize (G b' Hb'). apply Z.eqb_eq in G. rewrite <- G. apply Kbus. eapply Ie; eauto.
  - intros s2 Hs2. rewrite Hsw' in Hs2. destruct (S2a s2 Hs2) as [s1 [H1 H2]]. destruct (S1a s1 H1) as [s [H3 H4]].
    destruct (lk1 lk (sbus s)) as [b|] eqn:L1; cbn [bind] in H4; [|discriminate]. injection H4 as H4. subst s1. cbn [swt sel sbus] in H2.
    apply lk1_remap in L1. destruct (Is s H3) as [Hb Hk]. destruct (swt s) eqn:Es; cbn [swet_eqb] in H2; cbn [sw_target keys] in Hk.
    + destruct (lk1 lk (sel s)) as [e|] eqn:L2; cbn [bind] in H2; [|discriminate]. injection H2 as H2. subst s2. cbn [sbus swt sel sw_target keys].
      apply lk1_remap in L2. subst. split; apply Kbus; assumption.
    + injection H2 as H2. subst s2. cbn [sbus swt sel sw_target keys]. subst b. split; [apply Kbus, Hb | apply Kel, Hk].
    + injection H2 as H2. subst s2. cbn [sbus swt sel sw_target keys]. subst b. split; [apply Kbus, Hb | apply Kel, Hk].
    + injection H2 as H2. subst s2. cbn [sbus swt sel sw_target keys]. subst b. split; [apply Kbus, Hb | apply Kel, Hk].
  - intros m' Hm'. rewrite Hms' in Hm'. destruct (Ma m' Hm') as [m [H1 H2]]. destruct (Im m H1) as (T1 & T2 & T3).
    assert (Hside : forall s', (match msd m with SideBus b => do b' <- lk1 lk b; Ok (SideBus b') | s => Ok s end) = Ok s' ->
                     forall b', s' = SideBus b' -> In b' (bus_ids n')).
    { intros s' Hs b' Eb. destruct (msd m) as [| c | b] eqn:Es.
      - injection Hs as Hs. subst s'. discriminate.
      - injection Hs as Hs. subst s'. discriminate.
      - destruct (lk1 lk b) as [v|] eqn:L; cbn [bind] in Hs; [|discriminate]. injection Hs as Hs. subst s'. injection Eb as Eb. subst b'.
        apply lk1_remap in L. subst v. apply Kbus, (T3 b eq_refl). }
    destruct (if tname_eqb (mty m) TBus then lk1 lk (mel m) else Ok (mel m)) as [e|] eqn:Eme; cbn [bind] in H2; [|discriminate].
    match type of H2 with context [bind ?x _] => destruct x as [s'|] eqn:Esd end; cbn [bind] in H2; [|discriminate].
    injection H2 as H2. subst m'. cbn [mty mel msd]. split; [exact T1|]. split; [|intros b' Hb'; eapply Hside; eauto].
    destruct (mty m) eqn:Em; simpl in T1; try discriminate T1; cbn [tname_eqb] in Eme; cbn [keys] in *.
    + apply lk1_remap in Eme. subst e. apply Kbus, T2.
    + injection Eme as Eme. subst e. apply Kel, T2.
  - intros c Hc. rewrite Hpc', Hwc' in Hc. apply Kel, Ic, Hc.
  - intros g' Hg'. rewrite Hgs' in Hg'. destruct (Ga g' Hg') as [g [H1 H2]]. destruct (Ig g H1) as [T1 T2]. destruct (tname_eqb (gty g) TBus) eqn:Et.
    + apply tname_eqb_eq in Et. destruct (get_indices (gmem g) lk) as [mm|] eqn:Gi; cbn [bind] in H2; [|discriminate]. injection H2 as H2. subst g'.
      cbn [gty gmem]. split; [exact T1|]. apply get_indices_map in Gi. subst mm. intros x Hx. apply in_map_iff in Hx. destruct Hx as [y [H3 H4]]. subst x.
      specialize (T2 y H4). rewrite Et in *. cbn [keys] in *. apply Kbus, T2.
    + injection H2 as H2. subst g'. split; [exact T1|]. intros x Hx. specialize (T2 x Hx).
      destruct (gty g) eqn:Eg; simpl in T1; try discriminate T1; cbn [keys] in *; [simpl in Et; discriminate | apply Ksw, T2 | apply Kel, T2].
  - intros c x Hc Hx. rewrite Hct' in Hc. apply Kel. eapply Ict; eauto.
  - intros x Hx. rewrite Hrb', Enr in Hx. apply in_map_iff in Hx. destruct Hx as [y [H1 H2]]. subst x. apply Kbus, Irb, H2.
  - intros k x Hx. rewrite Hres' in Hx. apply Kel, Ir, Hx.
Qed.

Lemma inv_step_cont_bus_index n start n' :
  G22_cont_bus n start = true -> Inv n -> cont_bus_index n start = Ok n' -> Inv n'.
Proof.
  intros G I. unfold cont_bus_index. apply inv_step_reindex_buses; [exact G|].
  set (sorted := flat_map (fun i => filter (fun b => fst b =? i) (bus n)) (zsort_uniq (bus_ids n))).
  assert (K : keys_le n (set_bus n sorted)).
  { intros t x. destruct t; simpl; try tauto. intros Hx. unfold bus_ids. simpl. apply in_select_bus; [apply in_zsort_uniq, Hx | exact Hx]. }
  revert I. apply (inv_keys_le _ _ K); simpl; try reflexivity; try (intros; left; assumption).
Qed.
Lemma reindex_buses_guard_nonvacuous :
  exists n lk n', G22_reindex_buses n lk = true /\ inv n = true /\ reindex_buses n lk = Ok n' /\ bus_ids n' = [5; 1] /\ el_ids n Svc = [0].
Proof.
  exists (set_elk (set_elk w_bus2 Load [{| eid := 0; ebus := [0]; eis := true |}]) Svc [{| eid := 0; ebus := [1]; eis := true |}]), [(0, 5)].
  eexists. split; [vm_compute; reflexivity|]. split; [vm_compute; reflexivity|]. split; [vm_compute; reflexivity|].
  vm_compute. repeat split.
Qed.
(* ------------------------------------------------------------------ fuse_buses *)
Lemma fuse_unfold n b1 b2in drop fm :
  fuse_buses n b1 b2in drop fm =
  (let b2 := filter (fun x => negb (x =? b1)) (zsort_uniq b2in) in
   let nd := fuse_reroute n b1 b2 fm in
   if drop then
     do n <- drop_buses_gen true nd b2 false;
     do n <- drop_inner_branches_gen true n b1;
     Ok (if fm then set_meas n (dedup_meas [] (meas n) b1) else n)
   else Ok nd).
Proof. reflexivity. Qed.
Lemma reroute_notin b2 b1 x : ~ In b1 b2 -> ~ In (reroute b2 b1 x) b2.
Proof. intros H. unfold reroute. destruct (zin x b2) eqn:Z; [exact H | apply zin_false, Z]. Qed.
Lemma reroute_in (ids : list Z) b2 b1 x : In b1 ids -> In x ids -> In (reroute b2 b1 x) ids.
Proof. intros H1 H2. unfold reroute. destruct (zin x b2); assumption. Qed.

Lemma fuse_reroute_inv n b1 b2 fm :
  Inv n -> In b1 (bus_ids n) -> ~ In b1 b2 ->
  Inv (fuse_reroute n b1 b2 fm) /\ sub (fuse_reroute n b1 b2 fm) (fuse_reroute n b1 b2 fm) /\
  bus (fuse_reroute n b1 b2 fm) = bus n /\ grp (fuse_reroute n b1 b2 fm) = grp n /\ rbus (fuse_reroute n b1 b2 fm) = rbus n /\
  el (fuse_reroute n b1 b2 fm) Svc = el n Svc /\
  (forall k r b, in_bus_tuples k = true -> In r (el (fuse_reroute n b1 b2 fm) k) -> In b (ebus r) -> ~ In b b2) /\
  (forall s, In s (sw (fuse_reroute n b1 b2 fm)) -> ~ In (sbus s) b2 /\ (swt s = SB -> ~ In (sel s) b2)) /\
  (forall m, In m (meas (fuse_reroute n b1 b2 fm)) ->
     if fm then (mty m = TBus -> ~ In (mel m) b2) /\ (forall b, msd m = SideBus b -> ~ In b b2) else In m (meas n)).
Proof.
  intros I Hb1 Hn. set (nd := fuse_reroute n b1 b2 fm).
  set (R := fun r => {| eid := eid r; ebus := map (reroute b2 b1) (ebus r); eis := eis r |}).
  set (S := fun s => {| sid := sid s; sbus := reroute b2 b1 (sbus s); swt := swt s; sel := if swet_eqb (swt s) SB then reroute b2 b1 (sel s) else sel s; sclosed := sclosed s |}).
  set (M1 := fun m => if tname_eqb (mty m) TBus then {| mid := mid m; mmt := mmt m; mty := mty m; mel := reroute b2 b1 (mel m); msd := msd m |} else m).
  set (M2 := fun m => match msd m with
                      | SideBus b => {| mid := mid m; mmt := mmt m; mty := mty m; mel := mel m; msd := SideBus (reroute b2 b1 b) |}
                      | _ => m end).
  assert (Hel : forall k, el nd k = if in_bus_tuples k then map R (el n k) else el n k) by (intros k; unfold nd, fuse_reroute; destruct fm; reflexivity).
  assert (Hsw : sw nd = map S (sw n)) by (unfold nd, fuse_reroute; destruct fm; reflexivity).
  assert (Hms : meas nd = if fm then map M2 (map M1 (meas n)) else meas n) by (unfold nd, fuse_reroute; destruct fm; reflexivity).
  assert (Hbus : bus nd = bus n) by (unfold nd, fuse_reroute; destruct fm; reflexivity).
  assert (Hgrp : grp nd = grp n) by (unfold nd, fuse_reroute; destruct fm; reflexivity).
  assert (Hrb : rbus nd = rbus n) by (unfold nd, fuse_reroute; destruct fm; reflexivity).
  assert (Hpc : pcost nd = pcost n) by (unfold nd, fuse_reroute; destruct fm; reflexivity).
  assert (Hwc : wcost nd = wcost n) by (unfold nd, fuse_reroute; destruct fm; reflexivity).
  assert (Hct : ctrl nd = ctrl n) by (unfold nd, fuse_reroute; destruct fm; reflexivity).
  assert (Hres : res nd = res n) by (unfold nd, fuse_reroute; destruct fm; reflexivity).
  clearbody nd.
  assert (Kbus : bus_ids nd = bus_ids n) by (unfold bus_ids; rewrite Hbus; reflexivity).
  assert (Kel : forall k, el_ids nd k = el_ids n k).
  { intros k. unfold el_ids. rewrite Hel. destruct (in_bus_tuples k); [|reflexivity]. rewrite map_map. reflexivity. }
  assert (Ksw : map sid (sw nd) = map sid (sw n)) by (rewrite Hsw, map_map; reflexivity).
  assert (HM : forall m', In m' (meas nd) -> exists m, In m (meas n) /\
             if fm then m' = M2 (M1 m) else m' = m).
  { intros m' Hm'. rewrite Hms in Hm'. destruct fm; [|exists m'; auto]. apply in_map_iff in Hm'. destruct Hm' as [m1 [H1 H2]].
    apply in_map_iff in H2. destruct H2 as [m [H2 H3]]. exists m. subst. auto. }
  assert (HM1 : forall m, mty (M2 (M1 m)) = mty m /\ mel (M2 (M1 m)) = (if tname_eqb (mty m) TBus then reroute b2 b1 (mel m) else mel m) /\
                 msd (M2 (M1 m)) = match msd m with SideBus b => SideBus (reroute b2 b1 b) | s => s end).
  { intros m. unfold M2, M1. destruct (tname_eqb (mty m) TBus); cbn [msd mty mel]; destruct (msd m) eqn:Es; cbn [msd mty mel]; rewrite ?Es; auto. }
  destruct I as [Ie Is Im Ic Ig Ict Irb Ir].
  split; [|split; [apply sub_refl | repeat split; auto]].
  - constructor.
    + intros k r' b' Hr' Hb'. rewrite Kbus. rewrite Hel in Hr'. destruct (in_bus_tuples k).
      * apply in_map_iff in Hr'. destruct Hr' as [r [H1 H2]]. subst r'. simpl in Hb'. apply in_map_iff in Hb'. destruct Hb' as [b [H3 H4]]. subst b'.
        apply reroute_in; [exact Hb1 | eapply Ie; eauto].
      * eapply Ie; eauto.
    + intros s' Hs'. rewrite Hsw in Hs'. apply in_map_iff in Hs'. destruct Hs' as [s [H1 H2]]. subst s'. destruct (Is s H2) as [H3 H4].
      cbn [S sbus swt sel]. rewrite Kbus. split; [apply reroute_in; assumption|].
      destruct (swt s); cbn [swet_eqb sw_target keys] in *; rewrite ?Kbus, ?Kel; [apply reroute_in; assumption | exact H4 | exact H4 | exact H4].
    + intros m' Hm'. destruct (HM m' Hm') as [m [H1 H2]]. destruct (Im m H1) as (T1 & T2 & T3). destruct fm; [|subst m'].
      * subst m'. destruct (HM1 m) as (E1 & E2 & E3). rewrite E1, E2, E3. split; [exact T1|]. split.
        -- destruct (mty m); simpl in T1; try discriminate T1; cbn [tname_eqb keys] in *; rewrite ?Kbus, ?Kel; [apply reroute_in; assumption | exact T2].
        -- intros b Hb. rewrite Kbus. destruct (msd m) eqn:Es; try discriminate Hb. injection Hb as Hb. subst b. apply reroute_in; [exact Hb1 | apply T3; reflexivity].
      * split; [exact T1|]. split; [|intros b Hb; rewrite Kbus; apply T3, Hb].
        destruct (mty m); simpl in T1; try discriminate T1; cbn [keys] in *; rewrite ?Kbus, ?Kel; exact T2.
    + intros c Hc. rewrite Hpc, Hwc in Hc. rewrite Kel. apply Ic, Hc.
    + intros g Hg. rewrite Hgrp in Hg. destruct (Ig g Hg) as [T1 T2]. split; [exact T1|]. intros x Hx. specialize (T2 x Hx).
      destruct (gty g); simpl in T1; try discriminate T1; cbn [keys] in *; rewrite ?Kbus, ?Kel, ?Ksw; exact T2.
    + intros c x Hc Hx. rewrite Hct in Hc. rewrite Kel. eapply Ict; eauto.
    + intros x Hx. rewrite Hrb in Hx. rewrite Kbus. apply Irb, Hx.
    + intros k x Hx. rewrite Hres in Hx. rewrite Kel. apply Ir, Hx.
  - rewrite Hel. reflexivity.
  - intros k r' b' Hk Hr' Hb'. rewrite Hel, Hk in Hr'. apply in_map_iff in Hr'. destruct Hr' as [r [H1 H2]]. subst r'. simpl in Hb'.
    apply in_map_iff in Hb'. destruct Hb' as [b [H3 H4]]. subst b'. apply reroute_notin, Hn.
  - rewrite Hsw in H. apply in_map_iff in H. destruct H as [s0 [H1 H2]]. subst s. cbn [S sbus]. apply reroute_notin, Hn.
  - rewrite Hsw in H. apply in_map_iff in H. destruct H as [s0 [H1 H2]]. subst s. cbn [S sel swt] in *. intros E. rewrite E. cbn [swet_eqb].
    apply reroute_notin, Hn.
  - intros m' Hm'. destruct (HM m' Hm') as [m [H1 H2]]. destruct fm; [|subst; exact H1]. subst m'. destruct (HM1 m) as (E1 & E2 & E3).
    rewrite E1, E2, E3. split.
    + intros Et. rewrite Et. cbn [tname_eqb]. apply reroute_notin, Hn.
    + intros b Hb. destruct (msd m); try discriminate Hb. injection Hb as Hb. subst b. apply reroute_notin, Hn.
Qed.

Record GatI (n : net) (b1 : Z) : Prop := {
  GI_ctrl : forall c x r, In c (ctrl n) -> In x (ctidx c) -> In r (el n (ctty c)) -> eid r = x -> all_at b1 r = false;
  GI_cost : forall c r, In c (pcost n ++ wcost n) -> is_swk (cet c) = true -> In r (el n (cet c)) -> eid r = cel c -> all_at b1 r = false }.
Lemma gat_inner_true n b1 : gat_inner n b1 = true -> GatI n b1.
Proof.
  unfold gat_inner. rewrite andb_true_iff, !forallb_forall. intros [H1 H2]. constructor.
  - intros c x r Hc Hx Hr E. specialize (H1 c Hc). rewrite forallb_forall in H1. specialize (H1 r Hr).
    apply orb_true_iff in H1. destruct H1 as [H1|H1]; [|apply negb_true_iff, H1].
    apply negb_true_iff, zin_false in H1. subst x. contradiction.
  - intros c r Hc Hk Hr E. specialize (H2 c Hc). rewrite Hk in H2. simpl in H2. rewrite forallb_forall in H2. specialize (H2 r Hr).
    apply orb_true_iff in H2. destruct H2 as [H2|H2]; [|apply negb_true_iff, H2].
    apply negb_true_iff, Z.eqb_neq in H2. contradiction.
Qed.
Lemma GatI_sub n' n b1 : sub n' n -> GatI n b1 -> GatI n' b1.
Proof.
  intros S [G1 G2]. constructor.
  - intros c x r Hc Hx Hr E. destruct (S_ctrl _ _ S c Hc) as [c0 (H1 & H2 & H3)]. rewrite H2 in Hr.
    apply (G1 c0 x r H1 (H3 x Hx) (S_el _ _ S _ _ Hr) E).
  - intros c r Hc Hk Hr E. apply (G2 c r); auto; [|apply (S_el _ _ S), Hr].
    apply in_app_iff in Hc. apply in_app_iff. destruct Hc; [left; apply (S_pc _ _ S) | right; apply (S_wc _ _ S)]; assumption.
Qed.
Lemma inner_ids n k b1 x : In x (map eid (filter (all_at b1) (el n k))) -> exists r, In r (el n k) /\ eid r = x /\ all_at b1 r = true.
Proof. intros H. apply in_map_iff in H. destruct H as [r [H1 H2]]. apply filter_In in H2. exists r. tauto. Qed.
Lemma GatI_noctrl n k b1 : GatI n b1 -> noctrl n k (map eid (filter (all_at b1) (el n k))).
Proof.
  intros [G1 _] c x Hc Hk Hx Hin. apply inner_ids in Hin. destruct Hin as [r (H1 & H2 & H3)]. subst k.
  rewrite (G1 c x r Hc Hx H1 H2) in H3. discriminate.
Qed.
Lemma GatI_nocost n k b1 : is_swk k = true -> GatI n b1 -> nocost n k (map eid (filter (all_at b1) (el n k))).
Proof.
  intros Hk [_ G2] c Hc Hk' Hin. apply inner_ids in Hin. destruct Hin as [r (H1 & H2 & H3)]. subst k.
  rewrite (G2 c r Hc Hk H1 H2) in H3. discriminate.
Qed.

Definition okstep (P : tname -> Prop) (n n' : net) : Prop := ResolvesP P n' /\ sub n' n /\ bus n' = bus n.
Lemma okstep_refl P n : ResolvesP P n -> okstep P n n.
Proof. intros R. split; [exact R|]. split; [apply sub_refl | reflexivity]. Qed.
Lemma okstep_trans P a b c : okstep P a b -> okstep P b c -> okstep P a c.
Proof. intros (_ & S1 & B1) (R & S2 & B2). split; [exact R|]. split; [eapply sub_trans; eauto | congruence]. Qed.

Lemma inner_step_branch P n k e b1 n' :
  sw_target e = TEl k -> (forall e', sw_target e' = TEl k -> e' = e) -> is_swk k = true ->
  GatI n b1 -> ResolvesP P n -> drop_branch_sw n k e (map eid (filter (all_at b1) (el n k))) = Ok n' -> okstep P n n'.
Proof.
  intros He Hinj Hk G R E.
  destruct (drop_branch_P P n k e _ n' He Hinj (GatI_nocost n k b1 Hk G) (GatI_noctrl n k b1 G) R E) as (H1 & H2 & H3 & _).
  split; [exact H1 | split; assumption].
Qed.
Lemma inner_step_simple P n k b1 n' :
  (forall e, sw_target e <> TEl k) -> GatI n b1 -> ResolvesP P n ->
  (match map eid (filter (all_at b1) (el n k)) with [] => Ok n | _ => drop_simple_el n k (map eid (filter (all_at b1) (el n k))) end) = Ok n' ->
  okstep P n n'.
Proof.
  intros Hs G R. set (ids := map eid (filter (all_at b1) (el n k))). destruct ids as [|i0 it] eqn:EI.
  { intros E. injection E as E. subst n'. apply okstep_refl, R. }
  rewrite <- EI. clear EI i0 it. intros E. pose proof (drop_simple_el_P P n k ids n' Hs (GatI_noctrl n k b1 G) R E) as R'.
  unfold drop_simple_el, drop_simple_el_gen, drop_rows_el in E.
  match type of E with context [allin ids ?l] => destruct (allin ids l) end; cbn [bind] in E; [|discriminate].
  injection E as E. destruct (cascaded_simple n k ids n' Hs) as (C & _); [subst n'; reflexivity|].
  split; [exact R' | split; apply C].
Qed.
Lemma switch_drop_P P (hit : swrow -> bool) n :
  ResolvesP P n ->
  okstep P n (set_sw (detach n TSwitch (map sid (filter hit (sw n)))) (filter (fun s => negb (hit s)) (sw n))).
Proof.
  intros R. set (ids := map sid (filter hit (sw n))). split; [|split; [sub_chain | reflexivity]].
  apply (resolves_drop_keys' P n _ (fun _ => False) (fun x => In x ids) (fun _ _ => False)); auto.
  - sub_chain.
  - intros x _ Hx Hn. simpl. apply in_map_iff in Hx. destruct Hx as [s [H1 H2]]. apply in_map_iff. exists s. split; [exact H1|].
    apply filter_In. split; [exact H2|]. destruct (hit s) eqn:A; [|reflexivity]. exfalso. apply Hn. unfold ids. rewrite <- H1.
    apply in_map, filter_In. tauto.
  - intros x _ Rf. apply refs_sw_inv in Rf.
    + destruct Rf as [g (H1 & H2 & H3)]. change (In g (grp (detach n TSwitch ids))) in H1. apply in_detach in H1.
      destruct H1 as (g0 & _ & H4 & _ & _ & H5). apply H5; [congruence | exact H3].
    + eapply sub_types; [|apply R]. sub_chain.
Qed.

Lemma inner_branches_ok P n b1 n' :
  GatI n b1 -> ResolvesP P n -> drop_inner_branches_gen true n b1 = Ok n' -> okstep P n n'.
Proof.
  intros G R. unfold drop_inner_branches_gen.
  destruct (drop_lines n (map eid (filter (all_at b1) (el n Line)))) as [n1|] eqn:E1; cbn [bind]; [|discriminate].
  assert (O1 : okstep P n n1).
  { apply (inner_step_branch P n Line SL b1 n1); auto. intros e'; destruct e'; simpl; congruence. }
  destruct O1 as (R1 & S1 & B1). pose proof (GatI_sub _ _ _ S1 G) as G1.
  match goal with |- context [bind ?x _] => destruct x as [n2|] eqn:E2 end; cbn [bind]; [|discriminate].
  assert (O2 : okstep P n1 n2).
  { apply (inner_step_simple P n1 Impedance b1 n2); auto. intros e; destruct e; discriminate. }
  destruct O2 as (R2 & S2 & B2). pose proof (GatI_sub _ _ _ S2 G1) as G2.
  set (isw := fun s => (sbus s =? b1) && (sel s =? b1) && swet_eqb (swt s) SB).
  destruct (switch_drop_P P isw n2 R2) as (R3 & S3 & B3).
  set (n3 := set_sw (detach n2 TSwitch (map sid (filter isw (sw n2)))) (filter (fun s => negb (isw s)) (sw n2))) in *.
  pose proof (GatI_sub _ _ _ S3 G2) as G3.
  change (match drop_trafos n3 false (map eid (filter (all_at b1) (el n3 Trafo))) with
          | Ok n4 => (do n5 <- drop_trafos n4 true (map eid (filter (all_at b1) (el n4 Trafo3w)));
                      match map eid (filter (all_at b1) (el n5 Dcline)) with
                      | [] => Ok n5
                      | _ => drop_simple_el n5 Dcline (map eid (filter (all_at b1) (el n5 Dcline))) end)
          | Err s => Err s end = Ok n' -> okstep P n n').
  destruct (drop_trafos n3 false (map eid (filter (all_at b1) (el n3 Trafo)))) as [n4|] eqn:E4; [|discriminate].
  assert (O4 : okstep P n3 n4).
  { apply (inner_step_branch P n3 Trafo ST b1 n4); auto. intros e'; destruct e'; simpl; congruence. }
  destruct O4 as (R4 & S4 & B4). pose proof (GatI_sub _ _ _ S4 G3) as G4.
  destruct (drop_trafos n4 true (map eid (filter (all_at b1) (el n4 Trafo3w)))) as [n5|] eqn:E5; cbn [bind]; [|discriminate].
  assert (O5 : okstep P n4 n5).
  { apply (inner_step_branch P n4 Trafo3w ST3 b1 n5); auto. intros e'; destruct e'; simpl; congruence. }
  destruct O5 as (R5 & S5 & B5). pose proof (GatI_sub _ _ _ S5 G4) as G5.
  intros E6. assert (O6 : okstep P n5 n').
  { apply (inner_step_simple P n5 Dcline b1 n'); auto. intros e; destruct e; discriminate. }
  destruct O6 as (R6 & S6 & B6). split; [exact R6|]. split; [|congruence].
  repeat (eapply sub_trans; [eassumption|]). apply sub_refl.
Qed.

Lemma in_dedup_meas b1 : forall l seen m, In m (dedup_meas seen l b1) -> In m l.
Proof.
  induction l as [|x t IH]; intros seen m H; [destruct H|]. simpl in H.
  destruct (tname_eqb (mty x) TBus && (mel x =? b1)).
  - destruct (existsb _ seen); [right; eapply IH; eauto|]. destruct H as [H|H]; [left; exact H | right; eapply IH; eauto].
  - destruct H as [H|H]; [left; exact H | right; eapply IH; eauto].
Qed.

Lemma inv_step_fuse_buses n b1 b2in drop fm n' :
  G22_fuse n b1 b2in drop fm = true -> Resolves n -> fuse_buses n b1 b2in drop fm = Ok n' -> Resolves n'.
Proof.
  intros G R. rewrite fuse_unfold. cbv zeta. unfold G22_fuse in G.
  set (b2 := filter (fun x => negb (x =? b1)) (zsort_uniq b2in)) in *.
  apply andb_true_iff in G. destruct G as [Gb1 G]. apply zin_true in Gb1.
  assert (Hn : ~ In b1 b2).
  { unfold b2. intros H. apply filter_In in H. destruct H as [_ H]. rewrite Z.eqb_refl in H. discriminate. }
  apply Inv_Resolves in R.
  destruct (fuse_reroute_inv n b1 b2 fm R Gb1 Hn) as (Id & _ & Bd & Gd & Rd & Sd & Fel & Fsw & Fms).
  set (nd := fuse_reroute n b1 b2 fm) in *.
  destruct drop; [|intros E; injection E as E; subst n'; apply Inv_Resolves, Id].
  simpl in G. rewrite !andb_true_iff in G. destruct G as [[Gsvc Gm] Gi]. apply gat_inner_true in Gi.
  clearbody nd. clearbody b2.
  destruct (drop_buses_gen true nd b2 false) as [ne|] eqn:Ee; cbn [bind]; [|discriminate].
  (* the fused buses are referenced by nothing after the rerouting: dropping them keeps the invariant *)
  assert (Oe : ResolvesP (fun _ => True) ne /\ sub ne nd).
  { unfold drop_buses_gen in Ee. destruct b2 as [|b0 bt] eqn:EB.
    { injection Ee as Ee. subst ne. split; [apply ResolvesP_all, Inv_Resolves, Id | apply sub_refl]. }
    rewrite <- EB in *. clear EB b0 bt.
    destruct (allin b2 (bus_ids (detach nd TBus b2))) eqn:A; cbn [negb] in Ee; [|discriminate]. injection Ee as Ee.
    assert (Se : sub ne nd) by (subst ne; sub_chain).
    assert (Se1 : sub ne (detach nd TBus b2)) by (subst ne; sub_chain).
    split; [|exact Se].
    apply ResolvesP_all. apply resolves_from_NB.
    - apply (resolves_drop_keys' NB nd ne (fun _ => True) (fun _ => False) (fun _ _ => False)); auto.
      all: try (intros ? HH; exfalso; apply HH; reflexivity).
      + apply Inv_Resolves in Id. destruct Id as [T Rs]. split; [exact T|]. intros; apply Rs; auto.
      + intros x _ Hx _. subst ne. exact Hx.
      + intros k x _ Hx _. subst ne. exact Hx.
    - intros b Rf.
      assert (Hin : In b (bus_ids nd)).
      { apply Inv_Resolves in Id. destruct Id as [_ Rs]. apply (Rs TBus). eapply sub_refs; eauto. }
      assert (Hfree : ~ In b b2).
      { apply refs_bus_inv in Rf.
        destruct Rf as [(k & r & H1 & H2)|[(s & H1 & H2)|[(s & H1 & H2 & H3)|[(m & H1 & H2 & H3)|[(m & H1 & H2)|[(g & H1 & H2 & H3)|H]]]]]].
        - assert (H1' : In r (el nd k)) by (subst ne; exact H1). destruct (in_bus_tuples k) eqn:Hk; [eapply Fel; eauto|].
          destruct k; try discriminate Hk. rewrite Sd in H1'. unfold svc_free in Gsvc. rewrite forallb_forall in Gsvc.
          apply (proj1 (free_of_true b2 r) (Gsvc r H1')), H2.
        - assert (H1' : In s (sw nd)) by (subst ne; exact H1). rewrite <- H2. apply (Fsw s H1').
        - assert (H1' : In s (sw nd)) by (subst ne; exact H1). rewrite <- H3. apply (Fsw s H1'), H2.
        - assert (H1' : In m (meas nd)) by (subst ne; exact H1). specialize (Fms m H1'). destruct fm.
          + rewrite <- H3. apply (proj1 Fms), H2.
          + simpl in Gm. apply andb_true_iff in Gm. destruct Gm as [_ Gm]. rewrite forallb_forall in Gm. specialize (Gm m Fms).
            rewrite H2 in Gm. simpl in Gm. rewrite <- H3. apply zin_false, negb_true_iff, Gm.
        - assert (H1' : In m (meas nd)) by (subst ne; exact H1). specialize (Fms m H1'). destruct fm.
          + apply (proj2 Fms), H2.
          + simpl in Gm. apply andb_true_iff in Gm. destruct Gm as [Gm _]. unfold sides_free in Gm. rewrite forallb_forall in Gm. specialize (Gm m Fms).
            rewrite H2 in Gm. apply zin_false, negb_true_iff, Gm.
        - destruct (S_grp _ _ Se1 g H1) as [g1 (H4 & H5 & H6)]. apply in_detach in H4. destruct H4 as (g0 & _ & H7 & _ & _ & H8).
          apply H8; [congruence | apply H6, H3].
        - subst ne. simpl in H. apply filter_In in H. apply zin_false, negb_true_iff, H. }
      subst ne. unfold bus_ids in *. simpl. apply in_map_iff in Hin. destruct Hin as [p [H1 H2]]. apply in_map_iff. exists p. split; [exact H1|].
      apply filter_In. split; [exact H2|]. apply negb_true_iff, zin_false. rewrite H1. exact Hfree. }
  destruct Oe as [Re Se]. pose proof (GatI_sub _ _ _ Se Gi) as Ge.
  destruct (drop_inner_branches_gen true ne b1) as [nf|] eqn:Ef; cbn [bind]; [|discriminate].
  destruct (inner_branches_ok (fun _ => True) ne b1 nf Ge Re Ef) as (Rf & _ & _).
  intros E. injection E as E. subst n'. apply ResolvesP_all. destruct fm; [|exact Rf].
  apply (resolves_same_keys _ nf); auto. apply sub_set_meas. intros m Hm. eapply in_dedup_meas; eauto.
Qed.
Lemma fuse_buses_guard_nonvacuous :
  exists n n', G22_fuse n 0 [1; 2] true true = true /\ inv n = true /\ fuse_buses n 0 [1; 2] true true = Ok n' /\
               bus_ids n' = [0] /\ el_ids n Line = [0; 1] /\ el_ids n' Line = [] /\ map ebus (el n' Load) = [[0]].
Proof.
  exists (set_meas (set_sw (set_elk (set_elk w_bus3 Line [{| eid := 0; ebus := [1; 2]; eis := true |}; {| eid := 1; ebus := [0; 1]; eis := true |}])
                                     Load [{| eid := 4; ebus := [2]; eis := true |}])
                           [{| sid := 0; sbus := 1; swt := SL; sel := 0; sclosed := true |}])
                   [{| mid := 0; mmt := 1%nat; mty := TEl Line; mel := 0; msd := SideBus 1 |}]).
  eexists. split; [vm_compute; reflexivity|]. split; [vm_compute; reflexivity|]. split; [vm_compute; reflexivity|].
  vm_compute. repeat split.
Qed.
(* ------------------------------------------------------------------ reindex_elements on switch / measurement / cost tables *)
Definition plain (t : tname) : Prop := t = TSwitch \/ t = TMeas \/ t = TPcost \/ t = TWcost.
Lemma inv_step_reindex_plain n t lk n' :
  plain t -> Inv n -> reindex_elements n t lk = Ok n' -> Inv n'.
Proof.
  intros Ht I. unfold reindex_elements, reindex_elements_gen.
  destruct (keys n t) as [|k0 kt] eqn:EK; [intros E; injection E as E; subst; exact I|].
  destruct lk as [|p0 lt] eqn:ELK; [intros E; destruct Ht as [H|[H|[H|H]]]; subst t; injection E as E; subst; exact I|].
  rewrite <- ELK in *. clear ELK p0 lt. rewrite <- EK. clear EK k0 kt.
  set (old := filter (fun i => haskey lk i) (keys n t)).
  set (cond := fun x => if zin x old then remap lk x else x).
  assert (Hcond : forall x, In x (keys n t) -> cond x = remap lk x).
  { intros x Hx. unfold cond. destruct (zin x old) eqn:Z; [reflexivity|]. apply zin_false in Z.
    destruct (haskey lk x) eqn:HK; [|symmetry; apply remap_nokey, HK].
    exfalso. apply Z. unfold old. apply filter_In. split; [exact Hx | exact HK]. }
  assert (Hswt : forall e, tname_eqb (sw_target e) t = false) by (intros e; destruct Ht as [H|[H|[H|H]]]; subst t; destruct e; reflexivity).
  set (GF := fun g => if tname_eqb (gty g) t then {| gid := gid g; gty := gty g; gmem := map cond (gmem g) |} else g).
  assert (Hn' : forall n0, (match t with
            | TBus => reindex_buses n lk
            | _ => do gs <- mapM (fun g => if tname_eqb (gty g) t then Ok {| gid := gid g; gty := gty g; gmem := map cond (gmem g) |} else Ok g) (grp (reindex_table n t lk));
                   Ok n0 end) = Ok n' -> True) by auto.
  clear Hn'.
  assert (E0 : forall (X : list grow -> result net),
            (do gs <- mapM (fun g => if tname_eqb (gty g) t then Ok {| gid := gid g; gty := gty g; gmem := map cond (gmem g) |} else Ok g) (grp n); X gs) =
            X (map GF (grp n))).
  { intros X. erewrite (mapM_total _ GF); [reflexivity|]. intros g. unfold GF. destruct (tname_eqb (gty g) t); reflexivity. }
  (* the row correspondences *)
  intros E.
  assert (Fbus : bus n' = bus n) by (destruct Ht as [H|[H|[H|H]]]; subst t; cbn [reindex_table] in E; rewrite E0 in E; injection E as E; subst n'; reflexivity).
  assert (Fel : el n' = el n) by (destruct Ht as [H|[H|[H|H]]]; subst t; cbn [reindex_table] in E; rewrite E0 in E; injection E as E; subst n'; reflexivity).
  assert (Fct : ctrl n' = ctrl n) by (destruct Ht as [H|[H|[H|H]]]; subst t; cbn [reindex_table] in E; rewrite E0 in E; injection E as E; subst n'; reflexivity).
  assert (Frb : rbus n' = rbus n) by (destruct Ht as [H|[H|[H|H]]]; subst t; cbn [reindex_table] in E; rewrite E0 in E; injection E as E; subst n'; reflexivity).
  assert (Fres : res n' = res n) by (destruct Ht as [H|[H|[H|H]]]; subst t; cbn [reindex_table] in E; rewrite E0 in E; injection E as E; subst n'; reflexivity).
  assert (Fgrp : grp n' = map GF (grp n)) by (destruct Ht as [H|[H|[H|H]]]; subst t; cbn [reindex_table] in E; rewrite E0 in E; injection E as E; subst n'; reflexivity).
  assert (Fsw : forall s', In s' (sw n') -> exists s, In s (sw n) /\ sbus s' = sbus s /\ swt s' = swt s /\ sel s' = sel s).
  { destruct Ht as [H|[H|[H|H]]]; subst t; cbn [reindex_table] in E; rewrite E0 in E; injection E as E; subst n'; cbn [sw set_sw set_wcost set_pcost set_meas set_grp];
      intros s' Hs'; apply in_map_iff in Hs'; destruct Hs' as [s1 [H1 H2]]; rewrite Hswt in H1; cbn [andb] in H1; subst s1.
    - apply in_map_iff in H2. destruct H2 as [s [H1 H2]]. exists s. subst s'. auto.
    - exists s'. auto.
    - exists s'. auto.
    - exists s'. auto. }
  assert (Ksw : forall x, In x (map sid (sw n)) -> In (if tname_eqb TSwitch t then remap lk x else x) (map sid (sw n'))).
  { destruct Ht as [H|[H|[H|H]]]; subst t; cbn [reindex_table] in E; rewrite E0 in E; injection E as E; subst n'; cbn [sw set_sw set_wcost set_pcost set_meas set_grp tname_eqb];
      intros x Hx; rewrite map_map; apply in_map_iff in Hx; destruct Hx as [s [H1 H2]].
    - apply in_map_iff. exists {| sid := remap lk (sid s); sbus := sbus s; swt := swt s; sel := sel s; sclosed := sclosed s |}.
      rewrite Hswt. cbn [andb sid]. split; [subst; reflexivity|]. apply in_map_iff. exists s. auto.
    - apply in_map_iff. exists s. rewrite Hswt. auto.
    - apply in_map_iff. exists s. rewrite Hswt. auto.
    - apply in_map_iff. exists s. rewrite Hswt. auto. }
  assert (Tm : forall m, In m (meas n) -> tname_eqb (mty m) t = false).
  { intros m Hm. destruct I as [_ _ Im _ _ _ _ _]. destruct (Im m Hm) as [T _]. destruct Ht as [H|[H|[H|H]]]; subst t; destruct (mty m); simpl in T; try discriminate T; reflexivity. }
  assert (Fms : forall m', In m' (meas n') -> exists m, In m (meas n) /\ mty m' = mty m /\ mel m' = mel m /\ msd m' = msd m).
  { destruct Ht as [H|[H|[H|H]]]; subst t; cbn [reindex_table] in E; rewrite E0 in E; injection E as E; subst n'; cbn [meas set_sw set_wcost set_pcost set_meas set_grp];
      intros m' Hm'; apply in_map_iff in Hm'; destruct Hm' as [m1 [H1 H2]].
    - rewrite (Tm m1 H2) in H1. subst m'. exists m1. auto.
    - apply in_map_iff in H2. destruct H2 as [m [H2 H3]]. subst m1. cbn [mty mel] in H1. rewrite (Tm m H3) in H1. subst m'. exists m. auto.
    - rewrite (Tm m1 H2) in H1. subst m'. exists m1. auto.
    - rewrite (Tm m1 H2) in H1. subst m'. exists m1. auto. }
  assert (Fc : forall c', In c' (pcost n' ++ wcost n') -> exists c, In c (pcost n ++ wcost n) /\ cet c' = cet c /\ cel c' = cel c).
  { destruct Ht as [H|[H|[H|H]]]; subst t; cbn [reindex_table] in E; rewrite E0 in E; injection E as E; subst n';
      cbn [pcost wcost set_sw set_wcost set_pcost set_meas set_grp]; intros c' Hc'; rewrite !map_id in Hc'.
    - exists c'. auto.
    - exists c'. auto.
    - apply in_app_iff in Hc'. destruct Hc' as [Hc'|Hc'].
      + apply in_map_iff in Hc'. destruct Hc' as [c [H1 H2]]. subst c'. exists c. split; [apply in_app_iff; left; exact H2 | auto].
      + exists c'. split; [apply in_app_iff; right; exact Hc' | auto].
    - apply in_app_iff in Hc'. destruct Hc' as [Hc'|Hc'].
      + exists c'. split; [apply in_app_iff; left; exact Hc' | auto].
      + apply in_map_iff in Hc'. destruct Hc' as [c [H1 H2]]. subst c'. exists c. split; [apply in_app_iff; right; exact H2 | auto]. }
  clear E E0.
  assert (Kbus : bus_ids n' = bus_ids n) by (unfold bus_ids; rewrite Fbus; reflexivity).
  assert (Kel : forall k, el_ids n' k = el_ids n k) by (intros k; unfold el_ids; rewrite Fel; reflexivity).
  destruct I as [Ie Is Im Ic Ig Ict Irb Ir]. constructor.
  - intros k r b. rewrite Fel, Kbus. apply Ie.
  - intros s' Hs'. destruct (Fsw s' Hs') as [s (H1 & H2 & H3 & H4)]. destruct (Is s H1) as [H5 H6]. rewrite H2, H3, H4, Kbus. split; [exact H5|].
    destruct (swt s); cbn [sw_target keys] in *; rewrite ?Kbus, ?Kel; exact H6.
  - intros m' Hm'. destruct (Fms m' Hm') as [m (H1 & H2 & H3 & H4)]. destruct (Im m H1) as (T1 & T2 & T3). rewrite H2, H3, H4, Kbus.
    split; [exact T1|]. split; [|exact T3]. destruct (mty m); simpl in T1; try discriminate T1; cbn [keys] in *; rewrite ?Kbus, ?Kel; exact T2.
  - intros c' Hc'. destruct (Fc c' Hc') as [c (H1 & H2 & H3)]. rewrite H2, H3, Kel. apply Ic, H1.
  - intros g' Hg'. rewrite Fgrp in Hg'. apply in_map_iff in Hg'. destruct Hg' as [g [H1 H2]]. subst g'. destruct (Ig g H2) as [T1 T2]. unfold GF.
    destruct (tname_eqb (gty g) t) eqn:Et; cbn [gty gmem].
    + apply tname_eqb_eq in Et. split; [exact T1|]. intros x' Hx'. apply in_map_iff in Hx'. destruct Hx' as [x [H3 H4]]. subst x'.
      specialize (T2 x H4). rewrite Et in *. rewrite (Hcond x T2).
      destruct Ht as [H|[H|[H|H]]]; subst t; simpl in T1; try discriminate T1. cbn [keys] in *. apply (Ksw x T2).
    + split; [exact T1|]. intros x Hx. specialize (T2 x Hx). destruct (gty g) eqn:Eg; simpl in T1; try discriminate T1; cbn [keys] in *; rewrite ?Kbus, ?Kel; try exact T2.
      pose proof (Ksw x T2) as K. destruct (tname_eqb TSwitch t) eqn:E2; [|exact K]. apply tname_eqb_eq in E2. subst t. simpl in Et. discriminate.
  - intros c x. rewrite Fct, Kel. apply Ict.
  - intros x. rewrite Frb, Kbus. apply Irb.
  - intros k x. rewrite Fres, Kel. apply Ir.
Qed.
(* ------------------------------------------------------------------ create_continuous_elements_index *)
Lemma in_sort_by {A} (key : A -> Z) l r : In r (sort_by key l) <-> In r l.
Proof.
  unfold sort_by. rewrite in_flat_map. split.
  - intros [i [_ H]]. apply filter_In in H. apply H.
  - intros H. exists (key r). split; [apply in_zsort_uniq, in_map, H|]. apply filter_In. split; [exact H | apply Z.eqb_refl].
Qed.
Lemma in_map_sort_by {A} (key f : A -> Z) l x : In x (map f (sort_by key l)) <-> In x (map f l).
Proof. rewrite !in_map_iff. split; intros [r [H1 H2]]; exists r; (split; [exact H1|]); [apply in_sort_by in H2 | apply in_sort_by]; exact H2. Qed.
Lemma inv_sorted n t : Inv n ->
  Inv (match t with
       | TSwitch => set_sw n (sort_by sid (sw n))
       | TMeas => set_meas n (sort_by mid (meas n))
       | TEl k => set_elk n k (sort_by eid (el n k))
       | _ => n end).
Proof.
  intros I. destruct t; try exact I.
  - assert (K : keys_le n (set_sw n (sort_by sid (sw n)))).
    { apply keys_le_refl_on; simpl; auto. intros x Hx. apply in_map_sort_by, Hx. }
    revert I. apply (inv_keys_le _ _ K); simpl; try reflexivity; try (intros; left; assumption). intros s Hs. left. apply in_sort_by in Hs. exact Hs.
  - assert (K : keys_le n (set_meas n (sort_by mid (meas n)))).
    { apply keys_le_refl_on; simpl; auto. intros x Hx. apply in_map_sort_by, Hx. }
    revert I. apply (inv_keys_le _ _ K); simpl; try reflexivity; try (intros; left; assumption). intros s Hs. left. apply in_sort_by in Hs. exact Hs.
  - assert (K : keys_le n (set_elk n k (sort_by eid (el n k)))).
    { intros t x. destruct t; simpl; try tauto. unfold el_ids. rewrite el_set_elk.
      destruct (ekind_beq k k0) eqn:E; [apply ekind_beq_eq in E; subst k0|tauto]. intros Hx. apply in_map_sort_by, Hx. }
    revert I. apply (inv_keys_le _ _ K); simpl; try reflexivity; try (intros; left; assumption).
    intros k' r Hr. left. unfold upd in Hr. destruct (ekind_beq k k') eqn:E; [|exact Hr]. apply ekind_beq_eq in E. subst k'. apply in_sort_by in Hr. exact Hr.
Qed.

Lemma nodupz_true l : nodupz l = true -> NoDup l.
Proof.
  induction l as [|x t IH]; simpl; [constructor|]. intros H. apply andb_true_iff in H. destruct H as [H1 H2].
  constructor; [apply zin_false, negb_true_iff, H1 | apply IH, H2].
Qed.
Lemma lookup_cons_absent a v lk x : ~ In a (map fst lk) -> lookup ((a, v) :: lk) x = if a =? x then Some v else lookup lk x.
Proof.
  intros Ha. unfold lookup at 1. simpl. rewrite lookup_fold. destruct (a =? x) eqn:E.
  - apply Z.eqb_eq in E. subst x. rewrite lookup_none; [reflexivity|]. apply zin_false. exact Ha.
  - destruct (lookup lk x); reflexivity.
Qed.
Lemma combine_keys (l : list Z) : forall s, map fst (combine l (zrange s (List.length l))) = l.
Proof. induction l as [|a t IH]; intros s; simpl; [reflexivity|]. rewrite IH. reflexivity. Qed.
(* renumbering a duplicate free index by position gives exactly start .. start+len-1 *)
Lemma remap_positions (l : list Z) : forall s, NoDup l -> map (remap (combine l (zrange s (List.length l)))) l = zrange s (List.length l).
Proof.
  induction l as [|a t IH]; intros s N; simpl; [reflexivity|]. inversion N as [|? ? Ha Nt]; subst.
  assert (Hk : ~ In a (map fst (combine t (zrange (s + 1) (List.length t))))) by (rewrite combine_keys; exact Ha).
  f_equal.
  - unfold remap. rewrite (lookup_cons_absent a s _ a Hk), Z.eqb_refl. reflexivity.
  - transitivity (map (remap (combine t (zrange (s + 1) (List.length t)))) t); [|apply IH, Nt]. apply map_ext_in. intros x Hx. unfold remap. rewrite (lookup_cons_absent a s _ x Hk).
    destruct (a =? x) eqn:E; [|reflexivity]. apply Z.eqb_eq in E. subst x. contradiction.
Qed.
Lemma in_zrange x : forall n s, In x (zrange s n) <-> s <= x < s + Z.of_nat n.
Proof.
  induction n as [|n IH]; intros s; simpl zrange.
  - simpl. lia.
  - simpl In. rewrite IH. lia.
Qed.

(* what reindex_elements does to the index of the table and to the length of its res_ table *)
Lemma reindex_elements_ids n k lk n' :
  reindex_elements n (TEl k) lk = Ok n' ->
  (n' = n /\ (el_ids n k = [] \/ lk = [])) \/
  (el_ids n' k = map (remap lk) (el_ids n k) /\ List.length (res n' k) = List.length (res n k)).
Proof.
  unfold reindex_elements, reindex_elements_gen.
  destruct (keys n (TEl k)) as [|k0 kt] eqn:EK; [intros E; injection E as E; left; split; [symmetry; exact E | left; exact EK]|].
  destruct lk as [|p0 lt] eqn:ELK; [intros E; injection E as E; left; split; [symmetry; exact E | right; reflexivity]|].
  rewrite <- ELK in *. clear ELK p0 lt. rewrite <- EK. clear EK k0 kt.
  set (old := filter (fun i => haskey lk i) (keys n (TEl k))).
  set (cond := fun x => if zin x old then remap lk x else x).
  cbn [reindex_table andb].
  erewrite (mapM_total _ (fun g => if tname_eqb (gty g) (TEl k) then {| gid := gid g; gty := gty g; gmem := map cond (gmem g) |} else g)).
  2:{ intros g. destruct (tname_eqb (gty g) (TEl k)); reflexivity. }
  cbn [bind]. intros E. injection E as E. subst n'. right. split.
  - unfold el_ids. cbn [el set_wcost set_pcost set_sw set_meas set_grp set_resk set_res set_elk set_el]. unfold upd. rewrite ekind_beq_refl, map_map. symmetry. apply map_map.
  - cbn [res set_wcost set_pcost set_sw set_meas set_grp set_resk set_res set_elk set_el]. unfold upd. rewrite ekind_beq_refl. apply map_length.
Qed.

Lemma inv_cont_res n k start :
  Inv n -> (forall x, In x (zrange start (List.length (res n k))) -> In x (el_ids n k)) -> Inv (cont_res n k start).
Proof.
  intros [Ie Is Im Ic Ig Ict Irb Ir] H. constructor; auto.
  intros k' x Hx. change (In x (upd (res n) k (zrange start (List.length (res n k))) k')) in Hx. unfold upd in Hx.
  change (el_ids (cont_res n k start) k') with (el_ids n k').
  destruct (ekind_beq k k') eqn:E; [apply ekind_beq_eq in E; subst k'; apply H, Hx | apply Ir, Hx].
Qed.

Lemma cont_one_step n t start n1 :
  G22_cont_one n t start = true -> Inv n -> cont_one n t start = Ok n1 ->
  Inv (match t with TEl k => cont_res n1 k start | _ => n1 end).
Proof.
  intros G I. unfold cont_one. pose proof (inv_sorted n t I) as Is.
  destruct t as [| | | | |k]; cbn [G22_cont_one] in G; try discriminate G.
  - apply inv_step_reindex_plain; [left; reflexivity | exact Is].
  - apply inv_step_reindex_plain; [right; left; reflexivity | exact Is].
  - apply inv_step_reindex_plain; [right; right; left; reflexivity | exact Is].
  - apply inv_step_reindex_plain; [right; right; right; reflexivity | exact Is].
  - set (ns := set_elk n k (sort_by eid (el n k))) in *. cbn [keys] in *. set (ids := el_ids ns k) in *.
    rewrite !andb_true_iff in G. destruct G as [[G1 G2] G3]. apply nodupz_true in G2. apply nodupz_true in G3.
    intros E. pose proof (inv_step_reindex_elements ns k _ n1 G1 Is E) as I1.
    apply inv_cont_res; [exact I1|]. intros x Hx.
    assert (Hlen : (List.length (res n k) <= List.length ids)%nat).
    { apply NoDup_incl_length; [exact G3|]. intros y Hy. destruct Is as [_ _ _ _ _ _ _ Ir]. apply (Ir k y). exact Hy. }
    destruct (reindex_elements_ids ns k _ n1 E) as [[E1 E2]|[E1 E2]].
    + subst n1. fold ids in E2. assert (ids = []).
      { destruct E2 as [E2|E2]; [exact E2|]. destruct ids; [reflexivity | discriminate E2]. }
      rewrite H in Hlen. simpl in Hlen. change (res ns k) with (res n k) in Hx. destruct (res n k); [destruct Hx | simpl in Hlen; lia].
    + rewrite E1. fold ids. rewrite (remap_positions ids start G2). rewrite E2 in Hx. change (res ns k) with (res n k) in Hx.
      apply in_zrange. apply in_zrange in Hx. lia.
Qed.

Lemma cont_loop_inv start : forall ts n n',
  G22_cont_loop n ts start = true -> Inv n -> cont_loop n ts start = Ok n' -> Inv n'.
Proof.
  induction ts as [|t r IH]; intros n n' G I E; simpl in E.
  - injection E as E. subst. exact I.
  - cbn [G22_cont_loop] in G. apply andb_true_iff in G. destruct G as [G1 G2].
    destruct (cont_one n t start) as [n1|] eqn:E1; cbn [bind] in E; [|discriminate].
    eapply IH; [exact G2 | | exact E]. eapply cont_one_step; eauto.
Qed.
Lemma inv_step_cont_elements_index n start n' :
  G22_cont_elements n start = true -> Inv n -> cont_elements_index n start = Ok n' -> Inv n'.
Proof.
  intros G I. unfold cont_elements_index. unfold G22_cont_elements in G. apply andb_true_iff in G. destruct G as [G1 G2].
  destruct (cont_bus_index n start) as [n1|] eqn:E1; cbn [bind]; [|discriminate].
  apply cont_loop_inv; [exact G2|]. eapply inv_step_cont_bus_index; eauto.
Qed.
Lemma cont_elements_guard_nonvacuous :
  exists n n', G22_cont_elements n 10 = true /\ inv n = true /\ cont_elements_index n 10 = Ok n' /\
               bus_ids n' = [10; 11; 12] /\ el_ids n Line = [7; 3] /\ el_ids n' Line = [10; 11] /\ res n' Line = [10; 11] /\
               map sel (sw n') = [11] /\ map gmem (grp n') = [[11]].
Proof.
  exists (set_resk (set_grp (set_sw (set_elk w_bus3 Line [{| eid := 7; ebus := [1; 2]; eis := true |}; {| eid := 3; ebus := [0; 1]; eis := true |}])
                           [{| sid := 4; sbus := 1; swt := SL; sel := 7; sclosed := true |}])
                   [{| gid := 0; gty := TEl Line; gmem := [7] |}]) Line [3; 7]).
  eexists. split; [vm_compute; reflexivity|]. split; [vm_compute; reflexivity|]. split; [vm_compute; reflexivity|].
  vm_compute. repeat split.
Qed.
(* ------------------------------------------------------------------ reachability over guarded edit lists *)
(* the guard of fuse_buses is needed: b1 is not checked; fuse_bus_measurements=False leaves bus measurements at the dropped buses *)
Lemma fuse_buses_now_refuted :
  (exists n b1 b2 n', inv n = true /\ fuse_buses n b1 b2 false true = Ok n' /\ inv_el n' = false) /\
  (exists n b1 b2 n', inv n = true /\ fuse_buses n b1 b2 true false = Ok n' /\ inv_meas n' = false).
Proof.
  split.
  - exists (set_elk w_bus2 Load [{| eid := 0; ebus := [1]; eis := true |}]), 7, [1]. eexists. wit.
  - exists (set_meas w_bus2 [{| mid := 0; mmt := 0%nat; mty := TBus; mel := 1; msd := SideNone |}]), 0, [1]. eexists. wit.
Qed.
Lemma inv_step_G22 n o n' : G22 n o = true -> Inv n -> step n o = Ok n' -> Inv n'.
Proof.
  destruct o; cbn [G22 step]; intros G I E; try discriminate.
  - eapply inv_step_create_bus; eauto.
  - eapply inv_step_create_el; eauto.
  - eapply inv_step_create_switch; eauto.
  - apply andb_true_iff in G. destruct G as [G1 G2]. eapply inv_step_create_meas; eauto.
    intros b Hb. subst s. cbn [side_ok] in G2. apply zin_true, G2.
  - eapply inv_step_create_cost_partial; eauto.
  - eapply inv_step_create_group; eauto.
  - eapply inv_step_create_ctrl_partial; eauto.
  - destruct drop_el; [|discriminate]. apply Inv_Resolves. apply Inv_Resolves in I. eapply inv_step_drop_buses; eauto.
  - eapply inv_step_drop_lines; eauto.
  - eapply inv_step_drop_trafos; eauto.
  - apply Inv_Resolves. apply Inv_Resolves in I. eapply inv_step_drop_elements; eauto.
  - apply Inv_Resolves. apply Inv_Resolves in I. eapply inv_step_fuse_buses; eauto.
  - eapply inv_step_reindex_buses; eauto.
  - destruct t.
    + unfold reindex_elements, reindex_elements_gen in E. destruct (keys n TBus) eqn:EK; [injection E as E; subst; exact I|].
      destruct lk as [|p0 lt]; [injection E as E; subst; exact I|]. eapply inv_step_reindex_buses; eauto.
    + eapply inv_step_reindex_plain; eauto. left; reflexivity.
    + eapply inv_step_reindex_plain; eauto. right; left; reflexivity.
    + eapply inv_step_reindex_plain; eauto. right; right; left; reflexivity.
    + eapply inv_step_reindex_plain; eauto. right; right; right; reflexivity.
    + eapply inv_step_reindex_elements; eauto.
  - eapply inv_step_cont_bus_index; eauto.
  - eapply inv_step_cont_elements_index; eauto.
  - eapply inv_step_select_subnet; eauto.
Qed.
Lemma inv_reachable ops : forall n, Inv n -> guarded n ops = true -> Inv (run_ops n ops).
Proof.
  induction ops as [|o r IH]; intros n I G; simpl; [exact I|].
  simpl in G. apply andb_true_iff in G. destruct G as [G1 G2].
  destruct (step n o) as [n'|s] eqn:E.
  - apply IH; [eapply inv_step_G22; eauto | exact G2].
  - apply IH; assumption.
Qed.
Lemma inv_reachable_from_empty ops : guarded empty_net ops = true -> inv (run_ops empty_net ops) = true.
Proof. intros G. apply inv_iff, inv_reachable; [apply inv_init | exact G]. Qed.
(* the hypotheses are satisfiable by a non-trivial edit list: build a net, then drop a line that has a switch, a
   measurement and a group membership *)
Definition ex_ops : list op :=
  [OCreateBus 3; OCreateBus 7; OCreateBus 9; OCreateEl Line 4 [3; 7]; OCreateEl Line 2 [7; 9]; OCreateEl Line 8 [3; 7]; OCreateEl Load 1 [9];
   OCreateSwitch 5 3 SL 4; OCreateSwitch 6 3 SB 7; OCreateSwitch 7 9 SL 2; OCreateMeas 0 1%nat (TEl Line) 4 (SideBus 3);
   OCreateMeas 1 0%nat TBus 9 SideNone; OCreateCost true 0 Load 1;
   OCreateGroup 2 (TEl Line) [4; 2; 8]; OCreateGroup 3 TSwitch [5; 7]; OCreateGroup 4 TBus [9; 3]; OCreateCtrl Load [1] false;
   OReindexElements (TEl Line) [(4, 11)]; ODropLines [11]; ODropBuses [9] true; ODropElements TSwitch [6]].
Lemma reachable_nonvacuous :
  guarded empty_net ex_ops = true /\ el_ids (run_ops empty_net ex_ops) Line = [8] /\ bus_ids (run_ops empty_net ex_ops) = [3; 7] /\
  map (fun g => (gid g, gmem g)) (grp (run_ops empty_net ex_ops)) = [(2, [8]); (4, [3])] /\ ctrl (run_ops empty_net ex_ops) = [] /\
  meas (run_ops empty_net ex_ops) = [].
Proof. vm_compute. repeat split. Qed.

(* the guard of drop_buses is needed: a row of a table that element_bus_tuples() does not list (C22-bus-tuples-incomplete) and a
   controller on a line behind an open switch at the dropped bus (C22-drop-keeps-controller) are left dangling *)
Lemma drop_buses_now_refuted :
  (exists n bs n', inv n = true /\ drop_buses n bs true = Ok n' /\ inv_el n' = false) /\
  (exists n bs n', inv n = true /\ drop_buses n bs true = Ok n' /\ inv_ctrl n' = false).
Proof.
  split.
  - exists (set_elk w_bus2 Svc [{| eid := 0; ebus := [1]; eis := true |}]), [1]. eexists. wit.
  - exists (set_ctrl (set_sw (set_elk w_bus2 Line [{| eid := 0; ebus := [0; 1]; eis := true |}])
                             [{| sid := 0; sbus := 1; swt := SL; sel := 0; sclosed := false |}])
                     [{| ctid := 0; ctty := Line; ctidx := [0]; ctsingle := false |}]), [1]. eexists. wit.
Qed.
Lemma drop_simple_refuted :
  exists n ids n', inv n = true /\ drop_elements n (TEl Load) ids = Ok n' /\ inv_ctrl n' = false.
Proof.
  exists (set_ctrl w_load [{| ctid := 0; ctty := Load; ctidx := [0]; ctsingle := false |}]), [0]. eexists. wit.
Qed.
