(* C22 — proofs about the relational model (statements re-exported in Properties/C22.v) *)
From Coq Require Import ZArith List Bool String Lia.
From PPV Require Import C22.Model.
Import ListNotations.
Open Scope Z_scope.

(* ------------------------------------------------------------------ the invariant as a proposition (the spec) *)
Record Inv (n : net) : Prop := {
  I_el : forall k r b, In r (el n k) -> In b (ebus r) -> In b (bus_ids n);
  I_sw : forall s, In s (sw n) -> In (sbus s) (bus_ids n) /\ In (sel s) (keys n (sw_target (swt s)));
  I_meas : forall m, In m (meas n) ->
           meas_ty_ok (mty m) = true /\ In (mel m) (keys n (mty m)) /\ forall b, msd m = SideBus b -> In b (bus_ids n);
  I_cost : forall c, In c (pcost n ++ wcost n) -> In (cel c) (el_ids n (cet c));
  I_grp : forall g, In g (grp n) -> grp_ty_ok (gty g) = true /\ forall x, In x (gmem g) -> In x (keys n (gty g));
  I_ctrl : forall c x, In c (ctrl n) -> In x (ctidx c) -> In x (el_ids n (ctty c));
  I_rbus : forall x, In x (rbus n) -> In x (bus_ids n);
  I_res : forall k x, In x (res n k) -> In x (el_ids n k) }.

Lemma zin_true x l : zin x l = true <-> In x l.
Proof.
  unfold zin. rewrite existsb_exists. split.
  - intros [y [H1 H2]]. apply Z.eqb_eq in H2. subst. exact H1.
  - intros H. exists x. split; [exact H | apply Z.eqb_refl].
Qed.
Lemma zin_false x l : zin x l = false <-> ~ In x l.
Proof. rewrite <- zin_true. destruct (zin x l); split; congruence. Qed.
Lemma allin_true l m : allin l m = true <-> forall x, In x l -> In x m.
Proof.
  unfold allin. rewrite forallb_forall. split; intros H x Hx.
  - apply zin_true. apply H. exact Hx.
  - apply zin_true. apply H. exact Hx.
Qed.
Lemma ekind_beq_eq a b : ekind_beq a b = true <-> a = b.
Proof. split; [apply internal_ekind_dec_bl | apply internal_ekind_dec_lb]. Qed.
Lemma ekind_beq_refl a : ekind_beq a a = true.
Proof. apply ekind_beq_eq. reflexivity. Qed.
Lemma in_ekinds k : In k ekinds.
Proof. destruct k; simpl; tauto. Qed.
Lemma forallb_ekinds f : forallb f ekinds = true <-> forall k, f k = true.
Proof.
  rewrite forallb_forall. split; intros H k; [apply H, in_ekinds | intros _; apply H].
Qed.

Lemma inv_iff n : inv n = true <-> Inv n.
Proof.
  unfold inv, inv_el, inv_sw, inv_meas, inv_cost, inv_grp, inv_ctrl, inv_res.
  rewrite !andb_true_iff, !forallb_ekinds.
  split.
  - intros [[[[[[He Hs] Hm] Hc] Hg] Hct] [Hrb Hr]]. constructor.
    + intros k r b Hr' Hb. specialize (He k). rewrite forallb_forall in He.
      specialize (He r Hr'). rewrite allin_true in He. apply He, Hb.
    + intros s Hs'. rewrite forallb_forall in Hs. specialize (Hs s Hs').
      apply andb_true_iff in Hs. rewrite !zin_true in Hs. exact Hs.
    + intros m Hm'. rewrite forallb_forall in Hm. specialize (Hm m Hm').
      rewrite !andb_true_iff in Hm. destruct Hm as [[H1 H2] H3]. rewrite zin_true in H2.
      repeat split; try assumption. intros b Hb. unfold side_ok in H3. rewrite Hb in H3. apply zin_true, H3.
    + intros c Hc'. rewrite forallb_forall in Hc. apply zin_true, Hc, Hc'.
    + intros g Hg'. rewrite forallb_forall in Hg. specialize (Hg g Hg'). apply andb_true_iff in Hg.
      destruct Hg as [H1 H2]. split; [exact H1|]. apply allin_true, H2.
    + intros c x Hc' Hx. rewrite forallb_forall in Hct. specialize (Hct c Hc'). rewrite allin_true in Hct. apply Hct, Hx.
    + apply allin_true, Hrb.
    + intros k. apply allin_true, Hr.
  - intros [He Hs Hm Hc Hg Hct Hrb Hr]. repeat split.
    + intros k. apply forallb_forall. intros r Hr'. apply allin_true. intros b Hb. eapply He; eauto.
    + apply forallb_forall. intros s Hs'. apply andb_true_iff. rewrite !zin_true. apply Hs, Hs'.
    + apply forallb_forall. intros m Hm'. destruct (Hm m Hm') as (H1 & H2 & H3).
      rewrite !andb_true_iff. repeat split; [exact H1 | apply zin_true, H2 |].
      unfold side_ok. destruct (msd m) eqn:E; try reflexivity. apply zin_true, H3. reflexivity.
    + apply forallb_forall. intros c Hc'. apply zin_true, Hc, Hc'.
    + apply forallb_forall. intros g Hg'. destruct (Hg g Hg') as [H1 H2]. apply andb_true_iff. split; [exact H1|].
      apply allin_true, H2.
    + apply forallb_forall. intros c Hc'. apply allin_true. intros x Hx. eapply Hct; eauto.
    + apply allin_true, Hrb.
    + intros k. apply allin_true, Hr.
Qed.

Lemma inv_init : Inv empty_net.
Proof. constructor; simpl; intros; try contradiction. Qed.

(* ------------------------------------------------------------------ table updates *)
Lemma el_set_elk n k v k' : el (set_elk n k v) k' = if ekind_beq k k' then v else el n k'.
Proof. reflexivity. Qed.
Lemma el_set_elk_same n k v : el (set_elk n k v) k = v.
Proof. rewrite el_set_elk, ekind_beq_refl. reflexivity. Qed.
Lemma el_set_elk_other n k v k' : k <> k' -> el (set_elk n k v) k' = el n k'.
Proof.
  intros H. rewrite el_set_elk. destruct (ekind_beq k k') eqn:E; [apply ekind_beq_eq in E; contradiction | reflexivity].
Qed.

(* keys can only grow: every reference that resolved before still resolves *)
Definition keys_le (n n' : net) : Prop := forall t x, In x (keys n t) -> In x (keys n' t).
Lemma keys_le_bus n n' : keys_le n n' -> forall x, In x (bus_ids n) -> In x (bus_ids n').
Proof. intros H x. apply (H TBus). Qed.
Lemma keys_le_el n n' : keys_le n n' -> forall k x, In x (el_ids n k) -> In x (el_ids n' k).
Proof. intros H k x. apply (H (TEl k)). Qed.

(* if the referencing rows are the same and the key sets grew, the invariant is kept *)
Lemma inv_keys_le n n' :
  keys_le n n' ->
  (forall k r, In r (el n' k) -> In r (el n k) \/ forall b, In b (ebus r) -> In b (bus_ids n')) ->
  (forall s, In s (sw n') -> In s (sw n) \/ (In (sbus s) (bus_ids n') /\ In (sel s) (keys n' (sw_target (swt s))))) ->
  (forall m, In m (meas n') -> In m (meas n) \/
        (meas_ty_ok (mty m) = true /\ In (mel m) (keys n' (mty m)) /\ forall b, msd m = SideBus b -> In b (bus_ids n'))) ->
  (forall c, In c (pcost n' ++ wcost n') -> In c (pcost n ++ wcost n) \/ In (cel c) (el_ids n' (cet c))) ->
  (forall g, In g (grp n') -> In g (grp n) \/ (grp_ty_ok (gty g) = true /\ forall x, In x (gmem g) -> In x (keys n' (gty g)))) ->
  (forall c, In c (ctrl n') -> In c (ctrl n) \/ forall x, In x (ctidx c) -> In x (el_ids n' (ctty c))) ->
  rbus n' = rbus n -> res n' = res n ->
  Inv n -> Inv n'.
Proof.
  intros K He Hs Hm Hc Hg Hct Hrb Hr [Ie Is Im Ic Ig Ict Irb Ir]. constructor.
  - intros k r b Hr' Hb. destruct (He k r Hr') as [H|H]; [apply (keys_le_bus _ _ K); eapply Ie; eauto | apply H, Hb].
  - intros s Hs'. destruct (Hs s Hs') as [H|H]; [|exact H]. destruct (Is s H) as [H1 H2].
    split; [apply (keys_le_bus _ _ K), H1 | apply K, H2].
  - intros m Hm'. destruct (Hm m Hm') as [H|H]; [|exact H]. destruct (Im m H) as (H1 & H2 & H3).
    repeat split; [exact H1 | apply K, H2 | intros b Hb; apply (keys_le_bus _ _ K), (H3 b Hb)].
  - intros c Hc'. destruct (Hc c Hc') as [H|H]; [|exact H]. apply (keys_le_el _ _ K), Ic, H.
  - intros g Hg'. destruct (Hg g Hg') as [H|H]; [|exact H]. destruct (Ig g H) as [H1 H2]. split; [exact H1|].
    intros x Hx. apply K, H2, Hx.
  - intros c x Hc' Hx. destruct (Hct c Hc') as [H|H]; [|apply H, Hx]. apply (keys_le_el _ _ K). eapply Ict; eauto.
  - rewrite Hrb. intros x Hx. apply (keys_le_bus _ _ K), Irb, Hx.
  - rewrite Hr. intros k x Hx. apply (keys_le_el _ _ K), Ir, Hx.
Qed.

(* ------------------------------------------------------------------ create_* keep the invariant *)
Ltac inv_create K :=
  apply (inv_keys_le _ _ K); simpl; try reflexivity; try (intros; left; assumption).

Lemma inv_step_create_bus n i n' : Inv n -> create_bus n i = Ok n' -> Inv n'.
Proof.
  unfold create_bus. destruct (zin i (bus_ids n)); [discriminate|]. intros I E. inversion E; subst; clear E.
  assert (K : keys_le n (set_bus n (bus n ++ [(i, true)]))).
  { intros t x. destruct t; simpl; try tauto. unfold bus_ids. simpl. rewrite map_app, in_app_iff. tauto. }
  revert I. inv_create K.
Qed.

Lemma inv_step_create_el n k i bs n' : Inv n -> create_el n k i bs = Ok n' -> Inv n'.
Proof.
  unfold create_el. destruct (zin i (el_ids n k) || negb (allin bs (bus_ids n))) eqn:G; [discriminate|].
  intros I E. inversion E; subst; clear E. apply orb_false_iff in G. destruct G as [_ G].
  apply negb_false_iff in G. rewrite allin_true in G.
  set (n' := set_elk n k (el n k ++ [{| eid := i; ebus := bs; eis := true |}])).
  assert (K : keys_le n n').
  { intros t x. destruct t; simpl; try tauto. unfold el_ids, n'. rewrite el_set_elk.
    destruct (ekind_beq k k0) eqn:E; [apply ekind_beq_eq in E; subst k0|tauto]. rewrite map_app, in_app_iff. tauto. }
  revert I. apply (inv_keys_le _ _ K); try reflexivity; try (intros; left; assumption).
  intros k' r Hr. unfold n' in Hr. rewrite el_set_elk in Hr. destruct (ekind_beq k k') eqn:E.
  - apply ekind_beq_eq in E. subst k'. apply in_app_iff in Hr. destruct Hr as [Hr|[Hr|[]]]; [left; exact Hr|].
    right. subst r. simpl. exact G.
  - left. exact Hr.
Qed.

Lemma keys_le_refl_on n n' :
  bus n' = bus n -> el n' = el n -> (forall x, In x (map sid (sw n)) -> In x (map sid (sw n'))) ->
  (forall x, In x (map mid (meas n)) -> In x (map mid (meas n'))) ->
  (forall x, In x (map cid (pcost n)) -> In x (map cid (pcost n'))) ->
  (forall x, In x (map cid (wcost n)) -> In x (map cid (wcost n'))) -> keys_le n n'.
Proof.
  intros Hb He Hs Hm Hp Hw t x. destruct t; simpl; unfold bus_ids, el_ids; rewrite ?Hb, ?He; auto.
Qed.

Lemma find_row_in x b (l : list erow) :
  existsb (fun r => (eid r =? x) && zin b (ebus r)) l = true -> In x (map eid l).
Proof.
  rewrite existsb_exists. intros [r [H1 H2]]. apply andb_true_iff in H2. destruct H2 as [H2 _].
  apply Z.eqb_eq in H2. subst x. apply in_map, H1.
Qed.

Lemma inv_step_create_switch n i b e x n' : Inv n -> create_switch n i b e x = Ok n' -> Inv n'.
Proof.
  unfold create_switch.
  match goal with |- context [negb ?c || _] => destruct c eqn:G end; simpl; [|discriminate].
  destruct (zin i (map sid (sw n))); [discriminate|]. intros I E. inversion E; subst; clear E.
  apply andb_true_iff in G. destruct G as [G1 G2]. apply zin_true in G1.
  assert (K : keys_le n (set_sw n (sw n ++ [{| sid := i; sbus := b; swt := e; sel := x; sclosed := true |}]))).
  { apply keys_le_refl_on; simpl; auto. intros y. rewrite map_app, in_app_iff. tauto. }
  revert I. apply (inv_keys_le _ _ K); simpl; try reflexivity; try (intros; left; assumption).
  intros s Hs. apply in_app_iff in Hs. destruct Hs as [Hs|[Hs|[]]]; [left; exact Hs|]. right. subst s. simpl.
  split; [exact G1|]. destruct e; simpl.
  - apply zin_true, G2.
  - eapply find_row_in, G2.
  - eapply find_row_in, G2.
  - eapply find_row_in, G2.
Qed.

(* the measured element type must be one that create_measurement accepts (bus or an element table) *)
Lemma inv_step_create_meas n i mt t x s n' :
  meas_ty_ok t = true -> (forall b, s = SideBus b -> In b (bus_ids n)) ->
  Inv n -> create_meas n i mt t x s = Ok n' -> Inv n'.
Proof.
  intros Ht Hside. unfold create_meas. destruct (zin x (keys n t)) eqn:G; simpl; [|discriminate].
  destruct (zin i (map mid (meas n))); [discriminate|]. intros I E. inversion E; subst; clear E. apply zin_true in G.
  assert (K : keys_le n (set_meas n (meas n ++ [{| mid := i; mmt := mt; mty := t; mel := x; msd := s |}]))).
  { apply keys_le_refl_on; simpl; auto. intros y. rewrite map_app, in_app_iff. tauto. }
  revert I. apply (inv_keys_le _ _ K); simpl; try reflexivity; try (intros; left; assumption).
  intros m Hm. apply in_app_iff in Hm. destruct Hm as [Hm|[Hm|[]]]; [left; exact Hm|]. right. subst m. simpl.
  repeat split; [exact Ht | apply K, G | exact Hside].
Qed.

(* G22 for create_*_cost: the element exists (the impl does not check it) *)
Lemma inv_step_create_cost_partial n p i k x n' :
  zin x (el_ids n k) = true -> Inv n -> create_cost n p i k x = Ok n' -> Inv n'.
Proof.
  intros G. apply zin_true in G. unfold create_cost. destruct (cost_exists n k x); [discriminate|].
  destruct p.
  - destruct (zin i (map cid (pcost n))); [discriminate|]. intros I E. inversion E; subst; clear E.
    assert (K : keys_le n (set_pcost n (pcost n ++ [{| cid := i; cet := k; cel := x |}]))).
    { apply keys_le_refl_on; simpl; auto. intros y. rewrite map_app, in_app_iff. tauto. }
    revert I. apply (inv_keys_le _ _ K); simpl; try reflexivity; try (intros; left; assumption).
    intros c Hc. rewrite !in_app_iff in Hc. destruct Hc as [[Hc|[Hc|[]]]|Hc].
    + left. apply in_app_iff. tauto.
    + right. subst c. exact G.
    + left. apply in_app_iff. tauto.
  - destruct (zin i (map cid (wcost n))); [discriminate|]. intros I E. inversion E; subst; clear E.
    assert (K : keys_le n (set_wcost n (wcost n ++ [{| cid := i; cet := k; cel := x |}]))).
    { apply keys_le_refl_on; simpl; auto. intros y. rewrite map_app, in_app_iff. tauto. }
    revert I. apply (inv_keys_le _ _ K); simpl; try reflexivity; try (intros; left; assumption).
    intros c Hc. rewrite !in_app_iff in Hc. destruct Hc as [Hc|[Hc|[Hc|[]]]].
    + left. apply in_app_iff. tauto.
    + left. apply in_app_iff. tauto.
    + right. subst c. exact G.
Qed.
Lemma create_cost_refuted :
  exists n p i k x n', inv n = true /\ create_cost n p i k x = Ok n' /\ inv n' = false.
Proof. exists (set_bus empty_net [(0, true)]), true, 0, Gen, 7. eexists. split; [vm_compute; reflexivity | split; vm_compute; reflexivity]. Qed.

Lemma keys_le_same_keys n n' :
  bus n' = bus n -> el n' = el n -> sw n' = sw n -> meas n' = meas n -> pcost n' = pcost n -> wcost n' = wcost n -> keys_le n n'.
Proof. intros Hb He Hs Hm Hp Hw. apply keys_le_refl_on; try assumption; rewrite ?Hs, ?Hm, ?Hp, ?Hw; auto. Qed.

Lemma inv_step_create_group n g t mem n' : Inv n -> create_group n g t mem = Ok n' -> Inv n'.
Proof.
  unfold create_group. destruct (grp_ty_ok t) eqn:G1; simpl; [|discriminate].
  destruct (allin mem (keys n t)) eqn:G2; simpl; [|discriminate].
  destruct (zin g (map gid (grp n))); [discriminate|]. intros I E. inversion E; subst; clear E.
  rewrite allin_true in G2.
  assert (K : keys_le n (set_grp n (grp n ++ [{| gid := g; gty := t; gmem := mem |}]))) by (apply keys_le_same_keys; reflexivity).
  revert I. apply (inv_keys_le _ _ K); simpl; try reflexivity; try (intros; left; assumption).
  intros r Hr. apply in_app_iff in Hr. destruct Hr as [Hr|[Hr|[]]]; [left; exact Hr|]. right. subst r. simpl.
  split; [exact G1 | exact G2].
Qed.

(* a controller constructor does not look at the element table: the targets must exist *)
Lemma inv_step_create_ctrl_partial n k idx sg n' :
  allin idx (el_ids n k) = true -> Inv n -> create_ctrl n k idx sg = Ok n' -> Inv n'.
Proof.
  intros G. rewrite allin_true in G. unfold create_ctrl. intros I E. inversion E; subst; clear E.
  match goal with |- Inv ?m => assert (K : keys_le n m) by (apply keys_le_same_keys; reflexivity) end.
  revert I. apply (inv_keys_le _ _ K); simpl; try reflexivity; try (intros; left; assumption).
  intros r Hr. apply in_app_iff in Hr. destruct Hr as [Hr|[Hr|[]]]; [left; exact Hr|]. right. subst r. simpl. exact G.
Qed.

(* ------------------------------------------------------------------ "all foreign keys resolve" as a relation *)
Inductive refs (n : net) : tname -> Z -> Prop :=
| R_el k r b : In r (el n k) -> In b (ebus r) -> refs n TBus b
| R_swb s : In s (sw n) -> refs n TBus (sbus s)
| R_swe s : In s (sw n) -> refs n (sw_target (swt s)) (sel s)
| R_meas m : In m (meas n) -> refs n (mty m) (mel m)
| R_side m b : In m (meas n) -> msd m = SideBus b -> refs n TBus b
| R_cost c : In c (pcost n ++ wcost n) -> refs n (TEl (cet c)) (cel c)
| R_grp g x : In g (grp n) -> In x (gmem g) -> refs n (gty g) x
| R_ctrl c x : In c (ctrl n) -> In x (ctidx c) -> refs n (TEl (ctty c)) x
| R_rbus x : In x (rbus n) -> refs n TBus x
| R_res k x : In x (res n k) -> refs n (TEl k) x.
Definition types_ok (n : net) : Prop :=
  (forall m, In m (meas n) -> meas_ty_ok (mty m) = true) /\ (forall g, In g (grp n) -> grp_ty_ok (gty g) = true).
Definition Resolves (n : net) : Prop := types_ok n /\ forall t x, refs n t x -> In x (keys n t).

Lemma Inv_Resolves n : Inv n <-> Resolves n.
Proof.
  split.
  - intros [Ie Is Im Ic Ig Ict Irb Ir]. split.
    + split; [intros m Hm; apply (Im m Hm) | intros g Hg; apply (Ig g Hg)].
    + intros t x R. destruct R.
      * eapply Ie; eauto.
      * apply (Is s H).
      * apply (Is s H).
      * apply (Im m H).
      * destruct (Im m H) as (_ & _ & H3). apply H3, H0.
      * apply Ic, H.
      * destruct (Ig g H) as [_ H2]. apply H2, H0.
      * eapply Ict; eauto.
      * apply Irb, H.
      * apply Ir, H.
  - intros [[Tm Tg] R]. constructor.
    + intros k r b H1 H2. apply (R TBus). eapply R_el; eauto.
    + intros s Hs. split; [apply (R TBus), R_swb, Hs | apply R, R_swe, Hs].
    + intros m Hm. repeat split; [apply Tm, Hm | apply R, R_meas, Hm | intros b Hb; apply (R TBus); eapply R_side; eauto].
    + intros c Hc. apply (R (TEl (cet c))), R_cost, Hc.
    + intros g Hg. split; [apply Tg, Hg | intros x Hx; apply R; eapply R_grp; eauto].
    + intros c x Hc Hx. apply (R (TEl (ctty c))). eapply R_ctrl; eauto.
    + intros x Hx. apply (R TBus), R_rbus, Hx.
    + intros k x Hx. apply (R (TEl k)), R_res, Hx.
Qed.

(* ------------------------------------------------------------------ sorted/unique helpers keep membership *)
Lemma in_zinsert x y l : In x (zinsert y l) <-> x = y \/ In x l.
Proof.
  induction l as [|z t IH]; simpl; [intuition|].
  destruct (y <? z); simpl; [intuition|]. destruct (y =? z) eqn:E; simpl.
  - apply Z.eqb_eq in E. subst. intuition.
  - rewrite IH. intuition.
Qed.
Lemma in_zsort_uniq x l : In x (zsort_uniq l) <-> In x l.
Proof.
  induction l as [|y t IH]; simpl; [tauto|]. unfold zsort_uniq in *. simpl. rewrite in_zinsert, IH. intuition.
Qed.
Lemma in_zuniq x seen l : In x (zuniq seen l) <-> In x l /\ ~ In x seen.
Proof.
  revert seen. induction l as [|y t IH]; intros seen; simpl; [tauto|].
  destruct (zin y seen) eqn:E.
  - apply zin_true in E. rewrite IH. split; [tauto|]. intros [[H|H] Hn]; [subst; contradiction | tauto].
  - apply zin_false in E. simpl. rewrite IH. simpl. split.
    + intros [H|[H1 H2]]; [subst; tauto | tauto].
    + intros [[H|H] Hn]; [left; exact H|]. destruct (Z.eq_dec y x); [left; exact e | right; split; [exact H|]; intros [?|?]; tauto].
Qed.
Lemma in_zdiff x l d : In x (zdiff l d) <-> In x l /\ ~ In x d.
Proof.
  unfold zdiff. destruct d as [|d0 d'].
  - rewrite in_zuniq. simpl. tauto.
  - rewrite in_zsort_uniq, filter_In, negb_true_iff, zin_false. tauto.
Qed.

(* groups.py detach_from_groups: members of the detached type lose exactly `ids`, nothing else changes *)
Lemma in_detach n t ids g :
  In g (grp (detach n t ids)) ->
  exists g0, In g0 (grp n) /\ gty g = gty g0 /\ gid g = gid g0 /\
             (forall x, In x (gmem g) -> In x (gmem g0)) /\
             (gty g0 = t -> forall x, In x (gmem g) -> ~ In x ids).
Proof.
  unfold detach. simpl. rewrite in_flat_map. intros [g0 [H0 H]]. exists g0. split; [exact H0|].
  destruct (tname_eqb (gty g0) t) eqn:E.
  - destruct (zdiff (gmem g0) ids) eqn:D; [destruct H|]. destruct H as [H|[]]. subst g. simpl.
    assert (M : forall x, In x (z :: l) -> In x (gmem g0) /\ ~ In x ids).
    { intros x Hx. rewrite <- D in Hx. apply in_zdiff in Hx. exact Hx. }
    repeat split; auto; [intros x Hx; apply (M x Hx) | intros _ x Hx; apply (M x Hx)].
  - destruct H as [H|[]]. subst g. repeat split; auto. intros Ht. subst t.
    assert (tname_eqb (gty g0) (gty g0) = true).
    { destruct (gty g0); simpl; try reflexivity. apply ekind_beq_refl. }
    congruence.
Qed.
Lemma detach_other n t ids :
  bus (detach n t ids) = bus n /\ el (detach n t ids) = el n /\ sw (detach n t ids) = sw n /\ meas (detach n t ids) = meas n /\
  pcost (detach n t ids) = pcost n /\ wcost (detach n t ids) = wcost n /\ ctrl (detach n t ids) = ctrl n /\
  rbus (detach n t ids) = rbus n /\ res (detach n t ids) = res n.
Proof. repeat split. Qed.

(* ------------------------------------------------------------------ drop_lines / drop_trafos *)
Lemma tname_eqb_eq a b : tname_eqb a b = true <-> a = b.
Proof.
  destruct a, b; simpl; split; intros H; try reflexivity; try discriminate.
  - apply ekind_beq_eq in H. subst. reflexivity.
  - inversion H. apply ekind_beq_refl.
Qed.

Lemma G22_drop_cost n k ids c : G22_drop n k ids = true -> In c (pcost n ++ wcost n) -> cet c = k -> ~ In (cel c) ids.
Proof.
  unfold G22_drop. rewrite andb_true_iff, !forallb_forall. intros [H _] Hc Hk Hin. specialize (H c Hc).
  apply negb_true_iff, andb_false_iff in H. destruct H as [H|H].
  - subst k. rewrite ekind_beq_refl in H. discriminate.
  - apply zin_false in H. contradiction.
Qed.
Lemma G22_drop_ctrl n k ids c x : G22_drop n k ids = true -> In c (ctrl n) -> ctty c = k -> In x (ctidx c) -> ~ In x ids.
Proof.
  unfold G22_drop. rewrite andb_true_iff, !forallb_forall. intros [_ H] Hc Hk Hx Hin. specialize (H c Hc).
  apply negb_true_iff, andb_false_iff in H. destruct H as [H|H].
  - subst k. rewrite ekind_beq_refl in H. discriminate.
  - assert (existsb (fun y => zin y ids) (ctidx c) = true); [|congruence].
    apply existsb_exists. exists x. split; [exact Hx | apply zin_true, Hin].
Qed.

Lemma inv_step_drop_branch n k e ids n' :
  sw_target e = TEl k -> (forall e', sw_target e' = TEl k -> e' = e) ->
  G22_drop n k ids = true -> Inv n -> drop_branch_sw n k e ids = Ok n' -> Inv n'.
Proof.
  intros He Hinj G I. unfold drop_branch_sw. destruct ids as [|i0 ids0]; [intros E; inversion E; subst; exact I|].
  set (ids := i0 :: ids0) in *.
  set (sws := map sid (filter (fun s => zin (sel s) ids && swet_eqb (swt s) e) (sw n))).
  unfold drop_rows_el. cbn [bind].
  match goal with |- context [allin ids ?l] => destruct (allin ids l) eqn:A end; cbn [bind]; [|discriminate].
  intros E. inversion E; subst n'; clear E.
  apply Inv_Resolves in I. destruct I as [[Tm Tg] R]. apply Inv_Resolves.
  (* components of the result *)
  set (n1 := detach n TSwitch sws). set (g2 := grp (detach n1 (TEl k) ids)).
  match goal with |- Resolves ?m => set (n6 := m) end.
  assert (Hbus : bus n6 = bus n) by reflexivity.
  assert (Hel : forall k', el n6 k' = if ekind_beq k k' then filter (fun r => negb (zin (eid r) ids)) (el n k) else el n k') by reflexivity.
  assert (Hsw : sw n6 = filter (fun s => negb (zin (sid s) sws)) (sw n)) by reflexivity.
  assert (Hmeas : meas n6 = filter (fun m => negb (tname_eqb (mty m) (TEl k) && zin (mel m) ids)) (meas n)) by reflexivity.
  assert (Hpc : pcost n6 = pcost n) by reflexivity. assert (Hwc : wcost n6 = wcost n) by reflexivity.
  assert (Hct : ctrl n6 = ctrl n) by reflexivity. assert (Hrb : rbus n6 = rbus n) by reflexivity.
  assert (Hres : forall k', res n6 k' = if ekind_beq k k' then filter (fun i => negb (zin i ids)) (res n k) else res n k') by reflexivity.
  assert (Hgrp : grp n6 = g2) by reflexivity.
  (* keys of the result *)
  assert (Kel : forall k' x, In x (el_ids n k') -> (k' = k -> ~ In x ids) -> In x (el_ids n6 k')).
  { intros k' x Hx Hn. unfold el_ids in *. rewrite Hel. destruct (ekind_beq k k') eqn:Ek; [|exact Hx].
    apply ekind_beq_eq in Ek. subst k'. apply in_map_iff in Hx. destruct Hx as [r [H1 H2]]. apply in_map_iff. exists r.
    split; [exact H1|]. apply filter_In. split; [exact H2|]. apply negb_true_iff, zin_false. rewrite H1. apply Hn. reflexivity. }
  assert (Ksw : forall x, In x (map sid (sw n)) -> ~ In x sws -> In x (map sid (sw n6))).
  { intros x Hx Hn. rewrite Hsw. apply in_map_iff in Hx. destruct Hx as [s [H1 H2]]. apply in_map_iff. exists s.
    split; [exact H1|]. apply filter_In. split; [exact H2|]. apply negb_true_iff, zin_false. rewrite H1. exact Hn. }
  assert (Kbus : bus_ids n6 = bus_ids n) by reflexivity.
  split.
  - split.
    + intros m Hm. rewrite Hmeas in Hm. apply filter_In in Hm. apply Tm, Hm.
    + intros g Hg. rewrite Hgrp in Hg. unfold g2 in Hg. apply in_detach in Hg. destruct Hg as (g1 & Hg1 & Ht1 & _).
      apply in_detach in Hg1. destruct Hg1 as (g0 & Hg0 & Ht0 & _). rewrite Ht1, Ht0. apply Tg, Hg0.
  - intros t x Rf. destruct Rf.
    + (* element bus *) change (In b (bus_ids n6)). rewrite Kbus. apply (R TBus).
      rewrite Hel in H. destruct (ekind_beq k k0); [apply filter_In in H; destruct H as [H _]|]; eapply R_el; eauto.
    + change (In (sbus s) (bus_ids n6)). rewrite Kbus. rewrite Hsw in H. apply filter_In in H. apply (R TBus), R_swb, H.
    + rewrite Hsw in H. apply filter_In in H. destruct H as [H Hk]. apply negb_true_iff, zin_false in Hk.
      pose proof (R _ _ (R_swe n s H)) as Hin. destruct (swt s) eqn:Es; simpl in *.
      * exact Hin.
      * change (In (sel s) (el_ids n6 Line)). apply Kel; [exact Hin|]. intros Ek Hid. apply Hk. unfold sws.
        apply in_map_iff. exists s. split; [reflexivity|]. apply filter_In. split; [exact H|].
        apply andb_true_iff. split; [apply (proj2 (zin_true (sel s) ids)), Hid|]. rewrite Es. rewrite <- (Hinj SL); [reflexivity | simpl; congruence].
      * change (In (sel s) (el_ids n6 Trafo)). apply Kel; [exact Hin|]. intros Ek Hid. apply Hk. unfold sws.
        apply in_map_iff. exists s. split; [reflexivity|]. apply filter_In. split; [exact H|].
        apply andb_true_iff. split; [apply (proj2 (zin_true (sel s) ids)), Hid|]. rewrite Es. rewrite <- (Hinj ST); [reflexivity | simpl; congruence].
      * change (In (sel s) (el_ids n6 Trafo3w)). apply Kel; [exact Hin|]. intros Ek Hid. apply Hk. unfold sws.
        apply in_map_iff. exists s. split; [reflexivity|]. apply filter_In. split; [exact H|].
        apply andb_true_iff. split; [apply (proj2 (zin_true (sel s) ids)), Hid|]. rewrite Es. rewrite <- (Hinj ST3); [reflexivity | simpl; congruence].
    + rewrite Hmeas in H. apply filter_In in H. destruct H as [H Hk]. pose proof (R _ _ (R_meas n m H)) as Hin.
      pose proof (Tm m H) as Hty. destruct (mty m) eqn:Em; simpl in Hty; try discriminate.
      * exact Hin.
      * change (In (mel m) (el_ids n6 k0)). apply Kel; [exact Hin|]. intros Ek Hid. subst k0.
        apply negb_true_iff, andb_false_iff in Hk. destruct Hk as [Hk|Hk].
        -- simpl in Hk. rewrite ekind_beq_refl in Hk. discriminate.
        -- apply zin_false in Hk. contradiction.
    + change (In b (bus_ids n6)). rewrite Kbus. rewrite Hmeas in H. apply filter_In in H. apply (R TBus). eapply R_side; [apply H | exact H0].
    + rewrite Hpc, Hwc in H. change (In (cel c) (el_ids n6 (cet c))). apply Kel; [apply (R (TEl (cet c))), R_cost, H|].
      intros Ek. eapply G22_drop_cost; eauto.
    + rewrite Hgrp in H. unfold g2 in H. apply in_detach in H. destruct H as (g1 & Hg1 & Ht1 & _ & Hm1 & Hd1).
      apply in_detach in Hg1. destruct Hg1 as (g0 & Hg0 & Ht0 & _ & Hm0 & Hd0).
      pose proof (R _ _ (R_grp n g0 x Hg0 (Hm0 _ (Hm1 _ H0)))) as Hin. pose proof (Tg g0 Hg0) as Hty.
      rewrite Ht1, Ht0. destruct (gty g0) eqn:Eg; simpl in Hty; try discriminate.
      * exact Hin.
      * apply Ksw; [exact Hin|]. apply Hd0; [reflexivity | apply Hm1, H0].
      * change (In x (el_ids n6 k0)). apply Kel; [exact Hin|]. intros Ek. subst k0. apply Hd1; [congruence | exact H0].
    + rewrite Hct in H. change (In x (el_ids n6 (ctty c))). apply Kel; [apply (R (TEl (ctty c))); eapply R_ctrl; eauto|].
      intros Ek. eapply G22_drop_ctrl; eauto.
    + change (In x (bus_ids n6)). rewrite Kbus. apply (R TBus), R_rbus. rewrite Hrb in H. exact H.
    + change (In x (el_ids n6 k0)). rewrite Hres in H. destruct (ekind_beq k k0) eqn:Ek.
      * apply ekind_beq_eq in Ek. subst k0. apply filter_In in H. destruct H as [H Hn]. apply Kel; [apply (R (TEl k)), R_res, H|].
        intros _. apply zin_false, negb_true_iff, Hn.
      * apply Kel; [apply (R (TEl k0)), R_res, H|]. intros Ek'. subst k0. rewrite ekind_beq_refl in Ek. discriminate.
Qed.

Lemma inv_step_drop_lines n ids n' : G22_drop n Line ids = true -> Inv n -> drop_lines n ids = Ok n' -> Inv n'.
Proof. apply inv_step_drop_branch; [reflexivity|]. intros e'. destruct e'; simpl; congruence. Qed.
Lemma inv_step_drop_trafos n (th : bool) ids n' :
  G22_drop n (if th then Trafo3w else Trafo) ids = true -> Inv n -> drop_trafos n th ids = Ok n' -> Inv n'.
Proof.
  unfold drop_trafos. destruct th; apply inv_step_drop_branch; try reflexivity; intros e'; destruct e'; simpl; congruence.
Qed.

(* ---------- the full statements are false of the faithful model: witnesses *)
Ltac wit := split; [vm_compute; reflexivity | split; vm_compute; reflexivity].
Definition w_bus2 : net := set_bus empty_net [(0, true); (1, true)].
Lemma drop_trafos_refuted : exists n th ids n', inv n = true /\ drop_trafos n th ids = Ok n' /\ inv n' = false.
Proof.
  exists (set_ctrl (set_elk w_bus2 Trafo [{| eid := 0; ebus := [0; 1]; eis := true |}])
                   [{| ctid := 0; ctty := Trafo; ctidx := [0]; ctsingle := true |}]), false, [0].
  eexists. wit.
Qed.
Definition w_bus3 : net := set_bus empty_net [(0, true); (1, true); (2, true)].
Definition w_t3 : net :=
  set_sw (set_elk w_bus3 Trafo3w [{| eid := 0; ebus := [0; 1; 2]; eis := true |}]) [{| sid := 0; sbus := 0; swt := ST3; sel := 0; sclosed := true |}].
Lemma reindex_trafo3w_refuted :
  exists n lk n', inv n = true /\ reindex_elements_old n (TEl Trafo3w) lk = Ok n' /\ inv_sw n' = false.
Proof. exists w_t3, [(0, 5)]. eexists. wit. Qed.
Definition w_load : net := set_elk (set_bus empty_net [(0, true)]) Load [{| eid := 0; ebus := [0]; eis := true |}].
Lemma reindex_controller_refuted :
  exists n lk n', inv n = true /\ reindex_elements n (TEl Load) lk = Ok n' /\ inv_ctrl n' = false.
Proof.
  exists (set_ctrl w_load [{| ctid := 0; ctty := Load; ctidx := [0]; ctsingle := false |}]), [(0, 5)].
  eexists. wit.
Qed.
Lemma reindex_res_refuted :
  exists n lk n', inv n = true /\ reindex_elements_old n (TEl Load) lk = Ok n' /\ inv_res n' = false.
Proof. exists (set_resk w_load Load [0]), [(0, 5)]. eexists. wit. Qed.
Lemma reindex_meas_refuted :
  exists n lk n', inv n = true /\ reindex_elements_old n (TEl Load) lk = Ok n' /\ inv_meas n' = false.
Proof.
  exists (set_meas w_load [{| mid := 0; mmt := 1%nat; mty := TEl Load; mel := 0; msd := SideNone |}]), [(0, 5)].
  eexists. wit.
Qed.
Lemma reindex_buses_refuted :
  exists n lk n', inv n = true /\ reindex_buses n lk = Ok n' /\ inv_el n' = false.
Proof.
  exists (set_elk (set_bus empty_net [(0, true)]) Svc [{| eid := 0; ebus := [0]; eis := true |}]), [(0, 5)].
  eexists. wit.
Qed.
Lemma drop_buses_refuted :
  exists n bs n', inv n = true /\ drop_buses_old n bs true = Ok n' /\ inv_ctrl n' = false.
Proof.
  exists (set_ctrl (set_elk w_bus2 Load [{| eid := 0; ebus := [1]; eis := true |}])
                   [{| ctid := 0; ctty := Load; ctidx := [0]; ctsingle := false |}]), [1].
  eexists. wit.
Qed.
Lemma drop_elements_refuted :
  exists n ids n', inv n = true /\ drop_simple_el_old n Gen ids = Ok n' /\ inv_cost n' = false.
Proof.
  exists (set_pcost (set_elk (set_bus empty_net [(0, true)]) Gen [{| eid := 0; ebus := [0]; eis := true |}])
                    [{| cid := 0; cet := Gen; cel := 0 |}]), [0].
  eexists. wit.
Qed.
Lemma fuse_buses_refuted :
  exists n b1 b2 n', inv n = true /\ fuse_buses_old n b1 b2 true true = Ok n' /\ inv_meas n' = false.
Proof.
  exists (set_meas (set_elk w_bus3 Line [{| eid := 0; ebus := [1; 2]; eis := true |}])
                   [{| mid := 0; mmt := 1%nat; mty := TEl Line; mel := 0; msd := SideBus 1 |}]), 0, [1].
  eexists. wit.
Qed.
Lemma fuse_buses_group_refuted :
  exists n b1 b2 n', inv n = true /\ fuse_buses_old n b1 b2 true true = Ok n' /\ inv_grp n' = false.
Proof.
  exists (set_grp (set_elk w_bus2 Impedance [{| eid := 0; ebus := [0; 1]; eis := true |}])
                  [{| gid := 0; gty := TEl Impedance; gmem := [0] |}]), 0, [1].
  eexists. wit.
Qed.
Lemma select_subnet_refuted :
  exists n bs n', inv n = true /\ select_subnet n bs false false true = Ok n' /\ inv_grp n' = false.
Proof.
  exists (set_grp (set_elk w_bus2 Load [{| eid := 0; ebus := [1]; eis := true |}]) [{| gid := 0; gty := TEl Load; gmem := [0] |}]), [0].
  eexists. wit.
Qed.

(* ------------------------------------------------------------------ reindex_elements (repaired rule) *)
Lemma lookup_fold lk k acc :
  fold_left (fun a kv => if fst kv =? k then Some (snd kv) else a) lk acc =
  match lookup lk k with Some v => Some v | None => acc end.
Proof.
  unfold lookup. revert acc. induction lk as [|kv t IH]; intros acc; simpl; [reflexivity|].
  rewrite IH. rewrite (IH (if fst kv =? k then Some (snd kv) else None)).
  destruct (fold_left _ t None); [reflexivity|]. destruct (fst kv =? k); reflexivity.
Qed.
Lemma lookup_none lk k : haskey lk k = false -> lookup lk k = None.
Proof.
  unfold haskey. intros H. apply zin_false in H. induction lk as [|kv t IH]; [reflexivity|].
  unfold lookup. simpl. rewrite lookup_fold. simpl in H.
  destruct (fst kv =? k) eqn:E; [apply Z.eqb_eq in E; exfalso; apply H; left; exact E|].
  rewrite IH; [reflexivity|]. intros X. apply H. right. exact X.
Qed.
Lemma remap_nokey lk x : haskey lk x = false -> remap lk x = x.
Proof. intros H. unfold remap. rewrite (lookup_none lk x H). reflexivity. Qed.
Lemma mapM_total {A B} (F : A -> result B) (f : A -> B) l : (forall a, F a = Ok (f a)) -> mapM F l = Ok (map f l).
Proof. intros H. induction l as [|a t IH]; simpl; [reflexivity|]. rewrite H. simpl. rewrite IH. reflexivity. Qed.

Lemma G22_reindex_ctrl n k lk c x :
  G22_reindex n k lk = true -> In c (ctrl n) -> ctty c = k -> In x (ctidx c) -> remap lk x = x.
Proof.
  unfold G22_reindex. rewrite forallb_forall. intros H Hc Hk Hx. specialize (H c Hc).
  apply negb_true_iff, andb_false_iff in H. destruct H as [H|H].
  - subst k. rewrite ekind_beq_refl in H. discriminate.
  - destruct (Z.eq_dec (remap lk x) x) as [E|E]; [exact E|]. exfalso.
    assert (existsb (moved lk) (ctidx c) = true); [|congruence].
    apply existsb_exists. exists x. split; [exact Hx|]. unfold moved. apply negb_true_iff, Z.eqb_neq, E.
Qed.

Lemma inv_step_reindex_elements n k lk n' :
  G22_reindex n k lk = true -> Inv n -> reindex_elements n (TEl k) lk = Ok n' -> Inv n'.
Proof.
  intros G I. unfold reindex_elements, reindex_elements_gen.
  destruct (keys n (TEl k)) as [|k0 kt] eqn:EK; [intros E; inversion E; subst; exact I|].
  destruct lk as [|p0 lt] eqn:ELK; [intros E; inversion E; subst; exact I|]. rewrite <- ELK in *. clear ELK p0 lt.
  rewrite <- EK. clear EK k0 kt.
  set (old := filter (fun i => haskey lk i) (keys n (TEl k))).
  set (cond := fun x => if zin x old then remap lk x else x).
  assert (Hcond : forall x, In x (el_ids n k) -> cond x = remap lk x).
  { intros x Hx. unfold cond. destruct (zin x old) eqn:Z; [reflexivity|]. apply zin_false in Z.
    destruct (haskey lk x) eqn:HK; [|symmetry; apply remap_nokey, HK].
    exfalso. apply Z. unfold old. apply filter_In. split; [exact Hx | exact HK]. }
  assert (Hold : forall x, zin x old = true -> cond x = remap lk x) by (intros x Hx; unfold cond; rewrite Hx; reflexivity).
  cbn [reindex_table andb].
  erewrite (mapM_total _ (fun g => if tname_eqb (gty g) (TEl k) then {| gid := gid g; gty := gty g; gmem := map cond (gmem g) |} else g)).
  2:{ intros g. destruct (tname_eqb (gty g) (TEl k)); reflexivity. }
  cbn [bind]. intros E. inversion E; subst n'; clear E.
  apply Inv_Resolves in I. destruct I as [[Tm Tg] R]. apply Inv_Resolves.
  match goal with |- Resolves ?m => set (n6 := m) end.
  assert (Hel : forall k', el n6 k' = if ekind_beq k k' then map (fun r => {| eid := remap lk (eid r); ebus := ebus r; eis := eis r |}) (el n k) else el n k') by reflexivity.
  assert (Hsw : sw n6 = map (fun s => if tname_eqb (sw_target (swt s)) (TEl k) && zin (sel s) old
                                      then {| sid := sid s; sbus := sbus s; swt := swt s; sel := remap lk (sel s); sclosed := sclosed s |}
                                      else s) (sw n)) by reflexivity.
  assert (Hmeas : meas n6 = map (fun m => if tname_eqb (mty m) (TEl k) && zin (mel m) old
                                          then {| mid := mid m; mmt := mmt m; mty := mty m; mel := remap lk (mel m); msd := msd m |}
                                          else m) (meas n)) by reflexivity.
  assert (Hgrp : grp n6 = map (fun g => if tname_eqb (gty g) (TEl k) then {| gid := gid g; gty := gty g; gmem := map cond (gmem g) |} else g) (grp n)) by reflexivity.
  set (fixc := fun c => if ekind_beq (cet c) k && zin (cel c) old then {| cid := cid c; cet := cet c; cel := remap lk (cel c) |} else c).
  assert (Hpc : pcost n6 = map fixc (pcost n)) by reflexivity.
  assert (Hwc : wcost n6 = map fixc (wcost n)) by reflexivity.
  assert (Hct : ctrl n6 = ctrl n) by reflexivity. assert (Hrb : rbus n6 = rbus n) by reflexivity.
  assert (Hres : forall k', res n6 k' = if ekind_beq k k' then map cond (res n k) else res n k') by reflexivity.
  assert (Kbus : bus_ids n6 = bus_ids n) by reflexivity.
  clearbody n6.
  (* new keys *)
  assert (Kel : forall k' x, In x (el_ids n k') -> In (if ekind_beq k k' then remap lk x else x) (el_ids n6 k')).
  { intros k' x Hx. unfold el_ids in *. rewrite Hel. destruct (ekind_beq k k') eqn:Ek; [|exact Hx].
    apply ekind_beq_eq in Ek. subst k'. rewrite map_map. simpl. apply (in_map (fun r => remap lk (eid r))) in Hx || idtac.
    apply in_map_iff in Hx. destruct Hx as [r [H1 H2]]. apply in_map_iff. exists r. split; [rewrite H1; reflexivity | exact H2]. }
  assert (Ksid : map sid (sw n6) = map sid (sw n)).
  { rewrite Hsw, map_map. apply map_ext. intros s. destruct (tname_eqb (sw_target (swt s)) (TEl k) && zin (sel s) old); reflexivity. }
  (* a reference x to table (TEl k') that the step rewrote to cond x / remap lk x or left alone *)
  assert (Kref : forall k' x, In x (el_ids n k') -> In (if ekind_beq k k' then cond x else x) (el_ids n6 k')).
  { intros k' x Hx. pose proof (Kel k' x Hx) as H. destruct (ekind_beq k k') eqn:Ek; [|exact H].
    apply ekind_beq_eq in Ek. subst k'. rewrite (Hcond x Hx). exact H. }
  split.
  - split.
    + intros m Hm. rewrite Hmeas in Hm. apply in_map_iff in Hm. destruct Hm as [m0 [H1 H2]]. subst m.
      destruct (tname_eqb (mty m0) (TEl k) && zin (mel m0) old); exact (Tm m0 H2).
    + intros g Hg. rewrite Hgrp in Hg. apply in_map_iff in Hg. destruct Hg as [g0 [H1 H2]]. subst g.
      destruct (tname_eqb (gty g0) (TEl k)); exact (Tg g0 H2).
  - intros t x Rf. destruct Rf.
    + change (In b (bus_ids n6)). rewrite Kbus. apply (R TBus). rewrite Hel in H.
      destruct (ekind_beq k k0) eqn:Ek.
      * apply ekind_beq_eq in Ek. subst k0. apply in_map_iff in H. destruct H as [r0 [H1 H2]]. subst r. simpl in H0.
        eapply R_el; eauto.
      * eapply R_el; eauto.
    + change (In (sbus s) (bus_ids n6)). rewrite Kbus. rewrite Hsw in H. apply in_map_iff in H. destruct H as [s0 [H1 H2]]. subst s.
      destruct (tname_eqb (sw_target (swt s0)) (TEl k) && zin (sel s0) old); exact (R TBus _ (R_swb n s0 H2)).
    + rewrite Hsw in H. apply in_map_iff in H. destruct H as [s0 [H1 H2]]. subst s.
      pose proof (R _ _ (R_swe n s0 H2)) as Hin.
      destruct (tname_eqb (sw_target (swt s0)) (TEl k)) eqn:Et; cbn [andb].
      * apply tname_eqb_eq in Et. destruct (zin (sel s0) old) eqn:Zo; cbn [swt sel]; rewrite Et in *.
        -- pose proof (Kel k (sel s0) Hin) as H. rewrite ekind_beq_refl in H. exact H.
        -- pose proof (Kref k (sel s0) Hin) as H. rewrite ekind_beq_refl in H. unfold cond in H. rewrite Zo in H. exact H.
      * assert (Hgen : forall k1, sw_target (swt s0) = TEl k1 -> In (sel s0) (el_ids n6 k1)).
        { intros k1 Es. rewrite Es in Hin, Et. pose proof (Kel k1 (sel s0) Hin) as H. destruct (ekind_beq k k1) eqn:Ek; [|exact H].
          apply ekind_beq_eq in Ek. subst k1. simpl in Et. rewrite ekind_beq_refl in Et. discriminate. }
        destruct (swt s0); cbn [sw_target] in *.
        -- change (In (sel s0) (bus_ids n6)). rewrite Kbus. exact Hin.
        -- apply (Hgen Line). reflexivity.
        -- apply (Hgen Trafo). reflexivity.
        -- apply (Hgen Trafo3w). reflexivity.
    + rewrite Hmeas in H. apply in_map_iff in H. destruct H as [m0 [H1 H2]]. subst m.
      pose proof (R _ _ (R_meas n m0 H2)) as Hin. pose proof (Tm m0 H2) as Hty.
      destruct (tname_eqb (mty m0) (TEl k)) eqn:Et; cbn [andb].
      * apply tname_eqb_eq in Et. destruct (zin (mel m0) old) eqn:Zo; cbn [mty mel]; rewrite Et in *.
        -- pose proof (Kel k (mel m0) Hin) as H. rewrite ekind_beq_refl in H. exact H.
        -- pose proof (Kref k (mel m0) Hin) as H. rewrite ekind_beq_refl in H. unfold cond in H. rewrite Zo in H. exact H.
      * destruct (mty m0) as [| | | | |k1] eqn:Em; simpl in Hty; try discriminate.
        -- change (In (mel m0) (bus_ids n6)). rewrite Kbus. exact Hin.
        -- pose proof (Kel k1 (mel m0) Hin) as H. destruct (ekind_beq k k1) eqn:Ek; [|exact H].
           apply ekind_beq_eq in Ek. subst k1. simpl in Et. rewrite ekind_beq_refl in Et. discriminate.
    + change (In b (bus_ids n6)). rewrite Kbus. rewrite Hmeas in H. apply in_map_iff in H. destruct H as [m0 [H1 H2]]. subst m.
      destruct (tname_eqb (mty m0) (TEl k) && zin (mel m0) old); exact (R TBus _ (R_side n m0 b H2 H0)).
    + assert (Hc : exists c0, In c0 (pcost n ++ wcost n) /\ c = fixc c0).
      { rewrite Hpc, Hwc, <- map_app in H. apply in_map_iff in H. destruct H as [c0 [H1 H2]]. exists c0. split; [exact H2 | symmetry; exact H1]. }
      destruct Hc as [c0 [Hc0 Ec]]. subst c. pose proof (R _ _ (R_cost n c0 Hc0)) as Hin. simpl in Hin.
      change (In (cel (fixc c0)) (el_ids n6 (cet (fixc c0)))). unfold fixc.
      destruct (ekind_beq (cet c0) k) eqn:Ek; cbn [andb].
      * apply ekind_beq_eq in Ek. destruct (zin (cel c0) old) eqn:Zo; cbn [cet cel]; rewrite Ek in *.
        -- pose proof (Kel k (cel c0) Hin) as H1. rewrite ekind_beq_refl in H1. exact H1.
        -- pose proof (Kref k (cel c0) Hin) as H1. rewrite ekind_beq_refl in H1. unfold cond in H1. rewrite Zo in H1. exact H1.
      * pose proof (Kel (cet c0) (cel c0) Hin) as H1. destruct (ekind_beq k (cet c0)) eqn:Ek2; [|exact H1].
        apply ekind_beq_eq in Ek2. subst k. rewrite ekind_beq_refl in Ek. discriminate.
    + rewrite Hgrp in H. apply in_map_iff in H. destruct H as [g0 [H1 H2]]. subst g.
      pose proof (Tg g0 H2) as Hty.
      destruct (tname_eqb (gty g0) (TEl k)) eqn:Et.
      * apply tname_eqb_eq in Et. cbn [gty gmem] in *. apply in_map_iff in H0. destruct H0 as [x0 [Hx1 Hx2]]. subst x.
        pose proof (R _ _ (R_grp n g0 x0 H2 Hx2)) as Hin. rewrite Et in *.
        pose proof (Kref k x0 Hin) as H. rewrite ekind_beq_refl in H. exact H.
      * pose proof (R _ _ (R_grp n g0 x H2 H0)) as Hin. destruct (gty g0) as [| | | | |k1] eqn:Eg; simpl in Hty; try discriminate.
        -- change (In x (bus_ids n6)). rewrite Kbus. exact Hin.
        -- change (In x (map sid (sw n6))). rewrite Ksid. exact Hin.
        -- pose proof (Kel k1 x Hin) as H. destruct (ekind_beq k k1) eqn:Ek; [|exact H].
           apply ekind_beq_eq in Ek. subst k1. simpl in Et. rewrite ekind_beq_refl in Et. discriminate.
    + rewrite Hct in H. pose proof (R _ _ (R_ctrl n c x H H0)) as Hin. simpl in Hin.
      change (In x (el_ids n6 (ctty c))). pose proof (Kel (ctty c) x Hin) as H1.
      destruct (ekind_beq k (ctty c)) eqn:Ek; [|exact H1]. apply ekind_beq_eq in Ek.
      rewrite (G22_reindex_ctrl n k lk c x G H (eq_sym Ek) H0) in H1. exact H1.
    + change (In x (bus_ids n6)). rewrite Kbus. rewrite Hrb in H. apply (R TBus), R_rbus, H.
    + change (In x (el_ids n6 k0)). rewrite Hres in H. destruct (ekind_beq k k0) eqn:Ek.
      * apply ekind_beq_eq in Ek. subst k0. apply in_map_iff in H. destruct H as [x0 [H1 H2]]. subst x.
        pose proof (R _ _ (R_res n k x0 H2)) as Hin. pose proof (Kref k x0 Hin) as H. rewrite ekind_beq_refl in H. exact H.
      * pose proof (R _ _ (R_res n k0 x H)) as Hin. pose proof (Kel k0 x Hin) as H1. rewrite Ek in H1. exact H1.
Qed.

(* the repaired functions keep the invariant on the inputs that refute the old ones *)
Lemma repaired_on_witnesses :
  (exists n', reindex_elements w_t3 (TEl Trafo3w) [(0, 5)] = Ok n' /\ inv n' = true) /\
  (exists n', reindex_elements (set_resk w_load Load [0]) (TEl Load) [(0, 5)] = Ok n' /\ inv n' = true) /\
  (exists n', reindex_elements (set_meas w_load [{| mid := 0; mmt := 1%nat; mty := TEl Load; mel := 0; msd := SideNone |}])
                               (TEl Load) [(0, 5)] = Ok n' /\ inv n' = true) /\
  (exists n', drop_buses (set_ctrl (set_elk w_bus2 Load [{| eid := 0; ebus := [1]; eis := true |}])
                                   [{| ctid := 0; ctty := Load; ctidx := [0]; ctsingle := false |}]) [1] true = Ok n' /\ inv n' = true) /\
  (exists n', fuse_buses (set_meas (set_elk w_bus3 Line [{| eid := 0; ebus := [1; 2]; eis := true |}])
                                   [{| mid := 0; mmt := 1%nat; mty := TEl Line; mel := 0; msd := SideBus 1 |}]) 0 [1] true true = Ok n'
              /\ inv n' = true).
Proof. repeat split; eexists; (split; vm_compute; reflexivity). Qed.

