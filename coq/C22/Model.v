(* C22 — relational model of a pandapower net (primary keys and foreign keys only) and a faithful
   transcription of the toolbox edits
     pandapower/toolbox/grid_modification.py  (select_subnet :40, _merge_nets :201, fuse_buses :613,
        drop_elements :649, drop_elements_simple :663, drop_buses :690, drop_trafos :708, drop_lines :737,
        drop_elements_at_buses :763, drop_switches_at_buses :801, drop_measurements_at_elements :808,
        drop_duplicated_measurements :878, _inner_branches :894)
     pandapower/toolbox/data_modification.py  (reindex_buses :136, create_continuous_bus_index :188,
        reindex_elements :210, create_continuous_elements_index :328)
     pandapower/groups.py detach_from_groups :225,  pandapower/create/* existence checks
   AS THEY ARE in /repo (defects included).  pandas semantics used: df.drop(labels) and df.loc[labels] raise
   KeyError on a missing label; get_indices(sel, lookup) = [lookup[k] for k in sel] raises KeyError on a missing
   key; pd.Index.difference returns the sorted, de-duplicated difference.
   Executable definitions only. *)
From Coq Require Import ZArith List Bool String.
From PPV Require Import Base.Out.
Import ListNotations.
Open Scope Z_scope.

(* ------------------------------------------------------------------ schema *)
Inductive ekind := Load | Sgen | Gen | ExtGrid | Shunt | Ward | Xward | Storage
                 | Line | Impedance | Trafo | Trafo3w | Dcline | Svc.
Scheme Equality for ekind.
(* names of tables that can be reindexed / be group member types / measurement element types *)
Inductive tname := TBus | TSwitch | TMeas | TPcost | TWcost | TEl (k : ekind).
Definition tname_eqb (a b : tname) : bool :=
  match a, b with
  | TBus, TBus | TSwitch, TSwitch | TMeas, TMeas | TPcost, TPcost | TWcost, TWcost => true
  | TEl x, TEl y => ekind_beq x y
  | _, _ => false
  end.
Inductive swet := SB | SL | ST | ST3.            (* switch.et  'b' 'l' 't' 't3' *)
Definition swet_eqb (a b : swet) : bool :=
  match a, b with SB, SB | SL, SL | ST, ST | ST3, ST3 => true | _, _ => false end.
Definition sw_target (e : swet) : tname :=
  match e with SB => TBus | SL => TEl Line | ST => TEl Trafo | ST3 => TEl Trafo3w end.
Inductive side := SideNone | SideStr (c : nat) | SideBus (b : Z).   (* measurement.side: NaN, "from"/"hv"/.., bus index *)

Record erow := { eid : Z; ebus : list Z; eis : bool }.        (* element row: index, bus columns, in_service *)
Record swrow := { sid : Z; sbus : Z; swt : swet; sel : Z; sclosed : bool }.
Record mrow := { mid : Z; mmt : nat; mty : tname; mel : Z; msd : side }.  (* measurement_type code, element_type, element, side *)
Record crow := { cid : Z; cet : ekind; cel : Z }.
Record grow := { gid : Z; gty : tname; gmem : list Z }.       (* one net.group row, reference_column = None *)
Record ctrow := { ctid : Z; ctty : ekind; ctidx : list Z; ctsingle : bool }.  (* controller object: element, element_index *)

Record net := {
  bus : list (Z * bool);                (* net.bus: index, in_service *)
  el : ekind -> list erow;
  sw : list swrow;
  meas : list mrow;
  pcost : list crow;
  wcost : list crow;
  grp : list grow;
  ctrl : list ctrow;
  rbus : list Z;                        (* res_bus.index *)
  res : ekind -> list Z                 (* res_<kind>.index *)
}.

Inductive result (A : Type) := Ok (a : A) | Err (s : string).
Arguments Ok {A} a. Arguments Err {A} s.
Definition bind {A B} (r : result A) (f : A -> result B) : result B :=
  match r with Ok a => f a | Err s => Err s end.
Notation "'do' x <- r ; f" := (bind r (fun x => f)) (at level 200, x name, r at level 100, f at level 200).

(* ------------------------------------------------------------------ small library *)
Definition zin (x : Z) (l : list Z) : bool := existsb (Z.eqb x) l.
Definition allin (l m : list Z) : bool := forallb (fun x => zin x m) l.
Fixpoint zinsert (x : Z) (l : list Z) : list Z :=
  match l with
  | [] => [x]
  | y :: t => if x <? y then x :: l else if x =? y then l else y :: zinsert x t
  end.
Definition zsort_uniq (l : list Z) : list Z := fold_right zinsert [] l.        (* sorted, de-duplicated *)
(* pd.Index(l).difference(d): sorted unique difference; with an empty d pandas returns l.unique() (order kept) *)
Fixpoint zuniq (seen l : list Z) : list Z :=
  match l with [] => [] | x :: t => if zin x seen then zuniq seen t else x :: zuniq (x :: seen) t end.
Definition zdiff (l d : list Z) : list Z :=
  match d with [] => zuniq [] l | _ => zsort_uniq (filter (fun x => negb (zin x d)) l) end.
Fixpoint zmax (l : list Z) : option Z :=
  match l with [] => None | x :: t => match zmax t with None => Some x | Some m => Some (Z.max x m) end end.
Fixpoint zrange (start : Z) (n : nat) : list Z :=
  match n with O => [] | S k => start :: zrange (start + 1) k end.

(* python dict built by dict(zip(keys, vals)) / a dict literal: the last binding of a key wins *)
Definition lookup (lk : list (Z * Z)) (k : Z) : option Z :=
  fold_left (fun acc kv => if fst kv =? k then Some (snd kv) else acc) lk None.
Definition haskey (lk : list (Z * Z)) (k : Z) : bool := zin k (map fst lk).
Fixpoint get_indices (sel : list Z) (lk : list (Z * Z)) : result (list Z) :=    (* auxiliary.py:577 *)
  match sel with
  | [] => Ok []
  | k :: t => match lookup lk k with
              | None => Err "KeyError"
              | Some v => do r <- get_indices t lk; Ok (v :: r)
              end
  end.
(* x -> lookup[x] when x is a key, else x   (used where the impl restricts the update to isin(old_indices)) *)
Definition remap (lk : list (Z * Z)) (x : Z) : Z := match lookup lk x with Some v => v | None => x end.

Definition ekinds : list ekind :=
  [Load; Sgen; Gen; ExtGrid; Shunt; Ward; Xward; Storage; Line; Impedance; Trafo; Trafo3w; Dcline; Svc].
(* toolbox/element_selection.py:656 element_bus_tuples(): the tables whose bus columns the toolbox knows.
   Svc stands for the tables that are NOT listed there (svc, ssc, tcsc, vsc, ...). *)
Definition in_bus_tuples (k : ekind) : bool := match k with Svc => false | _ => true end.
Definition bus_elements : list ekind := [Sgen; Load; ExtGrid; Gen; Ward; Xward; Shunt; Storage].
Definition branch_elements : list ekind := [Line; Impedance; Trafo; Trafo3w; Dcline].

Definition upd {A} (f : ekind -> A) (k : ekind) (v : A) : ekind -> A :=
  fun k' => if ekind_beq k k' then v else f k'.
Definition set_bus n v := {| bus := v; el := el n; sw := sw n; meas := meas n; pcost := pcost n; wcost := wcost n; grp := grp n; ctrl := ctrl n; rbus := rbus n; res := res n |}.
Definition set_el n v := {| bus := bus n; el := v; sw := sw n; meas := meas n; pcost := pcost n; wcost := wcost n; grp := grp n; ctrl := ctrl n; rbus := rbus n; res := res n |}.
Definition set_sw n v := {| bus := bus n; el := el n; sw := v; meas := meas n; pcost := pcost n; wcost := wcost n; grp := grp n; ctrl := ctrl n; rbus := rbus n; res := res n |}.
Definition set_meas n v := {| bus := bus n; el := el n; sw := sw n; meas := v; pcost := pcost n; wcost := wcost n; grp := grp n; ctrl := ctrl n; rbus := rbus n; res := res n |}.
Definition set_pcost n v := {| bus := bus n; el := el n; sw := sw n; meas := meas n; pcost := v; wcost := wcost n; grp := grp n; ctrl := ctrl n; rbus := rbus n; res := res n |}.
Definition set_wcost n v := {| bus := bus n; el := el n; sw := sw n; meas := meas n; pcost := pcost n; wcost := v; grp := grp n; ctrl := ctrl n; rbus := rbus n; res := res n |}.
Definition set_grp n v := {| bus := bus n; el := el n; sw := sw n; meas := meas n; pcost := pcost n; wcost := wcost n; grp := v; ctrl := ctrl n; rbus := rbus n; res := res n |}.
Definition set_ctrl n v := {| bus := bus n; el := el n; sw := sw n; meas := meas n; pcost := pcost n; wcost := wcost n; grp := grp n; ctrl := v; rbus := rbus n; res := res n |}.
Definition set_rbus n v := {| bus := bus n; el := el n; sw := sw n; meas := meas n; pcost := pcost n; wcost := wcost n; grp := grp n; ctrl := ctrl n; rbus := v; res := res n |}.
Definition set_res n v := {| bus := bus n; el := el n; sw := sw n; meas := meas n; pcost := pcost n; wcost := wcost n; grp := grp n; ctrl := ctrl n; rbus := rbus n; res := v |}.
Definition set_elk n k v := set_el n (upd (el n) k v).
Definition set_resk n k v := set_res n (upd (res n) k v).

Definition empty_net : net :=
  {| bus := []; el := fun _ => []; sw := []; meas := []; pcost := []; wcost := []; grp := []; ctrl := [];
     rbus := []; res := fun _ => [] |}.

Definition bus_ids (n : net) : list Z := map fst (bus n).
Definition el_ids (n : net) (k : ekind) : list Z := map eid (el n k).
(* primary keys of a table *)
Definition keys (n : net) (t : tname) : list Z :=
  match t with
  | TBus => bus_ids n | TSwitch => map sid (sw n) | TMeas => map mid (meas n)
  | TPcost => map cid (pcost n) | TWcost => map cid (wcost n) | TEl k => el_ids n k
  end.

(* ------------------------------------------------------------------ the invariant (boolean) *)
Definition side_ok (n : net) (s : side) : bool := match s with SideBus b => zin b (bus_ids n) | _ => true end.
Definition meas_ty_ok (t : tname) : bool := match t with TBus | TEl _ => true | _ => false end.
Definition grp_ty_ok (t : tname) : bool := match t with TBus | TSwitch | TEl _ => true | _ => false end.
Definition inv_el (n : net) : bool :=
  forallb (fun k => forallb (fun r => allin (ebus r) (bus_ids n)) (el n k)) ekinds.
Definition inv_sw (n : net) : bool :=
  forallb (fun s => zin (sbus s) (bus_ids n) && zin (sel s) (keys n (sw_target (swt s)))) (sw n).
Definition inv_meas (n : net) : bool :=
  forallb (fun m => meas_ty_ok (mty m) && zin (mel m) (keys n (mty m)) && side_ok n (msd m)) (meas n).
Definition inv_cost (n : net) : bool :=
  forallb (fun c => zin (cel c) (el_ids n (cet c))) (pcost n ++ wcost n).
Definition inv_grp (n : net) : bool :=
  forallb (fun g => grp_ty_ok (gty g) && allin (gmem g) (keys n (gty g))) (grp n).
Definition inv_ctrl (n : net) : bool :=
  forallb (fun c => allin (ctidx c) (el_ids n (ctty c))) (ctrl n).
Definition inv_res (n : net) : bool :=
  allin (rbus n) (bus_ids n) && forallb (fun k => allin (res n k) (el_ids n k)) ekinds.
Definition inv (n : net) : bool :=
  inv_el n && inv_sw n && inv_meas n && inv_cost n && inv_grp n && inv_ctrl n && inv_res n.

(* ------------------------------------------------------------------ create_* (create/*.py) *)
(* _get_index_with_check / _check_element raise UserWarning *)
Definition create_bus (n : net) (i : Z) : result net :=
  if zin i (bus_ids n) then Err "UserWarning" else Ok (set_bus n (bus n ++ [(i, true)])).
Definition create_el (n : net) (k : ekind) (i : Z) (bs : list Z) : result net :=
  if zin i (el_ids n k) || negb (allin bs (bus_ids n)) then Err "UserWarning"
  else Ok (set_elk n k (el n k ++ [{| eid := i; ebus := bs; eis := true |}])).
(* switch_create.py:90-119 *)
Definition create_switch (n : net) (i b : Z) (e : swet) (x : Z) : result net :=
  let ok := zin b (bus_ids n) &&
            match e with
            | SB => zin x (bus_ids n)
            | SL => existsb (fun r => (eid r =? x) && zin b (ebus r)) (el n Line)
            | ST => existsb (fun r => (eid r =? x) && zin b (ebus r)) (el n Trafo)
            | ST3 => existsb (fun r => (eid r =? x) && zin b (ebus r)) (el n Trafo3w)
            end in
  if negb ok || zin i (map sid (sw n)) then Err "UserWarning"
  else Ok (set_sw n (sw n ++ [{| sid := i; sbus := b; swt := e; sel := x; sclosed := true |}])).
(* measurement_create.py:89-92: the element must exist; the side is not checked *)
Definition create_meas (n : net) (i : Z) (mt : nat) (t : tname) (x : Z) (s : side) : result net :=
  if negb (zin x (keys n t)) || zin i (map mid (meas n)) then Err "UserWarning"
  else Ok (set_meas n (meas n ++ [{| mid := i; mmt := mt; mty := t; mel := x; msd := s |}])).
(* cost_create.py:218-221: only the duplicate-cost check and the index check — the element is NOT checked *)
Definition cost_exists (n : net) (k : ekind) (x : Z) : bool :=
  existsb (fun c => ekind_beq (cet c) k && (cel c =? x)) (pcost n ++ wcost n).
Definition create_cost (n : net) (poly : bool) (i : Z) (k : ekind) (x : Z) : result net :=
  if cost_exists n k x then Err "UserWarning"
  else if poly then (if zin i (map cid (pcost n)) then Err "UserWarning"
                     else Ok (set_pcost n (pcost n ++ [{| cid := i; cet := k; cel := x |}])))
  else (if zin i (map cid (wcost n)) then Err "UserWarning"
        else Ok (set_wcost n (wcost n ++ [{| cid := i; cet := k; cel := x |}]))).

(* create/group_create.py:23 (one element type, reference_column None): _check_elements_existence raises UserWarning;
   the group index must be new *)
Definition create_group (n : net) (g : Z) (t : tname) (mem : list Z) : result net :=
  if negb (grp_ty_ok t) || negb (allin mem (keys n t)) || zin g (map gid (grp n)) then Err "UserWarning"
  else Ok (set_grp n (grp n ++ [{| gid := g; gty := t; gmem := mem |}])).
(* a controller object with .element / .element_index is appended to net.controller; its constructor does not
   look at the element table (ConstControl) *)
Definition create_ctrl (n : net) (k : ekind) (idx : list Z) (single : bool) : result net :=
  let i := match zmax (map ctid (ctrl n)) with Some m => m + 1 | None => 0 end in
  Ok (set_ctrl n (ctrl n ++ [{| ctid := i; ctty := k; ctidx := idx; ctsingle := single |}])).

(* ------------------------------------------------------------------ groups.py:225 detach_from_groups (index = None) *)
Definition detach (n : net) (t : tname) (ids : list Z) : net :=
  set_grp n (flat_map (fun g =>
     if tname_eqb (gty g) t then
       let m := zdiff (gmem g) ids in
       match m with [] => [] | _ => [{| gid := gid g; gty := gty g; gmem := m |}] end
     else [g]) (grp n)).

(* ------------------------------------------------------------------ drop_* *)
(* grid_modification.py:808 *)
Definition drop_meas_at (n : net) (t : tname) (ids : list Z) : net :=
  set_meas n (filter (fun m => negb (tname_eqb (mty m) t && zin (mel m) ids)) (meas n)).
(* df.drop(labels): KeyError when a label is missing *)
Definition drop_rows_el (n : net) (k : ekind) (ids : list Z) : result net :=
  if allin ids (el_ids n k) then Ok (set_elk n k (filter (fun r => negb (zin (eid r) ids)) (el n k)))
  else Err "KeyError".
Definition drop_res (n : net) (k : ekind) (ids : list Z) : net :=
  set_resk n k (filter (fun i => negb (zin i ids)) (res n k)).
(* :737 drop_lines / :708 drop_trafos, parameterised by the switch type and the table *)
Definition drop_branch_sw (n : net) (k : ekind) (e : swet) (ids : list Z) : result net :=
  match ids with
  | [] => Ok n
  | _ =>
    let i := map sid (filter (fun s => zin (sel s) ids && swet_eqb (swt s) e) (sw n)) in
    let n := detach n TSwitch i in
    let n := set_sw n (filter (fun s => negb (zin (sid s) i)) (sw n)) in
    let n := drop_meas_at n (TEl k) ids in
    let n := detach n (TEl k) ids in
    do n <- drop_rows_el n k ids;
    Ok (drop_res n k ids)
  end.
Definition drop_lines n ids := drop_branch_sw n Line SL ids.
Definition drop_trafos n (three : bool) ids :=
  if three then drop_branch_sw n Trafo3w ST3 ids else drop_branch_sw n Trafo ST ids.

(* :663 drop_elements_simple: groups, table rows, result rows — nothing else *)
Definition drop_costs_of (n : net) (k : ekind) (ids : list Z) : net :=
  let keep := fun c => negb (ekind_beq (cet c) k && zin (cel c) ids) in
  set_wcost (set_pcost n (filter keep (pcost n))) (filter keep (wcost n)).
(* fixed = after "fix: drop_elements_simple also drops the measurements and costs of the dropped elements" *)
Definition drop_simple_el_gen (fixed : bool) (n : net) (k : ekind) (ids : list Z) : result net :=
  let n := detach n (TEl k) ids in
  do n <- drop_rows_el n k ids;
  let n := if fixed then drop_costs_of (drop_meas_at n (TEl k) ids) k ids else n in
  Ok (drop_res n k ids).
Definition drop_simple_el := drop_simple_el_gen true.
Definition drop_simple_el_old := drop_simple_el_gen false.

(* :763 drop_elements_at_buses, one (element_type, column) tuple; col = position of the bus column *)
Definition at_buses (k : ekind) (col : nat) (buses : list Z) (r : erow) : bool :=
  match nth_error (ebus r) col with Some b => zin b buses | None => false end.
Definition drop_el_at_buses_col (n : net) (k : ekind) (col : nat) (buses : list Z) : result net :=
  let ids := map eid (filter (at_buses k col buses) (el n k)) in
  match ids with
  | [] => Ok n                                            (* elif any(...) *)
  | _ =>
    match k with
    | Line => drop_lines n ids
    | Trafo => drop_trafos n false ids
    | Trafo3w => drop_trafos n true ids
    | _ =>
      let n := detach n (TEl k) ids in
      let n := set_elk n k (filter (fun r => negb (zin (eid r) ids)) (el n k)) in
      let n := drop_meas_at n (TEl k) ids in
      let n := drop_res n k ids in
      Ok (drop_costs_of n k ids)
    end
  end.
(* :801 *)
Definition drop_switches_at_buses_gen (fixed : bool) (n : net) (buses : list Z) : net :=
  let hit := fun s => zin (sbus s) buses || (zin (sel s) buses && swet_eqb (swt s) SB) in
  (* fixed = after "fix: drop_switches_at_buses detaches the dropped switches from groups" *)
  let n := if fixed then detach n TSwitch (map sid (filter hit (sw n))) else n in
  set_sw n (filter (fun s => negb (hit s)) (sw n)).
(* the tuple list of element_bus_tuples() in its order, switch marked by None *)
Definition tuples : list (option (ekind * nat)) :=
  [Some (Sgen, 0); Some (Load, 0); Some (ExtGrid, 0); Some (Gen, 0); Some (Ward, 0); Some (Xward, 0); Some (Shunt, 0);
   Some (Storage, 0); Some (Line, 0); Some (Line, 1); Some (Impedance, 0); Some (Impedance, 1); None;
   Some (Trafo, 0); Some (Trafo, 1); Some (Trafo3w, 0); Some (Trafo3w, 1); Some (Trafo3w, 2);
   Some (Dcline, 0); Some (Dcline, 1)]%nat.
Fixpoint drop_at_buses_loop (fx : bool) (n : net) (ts : list (option (ekind * nat))) (buses : list Z) : result net :=
  match ts with
  | [] => Ok n
  | None :: r => drop_at_buses_loop fx (drop_switches_at_buses_gen fx n buses) r buses
  | Some (k, c) :: r => do n <- drop_el_at_buses_col n k c buses; drop_at_buses_loop fx n r buses
  end.
Definition drop_elements_at_buses (fx : bool) (n : net) (buses : list Z) : result net :=
  do n <- drop_at_buses_loop fx n tuples buses;
  Ok (drop_meas_at n TBus buses).

(* :869 drop_controllers_at_buses -> get_connected_elements_dict(net, buses) (respect_switches=True) ->
   drop_controllers_at_elements per element type.  element_selection.py:198-203: elements behind an OPEN switch at one of
   the buses do not count as connected; for trafo3w the code iterates over the characters of "t3w", i.e. it looks at the
   open 't' (two-winding) switches. *)
Definition connected (n : net) (k : ekind) (buses : list Z) : list Z :=
  if in_bus_tuples k then
    let conn := map eid (filter (fun r => existsb (fun b => zin b buses) (ebus r)) (el n k)) in
    let c := match k with Line => Some SL | Trafo => Some ST | Trafo3w => Some ST | _ => None end in
    match c with
    | Some c => let openel := map sel (filter (fun s => zin (sbus s) buses && swet_eqb (swt s) c && negb (sclosed s) &&
                                                   zin (sel s) conn) (sw n)) in
                filter (fun i => negb (zin i openel)) conn
    | None => conn
    end
  else [].
Definition drop_controllers_at (n : net) (k : ekind) (ids : list Z) : net :=
  match ids with
  | [] => n
  | _ => set_ctrl n (flat_map (fun c =>
           if ekind_beq (ctty c) k then
             let stay := filter (fun i => negb (zin i ids)) (ctidx c) in
             match stay with
             | [] => []
             | _ => if ctsingle c then [c] else [{| ctid := ctid c; ctty := ctty c; ctidx := stay; ctsingle := false |}]
             end
           else [c]) (ctrl n))
  end.
Definition drop_controllers_at_buses (n : net) (buses : list Z) : net :=
  fold_left (fun n k => drop_controllers_at n k (connected n k buses)) ekinds n.

(* :690 drop_buses.  fixed = after "fix: drop_buses drops the controllers of the connected elements before the elements
   themselves"; before, drop_controllers_at_buses ran after the elements were gone and found nothing (a no-op). *)
Definition drop_buses_gen (fx : bool) (n : net) (buses : list Z) (drop_elements : bool) : result net :=
  match buses with
  | [] => Ok n
  | _ =>
    let n := detach n TBus buses in
    if negb (allin buses (bus_ids n)) then Err "KeyError" else
    let n := set_bus n (filter (fun b => negb (zin (fst b) buses)) (bus n)) in
    let n := set_rbus n (filter (fun i => negb (zin i buses)) (rbus n)) in
    if drop_elements then
      let n := if fx then drop_controllers_at_buses n buses else n in
      do n <- drop_elements_at_buses fx n buses;
      Ok (drop_meas_at n TBus buses)
    else Ok n
  end.
Definition drop_buses := drop_buses_gen true.
Definition drop_buses_old := drop_buses_gen false.

(* :649 drop_elements dispatch ("trafo" in element_type) *)
Definition drop_elements (n : net) (t : tname) (ids : list Z) : result net :=
  match t with
  | TBus => drop_buses n ids true
  | TEl Trafo => drop_trafos n false ids
  | TEl Trafo3w => drop_trafos n true ids
  | TEl Line => drop_lines n ids
  | TEl k => drop_simple_el n k ids
  | TSwitch =>                                   (* drop_elements_simple(net, "switch", ..): no res table *)
      let n := detach n TSwitch ids in
      if allin ids (map sid (sw n)) then Ok (set_sw n (filter (fun s => negb (zin (sid s) ids)) (sw n))) else Err "KeyError"
  | TMeas =>
      let n := detach n TMeas ids in
      if allin ids (map mid (meas n)) then Ok (set_meas n (filter (fun m => negb (zin (mid m) ids)) (meas n))) else Err "KeyError"
  | _ => Err "Unsupported"
  end.

(* ------------------------------------------------------------------ :613 fuse_buses *)
Definition reroute (b2 : list Z) (b1 : Z) (x : Z) : Z := if zin x b2 then b1 else x.
(* :878 drop_duplicated_measurements(net, buses=[b1]), keep="first" on (measurement_type, element_type, side, element) *)
Definition side_eqb (a b : side) : bool :=
  match a, b with
  | SideNone, SideNone => true | SideStr x, SideStr y => Nat.eqb x y | SideBus x, SideBus y => x =? y | _, _ => false end.
Fixpoint dedup_meas (seen : list mrow) (l : list mrow) (b1 : Z) : list mrow :=
  match l with
  | [] => []
  | m :: t =>
    if tname_eqb (mty m) TBus && (mel m =? b1) then
      if existsb (fun s => Nat.eqb (mmt s) (mmt m) && side_eqb (msd s) (msd m)) seen then dedup_meas seen t b1
      else m :: dedup_meas (m :: seen) t b1
    else m :: dedup_meas seen t b1
  end.
(* :894 _inner_branches(task="drop", buses=[b1]) in the order of branch_element_bus_dict(include_switch=True) *)
Definition all_at (b1 : Z) (r : erow) : bool := forallb (fun b => b =? b1) (ebus r).
Definition drop_inner_branches_gen (fx : bool) (n : net) (b1 : Z) : result net :=
  let inner k := map eid (filter (all_at b1) (el n k)) in
  do n <- drop_lines n (inner Line);
  let ii := map eid (filter (all_at b1) (el n Impedance)) in
  (* before the repair: plain df.drop, no cascade *)
  do n <- (match ii with [] => Ok n | _ =>
           if fx then drop_simple_el n Impedance ii
           else Ok (set_elk n Impedance (filter (fun r => negb (zin (eid r) ii)) (el n Impedance))) end);
  let isw := fun s => (sbus s =? b1) && (sel s =? b1) && swet_eqb (swt s) SB in
  let n := if fx then detach n TSwitch (map sid (filter isw (sw n))) else n in
  let n := set_sw n (filter (fun s => negb (isw s)) (sw n)) in
  do n <- drop_trafos n false (map eid (filter (all_at b1) (el n Trafo)));
  (* before the repair drop_trafos(net, idx) was called WITHOUT table= for trafo3w, i.e. on net.trafo (:916-917) *)
  do n <- drop_trafos n fx (map eid (filter (all_at b1) (el n Trafo3w)));
  let di := map eid (filter (all_at b1) (el n Dcline)) in
  match di with [] => Ok n | _ =>
    if fx then drop_simple_el n Dcline di
    else Ok (set_elk n Dcline (filter (fun r => negb (zin (eid r) di)) (el n Dcline))) end.

Definition fuse_buses_gen (fx : bool) (n : net) (b1 : Z) (b2in : list Z) (drop fuse_meas : bool) : result net :=
  let b2 := filter (fun x => negb (x =? b1)) (zsort_uniq b2in) in
  (* element_bus_tuples(): every listed bus column (svc & co. are not listed) *)
  let n := set_el n (fun k => if in_bus_tuples k
                              then map (fun r => {| eid := eid r; ebus := map (reroute b2 b1) (ebus r); eis := eis r |}) (el n k)
                              else el n k) in
  let n := set_sw n (map (fun s => {| sid := sid s; sbus := reroute b2 b1 (sbus s); swt := swt s; sel := if swet_eqb (swt s) SB then reroute b2 b1 (sel s) else sel s; sclosed := sclosed s |}) (sw n)) in
  let n := if fuse_meas then
             set_meas n (map (fun m => if tname_eqb (mty m) TBus
                                       then {| mid := mid m; mmt := mmt m; mty := mty m; mel := reroute b2 b1 (mel m); msd := msd m |}
                                       else m) (meas n))
           else n in
  (* fixed = after "fix: fuse_buses reroutes measurement sides that are given as bus index" *)
  let n := if fuse_meas && fx then
             set_meas n (map (fun m => match msd m with
                                       | SideBus b => {| mid := mid m; mmt := mmt m; mty := mty m; mel := mel m; msd := SideBus (reroute b2 b1 b) |}
                                       | _ => m end) (meas n))
           else n in
  if drop then
    do n <- drop_buses_gen fx n b2 false;
    do n <- drop_inner_branches_gen fx n b1;
    Ok (if fuse_meas then set_meas n (dedup_meas [] (meas n) b1) else n)
  else Ok n.

Definition fuse_buses := fuse_buses_gen true.
Definition fuse_buses_old := fuse_buses_gen false.

(* ------------------------------------------------------------------ data_modification.py:136 reindex_buses *)
Fixpoint mapM {A B} (f : A -> result B) (l : list A) : result (list B) :=
  match l with [] => Ok [] | a :: t => do b <- f a; do r <- mapM f t; Ok (b :: r) end.
Definition lk1 (lk : list (Z * Z)) (x : Z) : result Z :=
  match lookup lk x with Some v => Ok v | None => Err "KeyError" end.

Definition reindex_buses (n : net) (lk0 : list (Z * Z)) : result net :=
  (* :150-152 buses missing in the lookup keep their index *)
  let lk := lk0 ++ map (fun b => (b, b)) (filter (fun b => negb (haskey lk0 b)) (zsort_uniq (bus_ids n))) in
  do nb <- mapM (fun b => do i <- lk1 lk (fst b); Ok (i, snd b)) (bus n);
  do nr <- get_indices (rbus n) lk;
  (* :161 every column of element_bus_tuples() *)
  do els <- mapM (fun k => if in_bus_tuples k
                           then mapM (fun r => do bs <- get_indices (ebus r) lk; Ok {| eid := eid r; ebus := bs; eis := eis r |}) (el n k)
                           else Ok (el n k)) ekinds;
  do sws <- mapM (fun s => do b <- lk1 lk (sbus s); Ok {| sid := sid s; sbus := b; swt := swt s; sel := sel s; sclosed := sclosed s |}) (sw n);
  (* :167 groups of element_type bus *)
  do gs <- mapM (fun g => if tname_eqb (gty g) TBus then do m <- get_indices (gmem g) lk; Ok {| gid := gid g; gty := gty g; gmem := m |}
                          else Ok g) (grp n);
  (* :174-179 bus measurements and numeric sides *)
  do ms <- mapM (fun m => do e <- (if tname_eqb (mty m) TBus then lk1 lk (mel m) else Ok (mel m));
                          do s <- (match msd m with SideBus b => do b' <- lk1 lk b; Ok (SideBus b') | s => Ok s end);
                          Ok {| mid := mid m; mmt := mmt m; mty := mty m; mel := e; msd := s |}) (meas n);
  (* :182 bus-bus switches *)
  do sws <- mapM (fun s => if swet_eqb (swt s) SB then do e <- lk1 lk (sel s); Ok {| sid := sid s; sbus := sbus s; swt := swt s; sel := e; sclosed := sclosed s |}
                           else Ok s) sws;
  let find k := (fix go (ks : list ekind) (vs : list (list erow)) : list erow :=
                   match ks, vs with
                   | k' :: ks', v :: vs' => if ekind_beq k' k then v else go ks' vs'
                   | _, _ => []
                   end) ekinds els in
  Ok (set_meas (set_grp (set_sw (set_el (set_rbus (set_bus n nb) nr) find) sws) gs) ms).

(* :188 create_continuous_bus_index *)
Definition cont_bus_index (n : net) (start : Z) : result net :=
  let ids := zsort_uniq (bus_ids n) in
  (* net.bus.sort_index(inplace=True) *)
  let sorted := flat_map (fun i => filter (fun b => fst b =? i) (bus n)) ids in
  reindex_buses (set_bus n sorted) (combine ids (zrange start (List.length ids))).

(* ------------------------------------------------------------------ :210 reindex_elements (lookup form) *)
Definition et_char (t : tname) : option swet :=          (* element_type in ["line","trafo"] -> element_type[0] *)
  match t with TEl Line => Some SL | TEl Trafo => Some ST | _ => None end.
Definition reindex_table (n : net) (t : tname) (lk : list (Z * Z)) : net :=
  match t with
  | TBus => n
  | TSwitch => set_sw n (map (fun s => {| sid := remap lk (sid s); sbus := sbus s; swt := swt s; sel := sel s; sclosed := sclosed s |}) (sw n))
  | TMeas => set_meas n (map (fun m => {| mid := remap lk (mid m); mmt := mmt m; mty := mty m; mel := mel m; msd := msd m |}) (meas n))
  | TPcost => set_pcost n (map (fun c => {| cid := remap lk (cid c); cet := cet c; cel := cel c |}) (pcost n))
  | TWcost => set_wcost n (map (fun c => {| cid := remap lk (cid c); cet := cet c; cel := cel c |}) (wcost n))
  | TEl k => set_elk n k (map (fun r => {| eid := remap lk (eid r); ebus := ebus r; eis := eis r |}) (el n k))
  end.
(* fx = after "fix: reindex_elements updates trafo3w switches, all measurements, the result table and partially looked-up
   group members" *)
Definition reindex_elements_gen (fx : bool) (n : net) (t : tname) (lk : list (Z * Z)) : result net :=
  match keys n t, lk with
  | [], _ => Ok n                                   (* :250 empty table *)
  | _, [] => Ok n                                   (* :256 empty lookup *)
  | _, _ =>
  match t with
  | TBus => reindex_buses n lk                      (* :267 *)
  | _ =>
    let old := filter (fun i => haskey lk i) (keys n t) in       (* index.intersection(lookup.keys()) *)
    let cond := fun x => if zin x old then remap lk x else x in
    let n := reindex_table n t lk in                               (* :272-277 *)
    (* result table: only after the repair *)
    let n := match t with TEl k => if fx then set_resk n k (map cond (res n k)) else n | _ => n end in
    (* groups of this element type; before the repair EVERY member went through get_indices -> KeyError for a member
       that is not a key *)
    do gs <- mapM (fun g => if tname_eqb (gty g) t
                            then (if fx then Ok {| gid := gid g; gty := gty g; gmem := map cond (gmem g) |}
                                  else do m <- get_indices (gmem g) lk; Ok {| gid := gid g; gty := gty g; gmem := m |})
                            else Ok g) (grp n);
    let n := set_grp n gs in
    (* measurements: before the repair only for line / trafo / trafo3w *)
    let domeas := if fx then true else match t with TEl Line | TEl Trafo | TEl Trafo3w => true | _ => false end in
    let n := if domeas then
                 set_meas n (map (fun m => if tname_eqb (mty m) t && zin (mel m) old
                                           then {| mid := mid m; mmt := mmt m; mty := mty m; mel := remap lk (mel m); msd := msd m |}
                                           else m) (meas n))
             else n in
    (* switches: the repaired code maps line -> 'l', trafo -> 't', trafo3w -> 't3', i.e. exactly the switches whose et
       denotes this table (sw_target); before the repair only for line / trafo (not trafo3w) *)
    let n := if fx then
               set_sw n (map (fun s => if tname_eqb (sw_target (swt s)) t && zin (sel s) old
                                       then {| sid := sid s; sbus := sbus s; swt := swt s; sel := remap lk (sel s); sclosed := sclosed s |}
                                       else s) (sw n))
             else match et_char t with
             | Some c => set_sw n (map (fun s => if swet_eqb (swt s) c && zin (sel s) old
                                                 then {| sid := sid s; sbus := sbus s; swt := swt s; sel := remap lk (sel s); sclosed := sclosed s |}
                                                 else s) (sw n))
             | None => n end in
    (* :312 cost tables *)
    let fixc := fun c => match t with
                         | TEl k => if ekind_beq (cet c) k && zin (cel c) old then {| cid := cid c; cet := cet c; cel := remap lk (cel c) |} else c
                         | _ => c end in
    Ok (set_wcost (set_pcost n (map fixc (pcost n))) (map fixc (wcost n)))
    (* controllers are not touched *)
  end
  end.
Definition reindex_elements := reindex_elements_gen true.
Definition reindex_elements_old := reindex_elements_gen false.

(* ------------------------------------------------------------------ :328 create_continuous_elements_index
   pp_elements(res_elements=True) minus bus: every table of element_bus_tuples + measurement, and their res_ tables,
   each sorted and renumbered start.. by reindex_elements(net, et, new_index). *)
Definition sort_by {A} (key : A -> Z) (l : list A) : list A :=
  flat_map (fun i => filter (fun r => key r =? i) l) (zsort_uniq (map key l)).
Definition cont_one (n : net) (t : tname) (start : Z) : result net :=
  let n := match t with
           | TSwitch => set_sw n (sort_by sid (sw n))
           | TMeas => set_meas n (sort_by mid (meas n))
           | TEl k => set_elk n k (sort_by eid (el n k))
           | _ => n end in
  let ids := keys n t in
  reindex_elements n t (combine ids (zrange start (List.length ids))).
Definition cont_res (n : net) (k : ekind) (start : Z) : net :=
  set_resk n k (zrange start (List.length (res n k))).        (* sorted res table renumbered on its own *)
Definition cont_tables : list tname :=
  [TEl Sgen; TEl Load; TEl ExtGrid; TEl Gen; TEl Ward; TEl Xward; TEl Shunt; TEl Storage; TEl Line; TEl Impedance;
   TSwitch; TEl Trafo; TEl Trafo3w; TEl Dcline; TMeas].
Fixpoint cont_loop (n : net) (ts : list tname) (start : Z) : result net :=
  match ts with
  | [] => Ok n
  | t :: r => do n <- cont_one n t start;
              let n := match t with TEl k => cont_res n k start | _ => n end in
              cont_loop n r start
  end.
Definition cont_elements_index (n : net) (start : Z) : result net :=
  do n <- cont_bus_index n start;
  cont_loop n cont_tables start.

(* ------------------------------------------------------------------ :40 select_subnet *)
Definition line_bus (n : net) (x : Z) (c : nat) : result Z :=          (* net.line[col].at[x] *)
  match find (fun r => eid r =? x) (el n Line) with
  | Some r => match nth_error (ebus r) c with Some b => Ok b | None => Err "KeyError" end
  | None => Err "KeyError"
  end.
Fixpoint switch_buses (n : net) (sws : list swrow) (buses : list Z) : result (list Z) :=
  match sws with
  | [] => Ok []
  | s :: t =>
    do r <- switch_buses n t buses;
    if swet_eqb (swt s) SL then
      do fb <- line_bus n (sel s) 0; do tb <- line_bus n (sel s) 1;
      Ok ((if zin fb buses && negb (sbus s =? fb) then [tb] else []) ++
          (if zin tb buses && negb (sbus s =? tb) then [fb] else []) ++ r)
    else Ok r
  end.
(* fx = after "fix: select_subnet keeps the switches of three-winding transformers" *)
Definition select_subnet_gen (fx : bool) (n : net) (buses0 : list Z) (include_switch_buses include_results keep_else : bool) : result net :=
  do add <- (if include_switch_buses then switch_buses n (sw n) buses0 else Ok []);
  let buses := zsort_uniq (buses0 ++ add) in
  if negb (allin buses (bus_ids n)) then Err "KeyError" else           (* net.bus.loc[list(buses)] *)
  let nb := flat_map (fun i => filter (fun b => fst b =? i) (bus n)) buses in
  let sel_el k := if in_bus_tuples k then filter (fun r => allin (ebus r) buses) (el n k)
                  else if keep_else then el n k else [] in
  let ids k := map eid (sel_el k) in
  let ms := filter (fun m => match mty m with
                             | TBus => zin (mel m) buses
                             | TEl Line => zin (mel m) (ids Line)
                             | TEl Trafo => zin (mel m) (ids Trafo)
                             | TEl Trafo3w => zin (mel m) (ids Trafo3w)
                             | _ => false end) (meas n) in
  let selc := filter (fun c => zin (cel c) (ids (cet c))) in
  let sws := filter (fun s => zin (sbus s) buses &&
                              match swt s with
                              | SB => zin (sel s) buses | SL => zin (sel s) (ids Line) | ST => zin (sel s) (ids Trafo)
                              | ST3 => fx && zin (sel s) (ids Trafo3w) end) (sw n) in
  (* result tables: copied (restricted) only with include_results; with keep_everything_else and not include_results
     they are cleared; a res table is only touched when it and its element table are non-empty *)
  let nres k := if include_results
                then match res n k, el n k with
                     | [], _ => if keep_else then res n k else []
                     | _, [] => if keep_else then res n k else []
                     | _, _ => filter (fun i => zin i (res n k)) (ids k)
                     end
                else [] in
  let nrbus := if include_results
               then match rbus n, bus n with
                    | [], _ | _, [] => if keep_else then rbus n else []
                    | _, _ => filter (fun i => zin i (rbus n)) buses
                    end
               else [] in
  Ok {| bus := nb; el := sel_el; sw := sws; meas := ms; pcost := selc (pcost n); wcost := selc (wcost n);
        grp := if keep_else then grp n else []; ctrl := if keep_else then ctrl n else [];
        rbus := nrbus; res := nres |}.

Definition select_subnet := select_subnet_gen true.
Definition select_subnet_old := select_subnet_gen false.

(* ------------------------------------------------------------------ :201 _merge_nets (validate=False) *)
(* the reindex lookup of net2 for one table: duplicates of net1 get max(max1, max of the non-duplicates)+1 .. *)
Definition merge_lookup (k1 k2 : list Z) : list (Z * Z) :=
  let dupl := filter (fun i => zin i k1) k2 in
  match dupl with
  | [] => []
  | _ =>
    let m1 := match zmax k1 with Some m => m | None => 0 end in
    let start := match zmax (filter (fun i => negb (zin i k1)) k2) with Some m2 => Z.max m1 m2 + 1 | None => m1 + 1 end in
    combine dupl (zrange start (List.length dupl))
  end.
Definition merge_tables : list tname :=
  [TBus; TEl Load; TEl Sgen; TEl Storage; TEl Gen; TSwitch; TEl Shunt; TEl Svc; TEl ExtGrid; TEl Line; TEl Trafo; TEl Trafo3w;
   TEl Impedance; TEl Dcline; TEl Ward; TEl Xward; TMeas; TWcost; TPcost].
Fixpoint merge_reindex (n1 n2 : net) (ts : list tname) : result net :=
  match ts with
  | [] => Ok n2
  | t :: r =>
    do n2 <- (match keys n2 t with
              | [] => Ok n2                               (* empty tables of net2 are not in elm_types *)
              | _ => match merge_lookup (keys n1 t) (keys n2 t) with
                     | [] => Ok n2
                     | lk => reindex_elements n2 t lk
                     end
              end);
    merge_reindex n1 n2 r
  end.
(* controller / group index duplicates *)
Definition merge_ctrl (c1 c2 : list ctrow) : list ctrow :=
  let lk := merge_lookup (map ctid c1) (map ctid c2) in
  c1 ++ map (fun c => {| ctid := remap lk (ctid c); ctty := ctty c; ctidx := ctidx c; ctsingle := ctsingle c |}) c2.
Definition merge_grp (g1 g2 : list grow) : list grow :=
  let k2 := map gid g2 in
  let dupl := zsort_uniq (filter (fun i => zin i (map gid g1)) k2) in     (* de-duplicated (:237) *)
  let lk := match filter (fun i => zin i (map gid g1)) k2 with
            | [] => []
            | _ => let m1 := match zmax (map gid g1) with Some m => m | None => 0 end in
                   let start := match zmax (filter (fun i => negb (zin i (map gid g1))) k2) with
                                | Some m2 => Z.max m1 m2 + 1 | None => m1 + 1 end in
                   combine (nodup Z.eq_dec (filter (fun i => zin i (map gid g1)) k2)) (zrange start (List.length dupl))
            end in
  g1 ++ map (fun g => {| gid := remap lk (gid g); gty := gty g; gmem := gmem g |}) g2.
Definition merge_res_ids (r1 r2 : list Z) : list Z :=
  r1 ++ map (remap (merge_lookup r1 r2)) r2.
Definition merge_nets (n1 n2 : net) (merge_results : bool) : result net :=
  do n2 <- merge_reindex n1 n2 merge_tables;
  Ok {| bus := bus n1 ++ bus n2; el := fun k => el n1 k ++ el n2 k; sw := sw n1 ++ sw n2; meas := meas n1 ++ meas n2;
        pcost := pcost n1 ++ pcost n2; wcost := wcost n1 ++ wcost n2;
        grp := merge_grp (grp n1) (grp n2); ctrl := merge_ctrl (ctrl n1) (ctrl n2);
        rbus := if merge_results then merge_res_ids (rbus n1) (rbus n2) else rbus n1;
        res := fun k => if merge_results then merge_res_ids (res n1 k) (res n2 k) else res n1 k |}.

(* ------------------------------------------------------------------ operations as data, one step *)
Inductive op :=
| OCreateBus (i : Z)
| OCreateEl (k : ekind) (i : Z) (bs : list Z)
| OCreateSwitch (i b : Z) (e : swet) (x : Z)
| OCreateMeas (i : Z) (mt : nat) (t : tname) (x : Z) (s : side)
| OCreateCost (poly : bool) (i : Z) (k : ekind) (x : Z)
| OCreateGroup (g : Z) (t : tname) (mem : list Z)
| OCreateCtrl (k : ekind) (idx : list Z) (single : bool)
| ODropBuses (bs : list Z) (drop_el : bool)
| ODropLines (ids : list Z)
| ODropTrafos (three : bool) (ids : list Z)
| ODropElements (t : tname) (ids : list Z)
| OFuseBuses (b1 : Z) (b2 : list Z) (drop fuse_meas : bool)
| OReindexBuses (lk : list (Z * Z))
| OReindexElements (t : tname) (lk : list (Z * Z))
| OContBus (start : Z)
| OContElements (start : Z)
| OSelectSubnet (bs : list Z) (isb ires keep : bool)
| OMerge (n2 : net) (merge_results : bool).

Definition step (n : net) (o : op) : result net :=
  match o with
  | OCreateBus i => create_bus n i
  | OCreateEl k i bs => create_el n k i bs
  | OCreateSwitch i b e x => create_switch n i b e x
  | OCreateMeas i mt t x s => create_meas n i mt t x s
  | OCreateCost p i k x => create_cost n p i k x
  | OCreateGroup g t mem => create_group n g t mem
  | OCreateCtrl k idx sg => create_ctrl n k idx sg
  | ODropBuses bs d => drop_buses n bs d
  | ODropLines ids => drop_lines n ids
  | ODropTrafos th ids => drop_trafos n th ids
  | ODropElements t ids => drop_elements n t ids
  | OFuseBuses b1 b2 d f => fuse_buses n b1 b2 d f
  | OReindexBuses lk => reindex_buses n lk
  | OReindexElements t lk => reindex_elements n t lk
  | OContBus s => cont_bus_index n s
  | OContElements s => cont_elements_index n s
  | OSelectSubnet bs a b c => select_subnet n bs a b c
  | OMerge n2 mr => merge_nets n n2 mr
  end.
(* a raising edit leaves the caller with the net it had (the harness works on a copy) *)
Fixpoint run_ops (n : net) (ops : list op) : net :=
  match ops with
  | [] => n
  | o :: r => match step n o with Ok n' => run_ops n' r | Err _ => run_ops n r end
  end.

(* ------------------------------------------------------------------ output *)
Definition kcode (k : ekind) : Z :=
  match k with Load => 0 | Sgen => 1 | Gen => 2 | ExtGrid => 3 | Shunt => 4 | Ward => 5 | Xward => 6 | Storage => 7
             | Line => 8 | Impedance => 9 | Trafo => 10 | Trafo3w => 11 | Dcline => 12 | Svc => 13 end.
Definition tcode (t : tname) : Z :=
  match t with TBus => 100 | TSwitch => 101 | TMeas => 102 | TPcost => 103 | TWcost => 104 | TEl k => kcode k end.
Definition scode (e : swet) : Z := match e with SB => 0 | SL => 1 | ST => 2 | ST3 => 3 end.
Definition oside (s : side) : out := match s with SideNone => ONone | SideStr c => OL [onat c] | SideBus b => OZ b end.
Definition ozl (l : list Z) : out := olist OZ l.
Definition onet (n : net) : out :=
  OL [ olist (fun b => OL [OZ (fst b); OB (snd b)]) (bus n);
       olist (fun k => olist (fun r => OL [OZ (eid r); ozl (ebus r); OB (eis r)]) (el n k)) ekinds;
       olist (fun s => OL [OZ (sid s); OZ (sbus s); OZ (scode (swt s)); OZ (sel s); OB (sclosed s)]) (sw n);
       olist (fun m => OL [OZ (mid m); onat (mmt m); OZ (tcode (mty m)); OZ (mel m); oside (msd m)]) (meas n);
       olist (fun c => OL [OZ (cid c); OZ (kcode (cet c)); OZ (cel c)]) (pcost n);
       olist (fun c => OL [OZ (cid c); OZ (kcode (cet c)); OZ (cel c)]) (wcost n);
       olist (fun g => OL [OZ (gid g); OZ (tcode (gty g)); ozl (gmem g)]) (grp n);
       olist (fun c => OL [OZ (ctid c); OZ (kcode (ctty c)); ozl (ctidx c); OB (ctsingle c)]) (ctrl n);
       ozl (rbus n);
       olist (fun k => ozl (res n k)) ekinds ].
Definition ores (r : result net) : out :=
  match r with Ok n => OL [OB (inv n); onet n] | Err s => OErr s end.
(* build a net from table literals (harness input) *)
Definition mk_el (tabs : list (list erow)) : ekind -> list erow :=
  fun k => nth (Z.to_nat (kcode k)) tabs [].
Definition mk_res (tabs : list (list Z)) : ekind -> list Z :=
  fun k => nth (Z.to_nat (kcode k)) tabs [].
Definition run_step (n : net) (o : op) : out := OL [OB (inv n); ores (step n o)].

(* compact output for the correspondence run: a table that the step left unchanged is printed as ONone *)
Fixpoint out_eqb (a b : out) : bool :=
  match a, b with
  | OZ x, OZ y => x =? y
  | OQ x y, OQ x' y' => (x =? x') && (y =? y')
  | OB x, OB y => Bool.eqb x y
  | ONone, ONone => true
  | OS x, OS y => String.eqb x y
  | OErr x, OErr y => String.eqb x y
  | OL l, OL m => (fix go (l m : list out) : bool :=
                     match l, m with
                     | [], [] => true
                     | x :: l', y :: m' => out_eqb x y && go l' m'
                     | _, _ => false
                     end) l m
  | _, _ => false
  end.
Definition delta1 (a b : out) : out := if out_eqb a b then ONone else b.
Fixpoint delta_list (l m : list out) : list out :=
  match l, m with
  | a :: l', b :: m' => delta1 a b :: delta_list l' m'
  | _, m => m
  end.
Definition onet_delta (n0 n1 : net) : out :=
  match onet n0, onet n1 with
  | OL [b0; OL e0; s0; m0; p0; w0; g0; c0; rb0; OL r0], OL [b1; OL e1; s1; m1; p1; w1; g1; c1; rb1; OL r1] =>
      OL [delta1 b0 b1; OL (delta_list e0 e1); delta1 s0 s1; delta1 m0 m1; delta1 p0 p1; delta1 w0 w1; delta1 g0 g1; delta1 c0 c1;
          delta1 rb0 rb1; OL (delta_list r0 r1)]
  | _, x => x
  end.
Definition run_step_delta (n : net) (o : op) : out :=
  OL [OB (inv n); match step n o with Ok n' => OL [OB (inv n'); onet_delta n n'] | Err s => OErr s end].
(* short list constructors: the harness avoids the list notation for the small inner lists *)
Definition l0 : list Z := [].
Definition l1 (a : Z) : list Z := [a].
Definition l2 (a b : Z) : list Z := [a; b].
Definition l3 (a b c : Z) : list Z := [a; b; c].

(* ------------------------------------------------------------------ guards of the partial theorems (boolean) *)
(* nothing that the drop functions do not cascade to references the dropped elements of kind k *)
Definition G22_drop (n : net) (k : ekind) (ids : list Z) : bool :=
  forallb (fun c => negb (ekind_beq (cet c) k && zin (cel c) ids)) (pcost n ++ wcost n) &&
  forallb (fun c => negb (ekind_beq (ctty c) k && existsb (fun x => zin x ids) (ctidx c))) (ctrl n).
(* reindex_elements(net, k, lookup): the references the impl does not update are not affected by the lookup *)
Definition moved (lk : list (Z * Z)) (x : Z) : bool := negb (remap lk x =? x).
Definition G22_reindex (n : net) (k : ekind) (lk : list (Z * Z)) : bool :=
  forallb (fun c => negb (ekind_beq (ctty c) k && existsb (moved lk) (ctidx c))) (ctrl n).
(* drop_elements_simple: no controller targets a dropped element *)
Definition G22_noctrl (n : net) (k : ekind) (ids : list Z) : bool :=
  forallb (fun c => negb (ekind_beq (ctty c) k && existsb (fun x => zin x ids) (ctidx c))) (ctrl n).
(* drop_buses(drop_elements=True).  arity: an element row has no more bus columns than element_bus_tuples() lists for its
   table (schema fact; svc stands for the unlisted tables) *)
Definition arity (k : ekind) : nat :=
  match k with Line | Impedance | Trafo | Dcline => 2 | Trafo3w => 3 | Svc => 0 | _ => 1 end%nat.
Definition arity_ok (n : net) : bool :=
  forallb (fun k => negb (in_bus_tuples k) || forallb (fun r => Nat.leb (List.length (ebus r)) (arity k)) (el n k)) ekinds.
Definition free_of (buses : list Z) (r : erow) : bool := forallb (fun b => negb (zin b buses)) (ebus r).
(* C22-bus-tuples-incomplete: no row of an unlisted table sits at the buses *)
Definition svc_free (n : net) (buses : list Z) : bool := forallb (free_of buses) (el n Svc).
(* no measurement names one of the buses as its numeric side *)
Definition sides_free (n : net) (buses : list Z) : bool :=
  forallb (fun m => match msd m with SideBus b => negb (zin b buses) | _ => true end) (meas n).
(* C22-drop-keeps-controller: no controller targets an element at the buses; no cost row sits on a line / trafo / trafo3w
   at the buses (drop_lines / drop_trafos do not cascade to costs) *)
Definition is_swk (k : ekind) : bool := match k with Line | Trafo | Trafo3w => true | _ => false end.
Definition gat (n : net) (buses : list Z) : bool :=
  forallb (fun c => forallb (fun r => negb (zin (eid r) (ctidx c)) || free_of buses r) (el n (ctty c))) (ctrl n) &&
  forallb (fun c => negb (is_swk (cet c)) || forallb (fun r => negb (eid r =? cel c) || free_of buses r) (el n (cet c)))
          (pcost n ++ wcost n).
(* the controller part is evaluated AFTER drop_controllers_at_buses, on the state the element cascade starts from *)
Definition G22_drop_buses (n : net) (buses : list Z) : bool :=
  let n1 := detach n TBus buses in
  let n2 := set_bus n1 (filter (fun b => negb (zin (fst b) buses)) (bus n1)) in
  let n3 := set_rbus n2 (filter (fun i => negb (zin i buses)) (rbus n2)) in
  arity_ok n && svc_free n buses && sides_free n buses && gat (drop_controllers_at_buses n3 buses) buses.
(* the numeric side of a measurement is a bus of the measured element (every row carrying that index) / the measured bus *)
Definition side_at_element (n : net) (m : mrow) : bool :=
  match msd m with
  | SideBus b => match mty m with
                 | TBus => b =? mel m
                 | TEl k => forallb (fun r => negb (eid r =? mel m) || zin b (ebus r)) (el n k)
                 | _ => true
                 end
  | _ => true
  end.
Definition isnil {A} (l : list A) : bool := match l with [] => true | _ => false end.
(* select_subnet: C22-select-subnet-keep-everything (groups, controllers and the unlisted tables are copied unfiltered) *)
Definition G22_select (n : net) (keep_else : bool) : bool :=
  forallb (side_at_element n) (meas n) && (negb keep_else || (isnil (grp n) && isnil (ctrl n) && isnil (el n Svc))).
(* reindex_buses / create_continuous_bus_index: C22-bus-tuples-incomplete — the rows of the tables that
   element_bus_tuples() does not list keep their bus values, so these must not be moved by the (completed) lookup *)
Definition bus_lookup (n : net) (lk0 : list (Z * Z)) : list (Z * Z) :=
  lk0 ++ map (fun b => (b, b)) (filter (fun b => negb (haskey lk0 b)) (zsort_uniq (bus_ids n))).
Definition G22_reindex_buses (n : net) (lk0 : list (Z * Z)) : bool :=
  forallb (fun r => forallb (fun b => remap (bus_lookup n lk0) b =? b) (ebus r)) (el n Svc).
Definition G22_cont_bus (n : net) (start : Z) : bool :=
  let ids := zsort_uniq (bus_ids n) in
  G22_reindex_buses (set_bus n (flat_map (fun i => filter (fun b => fst b =? i) (bus n)) ids)) (combine ids (zrange start (List.length ids))).
(* fuse_buses: the rerouting stage of fuse_buses (the first four steps of fuse_buses_gen true, verbatim) and its guard *)
Definition fuse_reroute (n : net) (b1 : Z) (b2 : list Z) (fuse_meas : bool) : net :=
  let n := set_el n (fun k => if in_bus_tuples k
                              then map (fun r => {| eid := eid r; ebus := map (reroute b2 b1) (ebus r); eis := eis r |}) (el n k)
                              else el n k) in
  let n := set_sw n (map (fun s => {| sid := sid s; sbus := reroute b2 b1 (sbus s); swt := swt s; sel := if swet_eqb (swt s) SB then reroute b2 b1 (sel s) else sel s; sclosed := sclosed s |}) (sw n)) in
  let n := if fuse_meas then
             set_meas n (map (fun m => if tname_eqb (mty m) TBus
                                       then {| mid := mid m; mmt := mmt m; mty := mty m; mel := reroute b2 b1 (mel m); msd := msd m |}
                                       else m) (meas n))
           else n in
  let n := if fuse_meas && true then
             set_meas n (map (fun m => match msd m with
                                       | SideBus b => {| mid := mid m; mmt := mmt m; mty := mty m; mel := mel m; msd := SideBus (reroute b2 b1 b) |}
                                       | _ => m end) (meas n))
           else n in
  n.
(* no controller targets, and no cost row of a line / trafo / trafo3w sits on, an element all of whose buses are b1
   (the inner branches that fuse_buses drops through drop_lines / drop_trafos / drop_elements_simple) *)
Definition gat_inner (n : net) (b1 : Z) : bool :=
  forallb (fun c => forallb (fun r => negb (zin (eid r) (ctidx c)) || negb (all_at b1 r)) (el n (ctty c))) (ctrl n) &&
  forallb (fun c => negb (is_swk (cet c)) || forallb (fun r => negb (eid r =? cel c) || negb (all_at b1 r)) (el n (cet c)))
          (pcost n ++ wcost n).
(* b1 exists (fuse_buses does not check it); with drop: no row of an unlisted table sits at the fused buses
   (C22-bus-tuples-incomplete), measurements are fused or none refers to the fused buses (C22-fuse-buses-measurement), and no
   controller / branch cost sits on a branch that becomes an inner branch (C22-drop-keeps-controller) *)
Definition G22_fuse (n : net) (b1 : Z) (b2in : list Z) (drop fuse_meas : bool) : bool :=
  let b2 := filter (fun x => negb (x =? b1)) (zsort_uniq b2in) in
  zin b1 (bus_ids n) &&
  (negb drop ||
   (svc_free n b2 &&
    (fuse_meas || (sides_free n b2 && forallb (fun m => negb (tname_eqb (mty m) TBus && zin (mel m) b2)) (meas n))) &&
    gat_inner (fuse_reroute n b1 b2 fuse_meas) b1)).
(* create_continuous_elements_index: the guard follows the run of the loop (each table is judged on the state the loop has
   reached): for an element table no controller targets a re-indexed element (C22-reindex-elements-controller) and the table
   index and its res_ index are duplicate free (the res_ table is renumbered on its own, by position) *)
Fixpoint nodupz (l : list Z) : bool := match l with [] => true | x :: t => negb (zin x t) && nodupz t end.
Definition G22_cont_one (n : net) (t : tname) (start : Z) : bool :=
  match t with
  | TEl k => let ns := set_elk n k (sort_by eid (el n k)) in
             let ids := el_ids ns k in
             G22_reindex ns k (combine ids (zrange start (List.length ids))) && nodupz ids && nodupz (res n k)
  | TBus => false
  | _ => true
  end.
Fixpoint G22_cont_loop (n : net) (ts : list tname) (start : Z) : bool :=
  match ts with
  | [] => true
  | t :: r => G22_cont_one n t start &&
              match cont_one n t start with
              | Ok n1 => G22_cont_loop (match t with TEl k => cont_res n1 k start | _ => n1 end) r start
              | Err _ => true
              end
  end.
Definition G22_cont_elements (n : net) (start : Z) : bool :=
  G22_cont_bus n start &&
  match cont_bus_index n start with Ok n1 => G22_cont_loop n1 cont_tables start | Err _ => true end.
(* G22: the edits for which inv_step is proved, each with its guard; [false] = no theorem (correspondence + oracle only) *)
Definition G22 (n : net) (o : op) : bool :=
  match o with
  | OCreateBus _ | OCreateEl _ _ _ | OCreateSwitch _ _ _ _ | OCreateGroup _ _ _ => true
  | OCreateMeas _ _ t _ s => meas_ty_ok t && side_ok n s
  | OCreateCost _ _ k x => zin x (el_ids n k)
  | OCreateCtrl k idx _ => allin idx (el_ids n k)
  | ODropLines ids => G22_drop n Line ids
  | ODropTrafos th ids => G22_drop n (if th then Trafo3w else Trafo) ids
  | OReindexElements (TEl k) lk => G22_reindex n k lk
  | OSelectSubnet _ _ _ keep => G22_select n keep
  | OFuseBuses b1 b2 d f => G22_fuse n b1 b2 d f
  | OReindexBuses lk => G22_reindex_buses n lk
  | OReindexElements TBus lk => G22_reindex_buses n lk
  | OContBus start => G22_cont_bus n start
  | OContElements start => G22_cont_elements n start
  | OReindexElements _ _ => true
  | ODropBuses bs true => G22_drop_buses n bs
  | ODropElements TBus ids => G22_drop_buses n ids
  | ODropElements (TEl Line) ids => G22_drop n Line ids
  | ODropElements (TEl Trafo) ids => G22_drop n Trafo ids
  | ODropElements (TEl Trafo3w) ids => G22_drop n Trafo3w ids
  | ODropElements (TEl k) ids => G22_noctrl n k ids
  | ODropElements _ _ => true
  | _ => false
  end.
Fixpoint guarded (n : net) (ops : list op) : bool :=
  match ops with
  | [] => true
  | o :: r => G22 n o && guarded (match step n o with Ok n' => n' | Err _ => n end) r
  end.

(* correspondence output with the guard of the inv_step theorems evaluated on (state before, op) *)
Definition run_step_g (n : net) (o : op) : out := OL [OB (G22 n o); run_step_delta n o].
