(* C07 — faithful model of the supply-connectivity logic of the power flow and of the topology module.
   Power flow side (mode "pf", check_connectivity=True, neglect_open_switch_branches=False):
     build_bus.py:36-125   ds_find / ds_union / ds_create / create_bus_lookup_numba  (bus fusing)
     build_bus.py:323-440  _build_bus_ppc (rows: buses, xward aux, trafo3w aux), set_reference_buses :563
     build_branch.py:138-.. branch rows (line, trafo, 3 per trafo3w, impedance, xward, z>0 bus-bus switch)
     build_branch.py:1068  _switch_branches   (aux bus per open branch switch, branch end re-routed)
     build_branch.py:1135  _branches_with_oos_buses (aux bus for an in-service line with exactly one oos end)
     auxiliary.py:831      _check_connectivity (undirected BFS from a virtual node tied to all REF rows,
                           over all status-1 branches; rows of type NONE are NOT excluded)
     auxiliary.py:961,1017 _select_is_elements_numba: a bus whose ppc row is isolated counts as out of service
     results_bus.py:25     _set_buses_out_of_service: NaN voltage for rows of type NONE
   Topology side:
     topology/create_graph.py:41-292 create_nxgraph with default options
     topology/graph_searches.py:111  unsupplied_buses (nx.connected_components without a slack)
   Executable definitions only. *)
From Coq Require Import String QArith.
From Coq Require Import List Bool Arith Lia.
From PPV Require Import Base.Out Base.C07Graph.
Import ListNotations.
Local Open Scope nat_scope.

(* ------------------------------------------------------------------ the network (topology data only) *)
Record bus := { b_id : nat; b_is : bool }.
Record br2 := { r_id : nat; r_f : nat; r_t : nat; r_is : bool }.          (* line / trafo(hv,lv) / impedance / dcline *)
Record br3 := { t_id : nat; t_hv : nat; t_mv : nat; t_lv : nat; t_is : bool }.
Inductive swet := ETb | ETl | ETt | ETt3.
Record switch := { s_bus : nat; s_el : nat; s_et : swet; s_closed : bool; s_zpos : bool }.  (* s_zpos: z_ohm > 0 *)
(* bus elements: ext_grid (pv, slack), gen (pv, slack flag), load/sgen/motor/shunt/ward (neither) *)
Record inj := { i_bus : nat; i_is : bool; i_pv : bool; i_slack : bool }.
Record xward := { x_bus : nat; x_is : bool }.
Record net := { buses : list bus; lines : list br2; trafos : list br2; trafo3ws : list br3;
                imps : list br2; dclines : list br2; xwards : list xward;
                switches : list switch; injs : list inj }.

Definition swet_eqb (a b : swet) : bool :=
  match a, b with ETb, ETb | ETl, ETl | ETt, ETt | ETt3, ETt3 => true | _, _ => false end.

Definition enum {X} (l : list X) : list (nat * X) := combine (seq 0 (length l)) l.

(* bus_in_service array of _select_is_elements_numba :1001-1003 *)
Definition bus_is (n : net) (b : nat) : bool := existsb (fun r => Nat.eqb (b_id r) b && b_is r) (buses n).
Definition bus_known (n : net) (b : nat) : bool := existsb (fun r => Nat.eqb (b_id r) b) (buses n).
(* bus_oos of _branches_with_oos_buses :1166 = setdiff1d(bus.index, bus_is_idx) *)
Definition bus_oos (n : net) (b : nat) : bool := bus_known n b && negb (bus_is n b).
(* element in service: tis[i] and bis[ti[i]] (auxiliary.py:938) *)
Definition inj_is (n : net) (i : inj) : bool := i_is i && bus_is n (i_bus i).

(* ------------------------------------------------------------------ bus fusing: the disjoint-set forest *)
Definition forest := list (nat * nat).                 (* updates of ar = np.arange(max+1), newest first *)
Fixpoint ar_get (ar : forest) (x : nat) : nat :=
  match ar with [] => x | (k, v) :: t => if Nat.eqb k x then v else ar_get t x end.
(* ds_find :37 — `while True`; None = fuel exhausted (proved impossible in ds_create) *)
Fixpoint ds_find (fuel : nat) (ar : forest) (b : nat) : option nat :=
  match fuel with
  | O => None
  | S f => let p := ar_get ar b in if Nat.eqb p b then Some p else ds_find f ar p
  end.
(* ds_union :47 *)
Definition ds_union (fuel : nat) (pv act : nat -> bool) (ar : forest) (b1 b2 : nat) : option forest :=
  match ds_find fuel ar b1, ds_find fuel ar b2 with
  | Some r1, Some r2 =>
      if Nat.eqb r1 r2 then Some ar
      else if act r2 && negb (pv r1) then Some ((r1, r2) :: ar) else Some ((r2, r1) :: ar)
  | _, _ => None
  end.
(* the switches that fuse: closed, bus-bus, not z_ohm > 0, both buses in service (ds_create :63-69) *)
Definition fuses (n : net) (s : switch) : bool :=
  s_closed s && swet_eqb (s_et s) ETb && negb (s_zpos s) && bus_is n (s_bus s) && bus_is n (s_el s).
Fixpoint ds_create (fuel : nat) (n : net) (pv act : nat -> bool) (sw : list switch) (ar : forest) : option forest :=
  match sw with
  | [] => Some ar
  | s :: t => if fuses n s
              then match ds_union fuel pv act ar (s_bus s) (s_el s) with
                   | Some ar' => ds_create fuel n pv act t ar' | None => None end
              else ds_create fuel n pv act t ar
  end.
Definition is_pv (n : net) (b : nat) : bool := existsb (fun i => inj_is n i && i_pv i && Nat.eqb (i_bus i) b) (injs n).
Definition is_active (n : net) (b : nat) : bool :=
  existsb (fun i => inj_is n i && Nat.eqb (i_bus i) b) (injs n)
  || existsb (fun x => x_is x && bus_is n (x_bus x) && Nat.eqb (x_bus x) b) (xwards n).
Definition uf_fuel (n : net) : nat := S (length (switches n)).
Definition forest_of (n : net) : option forest :=
  ds_create (uf_fuel n) n (is_pv n) (is_active n) (switches n) [].
(* fill_bus_lookup :73: bus -> pp index of its root (the ppc row is the root's position in bus_index) *)
Definition rep_of (n : net) (ar : forest) (b : nat) : nat :=
  match ds_find (uf_fuel n) ar b with Some r => r | None => b end.
(* evaluated once per net by the strict `let`, then used as a function *)
Definition rep (n : net) : nat -> nat :=
  let ar := forest_of n in fun b => match ar with Some ar => rep_of n ar b | None => b end.

(* ------------------------------------------------------------------ ppc rows (nodes) *)
Inductive lnode := NB (b : nat) | NXW (i : nat) | NT3 (i : nat).
(* D o kind j side p: auxiliary row at an open branch switch (kind 0 line, 1 trafo, 2 trafo3w; p = position of
   the switch in net.switch) or at the oos end of a line (kind 3, p = 0); j = position of the branch element in
   its table, side = 0 from/hv, 1 to/lv (trafo3w: 0 hv, 1 mv, 2 lv).  o names the row at the other end of the
   (only) branch incident to this row when that is an ordinary row — redundant information, a function of
   (kind, j, side), kept in the name. *)
Inductive node := L (l : lnode) | D (o : option lnode) (kind j side p : nat).

Definition lnode_eq_dec (x y : lnode) : {x = y} + {x <> y}.
Proof. decide equality; apply Nat.eq_dec. Defined.
Definition node_eq_dec (x y : node) : {x = y} + {x <> y}.
Proof. decide equality; try apply Nat.eq_dec; try apply lnode_eq_dec. decide equality. apply lnode_eq_dec. Defined.

(* the last open switch of type et at element el on the given side; `side_of s` tells the side *)
Definition last_open (n : net) (et : swet) (el : nat) (side_ok : switch -> bool) : option nat :=
  fold_left (fun acc ps => let '(p, s) := ps in
               if negb (s_closed s) && swet_eqb (s_et s) et && Nat.eqb (s_el s) el && side_ok s then Some p else acc)
            (enum (switches n)) None.

(* line: _gather_branch_switch_info :1043: side = "to" if to_bus == bus else "from" *)
Definition line_sw (n : net) (l : br2) (side : nat) : option nat :=
  last_open n ETl (r_id l) (fun s => if Nat.eqb side 1 then Nat.eqb (r_t l) (s_bus s) else negb (Nat.eqb (r_t l) (s_bus s))).
(* _branches_with_oos_buses :1170-1180: in-service lines with exactly one end at an oos bus *)
Definition line_oos (n : net) (l : br2) (side : nat) : bool :=
  r_is l && (if Nat.eqb side 0 then bus_oos n (r_f l) && negb (bus_oos n (r_t l))
             else bus_oos n (r_t l) && negb (bus_oos n (r_f l))).
Definition line_dead (n : net) (l : br2) (side : nat) : option (nat * nat) :=   (* (kind, p) *)
  if line_oos n l side then Some (3, 0)
  else match line_sw n l side with Some p => Some (0, p) | None => None end.
(* both ends of a two-terminal branch, given the ordinary rows and the re-routing info (kind, p) of each end *)
Definition mk_pair2 (j : nat) (fl tl : lnode) (fd td : option (nat * nat)) : node * node :=
  let fo := match td with None => Some tl | Some _ => None end in
  let to := match fd with None => Some fl | Some _ => None end in
  (match fd with None => L fl | Some (k, p) => D fo k j 0 p end,
   match td with None => L tl | Some (k, p) => D to k j 1 p end).
Definition line_ends (rp : nat -> nat) (n : net) (j : nat) (l : br2) : node * node :=
  mk_pair2 j (NB (rp (r_f l))) (NB (rp (r_t l))) (line_dead n l 0) (line_dead n l 1).

(* trafo: side = "hv" if hv_bus == bus else "lv" *)
Definition trafo_sw (n : net) (t : br2) (side : nat) : option nat :=
  last_open n ETt (r_id t) (fun s => if Nat.eqb side 0 then Nat.eqb (r_f t) (s_bus s) else negb (Nat.eqb (r_f t) (s_bus s))).
Definition trafo_ends (rp : nat -> nat) (n : net) (j : nat) (t : br2) : node * node :=
  mk_pair2 j (NB (rp (r_f t))) (NB (rp (r_t t)))
           (option_map (fun p => (1, p)) (trafo_sw n t 0)) (option_map (fun p => (1, p)) (trafo_sw n t 1)).

(* trafo3w: hv if hv_bus == bus, elif mv_bus == bus: mv, elif lv_bus == bus: lv (else the impl raises) *)
Definition t3_side (t : br3) (b : nat) : option nat :=
  if Nat.eqb (t_hv t) b then Some 0 else if Nat.eqb (t_mv t) b then Some 1 else if Nat.eqb (t_lv t) b then Some 2 else None.
Definition t3_sw (n : net) (t : br3) (side : nat) : option nat :=
  last_open n ETt3 (t_id t) (fun s => match t3_side t (s_bus s) with Some k => Nat.eqb k side | None => false end).
Definition t3_bus (t : br3) (side : nat) : nat :=
  match side with 0 => t_hv t | 1 => t_mv t | _ => t_lv t end.
(* winding branch `side` of the j-th trafo3w: between the bus row (or its switch aux row) and the star row *)
Definition t3_ends (rp : nat -> nat) (n : net) (j : nat) (t : br3) (side : nat) : node * node :=
  let busend := match t3_sw n t side with
                | None => L (NB (rp (t3_bus t side)))
                | Some p => D (Some (NT3 j)) 2 j side p end in
  if Nat.eqb side 0 then (busend, L (NT3 j)) else (L (NT3 j), busend).

(* z_ohm > 0 closed bus-bus switch between in-service buses: an ordinary branch (_calc_switch_parameter) *)
Definition zswitch (n : net) (s : switch) : bool :=
  s_closed s && swet_eqb (s_et s) ETb && s_zpos s && bus_is n (s_bus s) && bus_is n (s_el s).

(* all branches with BR_STATUS = 1, as (from row, to row) *)
Definition ppc_edges_old (rp : nat -> nat) (n : net) : list (node * node) :=
  flat_map (fun jl => if r_is (snd jl) then [line_ends rp n (fst jl) (snd jl)] else []) (enum (lines n))
  ++ flat_map (fun jt => if r_is (snd jt) then [trafo_ends rp n (fst jt) (snd jt)] else []) (enum (trafos n))
  ++ flat_map (fun jt => if t_is (snd jt) then [t3_ends rp n (fst jt) (snd jt) 0; t3_ends rp n (fst jt) (snd jt) 1;
                                                 t3_ends rp n (fst jt) (snd jt) 2] else []) (enum (trafo3ws n))
  ++ flat_map (fun i => if r_is i then [(L (NB (rp (r_f i))), L (NB (rp (r_t i))))] else []) (imps n)
  ++ flat_map (fun jx => if x_is (snd jx) && bus_is n (x_bus (snd jx))
                         then [(L (NB (rp (x_bus (snd jx)))), L (NXW (fst jx)))] else []) (enum (xwards n))
  ++ flat_map (fun s => if zswitch n s then [(L (NB (rp (s_bus s))), L (NB (rp (s_el s))))] else []) (switches n).

(* rows of type NONE when _check_connectivity runs: the rows of out-of-service buses (auxiliary rows of out-of-service
   xwards / trafo3ws are NONE too, but no status-1 branch ends there; switch / oos auxiliary rows are PQ) *)
Definition none_row (n : net) (x : node) : bool := match x with L (NB r) => bus_oos n r | _ => false end.
(* auxiliary.py _check_connectivity after "fix: the connectivity check does not walk through out-of-service buses":
   br_status &= ~(bus_oos[F_BUS] | bus_oos[T_BUS]).  ppc_edges_old is the search graph before that repair. *)
Definition ppc_edges (rp : nat -> nat) (n : net) : list (node * node) :=
  filter (fun e => negb (none_row n (fst e)) && negb (none_row n (snd e))) (ppc_edges_old rp n).

(* REF rows: set_reference_buses build_bus.py:563 *)
Definition ref_nodes (rp : nat -> nat) (n : net) : list node :=
  flat_map (fun i => if inj_is n i && i_slack i then [L (NB (rp (i_bus i)))] else []) (injs n).

(* _check_connectivity: rows reached from the virtual slack node *)
Definition reached_with (rp : nat -> nat) (n : net) : list node :=
  reach node_eq_dec (sym (ppc_edges rp n)) (ref_nodes rp n).
Definition reached (n : net) : list node := reached_with (rep n) n.
Definition isolated_in (R : list node) (x : node) : bool := negb (mem node_eq_dec x R).
Definition isolated (n : net) (x : node) : bool := isolated_in (reached n) x.

(* res_bus.vm_pu is NaN: the row of the bus has type NONE (out of service, or isolated) *)
Definition nan_with (rp : nat -> nat) (R : list node) (n : net) (b : nat) : bool :=
  negb (bus_is n b) || isolated_in R (L (NB (rp b))).
Definition nan_bus (n : net) (b : nat) : bool := let rp := rep n in nan_with rp (reached_with rp n) n b.
(* the behaviour before the repair, kept so that its return is recognised (C07_pf_isolated_iff_supplied_old_refuted) *)
Definition nan_bus_old (n : net) (b : nat) : bool :=
  let rp := rep n in nan_with rp (reach node_eq_dec (sym (ppc_edges_old rp n)) (ref_nodes rp n)) n b.

(* ---- all ppc rows in row order, so that row number = position (used for net._isolated_buses) *)
Definition sw_nodes (rp : nat -> nat) (n : net) (et : swet) : list node :=
  flat_map (fun ps => let '(p, s) := ps in
    if negb (s_closed s) && swet_eqb (s_et s) et then
      match et with
      | ETl => flat_map (fun jl => let '(j, l) := jl in
                 if Nat.eqb (r_id l) (s_el s) then
                   let side := if Nat.eqb (r_t l) (s_bus s) then 1 else 0 in
                   let other := 1 - side in
                   let o := match line_dead n l other with
                            | None => Some (NB (rp (if Nat.eqb other 0 then r_f l else r_t l))) | Some _ => None end in
                   [D o 0 j side p] else []) (enum (lines n))
      | ETt => flat_map (fun jt => let '(j, t) := jt in
                 if Nat.eqb (r_id t) (s_el s) then
                   let side := if Nat.eqb (r_f t) (s_bus s) then 0 else 1 in
                   let other := 1 - side in
                   let o := match trafo_sw n t other with
                            | None => Some (NB (rp (if Nat.eqb other 0 then r_f t else r_t t))) | Some _ => None end in
                   [D o 1 j side p] else []) (enum (trafos n))
      | ETt3 => flat_map (fun jt => let '(j, t) := jt in
                 if Nat.eqb (t_id t) (s_el s) then
                   match t3_side t (s_bus s) with Some side => [D (Some (NT3 j)) 2 j side p] | None => [] end
                 else []) (enum (trafo3ws n))
      | ETb => []
      end
    else []) (enum (switches n)).
Definition oos_nodes (rp : nat -> nat) (n : net) : list node :=
  flat_map (fun jl => let '(j, l) := jl in
     if line_oos n l 0 then [fst (line_ends rp n j l)] else if line_oos n l 1 then [snd (line_ends rp n j l)] else [])
     (enum (lines n)).
Definition all_nodes (rp : nat -> nat) (n : net) : list node :=
  map (fun r => L (NB (b_id r))) (buses n)
  ++ map (fun jx => L (NXW (fst jx))) (enum (xwards n))
  ++ map (fun jt => L (NT3 (fst jt))) (enum (trafo3ws n))
  ++ sw_nodes rp n ETl ++ sw_nodes rp n ETt ++ sw_nodes rp n ETt3 ++ oos_nodes rp n.
(* net._isolated_buses: positions of the rows that are not reached *)
Definition isolated_rows_with (rp : nat -> nat) (R : list node) (n : net) : list nat :=
  flat_map (fun ix => if isolated_in R (snd ix) then [fst ix] else []) (enum (all_nodes rp n)).
Definition isolated_rows (n : net) : list nat := let rp := rep n in isolated_rows_with rp (reached_with rp n) n.

(* the impl raises when an open trafo3w switch sits at a bus that is no terminal of the trafo3w, or when an open
   branch switch names a branch that does not exist (KeyError in .at[]) *)
Definition pf_ok (n : net) : bool :=
  forallb (fun s => s_closed s ||
     match s_et s with
     | ETb => true
     | ETl => existsb (fun l => Nat.eqb (r_id l) (s_el s)) (lines n)
     | ETt => existsb (fun t => Nat.eqb (r_id t) (s_el s)) (trafos n)
     | ETt3 => existsb (fun t => Nat.eqb (t_id t) (s_el s) && match t3_side t (s_bus s) with Some _ => true | None => false end) (trafo3ws n)
              && forallb (fun t => negb (Nat.eqb (t_id t) (s_el s)) || match t3_side t (s_bus s) with Some _ => true | None => false end) (trafo3ws n)
     end) (switches n).

(* ------------------------------------------------------------------ topology module *)
Definition open_sw (n : net) (et : swet) (el : nat) : bool :=
  existsb (fun s => negb (s_closed s) && swet_eqb (s_et s) et && Nat.eqb (s_el s) el) (switches n).
(* open trafo3w switch identified by (index, bus) — create_graph.py:223-239 *)
Definition open_t3 (n : net) (el b : nat) : bool :=
  existsb (fun s => negb (s_closed s) && swet_eqb (s_et s) ETt3 && Nat.eqb (s_el s) el && Nat.eqb (s_bus s) b) (switches n).

(* edges of create_nxgraph(net) with default options, before nodes are removed *)
Definition nx_edges_raw (n : net) : list (nat * nat) :=
  flat_map (fun l => if r_is l && negb (open_sw n ETl (r_id l)) then [(r_f l, r_t l)] else []) (lines n)
  ++ flat_map (fun i => if r_is i then [(r_f i, r_t i)] else []) (imps n)
  ++ flat_map (fun d => if r_is d then [(r_f d, r_t d)] else []) (dclines n)
  ++ flat_map (fun t => if r_is t && negb (open_sw n ETt (r_id t)) then [(r_f t, r_t t)] else []) (trafos n)
  ++ flat_map (fun t =>
       flat_map (fun ft => let '(f, t') := ft in
          if t_is t && negb (open_t3 n (t_id t) (t3_bus t f)) && negb (open_t3 n (t_id t) (t3_bus t t'))
          then [(t3_bus t f, t3_bus t t')] else []) [(0, 1); (0, 2); (1, 2)]) (trafo3ws n)
  ++ flat_map (fun s => if swet_eqb (s_et s) ETb && s_closed s then [(s_bus s, s_el s)] else []) (switches n).
(* mg.remove_node(b) for every out-of-service bus: its edges disappear *)
Definition nx_edges (n : net) : list (nat * nat) :=
  filter (fun e => negb (bus_oos n (fst e)) && negb (bus_oos n (snd e))) (nx_edges_raw n).
Definition nx_nodes (n : net) : list nat :=
  filter (fun b => negb (bus_oos n b))
         (dedup Nat.eq_dec (map b_id (buses n) ++ nodes_of (nx_edges_raw n))).
(* unsupplied_buses: slacks = in-service ext_grid buses and in-service slack gens (the bus state is not looked at) *)
Definition topo_slacks (n : net) : list nat :=
  flat_map (fun i => if i_is i && i_slack i then [i_bus i] else []) (injs n).
Definition topo_unsupplied (n : net) : list nat :=
  flat_map (fun c => if existsb (fun s => mem Nat.eq_dec s c) (topo_slacks n) then [] else c)
           (components Nat.eq_dec (nx_edges n) (nx_nodes n)).

(* ------------------------------------------------------------------ guard of the partial theorem *)
(* G07: no in-service dcline (create_nxgraph makes it an edge, the power flow does not treat it as a path to a slack);
   in-service branches and closed bus-bus switches end at buses of the bus table *)
Definition G07 (n : net) : bool :=
  forallb (fun d => negb (r_is d)) (dclines n)
  && forallb (fun t => negb (r_is t) || (bus_known n (r_f t) && bus_known n (r_t t))) (trafos n)
  && forallb (fun t => negb (r_is t) || (bus_known n (r_f t) && bus_known n (r_t t))) (imps n)
  && forallb (fun t => negb (t_is t) || (bus_known n (t_hv t) && bus_known n (t_mv t) && bus_known n (t_lv t))) (trafo3ws n)
  && forallb (fun l => negb (r_is l) || (bus_known n (r_f l) && bus_known n (r_t l))) (lines n)
  && forallb (fun s => negb (swet_eqb (s_et s) ETb && s_closed s) || (bus_known n (s_bus s) && bus_known n (s_el s))) (switches n).

(* ------------------------------------------------------------------ reported power of ext_grids *)
(* results_gen.py _get_gen_results / _get_ext_grid_results after "fix: res_ext_grid is written also when no ext_grid is
   in service": p = zeros; p[eg_is_mask] = PG.  e = (in_service flag, in _is_elements, PG of its gen row) *)
Definition res_ext_grid_p (egs : list (bool * bool * Q)%type) : list (option Q) :=
  map (fun e : (bool * bool * Q)%type => if snd (fst e) then Some (snd e) else Some 0%Q) egs.
(* before the repair: the NaN-initialised table was only filled when some ext_grid row had in_service = True *)
Definition res_ext_grid_p_old (egs : list (bool * bool * Q)%type) : list (option Q) :=
  if existsb (fun e : (bool * bool * Q)%type => fst (fst e)) egs
  then map (fun e : (bool * bool * Q)%type => if snd (fst e) then Some (snd e) else Some 0%Q) egs
  else map (fun _ => None) egs.
Definition run_c07_eg (egs : list (bool * bool * Q)%type) : out := olist ooq (res_ext_grid_p egs).

(* ------------------------------------------------------------------ Run wrappers *)
Definition onode (x : node) : out :=
  match x with
  | L (NB b) => OL [onat 0; onat b]
  | L (NXW i) => OL [onat 1; onat i]
  | L (NT3 i) => OL [onat 2; onat i]
  | D _ k j s p => OL [onat 3; onat k; onat j; onat s; onat p]
  end.
(* [isolated ppc rows; per bus (id, root bus id, NaN); unsupplied buses of the topology module; G07] *)
Definition run_c07 (n : net) : out :=
  if negb (pf_ok n) then OErr "raise"%string
  else match forest_of n with
       | None => OErr "ds_find-diverges"%string
       | Some _ =>
         let rp := rep n in
         let R := reached_with rp n in
         OL [ olist onat (isolated_rows_with rp R n);
              olist (fun r => OL [onat (b_id r); onat (rp (b_id r)); OB (nan_with rp R n (b_id r))]) (buses n);
              olist onat (topo_unsupplied n);
              OB (G07 n);
              onat (length (all_nodes rp n)) ]
       end.

(* ---- the row numbers of the two ends of every branch of the line / trafo / trafo3w / xward tables (F_BUS, T_BUS of the
   ppc branch rows after _switch_branches and _branches_with_oos_buses): row number = position in all_nodes *)
Fixpoint pos_node (x : node) (l : list node) (k : nat) : option nat :=
  match l with [] => None | y :: t => if node_eq_dec x y then Some k else pos_node x t (S k) end.
Definition run_c07_rows (n : net) : out :=
  let rp := rep n in
  let A := all_nodes rp n in
  let pr := fun ab : node * node => OL [oopt onat (pos_node (fst ab) A 0); oopt onat (pos_node (snd ab) A 0)] in
  OL [ olist (fun jl : nat * br2 => pr (line_ends rp n (fst jl) (snd jl))) (enum (lines n));
       olist (fun jt : nat * br2 => pr (trafo_ends rp n (fst jt) (snd jt))) (enum (trafos n));
       olist (fun jt : nat * br3 => OL [pr (t3_ends rp n (fst jt) (snd jt) 0); pr (t3_ends rp n (fst jt) (snd jt) 1);
                                        pr (t3_ends rp n (fst jt) (snd jt) 2)]) (enum (trafo3ws n));
       olist (fun jx : nat * xward => pr (L (NB (rp (x_bus (snd jx)))), L (NXW (fst jx)))) (enum (xwards n)) ].
