(* C07/Aux.v — the auxiliary ppc rows (internal bus of an xward, star point of a trafo3w, auxiliary bus at an open branch
   switch or at the out-of-service end of a line): their row numbers, and when _check_connectivity reaches them.  Every
   auxiliary row is a dead end that hangs on its element: it is reached exactly when the element conducts to a reached
   bus row, so net._isolated_buses restricted to auxiliary rows is a function of the supplied set of the ordinary buses. *)
From Coq Require Import List Bool Arith Lia Relations.
From PPV Require Import Base.C07Graph C07.Model C07.UnionFind C07.Spec C07.Proofs.
Import ListNotations.
Local Open Scope nat_scope.

(* ------------------------------------------------------------------ generic: the last step of a path *)
Lemma path_last A (g : list (A * A)) s x : path g s x -> s = x \/ exists u, path g s u /\ In (u, x) g.
Proof.
  intros P. apply clos_rt_rtn1 in P. destruct P as [|y z S P]; [now left|].
  right. exists y. split; auto. now apply clos_rtn1_rt.
Qed.
Lemma reach_step A (eq_dec : forall x y : A, {x = y} + {x <> y}) g S x :
  In x (reach eq_dec g S) <-> In x S \/ exists u, In u (reach eq_dec g S) /\ In (u, x) g.
Proof.
  rewrite reach_iff. split.
  - intros [s [Hs P]]. destruct (path_last A g s x P) as [->|[u [Pu E]]]; auto.
    right. exists u. split; auto. apply reach_iff. exists s. auto.
  - intros [H|[u [U E]]].
    + exists x. split; auto. apply path_refl.
    + apply reach_iff in U. destruct U as [s [Hs P]]. exists s. split; auto.
      eapply path_trans; [exact P|now apply path_step].
Qed.

(* ------------------------------------------------------------------ row numbers *)
Lemma nth_combine_seq X (l : list X) : forall k j,
  nth_error (combine (seq k (length l)) l) j = option_map (fun x => (k + j, x)) (nth_error l j).
Proof.
  induction l as [|a l IH]; intros k j; simpl.
  - destruct j; reflexivity.
  - destruct j; simpl; [now rewrite Nat.add_0_r|]. rewrite IH. destruct (nth_error l j); simpl; [|reflexivity].
    now rewrite Nat.add_succ_r.
Qed.
Lemma nth_enum X (l : list X) j : nth_error (enum l) j = option_map (fun x => (j, x)) (nth_error l j).
Proof. unfold enum. now rewrite nth_combine_seq. Qed.
Lemma enum_In_nth X (l : list X) i x : In (i, x) (enum l) <-> nth_error l i = Some x.
Proof.
  split.
  - intros H. apply In_nth_error in H. destruct H as [m H]. rewrite nth_enum in H.
    destruct (nth_error l m) eqn:E; simpl in H; [|discriminate]. inversion H; subst. exact E.
  - intros H. apply (nth_error_In (enum l) i). rewrite nth_enum, H. reflexivity.
Qed.
Lemma enum_length X (l : list X) : length (enum l) = length l.
Proof. unfold enum. rewrite combine_length, seq_length. apply Nat.min_id. Qed.

Section Rows.
Variable n : net.
Variable rp : nat -> nat.

(* ordinary buses first (row = position in net.bus), then one row per xward, then one per trafo3w
   (build_bus.py:341-353), then the auxiliary buses of _switch_branches / _branches_with_oos_buses *)
Theorem row_of_bus k r : nth_error (buses n) k = Some r -> nth_error (all_nodes rp n) k = Some (L (NB (b_id r))).
Proof.
  intros H. unfold all_nodes. rewrite nth_error_app1.
  - exact (map_nth_error (fun r : bus => L (NB (b_id r))) k (buses n) H).
  - rewrite map_length. apply nth_error_Some. congruence.
Qed.
Theorem row_of_xward j : j < length (xwards n) ->
  nth_error (all_nodes rp n) (length (buses n) + j) = Some (L (NXW j)).
Proof.
  intros H. unfold all_nodes. rewrite nth_error_app2; rewrite map_length; [|lia].
  replace (length (buses n) + j - length (buses n)) with j by lia.
  rewrite nth_error_app1; [|rewrite map_length, enum_length; exact H].
  destruct (nth_error (xwards n) j) as [x|] eqn:E; [|apply nth_error_None in E; lia].
  rewrite (map_nth_error _ j (enum (xwards n)) (d := (j, x))); [reflexivity|]. now rewrite nth_enum, E.
Qed.
Theorem row_of_trafo3w j : j < length (trafo3ws n) ->
  nth_error (all_nodes rp n) (length (buses n) + length (xwards n) + j) = Some (L (NT3 j)).
Proof.
  intros H. unfold all_nodes. rewrite nth_error_app2; rewrite map_length; [|lia].
  rewrite nth_error_app2; rewrite map_length, enum_length; [|lia].
  replace (length (buses n) + length (xwards n) + j - length (buses n) - length (xwards n)) with j by lia.
  rewrite nth_error_app1; [|rewrite map_length, enum_length; exact H].
  destruct (nth_error (trafo3ws n) j) as [x|] eqn:E; [|apply nth_error_None in E; lia].
  rewrite (map_nth_error _ j (enum (trafo3ws n)) (d := (j, x))); [reflexivity|]. now rewrite nth_enum, E.
Qed.
(* net._isolated_buses = the numbers of the rows that the search does not reach *)
Theorem isolated_rows_spec R k :
  In k (isolated_rows_with rp R n) <-> exists x, nth_error (all_nodes rp n) k = Some x /\ isolated_in R x = true.
Proof.
  unfold isolated_rows_with. rewrite in_flat_map. split.
  - intros [[i x] [I H]]. simpl in H. destruct (isolated_in R x) eqn:E; [|contradiction]. destruct H as [<-|[]].
    exists x. split; auto. now apply enum_In_nth.
  - intros [x [H E]]. exists (k, x). split; [now apply enum_In_nth|]. simpl. rewrite E. now left.
Qed.
End Rows.

(* ------------------------------------------------------------------ when an auxiliary row is reached *)
Section AuxPF.
Variable n : net.
Variable rp : nat -> nat.
Hypothesis Hrp : forall a b, rp a = rp b <-> upath (fuse_edges n) a b.
Hypothesis Hidem : forall a, rp (rp a) = rp a.

Notation SP := (SuppliedPF n).
Notation R := (reached_with rp n).
Notation E := (sym (ppc_edges rp n)).

Lemma edge_old a b : In (a, b) (ppc_edges rp n) -> In (a, b) (ppc_edges_old rp n).
Proof. unfold ppc_edges. intros H. apply filter_In in H. tauto. Qed.
Lemma ref_is_bus x : In x (ref_nodes rp n) -> exists r, x = L (NB r).
Proof.
  unfold ref_nodes. intros H. apply in_flat_map in H. destruct H as [i [_ H]].
  destruct (inj_is n i && i_slack i); [|contradiction]. destruct H as [<-|[]]. eauto.
Qed.
Lemma reached_closed a b : In (a, b) E -> (In a R <-> In b R).
Proof.
  intros H. unfold reached_with. split; intros I; apply reach_step; right.
  - exists a. auto.
  - exists b. split; auto. now apply sym_swap.
Qed.

(* the ordinary rows: the row of (the representative of) a bus is reached iff the bus is SuppliedPF *)
Theorem bus_row_reached b : In (L (NB (rp b))) R <-> SP b.
Proof.
  split.
  - intros H. apply (reached_inv n rp Hrp Hidem) in H. simpl in H. now apply H.
  - apply (supplied_reached n rp Hrp Hidem).
Qed.

(* every auxiliary row D carries the name of the only row it can be adjacent to *)
Definition names_other (a b : node) : Prop :=
  match a with
  | D (Some l) _ _ _ _ => b = L l
  | D None _ _ _ _ => exists k j s p, b = D None k j s p
  | L _ => True
  end.
Lemma pair_names j fl tl fd td a b : mk_pair2 j fl tl fd td = (a, b) -> names_other a b /\ names_other b a.
Proof.
  unfold mk_pair2. destruct fd as [[k p]|], td as [[k' p']|]; intros H; inversion H; subst; simpl; split; eauto.
Qed.
Lemma t3_names j t side a b : t3_ends rp n j t side = (a, b) -> names_other a b /\ names_other b a.
Proof.
  unfold t3_ends. destruct (t3_sw n t side); destruct (Nat.eqb side 0); intros H; inversion H; subst; simpl; split; auto.
Qed.
Lemma edge_names a b : In (a, b) (ppc_edges_old rp n) -> names_other a b /\ names_other b a.
Proof.
  unfold ppc_edges_old. intros H. repeat (apply in_app_or in H; destruct H as [H|H]).
  - apply in_flat_map in H. destruct H as [[j l] [_ H]]. simpl in H. destruct (r_is l); [|contradiction].
    destruct H as [H|[]]. eapply pair_names. exact H.
  - apply in_flat_map in H. destruct H as [[j t] [_ H]]. simpl in H. destruct (r_is t); [|contradiction].
    destruct H as [H|[]]. eapply pair_names. exact H.
  - apply in_flat_map in H. destruct H as [[j t] [_ H]]. simpl in H. destruct (t_is t); [|contradiction].
    destruct H as [H|[H|[H|[]]]]; eapply t3_names; exact H.
  - apply in_flat_map in H. destruct H as [i [_ H]]. destruct (r_is i); [|contradiction].
    destruct H as [H|[]]. inversion H; subst. simpl. auto.
  - apply in_flat_map in H. destruct H as [[j x] [_ H]]. simpl in H. destruct (x_is x && bus_is n (x_bus x)); [|contradiction].
    destruct H as [H|[]]. inversion H; subst. simpl. auto.
  - apply in_flat_map in H. destruct H as [s [_ H]]. destruct (zswitch n s); [|contradiction].
    destruct H as [H|[]]. inversion H; subst. simpl. auto.
Qed.
Lemma sym_names a b : In (a, b) E -> names_other a b.
Proof. intros H. apply sym_In in H. destruct H as [H|H]; apply edge_old, edge_names in H; tauto. Qed.

(* auxiliary bus at an open switch / at the out-of-service end of a line: reached iff it names a row, an in-service
   branch joins it to that row, and that row is reached; a row between two re-routed ends (D None) is never reached *)
Theorem aux_switch_row_reached o k j s p :
  In (D o k j s p) R <-> exists l, o = Some l /\ In (D o k j s p, L l) E /\ In (L l) R.
Proof.
  split.
  - intros H. pose proof H as H0. unfold reached_with in H. apply reach_step in H. destruct H as [H|[u [U Ed]]].
    { apply ref_is_bus in H. destruct H as [r H]. discriminate. }
    apply sym_swap in Ed. pose proof (sym_names _ _ Ed) as N. destruct o as [l|]; simpl in N.
    + subst u. exists l. auto.
    + destruct N as [k' [j' [s' [p' ->]]]]. apply (reached_inv n rp Hrp Hidem) in U. contradiction.
  - intros [l [-> [Ed I]]]. apply (reached_closed _ _ Ed). exact I.
Qed.

(* internal bus of an xward: reached iff the xward is an in-service element and the row of its bus is reached *)
Definition no_xw (x : node) : Prop := match x with L (NXW _) => False | _ => True end.
Lemma pair_no_xw j u v fd td a b : mk_pair2 j (NB u) (NB v) fd td = (a, b) -> no_xw a /\ no_xw b.
Proof. unfold mk_pair2. destruct fd as [[k p]|], td as [[k' p']|]; intros H; inversion H; subst; simpl; auto. Qed.
Lemma t3_no_xw j t side a b : t3_ends rp n j t side = (a, b) -> no_xw a /\ no_xw b.
Proof.
  unfold t3_ends. destruct (t3_sw n t side); destruct (Nat.eqb side 0); intros H; inversion H; subst; simpl; auto.
Qed.
Lemma xward_edges a b j : In (a, b) (ppc_edges_old rp n) -> a = L (NXW j) \/ b = L (NXW j) ->
  exists x, In (j, x) (enum (xwards n)) /\ x_is x = true /\ bus_is n (x_bus x) = true /\
            a = L (NB (rp (x_bus x))) /\ b = L (NXW j).
Proof.
  unfold ppc_edges_old. intros H X. repeat (apply in_app_or in H; destruct H as [H|H]).
  - apply in_flat_map in H. destruct H as [[i l] [_ H]]. simpl in H. destruct (r_is l); [|contradiction].
    destruct H as [H|[]]. apply pair_no_xw in H. destruct X as [-> | ->]; simpl in H; tauto.
  - apply in_flat_map in H. destruct H as [[i t] [_ H]]. simpl in H. destruct (r_is t); [|contradiction].
    destruct H as [H|[]]. apply pair_no_xw in H. destruct X as [-> | ->]; simpl in H; tauto.
  - apply in_flat_map in H. destruct H as [[i t] [_ H]]. simpl in H. destruct (t_is t); [|contradiction].
    destruct H as [H|[H|[H|[]]]]; apply t3_no_xw in H; destruct X as [-> | ->]; simpl in H; tauto.
  - apply in_flat_map in H. destruct H as [i [_ H]]. destruct (r_is i); [|contradiction].
    destruct H as [H|[]]. inversion H; subst. destruct X; discriminate.
  - apply in_flat_map in H. destruct H as [[i x] [I H]]. simpl in H.
    destruct (x_is x && bus_is n (x_bus x)) eqn:S; [|contradiction].
    destruct H as [H|[]]. inversion H; subst. apply andb_prop in S. destruct S as [S1 S2].
    destruct X as [X|X]; [discriminate|]. inversion X; subst. exists x. auto.
  - apply in_flat_map in H. destruct H as [s [_ H]]. destruct (zswitch n s); [|contradiction].
    destruct H as [H|[]]. inversion H; subst. destruct X; discriminate.
Qed.
Theorem aux_xward_row_reached j :
  In (L (NXW j)) R <-> exists x, In (j, x) (enum (xwards n)) /\ x_is x = true /\ bus_is n (x_bus x) = true /\ SP (x_bus x).
Proof.
  split.
  - intros H. unfold reached_with in H. apply reach_step in H. destruct H as [H|[u [U Ed]]].
    { apply ref_is_bus in H. destruct H as [r H]. discriminate. }
    apply sym_In in Ed. destruct Ed as [Ed|Ed]; apply edge_old in Ed.
    + destruct (xward_edges _ _ j Ed (or_intror eq_refl)) as [x [I [S1 [S2 [-> _]]]]].
      exists x. repeat split; auto. now apply bus_row_reached.
    + destruct (xward_edges _ _ j Ed (or_introl eq_refl)) as [x [_ [_ [_ [_ X]]]]]. subst u.
      destruct (xward_edges _ _ j Ed (or_introl eq_refl)) as [x' [_ [_ [_ [X' _]]]]]. discriminate.
  - intros [x [I [S1 [S2 S]]]]. apply bus_row_reached in S.
    assert (Ed : In (L (NB (rp (x_bus x))), L (NXW j)) (ppc_edges rp n)).
    { unfold ppc_edges. apply filter_In. split.
      - unfold ppc_edges_old. do 4 (apply in_or_app; right). apply in_or_app. left.
        apply in_flat_map. exists (j, x). split; auto. simpl. rewrite S1, S2. now left.
      - simpl. rewrite (oos_rp n rp Hrp Hidem), (bus_is_not_oos n _ S2). reflexivity. }
    apply (reached_closed (L (NB (rp (x_bus x)))) (L (NXW j))); auto. apply sym_In. now left.
Qed.

(* star point of a trafo3w: reached iff the trafo3w is in service and some winding without an open switch ends at a
   bus that is not out of service and SuppliedPF *)
Theorem aux_trafo3w_row_reached j :
  In (L (NT3 j)) R <-> exists t s, In (j, t) (enum (trafo3ws n)) /\ t_is t = true /\ s < 3 /\
                        t3_open_pf n t s = false /\ bus_oos n (t3_bus t s) = false /\ SP (t3_bus t s).
Proof.
  split.
  - intros H. apply (reached_inv n rp Hrp Hidem) in H. exact H.
  - intros [t [s [I [S [Hs [O [Oo P]]]]]]]. apply bus_row_reached in P. apply t3_sw_none in O.
    assert (I3 : In (t3_ends rp n j t s) (ppc_edges_old rp n)).
    { unfold ppc_edges_old. do 2 (apply in_or_app; right). apply in_or_app. left.
      apply in_flat_map. exists (j, t). split; auto. simpl. rewrite S.
      destruct s as [|[|[|s]]]; simpl; auto; lia. }
    unfold t3_ends in I3. rewrite O in I3.
    apply (reached_closed (L (NB (rp (t3_bus t s)))) (L (NT3 j))); auto. apply sym_In.
    destruct (Nat.eqb s 0); [left|right]; unfold ppc_edges; apply filter_In; (split; [exact I3|]); simpl;
      now rewrite (oos_rp n rp Hrp Hidem), Oo.
Qed.
End AuxPF.

(* ------------------------------------------------------------------ for the lookup the implementation builds *)
Theorem bus_row_isolated_iff n b : isolated n (L (NB (rep n b))) = false <-> SuppliedPF n b.
Proof.
  unfold isolated, isolated_in, reached. rewrite negb_false_iff, mem_In.
  apply bus_row_reached; [apply rep_iff_fused|apply rep_idem].
Qed.
Theorem xward_row_isolated_iff n j :
  isolated n (L (NXW j)) = false <->
  exists x, In (j, x) (enum (xwards n)) /\ x_is x = true /\ bus_is n (x_bus x) = true /\ SuppliedPF n (x_bus x).
Proof.
  unfold isolated, isolated_in, reached. rewrite negb_false_iff, mem_In.
  apply aux_xward_row_reached; [apply rep_iff_fused|apply rep_idem].
Qed.
Theorem trafo3w_row_isolated_iff n j :
  isolated n (L (NT3 j)) = false <->
  exists t s, In (j, t) (enum (trafo3ws n)) /\ t_is t = true /\ s < 3 /\
              t3_open_pf n t s = false /\ bus_oos n (t3_bus t s) = false /\ SuppliedPF n (t3_bus t s).
Proof.
  unfold isolated, isolated_in, reached. rewrite negb_false_iff, mem_In.
  apply aux_trafo3w_row_reached; [apply rep_iff_fused|apply rep_idem].
Qed.
Theorem switch_row_isolated_iff n o k j s p :
  isolated n (D o k j s p) = false <->
  exists l, o = Some l /\ In (D o k j s p, L l) (sym (ppc_edges (rep n) n)) /\ isolated n (L l) = false.
Proof.
  unfold isolated, isolated_in, reached. rewrite negb_false_iff, mem_In.
  rewrite (aux_switch_row_reached n (rep n) (rep_iff_fused n) (rep_idem n)).
  split; intros [l [A [B C]]]; exists l; repeat split; auto.
  - rewrite negb_false_iff. now apply mem_In.
  - rewrite negb_false_iff in C. now apply mem_In in C.
Qed.

(* ------------------------------------------------------------------ non-vacuity on the witness net of C07_partial_nonvacuous:
   rows 0-6 buses, 7 the trafo3w star point, 8 the auxiliary bus at the open switch of line 1 (names bus row 2), 9 the one
   at the open mv switch of the trafo3w (names the star point), 10 the one at the out-of-service end of line 2 *)
Example aux_rows_nonvacuous :
  all_nodes (rep w_ok) w_ok = [L (NB 0); L (NB 1); L (NB 2); L (NB 3); L (NB 4); L (NB 5); L (NB 6); L (NT3 0);
                               D (Some (NB 2)) 0 1 0 0; D (Some (NT3 0)) 2 0 1 2; D (Some (NB 2)) 3 2 1 0] /\
  map (isolated w_ok) (all_nodes (rep w_ok) w_ok) = [false; false; true; true; true; false; true; false; true; false; true] /\
  isolated_rows w_ok = [2; 3; 4; 6; 8; 10].
Proof. vm_compute. repeat split. Qed.
