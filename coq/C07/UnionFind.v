(* C07/UnionFind.v — the disjoint-set forest of build_bus.py:36-125 (ds_find / ds_union / ds_create):
   ds_find never runs out of fuel (the `while True` loop terminates: the parent array stays a forest whose
   depth is bounded by the number of unions), and two buses get the same root iff they are connected by
   fusing switches.  This is the `fuse_lookup` theorem of C05 and the basis of C07. *)
From Coq Require Import List Bool Arith Lia Relations.
From PPV Require Import Base.C07Graph C07.Model.
Import ListNotations.
Local Open Scope nat_scope.

Inductive rootd (ar : forest) : nat -> nat -> nat -> Prop :=
| rd0 x : ar_get ar x = x -> rootd ar x x 0
| rdS x r d : ar_get ar x <> x -> rootd ar (ar_get ar x) r d -> rootd ar x r (S d).

Lemma rootd_fix ar x r d : rootd ar x r d -> ar_get ar r = r.
Proof. induction 1; auto. Qed.

Lemma rootd_fun ar x r d : rootd ar x r d -> forall r' d', rootd ar x r' d' -> r = r' /\ d = d'.
Proof.
  induction 1 as [x Hx|x r d Hx H IH]; intros r' d' H'; inversion H' as [y Hy|y r0 d0 Hy H0]; subst; auto; try congruence.
  destruct (IH _ _ H0). subst. auto.
Qed.

Lemma find_of_rootd ar x r d : rootd ar x r d -> forall fuel, d < fuel -> ds_find fuel ar x = Some r.
Proof.
  induction 1; intros fuel Hf; destruct fuel; try lia; simpl.
  - rewrite H. now rewrite Nat.eqb_refl.
  - destruct (Nat.eqb (ar_get ar x) x) eqn:E; [apply Nat.eqb_eq in E; congruence|].
    apply IHrootd. lia.
Qed.

(* hanging root a below root c *)
Lemma rootd_link ar a c : a <> c -> ar_get ar a = a -> ar_get ar c = c ->
  forall x r d, rootd ar x r d ->
    (r <> a -> rootd ((a, c) :: ar) x r d) /\ (r = a -> rootd ((a, c) :: ar) x c (S d)).
Proof.
  intros Hac Ha Hc x r d H. induction H.
  - split; intros Hx.
    + apply rd0. simpl. destruct (Nat.eqb a x) eqn:E; [apply Nat.eqb_eq in E; congruence|auto].
    + subst x. apply rdS.
      * simpl. rewrite Nat.eqb_refl. auto.
      * simpl. rewrite Nat.eqb_refl. apply rd0. simpl.
        destruct (Nat.eqb a c) eqn:E; [apply Nat.eqb_eq in E; congruence|auto].
  - assert (Hx : a <> x) by (intros ->; congruence).
    assert (G : ar_get ((a, c) :: ar) x = ar_get ar x).
    { simpl. destruct (Nat.eqb a x) eqn:E; [apply Nat.eqb_eq in E; congruence|auto]. }
    destruct IHrootd as [I1 I2]. split; intros Hr.
    + apply rdS; rewrite G; auto.
    + apply rdS; rewrite G; auto.
Qed.

Definition fuse_edges_of (n : net) (sw : list switch) : list (nat * nat) :=
  flat_map (fun s => if fuses n s then [(s_bus s, s_el s)] else []) sw.
Definition fuse_edges (n : net) : list (nat * nat) := fuse_edges_of n (switches n).

Record Inv (ar : forest) (k : nat) (E : list (nat * nat)) : Prop := {
  inv_root : forall x, exists r d, rootd ar x r d /\ d <= k;
  inv_sound : forall x r d, rootd ar x r d -> upath E x r;
  inv_compl : forall u v, In (u, v) E -> exists r du dv, rootd ar u r du /\ rootd ar v r dv }.

Lemma inv_init : Inv [] 0 [].
Proof.
  constructor.
  - intros x. exists x, 0. split; auto. now apply rd0.
  - intros x r d H. inversion H; subst; [apply upath_refl|]. simpl in H0. congruence.
  - intros ? ? [].
Qed.

Lemma inv_same_root ar k E b1 b2 r d1 d2 :
  Inv ar k E -> rootd ar b1 r d1 -> rootd ar b2 r d2 -> Inv ar k (E ++ [(b1, b2)]).
Proof.
  intros [I1 I2 I3] H1 H2. constructor; auto.
  - intros x r' d H. eapply upath_mono; [|eapply I2; eauto]. apply incl_appl, incl_refl.
  - intros u v H. apply in_app_or in H. destruct H as [H|[H|[]]]; auto.
    inversion H; subst. eauto.
Qed.

Lemma inv_link ar k E b1 b2 r1 r2 d1 d2 a c :
  Inv ar k E -> rootd ar b1 r1 d1 -> rootd ar b2 r2 d2 -> r1 <> r2 ->
  ((a = r1 /\ c = r2) \/ (a = r2 /\ c = r1)) -> Inv ((a, c) :: ar) (S k) (E ++ [(b1, b2)]).
Proof.
  intros [I1 I2 I3] H1 H2 Hne Hac.
  assert (Hr1 := rootd_fix _ _ _ _ H1). assert (Hr2 := rootd_fix _ _ _ _ H2).
  assert (Hne' : a <> c) by (destruct Hac as [[-> ->]|[-> ->]]; auto).
  assert (Ha : ar_get ar a = a) by (destruct Hac as [[-> ->]|[-> ->]]; auto).
  assert (Hc : ar_get ar c = c) by (destruct Hac as [[-> ->]|[-> ->]]; auto).
  pose proof (rootd_link ar a c Hne' Ha Hc) as LK.
  assert (Eac : upath (E ++ [(b1, b2)]) a c).
  { assert (U1 : upath (E ++ [(b1, b2)]) b1 r1).
    { eapply upath_mono; [|eapply I2; eauto]. apply incl_appl, incl_refl. }
    assert (U2 : upath (E ++ [(b1, b2)]) b2 r2).
    { eapply upath_mono; [|eapply I2; eauto]. apply incl_appl, incl_refl. }
    assert (U12 : upath (E ++ [(b1, b2)]) b1 b2).
    { apply upath_edge. apply in_or_app. right. now left. }
    assert (U : upath (E ++ [(b1, b2)]) r1 r2).
    { eapply upath_trans; [apply upath_sym; exact U1|]. eapply upath_trans; [exact U12|exact U2]. }
    destruct Hac as [[-> ->]|[-> ->]]; auto. now apply upath_sym. }
  (* the new root of every node *)
  assert (NEW : forall x r d, rootd ar x r d ->
            exists r' d', rootd ((a, c) :: ar) x r' d' /\ d' <= S d /\ (r <> a -> r' = r) /\ (r = a -> r' = c)).
  { intros x r d H. destruct (LK _ _ _ H) as [L1 L2]. destruct (Nat.eq_dec r a) as [->|N].
    - exists c, (S d). repeat split; auto. congruence.
    - exists r, d. repeat split; auto. congruence. }
  constructor.
  - intros x. destruct (I1 x) as [r [d [H Hd]]]. destruct (NEW _ _ _ H) as [r' [d' [H' [Hd' _]]]].
    exists r', d'. split; auto. lia.
  - intros x r' d' H'. destruct (I1 x) as [r [d [H Hd]]].
    destruct (NEW _ _ _ H) as [r'' [d'' [H'' [_ [N1 N2]]]]].
    destruct (rootd_fun _ _ _ _ H'' _ _ H') as [<- _].
    assert (U : upath (E ++ [(b1, b2)]) x r).
    { eapply upath_mono; [|eapply I2; eauto]. apply incl_appl, incl_refl. }
    destruct (Nat.eq_dec r a) as [->|N].
    + rewrite (N2 eq_refl). eapply upath_trans; eauto.
    + rewrite (N1 N). exact U.
  - intros u v H.
    assert (OLD : forall u v r du dv, rootd ar u r du -> rootd ar v r dv ->
              exists r' du' dv', rootd ((a, c) :: ar) u r' du' /\ rootd ((a, c) :: ar) v r' dv').
    { intros u0 v0 r du dv Hu Hv. destruct (LK _ _ _ Hu) as [A1 A2]. destruct (LK _ _ _ Hv) as [B1 B2].
      destruct (Nat.eq_dec r a) as [->|N]; eauto 7. }
    apply in_app_or in H. destruct H as [H|[H|[]]].
    + destruct (I3 _ _ H) as [r [du [dv [Hu Hv]]]]. eapply OLD; eauto.
    + inversion H; subst u v.
      destruct (LK _ _ _ H1) as [A1 A2]. destruct (LK _ _ _ H2) as [B1 B2].
      destruct Hac as [[-> ->]|[-> ->]].
      * exists r2, (S d1), d2. split; auto.
      * exists r1, d1, (S d2). split; auto.
Qed.

Lemma ds_create_inv fuel n pv act sw : forall ar k E,
  k + length sw < fuel -> Inv ar k E ->
  exists ar' k', ds_create fuel n pv act sw ar = Some ar' /\ k' <= k + length sw /\ Inv ar' k' (E ++ fuse_edges_of n sw).
Proof.
  induction sw as [|s t IH]; intros ar k E Hf I; simpl.
  - exists ar, k. rewrite app_nil_r. split; [auto|split; [lia|auto]].
  - simpl in Hf. unfold fuse_edges_of. simpl. fold (fuse_edges_of n t). destruct (fuses n s) eqn:F.
    + destruct (inv_root _ _ _ I (s_bus s)) as [r1 [d1 [H1 D1]]].
      destruct (inv_root _ _ _ I (s_el s)) as [r2 [d2 [H2 D2]]].
      unfold ds_union. rewrite (find_of_rootd _ _ _ _ H1), (find_of_rootd _ _ _ _ H2) by lia.
      destruct (Nat.eqb r1 r2) eqn:Q.
      * apply Nat.eqb_eq in Q. subst r2.
        destruct (IH ar k (E ++ [(s_bus s, s_el s)])) as [ar' [k' [C [K I']]]]; [lia|eapply inv_same_root; eauto|].
        exists ar', k'. rewrite <- app_assoc in I'. split; [auto|split; [lia|auto]].
      * apply Nat.eqb_neq in Q.
        destruct (act r2 && negb (pv r1)).
        -- destruct (IH ((r1, r2) :: ar) (S k) (E ++ [(s_bus s, s_el s)])) as [ar' [k' [C [K I']]]];
             [lia|eapply inv_link; eauto|].
           exists ar', k'. rewrite <- app_assoc in I'. split; [auto|split; [lia|auto]].
        -- destruct (IH ((r2, r1) :: ar) (S k) (E ++ [(s_bus s, s_el s)])) as [ar' [k' [C [K I']]]];
             [lia|eapply inv_link; eauto|].
           exists ar', k'. rewrite <- app_assoc in I'. split; [auto|split; [lia|auto]].
    + destruct (IH ar k E) as [ar' [k' [C [K I']]]]; [lia|auto|].
      exists ar', k'. split; [auto|split; [lia|auto]].
Qed.

(* ds_create terminates with a forest; ds_find never exhausts its fuel on it *)
Theorem forest_of_some n : exists ar, forest_of n = Some ar /\ exists k, k <= length (switches n) /\ Inv ar k (fuse_edges n).
Proof.
  unfold forest_of, uf_fuel.
  destruct (ds_create_inv (S (length (switches n))) n (is_pv n) (is_active n) (switches n) [] 0 []) as [ar [k [C [K I]]]].
  - simpl. lia.
  - apply inv_init.
  - exists ar. split; auto. exists k. split; auto.
Qed.

(* the bus lookup maps two buses to the same root iff they are connected by fusing switches *)
Theorem rep_iff_fused n a b : rep n a = rep n b <-> upath (fuse_edges n) a b.
Proof.
  destruct (forest_of_some n) as [ar [F [k [K I]]]].
  unfold rep. rewrite F. unfold rep_of, uf_fuel.
  destruct (inv_root _ _ _ I a) as [ra [da [Ha Da]]]. destruct (inv_root _ _ _ I b) as [rb [db [Hb Db]]].
  rewrite (find_of_rootd _ _ _ _ Ha), (find_of_rootd _ _ _ _ Hb) by lia.
  split.
  - intros <-. eapply upath_trans; [eapply inv_sound; eauto|]. apply upath_sym. eapply inv_sound; eauto.
  - intros U.
    assert (P : exists d, rootd ar b ra d).
    { apply (upath_invariant nat (fuse_edges n) (fun x => exists d, rootd ar x ra d)) with (u := a); [|exact U|eauto].
      intros u v E. destruct (inv_compl _ _ _ I _ _ E) as [r [du [dv [Hu Hv]]]].
      split; intros [d H].
      - destruct (rootd_fun _ _ _ _ H _ _ Hu) as [-> _]. eauto.
      - destruct (rootd_fun _ _ _ _ H _ _ Hv) as [-> _]. eauto. }
    destruct P as [d H]. destruct (rootd_fun _ _ _ _ H _ _ Hb). auto.
Qed.

(* the root is a fixed point of the lookup (it is the bus whose ppc row the class uses) *)
Theorem rep_idem n a : rep n (rep n a) = rep n a.
Proof.
  destruct (forest_of_some n) as [ar [F [k [K I]]]].
  unfold rep. rewrite F. unfold rep_of, uf_fuel.
  destruct (inv_root _ _ _ I a) as [ra [da [Ha Da]]].
  rewrite (find_of_rootd _ _ _ _ Ha) by lia.
  assert (R : rootd ar ra ra 0) by (apply rd0; eapply rootd_fix; eauto).
  rewrite (find_of_rootd _ _ _ _ R) by lia. reflexivity.
Qed.
