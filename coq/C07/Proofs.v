(* C07/Proofs.v — the rows isolated by the power flow are exactly the buses that are not SuppliedPF;
   the topology module reports exactly the buses that are not SuppliedT; under G07 both coincide with the
   property text's Supplied; without the guard both deviate (witnesses). *)
From Coq Require Import List Bool Arith Lia Relations.
From PPV Require Import Base.C07Graph C07.Model C07.UnionFind C07.Spec.
Import ListNotations.
Local Open Scope nat_scope.

(* ------------------------------------------------------------------ enumerations *)
Lemma combine_seq_ge X (l : list X) k j x : In (j, x) (combine (seq k (length l)) l) -> k <= j.
Proof. intros H. apply in_combine_l in H. apply in_seq in H. lia. Qed.
Lemma enum_In_snd X (l : list X) j x : In (j, x) (enum l) -> In x l.
Proof. apply in_combine_r. Qed.
Lemma combine_seq_ex X (l : list X) x : In x l -> forall k, exists j, In (j, x) (combine (seq k (length l)) l).
Proof.
  induction l as [|a t IH]; simpl; intros H k; [contradiction|]. destruct H as [->|H].
  - exists k. now left.
  - destruct (IH H (S k)) as [j Hj]. exists j. now right.
Qed.
Lemma enum_In_ex X (l : list X) x : In x l -> exists j, In (j, x) (enum l).
Proof. intros H. apply (combine_seq_ex X l x H 0). Qed.
Lemma combine_seq_fun X (l : list X) : forall k j x y,
  In (j, x) (combine (seq k (length l)) l) -> In (j, y) (combine (seq k (length l)) l) -> x = y.
Proof.
  induction l as [|a t IH]; simpl; intros k j x y Hx Hy; [contradiction|].
  destruct Hx as [Hx|Hx]; destruct Hy as [Hy|Hy].
  - congruence.
  - inversion Hx; subst. apply combine_seq_ge in Hy. lia.
  - inversion Hy; subst. apply combine_seq_ge in Hx. lia.
  - eapply IH; eauto.
Qed.
Lemma enum_fun X (l : list X) j x y : In (j, x) (enum l) -> In (j, y) (enum l) -> x = y.
Proof. apply combine_seq_fun. Qed.

(* ------------------------------------------------------------------ open switches *)
Definition sw_cond (et : swet) (el : nat) (ok : switch -> bool) (s : switch) : bool :=
  negb (s_closed s) && swet_eqb (s_et s) et && Nat.eqb (s_el s) el && ok s.

Lemma fold_last_none (c : switch -> bool) (l : list (nat * switch)) : forall acc,
  fold_left (fun acc ps => let '(p, s) := ps in if c s then Some p else acc) l acc = None
  <-> acc = None /\ forall ps, In ps l -> c (snd ps) = false.
Proof.
  induction l as [|[p s] t IH]; simpl; intros acc.
  - split; [intros ->; split; auto; intros ? []|tauto].
  - rewrite IH. destruct (c s) eqn:E; split.
    + intros [H _]. discriminate.
    + intros [_ H]. specialize (H (p, s) (or_introl eq_refl)). simpl in H. congruence.
    + intros [-> H]. split; auto. intros ps [<-|I]; auto.
    + intros [-> H]. split; auto.
Qed.

Lemma last_open_none n et el ok :
  last_open n et el ok = None <-> forall s, In s (switches n) -> sw_cond et el ok s = false.
Proof.
  unfold last_open. rewrite (fold_last_none (sw_cond et el ok)). split.
  - intros [_ H] s I. destruct (enum_In_ex _ _ _ I) as [j J]. apply (H (j, s) J).
  - intros H. split; auto. intros [j s] I. apply H. eapply enum_In_snd; eauto.
Qed.

Lemma open_sw_false n et el :
  open_sw n et el = false <-> forall s, In s (switches n) -> sw_cond et el (fun _ => true) s = false.
Proof.
  unfold open_sw. split.
  - intros H s I. unfold sw_cond. rewrite andb_true_r.
    destruct (negb (s_closed s) && swet_eqb (s_et s) et && Nat.eqb (s_el s) el) eqn:E; auto.
    assert (existsb (fun s => negb (s_closed s) && swet_eqb (s_et s) et && Nat.eqb (s_el s) el) (switches n) = true).
    { apply existsb_exists. eauto. } congruence.
  - intros H. destruct (existsb _ _) eqn:E; auto. apply existsb_exists in E. destruct E as [s [I E]].
    specialize (H s I). unfold sw_cond in H. rewrite andb_true_r in H. congruence.
Qed.

(* a two-sided branch: no open switch on either side iff no open switch at the element at all *)
Lemma two_sides_none n et el (ok : switch -> bool) :
  (last_open n et el ok = None /\ last_open n et el (fun s => negb (ok s)) = None) <-> open_sw n et el = false.
Proof.
  rewrite !last_open_none, open_sw_false. unfold sw_cond. split.
  - intros [H1 H2] s I. specialize (H1 s I). specialize (H2 s I). rewrite andb_true_r.
    destruct (negb (s_closed s) && swet_eqb (s_et s) et && Nat.eqb (s_el s) el); auto.
    simpl in *. destruct (ok s); simpl in *; congruence.
  - intros H. split; intros s I; specialize (H s I); rewrite andb_true_r in H; rewrite H; reflexivity.
Qed.

Lemma line_sw_none n l : (line_sw n l 0 = None /\ line_sw n l 1 = None) <-> open_sw n ETl (r_id l) = false.
Proof.
  unfold line_sw. simpl. rewrite <- (two_sides_none n ETl (r_id l) (fun s => Nat.eqb (r_t l) (s_bus s))). tauto.
Qed.
Lemma trafo_sw_none n t : (trafo_sw n t 0 = None /\ trafo_sw n t 1 = None) <-> open_sw n ETt (r_id t) = false.
Proof.
  unfold trafo_sw. simpl. rewrite <- (two_sides_none n ETt (r_id t) (fun s => Nat.eqb (r_f t) (s_bus s))). tauto.
Qed.
Lemma t3_sw_none n t side : t3_sw n t side = None <-> t3_open_pf n t side = false.
Proof.
  unfold t3_sw, t3_open_pf. rewrite last_open_none. unfold sw_cond. split.
  - intros H. destruct (existsb _ _) eqn:E; auto. apply existsb_exists in E. destruct E as [s [I E]].
    rewrite (H s I) in E. discriminate.
  - intros H s I. destruct (negb (s_closed s) && swet_eqb (s_et s) ETt3 && Nat.eqb (s_el s) (t_id t) &&
                            match t3_side t (s_bus s) with Some k => Nat.eqb k side | None => false end) eqn:E; auto.
    assert (X : existsb (fun s => negb (s_closed s) && swet_eqb (s_et s) ETt3 && Nat.eqb (s_el s) (t_id t) &&
                            match t3_side t (s_bus s) with Some k => Nat.eqb k side | None => false end) (switches n) = true).
    { apply existsb_exists. eauto. } congruence.
Qed.

(* ------------------------------------------------------------------ the power-flow side *)
Lemma bus_is_not_oos n b : bus_is n b = true -> bus_oos n b = false.
Proof. unfold bus_oos. intros ->. apply andb_false_r. Qed.

Section PF.
Variable n : net.
Variable rp : nat -> nat.
Hypothesis Hrp : forall a b, rp a = rp b <-> upath (fuse_edges n) a b.
Hypothesis Hidem : forall a, rp (rp a) = rp a.

Notation SP := (SuppliedPF n).

Lemma sp_link u v : link_pf n u v -> (SP u <-> SP v).
Proof. intros H. split; intros S; eapply SB_link; eauto. Qed.

Lemma fuse_edge_is u v : In (u, v) (fuse_edges n) -> bus_is n u = true /\ bus_is n v = true /\ link_pf n u v.
Proof.
  unfold fuse_edges, fuse_edges_of. intros H. apply in_flat_map in H. destruct H as [s [I H]].
  destruct (fuses n s) eqn:F; [|contradiction]. destruct H as [H|[]]. inversion H; subst.
  unfold fuses in F. repeat (apply andb_prop in F; destruct F as [F ?]).
  repeat split; auto. apply LP_sw; auto. destruct (s_et s); simpl in *; auto; discriminate.
Qed.
Lemma fuse_edge_link u v : In (u, v) (fuse_edges n) -> link_pf n u v.
Proof. intros H. now apply fuse_edge_is in H. Qed.

(* fused buses are in service: a class with more than one member consists of in-service buses *)
Lemma fuse_path_is a b : upath (fuse_edges n) a b -> a = b \/ (bus_is n a = true /\ bus_is n b = true).
Proof.
  intros H. induction H as [x y E| |x y z _ IH1 _ IH2]; auto.
  - right. apply sym_In in E. destruct E as [E|E]; apply fuse_edge_is in E; tauto.
  - destruct IH1 as [->|[A B]]; auto. destruct IH2 as [<-|[C D]]; auto.
Qed.
Lemma oos_rp a : bus_oos n (rp a) = bus_oos n a.
Proof.
  assert (U : upath (fuse_edges n) (rp a) a) by (apply Hrp; apply Hidem).
  destruct (fuse_path_is _ _ U) as [->|[A B]]; auto. now rewrite !bus_is_not_oos.
Qed.

Lemma sp_class a b : rp a = rp b -> SP a -> SP b.
Proof.
  intros E. apply Hrp in E. revert E. apply (upath_invariant nat (fuse_edges n) SP).
  intros u v I. apply sp_link. now apply fuse_edge_link.
Qed.

(* invariant of reached rows *)
Definition InvB (r : nat) : Prop := forall b, rp b = r -> SP b.
Definition InvL (x : lnode) : Prop :=
  match x with
  | NB r => InvB r
  | NT3 j => exists t s, In (j, t) (enum (trafo3ws n)) /\ t_is t = true /\ s < 3 /\ t3_open_pf n t s = false /\
                         bus_oos n (t3_bus t s) = false /\ SP (t3_bus t s)
  | NXW j => forall x, In (j, x) (enum (xwards n)) -> SP (x_bus x)
  end.
Definition InvN (x : node) : Prop :=
  match x with L l => InvL l | D (Some l) _ _ _ _ => InvL l | D None _ _ _ _ => False end.

Lemma invB_of u : SP u -> InvB (rp u).
Proof. intros S b E. apply (sp_class u b); auto. Qed.
Lemma invB_at u : InvB (rp u) -> SP u.
Proof. intros H. now apply H. Qed.
Lemma link_inv u v : link_pf n u v -> (InvB (rp u) <-> InvB (rp v)).
Proof.
  intros K. split; intros H; apply invB_of; apply invB_at in H.
  - apply (proj1 (sp_link u v K)); auto.
  - apply (proj2 (sp_link u v K)); auto.
Qed.

Lemma line_live l : In l (lines n) -> r_is l = true -> line_dead n l 0 = None -> line_dead n l 1 = None ->
  bus_oos n (r_f l) = false -> bus_oos n (r_t l) = false -> link_pf n (r_f l) (r_t l).
Proof.
  unfold line_dead, line_oos. simpl. intros I S. rewrite S. simpl. intros A B Of Ot. rewrite Of, Ot in *. simpl in *.
  destruct (line_sw n l 0) eqn:E0; try discriminate; destruct (line_sw n l 1) eqn:E1; try discriminate.
  apply LP_line; auto. apply line_sw_none; auto.
Qed.

Lemma trafo_live t : In t (trafos n) -> r_is t = true ->
  option_map (fun p => (1, p)) (trafo_sw n t 0) = None -> option_map (fun p => (1, p)) (trafo_sw n t 1) = None ->
  bus_oos n (r_f t) = false -> bus_oos n (r_t t) = false -> link_pf n (r_f t) (r_t t).
Proof.
  intros I S A B Of Ot. destruct (trafo_sw n t 0) eqn:E0; [discriminate|]. destruct (trafo_sw n t 1) eqn:E1; [discriminate|].
  apply LP_trafo; auto. apply trafo_sw_none; auto.
Qed.

(* a two-terminal branch built by mk_pair2 whose ends are not NONE rows *)
Lemma pair_inv j u v fd td a b :
  mk_pair2 j (NB (rp u)) (NB (rp v)) fd td = (a, b) -> none_row n a = false -> none_row n b = false ->
  (fd = None -> td = None -> bus_oos n u = false -> bus_oos n v = false -> link_pf n u v) -> (InvN a <-> InvN b).
Proof.
  unfold mk_pair2. intros H Na Nb K. destruct fd as [[k p]|], td as [[k' p']|]; inversion H; subst; simpl; try tauto.
  simpl in Na, Nb. rewrite oos_rp in Na, Nb. apply link_inv. now apply K.
Qed.

Lemma t3_edge_inv j t side a b : In (j, t) (enum (trafo3ws n)) -> t_is t = true -> side < 3 ->
  t3_ends rp n j t side = (a, b) -> none_row n a = false -> none_row n b = false -> (InvN a <-> InvN b).
Proof.
  intros I S Hs H Na Nb.
  assert (B : t3_sw n t side = None -> bus_oos n (t3_bus t side) = false -> (InvB (rp (t3_bus t side)) <-> InvL (NT3 j))).
  { intros E O. apply t3_sw_none in E. split.
    - intros H0. exists t, side. repeat split; auto; try (now apply invB_at).
    - intros [t0 [s0 [I0 [S0 [L0 [O0 [N0 P0]]]]]]]. assert (t0 = t) by (eapply enum_fun; eauto). subst t0.
      apply invB_of. eapply SB_link; [exact P0| |exact Logic.I]. left.
      apply LP_t3; auto. eapply enum_In_snd; eauto. }
  unfold t3_ends in H. destruct (t3_sw n t side) eqn:E; destruct (Nat.eqb side 0); inversion H; subst; simpl; try tauto;
    simpl in Na, Nb; try rewrite oos_rp in Na; try rewrite oos_rp in Nb; try (apply B; auto); try (symmetry; apply B; auto).
Qed.

(* every branch of the search graph joins two rows with equivalent invariants *)
Lemma edge_inv a b : In (a, b) (ppc_edges rp n) -> (InvN a <-> InvN b).
Proof.
  unfold ppc_edges. intros H. apply filter_In in H. destruct H as [H N]. simpl in N.
  apply andb_prop in N. destruct N as [Na Nb]. apply negb_true_iff in Na, Nb.
  unfold ppc_edges_old in H.
  repeat (apply in_app_or in H; destruct H as [H|H]).
  - apply in_flat_map in H. destruct H as [[j l] [I H]]. simpl in H. destruct (r_is l) eqn:S; [|contradiction].
    destruct H as [H|[]]. unfold line_ends in H. apply (pair_inv j (r_f l) (r_t l) _ _ a b H Na Nb).
    intros A B Of Ot. apply line_live; auto. eapply enum_In_snd; eauto.
  - apply in_flat_map in H. destruct H as [[j t] [I H]]. simpl in H. destruct (r_is t) eqn:S; [|contradiction].
    destruct H as [H|[]]. unfold trafo_ends in H. apply (pair_inv j (r_f t) (r_t t) _ _ a b H Na Nb).
    intros A B Of Ot. apply trafo_live; auto. eapply enum_In_snd; eauto.
  - apply in_flat_map in H. destruct H as [[j t] [I H]]. simpl in H. destruct (t_is t) eqn:S; [|contradiction].
    destruct H as [H|[H|[H|[]]]]; [apply (t3_edge_inv j t 0 a b I S)|apply (t3_edge_inv j t 1 a b I S)|apply (t3_edge_inv j t 2 a b I S)]; auto; lia.
  - apply in_flat_map in H. destruct H as [i [I H]]. destruct (r_is i) eqn:S; [|contradiction].
    destruct H as [H|[]]. inversion H; subst. simpl in *. rewrite oos_rp in Na, Nb. apply link_inv. now apply LP_imp.
  - apply in_flat_map in H. destruct H as [[j x] [I H]]. simpl in H.
    destruct (x_is x && bus_is n (x_bus x)) eqn:S; [|contradiction].
    destruct H as [H|[]]. inversion H; subst. simpl. split.
    + intros B x' I'. assert (x' = x) by (eapply enum_fun; eauto). subst. now apply invB_at.
    + intros B. apply invB_of. now apply B.
  - apply in_flat_map in H. destruct H as [s [I H]]. destruct (zswitch n s) eqn:S; [|contradiction].
    destruct H as [H|[]]. inversion H; subst. simpl. apply link_inv.
    unfold zswitch in S. repeat (apply andb_prop in S; destruct S as [S ?]).
    apply LP_sw; auto. destruct (s_et s); simpl in *; auto; discriminate.
Qed.

Lemma ref_inv x : In x (ref_nodes rp n) -> InvN x.
Proof.
  unfold ref_nodes. intros H. apply in_flat_map in H. destruct H as [i [I H]].
  destruct (inj_is n i && i_slack i) eqn:S; [|contradiction]. destruct H as [<-|[]]. simpl.
  apply andb_prop in S. destruct S as [S1 S2]. apply invB_of. apply SB_slack; auto. exists i. auto.
Qed.

Lemma reached_inv x : In x (reached_with rp n) -> InvN x.
Proof.
  unfold reached_with. intros H. apply reach_iff in H. destruct H as [s [Hs P]].
  apply (closed_contains_reach node (sym (ppc_edges rp n)) InvN) with (u := s); auto.
  - intros u v E. apply sym_In in E. destruct E as [E|E]; apply edge_inv in E; tauto.
  - now apply ref_inv.
Qed.

(* ---- completeness: every SuppliedPF bus has a reached row *)
Lemma keep_edge u v x y : In (x, y) (ppc_edges_old rp n) -> x = L (NB (rp u)) -> y = L (NB (rp v)) ->
  bus_oos n u = false -> bus_oos n v = false -> In (x, y) (ppc_edges rp n).
Proof.
  intros I -> -> Ou Ov. unfold ppc_edges. apply filter_In. split; auto. simpl. now rewrite !oos_rp, Ou, Ov.
Qed.

Lemma link_path u v : link_pf n u v -> upath (ppc_edges rp n) (L (NB (rp u))) (L (NB (rp v))).
Proof.
  intros K. destruct K.
  - destruct (enum_In_ex _ _ _ H) as [j J]. apply upath_edge.
    assert (E : line_ends rp n j l = (L (NB (rp (r_f l))), L (NB (rp (r_t l))))).
    { apply line_sw_none in H1. destruct H1 as [A B]. unfold line_ends, line_dead, line_oos. simpl.
      rewrite A, B, H0, H2, H3. reflexivity. }
    eapply keep_edge; eauto. rewrite <- E. unfold ppc_edges_old. apply in_or_app. left.
    apply in_flat_map. exists (j, l). split; auto. simpl. rewrite H0. now left.
  - destruct (enum_In_ex _ _ _ H) as [j J]. apply upath_edge.
    assert (E : trafo_ends rp n j t = (L (NB (rp (r_f t))), L (NB (rp (r_t t))))).
    { apply trafo_sw_none in H1. destruct H1 as [A B]. unfold trafo_ends. rewrite A, B. reflexivity. }
    eapply keep_edge; eauto. rewrite <- E. unfold ppc_edges_old. apply in_or_app. right. apply in_or_app. left.
    apply in_flat_map. exists (j, t). split; auto. simpl. rewrite H0. now left.
  - apply upath_edge. eapply keep_edge; eauto. unfold ppc_edges_old. do 3 (apply in_or_app; right). apply in_or_app. left.
    apply in_flat_map. exists i. split; auto. rewrite H0. now left.
  - destruct (enum_In_ex _ _ _ H) as [j J].
    assert (W : forall s, s < 3 -> t3_open_pf n t s = false -> bus_oos n (t3_bus t s) = false ->
                upath (ppc_edges rp n) (L (NB (rp (t3_bus t s)))) (L (NT3 j))).
    { intros s Hs O Oo. apply t3_sw_none in O.
      assert (I3 : In (t3_ends rp n j t s) (ppc_edges_old rp n)).
      { unfold ppc_edges_old. do 2 (apply in_or_app; right). apply in_or_app. left.
        apply in_flat_map. exists (j, t). split; auto. simpl. rewrite H0.
        destruct s as [|[|[|s]]]; simpl; auto; lia. }
      unfold t3_ends in I3. rewrite O in I3.
      assert (KE : forall x y, In (x, y) (ppc_edges_old rp n) ->
                   ((x = L (NB (rp (t3_bus t s))) /\ y = L (NT3 j)) \/ (y = L (NB (rp (t3_bus t s))) /\ x = L (NT3 j))) ->
                   In (x, y) (ppc_edges rp n)).
      { intros x y Ixy [[-> ->]|[-> ->]]; unfold ppc_edges; apply filter_In; split; auto; simpl; now rewrite oos_rp, Oo. }
      destruct (Nat.eqb s 0).
      - apply upath_edge. apply KE; auto.
      - apply upath_sym. apply upath_edge. apply KE; auto. }
    eapply upath_trans; [apply W; eauto|]. apply upath_sym. apply W; auto.
  - destruct (s_zpos s) eqn:Z.
    + apply upath_edge. eapply keep_edge; eauto; try (now apply bus_is_not_oos).
      unfold ppc_edges_old. do 5 (apply in_or_app; right).
      apply in_flat_map. exists s. split; auto. unfold zswitch. rewrite H0, H1, H2, H3, Z. simpl. now left.
    + assert (E : rp (s_bus s) = rp (s_el s)).
      { apply Hrp. apply upath_edge. unfold fuse_edges, fuse_edges_of. apply in_flat_map. exists s. split; auto.
        unfold fuses. rewrite H0, H1, H2, H3, Z. simpl. now left. }
      rewrite E. apply upath_refl.
Qed.

Lemma supplied_reached b : SP b -> In (L (NB (rp b))) (reached_with rp n).
Proof.
  intros S. unfold reached_with. apply reach_iff. induction S as [s [i [I [A [B <-]]]] _|u v S IH K _].
  - exists (L (NB (rp (i_bus i)))). split; [|apply path_refl].
    unfold ref_nodes. apply in_flat_map. exists i. split; auto. rewrite A, B. now left.
  - destruct IH as [s [Hs P]]. exists s. split; auto. eapply path_trans; [exact P|].
    destruct K as [K|K]; [|apply upath_sym]; now apply link_path.
Qed.

Theorem nan_with_iff b :
  nan_with rp (reached_with rp n) n b = false <-> (bus_is n b = true /\ SP b).
Proof.
  unfold nan_with, isolated_in. rewrite orb_false_iff, !negb_false_iff, mem_In. split.
  - intros [A B]. split; auto. apply reached_inv in B. simpl in B. now apply B.
  - intros [A B]. split; auto. now apply supplied_reached.
Qed.
End PF.

(* ------------------------------------------------------------------ T1: NaN <=> not SuppliedPF *)
Theorem nan_iff_not_supplied_pf n b : nan_bus n b = false <-> (bus_is n b = true /\ SuppliedPF n b).
Proof. unfold nan_bus. apply nan_with_iff; [apply rep_iff_fused|apply rep_idem]. Qed.

(* ------------------------------------------------------------------ generic facts about SuppliedBy *)
Lemma supplied_ok lk ok slack b : SuppliedBy lk ok slack b -> ok b.
Proof. induction 1; auto. Qed.

Lemma t3_side_bus t b k : t3_side t b = Some k -> t3_bus t k = b /\ k < 3.
Proof.
  unfold t3_side. destruct (Nat.eqb (t_hv t) b) eqn:A; [intros H; inversion H; apply Nat.eqb_eq in A; simpl; split; auto; lia|].
  destruct (Nat.eqb (t_mv t) b) eqn:B; [intros H; inversion H; apply Nat.eqb_eq in B; simpl; split; auto; lia|].
  destruct (Nat.eqb (t_lv t) b) eqn:C; [intros H; inversion H; apply Nat.eqb_eq in C; simpl; split; auto; lia|discriminate].
Qed.

(* the first-match side of the power flow is implied open by the (index, bus) rule of the topology module ... *)
Lemma open_pf_open_t3 n t s : t3_open_pf n t s = true -> open_t3 n (t_id t) (t3_bus t s) = true.
Proof.
  unfold t3_open_pf, open_t3. intros H. apply existsb_exists in H. destruct H as [w [I H]].
  apply existsb_exists. exists w. split; auto.
  repeat (apply andb_prop in H; destruct H as [H ?]).
  destruct (t3_side t (s_bus w)) eqn:E; [|discriminate]. apply Nat.eqb_eq in H0. subst n0.
  apply t3_side_bus in E. destruct E as [E _]. rewrite H, H2, H1, E. simpl. now rewrite Nat.eqb_refl.
Qed.
(* ... and conversely when the three terminals are distinct buses *)
Lemma open_t3_open_pf n t s : In t (trafo3ws n) -> t3_distinct n = true -> s < 3 ->
  open_t3 n (t_id t) (t3_bus t s) = true -> t3_open_pf n t s = true.
Proof.
  intros It Dn Hs H. unfold t3_distinct in Dn. rewrite forallb_forall in Dn. specialize (Dn t It).
  repeat (apply andb_prop in Dn; destruct Dn as [Dn ?]).
  apply negb_true_iff in Dn, H0, H1. apply Nat.eqb_neq in Dn, H0, H1.
  unfold open_t3 in H. apply existsb_exists in H. destruct H as [w [I H]].
  unfold t3_open_pf. apply existsb_exists. exists w. split; auto.
  repeat (apply andb_prop in H; destruct H as [H ?]). apply Nat.eqb_eq in H2.
  rewrite H, H4, H3. simpl. rewrite H2. unfold t3_side.
  destruct s as [|[|[|s]]]; simpl; try lia.
  - now rewrite Nat.eqb_refl.
  - destruct (Nat.eqb (t_hv t) (t_mv t)) eqn:Q; [apply Nat.eqb_eq in Q; congruence|]. now rewrite Nat.eqb_refl.
  - destruct (Nat.eqb (t_hv t) (t_lv t)) eqn:Q; [apply Nat.eqb_eq in Q; congruence|].
    destruct (Nat.eqb (t_mv t) (t_lv t)) eqn:Q'; [apply Nat.eqb_eq in Q'; congruence|]. now rewrite Nat.eqb_refl.
Qed.

Lemma bus_is_known n b : bus_is n b = true -> bus_known n b = true.
Proof.
  unfold bus_is, bus_known. intros H. apply existsb_exists in H. destruct H as [r [I H]].
  apply existsb_exists. exists r. split; auto. apply andb_prop in H. tauto.
Qed.
Lemma known_not_oos_is n b : bus_known n b = true -> bus_oos n b = false -> bus_is n b = true.
Proof. unfold bus_oos. intros ->. simpl. intros H. now apply negb_false_iff in H. Qed.

(* ------------------------------------------------------------------ Supplied -> SuppliedPF (always) *)
Lemma link_link_pf n u v : link n u v -> bus_is n u = true -> bus_is n v = true -> link_pf n u v.
Proof.
  intros K Hu Hv. pose proof (bus_is_not_oos _ _ Hu) as Ou. pose proof (bus_is_not_oos _ _ Hv) as Ov. destruct K.
  - now apply LP_line.
  - now apply LP_trafo.
  - now apply LP_imp.
  - apply LP_t3; auto.
    + destruct (t3_open_pf n t s1) eqn:E; auto. apply open_pf_open_t3 in E. congruence.
    + destruct (t3_open_pf n t s2) eqn:E; auto. apply open_pf_open_t3 in E. congruence.
  - now apply LP_sw.
Qed.

Theorem supplied_supplied_pf n b : Supplied n b -> SuppliedPF n b.
Proof.
  induction 1 as [s [i [I [A [B E]]]] O|u v S IH K O].
  - apply SB_slack; auto. exists i. unfold inj_is. rewrite A, E, O. auto.
  - pose proof (supplied_ok _ _ _ _ S) as Ou. simpl in Ou.
    eapply SB_link; [exact IH| |exact Logic.I]. destruct K as [K|K]; [left|right]; now apply link_link_pf.
Qed.

(* ------------------------------------------------------------------ SuppliedPF -> Supplied under G07 *)
Section Guard.
Variable n : net.
Hypothesis G : G07 n = true.
Hypothesis Dt : t3_distinct n = true.

Lemma G_parts :
  (forall d, In d (dclines n) -> r_is d = false) /\
  (forall t, In t (trafos n) -> r_is t = true -> bus_known n (r_f t) = true /\ bus_known n (r_t t) = true) /\
  (forall t, In t (imps n) -> r_is t = true -> bus_known n (r_f t) = true /\ bus_known n (r_t t) = true) /\
  (forall t, In t (trafo3ws n) -> t_is t = true -> forall s, bus_known n (t3_bus t s) = true) /\
  (forall l, In l (lines n) -> r_is l = true -> bus_known n (r_f l) = true /\ bus_known n (r_t l) = true) /\
  (forall s, In s (switches n) -> s_et s = ETb -> s_closed s = true -> bus_known n (s_bus s) = true /\ bus_known n (s_el s) = true).
Proof.
  pose proof G as G0. unfold G07 in G0.
  apply andb_prop in G0. destruct G0 as [G0 Gsw]. apply andb_prop in G0. destruct G0 as [G0 Gln].
  apply andb_prop in G0. destruct G0 as [G0 Gt3]. apply andb_prop in G0. destruct G0 as [G0 Gim].
  apply andb_prop in G0. destruct G0 as [Gdc Gtr].
  rewrite forallb_forall in Gsw, Gln, Gt3, Gim, Gdc, Gtr.
  split; [|split; [|split; [|split; [|split]]]].
  - intros d I. specialize (Gdc d I). now apply negb_true_iff in Gdc.
  - intros t I S. specialize (Gtr t I). rewrite S in Gtr. simpl in Gtr. apply andb_prop in Gtr. tauto.
  - intros t I S. specialize (Gim t I). rewrite S in Gim. simpl in Gim. apply andb_prop in Gim. tauto.
  - intros t I S s. specialize (Gt3 t I). rewrite S in Gt3. simpl in Gt3.
    apply andb_prop in Gt3. destruct Gt3 as [Gt3 A3]. apply andb_prop in Gt3. destruct Gt3 as [A1 A2].
    destruct s as [|[|s]]; simpl; auto.
  - intros l I S. specialize (Gln l I). rewrite S in Gln. simpl in Gln. apply andb_prop in Gln. tauto.
  - intros w I E C. specialize (Gsw w I). rewrite E, C in Gsw. simpl in Gsw. apply andb_prop in Gsw. tauto.
Qed.

(* a power-flow link is a link of the property text between in-service buses *)
Lemma link_pf_link u v : link_pf n u v -> link n u v /\ bus_is n u = true /\ bus_is n v = true.
Proof.
  destruct G_parts as [Gd [Gt [Gi [G3 [Gl Gs]]]]].
  intros K. destruct K.
  - destruct (Gl l H H0). split; [now apply LK_line|]. split; now apply known_not_oos_is.
  - destruct (Gt t H H0). split; [now apply LK_trafo|]. split; now apply known_not_oos_is.
  - destruct (Gi i H H0). split; [now apply LK_imp|]. split; now apply known_not_oos_is.
  - split; [|split; apply known_not_oos_is; auto]. apply LK_t3; auto.
    + destruct (open_t3 n (t_id t) (t3_bus t s1)) eqn:E; auto. apply open_t3_open_pf in E; auto. congruence.
    + destruct (open_t3 n (t_id t) (t3_bus t s2)) eqn:E; auto. apply open_t3_open_pf in E; auto. congruence.
  - split; auto. now apply LK_sw.
Qed.

Theorem supplied_pf_supplied b : SuppliedPF n b -> Supplied n b.
Proof.
  induction 1 as [s [i [I [A [B E]]]] _|u v S IH K _].
  - unfold inj_is in A. apply andb_prop in A. destruct A as [A1 A2]. apply SB_slack.
    + exists i. auto.
    + now rewrite <- E.
  - pose proof (supplied_ok _ _ _ _ IH) as Ou. simpl in Ou.
    destruct K as [K|K].
    + destruct (link_pf_link u v K) as [K' [_ Ov]]. eapply SB_link; eauto.
    + destruct (link_pf_link v u K) as [K' [Ov _]]. eapply SB_link; eauto.
Qed.
End Guard.

(* ------------------------------------------------------------------ the topology side *)
Lemma nx_raw_link n u v : In (u, v) (nx_edges_raw n) -> linkT n u v.
Proof.
  unfold nx_edges_raw. intros H. repeat (apply in_app_or in H; destruct H as [H|H]).
  - apply in_flat_map in H. destruct H as [l [I H]]. destruct (r_is l && negb (open_sw n ETl (r_id l))) eqn:E; [|contradiction].
    destruct H as [H|[]]. inversion H; subst. apply andb_prop in E. destruct E as [E1 E2]. apply negb_true_iff in E2.
    apply LT_link. now apply LK_line.
  - apply in_flat_map in H. destruct H as [l [I H]]. destruct (r_is l) eqn:E; [|contradiction].
    destruct H as [H|[]]. inversion H; subst. apply LT_link. now apply LK_imp.
  - apply in_flat_map in H. destruct H as [l [I H]]. destruct (r_is l) eqn:E; [|contradiction].
    destruct H as [H|[]]. inversion H; subst. now apply LT_dcline.
  - apply in_flat_map in H. destruct H as [l [I H]]. destruct (r_is l && negb (open_sw n ETt (r_id l))) eqn:E; [|contradiction].
    destruct H as [H|[]]. inversion H; subst. apply andb_prop in E. destruct E as [E1 E2]. apply negb_true_iff in E2.
    apply LT_link. now apply LK_trafo.
  - apply in_flat_map in H. destruct H as [t [I H]]. apply in_flat_map in H. destruct H as [[f t'] [P H]].
    destruct (t_is t && negb (open_t3 n (t_id t) (t3_bus t f)) && negb (open_t3 n (t_id t) (t3_bus t t'))) eqn:E; [|contradiction].
    destruct H as [H|[]]. inversion H; subst.
    apply andb_prop in E. destruct E as [E E3]. apply andb_prop in E. destruct E as [E1 E2].
    apply negb_true_iff in E2, E3. apply LT_link.
    assert (f < 3 /\ t' < 3) as [Hf Ht].
    { simpl in P. destruct P as [P|[P|[P|[]]]]; inversion P; subst; lia. }
    now apply LK_t3.
  - apply in_flat_map in H. destruct H as [s [I H]]. destruct (swet_eqb (s_et s) ETb && s_closed s) eqn:E; [|contradiction].
    destruct H as [H|[]]. inversion H; subst. apply andb_prop in E. destruct E as [E1 E2]. apply LT_link.
    apply LK_sw; auto. destruct (s_et s); simpl in E1; auto; discriminate.
Qed.

Lemma link_nx_raw n u v : linkT n u v -> u = v \/ In (u, v) (nx_edges_raw n) \/ In (v, u) (nx_edges_raw n).
Proof.
  intros K. destruct K as [u v K|d I S].
  - destruct K.
    + right. left. unfold nx_edges_raw. apply in_or_app. left. apply in_flat_map. exists l. split; auto.
      rewrite H0, H1. now left.
    + right. left. unfold nx_edges_raw. do 3 (apply in_or_app; right). apply in_or_app. left.
      apply in_flat_map. exists t. split; auto. rewrite H0, H1. now left.
    + right. left. unfold nx_edges_raw. apply in_or_app; right. apply in_or_app. left.
      apply in_flat_map. exists i. split; auto. rewrite H0. now left.
    + assert (E : forall a b, In (a, b) [(0, 1); (0, 2); (1, 2)] ->
                  open_t3 n (t_id t) (t3_bus t a) = false -> open_t3 n (t_id t) (t3_bus t b) = false ->
                  In (t3_bus t a, t3_bus t b) (nx_edges_raw n)).
      { intros a b P Oa Ob. unfold nx_edges_raw. do 4 (apply in_or_app; right). apply in_or_app. left.
        apply in_flat_map. exists t. split; auto. apply in_flat_map. exists (a, b). split; auto.
        rewrite H0, Oa, Ob. now left. }
      destruct s1 as [|[|[|s1]]]; try lia; destruct s2 as [|[|[|s2]]]; try lia; auto;
        try (right; left; apply E; simpl; auto; fail); right; right; apply E; simpl; auto.
    + right. left. unfold nx_edges_raw. do 5 (apply in_or_app; right).
      apply in_flat_map. exists s. split; auto. rewrite H0, H1. now left.
  - right. left. unfold nx_edges_raw. do 2 (apply in_or_app; right). apply in_or_app. left.
    apply in_flat_map. exists d. split; auto. rewrite S. now left.
Qed.

Lemma nx_edge_iff n u v :
  In (u, v) (nx_edges n) <-> In (u, v) (nx_edges_raw n) /\ bus_oos n u = false /\ bus_oos n v = false.
Proof.
  unfold nx_edges. rewrite filter_In. simpl. rewrite andb_true_iff, !negb_true_iff. tauto.
Qed.

Lemma nx_edge_nodes n u v : In (u, v) (nx_edges n) -> In u (nx_nodes n) /\ In v (nx_nodes n).
Proof.
  intros H. apply nx_edge_iff in H. destruct H as [H [Ou Ov]]. unfold nx_nodes.
  split; apply filter_In; (split; [|now apply negb_true_iff]); apply dedup_In; apply in_or_app; right;
    unfold nodes_of; apply in_flat_map; exists (u, v); simpl; auto.
Qed.

Lemma nx_path_nodes n x y : upath (nx_edges n) x y -> In x (nx_nodes n) -> In y (nx_nodes n).
Proof.
  apply (upath_invariant nat (nx_edges n) (fun z => In z (nx_nodes n))).
  intros u v E. apply nx_edge_nodes in E. tauto.
Qed.

Lemma nx_path_supplied n x y : upath (nx_edges n) x y -> SuppliedT n x -> SuppliedT n y.
Proof.
  apply (upath_invariant nat (nx_edges n) (SuppliedT n)).
  intros u v E. apply nx_edge_iff in E. destruct E as [E [Ou Ov]]. apply nx_raw_link in E.
  split; intros S; eapply SB_link; eauto.
Qed.

Lemma suppliedT_path n b : SuppliedT n b ->
  exists s, slack_at n s /\ bus_oos n s = false /\ upath (nx_edges n) s b.
Proof.
  induction 1 as [s A O|u v S IH K O].
  - exists s. repeat split; auto. apply upath_refl.
  - destruct IH as [s [A [Os P]]]. exists s. repeat split; auto. eapply upath_trans; [exact P|].
    pose proof (supplied_ok _ _ _ _ S) as Ou. simpl in Ou.
    assert (W : forall a b, linkT n a b -> bus_oos n a = false -> bus_oos n b = false -> upath (nx_edges n) a b).
    { intros a b' K' Oa Ob. destruct (link_nx_raw _ _ _ K') as [->|[E|E]].
      - apply upath_refl.
      - apply upath_edge. apply nx_edge_iff. auto.
      - apply upath_sym. apply upath_edge. apply nx_edge_iff. auto. }
    destruct K as [K|K]; [|apply upath_sym]; apply W; auto.
Qed.

Lemma topo_slacks_iff n s : In s (topo_slacks n) <-> slack_at n s.
Proof.
  unfold topo_slacks, slack_at. rewrite in_flat_map. split.
  - intros [i [I H]]. destruct (i_is i && i_slack i) eqn:E; [|contradiction]. destruct H as [<-|[]].
    apply andb_prop in E. exists i. tauto.
  - intros [i [I [A [B <-]]]]. exists i. split; auto. rewrite A, B. now left.
Qed.

(* T2: unsupplied_buses = the graph nodes that are not SuppliedT *)
Theorem topo_unsupplied_iff n b : In b (topo_unsupplied n) <-> (In b (nx_nodes n) /\ ~ SuppliedT n b).
Proof.
  unfold topo_unsupplied. rewrite in_flat_map. split.
  - intros [c [C H]]. destruct (existsb _ _) eqn:E; [contradiction|].
    destruct (components_class nat Nat.eq_dec _ _ _ C) as [x [X Cl]].
    assert (Xb : upath (nx_edges n) x b) by now apply Cl.
    split; [eapply nx_path_nodes; eauto|].
    intros S. destruct (suppliedT_path _ _ S) as [s [A [Os P]]].
    assert (In s c). { apply Cl. eapply upath_trans; [exact Xb|]. now apply upath_sym. }
    assert (existsb (fun s0 => mem Nat.eq_dec s0 c) (topo_slacks n) = true).
    { apply existsb_exists. exists s. split; [now apply topo_slacks_iff|now apply mem_In]. }
    congruence.
  - intros [V NS]. destruct (components_cover nat Nat.eq_dec (nx_edges n) _ _ V) as [c [C B]].
    exists c. split; auto. destruct (existsb _ _) eqn:E; auto. exfalso. apply NS.
    apply existsb_exists in E. destruct E as [s [Ss M]]. apply mem_In in M. apply topo_slacks_iff in Ss.
    destruct (components_class nat Nat.eq_dec _ _ _ C) as [x [X Cl]].
    assert (Ps : upath (nx_edges n) s b).
    { eapply upath_trans; [apply upath_sym; apply Cl; exact M|now apply Cl]. }
    apply (nx_path_supplied n s b Ps). apply SB_slack; auto.
    assert (In s (nx_nodes n)). { eapply nx_path_nodes; [apply Cl; exact M|exact X]. }
    unfold nx_nodes in H. apply filter_In in H. destruct H as [_ H]. now apply negb_true_iff in H.
Qed.

Lemma nx_nodes_known n b : bus_known n b = true -> (In b (nx_nodes n) <-> bus_is n b = true).
Proof.
  intros K. unfold nx_nodes. rewrite filter_In, negb_true_iff. split.
  - intros [_ O]. now apply known_not_oos_is.
  - intros I. split; [|now apply bus_is_not_oos]. apply dedup_In. apply in_or_app. left.
    unfold bus_known in K. apply existsb_exists in K. destruct K as [r [R E]]. apply Nat.eqb_eq in E. subst b.
    now apply in_map.
Qed.

(* Supplied -> SuppliedT always; the converse under G07 for buses of the bus table *)
Theorem supplied_suppliedT n b : Supplied n b -> SuppliedT n b.
Proof.
  induction 1 as [s A O|u v S IH K O].
  - apply SB_slack; auto. now apply bus_is_not_oos.
  - eapply SB_link; [exact IH| |now apply bus_is_not_oos]. destruct K; [left|right]; now apply LT_link.
Qed.

Section GuardT.
Variable n : net.
Hypothesis G : G07 n = true.

Lemma link_known u v : link n u v -> bus_known n u = true /\ bus_known n v = true.
Proof.
  destruct (G_parts n G) as [Gd [Gt [Gi [G3 [Gl Gs]]]]]. intros K. destruct K.
  - now apply Gl.
  - now apply Gt.
  - now apply Gi.
  - split; now apply G3.
  - now apply Gs.
Qed.

Theorem suppliedT_supplied b : SuppliedT n b -> bus_known n b = true -> Supplied n b.
Proof.
  destruct (G_parts n G) as [Gd _].
  induction 1 as [s A O|u v S IH K O]; intros Kn.
  - apply SB_slack; auto. now apply known_not_oos_is.
  - assert (L : link n u v \/ link n v u).
    { destruct K as [K|K]; inversion K; subst; auto; rewrite (Gd _ H) in H0; discriminate. }
    assert (Ku : bus_known n u = true) by (destruct L as [L|L]; apply link_known in L; tauto).
    eapply SB_link; [apply IH; auto|exact L|now apply known_not_oos_is].
Qed.
End GuardT.

(* ------------------------------------------------------------------ the partial theorem *)
Theorem c07_partial n : G07 n = true -> t3_distinct n = true -> forall b, bus_known n b = true ->
  (nan_bus n b = false <-> Supplied n b) /\
  (In b (topo_unsupplied n) <-> (bus_is n b = true /\ ~ Supplied n b)).
Proof.
  intros G Dt b K. split.
  - rewrite nan_iff_not_supplied_pf. split.
    + intros [_ S]. now apply supplied_pf_supplied.
    + intros S. split; [apply (supplied_ok _ _ _ _ S)|now apply supplied_supplied_pf].
  - rewrite topo_unsupplied_iff, (nx_nodes_known n b K). split; intros [A B]; split; auto; intros S; apply B.
    + now apply supplied_suppliedT.
    + now apply suppliedT_supplied.
Qed.

(* ------------------------------------------------------------------ the full statement is false of the model *)
Definition mkbus i s := {| b_id := i; b_is := s |}.
Definition mkbr i f t s := {| r_id := i; r_f := f; r_t := t; r_is := s |}.
Definition eg b := {| i_bus := b; i_is := true; i_pv := true; i_slack := true |}.
(* bus 2 fed only through a dcline *)
Definition w_dcline : net :=
  {| buses := [mkbus 0 true; mkbus 1 true; mkbus 2 true]; lines := [mkbr 0 0 1 true]; trafos := []; trafo3ws := [];
     imps := []; dclines := [mkbr 0 1 2 true]; xwards := []; switches := [];
     injs := [eg 0; {| i_bus := 2; i_is := true; i_pv := true; i_slack := false |};
              {| i_bus := 1; i_is := true; i_pv := true; i_slack := false |}] |}.
(* bus 3 behind the out-of-service bus 2, joined by two impedances *)
Definition w_bridge : net :=
  {| buses := [mkbus 0 true; mkbus 1 true; mkbus 2 false; mkbus 3 true]; lines := [mkbr 0 0 1 true]; trafos := [];
     trafo3ws := []; imps := [mkbr 0 1 2 true; mkbr 1 2 3 true]; dclines := []; xwards := []; switches := [];
     injs := [eg 0] |}.

Theorem topo_eq_pf_refuted :
  exists n b, bus_is n b = true /\ nan_bus n b = true /\ ~ In b (topo_unsupplied n).
Proof. exists w_dcline, 2. repeat split; try (vm_compute; reflexivity). vm_compute. tauto. Qed.

(* before the repair "the connectivity check does not walk through out-of-service buses" (regression witness) *)
Theorem pf_isolated_iff_supplied_old_refuted :
  exists n b, bus_is n b = true /\ nan_bus_old n b = false /\ ~ Supplied n b.
Proof.
  exists w_bridge, 3. repeat split; try (vm_compute; reflexivity).
  intros S. apply supplied_suppliedT in S.
  assert (U : In 3 (topo_unsupplied w_bridge)) by (vm_compute; auto).
  apply topo_unsupplied_iff in U. tauto.
Qed.

(* non-vacuity: a net satisfying the guard with a supplied, an unsupplied and an out-of-service bus, fused buses,
   an open line switch and a trafo3w *)
Definition w_ok : net :=
  {| buses := [mkbus 0 true; mkbus 1 true; mkbus 2 true; mkbus 3 false; mkbus 4 true; mkbus 5 true; mkbus 6 true];
     lines := [mkbr 0 0 1 true; mkbr 1 1 2 true; mkbr 2 2 3 true];
     trafos := []; trafo3ws := [{| t_id := 0; t_hv := 1; t_mv := 4; t_lv := 5; t_is := true |}];
     imps := []; dclines := []; xwards := [];
     switches := [{| s_bus := 1; s_el := 1; s_et := ETl; s_closed := false; s_zpos := false |};
                  {| s_bus := 5; s_el := 6; s_et := ETb; s_closed := true; s_zpos := false |};
                  {| s_bus := 4; s_el := 0; s_et := ETt3; s_closed := false; s_zpos := false |}];
     injs := [eg 0] |}.
Example c07_partial_nonvacuous :
  G07 w_ok = true /\ t3_distinct w_ok = true /\
  map (nan_bus w_ok) [0; 1; 2; 3; 4; 5; 6] = [false; false; true; true; true; false; false] /\
  topo_unsupplied w_ok = [4; 2] /\ rep w_ok 6 = rep w_ok 5.
Proof. vm_compute. repeat split. Qed.

(* ------------------------------------------------------------------ zero power of dead ext_grids *)
From Coq Require Import QArith.
(* an ext_grid that is not among the in-service elements reports exactly zero *)
Theorem ext_grid_zero egs k e : nth_error egs k = Some e -> snd (fst e) = false ->
  nth_error (res_ext_grid_p egs) k = Some (Some 0%Q).
Proof.
  unfold res_ext_grid_p. intros H D. rewrite nth_error_map, H. simpl. now rewrite D.
Qed.
(* before the repair it reported NaN when no ext_grid row was in service (regression witness) *)
Theorem ext_grid_zero_old_refuted :
  exists egs k e, nth_error egs k = Some e /\ snd (fst e) = false /\ nth_error (res_ext_grid_p_old egs) k = Some None.
Proof. exists [(false, false, 0%Q)], 0%nat, (false, false, 0%Q). repeat split. Qed.
