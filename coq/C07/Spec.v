(* C07/Spec.v — what the property text says, and the two semantics actually implemented.
   "an in-service bus ... is connected, through in-service branches and closed switches, to an in-service slack" *)
From Coq Require Import List Bool Arith Lia.
From PPV Require Import Base.C07Graph C07.Model.
Import ListNotations.
Local Open Scope nat_scope.

(* supplied: least set containing the admissible slack buses and closed under admissible links *)
Inductive SuppliedBy (lk : nat -> nat -> Prop) (ok : nat -> Prop) (slack : nat -> Prop) : nat -> Prop :=
| SB_slack s : slack s -> ok s -> SuppliedBy lk ok slack s
| SB_link u v : SuppliedBy lk ok slack u -> (lk u v \/ lk v u) -> ok v -> SuppliedBy lk ok slack v.

(* ---- the property text *)
Inductive link (n : net) : nat -> nat -> Prop :=
| LK_line l : In l (lines n) -> r_is l = true -> open_sw n ETl (r_id l) = false -> link n (r_f l) (r_t l)
| LK_trafo t : In t (trafos n) -> r_is t = true -> open_sw n ETt (r_id t) = false -> link n (r_f t) (r_t t)
| LK_imp i : In i (imps n) -> r_is i = true -> link n (r_f i) (r_t i)
| LK_t3 t s1 s2 : In t (trafo3ws n) -> t_is t = true -> s1 < 3 -> s2 < 3 ->
    open_t3 n (t_id t) (t3_bus t s1) = false -> open_t3 n (t_id t) (t3_bus t s2) = false ->
    link n (t3_bus t s1) (t3_bus t s2)
| LK_sw s : In s (switches n) -> s_et s = ETb -> s_closed s = true -> link n (s_bus s) (s_el s).
Definition slack_at (n : net) (b : nat) : Prop :=
  exists i, In i (injs n) /\ i_is i = true /\ i_slack i = true /\ i_bus i = b.
Definition Supplied (n : net) : nat -> Prop :=
  SuppliedBy (link n) (fun b => bus_is n b = true) (slack_at n).

(* ---- what the topology module implements: additionally every in-service dcline is a link *)
Inductive linkT (n : net) : nat -> nat -> Prop :=
| LT_link u v : link n u v -> linkT n u v
| LT_dcline d : In d (dclines n) -> r_is d = true -> linkT n (r_f d) (r_t d).
Definition SuppliedT (n : net) : nat -> Prop :=
  SuppliedBy (linkT n) (fun b => bus_oos n b = false) (slack_at n).

(* ---- what the power flow implements (_check_connectivity on the ppc, after the repair "the connectivity check does
   not walk through out-of-service buses"): a branch conducts between buses that are not out of service, bus-bus switches
   conduct between in-service buses; the side of a trafo3w switch is the first matching terminal *)
Definition t3_open_pf (n : net) (t : br3) (side : nat) : bool :=
  existsb (fun s => negb (s_closed s) && swet_eqb (s_et s) ETt3 && Nat.eqb (s_el s) (t_id t)
                    && match t3_side t (s_bus s) with Some k => Nat.eqb k side | None => false end) (switches n).
Inductive link_pf (n : net) : nat -> nat -> Prop :=
| LP_line l : In l (lines n) -> r_is l = true -> open_sw n ETl (r_id l) = false ->
    bus_oos n (r_f l) = false -> bus_oos n (r_t l) = false -> link_pf n (r_f l) (r_t l)
| LP_trafo t : In t (trafos n) -> r_is t = true -> open_sw n ETt (r_id t) = false ->
    bus_oos n (r_f t) = false -> bus_oos n (r_t t) = false -> link_pf n (r_f t) (r_t t)
| LP_imp i : In i (imps n) -> r_is i = true ->
    bus_oos n (r_f i) = false -> bus_oos n (r_t i) = false -> link_pf n (r_f i) (r_t i)
| LP_t3 t s1 s2 : In t (trafo3ws n) -> t_is t = true -> s1 < 3 -> s2 < 3 ->
    t3_open_pf n t s1 = false -> t3_open_pf n t s2 = false ->
    bus_oos n (t3_bus t s1) = false -> bus_oos n (t3_bus t s2) = false -> link_pf n (t3_bus t s1) (t3_bus t s2)
| LP_sw s : In s (switches n) -> s_et s = ETb -> s_closed s = true ->
    bus_is n (s_bus s) = true -> bus_is n (s_el s) = true -> link_pf n (s_bus s) (s_el s).
Definition slack_pf (n : net) (b : nat) : Prop :=
  exists i, In i (injs n) /\ inj_is n i = true /\ i_slack i = true /\ i_bus i = b.
Definition SuppliedPF (n : net) : nat -> Prop :=
  SuppliedBy (link_pf n) (fun _ => True) (slack_pf n).

(* trafo3w terminals pairwise distinct (assumption of the partial theorem: then "the switch at bus b of trafo3w t"
   names one side only, as both modules assume) *)
Definition t3_distinct (n : net) : bool :=
  forallb (fun t => negb (Nat.eqb (t_hv t) (t_mv t)) && negb (Nat.eqb (t_hv t) (t_lv t)) && negb (Nat.eqb (t_mv t) (t_lv t)))
          (trafo3ws n).
