(* C14 — faithful model of pandapower/contingency/contingency.py
     run_contingency (:40-127) and _update_contingency_results (:345-372).
   NaN = None.  Executable definitions only. *)
From Coq Require Import ZArith QArith List Bool String.
From PPV Require Import Base.QN Base.Out.
Import ListNotations.
Open Scope Q_scope.

Definition F := option Q.
Definition isnan (v : F) : bool := match v with None => true | Some _ => false end.
(* numpy  a > b : False when either side is NaN *)
Definition gt (a b : F) : bool :=
  match a, b with Some x, Some y => qltb y x | _, _ => false end.
(* np.fmax / np.fmin ignore NaN *)
Definition fmax (v r : F) : F :=
  match v, r with
  | Some x, Some y => Some (qmax x y) | Some x, None => Some x | None, _ => r end.
Definition fmin (v r : F) : F :=
  match v, r with
  | Some x, Some y => Some (qmin x y) | Some x, None => Some x | None, _ => r end.

Definition label := (nat * Z)%type.          (* (element type, index) of the outage *)
Record obs := { o_in : bool;                 (* net[element].in_service at update time *)
                o_val : F;                   (* res_<element>[var] *)
                o_lim : F }.                 (* loading limit (unused for bus) *)
Record acc := { mx : F; mn : F; cause : option label }.  (* cause None = np.empty_like garbage *)
Definition acc0 : acc := {| mx := None; mn := None; cause := None |}.

(* One N-1 update of one element, loading variable (contingency.py:357-376, after the repair
   "fix: contingency cause_element/cause_index follow the masked running maximum"):
   running_max defaults to NaN; max_mask = in_service & ~isnan(val) & (isnan(running) | val > running). *)
Definition upd (c : label) (o : obs) (a : acc) : acc :=
  let w := o_in o && negb (isnan (o_val o)) in
  let better := w && (isnan (mx a) || gt (o_val o) (mx a)) in
  {| mx := if w then fmax (o_val o) (mx a) else mx a;
     mn := if w then fmin (o_val o) (mn a) else mn a;
     cause := if better then Some c else cause a |}.

(* the behaviour before the repair, kept so that its return is recognised (C14_old_cause_refuted):
   first = the key "max_loading_percent" is not yet in the dict -> np.full_like(val,-1);
   max_mask = val > running, with no mask. *)
Definition upd_old (first : bool) (c : label) (o : obs) (a : acc) : acc :=
  let running := if first then Some (-1 # 1) else mx a in
  let w := o_in o && negb (isnan (o_val o)) in
  {| mx := if w then fmax (o_val o) (mx a) else mx a;
     mn := if w then fmin (o_val o) (mn a) else mn a;
     cause := if gt (o_val o) running then Some c else cause a |}.

(* bus vm_pu: no cause bookkeeping *)
Definition upd_bus (o : obs) (a : acc) : acc :=
  let w := o_in o && negb (isnan (o_val o)) in
  {| mx := if w then fmax (o_val o) (mx a) else mx a;
     mn := if w then fmin (o_val o) (mn a) else mn a;
     cause := None |}.

(* ---- one element over the successful N-1 cases (its column) *)
Fixpoint run_col (l : list (label * obs)) (a : acc) : acc :=
  match l with
  | [] => a
  | (c, o) :: l' => run_col l' (upd c o a)
  end.
Fixpoint run_col_old (first : bool) (l : list (label * obs)) (a : acc) : acc :=
  match l with
  | [] => a
  | (c, o) :: l' => run_col_old false l' (upd_old first c o a)
  end.

(* ---- whole table *)
Fixpoint zipw {A B C} (f : A -> B -> C) (l : list A) (m : list B) : list C :=
  match l, m with a :: l', b :: m' => f a b :: zipw f l' m' | _, _ => [] end.

Record case := { lab : label; rows : list obs }.   (* a successful N-1 evaluation *)
Definition step (st : list acc) (c : case) : list acc := zipw (upd (lab c)) (rows c) st.
Definition run_table (n : nat) (cases : list case) : list acc := fold_left step cases (repeat acc0 n).
Definition step_bus (st : list acc) (c : case) : list acc := zipw upd_bus (rows c) st.
Definition run_table_bus (n : nat) (cases : list case) : list acc := fold_left step_bus cases (repeat acc0 n).

(* causes_overloading[c] : some element's value exceeds its limit in case c *)
Definition overloads (c : case) : bool := existsb (fun o => gt (o_val o) (o_lim o)) (rows c).
Definition causes_overloading (cases : list case) (c : label) : bool :=
  existsb (fun k => (Nat.eqb (fst (lab k)) (fst c) && Z.eqb (snd (lab k)) (snd c)) && overloads k) cases.

(* ---- spec side *)
Definition valid (o : obs) : bool := o_in o && negb (isnan (o_val o)).
Definition valid_vals (l : list (label * obs)) : list Q :=
  flat_map (fun p => if valid (snd p) then match o_val (snd p) with Some v => [v] | None => [] end else []) l.
Definition is_max (m : Q) (vs : list Q) : Prop := (exists v, In v vs /\ v == m) /\ forall v, In v vs -> v <= m.
Definition is_min (m : Q) (vs : list Q) : Prop := (exists v, In v vs /\ v == m) /\ forall v, In v vs -> m <= v.
(* the reported cause names a valid case attaining the maximum *)
Definition attains (l : list (label * obs)) (c : option label) (m : F) : Prop :=
  match m with
  | None => True                      (* no converged valid case: nothing to name *)
  | Some mv => exists c0 o v, c = Some c0 /\ In (c0, o) l /\ valid o = true /\ o_val o = Some v /\ v == mv
  end.

(* ---- output for the correspondence run *)
Definition olabel (c : option label) : out :=
  match c with Some (t, i) => OL [onat t; OZ i] | None => ONone end.
Definition oacc (a : acc) : out := OL [ooq (mx a); ooq (mn a); olabel (cause a)].
Definition run_out (n : nat) (cases : list case) (labels : list label) : out :=
  OL [ olist oacc (run_table n cases);
       olist (fun c => OB (causes_overloading cases c)) labels ].
Definition run_out_bus (n : nat) (cases : list case) : out := olist oacc (run_table_bus n cases).

(* ---- in_service bookkeeping of the N-1 loop (contingency.py:103-117): try / finally *)
Fixpoint set_nth (l : list bool) (j : nat) (b : bool) : list bool :=
  match l, j with
  | [], _ => []
  | _ :: t, O => b :: t
  | h :: t, S j' => h :: set_nth t j' b
  end.
(* raises j = the evaluation of outage j raises; returns (in_service afterwards, exception propagated) *)
Fixpoint run_loop (idxs : list nat) (raises : nat -> bool) (raise_errors : bool) (l : list bool)
  : list bool * bool :=
  match idxs with
  | [] => (l, false)
  | j :: rest =>
      if negb (nth j l false) then run_loop rest raises raise_errors l       (* continue *)
      else
        let l1 := set_nth l j false in
        let l2 := set_nth l1 j true in                                       (* finally *)
        if raises j && raise_errors then (l2, true)
        else run_loop rest raises raise_errors l2
  end.

(* column j of a case list *)
Definition col (j : nat) (cases : list case) : list (label * obs) :=
  flat_map (fun c => match nth_error (rows c) j with Some o => [(lab c, o)] | None => [] end) cases.
