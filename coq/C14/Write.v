(* C14 — table-level part of pandapower/contingency/contingency.py: the whole run_contingency (:83-129) with the
   evaluation function as an input, the result dict (python dict = association list in insertion order), the N-0
   assignment (:118-119, _update_contingency_results nminus1=False :378-379) and the write_to_net step (:121-127).
   Executable definitions only.  All element rows are kept in ONE vector (line ++ trafo ++ trafo3w ++ bus); a table
   is a slice of it (t_off, length t_index). *)
From Coq Require Import ZArith QArith List Bool String.
From PPV Require Import Base.QN Base.Out C14.Model.
Import ListNotations.
Open Scope string_scope.

(* ---- python dict with insertion order *)
Definition dict := list (string * list out).
Definition dhas (d : dict) (k : string) : bool := existsb (fun e => String.eqb (fst e) k) d.
Fixpoint dget (d : dict) (k : string) : option (list out) :=
  match d with
  | [] => None
  | (k', v) :: d' => if String.eqb k' k then Some v else dget d' k
  end.
(* d[k] = v : an existing key keeps its position *)
Fixpoint dset (d : dict) (k : string) (v : list out) : dict :=
  match d with
  | [] => [(k, v)]
  | (k', v') :: d' => if String.eqb k' k then (k, v) :: d' else (k', v') :: dset d' k v
  end.
Definition dsetdefault (d : dict) (k : string) (v : list out) : dict := if dhas d k then d else (d ++ [(k, v)])%list.

(* ---- the evaluation function: call number, in_service flags of all rows -> None (raises) | Some res values.
   The call number makes a non-deterministic evaluation function expressible. *)
Definition evalT := nat -> list bool -> option (list F).

Definition mk_rows (ins : list bool) (vals : list F) (lims : list F) : list obs :=
  zipw (fun iv l => {| o_in := fst iv; o_val := snd iv; o_lim := l |}) (zipw pair ins vals) lims.

Record loop_st := { ls_ins : list bool;             (* in_service flags of the net *)
                    ls_calls : nat;                 (* evaluations made so far *)
                    ls_cases : list case;           (* successful N-1 evaluations, in order *)
                    ls_trace : list (list bool) }.  (* the flags every evaluation ran on *)

(* contingency.py:99-115 with raise_errors=False (for raise_errors=True see Model.run_loop):
   outs = the listed outages in order, (label, row position) *)
Fixpoint nm1_loop (ev : evalT) (lims : list F) (outs : list (label * nat)) (s : loop_st) : loop_st :=
  match outs with
  | [] => s
  | (c, j) :: rest =>
      if negb (nth j (ls_ins s) false) then nm1_loop ev lims rest s                 (* :101 continue *)
      else
        let l1 := set_nth (ls_ins s) j false in                                     (* :106 *)
        let cs := match ev (ls_calls s) l1 with                                     (* :107-108 *)
                  | Some vals => (ls_cases s ++ [{| lab := c; rows := mk_rows l1 vals lims |}])%list
                  | None => ls_cases s                                              (* :110 except *)
                  end in
        nm1_loop ev lims rest {| ls_ins := set_nth l1 j true;                       (* :115 finally *)
                                 ls_calls := S (ls_calls s);
                                 ls_cases := cs;
                                 ls_trace := (ls_trace s ++ [l1])%list |}
  end.

(* ---- one result table *)
Record tabspec := { t_bus : bool;            (* bus table: no cause bookkeeping (:86-87) *)
                    t_type : nat;            (* element type code used in labels *)
                    t_var : string;          (* result variable: loading_percent / vm_pu *)
                    t_index : list Z;        (* net[element].index.values *)
                    t_off : nat }.           (* first row of the table in the row vector *)
Definition t_len (ts : tabspec) : nat := List.length (t_index ts).
Definition slice {A} (off len : nat) (l : list A) : list A := firstn len (skipn off l).
Definition tab_cases (ts : tabspec) (cases : list case) : list case :=
  map (fun c => {| lab := lab c; rows := slice (t_off ts) (t_len ts) (rows c) |}) cases.

Definition cause_elem (a : acc) : out := match cause a with Some (t, _) => onat t | None => ONone end.
Definition cause_idx (a : acc) : out := match cause a with Some (_, i) => OZ i | None => OZ (-1) end.

(* contingency_results[element] at return time.  Key order = insertion order:
   index (:83), causes_overloading/cause_element/cause_index (:88-91), max_<var>/min_<var> created by setdefault at
   the first successful N-1 update (:372-375; absent when no N-1 case succeeded), <var> assigned by the N-0 update (:379).
   The in-place array updates of the N-1 fold are summarised by Model.run_table / causes_overloading. *)
Definition result_dict (ts : tabspec) (cases : list case) (n0 : list F) : dict :=
  let n := t_len ts in
  let tc := tab_cases ts cases in
  let accs := if t_bus ts then run_table_bus n tc else run_table n tc in
  let d0 := ("index", map OZ (t_index ts)) ::
            (if t_bus ts then [] else
               [("causes_overloading", map (fun i => OB (causes_overloading cases (t_type ts, i))) (t_index ts));
                ("cause_element", map cause_elem accs);
                ("cause_index", map cause_idx accs)]) in
  let d1 := match cases with
            | [] => d0
            | _ :: _ => dsetdefault (dsetdefault d0 ("max_" ++ t_var ts) (map (fun a => ooq (mx a)) accs))
                                    ("min_" ++ t_var ts) (map (fun a => ooq (mn a)) accs)
            end in
  dset d1 (t_var ts) (map ooq (slice (t_off ts) n n0)).

Record run_result := { r_ins : list bool;               (* in_service flags afterwards *)
                       r_trace : list (list bool);      (* flags of every evaluation, the N-0 one last *)
                       r_dicts : list dict }.           (* one result dict per table *)

Definition ls0 (ins0 : list bool) : loop_st := {| ls_ins := ins0; ls_calls := 0; ls_cases := []; ls_trace := [] |}.

(* run_contingency (raise_errors=False).  None = the N-0 evaluation raised (:118 is outside any try) *)
Definition run_contingency_m (ev : evalT) (lims : list F) (outs : list (label * nat)) (tabs : list tabspec)
           (ins0 : list bool) : option run_result :=
  let s := nm1_loop ev lims outs (ls0 ins0) in
  match ev (ls_calls s) (ls_ins s) with
  | None => None
  | Some v0 => Some {| r_ins := ls_ins s;
                       r_trace := (ls_trace s ++ [ls_ins s])%list;
                       r_dicts := map (fun ts => result_dict ts (ls_cases s) v0) tabs |}
  end.

(* ---- write_to_net (:121-127): a res_ table = columns in order *)
Definition table := list (string * list out).
Definition has_col (t : table) (k : string) : bool := existsb (fun c => String.eqb (fst c) k) t.
Definition tget (t : table) (k : string) : option (list out) := dget t k.
(* :125-127  "if var == 'index' or var in res.columns: continue" else  res.loc[index, var] = val  (a new last column) *)
Definition write_step (t : table) (kv : string * list out) : table :=
  if String.eqb (fst kv) "index" || has_col t (fst kv) then t else (t ++ [kv])%list.
Definition write_table (t : table) (d : dict) : table := fold_left write_step d t.

(* ---- spec side *)
(* the keys that write_to_net has to write: every key of the dict except "index" and the columns already present *)
Definition listed (t : table) (d : dict) : list string :=
  filter (fun k => negb (String.eqb k "index") && negb (has_col t k)) (map fst d).
(* number of N-1 evaluations = listed outages that are in service in the initial net *)
Definition n_evals (outs : list (label * nat)) (ins0 : list bool) : nat :=
  List.length (filter (fun o => nth (snd o) ins0 false) outs).

(* ---- output for the correspondence run *)
Definition okv (kv : string * list out) : out := OL [OS (fst kv); OL (snd kv)].
Definition oflags (l : list bool) : out := olist OB l.
(* evs = the results of the successive evaluation calls as logged on the implementation (oracle stream) *)
Definition ev_of_log (evs : list (option (list F))) : evalT :=
  fun k _ => match nth_error evs k with Some r => r | None => None end.
Definition run_write_out (evs : list (option (list F))) (lims : list F) (outs : list (label * nat))
           (tabs : list tabspec) (ins0 : list bool) (tables : list table) : out :=
  match run_contingency_m (ev_of_log evs) lims outs tabs ins0 with
  | None => OErr "n0_evaluation_raised"
  | Some r => OL [ oflags (r_ins r);
                   olist oflags (r_trace r);
                   olist (olist okv) (r_dicts r);
                   olist (olist okv) (zipw write_table tables (r_dicts r)) ]
  end.
