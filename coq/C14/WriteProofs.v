(* C14 — proofs about the table-level model C14/Write.v *)
From Coq Require Import ZArith QArith List Bool String Lia.
From PPV Require Import Base.QN Base.Out C14.Model C14.Proofs C14.Write.
Import ListNotations.
Open Scope string_scope.

(* ---- dict *)
Lemma dget_dset d k v : dget (dset d k v) k = Some v.
Proof.
  induction d as [|[k' v'] d IH]; cbn.
  - rewrite String.eqb_refl. reflexivity.
  - destruct (String.eqb k' k) eqn:E; cbn.
    + rewrite String.eqb_refl. reflexivity.
    + rewrite E. exact IH.
Qed.

(* ---- the N-1 loop leaves the in_service flags as they were and makes one evaluation per in-service outage *)
Lemma nm1_loop_inv ev lims outs : forall s,
  ls_ins (nm1_loop ev lims outs s) = ls_ins s /\
  ls_calls (nm1_loop ev lims outs s) = (ls_calls s + n_evals outs (ls_ins s))%nat.
Proof.
  induction outs as [|[c j] rest IH]; intros s; cbn [nm1_loop].
  - unfold n_evals. cbn. split; [reflexivity | lia].
  - unfold n_evals. cbn [filter snd]. destruct (nth j (ls_ins s) false) eqn:E; cbn [negb].
    + rewrite (set_nth_restore _ _ E).
      match goal with |- context [nm1_loop ev lims rest ?s'] => destruct (IH s') as [H1 H2] end.
      cbn [ls_ins ls_calls] in H1, H2.
      split; [exact H1|]. rewrite H2. unfold n_evals. cbn [List.length]. lia.
    + apply IH.
Qed.

Lemma n0_is_plain_pf ev lims outs tabs ins0 r :
  run_contingency_m ev lims outs tabs ins0 = Some r ->
  exists v0, ev (n_evals outs ins0) ins0 = Some v0 /\ r_ins r = ins0 /\
    forall i ts d, nth_error tabs i = Some ts -> nth_error (r_dicts r) i = Some d ->
      dget d (t_var ts) = Some (map ooq (slice (t_off ts) (t_len ts) v0)).
Proof.
  unfold run_contingency_m. destruct (nm1_loop_inv ev lims outs (ls0 ins0)) as [H1 H2].
  cbn [ls0 ls_ins ls_calls] in H1, H2. rewrite H1, H2. cbn [Nat.add].
  destruct (ev (n_evals outs ins0) ins0) as [v0|] eqn:E; [|discriminate].
  intros R. inversion R; subst r; clear R. cbn [r_ins r_dicts]. exists v0.
  split; [reflexivity|]. split; [reflexivity|].
  intros i ts d Hts Hd. rewrite (map_nth_error _ _ _ Hts) in Hd. inversion Hd; subst d.
  unfold result_dict. apply dget_dset.
Qed.

(* for an evaluation function that is deterministic in the net state the N-0 entry does not depend on the
   N-1 case list at all (which outages, how many, which of them raise) *)
Lemma n0_independent_of_cases (ev : evalT) lims lims' outs outs' tabs ins0 r r' :
  (forall k k' l, ev k l = ev k' l) ->
  run_contingency_m ev lims outs tabs ins0 = Some r ->
  run_contingency_m ev lims' outs' tabs ins0 = Some r' ->
  forall i ts d d', nth_error tabs i = Some ts ->
    nth_error (r_dicts r) i = Some d -> nth_error (r_dicts r') i = Some d' ->
    dget d (t_var ts) = dget d' (t_var ts).
Proof.
  intros Hdet R R' i ts d d' Hts Hd Hd'.
  destruct (n0_is_plain_pf _ _ _ _ _ _ R) as (v0 & E & _ & H).
  destruct (n0_is_plain_pf _ _ _ _ _ _ R') as (v0' & E' & _ & H').
  rewrite (Hdet _ (n_evals outs' ins0)) in E. rewrite E in E'. inversion E'; subst v0'.
  rewrite (H i ts d Hts Hd), (H' i ts d' Hts Hd'). reflexivity.
Qed.

(* ---- write_to_net *)
Lemma write_cons t kv d : write_table t (kv :: d) = write_table (write_step t kv) d.
Proof. reflexivity. Qed.

Lemma write_prefix d : forall t, exists ext, write_table t d = (t ++ ext)%list.
Proof.
  induction d as [|kv d IH]; intros t.
  - exists []. cbn. rewrite app_nil_r. reflexivity.
  - rewrite write_cons. unfold write_step. destruct (String.eqb (fst kv) "index" || has_col t (fst kv)).
    + apply IH.
    + destruct (IH (t ++ [kv])%list) as [e He]. exists (kv :: e). rewrite He, <- app_assoc. reflexivity.
Qed.

Lemma has_col_app t e k : has_col (t ++ e)%list k = has_col t k || has_col e k.
Proof. unfold has_col. apply existsb_app. Qed.

Lemma tget_app_l t e k : has_col t k = true -> tget (t ++ e)%list k = tget t k.
Proof.
  unfold tget. induction t as [|[k' v'] t IH]; cbn; [discriminate|].
  destruct (String.eqb k' k); cbn; [reflexivity | exact IH].
Qed.
Lemma tget_app_r t e k : has_col t k = false -> tget (t ++ e)%list k = tget e k.
Proof.
  unfold tget. induction t as [|[k' v'] t IH]; cbn; [reflexivity|].
  destruct (String.eqb k' k); cbn; [discriminate | exact IH].
Qed.

(* frame: the table before the write is a prefix of the table afterwards — every pre-existing column keeps its
   position, its name and all its values, whether or not the result dict has an entry of that name *)
Lemma write_frame_prefix t d : firstn (List.length t) (write_table t d) = t.
Proof.
  destruct (write_prefix d t) as [e ->]. rewrite firstn_app, Nat.sub_diag, firstn_all. cbn. apply app_nil_r.
Qed.
Lemma write_frame t d c : has_col t c = true -> tget (write_table t d) c = tget t c.
Proof. intros H. destruct (write_prefix d t) as [e ->]. apply tget_app_l. exact H. Qed.

Lemma listed_skip t k v d :
  String.eqb k "index" || has_col t k = true -> listed t ((k, v) :: d) = listed t d.
Proof.
  intros E. unfold listed. cbn [map fst filter].
  destruct (String.eqb k "index"), (has_col t k); cbn in *; try reflexivity; discriminate.
Qed.
Lemma listed_take t k v d :
  String.eqb k "index" || has_col t k = false -> ~ In k (map fst d) ->
  listed t ((k, v) :: d) = k :: listed (t ++ [(k, v)])%list d.
Proof.
  intros E Hn. unfold listed. cbn [map fst filter].
  destruct (String.eqb k "index"), (has_col t k); cbn in *; try discriminate.
  f_equal. apply filter_ext_in. intros k' Hk'. rewrite has_col_app.
  assert (has_col [(k, v)] k' = false) as ->.
  { unfold has_col. cbn. rewrite orb_false_r. apply String.eqb_neq. intros ->. contradiction. }
  rewrite orb_false_r. reflexivity.
Qed.

(* exactly the listed columns are appended, in dict order *)
Lemma write_columns d : forall t, NoDup (map fst d) ->
  map fst (write_table t d) = (map fst t ++ listed t d)%list.
Proof.
  induction d as [|[k v] d IH]; intros t ND.
  - cbn. rewrite app_nil_r. reflexivity.
  - inversion ND as [|? ? Hn ND']; subst. rewrite write_cons. unfold write_step. cbn [fst].
    destruct (String.eqb k "index" || has_col t k) eqn:E.
    + rewrite (listed_skip _ _ _ _ E). apply IH. exact ND'.
    + rewrite (listed_take _ _ _ _ E Hn), (IH _ ND'), map_app, <- app_assoc. reflexivity.
Qed.

(* a column of the table afterwards is a column from before or a listed key — nothing else is written *)
Lemma write_only_listed t d c : NoDup (map fst d) ->
  has_col (write_table t d) c = true -> has_col t c = true \/ In c (listed t d).
Proof.
  intros ND H.
  assert (Hin : In c (map fst (write_table t d))).
  { unfold has_col in H. apply existsb_exists in H. destruct H as [[k v] [H1 H2]]. cbn in H2.
    apply String.eqb_eq in H2. subst. apply (in_map fst _ _ H1). }
  rewrite (write_columns d t ND) in Hin. apply in_app_or in Hin. destruct Hin as [Hin|Hin]; [left|right; exact Hin].
  apply in_map_iff in Hin. destruct Hin as [[k v] [H1 H2]]. cbn in H1. subst.
  unfold has_col. apply existsb_exists. exists (c, v). split; [exact H2 | apply String.eqb_refl].
Qed.

(* the written values are the entries of the result dict *)
Lemma write_values d : forall t k v, NoDup (map fst d) -> In (k, v) d -> k <> "index" -> has_col t k = false ->
  tget (write_table t d) k = Some v.
Proof.
  induction d as [|[k0 v0] d IH]; intros t k v ND Hin Hk Hc; [destruct Hin|].
  inversion ND as [|? ? Hn ND']; subst. rewrite write_cons. unfold write_step. cbn [fst].
  destruct Hin as [Heq|Hin].
  - inversion Heq; subst k0 v0. rewrite Hc. apply String.eqb_neq in Hk. rewrite Hk. cbn [orb].
    destruct (write_prefix d (t ++ [(k, v)])%list) as [e ->]. rewrite <- app_assoc.
    rewrite (tget_app_r _ _ _ Hc). unfold tget. cbn. rewrite String.eqb_refl. reflexivity.
  - assert (Hne : String.eqb k0 k = false).
    { apply String.eqb_neq. intros ->. apply Hn. apply (in_map fst _ _ Hin). }
    destruct (String.eqb k0 "index" || has_col t k0).
    + apply IH; assumption.
    + apply IH; try assumption. rewrite has_col_app, Hc. unfold has_col. cbn. rewrite Hne. reflexivity.
Qed.

(* ---- the keys of the result dict *)
Definition branch_keys : list string := ["causes_overloading"; "cause_element"; "cause_index"].
Lemma result_dict_keys ts cases n0 :
  t_var ts = "loading_percent" \/ t_var ts = "vm_pu" ->
  map fst (result_dict ts cases n0) =
  "index" :: ((if t_bus ts then [] else branch_keys) ++
   (match cases with [] => [] | _ :: _ => [("max_" ++ t_var ts)%string; ("min_" ++ t_var ts)%string] end) ++ [t_var ts])%list.
Proof.
  destruct ts as [bus ty var idx off]. cbn [t_var t_bus]. unfold result_dict. cbn [t_var t_bus t_index t_off t_type].
  intros [-> | ->]; destruct bus, cases; reflexivity.
Qed.
Lemma result_dict_keys_nodup ts cases n0 :
  t_var ts = "loading_percent" \/ t_var ts = "vm_pu" -> NoDup (map fst (result_dict ts cases n0)).
Proof.
  intros H. rewrite (result_dict_keys ts cases n0 H).
  destruct H as [-> | ->]; destruct (t_bus ts), cases; cbn;
    repeat (constructor; [cbn; intuition discriminate|]); constructor.
Qed.

(* ---- the documented columns (docstring :54-58) *)
Lemma written_columns_branch ts c cases n0 t :
  t_bus ts = false -> t_var ts = "loading_percent" -> has_col t "loading_percent" = true ->
  (forall k, In k (branch_keys ++ ["max_loading_percent"; "min_loading_percent"])%list -> has_col t k = false) ->
  map fst (write_table t (result_dict ts (c :: cases) n0)) =
  (map fst t ++ ["causes_overloading"; "cause_element"; "cause_index"; "max_loading_percent"; "min_loading_percent"])%list.
Proof.
  intros Hb Hv Hl Hno.
  rewrite write_columns by (apply result_dict_keys_nodup; left; exact Hv).
  f_equal. unfold listed. rewrite result_dict_keys by (left; exact Hv). rewrite Hb, Hv.
  cbn [app branch_keys filter String.eqb Ascii.eqb Bool.eqb negb andb].
  rewrite Hl. rewrite !Hno by (cbn; tauto). reflexivity.
Qed.
Lemma written_columns_bus ts c cases n0 t :
  t_bus ts = true -> t_var ts = "vm_pu" -> has_col t "vm_pu" = true ->
  (forall k, In k ["max_vm_pu"; "min_vm_pu"] -> has_col t k = false) ->
  map fst (write_table t (result_dict ts (c :: cases) n0)) = (map fst t ++ ["max_vm_pu"; "min_vm_pu"])%list.
Proof.
  intros Hb Hv Hl Hno.
  rewrite write_columns by (apply result_dict_keys_nodup; right; exact Hv).
  f_equal. unfold listed. rewrite result_dict_keys by (right; exact Hv). rewrite Hb, Hv.
  cbn [app filter String.eqb Ascii.eqb Bool.eqb negb andb].
  rewrite Hl. rewrite !Hno by (cbn; tauto). reflexivity.
Qed.
(* without a successful N-1 case there is no max_/min_ key and no such column is written *)
Lemma written_columns_no_case ts n0 t :
  t_bus ts = false -> t_var ts = "loading_percent" -> has_col t "loading_percent" = true ->
  (forall k, In k branch_keys -> has_col t k = false) ->
  map fst (write_table t (result_dict ts [] n0)) = (map fst t ++ branch_keys)%list.
Proof.
  intros Hb Hv Hl Hno.
  rewrite write_columns by (apply result_dict_keys_nodup; left; exact Hv).
  f_equal. unfold listed. rewrite result_dict_keys by (left; exact Hv). rewrite Hb, Hv.
  cbn [app branch_keys filter String.eqb Ascii.eqb Bool.eqb negb andb].
  rewrite Hl. rewrite !Hno by (cbn; tauto). reflexivity.
Qed.

(* the written max column is the column of the aggregated maxima, i.e. (by C14_max_is_spec_max through
   C14_table_is_columns) the true extremes over the valid cases *)
Lemma written_max_is_fold ts c cases n0 t :
  t_bus ts = false -> t_var ts = "loading_percent" -> has_col t "max_loading_percent" = false ->
  tget (write_table t (result_dict ts (c :: cases) n0)) "max_loading_percent" =
  Some (map (fun a => ooq (mx a)) (run_table (t_len ts) (tab_cases ts (c :: cases)))).
Proof.
  intros Hb Hv Hc. apply write_values; try assumption; try discriminate.
  - apply result_dict_keys_nodup. left. exact Hv.
  - unfold result_dict. rewrite Hb, Hv. cbn. right. right. right. right. left. reflexivity.
Qed.

(* ---- non-vacuity: a concrete run with a raising outage, an out-of-service listed element, and a res table
   that already has a column named like a dict key *)
Definition ex_ev : evalT := fun k l =>
  if Nat.eqb k 1 then None else Some (map (fun b : bool => if b then Some (inject_Z (Z.of_nat (k + 1)) * (10 # 1))%Q else Some 0%Q) l).
Definition ex_tabs : list tabspec :=
  [ {| t_bus := false; t_type := 0; t_var := "loading_percent"; t_index := [5; 3; 8]%Z; t_off := 0 |};
    {| t_bus := true; t_type := 9; t_var := "vm_pu"; t_index := [0; 1]%Z; t_off := 3 |} ].
Definition ex_outs : list (label * nat) := [((0%nat, 5%Z), 0%nat); ((0%nat, 3%Z), 1%nat); ((0%nat, 8%Z), 2%nat); ((0%nat, 5%Z), 0%nat)].
Definition ex_ins : list bool := [true; true; false; true; true].
Definition ex_lims : list F := [Some (15 # 1)%Q; Some (25 # 1)%Q; Some (50 # 1)%Q; None; None].
Definition ex_table : table :=
  [("loading_percent", [OZ 1; OZ 2; OZ 3]); ("p_from_mw", [OZ 4; OZ 5; OZ 6]); ("cause_index", [OZ 7; OZ 7; OZ 7])].

Example n0_is_plain_pf_nonvacuous :
  exists r d, run_contingency_m ex_ev ex_lims ex_outs ex_tabs ex_ins = Some r /\
    n_evals ex_outs ex_ins = 3%nat /\ List.length (r_trace r) = 4%nat /\
    nth_error (r_dicts r) 0 = Some d /\
    dget d "loading_percent" = Some [OQ 40 1; OQ 40 1; OQ 0 1] /\
    dget d "max_loading_percent" = Some [ONone; OQ 30 1; ONone].
Proof. eexists. eexists. vm_compute. repeat split; reflexivity. Qed.

Example write_frame_nonvacuous :
  exists r d, run_contingency_m ex_ev ex_lims ex_outs ex_tabs ex_ins = Some r /\ nth_error (r_dicts r) 0 = Some d /\
    map fst (write_table ex_table d) =
      ["loading_percent"; "p_from_mw"; "cause_index"; "causes_overloading"; "cause_element"; "max_loading_percent"; "min_loading_percent"] /\
    listed ex_table d = ["causes_overloading"; "cause_element"; "max_loading_percent"; "min_loading_percent"] /\
    tget (write_table ex_table d) "cause_index" = Some [OZ 7; OZ 7; OZ 7] /\
    dget d "cause_index" = Some [OZ (-1); OZ 5; OZ (-1)] /\
    tget (write_table ex_table d) "loading_percent" = Some [OZ 1; OZ 2; OZ 3] /\
    tget (write_table ex_table d) "causes_overloading" = Some [OB true; OB false; OB false].
Proof. eexists. eexists. vm_compute. repeat split; reflexivity. Qed.
