From Coq Require Import ZArith QArith List Bool Lia Lqa.
From PPV Require Import Base.QN C14.Model.
Import ListNotations.
Open Scope Q_scope.

Lemma qmax_cases x y : (x < y /\ qmax x y = y) \/ (y <= x /\ qmax x y = x).
Proof.
  unfold qmax. destruct (qltb x y) eqn:E.
  - left. split; [apply qltb_lt; exact E | reflexivity].
  - right. split; [apply qltb_ge; exact E | reflexivity].
Qed.
Lemma qmin_cases x y : (y < x /\ qmin x y = y) \/ (x <= y /\ qmin x y = x).
Proof.
  unfold qmin. destruct (qltb y x) eqn:E.
  - left. split; [apply qltb_lt; exact E | reflexivity].
  - right. split; [apply qltb_ge; exact E | reflexivity].
Qed.

Definition contrib (p : label * obs) : list Q :=
  if valid (snd p) then match o_val (snd p) with Some v => [v] | None => [] end else [].
Lemma valid_vals_app l1 l2 : valid_vals (l1 ++ l2) = valid_vals l1 ++ valid_vals l2.
Proof. unfold valid_vals. apply flat_map_app. Qed.
Lemma valid_vals_one p : valid_vals [p] = contrib p.
Proof. unfold valid_vals, contrib. simpl. apply app_nil_r. Qed.

Definition Inv (l : list (label * obs)) (a : acc) : Prop :=
  (match mx a with None => valid_vals l = [] | Some m => is_max m (valid_vals l) end) /\
  (match mn a with None => valid_vals l = [] | Some m => is_min m (valid_vals l) end) /\
  attains l (cause a) (mx a).

Lemma attains_mono l x c m : attains l c m -> attains (l ++ [x]) c m.
Proof.
  unfold attains. destruct m as [mv|]; [|trivial].
  intros (c0 & o & v & H1 & H2 & H3 & H4 & H5). exists c0, o, v.
  repeat split; try assumption. apply in_or_app. left. exact H2.
Qed.

Lemma is_max_snoc_lt m vs v : is_max m vs -> v <= m -> is_max m (vs ++ [v]).
Proof.
  intros [[w [Hw1 Hw2]] Hall] Hv. split.
  - exists w. split; [apply in_or_app; left; exact Hw1 | exact Hw2].
  - intros u Hu. apply in_app_or in Hu. destruct Hu as [Hu|[Hu|[]]]; [apply Hall; exact Hu | subst; exact Hv].
Qed.
Lemma is_max_snoc_ge m vs v : is_max m vs -> m <= v -> is_max v (vs ++ [v]).
Proof.
  intros [_ Hall] Hv. split.
  - exists v. split; [apply in_or_app; right; left; reflexivity | reflexivity].
  - intros u Hu. apply in_app_or in Hu. destruct Hu as [Hu|[Hu|[]]].
    + eapply Qle_trans; [apply Hall; exact Hu | exact Hv].
    + subst. apply Qle_refl.
Qed.
Lemma is_min_snoc_gt m vs v : is_min m vs -> m <= v -> is_min m (vs ++ [v]).
Proof.
  intros [[w [Hw1 Hw2]] Hall] Hv. split.
  - exists w. split; [apply in_or_app; left; exact Hw1 | exact Hw2].
  - intros u Hu. apply in_app_or in Hu. destruct Hu as [Hu|[Hu|[]]]; [apply Hall; exact Hu | subst; exact Hv].
Qed.
Lemma is_min_snoc_le m vs v : is_min m vs -> v <= m -> is_min v (vs ++ [v]).
Proof.
  intros [_ Hall] Hv. split.
  - exists v. split; [apply in_or_app; right; left; reflexivity | reflexivity].
  - intros u Hu. apply in_app_or in Hu. destruct Hu as [Hu|[Hu|[]]].
    + eapply Qle_trans; [exact Hv | apply Hall; exact Hu].
    + subst. apply Qle_refl.
Qed.
Lemma is_max_single v : is_max v [v].
Proof. split; [exists v; split; [left; reflexivity|reflexivity] | intros u [<-|[]]; apply Qle_refl]. Qed.
Lemma is_min_single v : is_min v [v].
Proof. split; [exists v; split; [left; reflexivity|reflexivity] | intros u [<-|[]]; apply Qle_refl]. Qed.

Lemma inv_step l a c o : Inv l a -> Inv (l ++ [(c, o)]) (upd c o a).
Proof.
  intros (Hmx & Hmn & Hc). unfold Inv, upd.
  rewrite valid_vals_app, valid_vals_one. unfold contrib, valid. cbn [snd].
  destruct (o_in o && negb (isnan (o_val o))) eqn:W; cbn [mx mn cause andb].
  2:{ rewrite app_nil_r. repeat split; try assumption. apply attains_mono. exact Hc. }
  destruct (o_val o) as [v|] eqn:EV.
  2:{ rewrite andb_comm in W. discriminate W. }
  assert (Hval : valid o = true) by (unfold valid; rewrite EV; exact W).
  assert (Hin : In (c, o) (l ++ [(c, o)])) by (apply in_or_app; right; left; reflexivity).
  split; [|split].
  - (* max *)
    destruct (mx a) as [m|]; cbn [fmax].
    + destruct (qmax_cases v m) as [[H1 ->]|[H1 ->]].
      * apply is_max_snoc_lt; [exact Hmx | apply Qlt_le_weak; exact H1].
      * apply (is_max_snoc_ge m); assumption.
    + rewrite Hmx. apply is_max_single.
  - (* min *)
    destruct (mn a) as [m|]; cbn [fmin].
    + destruct (qmin_cases v m) as [[H1 ->]|[H1 ->]].
      * apply is_min_snoc_gt; [exact Hmn | apply Qlt_le_weak; exact H1].
      * apply (is_min_snoc_le m); assumption.
    + rewrite Hmn. apply is_min_single.
  - (* cause *)
    destruct (mx a) as [m|] eqn:EM; cbn [fmax isnan orb gt].
    + destruct (qltb m v) eqn:E.
      * assert (m < v) by (apply qltb_lt; exact E).
        destruct (qmax_cases v m) as [[H1 _]|[_ ->]]; [exfalso; lra|].
        exists c, o, v. repeat split; try assumption; reflexivity.
      * assert (v <= m) by (apply qltb_ge; exact E).
        pose proof (attains_mono l (c, o) _ _ Hc) as Hc'. unfold attains in Hc'.
        destruct Hc' as (c0 & o0 & v0 & K1 & K2 & K3 & K4 & K5).
        destruct (qmax_cases v m) as [[H1 ->]|[H1 ->]].
        -- exists c0, o0, v0. repeat split; assumption.
        -- exists c0, o0, v0. repeat split; try assumption. lra.
    + exists c, o, v. repeat split; try assumption; reflexivity.
Qed.

Lemma inv_run l2 : forall l1 a, Inv l1 a -> Inv (l1 ++ l2) (run_col l2 a).
Proof.
  induction l2 as [|[c o] l2 IH]; intros l1 a H; cbn [run_col].
  - rewrite app_nil_r. exact H.
  - replace (l1 ++ (c, o) :: l2) with ((l1 ++ [(c, o)]) ++ l2) by (rewrite <- app_assoc; reflexivity).
    apply IH. apply inv_step. exact H.
Qed.

Lemma inv_init : Inv [] acc0.
Proof. unfold Inv, acc0; cbn. repeat split; reflexivity. Qed.

Lemma inv_all l : Inv l (run_col l acc0).
Proof. apply (inv_run l [] acc0 inv_init). Qed.

Lemma max_is_spec_max l :
  match mx (run_col l acc0) with None => valid_vals l = [] | Some m => is_max m (valid_vals l) end.
Proof. apply (inv_all l). Qed.
Lemma min_is_spec_min l :
  match mn (run_col l acc0) with None => valid_vals l = [] | Some m => is_min m (valid_vals l) end.
Proof. apply (inv_all l). Qed.
Lemma cause_attains_max l : attains l (cause (run_col l acc0)) (mx (run_col l acc0)).
Proof. apply (inv_all l). Qed.

(* the behaviour before the repair violates the cause statement: own outage first *)
Definition old_witness : list (label * obs) :=
  [ ((0%nat, 1%Z), {| o_in := false; o_val := Some 0; o_lim := Some 100 |});     (* own outage of line 1 *)
    ((0%nat, 2%Z), {| o_in := true;  o_val := Some 50; o_lim := Some 100 |}) ].
Lemma old_cause_refuted :
  exists l, ~ attains l (cause (run_col_old true l acc0)) (mx (run_col_old true l acc0)).
Proof.
  exists old_witness. vm_compute. intros (c0 & o & v & H1 & H2 & H3 & H4 & H5).
  destruct H2 as [H2|[H2|[]]]; inversion H2; subst; cbn in H3; try discriminate; cbn in H1; discriminate.
Qed.

(* ---- table projection *)
Lemma nth_error_zipw {A B C} (f : A -> B -> C) l m j :
  nth_error (zipw f l m) j =
  match nth_error l j, nth_error m j with Some a, Some b => Some (f a b) | _, _ => None end.
Proof.
  revert m j. induction l as [|a l IH]; intros [|b m] [|j]; cbn; try reflexivity.
  - destruct (nth_error l j); reflexivity.
  - apply IH.
Qed.

Lemma table_projection cases : forall st j a,
  nth_error st j = Some a ->
  (forall c, In c cases -> nth_error (rows c) j <> None) ->
  nth_error (fold_left step cases st) j = Some (run_col (col j cases) a).
Proof.
  induction cases as [|c cases IH]; intros st j a Ha Hwf; cbn [fold_left col flat_map].
  - exact Ha.
  - destruct (nth_error (rows c) j) as [o|] eqn:E.
    2:{ exfalso. apply (Hwf c); [left; reflexivity | exact E]. }
    cbn [app run_col]. apply IH.
    + unfold step. rewrite nth_error_zipw, E, Ha. reflexivity.
    + intros c' Hc'. apply Hwf. right. exact Hc'.
Qed.

Lemma nth_error_repeat {A} (x : A) n j : (j < n)%nat -> nth_error (repeat x n) j = Some x.
Proof. revert j. induction n; intros [|j] H; cbn; try lia; [reflexivity | apply IHn; lia]. Qed.

Lemma run_table_col n cases j :
  (j < n)%nat -> (forall c, In c cases -> nth_error (rows c) j <> None) ->
  nth_error (run_table n cases) j = Some (run_col (col j cases) acc0).
Proof. intros Hj Hwf. apply table_projection; [apply nth_error_repeat; exact Hj | exact Hwf]. Qed.

(* ---- causes_overloading *)
Lemma causes_overloading_iff cases c :
  causes_overloading cases c = true <->
  exists k, In k cases /\ lab k = c /\ exists o, In o (rows k) /\ gt (o_val o) (o_lim o) = true.
Proof.
  unfold causes_overloading, overloads. rewrite existsb_exists. split.
  - intros (k & Hk & H). apply andb_true_iff in H. destruct H as [H1 H2].
    apply andb_true_iff in H1. destruct H1 as [Ha Hb].
    apply Nat.eqb_eq in Ha. apply Z.eqb_eq in Hb. apply existsb_exists in H2.
    exists k. repeat split; [exact Hk | destruct (lab k), c; cbn in *; congruence | exact H2].
  - intros (k & Hk & <- & H2). exists k. split; [exact Hk|].
    rewrite Nat.eqb_refl, Z.eqb_refl. cbn. apply existsb_exists. exact H2.
Qed.

(* ---- in_service restored: for every set of raising outages, with and without raise_errors *)
Lemma set_nth_restore l : forall j, nth j l false = true -> set_nth (set_nth l j false) j true = l.
Proof.
  induction l as [|h t IH]; intros [|j] H; cbn in *; try reflexivity.
  - subst; reflexivity.
  - f_equal. apply IH. exact H.
Qed.
Lemma in_service_restored idxs raises re : forall l, fst (run_loop idxs raises re l) = l.
Proof.
  induction idxs as [|j rest IH]; intros l; cbn [run_loop]; [reflexivity|].
  destruct (nth j l false) eqn:E; cbn [negb]; [|apply IH].
  rewrite (set_nth_restore l j E).
  destruct (raises j && re); [reflexivity | apply IH].
Qed.
