(* C13 — simulation theorem for the controller loop: two controller sets whose methods respect a relation R on states
   (and report the same verdicts on related states) produce the same outcome, related returned states and call traces
   that are related event by event.  Instance: hunting_limit of DiscreteTapControl can be changed arbitrarily. *)
From Coq Require Import ZArith QArith List Bool Lia.
From PPV Require Import Base.QN C13.Model.
Import ListNotations.

Section Sim.
  Variable St : Type.
  Variable run : St -> St * bool.
  Variable R : St -> St -> Prop.
  Hypothesis run_sim : forall s1 s2, R s1 s2 -> R (fst (run s1)) (fst (run s2)) /\ snd (run s1) = snd (run s2).

  Definition sim_ctrl (c1 c2 : ctrl St) : Prop :=
    cid c1 = cid c2 /\
    (forall s1 s2, R s1 s2 -> fst (c_conv c1 s1) = fst (c_conv c2 s2) /\ R (snd (c_conv c1 s1)) (snd (c_conv c2 s2))) /\
    (forall s1 s2, R s1 s2 -> R (c_step c1 s1) (c_step c2 s2)) /\
    (forall s1 s2, R s1 s2 -> R (c_repair c1 s1) (c_repair c2 s2)) /\
    (forall s1 s2, R s1 s2 -> R (c_init c1 s1) (c_init c2 s2)) /\
    (forall s1 s2, R s1 s2 -> R (c_reset c1 s1) (c_reset c2 s2)) /\
    (forall s1 s2, R s1 s2 -> R (c_final c1 s1) (c_final c2 s2)).

  Definition ev_rel (e1 e2 : ev St) : Prop :=
    match e1, e2 with
    | EConv c b s, EConv c' b' s' => c = c' /\ b = b' /\ R s s'
    | EStep c s, EStep c' s' => c = c' /\ R s s'
    | ERun ok s, ERun ok' s' => ok = ok' /\ R s s'
    | ERepair c, ERepair c' => c = c'
    | _, _ => False
    end.
  Definition tr_rel := Forall2 ev_rel.

  Lemma pass_sim l1 l2 : Forall2 sim_ctrl l1 l2 -> forall s1 s2, R s1 s2 ->
    fst (fst (pass St l1 s1)) = fst (fst (pass St l2 s2)) /\
    R (snd (fst (pass St l1 s1))) (snd (fst (pass St l2 s2))) /\
    tr_rel (snd (pass St l1 s1)) (snd (pass St l2 s2)).
  Proof.
    induction 1 as [|c1 c2 l1 l2 Hc Hl IH]; intros s1 s2 HR; cbn [pass].
    - cbn. repeat split; [exact HR | constructor].
    - destruct Hc as (Hid & Hcv & Hst & _).
      destruct (Hcv s1 s2 HR) as [Eb HR1].
      destruct (c_conv c1 s1) as [b1 s1'], (c_conv c2 s2) as [b2 s2']. cbn [fst snd] in Eb, HR1. subst b2.
      destruct b1.
      + destruct (IH s1' s2' HR1) as (E1 & E2 & E3).
        destruct (pass St l1 s1') as [[r1 x1] t1], (pass St l2 s2') as [[r2 x2] t2]. cbn [fst snd] in *.
        repeat split; [exact E1 | exact E2 |]. constructor; [cbn; rewrite Hid; auto | exact E3].
      + pose proof (Hst s1' s2' HR1) as HR2.
        destruct (IH _ _ HR2) as (E1 & E2 & E3).
        destruct (pass St l1 (c_step c1 s1')) as [[r1 x1] t1], (pass St l2 (c_step c2 s2')) as [[r2 x2] t2]. cbn [fst snd] in *.
        repeat split; [exact E2|]. constructor; [cbn; rewrite Hid; auto|]. constructor; [cbn; rewrite Hid; auto | exact E3].
  Qed.

  Lemma apply_all_sim (f : ctrl St -> St -> St) l1 l2 :
    (forall c1 c2, sim_ctrl c1 c2 -> forall s1 s2, R s1 s2 -> R (f c1 s1) (f c2 s2)) ->
    Forall2 sim_ctrl l1 l2 -> forall s1 s2, R s1 s2 -> R (apply_all St f l1 s1) (apply_all St f l2 s2).
  Proof.
    intros Hf. unfold apply_all. induction 1 as [|c1 c2 l1 l2 Hc Hl IH]; intros s1 s2 HR; cbn [fold_left]; [exact HR|].
    apply IH. apply Hf; assumption.
  Qed.

  Lemma repairs_rel l1 l2 : Forall2 sim_ctrl l1 l2 ->
    tr_rel (map (fun c => ERepair (cid c)) l1) (map (fun c => ERepair (cid c)) l2).
  Proof. induction 1 as [|c1 c2 l1 l2 Hc Hl IH]; cbn [map]; constructor; [cbn; exact (proj1 Hc) | exact IH]. Qed.

  Definition eres_rel (r1 r2 : option (St * bool) * list (ev St)) : Prop :=
    match fst r1, fst r2 with
    | Some (s, b), Some (s', b') => R s s' /\ b = b'
    | None, None => True
    | _, _ => False
    end /\ tr_rel (snd r1) (snd r2).

  Lemma evaluate_sim cod l1 l2 s1 s2 : Forall2 sim_ctrl l1 l2 -> R s1 s2 ->
    eres_rel (evaluate St run cod l1 s1) (evaluate St run cod l2 s2).
  Proof.
    intros Hl HR. unfold evaluate, eres_rel.
    destruct (run_sim s1 s2 HR) as [HR1 Eok].
    destruct (run s1) as [x1 ok1], (run s2) as [x2 ok2]. cbn [fst snd] in HR1, Eok. subst ok2.
    destruct ok1.
    - cbn [fst snd]. split; [split; [exact HR1 | reflexivity]|]. constructor; [cbn; auto | constructor].
    - destruct cod.
      + assert (HR2 : R (apply_all St c_repair l1 x1) (apply_all St c_repair l2 x2)).
        { apply apply_all_sim; [|exact Hl | exact HR1]. intros c1 c2 Hc. exact (proj1 (proj2 (proj2 (proj2 Hc)))). }
        destruct (run_sim _ _ HR2) as [HR3 Eok3].
        destruct (run (apply_all St c_repair l1 x1)) as [y1 k1], (run (apply_all St c_repair l2 x2)) as [y2 k2].
        cbn [fst snd] in *. subst k2. split; [split; [exact HR3 | reflexivity]|].
        constructor; [cbn; auto|]. apply Forall2_app; [apply repairs_rel; exact Hl|]. constructor; [cbn; auto | constructor].
      + cbn [fst snd]. split; [exact I|]. constructor; [cbn; auto | constructor].
  Qed.

  Definition lres_rel (r1 r2 : lres St) : Prop :=
    match r1, r2 with
    | LDone cc s netc rc, LDone cc' s' netc' rc' => cc = cc' /\ R s s' /\ netc = netc' /\ rc = rc'
    | LRaise s, LRaise s' => R s s'
    | _, _ => False
    end.

  Lemma level_loop_sim fuel : forall cod l1 l2 s1 s2 netc rc, Forall2 sim_ctrl l1 l2 -> R s1 s2 ->
    lres_rel (fst (level_loop St run fuel cod l1 s1 netc rc)) (fst (level_loop St run fuel cod l2 s2 netc rc)) /\
    tr_rel (snd (level_loop St run fuel cod l1 s1 netc rc)) (snd (level_loop St run fuel cod l2 s2 netc rc)).
  Proof.
    induction fuel as [|f IH]; intros cod l1 l2 s1 s2 netc rc Hl HR; cbn [level_loop].
    - cbn. repeat split; [exact HR | constructor].
    - destruct (pass_sim l1 l2 Hl s1 s2 HR) as (E1 & E2 & E3).
      destruct (pass St l1 s1) as [[cv1 x1] t1], (pass St l2 s2) as [[cv2 x2] t2]. cbn [fst snd] in E1, E2, E3. subst cv2.
      destruct cv1; [cbn; repeat split; assumption|].
      pose proof (evaluate_sim cod l1 l2 x1 x2 Hl E2) as [Ev Et].
      destruct (evaluate St run cod l1 x1) as [o1 u1], (evaluate St run cod l2 x2) as [o2 u2]. cbn [fst snd] in Ev, Et.
      destruct o1 as [[y1 n1]|], o2 as [[y2 n2]|]; try contradiction.
      + destruct Ev as [HRy ->].
        destruct (IH cod l1 l2 y1 y2 n2 (S rc) Hl HRy) as [F1 F2].
        destruct (level_loop St run f cod l1 y1 n2 (S rc)) as [r1 v1], (level_loop St run f cod l2 y2 n2 (S rc)) as [r2 v2].
        cbn [fst snd] in *. split; [exact F1|]. apply Forall2_app; [exact E3|]. apply Forall2_app; assumption.
      + cbn [fst snd]. split; [exact E2|]. apply Forall2_app; assumption.
  Qed.

  Lemma run_level_sim max_iter cod l1 l2 s1 s2 netc : Forall2 sim_ctrl l1 l2 -> R s1 s2 ->
    lres_rel (fst (run_level St run max_iter cod l1 s1 netc)) (fst (run_level St run max_iter cod l2 s2 netc)) /\
    tr_rel (snd (run_level St run max_iter cod l1 s1 netc)) (snd (run_level St run max_iter cod l2 s2 netc)).
  Proof.
    intros Hl HR. unfold run_level.
    assert (HR0 : R (apply_all St c_reset l1 s1) (apply_all St c_reset l2 s2)).
    { apply apply_all_sim; [|exact Hl | exact HR]. intros c1 c2 Hc. exact (proj1 (proj2 (proj2 (proj2 (proj2 (proj2 Hc)))))). }
    destruct netc; [apply level_loop_sim; assumption|]. cbn. repeat split; [exact HR0 | constructor].
  Qed.

  Lemma levels_loop_sim max_iter cod cel ls1 ls2 : Forall2 (Forall2 sim_ctrl) ls1 ls2 -> forall s1 s2 netc rc, R s1 s2 ->
    fst (fst (levels_loop St run max_iter cod cel ls1 s1 netc rc)) = fst (fst (levels_loop St run max_iter cod cel ls2 s2 netc rc)) /\
    R (snd (fst (levels_loop St run max_iter cod cel ls1 s1 netc rc))) (snd (fst (levels_loop St run max_iter cod cel ls2 s2 netc rc))) /\
    tr_rel (snd (levels_loop St run max_iter cod cel ls1 s1 netc rc)) (snd (levels_loop St run max_iter cod cel ls2 s2 netc rc)).
  Proof.
    induction 1 as [|l1 l2 ls1 ls2 Hl Hls IH]; intros s1 s2 netc rc HR; cbn [levels_loop].
    - cbn. repeat split; [exact HR | constructor].
    - destruct (run_level_sim max_iter cod l1 l2 s1 s2 netc Hl HR) as [F1 F2].
      destruct (run_level St run max_iter cod l1 s1 netc) as [r1 t1], (run_level St run max_iter cod l2 s2 netc) as [r2 t2].
      cbn [fst snd] in F1, F2.
      destruct r1 as [cc1 x1 n1 k1|x1], r2 as [cc2 x2 n2 k2|x2]; cbn in F1; try contradiction.
      + destruct F1 as (-> & HRx & -> & ->).
        destruct (if cel then check_final k2 max_iter n2 else Ok); try (cbn; repeat split; assumption).
        destruct (IH x1 x2 n2 k2 HRx) as (G1 & G2 & G3).
        destruct (levels_loop St run max_iter cod cel ls1 x1 n2 k2) as [[o1 y1] u1],
                 (levels_loop St run max_iter cod cel ls2 x2 n2 k2) as [[o2 y2] u2]. cbn [fst snd] in *.
        repeat split; [exact G1 | exact G2 | apply Forall2_app; assumption].
      + cbn. repeat split; assumption.
  Qed.

  Lemma Forall2_concat (A B : Type) (P : A -> B -> Prop) (ls1 : list (list A)) (ls2 : list (list B)) :
    Forall2 (Forall2 P) ls1 ls2 -> Forall2 P (List.concat ls1) (List.concat ls2).
  Proof. induction 1; cbn [List.concat]; [constructor | apply Forall2_app; assumption]. Qed.

  (* the theorem: same outcome, related returned states, event-wise related call traces *)
  Theorem run_control_sim max_iter cod cel ir ls1 ls2 s1 s2 :
    Forall2 (Forall2 sim_ctrl) ls1 ls2 -> R s1 s2 ->
    fst (fst (run_control St run max_iter cod cel ir ls1 s1)) = fst (fst (run_control St run max_iter cod cel ir ls2 s2)) /\
    R (snd (fst (run_control St run max_iter cod cel ir ls1 s1))) (snd (fst (run_control St run max_iter cod cel ir ls2 s2))) /\
    tr_rel (snd (run_control St run max_iter cod cel ir ls1 s1)) (snd (run_control St run max_iter cod cel ir ls2 s2)).
  Proof.
    intros Hls HR. unfold run_control.
    pose proof (Forall2_concat _ _ sim_ctrl ls1 ls2 Hls) as Hc.
    assert (HR0 : R (apply_all St c_init (List.concat ls1) s1) (apply_all St c_init (List.concat ls2) s2)).
    { apply apply_all_sim; [|exact Hc | exact HR]. intros c1 c2 H. exact (proj1 (proj2 (proj2 (proj2 (proj2 H))))). }
    set (a1 := apply_all St c_init (List.concat ls1) s1) in *. set (a2 := apply_all St c_init (List.concat ls2) s2) in *.
    assert (Fin : forall x1 x2, R x1 x2 -> R (apply_all St c_final (List.concat ls1) x1) (apply_all St c_final (List.concat ls2) x2)).
    { intros x1 x2 HX. apply apply_all_sim; [|exact Hc | exact HX]. intros c1 c2 H. exact (proj2 (proj2 (proj2 (proj2 (proj2 (proj2 H)))))). }
    destruct ir.
    - destruct (run_sim a1 a2 HR0) as [HR1 Eok].
      destruct (run a1) as [x1 ok1], (run a2) as [x2 ok2]. cbn [fst snd] in HR1, Eok. subst ok2.
      destruct ok1; cbn [negb].
      + destruct (levels_loop_sim max_iter cod cel ls1 ls2 Hls x1 x2 true 0%nat HR1) as (G1 & G2 & G3).
        destruct (levels_loop St run max_iter cod cel ls1 x1 true 0) as [[o1 y1] u1],
                 (levels_loop St run max_iter cod cel ls2 x2 true 0) as [[o2 y2] u2]. cbn [fst snd] in *. subst o2.
        assert (T : tr_rel ([ERun true x1] ++ u1) ([ERun true x2] ++ u2)).
        { apply Forall2_app; [|exact G3]. constructor; [cbn; auto | constructor]. }
        destruct o1; cbn [fst snd]; repeat split; try assumption. apply Fin. exact G2.
      + cbn. repeat split; [exact HR1|]. constructor; [cbn; auto | constructor].
    - destruct (levels_loop_sim max_iter cod cel ls1 ls2 Hls a1 a2 true 0%nat HR0) as (G1 & G2 & G3).
      destruct (levels_loop St run max_iter cod cel ls1 a1 true 0) as [[o1 y1] u1],
               (levels_loop St run max_iter cod cel ls2 a2 true 0) as [[o2 y2] u2]. cbn [fst snd] in *. subst o2.
      destruct o1; cbn [fst snd app]; repeat split; try assumption. apply Fin. exact G2.
  Qed.
End Sim.
