(* C13 — faithful model of the controller loop
     pandapower/control/run_control.py  get_controller_order (:23-56), check_for_initial_run (:59-82),
       ctrl_variables_default (:85-96), check_final_convergence (:124-132), net_initialization (:145-154),
       _evaluate_net (:164-188), control_implementation (:191-214), _control_step (:221-232), run_control (:247-290)
     pandapower/control/controller/trafo/DiscreteTapControl.py  control_step (:93-119), is_converged (:121-142)
     pandapower/control/controller/trafo/ContinuousTapControl.py control_step (:64-83), is_converged (:85-111)
     pandapower/control/controller/const_control.py  is_converged/control_step (:117-128)
     pandapower/control/controller/characteristic_control.py  is_converged (:71-89), control_step (:91-95)
     pandapower/control/controller/trafo_control.py  nothing_to_do (:83-103), tap parameters as vectors (:106-122, :147-170)
     pandapower/control/controller/trafo/TapDependentImpedance.py  initialize_control / finalize_control (:40-48)
     index arrays (element_index lists): per-element vectors, np.all in is_converged; hunting_limit bookkeeping
   The power flow is an oracle: an arbitrary function of the state (abstract part) / a stream of recorded
   result vectors stored in the state (concrete part).  NaN = None.  Executable definitions only. *)
From Coq Require Import ZArith QArith Qabs List Bool String.
From PPV Require Import Base.QN Base.Out.
Import ListNotations.
Open Scope Q_scope.

(* ================================================================ abstract loop *)
Section Loop.
  Variable St : Type.
  (* the calculation (runpp / runopf / user function): new state, and whether it returned without raising one of
     ctrl_variables["errors"]; net["converged"] afterwards is that flag *)
  Variable run : St -> St * bool.

  Record ctrl := {
    cid : nat;
    c_conv : St -> bool * St;      (* is_converged: may write to the net (CharacteristicControl does) *)
    c_step : St -> St;             (* control_step *)
    c_repair : St -> St;           (* repair_control *)
    c_init : St -> St;             (* initialize_control *)
    c_reset : St -> St;            (* level_reset *)
    c_final : St -> St }.          (* finalize_control *)

  Inductive ev :=
  | EConv (c : nat) (b : bool) (s : St)     (* is_converged of controller c returned b, state afterwards *)
  | EStep (c : nat) (s : St)                (* control_step of c, state afterwards *)
  | ERun (ok : bool) (s : St)               (* one call of the run function *)
  | ERepair (c : nat).

  (* _control_step (:221-232) *)
  Fixpoint pass (l : list ctrl) (s : St) : bool * St * list ev :=
    match l with
    | [] => (true, s, [])
    | c :: l' =>
        let (b, s1) := c_conv c s in
        if b then let '(r, s2, t) := pass l' s1 in (r, s2, EConv (cid c) true s1 :: t)
        else let s2 := c_step c s1 in
             let '(_, s3, t) := pass l' s2 in (false, s3, EConv (cid c) false s1 :: EStep (cid c) s2 :: t)
    end.

  Definition apply_all (f : ctrl -> St -> St) (l : list ctrl) (s : St) : St :=
    fold_left (fun s c => f c s) l s.

  (* _evaluate_net (:164-188).  None = the error propagates out of run_control *)
  Definition evaluate (cod : bool) (l : list ctrl) (s : St) : option (St * bool) * list ev :=
    let (s1, ok) := run s in
    if ok then (Some (s1, true), [ERun true s1])
    else if cod then
           let s2 := apply_all c_repair l s1 in
           let (s3, ok3) := run s2 in
           (Some (s3, ok3), ERun false s1 :: map (fun c => ERepair (cid c)) l ++ [ERun ok3 s3])
         else (None, [ERun false s1]).

  Inductive lres :=
  | LDone (ctrl_converged : bool) (s : St) (netc : bool) (run_count : nat)
  | LRaise (s : St).

  (* the while loop of control_implementation (:202-208); fuel = number of passes still allowed by
     run_count <= max_iter.  [netc] is ctrl_variables['converged'] (the local [converged] that guards the loop is
     read once before the loop, see run_level) *)
  Fixpoint level_loop (fuel : nat) (cod : bool) (l : list ctrl) (s : St) (netc : bool) (rc : nat)
    : lres * list ev :=
    match fuel with
    | O => (LDone false s netc rc, [])
    | S f =>
        let '(cv, s1, t1) := pass l s in
        if cv then (LDone true s1 netc rc, t1)
        else match evaluate cod l s1 with
             | (None, t2) => (LRaise s1, t1 ++ t2)
             | (Some (s2, netc2), t2) =>
                 let (r, t3) := level_loop f cod l s2 netc2 (S rc) in (r, t1 ++ t2 ++ t3)
             end
    end.

  Definition passes_allowed (max_iter : Z) : nat := Z.to_nat (max_iter + 1).

  Definition run_level (max_iter : Z) (cod : bool) (l : list ctrl) (s : St) (netc : bool) : lres * list ev :=
    let s0 := apply_all c_reset l s in
    if netc then level_loop (passes_allowed max_iter) cod l s0 netc 0
    else (LDone false s0 netc 0%nat, []).

  Inductive outcome := Ok | ErrCtrl | ErrNet | ErrRun | ErrUser.
  (* check_final_convergence (:124-132) *)
  Definition check_final (rc : nat) (max_iter : Z) (netc : bool) : outcome :=
    if (max_iter <? Z.of_nat rc)%Z then ErrCtrl else if negb netc then ErrNet else Ok.

  (* control_implementation (:191-214) *)
  Fixpoint levels_loop (max_iter : Z) (cod cel : bool) (ls : list (list ctrl)) (s : St) (netc : bool) (rc : nat)
    : outcome * St * list ev :=
    match ls with
    | [] => (check_final rc max_iter netc, s, [])
    | l :: ls' =>
        match run_level max_iter cod l s netc with
        | (LRaise s', t) => (ErrRun, s', t)
        | (LDone _ s' netc' rc', t) =>
            match (if cel then check_final rc' max_iter netc' else Ok) with
            | Ok => let '(o, s2, t2) := levels_loop max_iter cod cel ls' s' netc' rc' in (o, s2, t ++ t2)
            | e => (e, s', t)
            end
        end
    end.

  (* run_control (:247-290): initialize_control of every controller, optional initial run (its error propagates),
     the levels, finalize_control (only when nothing was raised) *)
  Definition run_control (max_iter : Z) (cod cel initial_run : bool) (ls : list (list ctrl)) (s : St)
    : outcome * St * list ev :=
    let s0 := apply_all c_init (List.concat ls) s in
    let '(s1, netc, t0, raised) :=
      if initial_run then let (s1, ok) := run s0 in (s1, ok, [ERun ok s1], negb ok)
      else (s0, true, [], false) in
    if raised then (ErrRun, s1, t0)
    else
      let '(o, s2, t) := levels_loop max_iter cod cel ls s1 netc 0 in
      match o with
      | Ok => (Ok, apply_all c_final (List.concat ls) s2, t0 ++ t)
      | e => (e, s2, t0 ++ t)
      end.
End Loop.

Arguments EConv {St}. Arguments EStep {St}. Arguments ERun {St}. Arguments ERepair {St}.
Arguments LDone {St}. Arguments LRaise {St}.
Arguments cid {St}. Arguments c_conv {St}. Arguments c_step {St}. Arguments c_repair {St}.
Arguments c_init {St}. Arguments c_reset {St}. Arguments c_final {St}.

(* ================================================================ controller order *)
(* get_controller_order (:23-56).  levels = None models a null level (UserWarning). *)
Section Order.
  Variable A : Type.
  Record centry := { e_obj : A; e_levels : option (list Q); e_order : Q; e_ins : bool; e_initial_run : bool }.

  Fixpoint ins_q (x : Q) (l : list Q) : list Q :=
    match l with
    | [] => [x]
    | y :: l' => if qltb x y then x :: l else if qeqb x y then l else y :: ins_q x l'
    end.
  (* sorted(set(np.concatenate(level))) *)
  Definition level_list (cs : list centry) : list Q :=
    fold_right ins_q [] (List.concat (map (fun c => match e_levels c with Some l => l | None => [] end) cs)).

  (* stable insertion by order (np.argsort on <16 items is an insertion sort) *)
  Fixpoint ins_c (x : centry) (l : list centry) : list centry :=
    match l with
    | [] => [x]
    | y :: l' => if qleb (e_order x) (e_order y) then x :: l else y :: ins_c x l'
    end.
  Definition sort_c (l : list centry) : list centry := fold_right ins_c [] l.
  Definition in_level (lv : Q) (c : centry) : bool :=
    e_ins c && match e_levels c with Some l => existsb (qeqb lv) l | None => false end.
  Definition level_members (cs : list centry) (lv : Q) : list centry := sort_c (filter (in_level lv) cs).

  Definition controller_order (cs : list centry) : option (list Q * list (list centry)) :=
    if existsb (fun c => match e_levels c with None => true | _ => false end) cs then None
    else let ll := level_list cs in Some (ll, map (level_members cs) ll).

  (* ctrl_variables_default (:85-96) + check_for_initial_run (:59-82) *)
  Definition ctrl_variables (cs : list centry) : option (list (list centry) * bool) :=
    if negb (existsb e_ins cs) then Some ([[]], true)
    else match controller_order cs with
         | None => None
         | Some (_, co) =>
             let first_empty := match co with [] => true | l :: _ => match l with [] => true | _ => false end end in
             Some (co, first_empty || existsb e_initial_run (List.concat co))
         end.
End Order.
Arguments e_obj {A}. Arguments e_levels {A}. Arguments e_order {A}. Arguments e_ins {A}. Arguments e_initial_run {A}.
Arguments Build_centry {A}.

(* ================================================================ concrete controllers *)
Definition F := option Q.
Definition slots := list (nat * F).
Fixpoint get (k : nat) (m : slots) : F :=
  match m with [] => None | (j, v) :: m' => if Nat.eqb j k then v else get k m' end.
Fixpoint set (k : nat) (v : F) (m : slots) : slots :=
  match m with
  | [] => [(k, v)]
  | (j, w) :: m' => if Nat.eqb j k then (k, v) :: m' else (j, w) :: set k v m'
  end.
Fixpoint getb (k : nat) (m : list (nat * bool)) : bool :=
  match m with [] => false | (j, v) :: m' => if Nat.eqb j k then v else getb k m' end.
Fixpoint setb (k : nat) (v : bool) (m : list (nat * bool)) : list (nat * bool) :=
  match m with
  | [] => [(k, v)]
  | (j, w) :: m' => if Nat.eqb j k then (k, v) :: m' else (j, w) :: setb k v m'
  end.

(* controller attributes that are matrices of floats: DiscreteTapControl._hunting_taps (rows = recorded tap vectors),
   TapDependentImpedance.initial_values (one row) *)
Definition attrtab := list (nat * list (list F)).
Fixpoint geta (k : nat) (m : attrtab) : list (list F) :=
  match m with [] => [] | (j, v) :: m' => if Nat.eqb j k then v else geta k m' end.
Fixpoint seta (k : nat) (v : list (list F)) (m : attrtab) : attrtab :=
  match m with
  | [] => [(k, v)]
  | (j, w) :: m' => if Nat.eqb j k then (k, v) :: m' else (j, w) :: seta k v m'
  end.

Record cst := {
  vars : slots;                         (* element-table values (tap_pos of a transformer, outputs of characteristic controls) *)
  res : slots;                          (* result-table values (res_bus.vm_pu, ...) *)
  applied : list (nat * bool);          (* controller attribute [applied] *)
  attrs : attrtab;                      (* controller attributes _hunting_taps / initial_values *)
  stream : list (slots * bool) }.       (* oracle: results and success flag of the next calculations *)

Definition with_vars (s : cst) (v : slots) : cst :=
  {| vars := v; res := res s; applied := applied s; attrs := attrs s; stream := stream s |}.
Definition with_applied (s : cst) (a : list (nat * bool)) : cst :=
  {| vars := vars s; res := res s; applied := a; attrs := attrs s; stream := stream s |}.
Definition with_attrs (s : cst) (a : attrtab) : cst :=
  {| vars := vars s; res := res s; applied := applied s; attrs := a; stream := stream s |}.

(* the k-th calculation returns the k-th recorded result vector; an exhausted oracle reports failure *)
Definition run_stream (s : cst) : cst * bool :=
  match stream s with
  | [] => ({| vars := vars s; res := []; applied := applied s; attrs := attrs s; stream := [] |}, false)
  | (r, ok) :: rest => ({| vars := vars s; res := r; applied := applied s; attrs := attrs s; stream := rest |}, ok)
  end.

(* numpy comparisons with NaN are False *)
Definition flt (a b : F) : bool := match a, b with Some x, Some y => qltb x y | _, _ => false end.
Definition feq (a b : F) : bool := match a, b with Some x, Some y => qeqb x y | _, _ => false end.
Definition fnan (a : F) : bool := match a with None => true | _ => false end.

(* TrafoController._set_tap_side_coeff (trafo_control.py:106-122) and tap_sign (_set_tap_parameters :160-163);
   cos_sign = np.sign(np.cos(np.deg2rad(tap_step_degree))) (oracle; 0 or NaN -> 1), None = tap_step_degree is NaN *)
Definition dir_of (tap_side_hv side_hv step_neg : bool) (cos_sign : option Z) : bool :=
  let c0 := if tap_side_hv then 1%Z else (-1)%Z in
  let c1 := if side_hv then (- c0)%Z else c0 in
  let c2 := if step_neg then (- c1)%Z else c1 in
  let sg := match cos_sign with None => 1%Z | Some z => if (z =? 0)%Z then 1%Z else z end in
  (c2 * sg =? 1)%Z.

Record tapc := {
  t_trafo : nat;            (* slot of net[element].tap_pos at element_index *)
  t_bus : nat;              (* slot of res_bus.vm_pu at self.trafobus *)
  t_min : Q; t_max : Q;     (* tap_min, tap_max *)
  t_dir : bool;             (* tap_side_coeff * tap_sign == 1 *)
  t_ntd : bool }.           (* nothing_to_do(net) (trafo out of service / ext_grid bus / index missing) *)

(* DiscreteTapControl.is_converged (:121-142) *)
Definition disc_conv (t : tapc) (lower upper : Q) (s : cst) : bool :=
  if t_ntd t then true else
  let vm := get (t_bus t) (res s) in
  let tap := get (t_trafo t) (vars s) in
  let lo := flt vm (Some lower) in
  let hi := flt (Some upper) vm in
  let reached := if t_dir t then lo && feq tap (Some (t_min t)) || hi && feq tap (Some (t_max t))
                 else lo && feq tap (Some (t_max t)) || hi && feq tap (Some (t_min t)) in
  let conv := reached || (flt (Some lower) vm && flt vm (Some upper)) in
  conv || fnan vm.

(* the increment of DiscreteTapControl.control_step (:104-109) *)
Definition disc_incr (t : tapc) (lower upper : Q) (vm tap : F) : Q :=
  let lo := flt vm (Some lower) in
  let hi := flt (Some upper) vm in
  if t_dir t then
    (if lo && flt (Some (t_min t)) tap then -(1) else if hi && flt tap (Some (t_max t)) then 1 else 0)
  else
    (if lo && flt tap (Some (t_max t)) then 1 else if hi && flt (Some (t_min t)) tap then -(1) else 0).
Definition fadd (a : F) (b : Q) : F := match a with Some x => Some (qadd x b) | None => None end.
(* control_step (:111-116, after "fix: DiscreteTapControl does not step past tap_min / tap_max from a fractional tap position"):
   the new position is limited to the tap limit in the direction of the step *)
Definition disc_new_tap (t : tapc) (lower upper : Q) (vm : F) (x : Q) : Q :=
  let i := disc_incr t lower upper vm (Some x) in
  let y := qadd x i in
  if qltb 0 i then qmin y (t_max t) else if qltb i 0 then qmax y (t_min t) else y.
Definition disc_step (t : tapc) (lower upper : Q) (s : cst) : cst :=
  if t_ntd t then s else
  let vm := get (t_bus t) (res s) in
  match get (t_trafo t) (vars s) with
  | Some x => with_vars s (set (t_trafo t) (Some (disc_new_tap t lower upper vm x)) (vars s))
  | None => with_vars s (set (t_trafo t) None (vars s))          (* NaN stays NaN *)
  end.
(* before the repair: tap_pos += increment *)
Definition disc_step_old (t : tapc) (lower upper : Q) (s : cst) : cst :=
  if t_ntd t then s else
  let vm := get (t_bus t) (res s) in
  let tap := get (t_trafo t) (vars s) in
  with_vars s (set (t_trafo t) (fadd tap (disc_incr t lower upper vm tap)) (vars s)).

(* ContinuousTapControl *)
Record contp := { k_vset : Q; k_tol : Q; k_step : Q (* tap_step_percent *); k_tnom : Q; k_check : bool }.
Definition qabsv (x : Q) : Q := if qltb x 0 then qopp x else x.
(* is_converged (:85-111); vm = 0 gives difference = -inf in numpy, never < tol *)
Definition cont_conv (t : tapc) (k : contp) (s : cst) : bool :=
  if t_ntd t then true else
  let vm := get (t_bus t) (res s) in
  let tap := get (t_trafo t) (vars s) in
  let within := match vm with
                | Some v => if qeqb v 0 then false
                            else qltb (qabsv (qsub 1 (qdiv (k_vset k) v))) (k_tol k)
                | None => false end in
  let lo := flt vm (Some (k_vset k)) in
  let hi := flt (Some (k_vset k)) vm in
  let reached := if t_dir t then lo && feq tap (Some (t_min t)) || hi && feq tap (Some (t_max t))
                 else lo && feq tap (Some (t_max t)) || hi && feq tap (Some (t_min t)) in
  let conv := if k_check k then reached || within else within in
  conv || fnan vm.
(* np.clip(x, lo, hi) = minimum(maximum(x, lo), hi) *)
Definition clip (x lo hi : Q) : Q := qmin (qmax x lo) hi.
(* control_step (:64-83): self.tap_pos is the value read by is_converged in the same pass *)
Definition cont_new_tap (t : tapc) (k : contp) (vm tap : Q) : Q :=
  let tc := qdiv (qmul (qdiv (qsub vm (k_vset k)) (k_step k)) 100) (k_tnom k) in
  let x := qadd tap (if t_dir t then tc else qopp tc) in
  if k_check k then clip x (t_min t) (t_max t) else x.
Definition cont_step (t : tapc) (k : contp) (s : cst) : cst :=
  if t_ntd t then s else
  match get (t_bus t) (res s), get (t_trafo t) (vars s) with
  | Some vm, Some tap => with_vars s (set (t_trafo t) (Some (cont_new_tap t k vm tap)) (vars s))
  | _, _ => with_vars s (set (t_trafo t) None (vars s))       (* NaN propagates (np.clip keeps NaN) *)
  end.

(* np.interp(x, xp, fp) for increasing xp: constant outside, linear inside *)
Fixpoint interp_from (x : Q) (x0 y0 : Q) (pts : list (Q * Q)) : Q :=
  match pts with
  | [] => y0
  | (x1, y1) :: rest =>
      if qltb x x1 then qadd (qmul (qdiv (qsub y1 y0) (qsub x1 x0)) (qsub x x0)) y0
      else interp_from x x1 y1 rest
  end.
Definition interp (pts : list (Q * Q)) (x : F) : F :=
  match x, pts with
  | Some x, (x0, y0) :: rest => Some (if qleb x x0 then y0 else interp_from x x0 y0 rest)
  | _, _ => None
  end.

(* ---- controllers over an index ARRAY (element_index / output_element_index is a list: _read_write_flag = "loc").
   Every attribute of the controller is a vector with one entry per element (tap_min, tap_max, tap_side_coeff, tap_sign,
   trafobus, tap_pos, t_nom, tap_step_percent); the numpy expressions of is_converged / control_step act element-wise,
   is_converged ends with np.all.  nothing_to_do (trafo_control.py:83-103) is one flag for the whole controller:
   [ntd] = no element is controlled (in service, in the net, not at an ext_grid bus); as soon as one element is controlled
   ALL listed elements are read, compared and stepped.  The t_ntd field of the element records is not used. *)
Definition elem (t : tapc) : tapc :=
  {| t_trafo := t_trafo t; t_bus := t_bus t; t_min := t_min t; t_max := t_max t; t_dir := t_dir t; t_ntd := false |}.
(* write_to_net(..., "loc"): all values are computed first, then written *)
Definition write_all (kvs : list (nat * F)) (m : slots) : slots :=
  fold_left (fun m kv => set (fst kv) (snd kv) m) kvs m.

(* DiscreteTapControl.is_converged (:121-142) on vectors: np.all(converged | is_nan) *)
Definition discv_conv (ts : list tapc) (ntd : bool) (lower upper : Q) (s : cst) : bool :=
  if ntd then true else forallb (fun t => disc_conv (elem t) lower upper s) ts.
(* the new tap vector of control_step (:100-116) *)
Definition disc_new_F (lower upper : Q) (s : cst) (t : tapc) : F :=
  match get (t_trafo t) (vars s) with
  | Some x => Some (disc_new_tap t lower upper (get (t_bus t) (res s)) x)
  | None => None
  end.
(* hunting_limit bookkeeping (:118-120): _hunting_taps = vstack([_hunting_taps, tap_pos]); if hunting_limit is not None and
   the number of rows exceeds it the oldest row is dropped.  NOTHING ELSE reads _hunting_taps: is_converged does not. *)
Definition hunt_push (hl : option nat) (rows : list (list F)) (row : list F) : list (list F) :=
  let r := rows ++ [row] in
  match hl with
  | Some n => if (n <? List.length r)%nat then tl r else r
  | None => r
  end.
Definition discv_step (c : nat) (ts : list tapc) (ntd : bool) (lower upper : Q) (hl : option nat) (s : cst) : cst :=
  if ntd then s else
  let row := map (disc_new_F lower upper s) ts in
  let s1 := with_attrs s (seta c (hunt_push hl (geta c (attrs s)) row) (attrs s)) in
  with_vars s1 (write_all (map (fun t => (t_trafo t, disc_new_F lower upper s t)) ts) (vars s1)).
(* DiscreteTapControl.initialize_control (:83-91): _hunting_taps = one row of NaN (np.nan for a single index) *)
Definition discv_init (c : nat) (ts : list tapc) (s : cst) : cst :=
  with_attrs s (seta c [map (fun _ => None) ts] (attrs s)).

(* ContinuousTapControl on vectors *)
Definition contv_conv (tks : list (tapc * contp)) (ntd : bool) (s : cst) : bool :=
  if ntd then true else forallb (fun tk => cont_conv (elem (fst tk)) (snd tk) s) tks.
Definition cont_new_F (s : cst) (tk : tapc * contp) : F :=
  match get (t_bus (fst tk)) (res s), get (t_trafo (fst tk)) (vars s) with
  | Some vm, Some tap => Some (cont_new_tap (fst tk) (snd tk) vm tap)
  | _, _ => None
  end.
Definition contv_step (tks : list (tapc * contp)) (ntd : bool) (s : cst) : cst :=
  if ntd then s else
  with_vars s (write_all (map (fun tk => (t_trafo (fst tk), cont_new_F s tk)) tks) (vars s)).

Inductive kind :=
| KDisc (t : tapc) (lower upper : Q)
| KCont (t : tapc) (k : contp)
| KConst
| KChar (in_res : bool) (inp out : nat) (pts : list (Q * Q)) (tol : Q)
(* index arrays; hl = hunting_limit *)
| KDiscV (ts : list tapc) (ntd : bool) (lower upper : Q) (hl : option nat)
| KContV (tks : list (tapc * contp)) (ntd : bool)
(* CharacteristicControl over index arrays (ios = (input slot, output slot) per element);
   tdi = Some restore: the subclass TapDependentImpedance (TapDependentImpedance.py:40-48) *)
| KCharV (in_res : bool) (ios : list (nat * nat)) (pts : list (Q * Q)) (tol : Q) (tdi : option bool).

(* CharacteristicControl (after "fix: CharacteristicControl writes its set values in control_step, not in is_converged"):
   is_converged (:71-87) computes self.values from the input and compares with the current output value; control_step
   (:89-95) writes self.values.  In _control_step control_step follows is_converged of the same controller immediately, so
   self.values is the characteristic of the input in the very state control_step sees: the model recomputes it there. *)
Definition char_value (in_res : bool) (inp : nat) (pts : list (Q * Q)) (s : cst) : F :=
  interp pts (get inp (if in_res then res s else vars s)).
Definition char_conv (c : nat) (in_res : bool) (inp out : nat) (pts : list (Q * Q)) (tol : Q) (s : cst) : bool * cst :=
  let v := char_value in_res inp pts s in
  let old := get out (vars s) in
  let ok := match v, old with Some a, Some b0 => qltb (qabsv (qsub a b0)) tol | _, _ => false end in
  (getb c (applied s) && ok, s).
Definition char_step (c : nat) (in_res : bool) (inp out : nat) (pts : list (Q * Q)) (s : cst) : cst :=
  let s1 := with_vars s (set out (char_value in_res inp pts s) (vars s)) in
  with_applied s1 (setb c true (applied s1)).
(* before the repair is_converged itself wrote the value *)
Definition char_conv_old (c : nat) (in_res : bool) (inp out : nat) (pts : list (Q * Q)) (tol : Q) (s : cst) : bool * cst :=
  let v := char_value in_res inp pts s in
  let old := get out (vars s) in
  let ok := match v, old with Some a, Some b0 => qltb (qabsv (qsub a b0)) tol | _, _ => false end in
  (getb c (applied s) && ok, with_vars s (set out v (vars s))).

(* CharacteristicControl on vectors: np.all(np.abs(values - output_values) < tol); NaN compares False *)
Definition charv_ok (in_res : bool) (pts : list (Q * Q)) (tol : Q) (s : cst) (io : nat * nat) : bool :=
  match char_value in_res (fst io) pts s, get (snd io) (vars s) with
  | Some a, Some b0 => qltb (qabsv (qsub a b0)) tol
  | _, _ => false
  end.
Definition charv_conv (c : nat) (in_res : bool) (ios : list (nat * nat)) (pts : list (Q * Q)) (tol : Q) (s : cst) : bool * cst :=
  (getb c (applied s) && forallb (charv_ok in_res pts tol s) ios, s).
Definition charv_step (c : nat) (in_res : bool) (ios : list (nat * nat)) (pts : list (Q * Q)) (s : cst) : cst :=
  let s1 := with_vars s (write_all (map (fun io => (snd io, char_value in_res (fst io) pts s)) ios) (vars s)) in
  with_applied s1 (setb c true (applied s1)).
(* initialize_control: CharacteristicControl (:64-69) resets [applied]; TapDependentImpedance (:40-43) overrides it WITHOUT
   calling super: [applied] keeps its value from an earlier run, and with restore the current output values are saved *)
Definition charv_init (c : nat) (ios : list (nat * nat)) (tdi : option bool) (s : cst) : cst :=
  match tdi with
  | None => with_applied s (setb c false (applied s))
  | Some true => with_attrs s (seta c [map (fun io => get (snd io) (vars s)) ios] (attrs s))
  | Some false => s
  end.
(* finalize_control (TapDependentImpedance.py:45-48): with restore the saved values are written back AFTER the last calculation *)
Definition charv_final (c : nat) (ios : list (nat * nat)) (tdi : option bool) (s : cst) : cst :=
  match tdi with
  | Some true =>
      match geta c (attrs s) with
      | row :: _ => with_vars s (write_all (List.combine (map snd ios) row) (vars s))
      | [] => s
      end
  | _ => s
  end.

Definition mk_ctrl (c : nat) (k : kind) : ctrl cst :=
  let idf := fun s : cst => s in
  let setapp := fun s : cst => with_applied s (setb c true (applied s)) in
  match k with
  | KDisc t lo up =>
      {| cid := c; c_conv := fun s => (disc_conv t lo up s, s); c_step := disc_step t lo up;
         c_repair := idf; c_init := idf; c_reset := idf; c_final := idf |}
  | KCont t p =>
      {| cid := c; c_conv := fun s => (cont_conv t p s, s); c_step := cont_step t p;
         c_repair := idf; c_init := idf; c_reset := idf; c_final := idf |}
  | KConst =>
      {| cid := c; c_conv := fun s => (getb c (applied s), s); c_step := setapp;
         c_repair := idf; c_init := idf; c_reset := idf; c_final := idf |}
  | KChar in_res inp out pts tol =>
      {| cid := c; c_conv := char_conv c in_res inp out pts tol; c_step := char_step c in_res inp out pts;
         c_repair := idf;
         c_init := fun s => with_applied s (setb c false (applied s));     (* initialize_control (:64-69) *)
         c_reset := idf; c_final := idf |}
  | KDiscV ts ntd lo up hl =>
      {| cid := c; c_conv := fun s => (discv_conv ts ntd lo up s, s); c_step := discv_step c ts ntd lo up hl;
         c_repair := idf; c_init := discv_init c ts; c_reset := idf; c_final := idf |}
  | KContV tks ntd =>
      {| cid := c; c_conv := fun s => (contv_conv tks ntd s, s); c_step := contv_step tks ntd;
         c_repair := idf; c_init := idf; c_reset := idf; c_final := idf |}
  | KCharV in_res ios pts tol tdi =>
      {| cid := c; c_conv := charv_conv c in_res ios pts tol; c_step := charv_step c in_res ios pts;
         c_repair := idf; c_init := charv_init c ios tdi; c_reset := idf; c_final := charv_final c ios tdi |}
  end.

(* the controllers as they were before the two repairs (regression witnesses) *)
Definition mk_ctrl_old (c : nat) (k : kind) : ctrl cst :=
  let idf := fun s : cst => s in
  let setapp := fun s : cst => with_applied s (setb c true (applied s)) in
  match k with
  | KDisc t lo up =>
      {| cid := c; c_conv := fun s => (disc_conv t lo up s, s); c_step := disc_step_old t lo up;
         c_repair := idf; c_init := idf; c_reset := idf; c_final := idf |}
  | KChar in_res inp out pts tol =>
      {| cid := c; c_conv := char_conv_old c in_res inp out pts tol; c_step := setapp;
         c_repair := idf; c_init := fun s => with_applied s (setb c false (applied s));
         c_reset := idf; c_final := idf |}
  | _ => mk_ctrl c k
  end.

Definition entry := centry (nat * kind).
Definition to_ctrl (e : entry) : ctrl cst := mk_ctrl (fst (e_obj e)) (snd (e_obj e)).

(* run_control(net, max_iter, continue_on_divergence, check_each_level) on a controller table *)
Definition to_ctrl_old (e : entry) : ctrl cst := mk_ctrl_old (fst (e_obj e)) (snd (e_obj e)).
Definition run_net_old (max_iter : Z) (cod cel : bool) (cs : list entry) (s : cst)
  : option (outcome * cst * list (ev cst)) :=
  match ctrl_variables _ cs with
  | None => None
  | Some (co, ir) => Some (run_control cst run_stream max_iter cod cel ir (map (map to_ctrl_old) co) s)
  end.
Definition run_net (max_iter : Z) (cod cel : bool) (cs : list entry) (s : cst)
  : option (outcome * cst * list (ev cst)) :=
  match ctrl_variables _ cs with
  | None => None
  | Some (co, ir) => Some (run_control cst run_stream max_iter cod cel ir (map (map to_ctrl) co) s)
  end.

(* ---- spec side *)
(* "inside its band or the tap is at the limit in the needed direction" (or no voltage at the bus) *)
Definition needs_lower_tap (t : tapc) (low_voltage : bool) : bool := Bool.eqb (t_dir t) low_voltage.
Definition tap_is (tap : F) (lim : Q) : Prop := match tap with Some x => x == lim | None => False end.
Definition limit_for (t : tapc) (low_voltage : bool) : Q := if needs_lower_tap t low_voltage then t_min t else t_max t.
Definition disc_ok (t : tapc) (lower upper : Q) (vm tap : F) : Prop :=
  match vm with
  | None => True
  | Some v =>
      (lower < v /\ v < upper) \/
      (v < lower /\ tap_is tap (limit_for t true)) \/
      (upper < v /\ tap_is tap (limit_for t false))
  end.
Definition cont_ok (t : tapc) (k : contp) (vm tap : F) : Prop :=
  match vm with
  | None => True
  | Some v =>
      (~ v == 0 /\ Qabs (1 - k_vset k / v) < k_tol k) \/
      (k_check k = true /\
       ((v < k_vset k /\ tap_is tap (limit_for t true)) \/ (k_vset k < v /\ tap_is tap (limit_for t false))))
  end.
Definition integral (x : Q) : Prop := exists z : Z, x == inject_Z z.
Definition in_bounds (t : tapc) (tap : F) : Prop :=
  match tap with Some x => t_min t <= x /\ x <= t_max t | None => True end.

(* vector controllers: EVERY listed element satisfies the scalar criterion *)
Definition discv_ok (ts : list tapc) (lower upper : Q) (s : cst) : Prop :=
  Forall (fun t => disc_ok t lower upper (get (t_bus t) (res s)) (get (t_trafo t) (vars s))) ts.
Definition contv_ok (tks : list (tapc * contp)) (s : cst) : Prop :=
  Forall (fun tk => cont_ok (fst tk) (snd tk) (get (t_bus (fst tk)) (res s)) (get (t_trafo (fst tk)) (vars s))) tks.
(* characteristic controller: every output is within tol of the characteristic of its input *)
Definition charv_elem_ok (in_res : bool) (pts : list (Q * Q)) (tol : Q) (s : cst) (io : nat * nat) : Prop :=
  match char_value in_res (fst io) pts s, get (snd io) (vars s) with
  | Some a, Some b0 => Qabs (a - b0) < tol
  | _, _ => False
  end.
(* G13r: no TapDependentImpedance with restore among the controllers (finalize_control is the identity) *)
Definition restores (k : kind) : bool := match k with KCharV _ _ _ _ (Some true) => true | _ => false end.

(* G13: the schedule has at most one non-empty level *)
Definition G13 {A} (ls : list (list A)) : bool :=
  (List.length (filter (fun l => match l with [] => false | _ => true end) ls) <=? 1)%nat.

(* ---- output *)
Definition oslots (m : slots) : out := olist (fun p => OL [onat (fst p); ooq (snd p)]) m.
Definition oev (e : ev cst) : out :=
  match e with
  | EConv c b s => OL [OS "conv"; onat c; OB b; oslots (vars s)]
  | EStep c s => OL [OS "step"; onat c; oslots (vars s); olist (olist ooq) (geta c (attrs s))]
  | ERun ok s => OL [OS "run"; OB ok]
  | ERepair c => OL [OS "repair"; onat c]
  end.
Definition ooutcome (o : outcome) : out :=
  match o with Ok => OS "ok" | ErrCtrl => OErr "ControllerNotConverged" | ErrNet => OErr "NetCalculationNotConverged"
             | ErrRun => OErr "LoadflowNotConverged" | ErrUser => OErr "UserWarning" end.
(* final verdicts: is_converged of every in-service controller called once more, in table order, on the returned state *)
Fixpoint verdicts (l : list (ctrl cst)) (s : cst) : list (nat * bool) :=
  match l with
  | [] => []
  | c :: l' => let (b, s1) := c_conv c s in (cid c, b) :: verdicts l' s1
  end.
Definition run_out (max_iter : Z) (cod cel : bool) (cs : list entry) (s : cst) : out :=
  match run_net max_iter cod cel cs s with
  | None => OErr "UserWarning"
  | Some (o, s', t) =>
      OL [ooutcome o; olist oev t; oslots (vars s');
          olist (fun p => OL [onat (fst p); OB (snd p)]) (verdicts (map to_ctrl (filter e_ins cs)) s')]
  end.
Definition order_out (cs : list entry) : out :=
  match controller_order _ cs with
  | None => OErr "UserWarning"
  | Some (ll, co) => OL [olist oq ll; olist (olist (fun e => onat (fst (e_obj e)))) co]
  end.
