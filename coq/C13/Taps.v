From Coq Require Import ZArith QArith Qabs List Bool Lia Lqa Sorted Permutation.
From PPV Require Import Base.QN C13.Model.
Import ListNotations.
Open Scope Q_scope.

(* ---------------------------------------------------------------- small reflection lemmas *)
Lemma flt_ss x y : flt (Some x) (Some y) = true <-> x < y.
Proof. cbn. apply qltb_lt. Qed.
Lemma feq_s tap y : feq tap (Some y) = true <-> tap_is tap y.
Proof. destruct tap as [x|]; cbn; [apply qeqb_eq | split; [discriminate | intros []]]. Qed.
Lemma qabsv_correct x : qabsv x == Qabs x.
Proof.
  unfold qabsv. destruct (qltb x 0) eqn:E.
  - apply qltb_lt in E. rewrite qopp_correct. rewrite Qabs_neg; [reflexivity | apply Qlt_le_weak; exact E].
  - apply qltb_ge in E. rewrite Qabs_pos; [reflexivity | exact E].
Qed.

(* ---------------------------------------------------------------- converged-iff characterisations *)
Lemma disc_converged_iff t lo up s :
  disc_conv t lo up s = true <->
  t_ntd t = true \/ disc_ok t lo up (get (t_bus t) (res s)) (get (t_trafo t) (vars s)).
Proof.
  unfold disc_conv, disc_ok, limit_for, needs_lower_tap.
  destruct (t_ntd t); [split; auto|].
  destruct (get (t_bus t) (res s)) as [v|].
  2:{ cbn. rewrite orb_true_r. split; auto. }
  set (tap := get (t_trafo t) (vars s)).
  assert (E1 : flt (Some v) (Some lo) = true <-> v < lo) by apply flt_ss.
  assert (E2 : flt (Some up) (Some v) = true <-> up < v) by apply flt_ss.
  assert (E3 : flt (Some lo) (Some v) = true <-> lo < v) by apply flt_ss.
  assert (E4 : flt (Some v) (Some up) = true <-> v < up) by apply flt_ss.
  pose proof (feq_s tap (t_min t)) as E5. pose proof (feq_s tap (t_max t)) as E6.
  cbn [fnan]. rewrite orb_false_r.
  destruct (t_dir t); cbn [Bool.eqb];
    rewrite !orb_true_iff, !andb_true_iff, E1, E2, E3, E4, E5, E6; split.
  - intros [[[A B]|[A B]]|[A B]]; right; auto.
  - intros [X|[[A B]|[[A B]|[A B]]]]; [discriminate | right; auto | left; left; auto | left; right; auto].
  - intros [[[A B]|[A B]]|[A B]]; right; auto.
  - intros [X|[[A B]|[[A B]|[A B]]]]; [discriminate | right; auto | left; left; auto | left; right; auto].
Qed.

Lemma cont_converged_iff t k s :
  cont_conv t k s = true <->
  t_ntd t = true \/ cont_ok t k (get (t_bus t) (res s)) (get (t_trafo t) (vars s)).
Proof.
  unfold cont_conv, cont_ok, limit_for, needs_lower_tap.
  destruct (t_ntd t); [split; auto|].
  destruct (get (t_bus t) (res s)) as [v|].
  2:{ cbn. rewrite orb_true_r. split; auto. }
  set (tap := get (t_trafo t) (vars s)).
  assert (E1 : flt (Some v) (Some (k_vset k)) = true <-> v < k_vset k) by apply flt_ss.
  assert (E2 : flt (Some (k_vset k)) (Some v) = true <-> k_vset k < v) by apply flt_ss.
  pose proof (feq_s tap (t_min t)) as E5. pose proof (feq_s tap (t_max t)) as E6.
  assert (W : (if qeqb v 0 then false else qltb (qabsv (qsub 1 (qdiv (k_vset k) v))) (k_tol k)) = true <->
              (~ v == 0 /\ Qabs (1 - k_vset k / v) < k_tol k)).
  { destruct (qeqb v 0) eqn:E.
    - apply qeqb_eq in E. split; [discriminate | intros [A _]; contradiction].
    - assert (Hn : ~ v == 0) by (intros X; apply qeqb_eq in X; congruence).
      rewrite qltb_lt, qabsv_correct, qsub_correct, qdiv_correct. split; [intros; split; assumption | intros [_ X]; exact X]. }
  cbn [fnan]. rewrite orb_false_r.
  destruct (k_check k); destruct (t_dir t); cbn [Bool.eqb];
    rewrite ?orb_true_iff, ?andb_true_iff, ?E1, ?E2, ?E5, ?E6, W; split.
  - intros [[[A B]|[A B]]|A]; right; auto.
  - intros [X|[A|[_ [[A B]|[A B]]]]]; [discriminate | right; auto | left; left; auto | left; right; auto].
  - intros [[[A B]|[A B]]|A]; right; auto.
  - intros [X|[A|[_ [[A B]|[A B]]]]]; [discriminate | right; auto | left; left; auto | left; right; auto].
  - intros A; right; auto.
  - intros [X|[A|[X _]]]; [discriminate | exact A | discriminate].
  - intros A; right; auto.
  - intros [X|[A|[X _]]]; [discriminate | exact A | discriminate].
Qed.

(* ---------------------------------------------------------------- tap bounds *)
Lemma int_lt_succ a b : integral a -> integral b -> a < b -> a + 1 <= b.
Proof.
  intros [za Ha] [zb Hb] H. rewrite Ha, Hb in *. rewrite <- Zlt_Qlt in H.
  change 1 with (inject_Z 1). rewrite <- inject_Z_plus. rewrite <- Zle_Qle. lia.
Qed.
Lemma integral_plus a z : integral a -> integral (a + inject_Z z).
Proof. intros [za Ha]. exists (za + z)%Z. rewrite Ha, inject_Z_plus. reflexivity. Qed.

(* the discrete increment is -1, 0 or +1 and never leaves [tap_min, tap_max] from an integral position inside *)
Lemma disc_incr_in_bounds t lo up vm x :
  integral x -> integral (t_min t) -> integral (t_max t) ->
  t_min t <= x <= t_max t ->
  t_min t <= x + disc_incr t lo up vm (Some x) <= t_max t /\ integral (x + disc_incr t lo up vm (Some x)).
Proof.
  intros Ix Imin Imax [H1 H2]. unfold disc_incr.
  assert (Im : integral (x + - (1))) by (apply (integral_plus x (-1)); exact Ix).
  assert (Ip : integral (x + 1)) by (apply (integral_plus x 1); exact Ix).
  assert (I0 : integral (x + 0)) by (apply (integral_plus x 0); exact Ix).
  assert (Dn : flt (Some (t_min t)) (Some x) = true -> t_min t <= x + - (1) <= t_max t).
  { intros E. apply flt_ss in E. pose proof (int_lt_succ _ _ Imin Ix E). split; lra. }
  assert (Up : flt (Some x) (Some (t_max t)) = true -> t_min t <= x + 1 <= t_max t).
  { intros E. apply flt_ss in E. pose proof (int_lt_succ _ _ Ix Imax E). split; lra. }
  assert (Z0 : t_min t <= x + 0 <= t_max t) by (split; lra).
  destruct (t_dir t).
  - destruct (flt vm (Some lo) && flt (Some (t_min t)) (Some x)) eqn:E1.
    + apply andb_true_iff in E1. destruct E1 as [_ E1]. split; [apply Dn; exact E1 | exact Im].
    + destruct (flt (Some up) vm && flt (Some x) (Some (t_max t))) eqn:E2.
      * apply andb_true_iff in E2. destruct E2 as [_ E2]. split; [apply Up; exact E2 | exact Ip].
      * split; [exact Z0 | exact I0].
  - destruct (flt vm (Some lo) && flt (Some x) (Some (t_max t))) eqn:E1.
    + apply andb_true_iff in E1. destruct E1 as [_ E1]. split; [apply Up; exact E1 | exact Ip].
    + destruct (flt (Some up) vm && flt (Some (t_min t)) (Some x)) eqn:E2.
      * apply andb_true_iff in E2. destruct E2 as [_ E2]. split; [apply Dn; exact E2 | exact Im].
      * split; [exact Z0 | exact I0].
Qed.

(* after the repair no integrality is needed: a discrete step from any position inside the bounds stays inside *)
Lemma qmax_cases x y : (x < y /\ qmax x y = y) \/ (y <= x /\ qmax x y = x).
Proof.
  unfold qmax. destruct (qltb x y) eqn:E.
  - left. split; [apply qltb_lt; exact E | reflexivity].
  - right. split; [apply qltb_ge; exact E | reflexivity].
Qed.
Lemma qmin_cases x y : (y < x /\ qmin x y = y) \/ (x <= y /\ qmin x y = x).
Proof.
  unfold qmin. destruct (qltb y x) eqn:E.
  - left. split; [apply qltb_lt; exact E | reflexivity].
  - right. split; [apply qltb_ge; exact E | reflexivity].
Qed.
Lemma disc_new_tap_in_bounds t lo up vm x :
  t_min t <= x <= t_max t -> t_min t <= disc_new_tap t lo up vm x <= t_max t.
Proof.
  intros [H1 H2]. unfold disc_new_tap. set (i := disc_incr t lo up vm (Some x)).
  destruct (qltb 0 i) eqn:E1.
  - apply qltb_lt in E1. destruct (qmin_cases (qadd x i) (t_max t)) as [[A ->]|[A ->]]; qnorm; split; lra.
  - apply qltb_ge in E1. destruct (qltb i 0) eqn:E2.
    + apply qltb_lt in E2. destruct (qmax_cases (qadd x i) (t_min t)) as [[A ->]|[A ->]]; qnorm; split; lra.
    + apply qltb_ge in E2. qnorm. split; lra.
Qed.
(* and from an integral position strictly inside it is exactly one step (the repair changes nothing there) *)
Lemma disc_new_tap_integral t lo up vm x :
  integral x -> integral (t_min t) -> integral (t_max t) -> t_min t <= x <= t_max t ->
  disc_new_tap t lo up vm x == x + disc_incr t lo up vm (Some x).
Proof.
  intros Ix Imin Imax Hb. destruct (disc_incr_in_bounds t lo up vm x Ix Imin Imax Hb) as [[B1 B2] _].
  unfold disc_new_tap. set (i := disc_incr t lo up vm (Some x)) in *.
  destruct (qltb 0 i) eqn:E1.
  - destruct (qmin_cases (qadd x i) (t_max t)) as [[A ->]|[A ->]]; qnorm; [lra | reflexivity].
  - destruct (qltb i 0) eqn:E2.
    + destruct (qmax_cases (qadd x i) (t_min t)) as [[A ->]|[A ->]]; qnorm; [lra | reflexivity].
    + qnorm. reflexivity.
Qed.

Lemma clip_in x lo hi : lo <= hi -> lo <= clip x lo hi <= hi.
Proof.
  intros H. unfold clip.
  destruct (qmax_cases x lo) as [[A ->]|[A ->]]; destruct (qmin_cases lo hi) as [[B E]|[B E]];
    try (destruct (qmin_cases x hi) as [[C ->]|[C ->]]); try rewrite E; split; lra.
Qed.

(* with check_tap_bounds the continuous controller writes a tap inside the bounds whatever the voltage and the start *)
Lemma cont_new_tap_in_bounds t k vm tap :
  k_check k = true -> t_min t <= t_max t ->
  t_min t <= cont_new_tap t k vm tap <= t_max t.
Proof. intros Hc H. unfold cont_new_tap. rewrite Hc. apply clip_in. exact H. Qed.

(* progress: a discrete controller that is not converged (voltage strictly outside the band, tap inside the bounds)
   moves the tap by one step in the needed direction *)
Lemma disc_not_converged_moves t lo up s v x :
  t_ntd t = false ->
  get (t_bus t) (res s) = Some v -> get (t_trafo t) (vars s) = Some x ->
  t_min t <= x <= t_max t -> ~ v == lo -> ~ v == up -> lo <= up ->
  disc_conv t lo up s = false ->
  (v < lo /\ disc_incr t lo up (Some v) (Some x) == (if needs_lower_tap t true then -(1) else 1)) \/
  (up < v /\ disc_incr t lo up (Some v) (Some x) == (if needs_lower_tap t false then -(1) else 1)).
Proof.
  intros Hn Hv Hx [B1 B2] Nlo Nup Hlu Hc.
  assert (Hnot : ~ (t_ntd t = true \/ disc_ok t lo up (get (t_bus t) (res s)) (get (t_trafo t) (vars s)))).
  { intros X. apply disc_converged_iff in X. congruence. }
  rewrite Hv, Hx in Hnot. unfold disc_ok, limit_for, needs_lower_tap, tap_is in Hnot.
  unfold disc_incr, needs_lower_tap.
  destruct (Qlt_le_dec v lo) as [L|L].
  - left. split; [exact L|].
    assert (F1 : flt (Some v) (Some lo) = true) by (apply flt_ss; exact L).
    rewrite F1. cbn [andb].
    destruct (t_dir t); cbn [Bool.eqb] in *.
    + assert (Hne : ~ x == t_min t) by (intros X; apply Hnot; right; right; left; split; assumption).
      assert (F2 : flt (Some (t_min t)) (Some x) = true) by (apply flt_ss; destruct (Qlt_le_dec (t_min t) x) as [Y|Y]; [exact Y | exfalso; apply Hne; lra]).
      rewrite F2. reflexivity.
    + assert (Hne : ~ x == t_max t) by (intros X; apply Hnot; right; right; left; split; assumption).
      assert (F2 : flt (Some x) (Some (t_max t)) = true) by (apply flt_ss; destruct (Qlt_le_dec x (t_max t)) as [Y|Y]; [exact Y | exfalso; apply Hne; lra]).
      rewrite F2. reflexivity.
  - assert (L' : lo < v) by (destruct (Qlt_le_dec lo v) as [Y|Y]; [exact Y | exfalso; apply Nlo; lra]).
    destruct (Qlt_le_dec up v) as [U|U].
    + right. split; [exact U|].
      assert (F0 : flt (Some v) (Some lo) = false) by (cbn; apply qltb_ge; exact L).
      assert (F1 : flt (Some up) (Some v) = true) by (apply flt_ss; exact U).
      rewrite F0, F1. cbn [andb].
      destruct (t_dir t); cbn [Bool.eqb] in *.
      * assert (Hne : ~ x == t_max t) by (intros X; apply Hnot; right; right; right; split; assumption).
        assert (F2 : flt (Some x) (Some (t_max t)) = true) by (apply flt_ss; destruct (Qlt_le_dec x (t_max t)) as [Y|Y]; [exact Y | exfalso; apply Hne; lra]).
        rewrite F2. reflexivity.
      * assert (Hne : ~ x == t_min t) by (intros X; apply Hnot; right; right; right; split; assumption).
        assert (F2 : flt (Some (t_min t)) (Some x) = true) by (apply flt_ss; destruct (Qlt_le_dec (t_min t) x) as [Y|Y]; [exact Y | exfalso; apply Hne; lra]).
        rewrite F2. reflexivity.
    + exfalso. apply Hnot. right. left. split; [exact L'|].
      destruct (Qlt_le_dec v up) as [Y|Y]; [exact Y | exfalso; apply Nup; lra].
Qed.

(* ---------------------------------------------------------------- controller order *)
Section OrderProofs.
  Variable A : Type.
  Notation centry := (centry A).

  Lemma ins_q_in x l y : In y (ins_q x l) -> y = x \/ In y l.
  Proof.
    induction l as [|z l IH]; cbn.
    - intros [<-|[]]. left. reflexivity.
    - destruct (qltb x z).
      + intros [<-|H]; [left; reflexivity | right; exact H].
      + destruct (qeqb x z); [intros H; right; exact H|].
        intros [<-|H]; [right; left; reflexivity|]. destruct (IH H); [left | right; right]; assumption.
  Qed.

  Lemma ins_q_sorted x l : StronglySorted Qlt l -> StronglySorted Qlt (ins_q x l).
  Proof.
    induction l as [|z l IH]; intros Hs; cbn.
    - constructor; constructor.
    - inversion Hs as [|? ? Hl Hz]. subst.
      destruct (qltb x z) eqn:E1.
      + apply qltb_lt in E1. constructor; [exact Hs|]. constructor; [exact E1|].
        rewrite Forall_forall in *. intros w Hw. eapply Qlt_trans; [exact E1 | apply Hz; exact Hw].
      + destruct (qeqb x z) eqn:E2; [exact Hs|].
        apply qltb_ge in E1.
        assert (Hzx : z < x).
        { destruct (Qlt_le_dec z x) as [Y|Y]; [exact Y|]. exfalso.
          assert (X : x == z) by lra. apply qeqb_eq in X. congruence. }
        constructor; [apply IH; exact Hl|].
        rewrite Forall_forall in *. intros w Hw. apply ins_q_in in Hw. destruct Hw as [->|Hw]; [exact Hzx | apply Hz; exact Hw].
  Qed.

  (* the level list is strictly ascending (sorted, duplicates removed) *)
  Lemma level_list_sorted (cs : list centry) : StronglySorted Qlt (level_list A cs).
  Proof.
    unfold level_list. induction (List.concat (map (fun c : centry => match e_levels c with Some l => l | None => [] end) cs)) as [|x l IH]; cbn.
    - constructor.
    - apply ins_q_sorted. exact IH.
  Qed.

  Definition ord_le (a b : centry) : Prop := e_order a <= e_order b.

  Lemma ins_c_perm x l : Permutation (ins_c A x l) (x :: l).
  Proof.
    induction l as [|y l IH]; cbn; [reflexivity|].
    destruct (qleb (e_order x) (e_order y)); [reflexivity|].
    rewrite IH. apply perm_swap.
  Qed.
  Lemma sort_c_perm l : Permutation (sort_c A l) l.
  Proof.
    induction l as [|x l IH]; cbn; [reflexivity|]. rewrite ins_c_perm. constructor. exact IH.
  Qed.
  Lemma ins_c_sorted x l : StronglySorted ord_le l -> StronglySorted ord_le (ins_c A x l).
  Proof.
    induction l as [|y l IH]; intros Hs; cbn.
    - constructor; constructor.
    - inversion Hs as [|? ? Hl Hy]. subst.
      destruct (qleb (e_order x) (e_order y)) eqn:E.
      + apply qleb_le in E. constructor; [exact Hs|]. constructor; [exact E|].
        rewrite Forall_forall in *. intros w Hw. unfold ord_le in *. eapply Qle_trans; [exact E | apply Hy; exact Hw].
      + assert (Hyx : e_order y <= e_order x).
        { destruct (Qlt_le_dec (e_order y) (e_order x)) as [Y|Y]; [apply Qlt_le_weak; exact Y|].
          apply qleb_le in Y. congruence. }
        constructor; [apply IH; exact Hl|].
        rewrite Forall_forall in *. intros w Hw.
        apply (Permutation_in _ (ins_c_perm x l)) in Hw. destruct Hw as [<-|Hw]; [exact Hyx | apply Hy; exact Hw].
  Qed.
  Lemma sort_c_sorted l : StronglySorted ord_le (sort_c A l).
  Proof. induction l as [|x l IH]; cbn; [constructor | apply ins_c_sorted; exact IH]. Qed.

  (* within a level: exactly the in-service controllers that list the level, in non-decreasing order of [order] *)
  Lemma level_members_spec (cs : list centry) lv :
    StronglySorted ord_le (level_members A cs lv) /\
    Permutation (level_members A cs lv) (filter (in_level A lv) cs).
  Proof. unfold level_members. split; [apply sort_c_sorted | apply sort_c_perm]. Qed.

  Lemma controller_order_spec (cs : list centry) ll co :
    controller_order A cs = Some (ll, co) ->
    StronglySorted Qlt ll /\
    co = map (level_members A cs) ll /\
    (forall lv, In lv (List.concat (map (fun c : centry => match e_levels c with Some l => l | None => [] end) cs)) ->
                exists lv', In lv' ll /\ lv' == lv).
  Proof.
    unfold controller_order. destruct (existsb _ cs); [discriminate|]. intros H. inversion H. subst.
    split; [apply level_list_sorted|]. split; [reflexivity|].
    unfold level_list.
    induction (List.concat (map (fun c : centry => match e_levels c with Some l => l | None => [] end) cs)) as [|x l IH]; cbn.
    - intros lv [].
    - intros lv [<-|Hin].
      + clear IH. induction (fold_right ins_q [] l) as [|z m IHm]; cbn.
        * exists x. split; [left; reflexivity | reflexivity].
        * destruct (qltb x z); [exists x; split; [left; reflexivity | reflexivity]|].
          destruct (qeqb x z) eqn:E.
          -- apply qeqb_eq in E. exists z. split; [left; reflexivity | symmetry; exact E].
          -- destruct IHm as (lv' & I1 & I2). exists lv'. split; [right; exact I1 | exact I2].
      + destruct (IH lv Hin) as (lv' & I1 & I2). clear IH.
        revert lv' I1 I2. induction (fold_right ins_q [] l) as [|z m IHm]; intros lv' I1 I2; [destruct I1|].
        cbn. destruct (qltb x z); [exists lv'; split; [right; exact I1 | exact I2]|].
        destruct (qeqb x z) eqn:E; [exists lv'; split; [exact I1 | exact I2]|].
        destruct I1 as [<-|I1]; [exists z; split; [left; reflexivity | exact I2]|].
        destruct (IHm lv' I1 I2) as (w & W1 & W2). exists w. split; [right; exact W1 | exact W2].
  Qed.
End OrderProofs.

(* ---------------------------------------------------------------- concrete witnesses *)
Definition tc0 : tapc := {| t_trafo := 1; t_bus := 2; t_min := -(2); t_max := 2; t_dir := true; t_ntd := false |}.
Definition tc1 : tapc := {| t_trafo := 0; t_bus := 1; t_min := -(9); t_max := 9; t_dir := true; t_ntd := false |}.
Definition mk (c : nat) (k : kind) (lv : Q) : entry :=
  Build_centry (c, k) (Some [lv]) 0 true true.

(* the reproduced case: tap controller of the 20/0.4 kV transformer at level 0 (band [0.98,1.02] at bus 2), tap controller
   of the 110/20 kV transformer at level 1 (band [1.03,1.06] at bus 1); voltages as recorded from runpp (rounded) *)
Definition w_cs : list entry :=
  [ mk 0 (KDisc tc0 (98#100) (102#100)) 0; mk 1 (KDisc tc1 (103#100) (106#100)) 1 ].
Definition w_res (v1 v2 : Q) : slots * bool := ([(0%nat, Some 1); (1%nat, Some v1); (2%nat, Some v2)], true).
Definition w_state : cst :=
  {| vars := [(0%nat, Some 0); (1%nat, Some 0)]; res := []; applied := []; attrs := [];
     stream := [ w_res (9817#10000) (9634#10000); w_res (9817#10000) (9891#10000); w_res (9973#10000) (10053#10000);
                 w_res (10133#10000) (10221#10000); w_res (10298#10000) (10393#10000); w_res (10469#10000) (10571#10000) ] |}.

Lemma tap_ctrl_pure c t lo up : forall s, snd (c_conv (mk_ctrl c (KDisc t lo up)) s) = s.
Proof. reflexivity. Qed.

Definition e0 : entry := mk 0 (KDisc tc0 (98#100) (102#100)) 0.
Definition unconverged_on_return (max_iter : Z) (cel : bool) (cs : list entry) (s : cst) (e : entry) : bool :=
  match run_net max_iter false cel cs s with
  | Some (Ok, s', _) => negb (fst (c_conv (to_ctrl e) s'))
  | _ => false
  end.
Lemma multilevel_check : unconverged_on_return 30 true w_cs w_state e0 = true.
Proof. vm_compute. reflexivity. Qed.

Lemma multilevel_refuted :
  exists (cs : list entry) (s s' : cst) t,
    run_net 30 false true cs s = Some (Ok, s', t) /\
    (forall e, In e cs -> forall x, snd (c_conv (to_ctrl e) x) = x) /\
    exists e, In e cs /\ e_ins e = true /\ fst (c_conv (to_ctrl e) s') = false.
Proof.
  exists w_cs, w_state. pose proof multilevel_check as H. unfold unconverged_on_return in H.
  destruct (run_net 30 false true w_cs w_state) as [[[o s'] t]|]; [|discriminate].
  destruct o; try discriminate.
  exists s', t. split; [reflexivity|]. split.
  - intros e [<-|[<-|[]]] x; reflexivity.
  - exists e0. split; [left; reflexivity|]. split; [reflexivity|]. apply negb_true_iff in H. exact H.
Qed.

(* check_each_level = False: one level that exhausts max_iter followed by an empty level (created by an out-of-service
   controller's level) returns normally *)
Definition w2_cs : list entry :=
  [ mk 0 (KDisc tc0 (98#100) (102#100)) 0; Build_centry (1%nat, KConst) (Some [1]) 0 false true ].
Definition w2_state : cst :=
  {| vars := [(0%nat, Some 0); (1%nat, Some 0)]; res := []; applied := []; attrs := [];
     stream := [ w_res (9817#10000) (9300#10000); w_res (9817#10000) (9550#10000) ] |}.
Lemma cel_off_check : unconverged_on_return 0 false w2_cs w2_state e0 = true.
Proof. vm_compute. reflexivity. Qed.
Lemma check_each_level_off_refuted :
  exists (cs : list entry) (s s' : cst) t,
    run_net 0 false false cs s = Some (Ok, s', t) /\
    exists e, In e cs /\ e_ins e = true /\ fst (c_conv (to_ctrl e) s') = false.
Proof.
  exists w2_cs, w2_state. pose proof cel_off_check as H. unfold unconverged_on_return in H.
  destruct (run_net 0 false false w2_cs w2_state) as [[[o s'] t]|]; [|discriminate].
  destruct o; try discriminate.
  exists s', t. split; [reflexivity|].
  exists e0. split; [left; reflexivity|]. split; [reflexivity|]. apply negb_true_iff in H. exact H.
Qed.

(* CharacteristicControl: single level, normal return, but the element value was rewritten after the last calculation *)
Definition w3_cs : list entry :=
  [ mk 0 (KChar true 5 7 [(94#100, 1#10); (98#100, 0); (102#100, 0); (106#100, -(1#10))] (1#1000)) 0 ].
Definition w3_state : cst :=
  {| vars := [(7%nat, Some 0)]; res := []; applied := [(0%nat, false)]; attrs := [];
     stream := [ ([(5%nat, Some (1040#1000))], true); ([(5%nat, Some (10398#10000))], true); ([(5%nat, Some (10398#10000))], true) ] |}.
Definition last_run_vars (t : list (ev cst)) : option slots :=
  fold_left (fun acc e => match e with ERun _ s => Some (vars s) | _ => acc end) t None.
Definition feq_opt (a b : F) : bool :=
  match a, b with Some x, Some y => qeqb x y | None, None => true | _, _ => false end.
Definition stale_on_return (cs : list entry) (s : cst) (k : nat) : bool :=
  match run_net_old 30 false true cs s with
  | Some (Ok, s', t) => match last_run_vars t with Some v => negb (feq_opt (get k v) (get k (vars s'))) | None => false end
  | _ => false
  end.
Lemma stale_check : stale_on_return w3_cs w3_state 7 = true.
Proof. vm_compute. reflexivity. Qed.
Lemma fresh_results_refuted :
  exists (cs : list entry) (s s' : cst) t,
    G13 (match ctrl_variables _ cs with Some (co, _) => co | None => [] end) = true /\
    run_net_old 30 false true cs s = Some (Ok, s', t) /\
    exists v, last_run_vars t = Some v /\ feq_opt (get 7 v) (get 7 (vars s')) = false.
Proof.
  exists w3_cs, w3_state. pose proof stale_check as H. unfold stale_on_return in H.
  destruct (run_net_old 30 false true w3_cs w3_state) as [[[o s'] t]|]; [|discriminate].
  destruct o; try discriminate.
  exists s', t. split; [reflexivity|]. split; [reflexivity|].
  destruct (last_run_vars t) as [v|]; [|discriminate]. exists v. split; [reflexivity|].
  apply negb_true_iff in H. exact H.
Qed.

(* a discrete step from a fractional position inside the bounds leaves them *)
Lemma disc_fractional_refuted :
  exists t lo up vm x, t_min t <= x <= t_max t /\ ~ (x + disc_incr t lo up vm (Some x) <= t_max t).
Proof.
  exists {| t_trafo := 0; t_bus := 0; t_min := -(2); t_max := 2; t_dir := false; t_ntd := false |},
         (98#100), (102#100), (Some (9#10)), (3#2).
  split; [split; vm_compute; discriminate|]. vm_compute. intros H. apply H. reflexivity.
Qed.

(* without check_tap_bounds the continuous controller leaves the bounds *)
Lemma cont_unchecked_refuted :
  exists t k vm tap, k_check k = false /\ t_min t <= tap <= t_max t /\ ~ (cont_new_tap t k vm tap <= t_max t).
Proof.
  exists {| t_trafo := 0; t_bus := 0; t_min := -(2); t_max := 2; t_dir := true; t_ntd := false |},
         {| k_vset := 1; k_tol := 1#1000; k_step := 25#10; k_tnom := 1; k_check := false |}, (11#10), 0.
  split; [reflexivity|]. split; [split; vm_compute; discriminate|]. vm_compute. intros H. apply H. reflexivity.
Qed.

(* exactly on the band edge the discrete controller is neither converged nor able to move: the loop ends with
   ControllerNotConverged (no violation of the property, recorded as a remark) *)
Lemma disc_band_edge_livelock :
  exists t lo up s, disc_conv t lo up s = false /\ vars (disc_step t lo up s) = vars s.
Proof.
  exists tc0, (98#100), (102#100),
    {| vars := [(1%nat, Some 0)]; res := [(2%nat, Some (98#100))]; applied := []; attrs := []; stream := [] |}.
  split; reflexivity.
Qed.

(* after the repair every modelled controller kind has a pure is_converged: the freshness theorem applies to all of them *)
Lemma mk_ctrl_pure c k : forall s, snd (c_conv (mk_ctrl c k) s) = s.
Proof. destruct k; reflexivity. Qed.
(* the same CharacteristicControl run with the repaired controller: the element value on return is the one the last
   calculation has seen *)
Definition fresh_on_return (cs : list entry) (s : cst) (k : nat) : bool :=
  match run_net 30 false true cs s with
  | Some (Ok, s', t) => match last_run_vars t with Some v => feq_opt (get k v) (get k (vars s')) | None => false end
  | _ => false
  end.
Lemma fresh_check : fresh_on_return w3_cs w3_state 7 = true.
Proof. vm_compute. reflexivity. Qed.
